/-
Line protocol helpers shared by all model drivers (DESIGN.md 2.3).  Core Lean only.
-/
namespace DV

/-- split a line into whitespace-separated tokens -/
def tokens (line : String) : List String :=
  (line.splitOn " ").filter (· ≠ "")

/-- parse a (possibly negative) decimal integer -/
def parseInt? (s : String) : Option Int := s.toInt?

def parseNat? (s : String) : Option Nat := s.toNat?

/-- parse `[a,b,c]` into integers; `[]` is the empty list -/
def parseIntList? (s : String) : Option (List Int) :=
  let cs := s.toList
  if cs.length < 2 then none else
  if cs.head? ≠ some '[' || cs.getLast? ≠ some ']' then none else
  let inner := String.ofList ((cs.drop 1).dropLast)
  if inner.isEmpty then some []
  else (inner.splitOn ",").mapM (fun t => t.toInt?)

def parseNatList? (s : String) : Option (List Nat) :=
  (parseIntList? s).bind fun l => l.mapM (fun i => if i < 0 then none else some i.toNat)

def showList {α} [ToString α] (l : List α) : String :=
  "[" ++ ",".intercalate (l.map toString) ++ "]"

def hexDigitVal? (c : Char) : Option Nat :=
  if '0' ≤ c ∧ c ≤ '9' then some (c.toNat - '0'.toNat)
  else if 'a' ≤ c ∧ c ≤ 'f' then some (c.toNat - 'a'.toNat + 10)
  else if 'A' ≤ c ∧ c ≤ 'F' then some (c.toNat - 'A'.toNat + 10)
  else none

def parseHex? (s : String) : Option Nat :=
  if s.isEmpty then none else
  s.toList.foldlM (fun acc c => (hexDigitVal? c).map (fun d => acc * 16 + d)) 0

def hexChar (d : Nat) : Char :=
  if d < 10 then Char.ofNat ('0'.toNat + d) else Char.ofNat ('a'.toNat + d - 10)

def toHexAux : Nat → Nat → List Char → List Char
  | 0, _, acc => acc
  | fuel+1, n, acc => if n = 0 then acc else toHexAux fuel (n / 16) (hexChar (n % 16) :: acc)

/-- lower-case hex without leading zeros, "0" for zero -/
def toHex (n : Nat) : String :=
  if n = 0 then "0" else String.ofList (toHexAux (n + 1) n [])

/-- read stdin line by line, answer every line with `handle line` -/
partial def loop (h : IO.FS.Stream) (out : IO.FS.Stream) (handle : String → String) : IO Unit := do
  let line ← h.getLine
  if line.isEmpty then return ()
  let l := if line.toList.getLast? == some '\n' then String.ofList line.toList.dropLast else line
  out.putStrLn (handle l)
  loop h out handle

def runDriver (handle : String → String) : IO Unit := do
  let i ← IO.getStdin
  let o ← IO.getStdout
  loop i o handle
  o.flush

end DV
