import DuneVerif.Proofs.C13Add
import DuneVerif.Proofs.C13Wire
import DuneVerif.Proofs.C13Sub
import DuneVerif.Proofs.C13Renumber
import DuneVerif.Proofs.C13Tie
import DuneVerif.Gen.C13
/-!
C13 — IndicesSyncer completes index sets and remote index lists to mutual consistency.

Property theorems about the protocol model `DV.C13.sync` (Model/C13.lean).  They hold for every process count
(`w.length`), every decomposition `D`, every state `w` that is a *partial view* of `D` (`PartialView D w`: per rank
an index set with each global index at most once in ascending order and the attribute `D` gives; neighbours in
ascending order; remote index lists in ascending order of the global index whose entries carry the attributes of `D`
and refer to a pair of the index set), every numbering `num` of new local indices and every processing order.
`partialView_of_deleted` shows that deleting arbitrary copies (with their remote entries) from the consistent state
of a decomposition — the specification of `RemoteIndices::rebuild` — gives such a state.

Reading of a remote index `en` found in the list that `p` keeps for neighbour `q`:  `en.g` global index, `en.own` the
attribute of `p`'s own pair, `en.rem` the attribute `p` believes `q`'s copy to have.
-/
namespace DV.C13

/-- consistent state minus arbitrary deleted copies (any subset per process) is a partial view of the decomposition -/
theorem partialView_of_deleted (D : Decomp) (hD : DecompWF D) (del : Nat → Int → Bool) :
    PartialView D (deleteCopies del (consistent D)) :=
  partialView_delete (partialView_consistent hD) del

/-- First sentence of the property: for every process `p`, neighbour `q` and global index `g` that `p` believed to be
present on `q` (remote index `en` in `p`'s list for `q`): after the sync `q` has `g` in its index set with the
attribute `p` believed, `q`'s list for `p` records `p`'s copy with `p`'s attribute, and for every other holder `r` of
`g` that `p` knew, `q`'s list for `r` records it with the attribute `p` knew (`r` becomes a neighbour if it was none). -/
theorem sync_postcondition (num : Int → Nat) (D : Decomp) (w : World) (hw : PartialView D w)
    (p q : Nat) (sp : RankState) (hp : w[p]? = some sp) (en : RemEntry) (hen : en ∈ listOf sp.remote q) :
    ∃ sq', (sync num w)[q]? = some sq' ∧
      hasKey sq'.idx en.g en.rem = true ∧
      (⟨en.g, en.rem, en.own⟩ : RemEntry) ∈ listOf sq'.remote p ∧
      ∀ r er, r ≠ q → er ∈ listOf sp.remote r → er.g = en.g →
        (⟨en.g, en.rem, er.rem⟩ : RemEntry) ∈ listOf sq'.remote r :=
  postcondition_rank num hw p q sp hp en hen

/-- Nothing known before is lost or altered: every pair of the index set (including its local number), every
neighbour and every remote index is still there (and by `sync_sorted` each global index still occurs only once, so
no second, different entry has appeared beside it). -/
theorem sync_monotone (num : Int → Nat) (D : Decomp) (w : World) (hw : PartialView D w)
    (q : Nat) (sq : RankState) (hq : w[q]? = some sq) :
    ∃ sq', (sync num w)[q]? = some sq' ∧
      (∀ e ∈ sq.idx, e ∈ sq'.idx) ∧
      (∀ x, isNeighbour sq.remote x = true → isNeighbour sq'.remote x = true) ∧
      (∀ x en, en ∈ listOf sq.remote x → en ∈ listOf sq'.remote x) :=
  monotone_rank num hw q sq hq

/-- Nothing is invented: a pair of the index set after the sync was there before, or it is numbered by `num` and some
process `p` believed `q` to hold exactly this (global, attribute); a remote index of `q`'s list for `x` after the sync
was there before, or some process `p` that believed `q` to hold the index either is `x` itself (and the entry carries
`p`'s own attribute) or listed `x` as a holder with that attribute. -/
theorem sync_exact (num : Int → Nat) (D : Decomp) (w : World) (hw : PartialView D w)
    (q : Nat) (sq sq' : RankState) (hq : w[q]? = some sq) (hq' : (sync num w)[q]? = some sq') :
    (∀ e ∈ sq'.idx, e ∈ sq.idx ∨
      (e.loc = num e.g ∧ ∃ (p : Nat) (sp : RankState) (enq : RemEntry), w[p]? = some sp ∧ enq ∈ listOf sp.remote q ∧ enq.g = e.g ∧ enq.rem = e.attr)) ∧
    (∀ x en, en ∈ listOf sq'.remote x → en ∈ listOf sq.remote x ∨
      ∃ (p : Nat) (sp : RankState) (enq : RemEntry), w[p]? = some sp ∧ enq ∈ listOf sp.remote q ∧ enq.g = en.g ∧ enq.rem = en.own ∧
        ((x = p ∧ en.rem = enq.own) ∨ (x ≠ q ∧ ∃ er, er ∈ listOf sp.remote x ∧ er.g = en.g ∧ er.rem = en.rem))) :=
  exact_rank num hw q sq sq' hq hq'

/-- All lists stay ordered by global index — strictly, i.e. without duplicates: the index set, the neighbour map and
every remote index list; attributes still agree with the decomposition.  (The whole invariant is preserved.) -/
theorem sync_sorted (num : Int → Nat) (D : Decomp) (w : World) (hw : PartialView D w) :
    PartialView D (sync num w) ∧
    ∀ (q : Nat) (sq' : RankState), (sync num w)[q]? = some sq' →
      sq'.idx.Pairwise (fun a b => a.g < b.g) ∧
      sq'.remote.Pairwise (fun a b => a.1 < b.1) ∧
      ∀ x ∈ sq'.remote, x.2.Pairwise (fun a b => a.g < b.g) := by
  have h := partialView_sync num hw
  refine ⟨h, fun q sq' hq => ?_⟩
  have hI := h q sq' hq
  exact ⟨hI.idxSorted, hI.rem.nbSorted, fun x hx => (hI.rem.nbOk x hx).2.2⟩

/-- Valid references into the re-sorted index set: `repairLocalIndexPointers` (`resolve`) finds for every remote
index a position in the new index set, and the pair at that position has the entry's global index and attribute. -/
theorem sync_refs_valid (num : Int → Nat) (D : Decomp) (w : World) (hw : PartialView D w)
    (q : Nat) (sq' : RankState) (hq : (sync num w)[q]? = some sq') :
    ∀ x ∈ sq'.remote, ∀ en ∈ x.2,
      ∃ k e, resolve sq'.idx en = some k ∧ sq'.idx[k]? = some e ∧ e.g = en.g ∧ e.attr = en.own := by
  intro x hx en hen
  have hI := partialView_sync num hw q sq' hq
  exact resolve_of_hasKey sq'.idx en (hI.rem.remTrue x hx en hen).2

/-- The remote indices count as in sync afterwards (on every rank, for every state). -/
theorem sync_synced (num : Int → Nat) (w : World) (q : Nat) (sq' : RankState)
    (hq : (sync num w)[q]? = some sq') : isSynced sq' = true := by
  rw [sync_getElem?] at hq
  simp only [Option.map_eq_some_iff] at hq
  obtain ⟨st, _, rfl⟩ := hq
  simp [syncRank, finish, isSynced]

/-- All message orders: whatever order each rank processes its neighbours' messages in (any permutation of its
inbox, chosen per rank), the resulting state of every rank is the same as with the fixed order. -/
theorem order_irrelevant (num : Int → Nat) (D : Decomp) (w : World) (hw : PartialView D w)
    (ord : Nat → List (Nat × List Item) → List (Nat × List Item))
    (hord : ∀ q, (ord q (inbox w q)).Perm (inbox w q)) :
    syncOrd ord num w = sync num w := by
  apply List.ext_getElem?
  intro q
  rw [syncOrd_getElem?, sync_getElem?]
  cases hq : w[q]? with
  | none => rfl
  | some st =>
    simp only [Option.map_some, Option.some.injEq]
    unfold syncRank
    rw [recvAll_eq_flat, recvAll_eq_flat]
    congr 1
    apply recvFlat_ext num st (hw q st hq) (P := w.length) (D := D)
    · intro x hx
      apply trueItems_inbox hw q x
      obtain ⟨m, hm, h1, h2⟩ := (mem_flatMsgs _ x).1 hx
      exact (mem_flatMsgs _ x).2 ⟨m, (hord q).mem_iff.1 hm, h1, h2⟩
    · intro x
      rw [mem_flatMsgs, mem_flatMsgs]
      constructor
      · rintro ⟨m, hm, h⟩; exact ⟨m, (hord q).mem_iff.1 hm, h⟩
      · rintro ⟨m, hm, h⟩; exact ⟨m, (hord q).mem_iff.2 hm, h⟩

/-- Receives commute: two published indices (from any sources) can be received in either order. -/
theorem receives_commute (num : Int → Nat) (D : Decomp) (P me : Nat) (st : RankState) (hI : RankInv D P me st)
    (x y : Nat × Item) (hx : TrueItem D P me x.1 x.2) (hy : TrueItem D P me y.1 y.2) :
    receiveItem num me y.1 (receiveItem num me x.1 st x.2) y.2 =
      receiveItem num me x.1 (receiveItem num me y.1 st y.2) x.2 := by
  have := recvFlat_ext num st hI [x, y] [y, x] (by intro z hz; simp at hz; rcases hz with rfl | rfl <;> assumption)
    (by intro z; simp [or_comm])
  simpa [recvFlat] using this

/-- Message matching (the exchange itself is well-formed for every arrival order): when the neighbour relation is
symmetric, the messages addressed to `q` come from exactly `q`'s neighbours, one each, in ascending order of the
source — the receives `q` posts (one per old neighbour, `MPI_ANY_SOURCE` or the neighbours in map order) and the
sends of the others pair off. -/
theorem sync_message_matching (D : Decomp) (w : World) (hw : PartialView D w) (hs : NbSym w)
    (q : Nat) (sq : RankState) (hq : w[q]? = some sq) :
    (inbox w q).map (fun m => m.1) = sq.remote.map (fun x => x.1) :=
  message_matching hw hs q sq hq

/-- ... and the consistent state with arbitrary copies deleted has a symmetric neighbour relation. -/
theorem nbSym_of_deleted (D : Decomp) (hD : DecompWF D) (del : Nat → Int → Bool) :
    NbSym (deleteCopies del (consistent D)) :=
  nbSym_deleted hD del

/-- ... and the sync keeps it symmetric (processes that discover each other as new neighbours do so mutually), so the
operation can be repeated. -/
theorem sync_keeps_symmetry (num : Int → Nat) (D : Decomp) (w : World) (hw : PartialView D w) (hs : NbSym w) :
    NbSym (sync num w) :=
  nbSym_sync num hw hs

/-- The property's last sentence.  From the consistent state of any decomposition delete, on every process, any set
of locally held copies together with their remote entries (`del p g`).  If every deleted copy is still listed by
another process (some `r` has, after its own deletions, a remote index for `g` in its list for `p`), the sync restores
exactly the original state: on every rank the index set has the original (global, attribute) pairs in order and the
neighbour map with all remote index lists equals the original one.  (Restored pairs get their local number from
`num`; the pairs that were kept keep theirs by `sync_monotone`.) -/
theorem restore_after_delete (num : Int → Nat) (D : Decomp) (hD : DecompWF D) (del : Nat → Int → Bool)
    (hlisted : ∀ p g, del p g = true → (D.attrOf p g).isSome = true →
      ∃ (r : Nat) (sr : RankState) (en : RemEntry),
        (deleteCopies del (consistent D))[r]? = some sr ∧ en ∈ listOf sr.remote p ∧ en.g = g)
    (q : Nat) (s0 : RankState) (h0 : (consistent D)[q]? = some s0) :
    ∃ s', (sync num (deleteCopies del (consistent D)))[q]? = some s' ∧
      s'.idx.map (fun e => (e.g, e.attr)) = s0.idx.map (fun e => (e.g, e.attr)) ∧
      s'.remote = s0.remote := by
  -- "still listed" means: another process holds the index and keeps it
  have hsurv : ∀ p g, del p g = true → (D.attrOf p g).isSome = true →
      ∃ r, r ≠ p ∧ r < D.length ∧ (D.attrOf r g).isSome = true ∧ del r g = false := by
    intro p g hd hh
    obtain ⟨r, sr, en, hsr, hen, hg⟩ := hlisted p g hd hh
    rw [deleteCopies_getElem?, consistent_getElem?] at hsr
    simp only [Option.map_map, Option.map_eq_some_iff] at hsr
    obtain ⟨mine, hm, rfl⟩ := hsr
    have hr : r < D.length := (List.getElem?_eq_some_iff.1 hm).1
    have hmine : mine = D.slice r := by
      have := slice_eq_of_lt D r hr
      rw [hm] at this
      simpa using this
    subst hmine
    simp only [Function.comp] at hen
    rw [listOf_deleteRank, List.mem_filter] at hen
    obtain ⟨l, hl, hen'⟩ := mem_of_mem_listOf _ p en hen.1
    obtain ⟨_, hpr, hl', _⟩ := (mem_remote_consistentRank D r _ p l).1 hl
    rw [hl'] at hen'
    obtain ⟨h1, _⟩ := (mem_interList _ _ en).1 hen'
    refine ⟨r, Ne.symm hpr, hr, ?_, ?_⟩
    · rw [← hg, (attrOf_iff hD r en.g en.own).2 h1]; rfl
    · have := hen.2
      rw [hg] at this
      simpa using this
  rw [consistent_getElem?] at h0
  simp only [Option.map_eq_some_iff] at h0
  obtain ⟨mine, hm, rfl⟩ := h0
  have hq : q < D.length := (List.getElem?_eq_some_iff.1 hm).1
  have hmine : mine = D.slice q := by
    have := slice_eq_of_lt D q hq
    rw [hm] at this
    simpa using this
  subst hmine
  obtain ⟨s', h1, h2, h3⟩ := restore_rank hD num del hsurv q hq
  refine ⟨s', h1, ?_, h3⟩
  rw [h2]
  simp [consistentRank, numberFrom_map_key]

/-! ### round two: announcements, histories, repeated restoration, numberer objects with state -/

/-- The invariant survives growing the ground truth: a partial view of `D` is a partial view of every decomposition
that knows everything `D` knows (used when a process announces copies that were not part of the rebuilt state). -/
theorem partialView_of_grown (D D' : Decomp) (w : World) (hw : PartialView D w) (hD : DecompLe D D') :
    PartialView D' w :=
  partialView_mono hw hD

/-- Newly discovered neighbours come from states in which a process `p` has added an index `g` it did not hold and
announces it to neighbours (`known`: neighbour ↦ attribute there).  If the announcement agrees with the decomposition,
the state is again a partial view with a symmetric neighbour relation, so every theorem of this file applies to it. -/
theorem partialView_of_added (D : Decomp) (w : World) (hw : PartialView D w) (p : Nat) (g : Int) (a loc : Nat)
    (known : List (Nat × Nat)) (hq : D.attrOf p g = some a) (hnew : ∀ st, w[p]? = some st → ∀ e ∈ st.idx, e.g ≠ g)
    (hk : ∀ x b, known.lookup x = some b → D.attrOf x g = some b) :
    PartialView D (addCopyAt w p g a loc known) :=
  partialView_addCopyAt hw p g a loc known hq hnew hk

theorem nbSym_of_added (w : World) (hs : NbSym w) (p : Nat) (g : Int) (a loc : Nat) (known : List (Nat × Nat)) :
    NbSym (addCopyAt w p g a loc known) :=
  nbSym_addCopyAt hs p g a loc known

/-- All histories: after any sequence of syncs (each rank processing its inbox in any order), deletions of arbitrary
copies and announcements of new copies, the state is a partial view of the decomposition with a symmetric neighbour
relation — the hypotheses of `sync_postcondition`, `sync_monotone`, `sync_exact`, `sync_sorted`, `sync_refs_valid`,
`order_irrelevant` and `sync_message_matching` hold again before every further sync. -/
theorem history_invariant (D : Decomp) : ∀ (steps : List Step) (w : World), PartialView D w → NbSym w →
    stepsOk D steps w → PartialView D (runSteps steps w) ∧ NbSym (runSteps steps w)
  | [], _, hw, hs, _ => ⟨hw, hs⟩
  | s :: ss, w, hw, hs, hok => by
    have h1 : PartialView D (s.run w) ∧ NbSym (s.run w) := by
      cases s with
      | sync num => exact ⟨partialView_sync num hw, nbSym_sync num hw hs⟩
      | syncOrd ord num =>
        have e : syncOrd ord num w = sync num w := order_irrelevant num D w hw ord hok.1
        simp only [Step.run]
        rw [e]
        exact ⟨partialView_sync num hw, nbSym_sync num hw hs⟩
      | delete del => exact ⟨partialView_delete hw del, nbSym_delete hs del⟩
      | add p g a loc known =>
        exact ⟨partialView_addCopyAt hw p g a loc known hok.1.1 hok.1.2.1 hok.1.2.2, nbSym_addCopyAt hs p g a loc known⟩
    exact history_invariant D ss _ h1.1 h1.2 hok.2

/-- The last sentence of the property for every round, with the local numbers.  Let `w` be any state with the shape
of the consistent state of `D` (same (global, attribute) pairs, same remote index lists; local numbers and sequence
numbers arbitrary — e.g. the result of an earlier delete-and-sync round).  Delete any copies; if every deleted copy is
still listed by another process, the sync gives a state of that shape again, and the index set of every rank is the
one before the deletion with exactly the deleted pairs renumbered by `num` (kept pairs keep their local number).
The consistent state itself has that shape (`Shape.refl`), and the conclusion is the hypothesis again: the theorem
applies to the result of every further delete-and-sync round. -/
theorem restore_after_delete_any (num : Int → Nat) (D : Decomp) (hD : DecompWF D) (w : World)
    (hw : Shape w (consistent D)) (del : Nat → Int → Bool)
    (hlisted : ∀ p g, del p g = true → (D.attrOf p g).isSome = true →
      ∃ (r : Nat) (sr : RankState) (en : RemEntry),
        (deleteCopies del w)[r]? = some sr ∧ en ∈ listOf sr.remote p ∧ en.g = g) :
    Shape (sync num (deleteCopies del w)) (consistent D) ∧
    ∀ (q : Nat) (sq s' : RankState), w[q]? = some sq → (sync num (deleteCopies del w))[q]? = some s' →
      s'.idx = sq.idx.map (fun e => if del q e.g then { e with loc := num e.g } else e) := by
  have h1 : Shape (deleteCopies del w) (deleteCopies del (consistent D)) := deleteCopies_shape del hw
  have h2 : Shape (sync num (deleteCopies del w)) (sync num (deleteCopies del (consistent D))) := sync_shape num num h1
  have hl' : ∀ p g, del p g = true → (D.attrOf p g).isSome = true →
      ∃ (r : Nat) (sr : RankState) (en : RemEntry),
        (deleteCopies del (consistent D))[r]? = some sr ∧ en ∈ listOf sr.remote p ∧ en.g = g := by
    intro p g hd hh
    obtain ⟨r, sr, en, hsr, hen, hg⟩ := hlisted p g hd hh
    have hr : r < (deleteCopies del (consistent D)).length := h1.1 ▸ (List.getElem?_eq_some_iff.1 hsr).1
    have hb : (deleteCopies del (consistent D))[r]? = some (deleteCopies del (consistent D))[r] :=
      List.getElem?_eq_getElem hr
    refine ⟨r, _, en, hb, ?_, hg⟩
    rw [← (h1.2 r sr _ hsr hb).2]
    exact hen
  have h3 : Shape (sync num (deleteCopies del (consistent D))) (consistent D) := by
    refine ⟨by simp [sync, deleteCopies], fun q a b ha hb => ?_⟩
    obtain ⟨s', hs', hk, hr⟩ := restore_after_delete num D hD del hl' q b hb
    rw [ha] at hs'
    simp only [Option.some.injEq] at hs'
    subst hs'
    exact ⟨hk, hr⟩
  have hsh := h2.trans h3
  refine ⟨hsh, ?_⟩
  intro q sq s' hq hs'
  have hPVw : PartialView D w := partialView_of_shape hw (partialView_consistent hD)
  have hPVd : PartialView D (deleteCopies del w) := partialView_delete hPVw del
  have hI' := partialView_sync num hPVd q s' hs'
  have hIq := hPVw q sq hq
  have hdq : (deleteCopies del w)[q]? = some (deleteRank (del q) sq) := by
    rw [deleteCopies_getElem?, hq]; rfl
  obtain ⟨s'', hs'', hmIdx, _, _⟩ := monotone_rank num hPVd q _ hdq
  rw [hs'] at hs''
  simp only [Option.some.injEq] at hs''
  subst hs''
  have hex := (exact_rank num hPVd q _ s' hdq hs').1
  have hqc : q < (consistent D).length := hw.1 ▸ (List.getElem?_eq_some_iff.1 hq).1
  have hc : (consistent D)[q]? = some (consistent D)[q] := List.getElem?_eq_getElem hqc
  have hkeys : s'.idx.map IdxEntry.key = sq.idx.map IdxEntry.key :=
    (hsh.2 q s' _ hs' hc).1.trans (hw.2 q sq _ hq hc).1.symm
  have hdel_idx : ∀ e, e ∈ (deleteRank (del q) sq).idx ↔ e ∈ sq.idx ∧ del q e.g = false := by
    intro e
    simp [deleteRank, List.mem_filter]
  apply pairwise_ext (fun a b : IdxEntry => a.g < b.g) (fun a => Int.lt_irrefl _) (fun a b h => Int.lt_asymm h)
    _ _ hI'.idxSorted
  · rw [List.pairwise_map]
    apply List.Pairwise.imp _ hIq.idxSorted
    intro a b hab
    have ea : (if del q a.g = true then { a with loc := num a.g } else a).g = a.g := by split <;> rfl
    have eb : (if del q b.g = true then { b with loc := num b.g } else b).g = b.g := by split <;> rfl
    rw [ea, eb]; exact hab
  · intro e
    rw [List.mem_map]
    constructor
    · intro he
      rcases hex e he with h | ⟨hloc, _⟩
      · obtain ⟨h4, h5⟩ := (hdel_idx e).1 h
        exact ⟨e, h4, by simp [h5]⟩
      · have : e.key ∈ sq.idx.map IdxEntry.key := by rw [← hkeys]; exact List.mem_map.2 ⟨e, he, rfl⟩
        obtain ⟨e0, he0, hk0⟩ := List.mem_map.1 this
        have hg : e0.g = e.g := congrArg Prod.fst hk0
        have ha : e0.attr = e.attr := congrArg Prod.snd hk0
        refine ⟨e0, he0, ?_⟩
        cases hd : del q e0.g
        · have hm : e0 ∈ s'.idx := hmIdx e0 ((hdel_idx e0).2 ⟨he0, hd⟩)
          have := eq_of_mem_pairwise_g _ hI'.idxSorted e0 e hm he hg
          simp [this]
        · cases e; cases e0
          simp only at hg ha hloc
          simp [hg, ha, hloc]
    · rintro ⟨e0, he0, rfl⟩
      cases hd : del q e0.g
      · simp only [Bool.false_eq_true, if_false]
        exact hmIdx e0 ((hdel_idx e0).2 ⟨he0, hd⟩)
      · simp only [if_true]
        have : e0.key ∈ s'.idx.map IdxEntry.key := by rw [hkeys]; exact List.mem_map.2 ⟨e0, he0, rfl⟩
        obtain ⟨e, he, hk0⟩ := List.mem_map.1 this
        have hg : e.g = e0.g := congrArg Prod.fst hk0
        have ha : e.attr = e0.attr := congrArg Prod.snd hk0
        rcases hex e he with h | ⟨hloc, _⟩
        · have := ((hdel_idx e).1 h).2
          rw [hg, hd] at this
          simp at this
        · have : e = { e0 with loc := num e0.g } := by
            cases e; cases e0
            simp only at hg ha hloc
            simp [hg, ha, hloc]
          rw [← this]; exact he

/-- A numberer object without state behaves as the function it computes: the model with the numberer state threaded
through the receives coincides with `sync` (so the theorems above speak about it). -/
theorem stateful_numberer_conservative {σ : Type} (num : Int → Nat) (w : World) (q : Nat) (st : RankState) (s : σ) :
    syncRankS (fun s g => (num g, s)) w q (st, s) = (syncRank num w q st, s) :=
  syncRankS_pure num w q st s

/-- Any numberer object, whatever its state does: the sync yields the same (global, attribute) pairs and the same
remote index lists as with a pure numbering (hence post-condition, monotonicity, sortedness, restoration of the shape
carry over), and counts as in sync.  Only the local numbers of the new pairs depend on the numberer. -/
theorem stateful_numberer_shape {σ : Type} (nm : σ → Int → Nat × σ) (num : Int → Nat) (w : World) (ss : List σ)
    (q : Nat) (x : RankState × σ) (sq' : RankState)
    (hx : (syncS nm w ss)[q]? = some x) (hq : (sync num w)[q]? = some sq') :
    ShapeEq x.1 sq' ∧ isSynced x.1 = true := by
  simp only [syncS, List.getElem?_mapIdx, Option.map_eq_some_iff] at hx
  obtain ⟨⟨a, s⟩, hz, rfl⟩ := hx
  have ha : w[q]? = some a := by
    have := List.getElem?_zip_eq_some.1 hz
    exact this.1
  rw [sync_getElem?, ha] at hq
  simp only [Option.map_some, Option.some.injEq] at hq
  subst hq
  exact ⟨syncRankS_shape nm num w q a s, syncRankS_seq nm w q (a, s)⟩

/-- Any numberer object, equipped with a counter of its calls: it is called exactly once per index that the sync adds
to the index set (the counter grows by the growth of the index set) — on the object the caller passed in, whose state
after the sync is the state after all these calls.  (A numberer that is copied per message, or called for indices
that are already there, violates this.) -/
theorem numberer_called_once_per_new_index {σ : Type} (nm : σ → Int → Nat × σ) (w : World) (q : Nat)
    (st : RankState) (s : σ) (c : Nat) :
    c ≤ (syncRankS (counted nm) w q (st, (s, c))).2.2 ∧
    (syncRankS (counted nm) w q (st, (s, c))).1.idx.length =
      st.idx.length + ((syncRankS (counted nm) w q (st, (s, c))).2.2 - c) :=
  calls_recvAllS nm q (st, (s, c)) (inbox w q) c st.idx.length ⟨Nat.le_refl _, by simp⟩

/-- The counting numberer (`base, base+1, …`, state = number of calls so far): it is called exactly once per index
that the sync adds (the call counter grows by the growth of the index set), nothing known before is lost, every new
pair gets a number from the block handed out during this sync, and no number is given twice. -/
theorem counting_numberer_spec (base : Nat) (w : World) (q : Nat) (st : RankState) (c : Nat) :
    c ≤ (syncRankS (countingNumberer base) w q (st, c)).2 ∧
    (syncRankS (countingNumberer base) w q (st, c)).1.idx.length =
      st.idx.length + ((syncRankS (countingNumberer base) w q (st, c)).2 - c) ∧
    (∀ e ∈ st.idx, e ∈ (syncRankS (countingNumberer base) w q (st, c)).1.idx) ∧
    (∀ e ∈ (syncRankS (countingNumberer base) w q (st, c)).1.idx, e ∈ st.idx ∨
      (base + c ≤ e.loc ∧ e.loc < base + (syncRankS (countingNumberer base) w q (st, c)).2)) ∧
    (∀ e₁ ∈ (syncRankS (countingNumberer base) w q (st, c)).1.idx,
      ∀ e₂ ∈ (syncRankS (countingNumberer base) w q (st, c)).1.idx,
        e₁ ∉ st.idx → e₂ ∉ st.idx → e₁.loc = e₂.loc → e₁ = e₂) := by
  have h := CountInv.recvAllS (base := base) q (st, c) (CountInv.init base st.idx c) (inbox w q)
  exact ⟨h.le, h.len, h.old, h.locs, h.distinct⟩

/-! ### round three: the communicator -/

/-- A sync on a sub-communicator.  The model numbers the processes as the communicator of the remote indices numbers
them; processes of MPI_COMM_WORLD that are not part of that communicator appear (if at all) as further processes
`k, k+1, …` that know nobody.  They do not take part: for the first `k` processes the sync of the whole world is the
sync of these `k` processes alone — so every theorem of this file applies to the processes of the communicator by
themselves, whatever else exists in the world — and a process that nobody lists receives nothing: its index set and
remote indices are unchanged, only the sequence numbers advance. -/
theorem sync_subcommunicator (num : Int → Nat) (w : World) (k : Nat)
    (hidle : ∀ (p : Nat) (st : RankState), k ≤ p → w[p]? = some st → st.remote = []) :
    (∀ q, q < k → (sync num w)[q]? = (sync num (w.take k))[q]?) ∧
    (∀ (q : Nat) (st : RankState), w[q]? = some st →
      (∀ (p : Nat) (sp : RankState), w[p]? = some sp → isNeighbour sp.remote q = false) →
      (sync num w)[q]? = some (finish st)) :=
  ⟨fun q hq => sync_take num w k hidle q hq, fun q st hst h => sync_unknown num w q st hst h⟩

/-- The state after the sync is *determined* by a set-theoretic specification (`SyncSpec`, Proofs/C13Renumber.lean —
the closure the harness' oracle computes): process `q` ends with exactly its old pairs plus one pair numbered by `num`
for every (global, attribute) some process believed it to hold and it did not; exactly its old remote indices plus,
for every such belief of a process `p`, `p` itself and every holder `p` listed; exactly the old neighbours plus the
processes of the new remote indices; everything strictly ascending; sequence numbers advanced and equal.  The sync
produces a state meeting this specification and no other state meets it — `sync_postcondition`, `sync_monotone`,
`sync_exact`, `sync_sorted` and `sync_synced` together leave no freedom. -/
theorem sync_determined (num : Int → Nat) (D : Decomp) (w : World) (hw : PartialView D w)
    (q : Nat) (sq : RankState) (hq : w[q]? = some sq) :
    ∃ sq', (sync num w)[q]? = some sq' ∧ SyncSpec num w q sq sq' ∧ ∀ s, SyncSpec num w q sq s → s = sq' := by
  refine ⟨syncRank num w q sq, by rw [sync_getElem?, hq]; rfl, ?_, ?_⟩
  · exact syncSpec_rank num hw q sq _ hq (by rw [sync_getElem?, hq]; rfl)
  · intro s hs
    exact syncSpec_unique hs (syncSpec_rank num hw q sq _ hq (by rw [sync_getElem?, hq]; rfl))

/-- The numbering of the processes is irrelevant.  Let `w'` be the world `w` with process `p` called `ρ p` (`ρ` a
permutation of the process numbers: another communicator over the same processes, e.g. `MPI_Comm_split` with a key or a
Cartesian communicator with reordering) — same index sets, and what `p` lists for `y` in `w`, `ρ p` lists for `ρ y` in
`w'`.  Then the states after the sync correspond in the same way.  Neither the order in which the messages are
processed (ascending source rank in fixed-order mode), nor the order of the neighbours in the remote index map, nor
the order of the (process, attribute) pairs inside a message — all of which follow the numbering — influence the
result. -/
theorem sync_numbering_irrelevant (num : Int → Nat) (D D' : Decomp) (ρ ρi : Nat → Nat) (w w' : World)
    (hw : PartialView D w) (hw' : PartialView D' w') (hP : PermOn w.length ρ ρi) (hR : Renumbered ρ w w') :
    Renumbered ρ (sync num w) (sync num w') :=
  renumbered_sync num ρ ρi w w' hw hw' hP hR

/-! ### non-vacuity: the hypotheses are satisfiable by a concrete non-trivial input

Three ranks; index 3 owned by rank 0 with an overlap/copy on ranks 2/1, index 4 a copy everywhere, 6 owned by rank 1
with an overlap on rank 2, 1 private to rank 0.  Rank 1 deletes its copy of 3, rank 2 deletes 3 and 4. -/

def exD : Decomp := [[(1, 0), (3, 0), (4, 2)], [(3, 2), (4, 2), (6, 0)], [(3, 1), (4, 2), (6, 1)]]
def exDel : Nat → Int → Bool := fun p g => (p == 1 && g == 3) || (p == 2 && (g == 3 || g == 4))
def exW : World := deleteCopies exDel (consistent exD)
def exNum : Int → Nat := fun g => (1000 + g).toNat

theorem exWF : DecompWF exD := by unfold DecompWF; decide

/-- `PartialView` holds for the example (hypothesis of all theorems above) -/
example : PartialView exD exW := partialView_of_deleted exD exWF exDel

/-- hypotheses of `sync_postcondition`: rank 0 still lists rank 2 for index 3, which rank 2 no longer holds -/
example : ∃ sp, exW[0]? = some sp ∧ (⟨3, 0, 1⟩ : RemEntry) ∈ listOf sp.remote 2 := ⟨_, rfl, by decide⟩
example : ∃ s2, exW[2]? = some s2 ∧ hasKey s2.idx 3 1 = false := ⟨_, rfl, by decide⟩
/-- ... and its conclusion, evaluated: rank 2 has index 3 (overlap) again and lists ranks 0 and 1 for it -/
example : ∃ s2, (sync exNum exW)[2]? = some s2 ∧ hasKey s2.idx 3 1 = true ∧
    (⟨3, 1, 0⟩ : RemEntry) ∈ listOf s2.remote 0 ∧ (⟨3, 1, 2⟩ : RemEntry) ∈ listOf s2.remote 1 := ⟨_, rfl, by decide⟩

/-- hypothesis of `order_irrelevant`: a processing order that really differs (rank 2 receives two non-empty messages) -/
example : (inbox exW 2).map (fun m => (m.1, m.2.length)) = [(0, 2), (1, 2)] := by decide
example : syncOrd (fun _ l => l.reverse) exNum exW = sync exNum exW :=
  order_irrelevant exNum exD exW (partialView_of_deleted exD exWF exDel) _ (fun _ => List.reverse_perm _)

example : (inbox exW 2).map (fun m => m.1) = [0, 1] :=
  sync_message_matching exD exW (partialView_of_deleted exD exWF exDel) (nbSym_of_deleted exD exWF exDel) 2 _ rfl

/-- hypothesis of `restore_after_delete` for the example: every deleted copy is still listed by rank 0 -/
theorem exListed : ∀ p g, exDel p g = true → (exD.attrOf p g).isSome = true →
    ∃ (r : Nat) (sr : RankState) (en : RemEntry), (deleteCopies exDel (consistent exD))[r]? = some sr ∧ en ∈ listOf sr.remote p ∧ en.g = g := by
  intro p g h _
  simp only [exDel, Bool.or_eq_true, Bool.and_eq_true, beq_iff_eq] at h
  rcases h with ⟨rfl, rfl⟩ | ⟨rfl, rfl | rfl⟩
  · exact ⟨0, _, ⟨3, 0, 2⟩, rfl, by decide, rfl⟩
  · exact ⟨0, _, ⟨3, 0, 1⟩, rfl, by decide, rfl⟩
  · exact ⟨0, _, ⟨4, 2, 2⟩, rfl, by decide, rfl⟩

example : ∃ s', (sync exNum exW)[2]? = some s' ∧
    s'.idx.map (fun e => (e.g, e.attr)) = [(3, 1), (4, 2), (6, 1)] ∧
    s'.remote = [(0, [⟨3, 1, 0⟩, ⟨4, 2, 2⟩]), (1, [⟨3, 1, 2⟩, ⟨4, 2, 2⟩, ⟨6, 1, 0⟩])] := by
  obtain ⟨s', h1, h2, h3⟩ := restore_after_delete exNum exD exWF exDel exListed 2 _ rfl
  exact ⟨s', h1, h2, h3⟩

/-- the deletion really removed something on rank 2 (so the restoration is not trivial) -/
example : ∃ s2, exW[2]? = some s2 ∧ s2.idx.map (fun e => (e.g, e.attr)) = [(6, 1)] ∧
    s2.remote = [(0, []), (1, [⟨6, 1, 0⟩])] := ⟨_, rfl, by decide⟩

/-! `sync_subcommunicator`: the example world inside a larger MPI_COMM_WORLD — a fourth process, not part of the
communicator, with an index of its own -/
def exW4 : World := exW ++ [⟨[⟨7, 0, 0⟩], [], 1, 1⟩]

theorem exIdle : ∀ (p : Nat) (st : RankState), 3 ≤ p → exW4[p]? = some st → st.remote = [] := by
  intro p st hp h
  have hl : exW4.length = 4 := by decide
  have hp4 : p < 4 := hl ▸ (List.getElem?_eq_some_iff.1 h).1
  have : p = 3 := by omega
  subst this
  have : exW4[3]? = some ⟨[⟨7, 0, 0⟩], [], 1, 1⟩ := by decide
  rw [this] at h
  cases h
  rfl

/-- the three processes of the communicator get what they get without the fourth (rank 2 restores 3 and 4) ... -/
example : ∀ q, q < 3 → (sync exNum exW4)[q]? = (sync exNum exW)[q]? := by
  have h := (sync_subcommunicator exNum exW4 3 exIdle).1
  have e : exW4.take 3 = exW := by decide
  rw [e] at h
  exact h

/-- ... and the fourth keeps its index set -/
example : (sync exNum exW4)[3]? = some ⟨[⟨7, 0, 0⟩], [], 2, 2⟩ :=
  (sync_subcommunicator exNum exW4 3 exIdle).2 3 _ rfl (by
    intro p sp h
    have hl : exW4.length = 4 := by decide
    have hp4 : p < 4 := hl ▸ (List.getElem?_eq_some_iff.1 h).1
    have hall : ∀ p, p < 4 → ∀ sp, exW4[p]? = some sp → isNeighbour sp.remote 3 = false := by decide
    exact hall p hp4 sp h)

/-! `sync_determined` on the example: rank 2's state after the sync meets the specification -/
example : ∃ s2, SyncSpec exNum exW 2 (exW[2]?.getD ⟨[], [], 0, 0⟩) s2 ∧ s2.idx = [⟨3, 1, 1003⟩, ⟨4, 2, 1004⟩, ⟨6, 1, 2⟩] := by
  obtain ⟨s2, h1, h2, _⟩ := sync_determined exNum exD exW (partialView_of_deleted exD exWF exDel) 2 _ rfl
  refine ⟨s2, h2, ?_⟩
  have : (sync exNum exW)[2]?.map (·.idx) = some [⟨3, 1, 1003⟩, ⟨4, 2, 1004⟩, ⟨6, 1, 2⟩] := by decide
  rw [h1] at this
  simpa using this

/-! `sync_numbering_irrelevant`: the example world with the processes 0, 1, 2 called 2, 0, 1 -/
def exRho : Nat → Nat := fun p => if p = 0 then 2 else if p = 1 then 0 else if p = 2 then 1 else p
def exRhoInv : Nat → Nat := fun p => if p = 0 then 1 else if p = 1 then 2 else if p = 2 then 0 else p
def exDρ : Decomp := [[(3, 2), (4, 2), (6, 0)], [(3, 1), (4, 2), (6, 1)], [(1, 0), (3, 0), (4, 2)]]
def exDelρ : Nat → Int → Bool := fun p g => (p == 0 && g == 3) || (p == 1 && (g == 3 || g == 4))
def exWρ : World := deleteCopies exDelρ (consistent exDρ)

theorem exWFρ : DecompWF exDρ := by unfold DecompWF; decide
theorem exPerm : PermOn exW.length exRho exRhoInv := by unfold PermOn; decide

theorem exRen : Renumbered exRho exW exWρ := by
  refine ⟨by decide, fun p st h => ?_⟩
  have hl : exW.length = 3 := by decide
  have hp : p < 3 := hl ▸ (List.getElem?_eq_some_iff.1 h).1
  have hc : p = 0 ∨ p = 1 ∨ p = 2 := by omega
  rcases hc with rfl | rfl | rfl
  · obtain ⟨s, hs, st', hst', hr⟩ : ∃ s, exW[0]? = some s ∧ ∃ st', exWρ[exRho 0]? = some st' ∧ RenSt exRho exW.length s st' :=
      ⟨_, rfl, _, rfl, by decide⟩
    rw [hs] at h; cases h; exact ⟨st', hst', hr⟩
  · obtain ⟨s, hs, st', hst', hr⟩ : ∃ s, exW[1]? = some s ∧ ∃ st', exWρ[exRho 1]? = some st' ∧ RenSt exRho exW.length s st' :=
      ⟨_, rfl, _, rfl, by decide⟩
    rw [hs] at h; cases h; exact ⟨st', hst', hr⟩
  · obtain ⟨s, hs, st', hst', hr⟩ : ∃ s, exW[2]? = some s ∧ ∃ st', exWρ[exRho 2]? = some st' ∧ RenSt exRho exW.length s st' :=
      ⟨_, rfl, _, rfl, by decide⟩
    rw [hs] at h; cases h; exact ⟨st', hst', hr⟩

example : Renumbered exRho (sync exNum exW) (sync exNum exWρ) :=
  sync_numbering_irrelevant exNum exD exDρ exRho exRhoInv exW exWρ (partialView_of_deleted exD exWF exDel)
    (partialView_of_deleted exDρ exWFρ exDelρ) exPerm exRen

/-- ... evaluated: what process 2 lists for 0 and 1 after the sync, process 1 = ρ 2 of the renumbered world lists for
2 = ρ 0 and 0 = ρ 1 (so the order of the two lists in the map is the other way round) -/
example : ((sync exNum exW)[2]?).map (·.remote) = some [(0, [⟨3, 1, 0⟩, ⟨4, 2, 2⟩]), (1, [⟨3, 1, 2⟩, ⟨4, 2, 2⟩, ⟨6, 1, 0⟩])] ∧
    ((sync exNum exWρ)[1]?).map (·.remote) = some [(0, [⟨3, 1, 2⟩, ⟨4, 2, 2⟩, ⟨6, 1, 0⟩]), (2, [⟨3, 1, 0⟩, ⟨4, 2, 2⟩])] := by decide

/-! ### the bytes: statements about the field layouts regenerated from the source (Gen/C13.lean, tr_c13.py) -/

/-- The receiver reads exactly what the sender wrote: `recvAndUnpack` unpacks, per message, per published index and
per (process, attribute) pair, fields of the same types in the same order as `packAndSend` packs them - so a message
is decoded as the item list the protocol model lets it be. -/
theorem wire_unpack_matches_pack : Gen.unpackLayout = Gen.packLayout := by decide

/-- The send buffer never overflows: for every number of published indices and pairs and whatever the packed size of
an int, a char and a global index is, `calculateMessageSizes` reserves at least the bytes `packAndSend` writes. -/
theorem wire_buffer_sufficient (sz : WireTy → Nat) (publish pairs : Nat) :
    Gen.packLayout.bytes sz publish pairs ≤ Gen.sizeLayout.bytes sz publish pairs :=
  bytes_le_of_covers sz Gen.packLayout Gen.sizeLayout (by decide) (by decide) (by decide) publish pairs

/-- non-vacuity: the layouts are not empty - a message carries a count, per index a global index, the sender's
attribute and a pair count, per pair a process and an attribute -/
example : Gen.packLayout.header.length = 1 ∧ Gen.packLayout.perIndex.length = 3 ∧ Gen.packLayout.perPair.length = 2 ∧
    Gen.packLayout.perIndex.count .global = 1 := by decide

/-! ### non-vacuity of the round-two theorems -/

/-- hypotheses of `receives_commute`: rank 2's state and two true items from different sources -/
def exS2 : RankState := exW[2]?.getD ⟨[], [], 0, 0⟩
example : receiveItem exNum 2 1 (receiveItem exNum 2 0 exS2 ⟨3, 0, [(1, 2), (2, 1)]⟩) ⟨4, 2, [(0, 2), (2, 2)]⟩ =
    receiveItem exNum 2 0 (receiveItem exNum 2 1 exS2 ⟨4, 2, [(0, 2), (2, 2)]⟩) ⟨3, 0, [(1, 2), (2, 1)]⟩ :=
  receives_commute exNum exD 3 2 exS2 (partialView_of_deleted exD exWF exDel 2 exS2 rfl)
    (0, ⟨3, 0, [(1, 2), (2, 1)]⟩) (1, ⟨4, 2, [(0, 2), (2, 2)]⟩)
    ⟨rfl, by decide, by decide, by decide⟩ ⟨rfl, by decide, by decide, by decide⟩

/-- a grown decomposition: index 9, owned by rank 0, with copies on ranks 1 and 2 that do not exist yet -/
def exD' : Decomp := List.zipWith (· ++ ·) exD [[(9, 0)], [(9, 2)], [(9, 1)]]
theorem exLe : DecompLe exD exD' := decompLe_zipWith_append exD _ (by decide)

/-- rank 0 adds index 9 and announces it to its neighbours 1 and 2 -/
def exW' : World := addCopyAt exW 0 9 0 509 [(1, 2), (2, 1)]

theorem exNew0 : ∀ st, exW[0]? = some st → ∀ e ∈ st.idx, e.g ≠ 9 := by
  have h : ∀ e ∈ ((exW[0]?).map (·.idx)).getD [], e.g ≠ 9 := by decide
  intro st hst e he
  exact h e (by rw [hst]; exact he)

/-- hypotheses of `partialView_of_added` (and of `partialView_of_grown`) -/
theorem exPV' : PartialView exD' exW' :=
  partialView_of_added exD' exW (partialView_of_grown exD exD' exW (partialView_of_deleted exD exWF exDel) exLe)
    0 9 0 509 _ rfl exNew0 (known_of_forall exD' 9 _ (by decide))

/-- ... the announced copies are really new, and the sync creates them on ranks 1 and 2, which list each other for 9 -/
example : ∃ s1, exW'[1]? = some s1 ∧ hasKey s1.idx 9 2 = false := ⟨_, rfl, by decide⟩
example : ∃ s1, (sync exNum exW')[1]? = some s1 ∧ hasKey s1.idx 9 2 = true ∧
    (⟨9, 2, 0⟩ : RemEntry) ∈ listOf s1.remote 0 ∧ (⟨9, 2, 1⟩ : RemEntry) ∈ listOf s1.remote 2 := by
  obtain ⟨s1, h1, h2, h3, h4⟩ := sync_postcondition exNum exD' exW' exPV' 0 1 _ rfl ⟨9, 0, 2⟩ (by decide)
  exact ⟨s1, h1, h2, h3, h4 2 ⟨9, 0, 1⟩ (by decide) (by decide) rfl⟩

/-- hypotheses of `history_invariant`: delete, announce, sync in reversed processing order, delete again, sync -/
def exSteps : List Step :=
  [.delete exDel, .add 0 9 0 509 [(1, 2), (2, 1)], .syncOrd (fun _ l => l.reverse) exNum, .delete exDel, .sync exNum]

example : PartialView exD' (runSteps exSteps (consistent exD)) ∧ NbSym (runSteps exSteps (consistent exD)) :=
  history_invariant exD' exSteps (consistent exD)
    (partialView_of_grown exD exD' _ (partialView_consistent exWF) exLe) (nbSym_consistent exWF)
    ⟨trivial, ⟨rfl, exNew0, known_of_forall exD' 9 _ (by decide)⟩, fun _ => List.reverse_perm _, trivial, trivial, trivial⟩

/-- hypotheses of `restore_after_delete_any`, second round: the state after one delete-and-sync round (restored pairs
carry the numbers 1003, 1004) is deleted from again and synced with another numbering -/
theorem exRound1 : Shape (sync exNum exW) (consistent exD) :=
  (restore_after_delete_any exNum exD exWF (consistent exD) (Shape.refl _) exDel exListed).1

example : ∃ s2, (sync exNum exW)[2]? = some s2 ∧ s2.idx = [⟨3, 1, 1003⟩, ⟨4, 2, 1004⟩, ⟨6, 1, 2⟩] := ⟨_, rfl, by decide⟩

theorem exListed2 : ∀ p g, exDel p g = true → (exD.attrOf p g).isSome = true →
    ∃ (r : Nat) (sr : RankState) (en : RemEntry),
      (deleteCopies exDel (sync exNum exW))[r]? = some sr ∧ en ∈ listOf sr.remote p ∧ en.g = g := by
  intro p g h _
  simp only [exDel, Bool.or_eq_true, Bool.and_eq_true, beq_iff_eq] at h
  rcases h with ⟨rfl, rfl⟩ | ⟨rfl, rfl | rfl⟩
  · exact ⟨0, _, ⟨3, 0, 2⟩, rfl, by decide, rfl⟩
  · exact ⟨0, _, ⟨3, 0, 1⟩, rfl, by decide, rfl⟩
  · exact ⟨0, _, ⟨4, 2, 2⟩, rfl, by decide, rfl⟩

example : ∃ s2, (sync (fun g => (2000 + g).toNat) (deleteCopies exDel (sync exNum exW)))[2]? = some s2 ∧
    s2.idx = [⟨3, 1, 2003⟩, ⟨4, 2, 2004⟩, ⟨6, 1, 2⟩] := by
  have h := (restore_after_delete_any (fun g => (2000 + g).toNat) exD exWF (sync exNum exW) exRound1 exDel exListed2).2
    2 _ _ rfl rfl
  exact ⟨_, rfl, h.trans (by decide)⟩

/-- the counting numberer on the example: rank 2 restores two indices with the numbers 2000 and 2001, two calls -/
example : ((syncS (countingNumberer 2000) exW [0, 0, 0])[2]?).map (fun x => (x.1.idx, x.2)) =
    some ([⟨3, 1, 2000⟩, ⟨4, 2, 2001⟩, ⟨6, 1, 2⟩], 2) := by decide

/-- the slot-recycling numberer of the harness on the example: rank 2 had the slots 0 and 1 freed by its deletions and
gets them back, two calls, free list empty afterwards -/
example : ((syncS (counted slotNumberer) exW [(([], 3000), 0), (([0], 3000), 0), (([0, 1], 3000), 0)])[2]?).map
    (fun x => (x.1.idx, x.2)) = some ([⟨3, 1, 0⟩, ⟨4, 2, 1⟩, ⟨6, 1, 2⟩], (([], 3000), 2)) := by decide

/-! ### round four: more of the source read as data (Gen/C13.lean, tr_c13.py) and tied to the protocol model -/

/-- **Statement order of `sync(numberer, useFixedOrder)`**, regenerated from the source: the message sizes are computed
once and before the packing loop; packing and receiving are two different loops over *all* old neighbours (start 0,
`<` number of old neighbours, step 1), the first finished before the second begins — so every message is packed from
the pre-sync state and no process waits before all its messages are on their way (what `inbox` assumes); the receives
lie between `beginResize` and `endResize` (one resize: `finish`); `repairLocalIndexPointers` runs after `endResize` and
not after `globalMap_` was emptied (`resolve`); `iteratorsMap_`, `oldMap_`, `addedIndices_`, `globalMap_`, `infoSend_` are
each emptied exactly once per sync, unconditionally, before their first or after their last use (a second sync on
the same object behaves like the first: histories are compositions of `sync`); both sequence numbers are taken from the index set after `endResize` (`isSynced`); the wait
for the synchronous sends comes after the receives. -/
theorem sync_phases_sound :
    syncPhasesOK Gen.syncPhases = true ∧ Gen.packLoop.full = true ∧ Gen.recvLoop.full = true := by decide

/-- non-vacuity: the predicate rejects orders the model does not describe - receiving before all messages are packed
(one loop doing both), a member that is not emptied (the object-reuse defect `fixes/C13_syncer_object_reusable.patch`
repaired), repair before the index set is sorted again -, the generated list has all 15 events, and an equivalent order is
accepted (`infoSend_` emptied at the start of `sync` instead of at its end) -/
example : syncPhasesOK (Gen.syncPhases.map fun e => if e.ph == .recv then { e with loop := 2 } else e) = false ∧
    syncPhasesOK (Gen.syncPhases.filter fun e => e.ph != .clearInfo) = false ∧
    syncPhasesOK (Gen.syncPhases.map fun e =>
      if e.ph == .repair then { e with ph := .endResize } else if e.ph == .endResize then { e with ph := .repair } else e) = false ∧
    Gen.syncPhases.length = 15 ∧
    syncPhasesOK ((⟨.clearInfo, 0, false⟩ : SyncEv) :: Gen.syncPhases.filter fun e => e.ph != .clearInfo) = true := by decide

/-- **Branch conditions of `insertIntoRemoteIndexList`**, regenerated from the source: the control-flow skeleton the
translator checks (advance / insert-and-return / scan the run of equal keys / insert unless found) with the
conditions found in the source *is* the `insertEntry` of the protocol model, on every list - so every theorem above
that goes through `insertEntry` (all of them, via `insertRemote`) is about the comparisons the code makes now. -/
theorem insert_conditions_tied (n : RemEntry) (l : List RemEntry) :
    insertEntryG Gen.insertConds n l = insertEntry n l := by
  have h : Gen.insertConds = InsertConds.reference := by decide
  rw [h]
  exact insertEntryG_reference n l

/-- non-vacuity: other conditions give other functions (`<=` in the advancing loop duplicates a known entry, `==` in
place of `!=` duplicates too, a dropped negation in the last test duplicates) -/
example : insertEntryG ⟨.le, .ne, .eq, .eq, true⟩ ⟨3, 1, 0⟩ [⟨3, 1, 0⟩] ≠ insertEntry ⟨3, 1, 0⟩ [⟨3, 1, 0⟩] ∧
    insertEntryG ⟨.lt, .eq, .eq, .eq, true⟩ ⟨5, 1, 0⟩ [⟨5, 1, 0⟩] ≠ insertEntry ⟨5, 1, 0⟩ [⟨5, 1, 0⟩] ∧
    insertEntryG ⟨.lt, .ne, .eq, .eq, false⟩ ⟨3, 1, 0⟩ [⟨3, 1, 0⟩] ≠ insertEntry ⟨3, 1, 0⟩ [⟨3, 1, 0⟩] ∧
    insertEntry ⟨4, 2, 1⟩ [⟨3, 1, 0⟩, ⟨6, 1, 0⟩] = [⟨3, 1, 0⟩, ⟨4, 2, 1⟩, ⟨6, 1, 0⟩] := by decide

/-- **The counters of `calculateMessageSizes` are the counts of the message that is packed.**  `calcInfo` is the
counting loop (for every index in order, for every holder `h` of it: `infoSend_[h].publish += …`,
`infoSend_[h].pairs += …`) with the increments regenerated from the source; `itemsFor st q` is the message the model
lets `packAndSend(q)` write.  For every process count, every partial view, every process and every destination the
two agree: number of published indices and total number of pairs - the assertions `published == infoSend_[…].publish`
and `pairs == infoSend_[…].pairs` of `packAndSend` can never fire. -/
theorem sizes_match_messages (D : Decomp) (w : World) (hw : PartialView D w) (p : Nat) (st : RankState)
    (hp : w[p]? = some st) (q : Nat) :
    calcInfo Gen.sizeIncr st q = msgCounts (itemsFor st q) := by
  have h : Gen.sizeIncr = CountIncr.reference := by decide
  rw [h]
  exact calcInfo_reference st ((hw p st hp).rem.nbSorted.imp (fun h => Nat.ne_of_lt h)) q

/-- **The send buffer fits the real message** (`wire_buffer_sufficient` for the counts that occur): whatever the
packed size of an int, a char and a global index, the bytes `packAndSend(q)` writes for the message of the model are
at most the bytes `calculateMessageSizes` reserved from *its own* counters. -/
theorem wire_message_fits (sz : WireTy → Nat) (D : Decomp) (w : World) (hw : PartialView D w) (p : Nat)
    (st : RankState) (hp : w[p]? = some st) (q : Nat) :
    Gen.packLayout.bytes sz (msgCounts (itemsFor st q)).1 (msgCounts (itemsFor st q)).2 ≤
      Gen.sizeLayout.bytes sz (calcInfo Gen.sizeIncr st q).1 (calcInfo Gen.sizeIncr st q).2 := by
  rw [sizes_match_messages D w hw p st hp q]
  exact wire_buffer_sufficient sz _ _

/-- non-vacuity: in the example process 0 publishes two indices with two holders each to process 2 (and the same to
process 1), nothing to itself; counted pairs differ from published indices -/
example : ∃ s0, exW[0]? = some s0 ∧ calcInfo Gen.sizeIncr s0 2 = (2, 4) ∧ msgCounts (itemsFor s0 2) = (2, 4) ∧
    calcInfo Gen.sizeIncr s0 0 = (0, 0) := ⟨_, rfl, by decide, by decide, by decide⟩

end DV.C13
