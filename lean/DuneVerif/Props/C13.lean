import DuneVerif.Proofs.C13Match
/-!
C13 — IndicesSyncer completes index sets and remote index lists to mutual consistency.

Property theorems about the protocol model `DV.C13.sync` (Model/C13.lean).  They hold for every process count
(`w.length`), every decomposition `D`, every state `w` that is a *partial view* of `D` (`PartialView D w`: per rank
an index set with each global index at most once in ascending order and the attribute `D` gives; neighbours in
ascending order; remote index lists in ascending order of the global index whose entries carry the attributes of `D`
and refer to a pair of the index set), every numbering `num` of new local indices and every processing order.
`partialView_of_deleted` shows that deleting arbitrary copies (with their remote entries) from the consistent state
of a decomposition — the specification of `RemoteIndices::rebuild` — gives such a state.

Reading of a remote index `en` found in the list that `p` keeps for neighbour `q`:  `en.g` global index, `en.own` the
attribute of `p`'s own pair, `en.rem` the attribute `p` believes `q`'s copy to have.
-/
namespace DV.C13

/-- consistent state minus arbitrary deleted copies (any subset per process) is a partial view of the decomposition -/
theorem partialView_of_deleted (D : Decomp) (hD : DecompWF D) (del : Nat → Int → Bool) :
    PartialView D (deleteCopies del (consistent D)) :=
  partialView_delete (partialView_consistent hD) del

/-- First sentence of the property: for every process `p`, neighbour `q` and global index `g` that `p` believed to be
present on `q` (remote index `en` in `p`'s list for `q`): after the sync `q` has `g` in its index set with the
attribute `p` believed, `q`'s list for `p` records `p`'s copy with `p`'s attribute, and for every other holder `r` of
`g` that `p` knew, `q`'s list for `r` records it with the attribute `p` knew (`r` becomes a neighbour if it was none). -/
theorem sync_postcondition (num : Int → Nat) (D : Decomp) (w : World) (hw : PartialView D w)
    (p q : Nat) (sp : RankState) (hp : w[p]? = some sp) (en : RemEntry) (hen : en ∈ listOf sp.remote q) :
    ∃ sq', (sync num w)[q]? = some sq' ∧
      hasKey sq'.idx en.g en.rem = true ∧
      (⟨en.g, en.rem, en.own⟩ : RemEntry) ∈ listOf sq'.remote p ∧
      ∀ r er, r ≠ q → er ∈ listOf sp.remote r → er.g = en.g →
        (⟨en.g, en.rem, er.rem⟩ : RemEntry) ∈ listOf sq'.remote r :=
  postcondition_rank num hw p q sp hp en hen

/-- Nothing known before is lost or altered: every pair of the index set (including its local number), every
neighbour and every remote index is still there (and by `sync_sorted` each global index still occurs only once, so
no second, different entry has appeared beside it). -/
theorem sync_monotone (num : Int → Nat) (D : Decomp) (w : World) (hw : PartialView D w)
    (q : Nat) (sq : RankState) (hq : w[q]? = some sq) :
    ∃ sq', (sync num w)[q]? = some sq' ∧
      (∀ e ∈ sq.idx, e ∈ sq'.idx) ∧
      (∀ x, isNeighbour sq.remote x = true → isNeighbour sq'.remote x = true) ∧
      (∀ x en, en ∈ listOf sq.remote x → en ∈ listOf sq'.remote x) :=
  monotone_rank num hw q sq hq

/-- Nothing is invented: a pair of the index set after the sync was there before, or it is numbered by `num` and some
process `p` believed `q` to hold exactly this (global, attribute); a remote index of `q`'s list for `x` after the sync
was there before, or some process `p` that believed `q` to hold the index either is `x` itself (and the entry carries
`p`'s own attribute) or listed `x` as a holder with that attribute. -/
theorem sync_exact (num : Int → Nat) (D : Decomp) (w : World) (hw : PartialView D w)
    (q : Nat) (sq sq' : RankState) (hq : w[q]? = some sq) (hq' : (sync num w)[q]? = some sq') :
    (∀ e ∈ sq'.idx, e ∈ sq.idx ∨
      (e.loc = num e.g ∧ ∃ (p : Nat) (sp : RankState) (enq : RemEntry), w[p]? = some sp ∧ enq ∈ listOf sp.remote q ∧ enq.g = e.g ∧ enq.rem = e.attr)) ∧
    (∀ x en, en ∈ listOf sq'.remote x → en ∈ listOf sq.remote x ∨
      ∃ (p : Nat) (sp : RankState) (enq : RemEntry), w[p]? = some sp ∧ enq ∈ listOf sp.remote q ∧ enq.g = en.g ∧ enq.rem = en.own ∧
        ((x = p ∧ en.rem = enq.own) ∨ (x ≠ q ∧ ∃ er, er ∈ listOf sp.remote x ∧ er.g = en.g ∧ er.rem = en.rem))) :=
  exact_rank num hw q sq sq' hq hq'

/-- All lists stay ordered by global index — strictly, i.e. without duplicates: the index set, the neighbour map and
every remote index list; attributes still agree with the decomposition.  (The whole invariant is preserved.) -/
theorem sync_sorted (num : Int → Nat) (D : Decomp) (w : World) (hw : PartialView D w) :
    PartialView D (sync num w) ∧
    ∀ (q : Nat) (sq' : RankState), (sync num w)[q]? = some sq' →
      sq'.idx.Pairwise (fun a b => a.g < b.g) ∧
      sq'.remote.Pairwise (fun a b => a.1 < b.1) ∧
      ∀ x ∈ sq'.remote, x.2.Pairwise (fun a b => a.g < b.g) := by
  have h := partialView_sync num hw
  refine ⟨h, fun q sq' hq => ?_⟩
  have hI := h q sq' hq
  exact ⟨hI.idxSorted, hI.rem.nbSorted, fun x hx => (hI.rem.nbOk x hx).2.2⟩

/-- Valid references into the re-sorted index set: `repairLocalIndexPointers` (`resolve`) finds for every remote
index a position in the new index set, and the pair at that position has the entry's global index and attribute. -/
theorem sync_refs_valid (num : Int → Nat) (D : Decomp) (w : World) (hw : PartialView D w)
    (q : Nat) (sq' : RankState) (hq : (sync num w)[q]? = some sq') :
    ∀ x ∈ sq'.remote, ∀ en ∈ x.2,
      ∃ k e, resolve sq'.idx en = some k ∧ sq'.idx[k]? = some e ∧ e.g = en.g ∧ e.attr = en.own := by
  intro x hx en hen
  have hI := partialView_sync num hw q sq' hq
  exact resolve_of_hasKey sq'.idx en (hI.rem.remTrue x hx en hen).2

/-- The remote indices count as in sync afterwards (on every rank, for every state). -/
theorem sync_synced (num : Int → Nat) (w : World) (q : Nat) (sq' : RankState)
    (hq : (sync num w)[q]? = some sq') : isSynced sq' = true := by
  rw [sync_getElem?] at hq
  simp only [Option.map_eq_some_iff] at hq
  obtain ⟨st, _, rfl⟩ := hq
  simp [syncRank, finish, isSynced]

/-- All message orders: whatever order each rank processes its neighbours' messages in (any permutation of its
inbox, chosen per rank), the resulting state of every rank is the same as with the fixed order. -/
theorem order_irrelevant (num : Int → Nat) (D : Decomp) (w : World) (hw : PartialView D w)
    (ord : Nat → List (Nat × List Item) → List (Nat × List Item))
    (hord : ∀ q, (ord q (inbox w q)).Perm (inbox w q)) :
    syncOrd ord num w = sync num w := by
  apply List.ext_getElem?
  intro q
  rw [syncOrd_getElem?, sync_getElem?]
  cases hq : w[q]? with
  | none => rfl
  | some st =>
    simp only [Option.map_some, Option.some.injEq]
    unfold syncRank
    rw [recvAll_eq_flat, recvAll_eq_flat]
    congr 1
    apply recvFlat_ext num st (hw q st hq) (P := w.length) (D := D)
    · intro x hx
      apply trueItems_inbox hw q x
      obtain ⟨m, hm, h1, h2⟩ := (mem_flatMsgs _ x).1 hx
      exact (mem_flatMsgs _ x).2 ⟨m, (hord q).mem_iff.1 hm, h1, h2⟩
    · intro x
      rw [mem_flatMsgs, mem_flatMsgs]
      constructor
      · rintro ⟨m, hm, h⟩; exact ⟨m, (hord q).mem_iff.1 hm, h⟩
      · rintro ⟨m, hm, h⟩; exact ⟨m, (hord q).mem_iff.2 hm, h⟩

/-- Receives commute: two published indices (from any sources) can be received in either order. -/
theorem receives_commute (num : Int → Nat) (D : Decomp) (P me : Nat) (st : RankState) (hI : RankInv D P me st)
    (x y : Nat × Item) (hx : TrueItem D P me x.1 x.2) (hy : TrueItem D P me y.1 y.2) :
    receiveItem num me y.1 (receiveItem num me x.1 st x.2) y.2 =
      receiveItem num me x.1 (receiveItem num me y.1 st y.2) x.2 := by
  have := recvFlat_ext num st hI [x, y] [y, x] (by intro z hz; simp at hz; rcases hz with rfl | rfl <;> assumption)
    (by intro z; simp [or_comm])
  simpa [recvFlat] using this

/-- Message matching (the exchange itself is well-formed for every arrival order): when the neighbour relation is
symmetric, the messages addressed to `q` come from exactly `q`'s neighbours, one each, in ascending order of the
source — the receives `q` posts (one per old neighbour, `MPI_ANY_SOURCE` or the neighbours in map order) and the
sends of the others pair off. -/
theorem sync_message_matching (D : Decomp) (w : World) (hw : PartialView D w) (hs : NbSym w)
    (q : Nat) (sq : RankState) (hq : w[q]? = some sq) :
    (inbox w q).map (fun m => m.1) = sq.remote.map (fun x => x.1) :=
  message_matching hw hs q sq hq

/-- ... and the consistent state with arbitrary copies deleted has a symmetric neighbour relation. -/
theorem nbSym_of_deleted (D : Decomp) (hD : DecompWF D) (del : Nat → Int → Bool) :
    NbSym (deleteCopies del (consistent D)) :=
  nbSym_deleted hD del

/-- ... and the sync keeps it symmetric (processes that discover each other as new neighbours do so mutually), so the
operation can be repeated. -/
theorem sync_keeps_symmetry (num : Int → Nat) (D : Decomp) (w : World) (hw : PartialView D w) (hs : NbSym w) :
    NbSym (sync num w) :=
  nbSym_sync num hw hs

/-- The property's last sentence.  From the consistent state of any decomposition delete, on every process, any set
of locally held copies together with their remote entries (`del p g`).  If every deleted copy is still listed by
another process (some `r` has, after its own deletions, a remote index for `g` in its list for `p`), the sync restores
exactly the original state: on every rank the index set has the original (global, attribute) pairs in order and the
neighbour map with all remote index lists equals the original one.  (Restored pairs get their local number from
`num`; the pairs that were kept keep theirs by `sync_monotone`.) -/
theorem restore_after_delete (num : Int → Nat) (D : Decomp) (hD : DecompWF D) (del : Nat → Int → Bool)
    (hlisted : ∀ p g, del p g = true → (D.attrOf p g).isSome = true →
      ∃ (r : Nat) (sr : RankState) (en : RemEntry),
        (deleteCopies del (consistent D))[r]? = some sr ∧ en ∈ listOf sr.remote p ∧ en.g = g)
    (q : Nat) (s0 : RankState) (h0 : (consistent D)[q]? = some s0) :
    ∃ s', (sync num (deleteCopies del (consistent D)))[q]? = some s' ∧
      s'.idx.map (fun e => (e.g, e.attr)) = s0.idx.map (fun e => (e.g, e.attr)) ∧
      s'.remote = s0.remote := by
  -- "still listed" means: another process holds the index and keeps it
  have hsurv : ∀ p g, del p g = true → (D.attrOf p g).isSome = true →
      ∃ r, r ≠ p ∧ r < D.length ∧ (D.attrOf r g).isSome = true ∧ del r g = false := by
    intro p g hd hh
    obtain ⟨r, sr, en, hsr, hen, hg⟩ := hlisted p g hd hh
    rw [deleteCopies_getElem?, consistent_getElem?] at hsr
    simp only [Option.map_map, Option.map_eq_some_iff] at hsr
    obtain ⟨mine, hm, rfl⟩ := hsr
    have hr : r < D.length := (List.getElem?_eq_some_iff.1 hm).1
    have hmine : mine = D.slice r := by
      have := slice_eq_of_lt D r hr
      rw [hm] at this
      simpa using this
    subst hmine
    simp only [Function.comp] at hen
    rw [listOf_deleteRank, List.mem_filter] at hen
    obtain ⟨l, hl, hen'⟩ := mem_of_mem_listOf _ p en hen.1
    obtain ⟨_, hpr, hl', _⟩ := (mem_remote_consistentRank D r _ p l).1 hl
    rw [hl'] at hen'
    obtain ⟨h1, _⟩ := (mem_interList _ _ en).1 hen'
    refine ⟨r, Ne.symm hpr, hr, ?_, ?_⟩
    · rw [← hg, (attrOf_iff hD r en.g en.own).2 h1]; rfl
    · have := hen.2
      rw [hg] at this
      simpa using this
  rw [consistent_getElem?] at h0
  simp only [Option.map_eq_some_iff] at h0
  obtain ⟨mine, hm, rfl⟩ := h0
  have hq : q < D.length := (List.getElem?_eq_some_iff.1 hm).1
  have hmine : mine = D.slice q := by
    have := slice_eq_of_lt D q hq
    rw [hm] at this
    simpa using this
  subst hmine
  obtain ⟨s', h1, h2, h3⟩ := restore_rank hD num del hsurv q hq
  refine ⟨s', h1, ?_, h3⟩
  rw [h2]
  simp [consistentRank, numberFrom_map_key]

/-! ### non-vacuity: the hypotheses are satisfiable by a concrete non-trivial input

Three ranks; index 3 owned by rank 0 with an overlap/copy on ranks 2/1, index 4 a copy everywhere, 6 owned by rank 1
with an overlap on rank 2, 1 private to rank 0.  Rank 1 deletes its copy of 3, rank 2 deletes 3 and 4. -/

def exD : Decomp := [[(1, 0), (3, 0), (4, 2)], [(3, 2), (4, 2), (6, 0)], [(3, 1), (4, 2), (6, 1)]]
def exDel : Nat → Int → Bool := fun p g => (p == 1 && g == 3) || (p == 2 && (g == 3 || g == 4))
def exW : World := deleteCopies exDel (consistent exD)
def exNum : Int → Nat := fun g => (1000 + g).toNat

theorem exWF : DecompWF exD := by unfold DecompWF; decide

/-- `PartialView` holds for the example (hypothesis of all theorems above) -/
example : PartialView exD exW := partialView_of_deleted exD exWF exDel

/-- hypotheses of `sync_postcondition`: rank 0 still lists rank 2 for index 3, which rank 2 no longer holds -/
example : ∃ sp, exW[0]? = some sp ∧ (⟨3, 0, 1⟩ : RemEntry) ∈ listOf sp.remote 2 := ⟨_, rfl, by decide⟩
example : ∃ s2, exW[2]? = some s2 ∧ hasKey s2.idx 3 1 = false := ⟨_, rfl, by decide⟩
/-- ... and its conclusion, evaluated: rank 2 has index 3 (overlap) again and lists ranks 0 and 1 for it -/
example : ∃ s2, (sync exNum exW)[2]? = some s2 ∧ hasKey s2.idx 3 1 = true ∧
    (⟨3, 1, 0⟩ : RemEntry) ∈ listOf s2.remote 0 ∧ (⟨3, 1, 2⟩ : RemEntry) ∈ listOf s2.remote 1 := ⟨_, rfl, by decide⟩

/-- hypothesis of `order_irrelevant`: a processing order that really differs (rank 2 receives two non-empty messages) -/
example : (inbox exW 2).map (fun m => (m.1, m.2.length)) = [(0, 2), (1, 2)] := by decide
example : syncOrd (fun _ l => l.reverse) exNum exW = sync exNum exW :=
  order_irrelevant exNum exD exW (partialView_of_deleted exD exWF exDel) _ (fun _ => List.reverse_perm _)

example : (inbox exW 2).map (fun m => m.1) = [0, 1] :=
  sync_message_matching exD exW (partialView_of_deleted exD exWF exDel) (nbSym_of_deleted exD exWF exDel) 2 _ rfl

/-- hypothesis of `restore_after_delete` for the example: every deleted copy is still listed by rank 0 -/
theorem exListed : ∀ p g, exDel p g = true → (exD.attrOf p g).isSome = true →
    ∃ (r : Nat) (sr : RankState) (en : RemEntry), (deleteCopies exDel (consistent exD))[r]? = some sr ∧ en ∈ listOf sr.remote p ∧ en.g = g := by
  intro p g h _
  simp only [exDel, Bool.or_eq_true, Bool.and_eq_true, beq_iff_eq] at h
  rcases h with ⟨rfl, rfl⟩ | ⟨rfl, rfl | rfl⟩
  · exact ⟨0, _, ⟨3, 0, 2⟩, rfl, by decide, rfl⟩
  · exact ⟨0, _, ⟨3, 0, 1⟩, rfl, by decide, rfl⟩
  · exact ⟨0, _, ⟨4, 2, 2⟩, rfl, by decide, rfl⟩

example : ∃ s', (sync exNum exW)[2]? = some s' ∧
    s'.idx.map (fun e => (e.g, e.attr)) = [(3, 1), (4, 2), (6, 1)] ∧
    s'.remote = [(0, [⟨3, 1, 0⟩, ⟨4, 2, 2⟩]), (1, [⟨3, 1, 2⟩, ⟨4, 2, 2⟩, ⟨6, 1, 0⟩])] := by
  obtain ⟨s', h1, h2, h3⟩ := restore_after_delete exNum exD exWF exDel exListed 2 _ rfl
  exact ⟨s', h1, h2, h3⟩

/-- the deletion really removed something on rank 2 (so the restoration is not trivial) -/
example : ∃ s2, exW[2]? = some s2 ∧ s2.idx.map (fun e => (e.g, e.attr)) = [(6, 1)] ∧
    s2.remote = [(0, []), (1, [⟨6, 1, 0⟩])] := ⟨_, rfl, by decide⟩

end DV.C13
