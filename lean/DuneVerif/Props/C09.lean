import DuneVerif.Proofs.C09
import DuneVerif.Proofs.C09LU
import DuneVerif.Proofs.C09Layer
import DuneVerif.Gen.C09Lanes
/-!
# C09 — SIMD types are lane-wise transparent, also through the dense-matrix algorithms

Property theorems only (proofs in `Proofs/C09*.lean`; one generated lemma per operator row of loop.hh in
`Gen/C09Lanes.lean`).  Everything is stated for **every** lane count `S`, **every** scalar type `α`/`K` and
**every** interpretation `sem` of the operator symbols and of the scalar arithmetic `R` — no algebraic law is
assumed, so the statements hold verbatim for IEEE floating point (bit for bit), integers, masks and nested
vectors.  "`r = allSome (…)`" reads: the vector operation is defined exactly if the scalar operation is defined
in every lane, and then lane `l` of the result is the scalar result for lane `l` of the operands
(`LanewiseBin.lane`, `LanewiseBin.defined`).
-/
namespace DV.C09
open Gen

-- ------------------------------------------------------------------------------------------------
-- 1. the source still has the shape the theorems are about
-- ------------------------------------------------------------------------------------------------

/-- every per-lane loop the translator found in loop.hh runs `i = 0 … S-1`, writes entry `i` and reads every
    vector operand at `i`, in the operand order of the specification -/
theorem loops_lanewise :
    (loop_UNARY_OP_v.canonical ∧ loop_UNARY_OP_v.args = [.vec 0 .i]) ∧
    (loop_lnot.canonical ∧ loop_lnot.args = [.vec 0 .i]) ∧
    (loop_PREFIX_OP_v.canonical ∧ loop_PREFIX_OP_v.args = [.vec 0 .i] ∧ loop_PREFIX_OP_v.inPlace = true) ∧
    (loop_ASSIGNMENT_OP_vv.canonical ∧ loop_ASSIGNMENT_OP_vv.args = [.vec 0 .i, .vec 1 .i] ∧ loop_ASSIGNMENT_OP_vv.inPlace = true) ∧
    (loop_ASSIGNMENT_OP_vs.canonical ∧ loop_ASSIGNMENT_OP_vs.args = [.vec 0 .i, .scalar] ∧ loop_ASSIGNMENT_OP_vs.inPlace = true) ∧
    (loop_BINARY_OP_vv.canonical ∧ loop_BINARY_OP_vv.args = [.vec 0 .i, .vec 1 .i]) ∧
    (loop_BINARY_OP_vs.canonical ∧ loop_BINARY_OP_vs.args = [.vec 0 .i, .scalar]) ∧
    (loop_BINARY_OP_sv.canonical ∧ loop_BINARY_OP_sv.args = [.scalar, .vec 0 .i]) ∧
    (loop_BITSHIFT_OP_vv.canonical ∧ loop_BITSHIFT_OP_vv.args = [.vec 0 .i, .vec 1 .i]) ∧
    (loop_BITSHIFT_OP_vs.canonical ∧ loop_BITSHIFT_OP_vs.args = [.vec 0 .i, .scalar]) ∧
    (loop_COMPARISON_OP_vv.canonical ∧ loop_COMPARISON_OP_vv.args = [.vec 0 .i, .vec 1 .i]) ∧
    (loop_COMPARISON_OP_vs.canonical ∧ loop_COMPARISON_OP_vs.args = [.vec 0 .i, .scalar]) ∧
    (loop_COMPARISON_OP_sv.canonical ∧ loop_COMPARISON_OP_sv.args = [.scalar, .vec 0 .i]) ∧
    (loop_BOOLEAN_OP_vv.canonical ∧ loop_BOOLEAN_OP_vv.args = [.vec 0 .i, .vec 1 .i]) ∧
    (loop_BOOLEAN_OP_vs.canonical ∧ loop_BOOLEAN_OP_vs.args = [.vec 0 .i, .scalar]) ∧
    (loop_BOOLEAN_OP_sv.canonical ∧ loop_BOOLEAN_OP_sv.args = [.scalar, .vec 0 .i]) ∧
    (loop_CMATH_UNARY_OP_v.canonical ∧ loop_CMATH_UNARY_OP_v.args = [.vec 0 .i]) ∧
    (loop_CMATH_UNARY_OP_WITH_RETURN_v.canonical ∧ loop_CMATH_UNARY_OP_WITH_RETURN_v.args = [.vec 0 .i]) ∧
    (loop_STD_UNARY_OP_v.canonical ∧ loop_STD_UNARY_OP_v.args = [.vec 0 .i]) ∧
    (loop_STD_UNARY_OP_v2.canonical ∧ loop_STD_UNARY_OP_v2.args = [.vec 0 .i]) ∧
    (loop_STD_BINARY_OP_vv.canonical ∧ loop_STD_BINARY_OP_vv.args = [.vec 0 .i, .vec 1 .i]) ∧
    (loop_isNaN.canonical ∧ loop_isInf.canonical ∧ loop_isFinite.canonical) ∧
    (loop_condLanes.canonical ∧ loop_condLanes.args = [.vec 0 .i, .vec 1 .i, .vec 2 .i]) := by decide

/-- every operator of the specification table (simd/DESIGN.md) is defined by loop.hh -/
theorem spec_table_covered :
    (∀ s ∈ specUnary, s ∈ UnOp.all.map UnOp.symbol) ∧
    (∀ s ∈ specBinary, s ∈ BinOp.all.map BinOp.symbol ++ ShiftOp.all.map ShiftOp.symbol) ∧
    (∀ s ∈ specAssign, (s ++ "=") ∈ AssignOp.all.map AssignOp.symbol) ∧
    (∀ s ∈ specCompare, s ∈ CmpOp.all.map CmpOp.symbol) ∧
    (∀ s ∈ specLogic, s ∈ BoolOp.all.map BoolOp.symbol) := by decide

-- ------------------------------------------------------------------------------------------------
-- 2. lane_op: every operator and math function of LoopSIMD is lane-wise
--    (quantified over the operator lists regenerated from loop.hh; per-operator instances: Gen/C09Lanes.lean)
-- ------------------------------------------------------------------------------------------------
section LaneOp
variable {α β : Type} {S : Nat}

theorem lane_op_unary (sem : UnOp → α → Option α) (op : UnOp) (a : Vec α S) :
    LanewiseUn (Simd.unary sem op a) (sem op) a := lanewise_unary sem op a
theorem lane_op_lnot (truth : α → Option Bool) (a : Vec α S) :
    LanewiseUn (Simd.lnot truth a) (fun x => (truth x).map (!·)) a := lanewise_lnot truth a
theorem lane_op_prefix (sem : IncOp → α → Option α) (op : IncOp) (a : Vec α S) :
    LanewiseUn (Simd.prefix sem op a) (sem op) a := lanewise_prefix sem op a
theorem lane_op_postfix (sem : IncOp → α → Option α) (op : IncOp) (a : Vec α S) :
    LanewisePostfix (Simd.postfix sem op a) (sem op) a := lanewise_postfix sem op a
theorem lane_op_binary (sem : BinOp → α → α → Option α) (op : BinOp) (a b : Vec α S) (s : α) :
    LanewiseBin (Simd.binaryVV sem op a b) (sem op) a b ∧ LanewiseBinVS (Simd.binaryVS sem op a s) (sem op) a s ∧
    LanewiseBinSV (Simd.binarySV sem op s b) (sem op) s b :=
  ⟨lanewise_binaryVV sem op a b, lanewise_binaryVS sem op a s, lanewise_binarySV sem op s b⟩
theorem lane_op_shift (sem : ShiftOp → α → β → Option α) (op : ShiftOp) (a : Vec α S) (b : Vec β S) (s : β) :
    LanewiseBin (Simd.shiftVV sem op a b) (sem op) a b ∧ LanewiseBinVS (Simd.shiftVS sem op a s) (sem op) a s :=
  ⟨lanewise_shiftVV sem op a b, lanewise_shiftVS sem op a s⟩
theorem lane_op_assign (sem : AssignOp → α → α → Option α) (op : AssignOp) (a b : Vec α S) (s : α) :
    LanewiseBin (Simd.assignVV sem op a b) (sem op) a b ∧ LanewiseBinVS (Simd.assignVS sem op a s) (sem op) a s :=
  ⟨lanewise_assignVV sem op a b, lanewise_assignVS sem op a s⟩
theorem lane_op_compare (sem : CmpOp → α → α → Option Bool) (op : CmpOp) (a b : Vec α S) (s : α) :
    LanewiseBin (Simd.compareVV sem op a b) (sem op) a b ∧ LanewiseBinVS (Simd.compareVS sem op a s) (sem op) a s ∧
    LanewiseBinSV (Simd.compareSV sem op s b) (sem op) s b :=
  ⟨lanewise_compareVV sem op a b, lanewise_compareVS sem op a s, lanewise_compareSV sem op s b⟩
theorem lane_op_logic (sem : BoolOp → α → α → Option Bool) (op : BoolOp) (a b : Vec α S) (s : α) :
    LanewiseBin (Simd.logicVV sem op a b) (sem op) a b ∧ LanewiseBinVS (Simd.logicVS sem op a s) (sem op) a s ∧
    LanewiseBinSV (Simd.logicSV sem op s b) (sem op) s b :=
  ⟨lanewise_logicVV sem op a b, lanewise_logicVS sem op a s, lanewise_logicSV sem op s b⟩
theorem lane_op_math (sem : MathOp → α → Option α) (op : MathOp) (a : Vec α S) :
    LanewiseUn (Simd.math sem op a) (sem op) a := lanewise_math sem op a
theorem lane_op_mathRet (sem : MathRetOp → α → Option β) (op : MathRetOp) (a : Vec α S) :
    LanewiseUn (Simd.mathRet sem op a) (sem op) a := lanewise_mathRet sem op a
theorem lane_op_stdUn (sem : StdUnOp → α → Option β) (op : StdUnOp) (a : Vec α S) :
    LanewiseUn (Simd.stdUn sem op a) (sem op) a := lanewise_stdUn sem op a
theorem lane_op_stdBin (sem : StdBinOp → α → α → Option α) (op : StdBinOp) (a b : Vec α S) :
    LanewiseBin (Simd.stdBin sem op a b) (sem op) a b := lanewise_stdBin sem op a b
theorem lane_op_classify (f : α → Option Bool) (a : Vec α S) :
    LanewiseUn (Simd.isNaN f a) f a ∧ LanewiseUn (Simd.isInf f a) f a ∧ LanewiseUn (Simd.isFinite f a) f a :=
  ⟨lanewise_isNaN f a, lanewise_isInf f a, lanewise_isFinite f a⟩

/-- what "lane-wise" means, spelled out for the binary case: if the vector operation returns `v`, lane `l` of
    `v` is the scalar operation on lane `l` of the operands; and it returns whenever every lane is defined -/
theorem lane_op_meaning (sem : BinOp → α → α → Option α) (op : BinOp) (a b : Vec α S) :
    (∀ v, Simd.binaryVV sem op a b = some v → ∀ l (hl : l < S), sem op a[l] b[l] = some v[l]) ∧
    ((∀ l (hl : l < S), (sem op a[l] b[l]).isSome = true) → ∃ v, Simd.binaryVV sem op a b = some v) :=
  ⟨fun _ hv l hl => (lanewise_binaryVV sem op a b).lane hv l hl,
   fun hd => (lanewise_binaryVV sem op a b).defined hd⟩

/-- nesting: an operator of `LoopSIMD<LoopSIMD<T,S₂>,S>` is the operator of the inner vector in every entry,
    hence the scalar operator in every lane of every entry -/
theorem lane_op_nested {S₂ : Nat} (sem : BinOp → α → α → Option α) (op : BinOp) (a b : Vec (Vec α S₂) S)
    (v : Vec (Vec α S₂) S) (h : Simd.binVV loop_BINARY_OP_vv (Simd.binaryVV sem op) a b = some v)
    (i : Nat) (hi : i < S) (j : Nat) (hj : j < S₂) : sem op (a[i])[j] (b[i])[j] = some (v[i])[j] := by
  have h1 := (binVV_canonical loop_BINARY_OP_vv (by decide) (by decide) (by decide)
    (Simd.binaryVV sem op) a b).lane h i hi
  exact (lanewise_binaryVV sem op a[i] b[i]).lane h1 j hj

end LaneOp

-- non-vacuity: a concrete operator on concrete lanes (Int, two's-complement-free exact arithmetic)
example : Simd.binaryVV (fun (_ : BinOp) (x y : Int) => some (x - y)) .sub (#v[5, -3, 7, 0] : Vec Int 4) #v[1, 2, 3, 4]
    = some #v[4, -5, 4, -4] := by decide
-- … and a scalar operation that is undefined in one lane makes the vector operation undefined (division by zero)
example : Simd.binaryVV (fun (_ : BinOp) (x y : Int) => if y = 0 then none else some (x / y)) .div
    (#v[6, 1] : Vec Int 2) #v[3, 0] = none := by decide

-- ------------------------------------------------------------------------------------------------
-- 3. the abstraction layer: lane, cond, mask reductions, broadcast, nested lane numbering
-- ------------------------------------------------------------------------------------------------
section Layer
variable {α : Type} {S S₂ : Nat}

/-- **lane_cond** -/
theorem lane_cond (m : Vec Bool S) (a b : Vec α S) :
    Simd.cond m a b = some (Vector.ofFn fun i : Fin S => if m[i] then a[i] else b[i]) := cond_flat m a b
theorem lane_cond_nested (m : Vec (Vec Bool S₂) S) (a b : Vec (Vec α S₂) S) :
    Simd.condNested m a b =
      some (Vector.ofFn fun i : Fin S => Vector.ofFn fun j : Fin S₂ => if (m[i])[j] then (a[i])[j] else (b[i])[j]) :=
  cond_nested m a b

/-- **anyTrue_iff** etc.: the four reductions of a mask are ∃ / ∀ over its lanes -/
theorem anyTrue_iff (m : Vec Bool S) :
    ∃ r, Simd.reduceFlat .anyTrue m = some r ∧ (r = true ↔ ∃ l, ∃ h : l < S, m[l] = true) := anyTrue_iff_flat m
theorem allTrue_iff (m : Vec Bool S) :
    ∃ r, Simd.reduceFlat .allTrue m = some r ∧ (r = true ↔ ∀ l, ∀ h : l < S, m[l] = true) := allTrue_iff_flat m
theorem anyFalse_iff (m : Vec Bool S) :
    ∃ r, Simd.reduceFlat .anyFalse m = some r ∧ (r = true ↔ ∃ l, ∃ h : l < S, m[l] = false) := anyFalse_iff_flat m
theorem allFalse_iff (m : Vec Bool S) :
    ∃ r, Simd.reduceFlat .allFalse m = some r ∧ (r = true ↔ ∀ l, ∀ h : l < S, m[l] = false) := allFalse_iff_flat m
/-- nested masks: the reduction ranges over all lanes of all entries -/
theorem reduce_nested (k : RedKind) (m : Vec (Vec Bool S₂) S) :
    Simd.reduceNested k m = some (redSpec k (Simd.flatten m)) := reduceNested_eq k m

/-- **nested_lane**: `lane(l, v)` of a vector of vectors is lane `l % S₂` of entry `l / S₂`; entry `(i, j)` is
    lane `i * S₂ + j`; there are `S * S₂` lanes -/
theorem nested_lane (v : Vec (Vec α S₂) S) (l : Nat) (hl : l < S * S₂) :
    ∃ (h1 : l / S₂ < S) (h2 : l % S₂ < S₂), Simd.laneNested l v = some (v[l / S₂])[l % S₂] := nested_lane_divmod v l hl
theorem nested_lane_entry (v : Vec (Vec α S₂) S) (i j : Nat) (hi : i < S) (hj : j < S₂) :
    Simd.laneNested (i * S₂ + j) v = some (v[i])[j] := nested_lane_entry_aux v i j hi hj
theorem nested_lane_count : laneCount S (laneCount S₂ 1) = S * S₂ := laneCount_nested

theorem lane_of_flat (v : Vec α S) (l : Nat) (hl : l < S) : Simd.lane l v = some v[l] := lane_flat v l hl
theorem lane_assign (v : Vec α S) (l l' : Nat) (x : α) (hl : l < S) (hl' : l' < S) :
    ∃ v', Simd.setLane l x v = some v' ∧ Simd.lane l' v' = some (if l = l' then x else v[l']) :=
  lane_setLane v l l' x hl hl'
theorem lane_of_broadcast (x : α) (l : Nat) (hl : l < S) : Simd.lane l (Simd.broadcast (S := S) x) = some x :=
  lane_broadcast x l hl

end Layer

example : Simd.cond (#v[true, false, true] : Vec Bool 3) (#v[1, 2, 3] : Vec Int 3) #v[10, 20, 30] = some #v[1, 20, 3] := by
  decide
example : Simd.reduceFlat .allTrue (#v[true, true, false, true] : Vec Bool 4) = some false ∧
    Simd.reduceFlat .anyTrue (#v[false, false, true, false] : Vec Bool 4) = some true := by decide
example : Simd.laneNested 5 (#v[#v[0, 1], #v[2, 3], #v[4, 5]] : Vec (Vec Int 2) 3) = some 5 := by decide

-- ------------------------------------------------------------------------------------------------
-- 4. dense-matrix algorithms on matrices of SIMD numbers
-- ------------------------------------------------------------------------------------------------
section Dense
variable {V : Type → Type} {L : Nat} (X : SimdLike V L) (hX : X.Lawful) {K : Type} (R : Arith K) {n : Nat}

/-- the two instances the code uses satisfy the laws: the built-in scalar and `LoopSIMD<·,S>` for every `S`
    (the latter's `cond`/reductions/operators are the translated ones: `cond_loop_instance`,
    `anyTrue_loop_instance`, `allTrue_loop_instance`, `binaryVV_loop_instance`, …) -/
theorem instances_lawful (S : Nat) : SimdLike.scalar.Lawful ∧ (SimdLike.loop S).Lawful :=
  ⟨scalar_lawful, loop_lawful S⟩

include hX in
/-- **pivot_per_lane**: the pivot row chosen in lane `l` (and the pivot size) is the one the scalar search
    chooses on lane `l`'s matrix — whatever the other lanes need -/
theorem pivot_per_lane (A : Mat (V K) n) (i : Fin n) (l : Fin L) :
    (X.lane l (pivotSearch X R A i).1, X.lane l (pivotSearch X R A i).2) =
      pivotSearch (V := fun α => α) SimdLike.scalar R (laneMat X l A) i := lane_pivotSearch X hX R l A i

include hX in
/-- **lu_lanewise**: `lane l (detSimd A) = detScalar (laneMat l A)` for every lane, **including mixed singular /
    nonsingular lanes**, with or without pivoting, for every `n` (closed forms `n ≤ 3`, LU beyond) -/
theorem lu_lanewise (piv : Bool) (A : Mat (V K) n) (l : Fin L) :
    X.lane l (determinant X R piv A) = determinant (V := fun α => α) SimdLike.scalar R piv (laneMat X l A) :=
  determinant_lanewise X hX R piv A l

include hX in
/-- **solve_lanewise**: if the SIMD `solve` returns `x`, the scalar `solve` returns lane `l` of `x` for lane
    `l`'s system, for every lane … -/
theorem solve_lanewise (piv : Bool) (A : Mat (V K) n) (b x : Vector (V K) n) (h : solve X R piv A b = some x) (l : Fin L) :
    solve (V := fun α => α) SimdLike.scalar R piv (laneMat X l A) (laneVec X l b) = some (laneVec X l x) :=
  solve_lanewise_some X hX R piv A b x h l

include hX in
/-- … and it throws `FMatrixError` exactly if the scalar `solve` throws for at least one lane -/
theorem solve_throws_iff (piv : Bool) (A : Mat (V K) n) (b : Vector (V K) n) :
    solve X R piv A b = none ↔
      ∃ l, solve (V := fun α => α) SimdLike.scalar R piv (laneMat X l A) (laneVec X l b) = none := by
  constructor
  · exact solve_lanewise_none X hX R piv A b
  · rintro ⟨l, hl⟩
    cases h : solve X R piv A b with
    | none => rfl
    | some x => rw [solve_lanewise_some X hX R piv A b x h l] at hl; cases hl

include hX in
/-- **invert_lanewise** -/
theorem invert_lanewise (piv : Bool) (A B : Mat (V K) n) (h : invert X R piv A = some B) (l : Fin L) :
    invert (V := fun α => α) SimdLike.scalar R piv (laneMat X l A) = some (laneMat X l B) :=
  invert_lanewise_some X hX R piv A B h l

include hX in
theorem invert_throws_iff (piv : Bool) (A : Mat (V K) n) :
    invert X R piv A = none ↔ ∃ l, invert (V := fun α => α) SimdLike.scalar R piv (laneMat X l A) = none := by
  constructor
  · exact invert_lanewise_none X hX R piv A
  · rintro ⟨l, hl⟩
    cases h : invert X R piv A with
    | none => rfl
    | some B => rw [invert_lanewise_some X hX R piv A B h l] at hl; cases hl

include hX in
/-- products and norms: `mv`, `rightmultiply`, `frobenius_norm2`, `infinity_norm` -/
theorem products_norms_lanewise (A M : Mat (V K) n) (x : Vector (V K) n) (l : Fin L) :
    laneVec X l (mv X R A x) = mv (V := fun α => α) SimdLike.scalar R (laneMat X l A) (laneVec X l x) ∧
    laneMat X l (rightmultiply X R A M) =
      rightmultiply (V := fun α => α) SimdLike.scalar R (laneMat X l A) (laneMat X l M) ∧
    X.lane l (frobeniusNorm2 X R A) = frobeniusNorm2 (V := fun α => α) SimdLike.scalar R (laneMat X l A) ∧
    X.lane l (infinityNorm X R A) = infinityNorm (V := fun α => α) SimdLike.scalar R (laneMat X l A) :=
  ⟨mv_lanewise X hX R A x l, rightmultiply_lanewise X hX R A M l, frobeniusNorm2_lanewise X hX R A l,
   infinityNorm_lanewise X hX R A l⟩

end Dense

/-- the statement for the concrete type: `FieldMatrix<LoopSIMD<K,S>,n,n>::determinant` -/
theorem lu_lanewise_loop {K : Type} (R : Arith K) {S n : Nat} (piv : Bool) (A : Mat (Vec K S) n) (l : Fin S) :
    (determinant (SimdLike.loop S) R piv A)[l] =
      determinant (V := fun α => α) SimdLike.scalar R piv (laneMat (SimdLike.loop S) l A) :=
  determinant_lanewise (SimdLike.loop S) (loop_lawful S) R piv A l

-- non-vacuity: exact integer arithmetic (`/` = truncating division), two lanes that need different pivot rows,
-- and a 4×4 matrix whose lane 0 is regular and lane 1 singular
def intArith : Arith Int where
  zero := 0
  one := 1
  add := (· + ·)
  sub := (· - ·)
  mul := (· * ·)
  div := Int.tdiv
  neg := fun a => -a
  abs := fun a => if a < 0 then -a else a
  lt := fun a b => a < b
  beq := fun a b => a == b

/-- lane 0 = diag(1,2,1,3) with rows 0 and 1 exchanged (pivot row 1 in step 0), lane 1 has a zero first column -/
def exampleMat : Mat (Vec Int 2) 4 :=
  #v[#v[#v[0, 0], #v[2, 1], #v[0, 0], #v[0, 0]],
     #v[#v[1, 0], #v[0, 5], #v[0, 2], #v[0, 0]],
     #v[#v[0, 0], #v[0, 0], #v[1, 1], #v[0, 0]],
     #v[#v[0, 0], #v[0, 0], #v[0, 0], #v[3, 7]]]




/-- both lanes regular, pivot row 1 in lane 0 and pivot row 2 in lane 1 (first step) -/
def regularMat : Mat (Vec Int 2) 4 :=
  #v[#v[#v[0, 0], #v[2, 0], #v[0, 1], #v[0, 0]],
     #v[#v[1, 0], #v[0, 1], #v[0, 0], #v[0, 0]],
     #v[#v[0, 5], #v[0, 0], #v[1, 0], #v[0, 0]],
     #v[#v[0, 0], #v[0, 0], #v[0, 0], #v[3, 1]]]

-- mixed lanes: lane 0 regular (det -6), lane 1 singular (det 0, not an artefact of the other lane)
example : determinant (SimdLike.loop 2) intArith true exampleMat = #v[-6, 0] := by decide +kernel
-- the two lanes choose different pivot rows in the first step
example : (pivotSearch (SimdLike.loop 2) intArith regularMat 0).2 = #v[1, 2] := by decide +kernel
example : determinant (SimdLike.loop 2) intArith true regularMat = #v[-6, -5] := by decide +kernel
-- `solve_lanewise` has a satisfiable hypothesis (both lanes regular) …
example : solve (SimdLike.loop 2) intArith true regularMat #v[#v[2, 1], #v[1, 1], #v[1, 5], #v[3, 1]] =
    some #v[#v[1, 1], #v[1, 1], #v[1, 1], #v[1, 1]] := by decide +kernel
-- … and `solve_throws_iff` / `invert_throws_iff` are not vacuous either: one singular lane makes the call throw
example : solve (SimdLike.loop 2) intArith true exampleMat #v[#v[2, 1], #v[1, 1], #v[1, 1], #v[3, 1]] = none := by
  decide +kernel
example : invert (SimdLike.loop 2) intArith true exampleMat = none ∧
    (invert (SimdLike.loop 2) intArith true regularMat).isSome = true := by decide +kernel

end DV.C09
