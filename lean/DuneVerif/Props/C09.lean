import DuneVerif.Proofs.C09
import DuneVerif.Proofs.C09LU
import DuneVerif.Proofs.C09Layer
import DuneVerif.Proofs.C09Defaults
import DuneVerif.Proofs.C09Chk
import DuneVerif.Proofs.C09LUT
import DuneVerif.Proofs.C09K
import DuneVerif.Gen.C09Lanes
/-!
# C09 — SIMD types are lane-wise transparent, also through the dense-matrix algorithms

Property theorems only (proofs in `Proofs/C09*.lean`; one generated lemma per operator row of loop.hh in
`Gen/C09Lanes.lean`).  Everything is stated for **every** lane count `S`, **every** scalar type `α`/`K` and
**every** interpretation `sem` of the operator symbols and of the scalar arithmetic `R` — no algebraic law is
assumed, so the statements hold verbatim for IEEE floating point (bit for bit), integers, masks and nested
vectors.  "`r = allSome (…)`" reads: the vector operation is defined exactly if the scalar operation is defined
in every lane, and then lane `l` of the result is the scalar result for lane `l` of the operands
(`LanewiseBin.lane`, `LanewiseBin.defined`).
-/
namespace DV.C09
open Gen

-- ------------------------------------------------------------------------------------------------
-- 1. the source still has the shape the theorems are about
-- ------------------------------------------------------------------------------------------------

/-- every per-lane loop the translator found in loop.hh runs `i = 0 … S-1`, writes entry `i` and reads every
    vector operand at `i`, in the operand order of the specification -/
theorem loops_lanewise :
    (loop_UNARY_OP_v.canonical ∧ loop_UNARY_OP_v.args = [.vec 0 .i]) ∧
    (loop_lnot.canonical ∧ loop_lnot.args = [.vec 0 .i]) ∧
    (loop_PREFIX_OP_v.canonical ∧ loop_PREFIX_OP_v.args = [.vec 0 .i] ∧ loop_PREFIX_OP_v.inPlace = true) ∧
    (loop_ASSIGNMENT_OP_vv.canonical ∧ loop_ASSIGNMENT_OP_vv.args = [.vec 0 .i, .vec 1 .i] ∧ loop_ASSIGNMENT_OP_vv.inPlace = true) ∧
    (loop_ASSIGNMENT_OP_vs.canonical ∧ loop_ASSIGNMENT_OP_vs.args = [.vec 0 .i, .scalar] ∧ loop_ASSIGNMENT_OP_vs.inPlace = true ∧
      loop_ASSIGNMENT_OP_vs.scalarByRef = false) ∧
    (loop_BINARY_OP_vv.canonical ∧ loop_BINARY_OP_vv.args = [.vec 0 .i, .vec 1 .i]) ∧
    (loop_BINARY_OP_vs.canonical ∧ loop_BINARY_OP_vs.args = [.vec 0 .i, .scalar]) ∧
    (loop_BINARY_OP_sv.canonical ∧ loop_BINARY_OP_sv.args = [.scalar, .vec 0 .i]) ∧
    (loop_BITSHIFT_OP_vv.canonical ∧ loop_BITSHIFT_OP_vv.args = [.vec 0 .i, .vec 1 .i]) ∧
    (loop_BITSHIFT_OP_vs.canonical ∧ loop_BITSHIFT_OP_vs.args = [.vec 0 .i, .scalar]) ∧
    (loop_COMPARISON_OP_vv.canonical ∧ loop_COMPARISON_OP_vv.args = [.vec 0 .i, .vec 1 .i]) ∧
    (loop_COMPARISON_OP_vs.canonical ∧ loop_COMPARISON_OP_vs.args = [.vec 0 .i, .scalar]) ∧
    (loop_COMPARISON_OP_sv.canonical ∧ loop_COMPARISON_OP_sv.args = [.scalar, .vec 0 .i]) ∧
    (loop_BOOLEAN_OP_vv.canonical ∧ loop_BOOLEAN_OP_vv.args = [.vec 0 .i, .vec 1 .i]) ∧
    (loop_BOOLEAN_OP_vs.canonical ∧ loop_BOOLEAN_OP_vs.args = [.vec 0 .i, .scalar]) ∧
    (loop_BOOLEAN_OP_sv.canonical ∧ loop_BOOLEAN_OP_sv.args = [.scalar, .vec 0 .i]) ∧
    (loop_CMATH_UNARY_OP_v.canonical ∧ loop_CMATH_UNARY_OP_v.args = [.vec 0 .i]) ∧
    (loop_CMATH_UNARY_OP_WITH_RETURN_v.canonical ∧ loop_CMATH_UNARY_OP_WITH_RETURN_v.args = [.vec 0 .i]) ∧
    (loop_STD_UNARY_OP_v.canonical ∧ loop_STD_UNARY_OP_v.args = [.vec 0 .i]) ∧
    (loop_STD_UNARY_OP_v2.canonical ∧ loop_STD_UNARY_OP_v2.args = [.vec 0 .i]) ∧
    (loop_STD_BINARY_OP_vv.canonical ∧ loop_STD_BINARY_OP_vv.args = [.vec 0 .i, .vec 1 .i]) ∧
    (loop_isNaN.canonical ∧ loop_isInf.canonical ∧ loop_isFinite.canonical) ∧
    (loop_condLanes.canonical ∧ loop_condLanes.args = [.vec 0 .i, .vec 1 .i, .vec 2 .i]) := by decide

/-- every operator of the specification table (simd/DESIGN.md) is defined by loop.hh -/
theorem spec_table_covered :
    (∀ s ∈ specUnary, s ∈ UnOp.all.map UnOp.symbol) ∧
    (∀ s ∈ specBinary, s ∈ BinOp.all.map BinOp.symbol ++ ShiftOp.all.map ShiftOp.symbol) ∧
    (∀ s ∈ specAssign, (s ++ "=") ∈ AssignOp.all.map AssignOp.symbol) ∧
    (∀ s ∈ specCompare, s ∈ CmpOp.all.map CmpOp.symbol) ∧
    (∀ s ∈ specLogic, s ∈ BoolOp.all.map BoolOp.symbol) := by decide

-- ------------------------------------------------------------------------------------------------
-- 2. lane_op: every operator and math function of LoopSIMD is lane-wise
--    (quantified over the operator lists regenerated from loop.hh; per-operator instances: Gen/C09Lanes.lean)
-- ------------------------------------------------------------------------------------------------
section LaneOp
variable {α β : Type} {S : Nat}

theorem lane_op_unary (sem : UnOp → α → Option α) (op : UnOp) (a : Vec α S) :
    LanewiseUn (Simd.unary sem op a) (sem op) a := lanewise_unary sem op a
theorem lane_op_lnot (truth : α → Option Bool) (a : Vec α S) :
    LanewiseUn (Simd.lnot truth a) (fun x => (truth x).map (!·)) a := lanewise_lnot truth a
theorem lane_op_prefix (sem : IncOp → α → Option α) (op : IncOp) (a : Vec α S) :
    LanewiseUn (Simd.prefix sem op a) (sem op) a := lanewise_prefix sem op a
theorem lane_op_postfix (sem : IncOp → α → Option α) (op : IncOp) (a : Vec α S) :
    LanewisePostfix (Simd.postfix sem op a) (sem op) a := lanewise_postfix sem op a
theorem lane_op_binary (sem : BinOp → α → α → Option α) (op : BinOp) (a b : Vec α S) (s : α) :
    LanewiseBin (Simd.binaryVV sem op a b) (sem op) a b ∧ LanewiseBinVS (Simd.binaryVS sem op a s) (sem op) a s ∧
    LanewiseBinSV (Simd.binarySV sem op s b) (sem op) s b :=
  ⟨lanewise_binaryVV sem op a b, lanewise_binaryVS sem op a s, lanewise_binarySV sem op s b⟩
theorem lane_op_shift (sem : ShiftOp → α → β → Option α) (op : ShiftOp) (a : Vec α S) (b : Vec β S) (s : β) :
    LanewiseBin (Simd.shiftVV sem op a b) (sem op) a b ∧ LanewiseBinVS (Simd.shiftVS sem op a s) (sem op) a s :=
  ⟨lanewise_shiftVV sem op a b, lanewise_shiftVS sem op a s⟩
theorem lane_op_assign (sem : AssignOp → α → α → Option α) (op : AssignOp) (a b : Vec α S) (s : α) :
    LanewiseBin (Simd.assignVV sem op a b) (sem op) a b ∧ LanewiseBinVS (Simd.assignVS sem op a s) (sem op) a s :=
  ⟨lanewise_assignVV sem op a b, lanewise_assignVS sem op a s⟩
theorem lane_op_compare (sem : CmpOp → α → α → Option Bool) (op : CmpOp) (a b : Vec α S) (s : α) :
    LanewiseBin (Simd.compareVV sem op a b) (sem op) a b ∧ LanewiseBinVS (Simd.compareVS sem op a s) (sem op) a s ∧
    LanewiseBinSV (Simd.compareSV sem op s b) (sem op) s b :=
  ⟨lanewise_compareVV sem op a b, lanewise_compareVS sem op a s, lanewise_compareSV sem op s b⟩
theorem lane_op_logic (sem : BoolOp → α → α → Option Bool) (op : BoolOp) (a b : Vec α S) (s : α) :
    LanewiseBin (Simd.logicVV sem op a b) (sem op) a b ∧ LanewiseBinVS (Simd.logicVS sem op a s) (sem op) a s ∧
    LanewiseBinSV (Simd.logicSV sem op s b) (sem op) s b :=
  ⟨lanewise_logicVV sem op a b, lanewise_logicVS sem op a s, lanewise_logicSV sem op s b⟩
theorem lane_op_math (sem : MathOp → α → Option α) (op : MathOp) (a : Vec α S) :
    LanewiseUn (Simd.math sem op a) (sem op) a := lanewise_math sem op a
theorem lane_op_mathRet (sem : MathRetOp → α → Option β) (op : MathRetOp) (a : Vec α S) :
    LanewiseUn (Simd.mathRet sem op a) (sem op) a := lanewise_mathRet sem op a
theorem lane_op_stdUn (sem : StdUnOp → α → Option β) (op : StdUnOp) (a : Vec α S) :
    LanewiseUn (Simd.stdUn sem op a) (sem op) a := lanewise_stdUn sem op a
theorem lane_op_stdBin (sem : StdBinOp → α → α → Option α) (op : StdBinOp) (a b : Vec α S) :
    LanewiseBin (Simd.stdBin sem op a b) (sem op) a b := lanewise_stdBin sem op a b
theorem lane_op_classify (f : α → Option Bool) (a : Vec α S) :
    LanewiseUn (Simd.isNaN f a) f a ∧ LanewiseUn (Simd.isInf f a) f a ∧ LanewiseUn (Simd.isFinite f a) f a :=
  ⟨lanewise_isNaN f a, lanewise_isInf f a, lanewise_isFinite f a⟩

/-- compound assignment whose scalar operand **is a lane of the destination** (`v OP= Simd::lane(k, v)`, a reference
    into `v`): because the translated operator takes its scalar by value (`scalarByRef = false`), every lane is
    combined with the value lane `k` had *before* the call — flat and nested.  (`Simd.assignVA` executes the aliasing
    semantics for either passing mode; with a by-reference scalar the statement is false.) -/
theorem lane_op_assign_aliased (sem : AssignOp → α → α → Option α) (op : AssignOp) (a : Vec α S) (k : Nat) (hk : k < S) :
    LanewiseBinVS (Simd.assignVA sem op a k) (sem op) a a[k] := by
  rw [assignVA_byValue sem op a k hk]; exact lanewise_assignVS sem op a a[k]
theorem lane_op_assign_aliased_nested {S₂ : Nat} (sem : AssignOp → α → α → Option α) (op : AssignOp)
    (a : Vec (Vec α S₂) S) (k : Nat) (hk : k < S * S₂) :
    ∃ s, Simd.laneNested k a = some s ∧
      Simd.assignVANested sem op a k = Simd.ipVS loop_ASSIGNMENT_OP_vs (Simd.assignVS sem op) a s := by
  obtain ⟨_, _, h⟩ := nested_lane_divmod a k hk
  exact ⟨_, h, by rw [assignVANested_byValue, h]; rfl⟩

/-- what "lane-wise" means, spelled out for the binary case: if the vector operation returns `v`, lane `l` of
    `v` is the scalar operation on lane `l` of the operands; and it returns whenever every lane is defined -/
theorem lane_op_meaning (sem : BinOp → α → α → Option α) (op : BinOp) (a b : Vec α S) :
    (∀ v, Simd.binaryVV sem op a b = some v → ∀ l (hl : l < S), sem op a[l] b[l] = some v[l]) ∧
    ((∀ l (hl : l < S), (sem op a[l] b[l]).isSome = true) → ∃ v, Simd.binaryVV sem op a b = some v) :=
  ⟨fun _ hv l hl => (lanewise_binaryVV sem op a b).lane hv l hl,
   fun hd => (lanewise_binaryVV sem op a b).defined hd⟩

/-- nesting: an operator of `LoopSIMD<LoopSIMD<T,S₂>,S>` is the operator of the inner vector in every entry,
    hence the scalar operator in every lane of every entry -/
theorem lane_op_nested {S₂ : Nat} (sem : BinOp → α → α → Option α) (op : BinOp) (a b : Vec (Vec α S₂) S)
    (v : Vec (Vec α S₂) S) (h : Simd.binVV loop_BINARY_OP_vv (Simd.binaryVV sem op) a b = some v)
    (i : Nat) (hi : i < S) (j : Nat) (hj : j < S₂) : sem op (a[i])[j] (b[i])[j] = some (v[i])[j] := by
  have h1 := (binVV_canonical loop_BINARY_OP_vv (by decide) (by decide) (by decide)
    (Simd.binaryVV sem op) a b).lane h i hi
  exact (lanewise_binaryVV sem op a[i] b[i]).lane h1 j hj

end LaneOp

-- aliasing: [2,3,4,5] /= lane 0 gives [1,1,2,2] (every lane divided by the original 2), not [1,3,4,5]
example : Simd.assignVA (fun (_ : AssignOp) (x y : Int) => if y = 0 then none else some (x / y)) .div
    (#v[2, 3, 4, 5] : Vec Int 4) 0 = some #v[1, 1, 2, 2] := by decide +kernel
-- non-vacuity: a concrete operator on concrete lanes (Int, two's-complement-free exact arithmetic)
example : Simd.binaryVV (fun (_ : BinOp) (x y : Int) => some (x - y)) .sub (#v[5, -3, 7, 0] : Vec Int 4) #v[1, 2, 3, 4]
    = some #v[4, -5, 4, -4] := by decide
-- … and a scalar operation that is undefined in one lane makes the vector operation undefined (division by zero)
example : Simd.binaryVV (fun (_ : BinOp) (x y : Int) => if y = 0 then none else some (x / y)) .div
    (#v[6, 1] : Vec Int 2) #v[3, 0] = none := by decide

-- ------------------------------------------------------------------------------------------------
-- 3. the abstraction layer: lane, cond, mask reductions, broadcast, nested lane numbering
-- ------------------------------------------------------------------------------------------------
section Layer
variable {α : Type} {S S₂ : Nat}

/-- **lane_cond** -/
theorem lane_cond (m : Vec Bool S) (a b : Vec α S) :
    Simd.cond m a b = some (Vector.ofFn fun i : Fin S => if m[i] then a[i] else b[i]) := cond_flat m a b
theorem lane_cond_nested (m : Vec (Vec Bool S₂) S) (a b : Vec (Vec α S₂) S) :
    Simd.condNested m a b =
      some (Vector.ofFn fun i : Fin S => Vector.ofFn fun j : Fin S₂ => if (m[i])[j] then (a[i])[j] else (b[i])[j]) :=
  cond_nested m a b

/-- **anyTrue_iff** etc.: the four reductions of a mask are ∃ / ∀ over its lanes -/
theorem anyTrue_iff (m : Vec Bool S) :
    ∃ r, Simd.reduceFlat .anyTrue m = some r ∧ (r = true ↔ ∃ l, ∃ h : l < S, m[l] = true) := anyTrue_iff_flat m
theorem allTrue_iff (m : Vec Bool S) :
    ∃ r, Simd.reduceFlat .allTrue m = some r ∧ (r = true ↔ ∀ l, ∀ h : l < S, m[l] = true) := allTrue_iff_flat m
theorem anyFalse_iff (m : Vec Bool S) :
    ∃ r, Simd.reduceFlat .anyFalse m = some r ∧ (r = true ↔ ∃ l, ∃ h : l < S, m[l] = false) := anyFalse_iff_flat m
theorem allFalse_iff (m : Vec Bool S) :
    ∃ r, Simd.reduceFlat .allFalse m = some r ∧ (r = true ↔ ∀ l, ∀ h : l < S, m[l] = false) := allFalse_iff_flat m
/-- nested masks: the reduction ranges over all lanes of all entries -/
theorem reduce_nested (k : RedKind) (m : Vec (Vec Bool S₂) S) :
    Simd.reduceNested k m = some (redSpec k (Simd.flatten m)) := reduceNested_eq k m

/-- **nested_lane**: `lane(l, v)` of a vector of vectors is lane `l % S₂` of entry `l / S₂`; entry `(i, j)` is
    lane `i * S₂ + j`; there are `S * S₂` lanes -/
theorem nested_lane (v : Vec (Vec α S₂) S) (l : Nat) (hl : l < S * S₂) :
    ∃ (h1 : l / S₂ < S) (h2 : l % S₂ < S₂), Simd.laneNested l v = some (v[l / S₂])[l % S₂] := nested_lane_divmod v l hl
theorem nested_lane_entry (v : Vec (Vec α S₂) S) (i j : Nat) (hi : i < S) (hj : j < S₂) :
    Simd.laneNested (i * S₂ + j) v = some (v[i])[j] := nested_lane_entry_aux v i j hi hj
theorem nested_lane_count : laneCount S (laneCount S₂ 1) = S * S₂ := laneCount_nested

theorem lane_of_flat (v : Vec α S) (l : Nat) (hl : l < S) : Simd.lane l v = some v[l] := lane_flat v l hl
theorem lane_assign (v : Vec α S) (l l' : Nat) (x : α) (hl : l < S) (hl' : l' < S) :
    ∃ v', Simd.setLane l x v = some v' ∧ Simd.lane l' v' = some (if l = l' then x else v[l']) :=
  lane_setLane v l l' x hl hl'
theorem lane_of_broadcast (x : α) (l : Nat) (hl : l < S) : Simd.lane l (Simd.broadcast (S := S) x) = some x :=
  lane_broadcast x l hl

end Layer

example : Simd.cond (#v[true, false, true] : Vec Bool 3) (#v[1, 2, 3] : Vec Int 3) #v[10, 20, 30] = some #v[1, 20, 3] := by
  decide
example : Simd.reduceFlat .allTrue (#v[true, true, false, true] : Vec Bool 4) = some false ∧
    Simd.reduceFlat .anyTrue (#v[false, false, true, false] : Vec Bool 4) = some true := by decide
example : Simd.laneNested 5 (#v[#v[0, 1], #v[2, 3], #v[4, 5]] : Vec (Vec Int 2) 3) = some 5 := by decide

-- ------------------------------------------------------------------------------------------------
-- 4. dense-matrix algorithms on matrices of SIMD numbers
-- ------------------------------------------------------------------------------------------------
section Dense
variable {V : Type → Type} {L : Nat} (X : SimdLike V L) (hX : X.Lawful) {K : Type} (R : Arith K) {n : Nat}

/-- the two instances the code uses satisfy the laws: the built-in scalar and `LoopSIMD<·,S>` for every `S`
    (the latter's `cond`/reductions/operators are the translated ones: `cond_loop_instance`,
    `anyTrue_loop_instance`, `allTrue_loop_instance`, `binaryVV_loop_instance`, …) -/
theorem instances_lawful (S : Nat) : SimdLike.scalar.Lawful ∧ (SimdLike.loop S).Lawful :=
  ⟨scalar_lawful, loop_lawful S⟩

include hX in
/-- **pivot_per_lane**: the pivot row chosen in lane `l` (and the pivot size) is the one the scalar search
    chooses on lane `l`'s matrix — whatever the other lanes need -/
theorem pivot_per_lane (A : Mat (V K) n) (i : Fin n) (l : Fin L) :
    (X.lane l (pivotSearch X R A i).1, X.lane l (pivotSearch X R A i).2) =
      pivotSearch (V := fun α => α) SimdLike.scalar R (laneMat X l A) i := lane_pivotSearch X hX R l A i

include hX in
/-- **lu_lanewise**: `lane l (detSimd A) = detScalar (laneMat l A)` for every lane, **including mixed singular /
    nonsingular lanes**, with or without pivoting, for every `n` (closed forms `n ≤ 3`, LU beyond) -/
theorem lu_lanewise (piv : Bool) (A : Mat (V K) n) (l : Fin L) :
    X.lane l (determinant X R piv A) = determinant (V := fun α => α) SimdLike.scalar R piv (laneMat X l A) :=
  determinant_lanewise X hX R piv A l

include hX in
/-- **solve_lanewise**: if the SIMD `solve` returns `x`, the scalar `solve` returns lane `l` of `x` for lane
    `l`'s system, for every lane … -/
theorem solve_lanewise (piv : Bool) (A : Mat (V K) n) (b x : Vector (V K) n) (h : solve X R piv A b = some x) (l : Fin L) :
    solve (V := fun α => α) SimdLike.scalar R piv (laneMat X l A) (laneVec X l b) = some (laneVec X l x) :=
  solve_lanewise_some X hX R piv A b x h l

include hX in
/-- … and it throws `FMatrixError` exactly if the scalar `solve` throws for at least one lane -/
theorem solve_throws_iff (piv : Bool) (A : Mat (V K) n) (b : Vector (V K) n) :
    solve X R piv A b = none ↔
      ∃ l, solve (V := fun α => α) SimdLike.scalar R piv (laneMat X l A) (laneVec X l b) = none := by
  constructor
  · exact solve_lanewise_none X hX R piv A b
  · rintro ⟨l, hl⟩
    cases h : solve X R piv A b with
    | none => rfl
    | some x => rw [solve_lanewise_some X hX R piv A b x h l] at hl; cases hl

include hX in
/-- **invert_lanewise** -/
theorem invert_lanewise (piv : Bool) (A B : Mat (V K) n) (h : invert X R piv A = some B) (l : Fin L) :
    invert (V := fun α => α) SimdLike.scalar R piv (laneMat X l A) = some (laneMat X l B) :=
  invert_lanewise_some X hX R piv A B h l

include hX in
theorem invert_throws_iff (piv : Bool) (A : Mat (V K) n) :
    invert X R piv A = none ↔ ∃ l, invert (V := fun α => α) SimdLike.scalar R piv (laneMat X l A) = none := by
  constructor
  · exact invert_lanewise_none X hX R piv A
  · rintro ⟨l, hl⟩
    cases h : invert X R piv A with
    | none => rfl
    | some B => rw [invert_lanewise_some X hX R piv A B h l] at hl; cases hl

include hX in
/-- products and norms: `mv`, `rightmultiply`, `frobenius_norm2`, `infinity_norm` -/
theorem products_norms_lanewise (A M : Mat (V K) n) (x : Vector (V K) n) (l : Fin L) :
    laneVec X l (mv X R A x) = mv (V := fun α => α) SimdLike.scalar R (laneMat X l A) (laneVec X l x) ∧
    laneMat X l (rightmultiply X R A M) =
      rightmultiply (V := fun α => α) SimdLike.scalar R (laneMat X l A) (laneMat X l M) ∧
    X.lane l (frobeniusNorm2 X R A) = frobeniusNorm2 (V := fun α => α) SimdLike.scalar R (laneMat X l A) ∧
    X.lane l (infinityNorm X R A) = infinityNorm (V := fun α => α) SimdLike.scalar R (laneMat X l A) :=
  ⟨mv_lanewise X hX R A x l, rightmultiply_lanewise X hX R A M l, frobeniusNorm2_lanewise X hX R A l,
   infinityNorm_lanewise X hX R A l⟩

end Dense

/-- the statement for the concrete type: `FieldMatrix<LoopSIMD<K,S>,n,n>::determinant` -/
theorem lu_lanewise_loop {K : Type} (R : Arith K) {S n : Nat} (piv : Bool) (A : Mat (Vec K S) n) (l : Fin S) :
    (determinant (SimdLike.loop S) R piv A)[l] =
      determinant (V := fun α => α) SimdLike.scalar R piv (laneMat (SimdLike.loop S) l A) :=
  determinant_lanewise (SimdLike.loop S) (loop_lawful S) R piv A l

-- non-vacuity: exact integer arithmetic (`/` = truncating division), two lanes that need different pivot rows,
-- and a 4×4 matrix whose lane 0 is regular and lane 1 singular
def intArith : Arith Int where
  zero := 0
  one := 1
  add := (· + ·)
  sub := (· - ·)
  mul := (· * ·)
  div := Int.tdiv
  neg := fun a => -a
  abs := fun a => if a < 0 then -a else a
  lt := fun a b => a < b
  beq := fun a b => a == b

/-- lane 0 = diag(1,2,1,3) with rows 0 and 1 exchanged (pivot row 1 in step 0), lane 1 has a zero first column -/
def exampleMat : Mat (Vec Int 2) 4 :=
  #v[#v[#v[0, 0], #v[2, 1], #v[0, 0], #v[0, 0]],
     #v[#v[1, 0], #v[0, 5], #v[0, 2], #v[0, 0]],
     #v[#v[0, 0], #v[0, 0], #v[1, 1], #v[0, 0]],
     #v[#v[0, 0], #v[0, 0], #v[0, 0], #v[3, 7]]]




/-- both lanes regular, pivot row 1 in lane 0 and pivot row 2 in lane 1 (first step) -/
def regularMat : Mat (Vec Int 2) 4 :=
  #v[#v[#v[0, 0], #v[2, 0], #v[0, 1], #v[0, 0]],
     #v[#v[1, 0], #v[0, 1], #v[0, 0], #v[0, 0]],
     #v[#v[0, 5], #v[0, 0], #v[1, 0], #v[0, 0]],
     #v[#v[0, 0], #v[0, 0], #v[0, 0], #v[3, 1]]]

-- mixed lanes: lane 0 regular (det -6), lane 1 singular (det 0, not an artefact of the other lane)
example : determinant (SimdLike.loop 2) intArith true exampleMat = #v[-6, 0] := by decide +kernel
-- the two lanes choose different pivot rows in the first step
example : (pivotSearch (SimdLike.loop 2) intArith regularMat 0).2 = #v[1, 2] := by decide +kernel
example : determinant (SimdLike.loop 2) intArith true regularMat = #v[-6, -5] := by decide +kernel
-- `solve_lanewise` has a satisfiable hypothesis (both lanes regular) …
example : solve (SimdLike.loop 2) intArith true regularMat #v[#v[2, 1], #v[1, 1], #v[1, 5], #v[3, 1]] =
    some #v[#v[1, 1], #v[1, 1], #v[1, 1], #v[1, 1]] := by decide +kernel
-- … and `solve_throws_iff` / `invert_throws_iff` are not vacuous either: one singular lane makes the call throw
example : solve (SimdLike.loop 2) intArith true exampleMat #v[#v[2, 1], #v[1, 1], #v[1, 1], #v[3, 1]] = none := by
  decide +kernel
example : invert (SimdLike.loop 2) intArith true exampleMat = none ∧
    (invert (SimdLike.loop 2) intArith true regularMat).isSome = true := by decide +kernel

-- ------------------------------------------------------------------------------------------------
-- 5. (round 2) the rest of the abstraction layer: the defaults of defaults.hh, nested vectors, type functions
-- ------------------------------------------------------------------------------------------------
section Layer2
variable {α : Type} {S S₂ : Nat}

/-- the loops and formulas the translator found in defaults.hh have the documented shape -/
theorem defaults_shape :
    (defred_allTrue = { outerNot := true, innerNot := true }) ∧ (defred_anyFalse = { outerNot := false, innerNot := true }) ∧
    (defred_allFalse = { outerNot := true, innerNot := false }) ∧
    (hloop_max = { init := 0, lo := 1, hiMinus := 0, accLeft := true }) ∧
    (hloop_min = { init := 0, lo := 1, hiMinus := 0, accLeft := false }) ∧
    (CmpOp.ofName maskCmp = some .ne) ∧ (BoolOp.ofName maskOrOp = some .lor) ∧ (BoolOp.ofName maskAndOp = some .land) ∧
    (implCastSrc = .i ∧ implCastDst = .i) := by decide

/-- assignment through `lane(l, v)` of a vector of vectors changes lane `l` only -/
theorem nested_lane_assign (v : Vec (Vec α S₂) S) (l l' : Nat) (x : α) (hl : l < S * S₂) (hl' : l' < S * S₂) :
    ∃ v', Simd.setLaneNested l x v = some v' ∧
      Simd.laneNested l' v' = if l = l' then some x else Simd.laneNested l' v := by
  refine ⟨_, setLaneNested_instance v ⟨l, hl⟩ x, ?_⟩
  rw [laneNested_instance _ ⟨l', hl'⟩, (nested_lawful S S₂).lane_setLane, laneNested_instance v ⟨l', hl'⟩]
  by_cases h : l = l'
  · subst h; simp
  · have : (⟨l, hl⟩ : Fin (S * S₂)) ≠ ⟨l', hl'⟩ := fun e => h (Fin.mk.inj e)
    simp [h, this]

/-- broadcasting into a vector of vectors reaches every lane of every entry -/
theorem lane_of_broadcast_nested (x : α) (l : Nat) (hl : l < S * S₂) :
    Simd.laneNested l (Simd.broadcastNested (S := S) (S₂ := S₂) x) = some x := broadcastNested_lane x l hl

/-- `Simd::mask(v)`: lane `l` is `v[l] != 0` (with the scalar's own `!=`, whatever it is) -/
theorem lane_mask (sem : CmpOp → α → α → Option Bool) (zero : α) (v : Vec α S) :
    LanewiseUn (Simd.mask sem zero v) (fun x => sem .ne x zero) v := mask_lanewise sem zero v

/-- `Simd::maskOr` / `Simd::maskAnd`: lane `l` is `(a[l] != 0) || (b[l] != 0)` resp. `&&` -/
theorem lane_maskOr_maskAnd (cmp : CmpOp → α → α → Bool) (zero : α) (a b : Vec α S) :
    Simd.maskCombine maskOrOp Simd.boolSem (Simd.mask (fun o x y => some (cmp o x y)) zero a)
        (Simd.mask (fun o x y => some (cmp o x y)) zero b) =
      some (Vector.ofFn fun i : Fin S => cmp .ne a[i] zero || cmp .ne b[i] zero) ∧
    Simd.maskCombine maskAndOp Simd.boolSem (Simd.mask (fun o x y => some (cmp o x y)) zero a)
        (Simd.mask (fun o x y => some (cmp o x y)) zero b) =
      some (Vector.ofFn fun i : Fin S => cmp .ne a[i] zero && cmp .ne b[i] zero) := by
  rw [mask_total, mask_total, maskOr_lanes, maskAnd_lanes]
  constructor <;> (congr 1; apply Vector.ext; intro i hi; simp)

/-- **default reductions** (defaults.hh): a mask type that overloads only `anyTrue` gets `allTrue`, `anyFalse`,
    `allFalse` as `!anyTrue(!m)`, `anyTrue(!m)`, `!anyTrue(m)`; they are the same ∃ / ∀ over the lanes -/
theorem default_reductions (k : RedKind) (m : Vec Bool S) :
    Simd.reduceDefault k m = Simd.reduceFlat k m ∧ Simd.reduceDefault k m = some (redSpec k m.toList) :=
  ⟨by rw [reduceDefault_eq, reduceFlat_eq], reduceDefault_eq k m⟩

/-- … for **every** SIMD type whose `anyTrue` means "some lane is true" and whose `!` is lane-wise -/
theorem default_reductions_any_simd {V : Type → Type} {L : Nat} (X : SimdLike V L) (hX : X.Lawful) (m : V Bool) :
    (Simd.defaultReduce defred_allTrue (fun m => some (X.anyTrue m)) (fun m => some (X.map (!·) m)) m
        = some (decide (∀ l, X.lane l m = true))) ∧
    (Simd.defaultReduce defred_anyFalse (fun m => some (X.anyTrue m)) (fun m => some (X.map (!·) m)) m
        = some (decide (∃ l, X.lane l m = false))) ∧
    (Simd.defaultReduce defred_allFalse (fun m => some (X.anyTrue m)) (fun m => some (X.map (!·) m)) m
        = some (decide (∀ l, X.lane l m = false))) := default_reductions_generic X hX m

/-- **horizontal max** `Simd::max(v)` (the loop of defaults.hh over the lanes, flat and nested): the result is one
    of the lanes, and no lane is strictly greater — for every irreflexive transitive `<`, hence also for IEEE `<`
    in the presence of NaNs -/
theorem horizontal_max (lt : α → α → Bool) (hirr : ∀ a, lt a a = false)
    (htr : ∀ a b c, lt a b = true → lt b c = true → lt a c = true) :
    (∀ (v : Vec α S) m, Simd.hmaxFlat lt v = some m → m ∈ v.toList ∧ ∀ x ∈ v.toList, lt m x = false) ∧
    (∀ (v : Vec (Vec α S₂) S) m, Simd.hmaxNested lt v = some m →
      m ∈ Simd.flatten v ∧ ∀ x ∈ Simd.flatten v, lt m x = false) := by
  constructor
  · intro v m h; rw [hmaxFlat_eq] at h
    exact ⟨hmax_mem lt _ m h, hmax_maximal lt hirr htr _ m h⟩
  · intro v m h; rw [hmaxNested_eq] at h
    exact ⟨hmax_mem lt _ m h, hmax_maximal lt hirr htr _ m h⟩

theorem horizontal_min (lt : α → α → Bool) (hirr : ∀ a, lt a a = false)
    (htr : ∀ a b c, lt a b = true → lt b c = true → lt a c = true) :
    (∀ (v : Vec α S) m, Simd.hminFlat lt v = some m → m ∈ v.toList ∧ ∀ x ∈ v.toList, lt x m = false) ∧
    (∀ (v : Vec (Vec α S₂) S) m, Simd.hminNested lt v = some m →
      m ∈ Simd.flatten v ∧ ∀ x ∈ Simd.flatten v, lt x m = false) := by
  constructor
  · intro v m h; rw [hminFlat_eq] at h
    exact ⟨hmin_mem lt _ m h, hmin_minimal lt hirr htr _ m h⟩
  · intro v m h; rw [hminNested_eq] at h
    exact ⟨hmin_mem lt _ m h, hmin_minimal lt hirr htr _ m h⟩

/-- the horizontal reductions are defined whenever there is at least one lane -/
theorem horizontal_defined (lt : α → α → Bool) (v : Vec α (S + 1)) :
    (Simd.hmaxFlat lt v).isSome = true ∧ (Simd.hminFlat lt v).isSome = true := by
  rw [hmaxFlat_eq, hminFlat_eq]
  cases h : v.toList with
  | nil => have := congrArg List.length h; simp at this
  | cons x xs => simp [Simd.hmax, Simd.hmin]

/-- **implCast** between `LoopSIMD<LoopSIMD<T,S₂>,S>` and `LoopSIMD<T,S*S₂>` (the lane-by-lane default) is
    defined and keeps every lane, in both directions -/
theorem implCast_lanes (zero : α) :
    (∀ u : Vec (Vec α S₂) S, ∃ r, Simd.implCastToFlat zero u = some r ∧
      ∀ l (_ : l < S * S₂), Simd.lane l r = Simd.laneNested l u) ∧
    (∀ u : Vec α (S * S₂), ∃ r, Simd.implCastToNested zero u = some r ∧
      ∀ l (_ : l < S * S₂), Simd.laneNested l r = Simd.lane l u) :=
  ⟨implCastToFlat_lanes zero, implCastToNested_lanes zero⟩

/-- **rebinding** (the `ScalarType` / `RebindType` / `LaneCount` specialisations translated from loop.hh and
    standard.hh): `Rebind<U, V>` has the lanes of `V` (times those of `U`; one for a scalar `U`), its scalar is `U`,
    `Scalar<V>` is never a vector, and `Rebind<Scalar<V>, V> = V`; `Mask<V> = Rebind<bool, V>` is the case `U = bool` -/
theorem rebind_spec (t : Ty) (s : String) :
    (Ty.rebind (.scalar s) t).lanes = t.lanes ∧ (Ty.rebind (.scalar s) t).scalarOf = .scalar s ∧
    (∃ n, t.scalarOf = .scalar n) ∧ Ty.rebind t.scalarOf t = t ∧
    (∀ u : Ty, (Ty.rebind u t).lanes = t.lanes * u.lanes) := by
  refine ⟨?_, Ty.rebind_scalarOf s t, Ty.scalarOf_is_scalar t, Ty.rebind_self t, fun u => Ty.rebind_lanes u t⟩
  rw [Ty.rebind_lanes]; simp [Ty.lanes]

end Layer2

example : Simd.mask (fun (_ : CmpOp) (x y : Int) => some (x != y)) 0 (#v[3, 0, -1, 0] : Vec Int 4) = some #v[true, false, true, false] := by
  decide
example : Simd.reduceDefault .allTrue (#v[true, true, false] : Vec Bool 3) = some false ∧
    Simd.reduceDefault .allFalse (#v[false, false] : Vec Bool 2) = some true ∧
    Simd.reduceDefault .anyFalse (#v[true, true] : Vec Bool 2) = some false := by decide
example : Simd.hmaxFlat (fun (a b : Int) => a < b) (#v[3, 9, -1, 9] : Vec Int 4) = some 9 ∧
    Simd.hminNested (fun (a b : Int) => a < b) (#v[#v[3, 9], #v[-1, 9]] : Vec (Vec Int 2) 2) = some (-1) := by decide
example : Simd.implCastToFlat (0 : Int) (#v[#v[1, 2], #v[3, 4], #v[5, 6]] : Vec (Vec Int 2) 3) = some #v[1, 2, 3, 4, 5, 6] ∧
    Simd.implCastToNested (S := 3) (S₂ := 2) (0 : Int) #v[1, 2, 3, 4, 5, 6] = some #v[#v[1, 2], #v[3, 4], #v[5, 6]] := by
  decide +kernel
example : (Ty.rebind (.scalar "bool") (Ty.nested "double" 4 2)) = Ty.nested "bool" 4 2 ∧ (Ty.nested "double" 4 2).lanes = 8 := by
  decide

-- ------------------------------------------------------------------------------------------------
-- 6. (round 2) SIMD of SIMD through the dense algorithms; the remaining products and norms (rectangular)
-- ------------------------------------------------------------------------------------------------
section Dense2
variable {V : Type → Type} {L : Nat} (X : SimdLike V L) (hX : X.Lawful) {K : Type} (R : Arith K) {r c n : Nat}

/-- `LoopSIMD<LoopSIMD<·,S₂>,S₁>` satisfies the laws, for all `S₁`, `S₂`: every theorem of section 4 (pivoting per
    lane, determinant with mixed singular lanes, solve, invert, products, norms) holds for SIMD-of-SIMD numbers;
    its `lane`, lane assignment, `cond` and reductions are the translated ones of loop.hh -/
theorem nested_is_lawful (S₁ S₂ : Nat) : (SimdLike.nested S₁ S₂).Lawful := nested_lawful S₁ S₂

theorem nested_instance_is_translated {α : Type} {S S₂ : Nat} (v a b : Vec (Vec α S₂) S) (m : Vec (Vec Bool S₂) S)
    (l : Fin (S * S₂)) (x : α) :
    Simd.laneNested l.val v = some ((SimdLike.nested S S₂).lane l v) ∧
    Simd.setLaneNested l.val x v = some ((SimdLike.nested S S₂).setLane l x v) ∧
    Simd.condNested m a b = some ((SimdLike.nested S S₂).cond m a b) ∧
    Simd.reduceNested .anyTrue m = some ((SimdLike.nested S S₂).anyTrue m) ∧
    Simd.reduceNested .allTrue m = some ((SimdLike.nested S S₂).allTrue m) :=
  ⟨laneNested_instance v l, setLaneNested_instance v l x, condNested_instance m a b, anyTrueNested_instance m,
   allTrueNested_instance m⟩

/-- the statement for the concrete nested type: `FieldMatrix<LoopSIMD<LoopSIMD<K,S₂>,S₁>,n,n>::determinant` -/
theorem lu_lanewise_nested {S₁ S₂ : Nat} (piv : Bool) (A : Mat (Vec (Vec K S₂) S₁) n) (l : Fin (S₁ * S₂)) :
    (SimdLike.nested S₁ S₂).lane l (determinant (SimdLike.nested S₁ S₂) R piv A) =
      determinant (V := fun α => α) SimdLike.scalar R piv (laneMat (SimdLike.nested S₁ S₂) l A) :=
  determinant_lanewise (SimdLike.nested S₁ S₂) (nested_lawful S₁ S₂) R piv A l

/-- `luDecomposition(…, throwEarly = false, …)` always returns (the `none` branch of `determinant` is dead) -/
theorem lu_without_throwEarly_returns {Aux : Type} (F : ElimFunc (V := V) (K := K) (n := n) Aux) (piv : Bool)
    (A : Mat (V K) n) (aux : Aux) : (luDecomp X R F false piv A aux).isSome = true :=
  luDecomp_false_isSome X R F piv A aux

include hX in
/-- the matrix-vector kernels of densematrix.hh on **rectangular** matrices: `mv mtv umv umtv mmv mmtv usmv usmtv` -/
theorem kernels_lanewise (alpha : V K) (A : RMat (V K) r c) (x : Vector (V K) c) (y : Vector (V K) r)
    (xt : Vector (V K) r) (yt : Vector (V K) c) (l : Fin L) :
    laneVec X l (mvR X R A x y) = mvR (V := fun α => α) SimdLike.scalar R (laneRMat X l A) (laneVec X l x) (laneVec X l y) ∧
    laneVec X l (umvR X R A x y) = umvR (V := fun α => α) SimdLike.scalar R (laneRMat X l A) (laneVec X l x) (laneVec X l y) ∧
    laneVec X l (mmvR X R A x y) = mmvR (V := fun α => α) SimdLike.scalar R (laneRMat X l A) (laneVec X l x) (laneVec X l y) ∧
    laneVec X l (usmvR X R alpha A x y) =
      usmvR (V := fun α => α) SimdLike.scalar R (X.lane l alpha) (laneRMat X l A) (laneVec X l x) (laneVec X l y) ∧
    laneVec X l (mtvR X R A xt yt) = mtvR (V := fun α => α) SimdLike.scalar R (laneRMat X l A) (laneVec X l xt) (laneVec X l yt) ∧
    laneVec X l (umtvR X R A xt yt) = umtvR (V := fun α => α) SimdLike.scalar R (laneRMat X l A) (laneVec X l xt) (laneVec X l yt) ∧
    laneVec X l (mmtvR X R A xt yt) = mmtvR (V := fun α => α) SimdLike.scalar R (laneRMat X l A) (laneVec X l xt) (laneVec X l yt) ∧
    laneVec X l (usmtvR X R alpha A xt yt) =
      usmtvR (V := fun α => α) SimdLike.scalar R (X.lane l alpha) (laneRMat X l A) (laneVec X l xt) (laneVec X l yt) :=
  ⟨mvR_lanewise X hX R l A x y, umvR_lanewise X hX R l A x y, mmvR_lanewise X hX R l A x y,
   usmvR_lanewise X hX R l alpha A x y, mtvR_lanewise X hX R l A xt yt, umtvR_lanewise X hX R l A xt yt,
   mmtvR_lanewise X hX R l A xt yt, usmtvR_lanewise X hX R l alpha A xt yt⟩

include hX in
/-- `leftmultiply` -/
theorem leftmultiply_lane (A : RMat (V K) n c) (M : Mat (V K) n) (l : Fin L) :
    laneRMat X l (leftmultiply X R A M) =
      leftmultiply (V := fun α => α) SimdLike.scalar R (laneRMat X l A) (laneMat X l M) :=
  leftmultiply_lanewise X hX R l A M

include hX in
/-- vectors of SIMD numbers: `one_norm`, `two_norm2`, `two_norm`, `infinity_norm`, `operator*`, `axpy`
    (`sq` = the scalar square root, uninterpreted) -/
theorem vector_ops_lanewise (sq : K → K) (a : V K) (v w : Vector (V K) n) (l : Fin L) :
    X.lane l (oneNorm X R v) = oneNorm (V := fun α => α) SimdLike.scalar R (laneVec X l v) ∧
    X.lane l (twoNorm2 X R v) = twoNorm2 (V := fun α => α) SimdLike.scalar R (laneVec X l v) ∧
    X.lane l (twoNorm X R sq v) = twoNorm (V := fun α => α) SimdLike.scalar R sq (laneVec X l v) ∧
    X.lane l (vecInfinityNorm X R v) = vecInfinityNorm (V := fun α => α) SimdLike.scalar R (laneVec X l v) ∧
    X.lane l (dotT X R v w) = dotT (V := fun α => α) SimdLike.scalar R (laneVec X l v) (laneVec X l w) ∧
    laneVec X l (axpy X R a v w) = axpy (V := fun α => α) SimdLike.scalar R (X.lane l a) (laneVec X l v) (laneVec X l w) :=
  ⟨oneNorm_lanewise X hX R l v, twoNorm2_lanewise X hX R l v, twoNorm_lanewise X hX R l sq v,
   vecInfinityNorm_lanewise X hX R l v, dotT_lanewise X hX R l v w, axpy_lanewise X hX R l a v w⟩

include hX in
/-- matrix norms on rectangular matrices: `frobenius_norm2`, `frobenius_norm`, `infinity_norm` (= `infinity_norm_real`
    for real scalars) -/
theorem rect_norms_lanewise (sq : K → K) (A : RMat (V K) r c) (l : Fin L) :
    X.lane l (frobeniusNorm2R X R A) = frobeniusNorm2R (V := fun α => α) SimdLike.scalar R (laneRMat X l A) ∧
    X.lane l (frobeniusNormR X R sq A) = frobeniusNormR (V := fun α => α) SimdLike.scalar R sq (laneRMat X l A) ∧
    X.lane l (infinityNormR X R A) = infinityNormR (V := fun α => α) SimdLike.scalar R (laneRMat X l A) :=
  ⟨frobeniusNorm2R_lanewise X hX R l A, frobeniusNormR_lanewise X hX R l sq A, infinityNormR_lanewise X hX R l A⟩

end Dense2

/-- the operators the dense algorithms use through `SimdLike.loop` (`map`, `map2`) are the translated loops -/
theorem loop_instance_is_translated {α : Type} {S : Nat} (f : α → α) (g : α → α → α) (h : α → α → Bool) (a b : Vec α S) :
    (∀ op, Simd.math (fun _ x => some (f x)) op a = some ((SimdLike.loop S).map f a)) ∧
    (∀ op, Simd.unary (fun _ x => some (f x)) op a = some ((SimdLike.loop S).map f a)) ∧
    (∀ op, Simd.binaryVV (fun _ x y => some (g x y)) op a b = some ((SimdLike.loop S).map2 g a b)) ∧
    (∀ op, Simd.compareVV (fun _ x y => some (h x y)) op a b = some ((SimdLike.loop S).map2 h a b)) ∧
    (∀ op (s : α), Simd.compareSV (fun _ x y => some (h x y)) op s b =
      Simd.compareVV (fun _ x y => some (h x y)) op (Simd.broadcast s) b) := by
  refine ⟨fun op => math_loop_instance op f a, ?_, fun op => binaryVV_loop_instance op g a b,
    fun op => compareVV_loop_instance op h a b, ?_⟩
  · intro op
    rw [lanewise_unary, allSome_map_some]; rfl
  · intro op s
    rw [lanewise_compareSV, lanewise_compareVV]
    congr 1
    apply Vector.ext; intro i hi; simp [Simd.broadcast]

-- non-vacuity: SIMD of SIMD (one entry of two lanes) through the LU decomposition, mixed regular / singular lanes
example : determinant (SimdLike.nested 1 2) intArith true (Mat.map (fun e => (#v[e] : Vec (Vec Int 2) 1)) exampleMat)
    = #v[#v[-6, 0]] := by decide +kernel
-- a 2×3 matrix of two-lane numbers times a vector, lane by lane
example : mvR (SimdLike.loop 2) intArith (#v[#v[#v[1, 2], #v[0, 1], #v[2, 0]], #v[#v[0, 1], #v[1, 1], #v[1, 1]]] : RMat (Vec Int 2) 2 3)
    #v[#v[1, 1], #v[2, 3], #v[3, 5]] #v[#v[7, 7], #v[7, 7]] = #v[#v[7, 5], #v[5, 9]] := by decide +kernel

-- ------------------------------------------------------------------------------------------------
-- 7. (round 3) scalar operands of another arithmetic type; the configuration DUNE_FMatrix_WITH_CHECKING
-- ------------------------------------------------------------------------------------------------
section Mixed
variable {α σ : Type} {S S₂ : Nat}

/-- the declared types of the scalar parameters the translator read off loop.hh: the mask-valued operators (comparisons
    `v @ s`, `s @ v`, logic `v @ s`) and the shifts `v @ s` are generic in the type of the scalar operand (the argument
    keeps its type), `s && v` / `s || v` takes `Simd::Mask<T>` (the argument arrives as its truth value) -/
theorem scalar_param_types :
    loop_COMPARISON_OP_vs.scalarTy = .own ∧ loop_COMPARISON_OP_sv.scalarTy = .own ∧ loop_BOOLEAN_OP_vs.scalarTy = .own ∧
    loop_BOOLEAN_OP_sv.scalarTy = .laneMask ∧ loop_BITSHIFT_OP_vs.scalarTy = .own := by decide

/-- **comparison with a scalar of another type** (`LoopSIMD<int,4> v; v < 2.5`, `0.1 == LoopSIMD<float,4>`): lane `l` of the
    mask is the built-in mixed-type comparison of lane `l` with the scalar *in its own type* (`.own`), never with the
    scalar converted to the lanes' type — for every meaning `sem` of the mixed comparison, both operand orders -/
theorem lane_op_compare_mixed (semL : CmpOp → α → Simd.Arg σ α → Option Bool) (semR : CmpOp → Simd.Arg σ α → α → Option Bool)
    (toLane : σ → Option α) (truth : σ → Option Bool) (op : CmpOp) (a : Vec α S) (s : σ) :
    LanewiseBinVS (Simd.compareVSx semL toLane truth op a s) (fun x t => semL op x (.own t)) a s ∧
    LanewiseBinSV (Simd.compareSVx semR toLane truth op s a) (fun t y => semR op (.own t) y) s a :=
  ⟨lanewise_compareVSx semL toLane truth op a s, lanewise_compareSVx semR toLane truth op s a⟩

/-- **logic with a scalar of another type**: `v && s` sees `s` in its own type; `s && v` sees the truth value of `s` -/
theorem lane_op_logic_mixed (semL : BoolOp → α → Simd.Arg σ α → Option Bool) (semR : BoolOp → Simd.Arg σ α → α → Option Bool)
    (toLane : σ → Option α) (truth : σ → Option Bool) (op : BoolOp) (a : Vec α S) (s : σ) :
    LanewiseBinVS (Simd.logicVSx semL toLane truth op a s) (fun x t => semL op x (.own t)) a s ∧
    Simd.logicSVx semR toLane truth op s a = (truth s).bind fun m => allSome (a.map fun y => semR op (.mask m) y) :=
  ⟨lanewise_logicVSx semL toLane truth op a s, lanewise_logicSVx semR toLane truth op s a⟩

/-- **shift by a scalar count of another type** -/
theorem lane_op_shift_mixed (sem : ShiftOp → α → Simd.Arg σ α → Option α) (toLane : σ → Option α) (truth : σ → Option Bool)
    (op : ShiftOp) (a : Vec α S) (s : σ) :
    LanewiseBinVS (Simd.shiftVSx sem toLane truth op a s) (fun x t => sem op x (.own t)) a s :=
  lanewise_shiftVSx sem toLane truth op a s

/-- for **every** per-lane loop with a scalar operand, whatever its declared type: the implicit conversion of the call happens
    once, all lanes are combined with the same (converted) argument -/
theorem lane_op_scalar_conversion {γ : Type} (L : Loop) (hL : L.canonical) (hip : L.inPlace = false)
    (hargs : L.args = [.vec 0 .i, .scalar]) (f : α → Simd.Arg σ α → Option γ) (toLane : σ → Option α)
    (truth : σ → Option Bool) (a : Vec α S) (s : σ) :
    Simd.binVSx L f toLane truth a s =
      (Simd.passScalar L.scalarTy toLane truth s).bind fun arg => allSome (a.map fun x => f x arg) :=
  binVSx_spec L hL hip hargs f toLane truth a s

/-- nested vectors: every lane of every entry is compared with the scalar in its own type -/
theorem lane_op_compare_mixed_nested (sem : CmpOp → α → Simd.Arg σ α → Option Bool) (toLane : σ → Option α)
    (truth : σ → Option Bool) (op : CmpOp) (a : Vec (Vec α S₂) S) (s : σ) (v : Vec (Vec Bool S₂) S)
    (h : Simd.binVSxNested loop_COMPARISON_OP_vs (sem op) toLane truth a s = some v)
    (i : Nat) (hi : i < S) (j : Nat) (hj : j < S₂) : sem op (a[i])[j] (.own s) = some (v[i])[j] := by
  unfold Simd.binVSxNested at h
  have hp : Simd.passScalar loop_COMPARISON_OP_vs.scalarTy toLane truth s = some (.own s) := by
    rw [scalar_param_types.1]; rfl
  rw [hp] at h
  have h1 := (binVS_canonical loop_COMPARISON_OP_vs (by decide) (by decide) (by decide)
    (fun (x : Vec α S₂) g => Simd.binVS loop_COMPARISON_OP_vs (sem op) x g) a (Simd.Arg.own s)).lane h i hi
  exact (binVS_canonical loop_COMPARISON_OP_vs (by decide) (by decide) (by decide) (sem op) a[i] (Simd.Arg.own s)).lane h1 j hj

/-- **`Simd::cond` with a mask of another type** (a flat `LoopSIMD<bool, S*S₂>` on a vector of vectors): interface.hh
    converts the mask with `implCast<Mask<V>>` (defaults.hh, lane by lane), so entry `(i, j)` of the result is selected by
    lane `i * S₂ + j` of the mask — the lane with the same number -/
theorem lane_cond_foreign_mask (m : Vec Bool (S * S₂)) (a b : Vec (Vec α S₂) S) :
    ∃ r, ((Simd.implCastToNested false m).bind fun mm => Simd.condNested mm a b) = some r ∧
      ∀ i (hi : i < S) j (hj : j < S₂), ∃ h : i * S₂ + j < S * S₂,
        (r[i])[j] = if m[i * S₂ + j] then (a[i])[j] else (b[i])[j] := by
  obtain ⟨mm, hmm, hl⟩ := implCastToNested_lanes false m
  refine ⟨_, by rw [hmm]; exact cond_nested mm a b, ?_⟩
  intro i hi j hj
  have hb : i * S₂ + j < S * S₂ :=
    Nat.lt_of_lt_of_le (Nat.add_lt_add_left hj _) (by rw [← Nat.succ_mul]; exact Nat.mul_le_mul_right _ hi)
  refine ⟨hb, ?_⟩
  have h1 := hl (i * S₂ + j) hb
  rw [nested_lane_entry_aux mm i j hi hj, lane_flat m _ hb] at h1
  simp [Vector.getElem_ofFn, Option.some.inj h1]

end Mixed

/-- mixed comparison of exact integers with exact halves (`σ = Int`, value `s/2`): `[1,2,3,4] < 5/2` is `[1,1,0,0]`;
    converting the scalar to the lanes' type first (`5/2 → 2`) would give `[1,0,0,0]` -/
def halfCmp : CmpOp → Int → Simd.Arg Int Int → Option Bool
  | .lt, x, .own s => some (decide (2 * x < s))
  | .lt, x, .lane y => some (decide (x < y))
  | _, _, _ => none
example : Simd.compareVSx halfCmp (fun s => some (Int.tdiv s 2)) (fun s => some (s != 0)) .lt (#v[1, 2, 3, 4] : Vec Int 4) 5
    = some #v[true, true, false, false] := by decide +kernel
example : Simd.binVSx { loop_COMPARISON_OP_vs with scalarTy := .laneScalar } (halfCmp .lt) (fun s => some (Int.tdiv s 2))
    (fun s => some (s != 0)) (#v[1, 2, 3, 4] : Vec Int 4) 5 = some #v[true, false, false, false] := by decide +kernel

-- a flat four-lane mask selects in a 2×2 vector of vectors by lane number
example : ((Simd.implCastToNested (S := 2) (S₂ := 2) false #v[true, false, false, true]).bind fun mm =>
    Simd.condNested mm (#v[#v[1, 2], #v[3, 4]] : Vec (Vec Int 2) 2) #v[#v[10, 20], #v[30, 40]]) = some #v[#v[1, 20], #v[30, 4]] := by
  decide +kernel

section Checked
variable {V : Type → Type} {L : Nat} (X : SimdLike V L) (hX : X.Lawful) {K : Type} (R : Arith K) {n : Nat}

/-- the singularity tests the translator found in densematrix.hh (configuration `DUNE_FMatrix_WITH_CHECKING`): one in front
    of each closed form of `solve` (n = 1, 2, 3) and of `invert` (n = 1, 2), each `Simd::anyTrue(absreal(det) < limit)` -/
theorem checked_tests_shape :
    chkSolve = [(1, .anyTrue, .lt), (2, .anyTrue, .lt), (3, .anyTrue, .lt)] ∧
    chkInvert = [(1, .anyTrue, .lt), (2, .anyTrue, .lt)] := by decide

include hX in
/-- **solve in the checked configuration** (`DUNE_FMatrix_WITH_CHECKING`; `chk = some below`, `below c x` = the scalar test
    `absreal(x) c absolute_limit()`; `chk = none`: macro not defined), executed from the translated test table: if the SIMD
    call returns, the scalar call returns for every lane with that lane of the solution … -/
theorem solve_checked_lanewise (chk : Option (CmpOpName → K → Bool)) (piv : Bool) (A : Mat (V K) n) (b x : Vector (V K) n)
    (h : solveC X R chk piv A b = some x) (l : Fin L) :
    solveC (V := fun α => α) SimdLike.scalar R chk piv (laneMat X l A) (laneVec X l b) = some (laneVec X l x) :=
  solveC_lanewise_some X hX R (by decide) chk piv A b x h l

include hX in
/-- … and it throws `FMatrixError` exactly if the scalar call throws for at least one lane — in particular when the matrix
    is below the limit in **some but not all** lanes -/
theorem solve_checked_throws_iff (chk : Option (CmpOpName → K → Bool)) (piv : Bool) (A : Mat (V K) n) (b : Vector (V K) n) :
    solveC X R chk piv A b = none ↔
      ∃ l, solveC (V := fun α => α) SimdLike.scalar R chk piv (laneMat X l A) (laneVec X l b) = none := by
  constructor
  · exact solveC_lanewise_none X hX R (by decide) chk piv A b
  · rintro ⟨l, hl⟩
    cases h : solveC X R chk piv A b with
    | none => rfl
    | some x => rw [solveC_lanewise_some X hX R (by decide) chk piv A b x h l] at hl; cases hl

include hX in
theorem invert_checked_lanewise (chk : Option (CmpOpName → K → Bool)) (piv : Bool) (A B : Mat (V K) n)
    (h : invertC X R chk piv A = some B) (l : Fin L) :
    invertC (V := fun α => α) SimdLike.scalar R chk piv (laneMat X l A) = some (laneMat X l B) :=
  invertC_lanewise_some X hX R (by decide) chk piv A B h l

include hX in
theorem invert_checked_throws_iff (chk : Option (CmpOpName → K → Bool)) (piv : Bool) (A : Mat (V K) n) :
    invertC X R chk piv A = none ↔ ∃ l, invertC (V := fun α => α) SimdLike.scalar R chk piv (laneMat X l A) = none := by
  constructor
  · exact invertC_lanewise_none X hX R (by decide) chk piv A
  · rintro ⟨l, hl⟩
    cases h : invertC X R chk piv A with
    | none => rfl
    | some B => rw [invertC_lanewise_some X hX R (by decide) chk piv A B h l] at hl; cases hl

/-- without the macro the two configurations coincide -/
theorem checked_off_is_unchecked (piv : Bool) (A : Mat (V K) n) (b : Vector (V K) n) :
    solveC X R none piv A b = solve X R piv A b ∧ invertC X R none piv A = invert X R piv A :=
  ⟨solveC_none X R piv A b, invertC_none X R piv A⟩

end Checked

/-- 3×3, two lanes: lane 0 = diag(1,2,3) (regular), lane 1 has two equal rows (determinant 0) -/
def mixed3 : Mat (Vec Int 2) 3 :=
  #v[#v[#v[1, 1], #v[0, 2], #v[0, 3]],
     #v[#v[0, 1], #v[2, 2], #v[0, 3]],
     #v[#v[0, 0], #v[0, 1], #v[3, 1]]]
def regular3 : Mat (Vec Int 2) 3 :=
  #v[#v[#v[1, 1], #v[0, 0], #v[0, 0]],
     #v[#v[0, 0], #v[2, 1], #v[0, 0]],
     #v[#v[0, 0], #v[0, 0], #v[3, 1]]]
/-- `|x| < 1` -/
def belowOne : CmpOpName → Int → Bool := fun _ x => decide (intArith.abs x < 1)
-- one singular lane makes the checked solve throw although the other lane is regular; the unchecked closed form returns
example : solveC (SimdLike.loop 2) intArith (some belowOne) true mixed3 #v[#v[1, 1], #v[2, 1], #v[3, 1]] = none ∧
    (solveC (SimdLike.loop 2) intArith none true mixed3 #v[#v[1, 1], #v[2, 1], #v[3, 1]]).isSome = true := by decide +kernel
-- … and with both lanes regular it returns the lane-wise solution
example : solveC (SimdLike.loop 2) intArith (some belowOne) true regular3 #v[#v[1, 1], #v[2, 1], #v[3, 1]]
    = some #v[#v[1, 1], #v[1, 1], #v[1, 1]] := by decide +kernel

-- ------------------------------------------------------------------------------------------------
-- 8. (round 4) the control decisions of luDecomposition / ElimDet / ElimPivot / determinant / solve / invert are TRANSLATED:
--    `Gen.luCtl` is read off densematrix.hh on every run, `determinantT` … `invertCT` (Model/C09LUT.lean, what the driver runs)
--    execute it.  The theorems below are about these translated algorithms.
-- ------------------------------------------------------------------------------------------------
section TranslatedLU
variable {V : Type → Type} {L : Nat} (X : SimdLike V L) (hX : X.Lawful) {K : Type} (R : Arith K) {n : Nat}

/-- what the translator found in densematrix.hh is the canonical control: pivot search over the rows below the diagonal with
    `abs > pivmax`, `pivmax = cond(mask, abs, pivmax)`, `imax = cond(mask, k, imax)`; `nonsingularLanes && (pivmax != 0)`;
    `throwEarly`: throw iff not ALL lanes nonsingular, otherwise return early iff NO lane nonsingular; elimination below and right of
    the pivot; the sign flips (`cond(i == j, 1, -1)`) and the pivot is recorded (`cond(i == j, pivot[i], j)`) per lane; `solve`
    and `invert` throw early, `determinant` does not and masks its singular lanes with `cond(nonsingularLanes, det, 0)` -/
theorem lu_control_shape : luCtl = luCtlCanonical := by decide

/-- **refinement**: the translated-control algorithms the driver runs against the real code ARE the hand-written algorithms of
    `Model/C09LU.lean` (about which sections 4, 6, 7 speak) — for every SIMD type, arithmetic, size, input -/
theorem translated_control_refines (chk : Option (CmpOpName → K → Bool)) (piv : Bool) (A : Mat (V K) n) (b : Vector (V K) n)
    (i : Fin n) :
    pivotSearchT X R luCtl A i = pivotSearch X R A i ∧
    determinantT X R luCtl piv A = some (determinant X R piv A) ∧
    solveT X R luCtl piv A b = solve X R piv A b ∧
    invertT X R luCtl piv A = invert X R piv A ∧
    solveCT X R luCtl chk piv A b = solveC X R chk piv A b ∧
    invertCT X R luCtl chk piv A = invertC X R chk piv A := by
  rw [lu_control_shape]
  exact ⟨pivotSearchT_canonical X R A i, determinantT_canonical X R piv A, solveT_canonical X R piv A b,
    invertT_canonical X R piv A, solveCT_canonical X R chk piv A b, invertCT_canonical X R chk piv A⟩

include hX in
/-- **the translated determinant is lane-wise and never throws**, mixed singular / regular lanes included -/
theorem det_translated_lanewise (piv : Bool) (A : Mat (V K) n) (l : Fin L) :
    ∃ d, determinantT X R luCtl piv A = some d ∧
      determinantT (V := fun α => α) SimdLike.scalar R luCtl piv (laneMat X l A) = some (X.lane l d) := by
  refine ⟨determinant X R piv A, ?_, ?_⟩
  · rw [lu_control_shape]; exact determinantT_canonical X R piv A
  · rw [lu_control_shape, determinantT_canonical, determinant_lanewise X hX R piv A l]

include hX in
/-- **the translated solve**: a returned solution is the scalar solution in every lane … -/
theorem solve_translated_lanewise (piv : Bool) (A : Mat (V K) n) (b x : Vector (V K) n) (h : solveT X R luCtl piv A b = some x)
    (l : Fin L) :
    solveT (V := fun α => α) SimdLike.scalar R luCtl piv (laneMat X l A) (laneVec X l b) = some (laneVec X l x) := by
  rw [lu_control_shape, solveT_canonical] at h ⊢
  exact solve_lanewise_some X hX R piv A b x h l

include hX in
/-- … and it throws exactly if the scalar solve throws for some lane -/
theorem solve_translated_throws_iff (piv : Bool) (A : Mat (V K) n) (b : Vector (V K) n) :
    solveT X R luCtl piv A b = none ↔
      ∃ l, solveT (V := fun α => α) SimdLike.scalar R luCtl piv (laneMat X l A) (laneVec X l b) = none := by
  rw [lu_control_shape]
  simp only [solveT_canonical]
  exact solve_throws_iff X hX R piv A b

include hX in
theorem invert_translated_lanewise (piv : Bool) (A B : Mat (V K) n) (h : invertT X R luCtl piv A = some B) (l : Fin L) :
    invertT (V := fun α => α) SimdLike.scalar R luCtl piv (laneMat X l A) = some (laneMat X l B) := by
  rw [lu_control_shape, invertT_canonical] at h ⊢
  exact invert_lanewise_some X hX R piv A B h l

include hX in
theorem invert_translated_throws_iff (piv : Bool) (A : Mat (V K) n) :
    invertT X R luCtl piv A = none ↔
      ∃ l, invertT (V := fun α => α) SimdLike.scalar R luCtl piv (laneMat X l A) = none := by
  rw [lu_control_shape]
  simp only [invertT_canonical]
  exact invert_throws_iff X hX R piv A

include hX in
/-- **the LU factors themselves are lane-wise** (mode of `invert`, `throwEarly`): if the SIMD decomposition succeeds, the scalar
    decomposition of lane `l`'s matrix succeeds, and its factors `L\U`, **its recorded pivot rows** and its flag are lane `l` of the
    SIMD factors, pivot vector and mask — although every lane may exchange different rows in every step -/
theorem lu_factors_lanewise (piv : Bool) (A : Mat (V K) n) (st : LUState (V := V) (K := K) (n := n) (Vector (V (Fin n)) n))
    (h : luDecompT X R luCtl (elimPivotT X (K := K) luCtl) luCtl.invertThrowEarly piv A (Vector.ofFn fun i => X.bcast i) = some st)
    (l : Fin L) :
    luDecompT (V := fun α => α) SimdLike.scalar R luCtl (elimPivotT (V := fun α => α) SimdLike.scalar (K := K) luCtl)
        luCtl.invertThrowEarly piv (laneMat X l A) (Vector.ofFn fun i => i) =
      some { A := laneMat X l st.A, aux := st.aux.map (X.lane l), ns := X.lane l st.ns } := by
  rw [lu_control_shape, luDecompT_canonical, elimPivotT_canonical] at h ⊢
  exact luFactors_throwEarly X hX R piv A st h l

include hX in
/-- **… and without `throwEarly`** (mode of `determinant`): both decompositions return; lane `l` of the final mask is the scalar
    run's flag whatever the other lanes do (a lane that turned singular keeps eliminating with inf/NaN without disturbing the
    others), and in every lane that stays nonsingular the factors and the sign of the permutation are the scalar run's -/
theorem lu_factors_lanewise_noThrow (piv : Bool) (A : Mat (V K) n) (l : Fin L) :
    ∃ st sts, luDecompT X R luCtl (elimDetT X R luCtl) luCtl.detThrowEarly piv A (X.bcast R.one) = some st ∧
      luDecompT (V := fun α => α) SimdLike.scalar R luCtl (elimDetT (V := fun α => α) SimdLike.scalar R luCtl)
        luCtl.detThrowEarly piv (laneMat X l A) R.one = some sts ∧
      X.lane l st.ns = sts.ns ∧ (sts.ns = true → laneMat X l st.A = sts.A ∧ X.lane l st.aux = sts.aux) := by
  rw [lu_control_shape]
  simp only [luDecompT_canonical, elimDetT_canonical]
  exact luFactors_noThrow X hX R piv A l

end TranslatedLU

-- non-vacuity: the translated table drives the computation (mixed lanes, different pivot rows per lane) …
example : determinantT (SimdLike.loop 2) intArith luCtl true exampleMat = some #v[-6, 0] := by decide +kernel
example : (pivotSearchT (SimdLike.loop 2) intArith luCtl regularMat 0).2 = #v[1, 2] := by decide +kernel
example : solveT (SimdLike.loop 2) intArith luCtl true exampleMat #v[#v[2, 1], #v[1, 1], #v[1, 1], #v[3, 1]] = none ∧
    solveT (SimdLike.loop 2) intArith luCtl true regularMat #v[#v[2, 1], #v[1, 1], #v[1, 5], #v[3, 1]] =
      some #v[#v[1, 1], #v[1, 1], #v[1, 1], #v[1, 1]] := by decide +kernel
example : invertT (SimdLike.loop 2) intArith luCtl true exampleMat = none ∧
    (invertT (SimdLike.loop 2) intArith luCtl true regularMat).isSome = true := by decide +kernel
-- … the hypothesis of `lu_factors_lanewise` is satisfiable, and the recorded pivot rows differ between the lanes
example : ((luDecompT (SimdLike.loop 2) intArith luCtl (elimPivotT (SimdLike.loop 2) (K := Int) luCtl) luCtl.invertThrowEarly true
    regularMat (Vector.ofFn fun i => (SimdLike.loop 2).bcast i)).map fun st => st.aux[0]) = some #v[1, 2] := by decide +kernel

-- … and a table that deviates in ONE decision computes something else (the theorems are about the table, not about a constant):
-- an `imax` that is never updated leaves both regular lanes without their pivot rows; a determinant that throws early throws
example : determinantT (SimdLike.loop 2) intArith { luCtl with imaxTK := false } true regularMat = some #v[0, 0] ∧
    determinantT (SimdLike.loop 2) intArith luCtl true regularMat = some #v[-6, -5] ∧
    determinantT (SimdLike.loop 2) intArith { luCtl with detThrowEarly := true } true exampleMat = none := by decide +kernel

-- ------------------------------------------------------------------------------------------------
-- 9. (round 4) the matrix-vector kernels are TRANSLATED: `Gen.kernel_mv … kernel_usmhv` are read off densematrix.hh on every run
--    (a plain loop nest with one update statement; anything else — a test, a mask reduction, an early return — is outside the
--    translator's grammar), `kernelRunN` / `kernelRunT` (Model/C09K.lean, what the driver runs) execute them
-- ------------------------------------------------------------------------------------------------
section TranslatedKernels
variable {V : Type → Type} {L : Nat} (X : SimdLike V L) (hX : X.Lawful) {K : Type} (R : Arith K) {r c : Nat}

/-- all eleven kernels of densematrix.hh are in the translated table -/
theorem kernel_table_complete :
    kernelTable.map (·.1) = ["mv", "mtv", "umv", "umtv", "umhv", "mmv", "mmtv", "mmhv", "usmv", "usmtv", "usmhv"] := by decide

include hX in
/-- **every kernel shape of the grammar is lane-wise** — for every form of the loop nest, with or without initialisation, `+=` or
    `-=`, scaled by a per-lane `alpha` or not, conjugated (by any scalar function `cj`) or not, for every rectangular size, every
    lawful SIMD type and every arithmetic: lane `l` of the result is the same kernel on lane `l` of matrix, vectors and `alpha` -/
theorem kernels_translated_lanewise (cj : K → K) (s : KShape) (alpha : V K) (A : RMat (V K) r c)
    (x : Vector (V K) c) (y : Vector (V K) r) (xt : Vector (V K) r) (yt : Vector (V K) c) (l : Fin L) :
    laneVec X l (kernelRunN X R cj s alpha A x y) =
      kernelRunN (V := fun α => α) SimdLike.scalar R cj s (X.lane l alpha) (laneRMat X l A) (laneVec X l x) (laneVec X l y) ∧
    laneVec X l (kernelRunT X R cj s alpha A xt yt) =
      kernelRunT (V := fun α => α) SimdLike.scalar R cj s (X.lane l alpha) (laneRMat X l A) (laneVec X l xt) (laneVec X l yt) :=
  ⟨kernelRunN_lanewise X hX R l cj s alpha A x y, kernelRunT_lanewise X hX R l cj s alpha A xt yt⟩

include hX in
/-- in particular the eleven kernels as they are in the source now (whatever options the translator found) -/
theorem kernels_of_table_lanewise (name : String) (s : KShape) (_h : kernelTable.lookup name = some s) (cj : K → K) (alpha : V K)
    (A : RMat (V K) r c) (x : Vector (V K) c) (y : Vector (V K) r) (xt : Vector (V K) r) (yt : Vector (V K) c) (l : Fin L) :
    laneVec X l (kernelRunN X R cj s alpha A x y) =
      kernelRunN (V := fun α => α) SimdLike.scalar R cj s (X.lane l alpha) (laneRMat X l A) (laneVec X l x) (laneVec X l y) ∧
    laneVec X l (kernelRunT X R cj s alpha A xt yt) =
      kernelRunT (V := fun α => α) SimdLike.scalar R cj s (X.lane l alpha) (laneRMat X l A) (laneVec X l xt) (laneVec X l yt) :=
  kernels_translated_lanewise X hX R cj s alpha A x y xt yt l

include hX in
/-- the vector-space operations of `DenseMatrix` on matrices of SIMD numbers — `A += B`, `A -= B`, `A *= k`, `A /= k` (a per-lane
    factor `k`), `-A`, `A.axpy(k, B)` — are lane-wise, for every rectangular size -/
theorem matrix_space_ops_lanewise (k : V K) (A B : RMat (V K) r c) (l : Fin L) :
    laneRMat X l (matAdd X R A B) = matAdd (V := fun α => α) SimdLike.scalar R (laneRMat X l A) (laneRMat X l B) ∧
    laneRMat X l (matSub X R A B) = matSub (V := fun α => α) SimdLike.scalar R (laneRMat X l A) (laneRMat X l B) ∧
    laneRMat X l (matScale X R k A) = matScale (V := fun α => α) SimdLike.scalar R (X.lane l k) (laneRMat X l A) ∧
    laneRMat X l (matDiv X R k A) = matDiv (V := fun α => α) SimdLike.scalar R (X.lane l k) (laneRMat X l A) ∧
    laneRMat X l (matNeg X R A) = matNeg (V := fun α => α) SimdLike.scalar R (laneRMat X l A) ∧
    laneRMat X l (matAxpy X R k A B) =
      matAxpy (V := fun α => α) SimdLike.scalar R (X.lane l k) (laneRMat X l A) (laneRMat X l B) :=
  matSpace_lanewise X hX R l k A B

end TranslatedKernels

example : matAxpy (SimdLike.loop 2) intArith (#v[2, -1] : Vec Int 2) (#v[#v[#v[1, 1], #v[0, 5]]] : RMat (Vec Int 2) 1 2)
    #v[#v[#v[3, 3], #v[4, 4]]] = #v[#v[#v[7, -2], #v[8, 1]]] := by decide +kernel

-- non-vacuity (explicit shapes, so that a harmless change of an option in the source does not disturb the examples):
-- `y -= alpha A x` with a per-lane alpha on a 2×3 matrix of two lanes, and the hermitian `y += A^H x`
example : kernelRunN (SimdLike.loop 2) intArith id { form := .n, init := false, sub := true, scaled := true, conj := false }
    (#v[2, 0] : Vec Int 2) (#v[#v[#v[1, 2], #v[0, 1], #v[2, 0]], #v[#v[0, 1], #v[1, 1], #v[1, 1]]] : RMat (Vec Int 2) 2 3)
    #v[#v[1, 1], #v[2, 1], #v[3, 1]] #v[#v[10, 10], #v[20, 20]] = #v[#v[-4, 10], #v[10, 20]] := by decide +kernel
example : kernelRunT (SimdLike.loop 2) intArith (fun z => -z) { form := .t, init := false, sub := false, scaled := false, conj := true }
    (#v[1, 1] : Vec Int 2) (#v[#v[#v[1, 2], #v[0, 1], #v[2, 0]], #v[#v[0, 1], #v[1, 1], #v[1, 1]]] : RMat (Vec Int 2) 2 3)
    #v[#v[1, 1], #v[2, 1]] #v[#v[0, 0], #v[0, 0], #v[0, 0]] = #v[#v[-1, -3], #v[-2, -2], #v[-4, -1]] := by decide +kernel
example : kernelTable.lookup "usmhv" = some kernel_usmhv := by decide

end DV.C09
