/-
C16 — property theorems.

Part A: the facade derivations.  For ANY derived class whose primitives satisfy the primitive laws
(`LawfulCore` / `LawfulBase`, Proofs/C16Basic.lean) the operators the facades derive obey the iterator
laws, for both `is_convertible` branches and for all three legacy facades; whole operation histories collapse to one
`advance` by the net displacement.  The position based iterators of the library (GenericIterator, DenseIterator,
ContainerWrapperIterator: `posCore`; ArrayList iterators: `alCore`), std iterators, the IntegralRangeIterator and
DenseIterator-as-base are lawful; the pointer chasing SLList iterators are positions.
Part B: the hand-written IntegralRangeIterator (incl. its machine difference), IndexedIterator.
Part C: ranges (loops proved for every sufficient fuel).   Part D: hybrid helpers, static ranges, integer sequences.

The operator bodies the statements talk about are evaluated from DuneVerif/Gen/C16.lean, which
tools/translators/tr_c16.py regenerates from the headers on every run (Proofs/C16Gen.lean pins their meaning by `rfl`).
-/
import DuneVerif.Proofs.C16Extra

namespace DV.C16

/-! ## Part A — legacy facades -/
section legacy
variable {I : Type} {k : Core I} {pos : I → Int} {same : I → I → Prop}

/-- `--(++it) == it`, `++(--it) == it`; the postfix forms return the old value and step the iterator -/
theorem inc_dec_inverse (h : LawfulCore k pos same) (i : I) :
    Legacy.preDec k (Legacy.preInc k i) = i ∧ Legacy.preInc k (Legacy.preDec k i) = i ∧
    (Legacy.postInc k i).1 = i ∧ (Legacy.postInc k i).2 = Legacy.preInc k i ∧
    (Legacy.postDec k i).1 = i ∧ (Legacy.postDec k i).2 = Legacy.preDec k i :=
  ⟨h.inc_dec i, h.dec_inc i, rfl, rfl, rfl, rfl⟩

/-- `it += n`, `it + n`, `it -= n`, `it - n` are `n` (resp. `-n`) single `++`/`--` steps, for either sign of `n` -/
theorem advance_n_eq_n_steps (h : LawfulCore k pos same) (i : I) (n : Int) :
    Legacy.addAssign k i n = steps (Legacy.preInc k) (Legacy.preDec k) i n ∧
    Legacy.plus k i n = steps (Legacy.preInc k) (Legacy.preDec k) i n ∧
    Legacy.subAssign k i n = steps (Legacy.preInc k) (Legacy.preDec k) i (-n) ∧
    Legacy.minus k i n = steps (Legacy.preInc k) (Legacy.preDec k) i (-n) := by
  have key := advance_eq_steps k.increment k.decrement k.advance h.adv_zero h.adv_succ h.adv_pred i
  simp only [Legacy.addAssign_spec, Legacy.plus_spec, Legacy.subAssign_spec, Legacy.minus_spec]
  exact ⟨key n, key n, key (-n), key (-n)⟩

/-- the position reached by `n` steps is `pos + n` -/
theorem advance_pos (h : LawfulCore k pos same) (i : I) (n : Int) :
    pos (Legacy.plus k i n) = pos i + n ∧ pos (Legacy.minus k i n) = pos i - n ∧
    pos (steps (Legacy.preInc k) (Legacy.preDec k) i n) = pos i + n := by
  refine ⟨?_, ?_, ?_⟩
  · rw [Legacy.plus_spec]; exact h.pos_adv i n
  · rw [Legacy.minus_spec, h.pos_adv]; omega
  · rw [← (advance_n_eq_n_steps h i n).2.1, Legacy.plus_spec]; exact h.pos_adv i n

/-- FOR ALL HISTORIES: any sequence of `++ -- ++(int) --(int) += -= (it = it + n) (it = it - n)` applied to an iterator
equals one `advance` by the net displacement; hence the position moves by exactly that displacement and two
histories with the same net displacement end in the same iterator -/
theorem history_eq_advance (h : LawfulCore k pos same) (i : I) (s t : List Step) :
    (Legacy.stepOps k).run i s = k.advance i (deltaSum s) ∧
    pos ((Legacy.stepOps k).run i s) = pos i + deltaSum s ∧
    (deltaSum s = deltaSum t → (Legacy.stepOps k).run i s = (Legacy.stepOps k).run i t) := by
  have hadd := advance_add k.increment k.decrement k.advance h.adv_zero h.adv_succ h.adv_pred
  have hrun : ∀ u : List Step, (Legacy.stepOps k).run i u = k.advance i (deltaSum u) := by
    intro u
    apply run_eq_advance (Legacy.stepOps k) k.advance h.adv_zero hadd
    intro j st
    cases st <;>
      simp only [StepOps.apply, Legacy.stepOps, Step.delta, Legacy.preInc, Legacy.preDec, Legacy.postInc, Legacy.postDec,
        Legacy.addAssign_spec, Legacy.subAssign_spec, Legacy.plus_spec, Legacy.minus_spec]
    · exact inc_eq_advance k.increment k.advance h.adv_zero h.adv_succ j
    · exact dec_eq_advance k.decrement k.advance h.adv_zero h.adv_pred j
    · exact inc_eq_advance k.increment k.advance h.adv_zero h.adv_succ j
    · exact dec_eq_advance k.decrement k.advance h.adv_zero h.adv_pred j
  refine ⟨hrun s, ?_, ?_⟩
  · rw [hrun s, h.pos_adv]
  · intro e; rw [hrun s, hrun t, e]

/-- `(a + n) - a == n` and `a - b` is the difference of the positions, in both `is_convertible` branches -/
theorem diff_consistent (h : LawfulCore k pos same) (conv : Bool) (a b : I) (n : Int) :
    Legacy.diff k conv (Legacy.plus k a n) a = n ∧ Legacy.diff k conv a b = pos a - pos b := by
  cases conv <;> simp [Legacy.diff_spec, Legacy.plus_spec, h.dist, h.pos_adv] <;> omega

/-- the four relational operators are the order of the positions, in both `is_convertible` branches;
equality is equality of positions within one container — for the `==`/`!=` of all three facades -/
theorem rel_ops_are_position_order (h : LawfulCore k pos same) (conv : Bool) (l r : I) :
    Legacy.lt k conv l r = decide (pos l < pos r) ∧
    Legacy.le k conv l r = decide (pos l ≤ pos r) ∧
    Legacy.gt k conv l r = decide (pos l > pos r) ∧
    Legacy.ge k conv l r = decide (pos l ≥ pos r) ∧
    (same l r → Legacy.eq k conv l r = decide (pos l = pos r)) ∧
    (same l r → Legacy.ne k conv l r = decide (pos l ≠ pos r)) ∧
    (same l r → Legacy.eqBi k conv l r = decide (pos l = pos r)) ∧
    (same l r → Legacy.neBi k conv l r = decide (pos l ≠ pos r)) ∧
    (same l r → Legacy.eqFw k conv l r = decide (pos l = pos r)) ∧
    (same l r → Legacy.neFw k conv l r = decide (pos l ≠ pos r)) := by
  have eqv : ∀ a b, same a b → k.equals a b = decide (pos a = pos b) := by
    intro a b hs
    have := h.equals_iff a b hs
    cases hq : k.equals a b <;> simp [hq] at this ⊢ <;> exact this
  have heq : ∀ cv : Bool, same l r → (if cv then k.equals l r else k.equals r l) = decide (pos l = pos r) := by
    intro cv hs
    cases cv
    · simp only [Bool.false_eq_true, if_false, eqv r l (h.same_symm l r hs)]
      exact decide_eq_decide.mpr ⟨Eq.symm, Eq.symm⟩
    · simp only [if_true, eqv l r hs]
  have hne : ∀ cv : Bool, same l r → (if cv then !k.equals l r else !k.equals r l) = decide (pos l ≠ pos r) := by
    intro cv hs
    have := heq cv hs
    cases cv <;> simp only [Bool.false_eq_true, if_false, if_true] at this ⊢ <;> rw [this, ← decide_not]
  refine ⟨?_, ?_, ?_, ?_, ?_, ?_, ?_, ?_, ?_, ?_⟩
  · cases conv <;> simp [Legacy.lt_spec, h.dist] <;> omega
  · cases conv <;> simp [Legacy.le_spec, h.dist] <;> omega
  · cases conv <;> simp [Legacy.gt_spec, h.dist] <;> omega
  · cases conv <;> simp [Legacy.ge_spec, h.dist] <;> omega
  · intro hs; rw [Legacy.eq_spec]; exact heq conv hs
  · intro hs; rw [Legacy.ne_spec]; exact hne conv hs
  · intro hs; rw [Legacy.eqBi_spec]; exact heq conv hs
  · intro hs; rw [Legacy.neBi_spec, Legacy.eqBi_spec, heq conv hs, ← decide_not]
  · intro hs; rw [Legacy.eqFw_spec]; exact heq conv hs
  · intro hs; rw [Legacy.neFw_spec]; exact hne conv hs

/-- `<` is a strict total order on the iterators of one container (irreflexive, asymmetric, transitive,
trichotomous), `<=`/`>=` are the negations of `>`/`<`, `>` is the converse of `<` — whatever branches
(`c1 … c4`) the operand types select -/
theorem strict_order (h : LawfulCore k pos same) (c1 c2 c3 c4 : Bool) (a b c : I) :
    Legacy.lt k c1 a a = false ∧
    (Legacy.lt k c1 a b = true → Legacy.lt k c2 b a = false) ∧
    (Legacy.lt k c1 a b = true → Legacy.lt k c2 b c = true → Legacy.lt k c3 a c = true) ∧
    (same a b → (Legacy.lt k c1 a b = true ∨ Legacy.eq k c2 a b = true ∨ Legacy.gt k c3 a b = true)) ∧
    (same a b → ¬ (Legacy.lt k c1 a b = true ∧ Legacy.eq k c2 a b = true)) ∧
    (same a b → ¬ (Legacy.gt k c1 a b = true ∧ Legacy.eq k c2 a b = true)) ∧
    Legacy.le k c1 a b = !Legacy.gt k c2 a b ∧
    Legacy.ge k c1 a b = !Legacy.lt k c2 a b ∧
    Legacy.gt k c1 a b = Legacy.lt k c4 b a := by
  have R := fun cv x y => rel_ops_are_position_order h cv x y
  refine ⟨?_, ?_, ?_, ?_, ?_, ?_, ?_, ?_, ?_⟩
  · rw [(R c1 a a).1]; simp
  · rw [(R c1 a b).1, (R c2 b a).1]; simp; omega
  · rw [(R c1 a b).1, (R c2 b c).1, (R c3 a c).1]; simp; omega
  · intro hs; rw [(R c1 a b).1, (R c2 a b).2.2.2.2.1 hs, (R c3 a b).2.2.1]; simp; omega
  · intro hs; rw [(R c1 a b).1, (R c2 a b).2.2.2.2.1 hs]; simp; omega
  · intro hs; rw [(R c1 a b).2.2.1, (R c2 a b).2.2.2.2.1 hs]; simp; omega
  · rw [(R c1 a b).2.1, (R c2 a b).2.2.1, ← decide_not]; exact decide_eq_decide.mpr (by omega)
  · rw [(R c1 a b).2.2.2.1, (R c2 a b).1, ← decide_not]; exact decide_eq_decide.mpr (by omega)
  · rw [(R c1 a b).2.2.1, (R c4 b a).1]

/-- a mutable and a const iterator (they differ only in which `is_convertible` branch is compiled and in
the operand order) compare equal exactly when they stand at the same position of the same container;
`==` is symmetric and `!=` is its negation in all three facades -/
theorem const_mutable_equal (h : LawfulCore k pos same) (c1 c2 : Bool) (m c : I) (hs : same m c) :
    (Legacy.eq k c1 m c = true ↔ pos m = pos c) ∧
    Legacy.eq k c1 m c = Legacy.eq k c2 m c ∧
    Legacy.eq k c1 m c = Legacy.eq k c2 c m ∧
    Legacy.ne k c1 m c = !Legacy.eq k c2 m c ∧
    Legacy.eqBi k c1 m c = Legacy.eq k c2 c m ∧
    Legacy.neBi k c1 m c = !Legacy.eq k c2 m c ∧
    Legacy.eqFw k c1 m c = Legacy.eq k c2 c m ∧
    Legacy.neFw k c1 m c = !Legacy.eq k c2 m c := by
  have hs' := h.same_symm m c hs
  have R := fun cv => rel_ops_are_position_order h cv m c
  have R' := fun cv => rel_ops_are_position_order h cv c m
  have sym : decide (pos m = pos c) = decide (pos c = pos m) := decide_eq_decide.mpr ⟨Eq.symm, Eq.symm⟩
  refine ⟨?_, ?_, ?_, ?_, ?_, ?_, ?_, ?_⟩
  · rw [(R c1).2.2.2.2.1 hs]; simp
  · rw [(R c1).2.2.2.2.1 hs, (R c2).2.2.2.2.1 hs]
  · rw [(R c1).2.2.2.2.1 hs, (R' c2).2.2.2.2.1 hs']; exact sym
  · rw [(R c1).2.2.2.2.2.1 hs, (R c2).2.2.2.2.1 hs, ← decide_not]
  · rw [(R c1).2.2.2.2.2.2.1 hs, (R' c2).2.2.2.2.1 hs']; exact sym
  · rw [(R c1).2.2.2.2.2.2.2.1 hs, (R c2).2.2.2.2.1 hs, ← decide_not]
  · rw [(R c1).2.2.2.2.2.2.2.2.1 hs, (R' c2).2.2.2.2.1 hs']; exact sym
  · rw [(R c1).2.2.2.2.2.2.2.2.2 hs, (R c2).2.2.2.2.1 hs, ← decide_not]

end legacy

/-- the position based iterators of the library satisfy the primitive laws (so all of the above applies
to GenericIterator, DenseIterator, ContainerWrapperIterator and to the ArrayList iterators) -/
theorem posCore_is_lawful :
    LawfulCore posCore It.pos (fun a b => a.cont = b.cont) ∧ LawfulCore alCore It.pos (fun a b => a.cont = b.cont) :=
  ⟨posCore_lawful, alCore_lawful⟩

/-- `it[n] == *(it + n)` for the position based iterators (`elementAt(n)` vs. `dereference` after `advance(n)`) -/
theorem index_eq_deref_advance (c : List Int) (i : It) (n : Int) :
    elementAt c i (Legacy.indexArg n) = dereference c (Legacy.plus posCore i n) ∧
    alElementAt c i (Legacy.indexArg n) = alDereference c (Legacy.plus alCore i n) := ⟨rfl, rfl⟩

/-- and both denote the element at position `pos + n` of the container -/
theorem index_is_element (c : List Int) (i : It) (n : Int) (h0 : 0 ≤ i.pos + n) :
    elementAt c i (Legacy.indexArg n) = c[(i.pos + n).toNat]? ∧ alElementAt c i (Legacy.indexArg n) = c[(i.pos + n).toNat]? := by
  simp [elementAt_spec, alElementAt_spec, Legacy.indexArg_spec, getAt]; omega

/-- the additional iterators the dense containers hand out: `beforeEnd()` is one `--` before `end()`,
`beforeBegin()` one `--` before `begin()`, `find(i)` is `min(i,size)` increments behind `begin()` -/
theorem factory_positions (q n i : Nat) :
    (⟨q, beforeEndPos n⟩ : It) = Legacy.preDec posCore ⟨q, n⟩ ∧
    (⟨q, beforeBeginPos⟩ : It) = Legacy.preDec posCore ⟨q, 0⟩ ∧
    (⟨q, findPos n i⟩ : It) = steps (Legacy.preInc posCore) (Legacy.preDec posCore) ⟨q, 0⟩ (min i n : Nat) ∧
    (i < n → findPos n i = i) ∧ (n ≤ i → findPos n i = n) := by
  refine ⟨?_, ?_, ?_, ?_, ?_⟩
  · simp [beforeEndPos, Legacy.preDec, posCore_decrement]
  · simp [beforeBeginPos, Legacy.preDec, posCore_decrement]
  · rw [← (advance_n_eq_n_steps posCore_lawful _ _).2.1]
    simp [findPos, Legacy.plus_spec, posCore_advance]
  · intro h; simp [findPos]; omega
  · intro h; simp [findPos]; omega

-- non-vacuity: concrete iterators of a three element container
example : Legacy.lt posCore false ⟨7, 0⟩ ⟨7, 2⟩ = true ∧ Legacy.lt posCore true ⟨7, 2⟩ ⟨7, 2⟩ = false ∧
    Legacy.diff posCore false (Legacy.plus posCore ⟨7, 3⟩ (-4)) ⟨7, 3⟩ = -4 ∧
    elementAt [5, 6, 7] ⟨7, 0⟩ 2 = some 7 ∧ Legacy.eq posCore false ⟨7, 1⟩ ⟨8, 1⟩ = false ∧
    Legacy.neBi alCore false ⟨7, 1⟩ ⟨7, 2⟩ = true ∧
    (Legacy.stepOps posCore).run ⟨7, 1⟩ [.inc, .add 3, .postDec, .minus 2, .sub (-1)] = ⟨7, 3⟩ := by decide

/-- the SLList iterators chase pointers; on a list whose nodes are distinct they are positions: `p` increments from
`begin()` reach the `p`-th node (`end()` = null for `p = size`), `==`/`!=` of the forward facade decide equality
of positions in both branches, and the ModifyIterator's trailing iterator stays one node behind -/
theorem sll_iterator_is_position (nodes : List Nat) (hnd : nodes.Nodup) (p q : Nat) (hp : p ≤ nodes.length)
    (hq : q ≤ nodes.length) (beforeHead : Nat) :
    SL.at_ nodes p = nodes[p]? ∧ SL.at_ nodes nodes.length = SL.end_ ∧
    SL.equals (SL.at_ nodes p) (SL.at_ nodes q) = decide (p = q) ∧
    SL.equals (SL.at_ nodes q) (SL.at_ nodes p) = decide (p = q) ∧
    stepsNat (SL.mNext beforeHead nodes) p (SL.mBegin beforeHead nodes) = (SL.at_ (beforeHead :: nodes) p, SL.at_ nodes p) ∧
    SL.mEquals (stepsNat (SL.mNext beforeHead nodes) p (SL.mBegin beforeHead nodes))
      (stepsNat (SL.mNext beforeHead nodes) q (SL.mBegin beforeHead nodes)) = decide (p = q) := by
  refine ⟨SL.at_eq nodes hnd p hp, SL.at_end nodes hnd, SL.equals_iff_pos nodes hnd p q hp hq, ?_, SL.mAt _ _ _, ?_⟩
  · rw [SL.equals_iff_pos nodes hnd q p hq hp]; exact decide_eq_decide.mpr ⟨Eq.symm, Eq.symm⟩
  · rw [SL.mAt, SL.mAt]; exact SL.equals_iff_pos nodes hnd p q hp hq

example : SL.at_ [40, 10, 30] 2 = some 30 ∧ SL.at_ [40, 10, 30] 3 = none ∧
    SL.equals (SL.at_ [40, 10, 30] 1) (SL.at_ [40, 10, 30] 1) = true ∧
    stepsNat (SL.mNext 99 [40, 10, 30]) 2 (SL.mBegin 99 [40, 10, 30]) = (some 10, some 30) := by decide


/-! ## Part A' — the new `IteratorFacade` over a lawful base iterator -/
section newfacade
variable {B : Type} {b : Base B} {pos : B → Int} {same : B → B → Prop}

theorem inc_dec_inverse_new (h : LawfulBase b pos same) (i : B) :
    NewF.preDec b (NewF.preInc b i) = i ∧ NewF.preInc b (NewF.preDec b i) = i ∧
    (NewF.postInc b i).1 = i ∧ (NewF.postInc b i).2 = NewF.preInc b i ∧
    (NewF.postDec b i).1 = i ∧ (NewF.postDec b i).2 = NewF.preDec b i :=
  ⟨h.inc_dec i, h.dec_inc i, rfl, rfl, rfl, rfl⟩

theorem advance_n_eq_n_steps_new (h : LawfulBase b pos same) (i : B) (n : Int) :
    NewF.addAssign b i n = steps (NewF.preInc b) (NewF.preDec b) i n ∧
    NewF.plus b i n = steps (NewF.preInc b) (NewF.preDec b) i n ∧
    NewF.subAssign b i n = steps (NewF.preInc b) (NewF.preDec b) i (-n) ∧
    NewF.minus b i n = steps (NewF.preInc b) (NewF.preDec b) i (-n) := by
  have key := advance_eq_steps b.inc b.dec b.addAssign h.add_zero h.add_succ h.add_pred i
  refine ⟨key n, key n, ?_, ?_⟩
  · rw [NewF.subAssign_spec]; exact key (-n)
  · show NewF.subAssign b i n = _; rw [NewF.subAssign_spec]; exact key (-n)

/-- the second branch of `operator++`/`operator--` (`derived() += 1`, `derived() -= 1`, taken by derived classes
without an incrementable base iterator) does the same as the first -/
theorem advance_branch_agrees_new (h : LawfulBase b pos same) (i : B) :
    NewF.preIncAdv b i = NewF.preInc b i ∧ NewF.preDecAdv b i = NewF.preDec b i := by
  rw [NewF.preIncAdv_spec, NewF.preDecAdv_spec]
  exact ⟨(inc_eq_advance b.inc b.addAssign h.add_zero h.add_succ i).symm,
         (dec_eq_advance b.dec b.addAssign h.add_zero h.add_pred i).symm⟩

/-- `it[n]` is defined as `*(it+n)`, hence the dereference after `n` single steps -/
theorem index_eq_deref_advance_new {α : Type} (h : LawfulBase b pos same) (drf : B → α) (i : B) (n : Int) :
    NewF.index b drf i n = drf (NewF.plus b i n) ∧
    NewF.index b drf i n = drf (steps (NewF.preInc b) (NewF.preDec b) i n) := by
  refine ⟨rfl, ?_⟩
  rw [← (advance_n_eq_n_steps_new h i n).2.1]; rfl

/-- FOR ALL HISTORIES (both branches of `++`/`--`): a history is one `+=` by the net displacement -/
theorem history_eq_advance_new (h : LawfulBase b pos same) (i : B) (s t : List Step) :
    (NewF.stepOps b).run i s = b.addAssign i (deltaSum s) ∧
    (NewF.stepOpsAdv b).run i s = b.addAssign i (deltaSum s) ∧
    pos ((NewF.stepOps b).run i s) = pos i + deltaSum s ∧
    (deltaSum s = deltaSum t → (NewF.stepOps b).run i s = (NewF.stepOps b).run i t) := by
  have hadd := advance_add b.inc b.dec b.addAssign h.add_zero h.add_succ h.add_pred
  have hi := inc_eq_advance b.inc b.addAssign h.add_zero h.add_succ
  have hd := dec_eq_advance b.dec b.addAssign h.add_zero h.add_pred
  have hrun : ∀ u : List Step, (NewF.stepOps b).run i u = b.addAssign i (deltaSum u) := by
    intro u
    apply run_eq_advance (NewF.stepOps b) b.addAssign h.add_zero hadd
    intro j st
    cases st <;>
      simp only [StepOps.apply, NewF.stepOps, Step.delta, NewF.preInc, NewF.preDec, NewF.postInc, NewF.postDec,
        NewF.addAssign, NewF.plus, NewF.minus, NewF.subAssign_spec, hi, hd]
  have hrun' : ∀ u : List Step, (NewF.stepOpsAdv b).run i u = b.addAssign i (deltaSum u) := by
    intro u
    apply run_eq_advance (NewF.stepOpsAdv b) b.addAssign h.add_zero hadd
    intro j st
    cases st <;>
      simp only [StepOps.apply, NewF.stepOpsAdv, Step.delta, NewF.preIncAdv_spec, NewF.preDecAdv_spec,
        NewF.addAssign, NewF.plus, NewF.minus, NewF.subAssign_spec]
  refine ⟨hrun s, hrun' s, ?_, ?_⟩
  · rw [hrun s, h.pos_add]
  · intro e; rw [hrun s, hrun t, e]

theorem diff_consistent_new (h : LawfulBase b pos same) (a c : B) (n : Int) :
    NewF.diff b (NewF.plus b a n) a = n ∧ NewF.diff b a c = pos a - pos c := by
  simp only [NewF.diff, NewF.plus, NewF.addAssign, h.sub_pos, h.pos_add]
  exact ⟨by omega, trivial⟩

theorem rel_ops_are_position_order_new (h : LawfulBase b pos same) (l r : B) :
    NewF.lt b l r = decide (pos l < pos r) ∧
    NewF.le b l r = decide (pos l ≤ pos r) ∧
    NewF.gt b l r = decide (pos l > pos r) ∧
    NewF.ge b l r = decide (pos l ≥ pos r) ∧
    (same l r → NewF.eq b l r = decide (pos l = pos r)) ∧
    (same l r → NewF.ne b l r = decide (pos l ≠ pos r)) := by
  have eqv : same l r → b.eq l r = decide (pos l = pos r) := by
    intro hs
    have := h.eq_iff l r hs
    cases hq : b.eq l r <;> simp [hq] at this ⊢ <;> exact this
  refine ⟨?_, ?_, ?_, ?_, ?_, ?_⟩
  · simp only [NewF.lt_spec, NewF.diff, h.sub_pos]; exact decide_eq_decide.mpr (by omega)
  · simp only [NewF.le_spec, NewF.diff, h.sub_pos]; exact decide_eq_decide.mpr (by omega)
  · simp only [NewF.gt_spec, NewF.diff, h.sub_pos]; exact decide_eq_decide.mpr (by omega)
  · simp only [NewF.ge_spec, NewF.diff, h.sub_pos]; exact decide_eq_decide.mpr (by omega)
  · intro hs; simp only [NewF.eq, eqv hs]
  · intro hs; simp only [NewF.ne_spec, NewF.eq, eqv hs, ← decide_not]

theorem strict_order_new (h : LawfulBase b pos same) (x y z : B) :
    NewF.lt b x x = false ∧
    (NewF.lt b x y = true → NewF.lt b y x = false) ∧
    (NewF.lt b x y = true → NewF.lt b y z = true → NewF.lt b x z = true) ∧
    (same x y → (NewF.lt b x y = true ∨ NewF.eq b x y = true ∨ NewF.gt b x y = true)) ∧
    (same x y → ¬ (NewF.lt b x y = true ∧ NewF.eq b x y = true)) ∧
    (same x y → ¬ (NewF.gt b x y = true ∧ NewF.eq b x y = true)) ∧
    NewF.le b x y = !NewF.gt b x y ∧
    NewF.ge b x y = !NewF.lt b x y ∧
    NewF.gt b x y = NewF.lt b y x := by
  have R := fun u v => rel_ops_are_position_order_new h u v
  refine ⟨?_, ?_, ?_, ?_, ?_, ?_, ?_, ?_, ?_⟩
  · rw [(R x x).1]; simp
  · rw [(R x y).1, (R y x).1]; simp; omega
  · rw [(R x y).1, (R y z).1, (R x z).1]; simp; omega
  · intro hs; rw [(R x y).1, (R x y).2.2.2.2.1 hs, (R x y).2.2.1]; simp; omega
  · intro hs; rw [(R x y).1, (R x y).2.2.2.2.1 hs]; simp; omega
  · intro hs; rw [(R x y).2.2.1, (R x y).2.2.2.2.1 hs]; simp; omega
  · rw [(R x y).2.1, (R x y).2.2.1, ← decide_not]; exact decide_eq_decide.mpr (by omega)
  · rw [(R x y).2.2.2.1, (R x y).1, ← decide_not]; exact decide_eq_decide.mpr (by omega)
  · rw [(R x y).2.2.1, (R y x).1]

/-- the relational operators of a derived class WITH base iterators (TransformedRangeIterator, sparse ranges): they
are forwarded to the base iterators (fix C16_facade_order_by_base), hence the position order, with no reference to
the difference and so for positions ANY distance apart -/
theorem rel_ops_forwarded_are_position_order_new (h : LawfulBase b pos same) (l r : B) :
    NewF.ltB b l r = decide (pos l < pos r) ∧
    NewF.leB b l r = decide (pos l ≤ pos r) ∧
    NewF.gtB b l r = decide (pos l > pos r) ∧
    NewF.geB b l r = decide (pos l ≥ pos r) ∧
    NewF.ltB b l r = NewF.lt b l r ∧ NewF.leB b l r = NewF.le b l r ∧
    NewF.gtB b l r = NewF.gt b l r ∧ NewF.geB b l r = NewF.ge b l r := by
  have R := rel_ops_are_position_order_new h l r
  have e1 : NewF.ltB b l r = decide (pos l < pos r) := by rw [NewF.ltB_spec, h.lt_pos]
  have e2 : NewF.leB b l r = decide (pos l ≤ pos r) := by
    rw [NewF.leB_spec, h.lt_pos, ← decide_not]; exact decide_eq_decide.mpr (by omega)
  have e3 : NewF.gtB b l r = decide (pos l > pos r) := by rw [NewF.gtB_spec, h.lt_pos]
  have e4 : NewF.geB b l r = decide (pos l ≥ pos r) := by
    rw [NewF.geB_spec, h.lt_pos, ← decide_not]; exact decide_eq_decide.mpr (by omega)
  exact ⟨e1, e2, e3, e4, by rw [e1, R.1], by rw [e2, R.2.1], by rw [e3, R.2.2.1], by rw [e4, R.2.2.2.1]⟩

theorem strict_order_forwarded_new (h : LawfulBase b pos same) (x y z : B) :
    NewF.ltB b x x = false ∧
    (NewF.ltB b x y = true → NewF.ltB b y x = false) ∧
    (NewF.ltB b x y = true → NewF.ltB b y z = true → NewF.ltB b x z = true) ∧
    (same x y → (NewF.ltB b x y = true ∨ NewF.eq b x y = true ∨ NewF.gtB b x y = true)) ∧
    (same x y → ¬ (NewF.ltB b x y = true ∧ NewF.eq b x y = true)) ∧
    (same x y → ¬ (NewF.gtB b x y = true ∧ NewF.eq b x y = true)) ∧
    NewF.leB b x y = !NewF.gtB b x y ∧
    NewF.geB b x y = !NewF.ltB b x y ∧
    NewF.gtB b x y = NewF.ltB b y x := by
  have F := fun u v => rel_ops_forwarded_are_position_order_new h u v
  have S := strict_order_new h x y z
  rw [(F x x).2.2.2.2.1, (F x y).2.2.2.2.1, (F y x).2.2.2.2.1, (F y z).2.2.2.2.1, (F x z).2.2.2.2.1,
    (F x y).2.2.2.2.2.1, (F x y).2.2.2.2.2.2.1, (F x y).2.2.2.2.2.2.2]
  exact S

end newfacade

/-- std iterators, IntegralRangeIterator and DenseIterator are lawful bases: the `_new` theorems apply to
transformed ranges over std containers, over integral ranges, and to sparse ranges over dense vectors -/
theorem bases_are_lawful :
    LawfulBase stdBase It.pos (fun a b => a.cont = b.cont) ∧
    LawfulBase irBase IR.value (fun _ _ => True) ∧
    LawfulBase denseBase It.pos (fun a b => a.cont = b.cont) :=
  ⟨stdBase_lawful, irBase_lawful, denseBase_lawful⟩

-- non-vacuity: the three bases are lawful, so e.g. a transformed iterator over an integral range obeys the laws
example : NewF.ltB irBase ⟨3⟩ ⟨3⟩ = false ∧ NewF.ltB irBase ⟨3⟩ ⟨5⟩ = true ∧ NewF.geB denseBase ⟨0, 2⟩ ⟨0, 1⟩ = true ∧
    NewF.leB stdBase ⟨0, 4⟩ ⟨0, 4⟩ = true ∧ NewF.gtB stdBase ⟨0, 4⟩ ⟨0, 5⟩ = false := by decide
example : NewF.lt irBase ⟨3⟩ ⟨3⟩ = false ∧ NewF.lt irBase ⟨3⟩ ⟨5⟩ = true ∧
    NewF.minus stdBase ⟨0, 4⟩ 3 = ⟨0, 1⟩ ∧ NewF.diff denseBase (NewF.plus denseBase ⟨0, 1⟩ 2) ⟨0, 1⟩ = 2 ∧
    NewF.index stdBase (fun i => (getAt [5, 6, 7] i.pos).map (3 * · + 1)) ⟨0, 0⟩ 2 = some 22 ∧
    NewF.preDecAdv stdBase ⟨0, 4⟩ = ⟨0, 3⟩ ∧
    (NewF.stepOpsAdv stdBase).run ⟨0, 2⟩ [.dec, .plus 4, .postInc, .sub 3] = ⟨0, 3⟩ := by decide

/-! ## Part B — the hand-written IntegralRangeIterator (repaired) and IndexedIterator -/

theorem ir_inc_dec_inverse (a : IR) :
    IR.dec (IR.inc a) = a ∧ IR.inc (IR.dec a) = a ∧ (IR.postInc a).1 = a ∧ (IR.postInc a).2 = IR.inc a ∧
    (IR.postDec a).1 = a ∧ (IR.postDec a).2 = IR.dec a := by
  cases a; simp [IR.inc_spec, IR.dec_spec, IR.postInc, IR.postDec]

theorem ir_advance_n_eq_n_steps (a : IR) (n : Int) :
    IR.addAssign a n = steps IR.inc IR.dec a n ∧ IR.plus a n = steps IR.inc IR.dec a n ∧
    IR.nplus n a = steps IR.inc IR.dec a n ∧
    IR.subAssign a n = steps IR.inc IR.dec a (-n) ∧ IR.minus a n = steps IR.inc IR.dec a (-n) := by
  have key := advance_eq_steps IR.inc IR.dec IR.addAssign
    (by intro i; cases i; simp [IR.addAssign_spec])
    (by intro i m; cases i; simp [IR.addAssign_spec, IR.inc_spec]; omega)
    (by intro i m; cases i; simp [IR.addAssign_spec, IR.dec_spec]; omega) a
  refine ⟨key n, key n, key n, ?_, ?_⟩
  · rw [← key (-n)]; cases a; simp [IR.subAssign_spec, IR.addAssign_spec]; omega
  · rw [← key (-n)]; cases a; simp [IR.minus_spec, IR.addAssign_spec]; omega

theorem ir_index_eq_deref_advance (a : IR) (n : Int) : IR.index a n = IR.deref (IR.plus a n) := rfl

/-- FOR ALL HISTORIES of the hand-written iterator: the value moves by the net displacement -/
theorem ir_history (a : IR) (s : List Step) : IR.stepOps.run a s = ⟨a.value + deltaSum s⟩ := by
  have := run_eq_advance IR.stepOps (fun i n => (⟨i.value + n⟩ : IR))
    (by intro i; cases i; simp) (by intro i x y; simp; omega)
    (by intro j st; cases st <;>
          simp [StepOps.apply, IR.stepOps, Step.delta, IR.inc_spec, IR.dec_spec, IR.postInc, IR.postDec,
            IR.addAssign_spec, IR.subAssign_spec, IR.plus_spec, IR.minus_spec] <;> omega) a s
  exact this

theorem ir_diff_consistent (a b : IR) (n : Int) :
    IR.diff (IR.plus a n) a = n ∧ IR.diff (IR.nplus n a) a = n ∧ IR.diff a (IR.minus a n) = n ∧
    IR.diff a b = a.value - b.value := by
  simp [IR.diff_spec, IR.plus_spec, IR.nplus_spec, IR.minus_spec]; omega

/-- the difference as the machine computes it for a `bits` wide integral type (subtraction of the unsigned
representations, read as signed — the repaired `operator-`) is the true difference whenever that is representable in
the signed difference type, for ALL values of the two iterators: e.g. `IntegralRange<unsigned>` straddling `2^31`,
`IntegralRange<std::size_t>` straddling `2^63`, ranges of narrow signed types -/
theorem ir_diff_machine_exact (bits : Nat) (hb : 0 < bits) (a b : IR)
    (h1 : -(2 ^ (bits - 1)) ≤ a.value - b.value) (h2 : a.value - b.value < 2 ^ (bits - 1)) :
    IR.diffW bits a b = a.value - b.value ∧ IR.diffW bits a b = IR.diff a b := by
  unfold IR.diffW
  rw [IR.diff_spec]
  exact ⟨toSigned_mod_exact bits hb _ h1 h2, toSigned_mod_exact bits hb _ h1 h2⟩

/-- the six comparisons of the repaired iterator are the order of the values (= positions `value - from`) -/
theorem ir_rel_ops_are_position_order (from_ : Int) (a b : IR) :
    IR.lt a b = decide (a.value - from_ < b.value - from_) ∧
    IR.le a b = decide (a.value - from_ ≤ b.value - from_) ∧
    IR.gt a b = decide (a.value - from_ > b.value - from_) ∧
    IR.ge a b = decide (a.value - from_ ≥ b.value - from_) ∧
    IR.eq a b = decide (a.value - from_ = b.value - from_) ∧
    IR.ne a b = decide (a.value - from_ ≠ b.value - from_) := by
  simp only [IR.lt_spec, IR.le_spec, IR.gt_spec, IR.ge_spec, IR.eq_spec, IR.ne_spec]
  refine ⟨?_, ?_, ?_, ?_, ?_, ?_⟩ <;> exact decide_eq_decide.mpr (by omega)

/-- `<` of the repaired iterator is a strict total order (this is what fails for the unrepaired code:
there `it < it` is `true`) -/
theorem ir_strict_order (a b c : IR) :
    IR.lt a a = false ∧ IR.gt a a = false ∧
    (IR.lt a b = true → IR.lt b a = false) ∧
    (IR.lt a b = true → IR.lt b c = true → IR.lt a c = true) ∧
    (IR.lt a b = true ∨ IR.eq a b = true ∨ IR.gt a b = true) ∧
    ¬ (IR.lt a b = true ∧ IR.eq a b = true) ∧ ¬ (IR.gt a b = true ∧ IR.eq a b = true) ∧
    IR.le a b = !IR.gt a b ∧ IR.ge a b = !IR.lt a b ∧ IR.gt a b = IR.lt b a := by
  simp only [IR.lt_spec, IR.gt_spec, IR.le_spec, IR.ge_spec, IR.eq_spec, decide_eq_true_eq, decide_eq_false_iff_not]
  refine ⟨by omega, by omega, by omega, by omega, by omega, by omega, by omega, ?_, ?_, ?_⟩
  · rw [← decide_not]; exact decide_eq_decide.mpr (by omega)
  · rw [← decide_not]; exact decide_eq_decide.mpr (by omega)
  · trivial

/-- THE TIE IS COMPLETE: every operator body the translator looks for in the headers was found and understood
(nothing fell back to its canonical form unread).  `Gen.unparsed` is regenerated on every run; a body that leaves
the translator's grammar makes this obligation fail, and the check then searches for a failing input. -/
theorem translator_read_all_bodies : Gen.unparsed = [] := rfl

/-- ALL INTEGRAL TYPES AND BOUNDS: as the machine evaluates them for a `bits` wide integral type — whatever the
width, and however far apart the two values are (up to the whole extent of the type, where the difference of the two
iterators no longer fits `difference_type`) — the six comparisons of the IntegralRangeIterator are the order of the
positions and coincide with the exact-integer comparisons all the other `ir_*` theorems speak about.  (The bodies
are re-read from rangeutilities.hh; a body that derives the order from `*this - other` or from a value cast to
`difference_type` is translated with the wrapping `E.wsub`, and this theorem no longer compiles.) -/
theorem ir_rel_ops_all_widths (bits : Nat) (from_ : Int) (a b : IR) :
    IR.ltW bits a b = decide (a.value - from_ < b.value - from_) ∧
    IR.leW bits a b = decide (a.value - from_ ≤ b.value - from_) ∧
    IR.gtW bits a b = decide (a.value - from_ > b.value - from_) ∧
    IR.geW bits a b = decide (a.value - from_ ≥ b.value - from_) ∧
    IR.eqW bits a b = decide (a.value - from_ = b.value - from_) ∧
    IR.neW bits a b = decide (a.value - from_ ≠ b.value - from_) ∧
    IR.ltW bits a b = IR.lt a b ∧ IR.leW bits a b = IR.le a b ∧ IR.gtW bits a b = IR.gt a b ∧
    IR.geW bits a b = IR.ge a b ∧ IR.eqW bits a b = IR.eq a b ∧ IR.neW bits a b = IR.ne a b := by
  refine ⟨?_, ?_, ?_, ?_, ?_, ?_, rfl, rfl, rfl, rfl, rfl, rfl⟩
  · rw [IR.ltW_spec]; exact decide_eq_decide.mpr (by omega)
  · rw [IR.leW_spec]; exact decide_eq_decide.mpr (by omega)
  · rw [IR.gtW_spec]; exact decide_eq_decide.mpr (by omega)
  · rw [IR.geW_spec]; exact decide_eq_decide.mpr (by omega)
  · rw [IR.eqW_spec]; exact decide_eq_decide.mpr (by omega)
  · rw [IR.neW_spec]; exact decide_eq_decide.mpr (by omega)

-- non-vacuity: IntegralRange<unsigned char>(0,200), IntegralRange<int>(-2e9,2e9): begin() < end(), although the
-- machine difference end() - begin() is negative
example : IR.ltW 8 ⟨0⟩ ⟨200⟩ = true ∧ IR.gtW 8 ⟨200⟩ ⟨0⟩ = true ∧ IR.diffW 8 ⟨200⟩ ⟨0⟩ = -56 ∧
    IR.ltW 32 ⟨-2000000000⟩ ⟨2000000000⟩ = true ∧ IR.diffW 32 ⟨2000000000⟩ ⟨-2000000000⟩ = -294967296 ∧
    IR.geW 8 ⟨-128⟩ ⟨127⟩ = false := by decide

/-- what the machine difference is when `difference_type` cannot hold the true one: the true difference shifted by
a multiple of `2^bits` into the range of the signed type — for ALL values (complements `ir_diff_machine_exact`) -/
theorem ir_diff_machine_wraps (bits : Nat) (hb : 0 < bits) (a b : IR) :
    (∃ k : Int, IR.diffW bits a b = (a.value - b.value) + k * 2 ^ bits) ∧
    -(2 ^ (bits - 1)) ≤ IR.diffW bits a b ∧ IR.diffW bits a b < 2 ^ (bits - 1) := by
  unfold IR.diffW toSigned
  rw [IR.diff_spec]
  have hM := two_pow_split bits hb
  have hH : (0 : Int) < 2 ^ (bits - 1) := Int.pow_pos (by omega)
  generalize a.value - b.value = d
  have h0 : 0 ≤ d % 2 ^ bits := Int.emod_nonneg _ (by omega)
  have h1 : d % 2 ^ bits < 2 ^ bits := Int.emod_lt_of_pos _ (by omega)
  have hd : d = 2 ^ bits * (d / 2 ^ bits) + d % 2 ^ bits := (Int.mul_ediv_add_emod d (2 ^ bits)).symm
  generalize d / 2 ^ bits = q at hd
  generalize d % 2 ^ bits = m at *
  generalize (2 : Int) ^ (bits - 1) = H at *
  generalize (2 : Int) ^ bits = M at *
  by_cases hm : m < H
  · rw [if_pos hm]
    exact ⟨⟨-q, by rw [hd, Int.neg_mul, Int.mul_comm q M]; omega⟩, by omega, by omega⟩
  · rw [if_neg hm]
    exact ⟨⟨-q - 1, by rw [hd, Int.sub_mul, Int.neg_mul, Int.mul_comm q M]; omega⟩, by omega, by omega⟩

example : IR.diffW 8 ⟨200⟩ ⟨0⟩ = (200 - 0) + (-1) * 2 ^ 8 := by decide

/-- ALL INTEGRAL TYPES AND BOUNDS, transformed ranges: the iterators of a transformed range over an
`IntegralRange<T>` (new IteratorFacade over `IntegralRangeIterator<T>`, as the machine evaluates it for a `bits` wide
`T`) compare as their positions for EVERY width and ALL values — also where `difference_type` cannot hold the distance
(repaired code, fix C16_facade_order_by_base: before, the facade took the sign of the wrapping machine difference and
e.g. `transformedRangeView(IntegralRange<unsigned char>(0,200), f)` had `begin() < end()` false).  The difference
itself is the true one whenever it is representable (and the true one modulo `2^bits` otherwise: `ir_diff_machine_wraps`). -/
theorem nf_over_integral_range_rel_ops (bits : Nat) (a b : IR) :
    NewF.ltB (irBaseW bits) a b = decide (a.value < b.value) ∧ NewF.leB (irBaseW bits) a b = decide (a.value ≤ b.value) ∧
    NewF.gtB (irBaseW bits) a b = decide (a.value > b.value) ∧ NewF.geB (irBaseW bits) a b = decide (a.value ≥ b.value) ∧
    NewF.eq (irBaseW bits) a b = decide (a.value = b.value) ∧ NewF.ne (irBaseW bits) a b = decide (a.value ≠ b.value) ∧
    (0 < bits → -(2 ^ (bits - 1)) ≤ a.value - b.value → a.value - b.value < 2 ^ (bits - 1) →
      NewF.diff (irBaseW bits) a b = a.value - b.value) := by
  refine ⟨?_, ?_, ?_, ?_, ?_, ?_, ?_⟩
  · rw [NewF.ltB_spec]; show IR.ltW bits a b = _; rw [IR.ltW_spec]
  · rw [NewF.leB_spec]; show (!IR.ltW bits b a) = _; rw [IR.ltW_spec, ← decide_not]; exact decide_eq_decide.mpr (by omega)
  · rw [NewF.gtB_spec]; show IR.ltW bits b a = _; rw [IR.ltW_spec]
  · rw [NewF.geB_spec]; show (!IR.ltW bits a b) = _; rw [IR.ltW_spec, ← decide_not]; exact decide_eq_decide.mpr (by omega)
  · show IR.eqW bits a b = _; rw [IR.eqW_spec]
  · rw [NewF.ne_spec]; show (!IR.eqW bits a b) = _; rw [IR.eqW_spec, ← decide_not]
  · intro hb h1 h2; exact (ir_diff_machine_exact bits hb a b h1 h2).1

-- non-vacuity: the inputs that were wrong before the repair
example : NewF.ltB (irBaseW 8) ⟨0⟩ ⟨200⟩ = true ∧ NewF.gtB (irBaseW 8) ⟨0⟩ ⟨200⟩ = false ∧
    NewF.geB (irBaseW 32) ⟨2000000000⟩ ⟨-2000000000⟩ = true ∧ NewF.leB (irBaseW 8) ⟨-100⟩ ⟨100⟩ = true := by decide
-- what a derived class WITHOUT base iterators still gets (sign of the machine difference): wrong beyond max(difference_type)
example : NewF.lt (irBaseW 8) ⟨0⟩ ⟨200⟩ = false := by decide

section indexed
variable {B : Type} {b : Base B} {pos : B → Int} {same : B → B → Prop}

/-- IndexedIterator: `index()` moves in lock step with the wrapped iterator, `++`/`--` are inverse,
`+=`/`-=` are `n` single steps -/
theorem indexed_tracks_position (h : LawfulBase b pos same) (i : Indexed B) (n : Int) :
    (Indexed.inc b i).index - pos (Indexed.inc b i).base = i.index - pos i.base ∧
    (Indexed.dec b i).index - pos (Indexed.dec b i).base = i.index - pos i.base ∧
    (Indexed.addAssign b i n).index - pos (Indexed.addAssign b i n).base = i.index - pos i.base ∧
    (Indexed.subAssign b i n).index - pos (Indexed.subAssign b i n).base = i.index - pos i.base ∧
    Indexed.dec b (Indexed.inc b i) = i ∧ Indexed.inc b (Indexed.dec b i) = i ∧
    Indexed.addAssign b i n = steps (Indexed.inc b) (Indexed.dec b) i n ∧
    Indexed.subAssign b i n = steps (Indexed.inc b) (Indexed.dec b) i (-n) ∧
    pos (Indexed.plus b i n) = pos i.base + n ∧ pos (Indexed.minus b i n) = pos i.base - n := by
  have key := advance_eq_steps (Indexed.inc b) (Indexed.dec b) (Indexed.addAssign b)
    (by intro j; cases j; simp [Indexed.addAssign, h.add_zero])
    (by intro j m; cases j; simp [Indexed.addAssign, Indexed.inc, h.add_succ]; omega)
    (by intro j m; cases j; simp [Indexed.addAssign, Indexed.dec, h.add_pred]; omega) i
  refine ⟨?_, ?_, ?_, ?_, ?_, ?_, key n, ?_, ?_, ?_⟩
  · simp [Indexed.inc, h.pos_inc]; omega
  · simp [Indexed.dec, h.pos_dec]; omega
  · simp [Indexed.addAssign, h.pos_add]; omega
  · simp [Indexed.subAssign, h.pos_add]; omega
  · cases i; simp [Indexed.inc, Indexed.dec, h.inc_dec]
  · cases i; simp [Indexed.inc, Indexed.dec, h.dec_inc]
  · rw [← key (-n)]; cases i; simp [Indexed.subAssign, Indexed.addAssign]; omega
  · simp [Indexed.plus, h.pos_add]
  · simp [Indexed.minus, h.pos_add]; omega

/-- FOR ALL HISTORIES, from the initial state: an IndexedIterator constructed as `(it, start)` and moved by any
sequence of `++ -- ++(int) --(int) += -=` carries the index `start + (distance moved)`, and its wrapped iterator is
the wrapped iterator moved by the same net displacement -/
theorem indexed_history (h : LawfulBase b pos same) (it0 : B) (start : Int) (s : List Indexed.IStep) :
    Indexed.run b ⟨it0, start⟩ s = ⟨b.addAssign it0 (Indexed.ideltaSum s), start + Indexed.ideltaSum s⟩ ∧
    (Indexed.run b ⟨it0, start⟩ s).index = start + (pos (Indexed.run b ⟨it0, start⟩ s).base - pos it0) := by
  have hadd := advance_add b.inc b.dec b.addAssign h.add_zero h.add_succ h.add_pred
  have hi := inc_eq_advance b.inc b.addAssign h.add_zero h.add_succ
  have hd := dec_eq_advance b.dec b.addAssign h.add_zero h.add_pred
  have gen : ∀ (u : List Indexed.IStep) (j : Indexed B),
      Indexed.run b j u = ⟨b.addAssign j.base (Indexed.ideltaSum u), j.index + Indexed.ideltaSum u⟩ := by
    intro u
    induction u with
    | nil => intro j; cases j; simp [Indexed.run, Indexed.ideltaSum, h.add_zero]
    | cons st u ih =>
      intro j
      have hc : Indexed.ideltaSum (st :: u) = st.delta + Indexed.ideltaSum u := by
        unfold Indexed.ideltaSum
        simp only [List.map_cons, List.foldl_cons]
        have gen2 : ∀ (l : List Int) (x : Int), l.foldl (· + ·) x = x + l.foldl (· + ·) 0 := by
          intro l
          induction l with
          | nil => intro x; simp
          | cons y ys ih2 => intro x; simp only [List.foldl_cons]; rw [ih2 (x + y), ih2 (0 + y)]; omega
        rw [gen2]; omega
      have : Indexed.run b j (st :: u) = Indexed.run b (Indexed.apply b j st) u := rfl
      rw [this, ih, hc]
      cases st <;>
        simp only [Indexed.apply, Indexed.inc, Indexed.dec, Indexed.postInc, Indexed.postDec, Indexed.addAssign,
          Indexed.subAssign, Indexed.IStep.delta, hi, hd, hadd] <;>
        (congr 1; omega)
  refine ⟨gen s _, ?_⟩
  rw [gen s _]
  simp only [h.pos_add]; omega

/-- the comparisons and the difference of IndexedIterators are those of the wrapped iterators (position order);
the index takes no part, and iterators built from one `(begin, start)` by histories agree on the index exactly when
they are equal -/
theorem indexed_rel_ops (h : LawfulBase b pos same) (l r : Indexed B) :
    Indexed.lt b l r = decide (pos l.base < pos r.base) ∧
    Indexed.le b l r = decide (pos l.base ≤ pos r.base) ∧
    Indexed.gt b l r = decide (pos l.base > pos r.base) ∧
    Indexed.ge b l r = decide (pos l.base ≥ pos r.base) ∧
    Indexed.diff b l r = pos l.base - pos r.base ∧
    (same l.base r.base → Indexed.eq b l r = decide (pos l.base = pos r.base)) ∧
    (same l.base r.base → Indexed.ne b l r = decide (pos l.base ≠ pos r.base)) ∧
    (l.index - pos l.base = r.index - pos r.base → (pos l.base = pos r.base ↔ l.index = r.index)) := by
  have eqv : same l.base r.base → b.eq l.base r.base = decide (pos l.base = pos r.base) := by
    intro hs
    have := h.eq_iff l.base r.base hs
    cases hq : b.eq l.base r.base <;> simp [hq] at this ⊢ <;> exact this
  simp only [Indexed.lt, Indexed.le, Indexed.gt, Indexed.ge, Indexed.diff, Indexed.eq, Indexed.ne, h.sub_pos]
  refine ⟨?_, ?_, ?_, ?_, trivial, ?_, ?_, ?_⟩
  · exact decide_eq_decide.mpr (by omega)
  · exact decide_eq_decide.mpr (by omega)
  · exact decide_eq_decide.mpr (by omega)
  · exact decide_eq_decide.mpr (by omega)
  · intro hs; exact eqv hs
  · intro hs; rw [eqv hs, ← decide_not]
  · intro hinv; constructor <;> intro e <;> omega

end indexed

-- non-vacuity (and the witnesses of the repaired defects: `it < it` is now false; the difference across 2^31 is 4)
example : IR.lt ⟨0⟩ ⟨0⟩ = false ∧ IR.gt ⟨0⟩ ⟨0⟩ = false ∧ IR.le ⟨0⟩ ⟨0⟩ = true ∧ IR.lt ⟨-1⟩ ⟨2⟩ = true ∧
    IR.diff (IR.nplus (-3) ⟨7⟩) ⟨7⟩ = -3 ∧ IR.index ⟨250⟩ 4 = 254 ∧
    IR.diffW 32 ⟨2147483650⟩ ⟨2147483646⟩ = 4 ∧ IR.diffW 8 ⟨125⟩ ⟨130⟩ = -5 ∧ IR.diffW 8 ⟨-128⟩ ⟨-125⟩ = -3 ∧
    IR.stepOps.run ⟨5⟩ [.inc, .minus 3, .add 4, .postDec] = ⟨6⟩ := by decide
example : (Indexed.addAssign stdBase ⟨⟨0, 1⟩, 6⟩ 3).index = 9 ∧ (Indexed.subAssign stdBase ⟨⟨0, 4⟩, 9⟩ 3).index = 6 ∧
    (Indexed.plus stdBase ⟨⟨0, 1⟩, 6⟩ 3).pos = 4 ∧
    (Indexed.run stdBase ⟨⟨0, 0⟩, 7⟩ [.inc, .add 3, .postDec, .sub 2]).index = 8 ∧
    Indexed.lt stdBase ⟨⟨0, 1⟩, 50⟩ ⟨⟨0, 2⟩, 3⟩ = true := by decide

/-! ## Part C — ranges

All loop statements are for EVERY fuel that is at least the length of the range (`enumerate` etc. use exactly that
length): the range-based `for` stops by itself at `end()`; no statement holds because the fuel ran out. -/

/-- an integral range enumerates exactly `from, from+1, …, to-1`; `size()` is `to-from` whenever that fits
the unsigned type, `contains` is membership, `range[i]` is the `i`-th enumerated value; `IntegralRange(to)` starts at 0 -/
theorem integral_range_enumerates (r : IntegralRange) (h : r.lo ≤ r.hi) :
    (∀ fuel, (r.hi - r.lo).toNat ≤ fuel → r.enumerateFuel fuel = intRange r.lo r.hi) ∧
    r.enumerate = intRange r.lo r.hi ∧
    (∀ x, r.contains x = true ↔ x ∈ r.enumerate) ∧
    (r.empty = true ↔ r.enumerate = []) ∧
    (∀ bits : Nat, r.hi - r.lo < 2 ^ bits → r.size bits = r.enumerate.length) ∧
    (∀ i : Nat, i < r.enumerate.length → r.enumerate[i]? = some (r.get i)) ∧
    (∀ to : Int, 0 ≤ to → (IntegralRange.ofTo to).enumerate = intRange 0 to) := by
  have hf : ∀ (q : IntegralRange), q.lo ≤ q.hi → ∀ fuel, (q.hi - q.lo).toNat ≤ fuel → q.enumerateFuel fuel = intRange q.lo q.hi := by
    intro q hq fuel hfu
    exact enumLoop_eq q.hi fuel q.lo hq hfu
  have he : r.enumerate = intRange r.lo r.hi := hf r h _ (Nat.le_refl _)
  have hlen := length_intRange r.lo r.hi
  refine ⟨hf r h, he, ?_, ?_, ?_, ?_, ?_⟩
  · intro x; rw [he, mem_intRange]; simp [IntegralRange.contains_spec]
  · rw [he, IntegralRange.empty_spec]
    constructor
    · intro h0
      have : r.lo = r.hi := by simpa using h0
      exact intRange_nil _ _ (by omega)
    · intro h0
      have : (intRange r.lo r.hi).length = 0 := by rw [h0]; rfl
      rw [hlen] at this
      have : r.lo = r.hi := by omega
      simp [this]
  · intro bits hb
    rw [he, hlen, IntegralRange.size_spec]
    rw [← Int.sub_emod, Int.emod_eq_of_lt (by omega) hb]; omega
  · intro i hi
    rw [he] at hi ⊢
    rw [hlen] at hi
    simp only [intRange, List.getElem?_map, IntegralRange.get_spec]
    rw [List.getElem?_range hi]; rfl
  · intro to hto
    rw [IntegralRange.ofTo_spec]
    exact hf ⟨0, to⟩ hto _ (Nat.le_refl _)

/-- a transformed range applies `f` to every element exactly once, in order: the produced values are
`map f` and the sequence of arguments `f` was called with is the container itself; `view[i]` is `f(c[i])` -/
theorem transformed_applies_once_in_order (f : Int → Int) (c : List Int) :
    (∀ fuel, c.length ≤ fuel → transformedEnumerateFuel fuel f c = (c.map f, c)) ∧
    transformedEnumerate f c = (c.map f, c) ∧
    (∀ i, viewAt f c i = c[i]?.map f) ∧ viewSize c = c.length ∧ (viewEmpty c = true ↔ c = []) := by
  have hf : ∀ fuel, c.length ≤ fuel → transformedEnumerateFuel fuel f c = (c.map f, c) := by
    intro fuel hfu
    have := transformLoop_eq f c 0 c.length (Nat.le_refl _) fuel 0 (Nat.zero_le _) (by omega)
    simpa [transformedEnumerateFuel] using this
  refine ⟨hf, hf _ (Nat.le_refl _), ?_, rfl, ?_⟩
  · intro i
    simp [viewAt, NewF.index, NewF.plus, NewF.addAssign, stdBase, getAt_nat]
  · have : viewEmpty c = ((0 : Int) == (c.length : Int)) := by simp [viewEmpty, stdBase]
    rw [this]
    constructor
    · intro h0; exact List.eq_nil_of_length_eq_zero (by have := eq_of_beq h0; omega)
    · intro h0; rw [h0]; rfl

theorem transformed_applies_once_in_order_integral (f : Int → Int) (r : IntegralRange) (h : r.lo ≤ r.hi) :
    (∀ fuel, (r.hi - r.lo).toNat ≤ fuel →
      transformedEnumerateIRFuel fuel f r = ((intRange r.lo r.hi).map f, intRange r.lo r.hi)) ∧
    transformedEnumerateIR f r = ((intRange r.lo r.hi).map f, intRange r.lo r.hi) :=
  ⟨fun fuel hfu => transformLoopIR_eq f r.hi fuel r.lo h hfu, transformLoopIR_eq f r.hi _ r.lo h (Nat.le_refl _)⟩

/-- a sparse range pairs every entry with its index; for a row of a DiagonalMatrix that index is the row index -/
theorem sparse_pairs_with_index (c : List Int) :
    (∀ fuel, c.length ≤ fuel → sparseEnumerateFuel fuel c = withIndexFrom 0 c) ∧
    sparseEnumerate c = withIndexFrom 0 c ∧
    (sparseEnumerate c).map Prod.fst = c ∧
    (sparseEnumerate c).map Prod.snd = (List.range c.length).map (fun (i : Nat) => (i : Int)) ∧
    (∀ row : Nat, row < c.length → sparseDiagRow c row = [(c[row]!, (row : Int))]) := by
  have hf : ∀ fuel, c.length ≤ fuel → sparseEnumerateFuel fuel c = withIndexFrom 0 c := by
    intro fuel hfu
    have h := sparseLoop_eq c 0 c.length (Nat.le_refl _) fuel 0 (Nat.zero_le _) (by omega)
    simpa [sparseEnumerateFuel] using h
  have he : sparseEnumerate c = withIndexFrom 0 c := hf _ (Nat.le_refl _)
  have fst : ∀ (l : List Int) (p : Nat), (withIndexFrom p l).map Prod.fst = l := by
    intro l; induction l with
    | nil => intro p; rfl
    | cons x xs ih => intro p; simp [withIndexFrom, ih]
  have snd : ∀ (l : List Int) (p : Nat),
      (withIndexFrom p l).map Prod.snd = (List.range l.length).map (fun (i : Nat) => ((p + i : Nat) : Int)) := by
    intro l; induction l with
    | nil => intro p; rfl
    | cons x xs ih =>
      intro p
      simp only [withIndexFrom, List.map_cons, List.length_cons, List.range_succ_eq_map, ih (p + 1), List.map_map]
      congr 1
      apply List.map_congr_left
      intro a _; simp only [Function.comp]; congr 1; omega
  refine ⟨hf, he, ?_, ?_, ?_⟩
  · rw [he]; exact fst c 0
  · rw [he, snd c 0]; simp
  · intro row hr
    simp [sparseDiagRow, List.getElem?_eq_getElem hr, getElem!_pos c row hr]

/-- range-based `for` over a whole container through a legacy facade iterator (position based or ArrayList, with the
`!=` of any of the three facades and either branch), and over an `IteratorRange(begin+a, begin+b)`, visits exactly
the intended elements in order -/
theorem range_for_visits_elements (conv : Bool) (c : List Int) (q a b : Nat) (hab : a ≤ b) (hb : b ≤ c.length) :
    (∀ fuel, c.length ≤ fuel →
      legacyLoop posCore (Legacy.ne posCore conv) c fuel ⟨q, 0⟩ ⟨q, c.length⟩ = c ∧
      legacyLoop posCore (Legacy.neBi posCore conv) c fuel ⟨q, 0⟩ ⟨q, c.length⟩ = c ∧
      legacyLoop posCore (Legacy.neFw posCore conv) c fuel ⟨q, 0⟩ ⟨q, c.length⟩ = c ∧
      legacyLoop alCore (Legacy.ne alCore conv) c fuel ⟨q, 0⟩ ⟨q, c.length⟩ = c) ∧
    (∀ fuel, b - a ≤ fuel → iteratorRangeEnumerateFuel fuel c a b = (c.drop a).take (b - a)) ∧
    iteratorRangeEnumerate c a b = (c.drop a).take (b - a) := by
  have R := fun (k : Core It) (hk : LawfulCore k It.pos (fun a b => a.cont = b.cont)) (x y : It) (hs : x.cont = y.cont) =>
    rel_ops_are_position_order hk conv x y
  have hincP : ∀ i : It, Legacy.preInc posCore i = ⟨i.cont, i.pos + 1⟩ := by
    intro i; simp [Legacy.preInc, posCore_increment]
  have hincA : ∀ i : It, Legacy.preInc alCore i = ⟨i.cont, i.pos + 1⟩ := by
    intro i; simp [Legacy.preInc, alCore_increment]
  have full : ∀ (k : Core It) (ne : It → It → Bool) (hi : ∀ i : It, Legacy.preInc k i = ⟨i.cont, i.pos + 1⟩)
      (hne : ∀ (q : Nat) (p e : Int), ne ⟨q, p⟩ ⟨q, e⟩ = decide (p ≠ e)) (fuel : Nat), c.length ≤ fuel →
      legacyLoop k ne c fuel ⟨q, 0⟩ ⟨q, c.length⟩ = c := by
    intro k ne hi hne fuel hfu
    have := legacyLoop_eq k ne hi hne c q c.length (Nat.le_refl _) fuel 0 (Nat.zero_le _) (by omega)
    simpa using this
  refine ⟨?_, ?_, ?_⟩
  · intro fuel hfu
    refine ⟨full _ _ hincP ?_ fuel hfu, full _ _ hincP ?_ fuel hfu, full _ _ hincP ?_ fuel hfu, full _ _ hincA ?_ fuel hfu⟩
    · intro q p e; exact (rel_ops_are_position_order posCore_lawful conv ⟨q, p⟩ ⟨q, e⟩).2.2.2.2.2.1 rfl
    · intro q p e; exact (rel_ops_are_position_order posCore_lawful conv ⟨q, p⟩ ⟨q, e⟩).2.2.2.2.2.2.2.1 rfl
    · intro q p e; exact (rel_ops_are_position_order posCore_lawful conv ⟨q, p⟩ ⟨q, e⟩).2.2.2.2.2.2.2.2.2 rfl
    · intro q p e; exact (rel_ops_are_position_order alCore_lawful conv ⟨q, p⟩ ⟨q, e⟩).2.2.2.2.2.1 rfl
  · intro fuel hfu
    exact legacyLoop_eq posCore _ hincP
      (fun q p e => (rel_ops_are_position_order posCore_lawful true ⟨q, p⟩ ⟨q, e⟩).2.2.2.2.2.1 rfl) c 0 b hb fuel a hab hfu
  · exact legacyLoop_eq posCore _ hincP
      (fun q p e => (rel_ops_are_position_order posCore_lawful true ⟨q, p⟩ ⟨q, e⟩).2.2.2.2.2.1 rfl) c 0 b hb (b - a) a hab (Nat.le_refl _)

-- non-vacuity
example : IntegralRange.enumerate ⟨-2, 3⟩ = [-2, -1, 0, 1, 2] ∧ IntegralRange.size 8 ⟨-2, 3⟩ = 5 ∧
    IntegralRange.size 8 ⟨250, 255⟩ = 5 ∧ IntegralRange.enumerate ⟨4, 4⟩ = [] ∧
    IntegralRange.contains ⟨-2, 3⟩ 3 = false ∧ IntegralRange.enumerateFuel 50 ⟨-2, 3⟩ = [-2, -1, 0, 1, 2] ∧
    (IntegralRange.ofTo 3).enumerate = [0, 1, 2] := by decide
example : transformedEnumerate (fun x => 3 * x + 1) [4, -1, 4] = ([13, -2, 13], [4, -1, 4]) ∧
    transformedEnumerateFuel 9 (fun x => 3 * x + 1) [4, -1, 4] = ([13, -2, 13], [4, -1, 4]) ∧
    transformedEnumerateIR (fun x => 3 * x + 1) ⟨1, 3⟩ = ([4, 7], [1, 2]) ∧
    sparseEnumerate [7, 7, 9] = [(7, 0), (7, 1), (9, 2)] ∧ sparseDiagRow [7, 8, 9] 1 = [(8, 1)] ∧
    iteratorRangeEnumerate [5, 6, 7, 8] 1 3 = [6, 7] ∧ viewAt (fun x => 3 * x + 1) [4, -1, 4] 1 = some (-2) := by decide

/-! ## Part D — hybrid helpers: compile-time containers/indices vs. run-time counterparts -/

theorem hybrid_elementAt (c : List Int) (i : Nat) : Hybrid.elementAtStatic c i = Hybrid.elementAtDynamic c i := by
  induction c generalizing i with
  | nil => simp [Hybrid.elementAtStatic, Hybrid.elementAtDynamic]
  | cons x xs ih =>
    cases i with
    | zero => simp [Hybrid.elementAtStatic, Hybrid.elementAtDynamic]
    | succ j => simp [Hybrid.elementAtStatic, Hybrid.elementAtDynamic] at ih ⊢; exact ih j

theorem hybrid_forEach {σ : Type} (c : List Int) (f : σ → Int → σ) (s : σ) :
    Hybrid.forEachStatic c f s = Hybrid.forEachDynamic c f s ∧ Hybrid.forEachDynamic c f s = c.foldl f s := by
  induction c generalizing s with
  | nil => exact ⟨rfl, rfl⟩
  | cons x xs ih =>
    rw [forEachStatic_cons]
    exact ⟨(ih (f s x)).1, (ih (f s x)).2⟩

/-- a StaticIntegralRange agrees with the IntegralRange of the same bounds in every member (begin/end, element
access by run-time and by compile-time index, empty, size, contains, enumeration, the integer sequence it converts
to), and the static `forEach` over it (index walk through `range[integral_constant]`) visits what the dynamic loop
over the IntegralRange visits -/
theorem static_range_eq_dynamic (r : IntegralRange) (h : r.lo ≤ r.hi) :
    SR.begin_ r = r.begin_ ∧ SR.end_ r = r.end_ ∧
    (∀ i, SR.getStatic r i = r.get i ∧ SR.get r i = r.get i) ∧
    SR.empty r = r.empty ∧ (∀ bits, SR.size bits r = r.size bits) ∧ (∀ x, SR.contains r x = r.contains x) ∧
    SR.enumerate r = r.enumerate ∧ SR.toSequence r = r.enumerate ∧ SR.toDynamic r = r ∧
    (r.hi - r.lo < 2 ^ 64 → ∀ (σ : Type) (f : σ → Int → σ) (s : σ),
      Hybrid.forEachStaticRange r f s = Hybrid.forEachDynamic r.enumerate f s) := by
  have he := (integral_range_enumerates r h).2.1
  refine ⟨rfl, rfl, fun i => ⟨rfl, rfl⟩, rfl, fun _ => rfl, fun _ => rfl, rfl, ?_, rfl, ?_⟩
  · rw [toSequence_eq, he]
  · intro hsz σ f s
    have hs : SR.size 64 r = (r.hi - r.lo) := by
      rw [SR.size_spec, ← Int.sub_emod, Int.emod_eq_of_lt (by omega) hsz]
    rw [forEachDynamic_eq_foldl, he]
    unfold Hybrid.forEachStaticRange intRange
    rw [hs, List.foldl_map]
    rfl

theorem hybrid_switchCases_seq {α : Type} (cases : List Int) (v : Int) (br : Int → α) (els : α) :
    Hybrid.switchSeqStatic cases v br els = Hybrid.switchSeqDynamic cases v br els := by
  induction cases with
  | nil => rfl
  | cons t tt ih =>
    unfold Hybrid.switchSeqStatic at ih ⊢
    simp only [Hybrid.switchSeqDynamic, List.any_cons]
    by_cases h : t = v
    · subst h; simp
    · have : (t == v) = false := by simpa using h
      simp only [this, Bool.false_or, h, if_false]; exact ih

theorem hybrid_switchCases_range {α : Type} (r : IntegralRange) (h : r.lo ≤ r.hi) (v : Int) (br : Int → α) (els : α) :
    Hybrid.switchRangeStatic r v br els = Hybrid.switchRangeDynamic r v br els ∧
    Hybrid.switchRangeDynamic3 r v br = (if r.contains v then some (br v) else none) ∧
    Hybrid.switchSeqDynamic3 (SR.toSequence r) v br = Hybrid.switchRangeDynamic3 r v br := by
  have hseq : SR.toSequence r = r.enumerate := (static_range_eq_dynamic r h).2.2.2.2.2.2.2.1
  have hm := (integral_range_enumerates r h).2.2.1 v
  have hany : r.enumerate.any (· == v) = r.contains v := by
    by_cases hc : r.contains v = true
    · rw [hc, List.any_eq_true]; exact ⟨v, hm.mp hc, by simp⟩
    · have hc' : r.contains v = false := by simpa using hc
      rw [hc', Bool.eq_false_iff]; intro hany
      rw [List.any_eq_true] at hany
      obtain ⟨x, hx, hxe⟩ := hany
      have : x = v := by simpa using hxe
      subst this
      exact hc (hm.mpr hx)
  refine ⟨?_, rfl, ?_⟩
  · unfold Hybrid.switchRangeStatic Hybrid.switchRangeDynamic
    rw [hseq, ← hybrid_switchCases_seq]
    unfold Hybrid.switchSeqStatic
    rw [hany]
  · unfold Hybrid.switchSeqDynamic3 Hybrid.switchRangeDynamic3
    rw [hseq, ← hybrid_switchCases_seq]
    unfold Hybrid.switchSeqStatic
    rw [hany]

/-- static and dynamic overloads of the hybrid helpers agree (size, element access, loop order,
accumulation, if/else, switchCases over sequences and ranges, the integral-constant functors) -/
theorem hybrid_static_eq_dynamic (c : List Int) :
    Hybrid.sizeStatic c = Hybrid.sizeDynamic c ∧
    (∀ i, Hybrid.elementAtStatic c i = Hybrid.elementAtDynamic c i) ∧
    (∀ (σ : Type) (f : σ → Int → σ) (s : σ), Hybrid.forEachStatic c f s = Hybrid.forEachDynamic c f s) ∧
    (∀ (visit : List Int), Hybrid.forEachStatic c (fun l e => l ++ [e]) visit = visit ++ c) ∧
    (∀ init f, Hybrid.accumulateStatic c init f = Hybrid.accumulateDynamic c init f ∧
               Hybrid.accumulateDynamic c init f = c.foldl f init) ∧
    (∀ (α : Type) (cond : Bool) (x y : α), Hybrid.ifElseStatic cond x y = Hybrid.ifElseDynamic cond x y) ∧
    (∀ (α : Type) v (br : Int → α) els, Hybrid.switchSeqStatic c v br els = Hybrid.switchSeqDynamic c v br els) ∧
    (∀ (α : Type) v (br : Int → α), Hybrid.switchSeqDynamic3 c v br = if v ∈ c then some (br v) else none) ∧
    (∀ f a b, Hybrid.functorStatic f a b = Hybrid.functorDynamic f a b) := by
  refine ⟨rfl, hybrid_elementAt c, fun σ f s => (hybrid_forEach c f s).1, ?_, ?_, ?_, ?_, ?_, fun _ _ _ => rfl⟩
  · intro visit
    rw [(hybrid_forEach c _ visit).1, (hybrid_forEach c _ visit).2]
    induction c generalizing visit with
    | nil => simp
    | cons x xs ih => simp [ih]
  · intro init f
    exact ⟨(hybrid_forEach c f init).1, (hybrid_forEach c f init).2⟩
  · intro α cond x y; cases cond <;> rfl
  · intro α v br els; exact hybrid_switchCases_seq c v br els
  · intro α v br
    unfold Hybrid.switchSeqDynamic3
    rw [← hybrid_switchCases_seq]
    unfold Hybrid.switchSeqStatic
    have : c.any (· == v) = decide (v ∈ c) := by
      have := Seq.contains_iff c v
      unfold Seq.contains at this
      by_cases hm : v ∈ c
      · simp [hm, this.mpr hm]
      · have hf : c.any (· == v) = false := by
          rw [Bool.eq_false_iff]; intro ht; exact hm (this.mp ht)
        simp [hm, hf]
    rw [this]
    by_cases hm : v ∈ c <;> simp [hm]

/-- the integer_sequence helpers of integersequence.hh: element access with a compile-time and with a run-time
position agree; `back` is the last entry; `contains` is membership; `difference` keeps (in order) the entries of
the first sequence that are not in the second; `equal` is equality; `sorted` is an ascending permutation -/
theorem integer_sequence_helpers (s t : List Int) (v : Int) :
    (∀ pos, Seq.getStatic s pos = Seq.getDynamic s pos) ∧
    Seq.back s = s.getLast? ∧ Seq.front s = s.head? ∧ Seq.head s = Seq.front s ∧
    (Seq.contains s v = true ↔ v ∈ s) ∧
    Seq.difference s t = s.filter (fun x => !Seq.contains t x) ∧
    (∀ x, x ∈ Seq.difference s t ↔ x ∈ s ∧ x ∉ t) ∧
    (Seq.equal s t = true ↔ s = t) ∧
    (Seq.sorted s).Perm s ∧ (Seq.sorted s).Pairwise (· ≤ ·) ∧
    Seq.size (Seq.pushFront v s) = Seq.size s + 1 ∧ Seq.getDynamic (Seq.pushBack v s) (Seq.size s) = some v ∧
    (Seq.empty s = true ↔ s = []) := by
  refine ⟨hybrid_elementAt s, ?_, rfl, rfl, Seq.contains_iff s v, Seq.difference_eq_filter s t, ?_, Seq.equal_iff s t,
    Seq.sorted_perm s, Seq.sorted_pairwise s, ?_, ?_, ?_⟩
  · unfold Seq.back Seq.getStatic
    by_cases h0 : s.length = 0
    · have : s = [] := List.eq_nil_of_length_eq_zero h0
      subst this; rfl
    · rw [if_neg h0, hybrid_elementAt]
      simp [Hybrid.elementAtDynamic, List.getLast?_eq_getElem?]
  · intro x
    rw [Seq.difference_eq_filter, List.mem_filter]
    have := Seq.contains_iff t x
    constructor
    · rintro ⟨hx, hc⟩
      refine ⟨hx, fun hm => ?_⟩
      have := this.mpr hm
      simp [this] at hc
    · rintro ⟨hx, hn⟩
      refine ⟨hx, ?_⟩
      cases hcv : Seq.contains t x with
      | false => rfl
      | true => exact absurd (this.mp hcv) hn
  · simp [Seq.size, Seq.pushFront]
  · simp [Seq.getDynamic, Seq.pushBack, Seq.size]
  · simp [Seq.empty]

-- non-vacuity
example : Hybrid.forEachStatic [3, 1, 4] (fun (l : List Int) e => l ++ [e]) [] = [3, 1, 4] ∧
    Hybrid.accumulateStatic [3, 1, 4] 2 (fun a e => 3 * a + e) = 88 ∧
    Hybrid.accumulateDynamic [3, 1, 4] 2 (fun a e => 3 * a + e) = 88 ∧
    Hybrid.switchSeqStatic [3, 1, 4, 1, 5] 4 (fun i => 100 + i) (-1) = 104 ∧
    Hybrid.switchSeqDynamic [3, 1, 4, 1, 5] 9 (fun i => 100 + i) (-1) = -1 ∧
    Hybrid.switchRangeStatic ⟨2, 5⟩ 4 (fun i => 100 + i) (-1) = 104 ∧
    Hybrid.switchRangeDynamic ⟨2, 5⟩ 5 (fun i => 100 + i) (-1) = -1 ∧
    Hybrid.switchRangeDynamic3 ⟨2, 5⟩ 3 (fun i => 100 + i) = some 103 ∧
    Hybrid.forEachStaticRange ⟨2, 5⟩ (fun (l : List Int) e => l ++ [e]) [] = [2, 3, 4] ∧
    Hybrid.elementAtStatic [3, 1, 4] 2 = some 4 := by decide
example : Seq.sorted [3, 1, 4, 1, 5] = [1, 1, 3, 4, 5] ∧ Seq.difference [0, 1, 2, 3, 4] [3, 1] = [0, 2, 4] ∧
    Seq.back [3, 1, 4] = some 4 ∧ Seq.equal [1, 2] [1, 2] = true ∧ Seq.equal [1, 2] [1] = false ∧
    Seq.contains [3, 1, 4] 4 = true ∧ SR.toSequence ⟨-3, 2⟩ = [-3, -2, -1, 0, 1] := by decide

end DV.C16
