/-
C16 — property theorems.

Part A: the facade derivations.  For ANY derived class whose primitives satisfy the primitive laws
(`LawfulCore` / `LawfulBase`, Proofs/C16Basic.lean) the operators the facades derive obey the iterator
laws, for both `is_convertible` branches; the position based iterators of the library (GenericIterator,
DenseIterator, ArrayListIterator, ContainerWrapperIterator: `posCore`), std iterators, the
IntegralRangeIterator and DenseIterator-as-base are lawful.
Part B: the hand-written IntegralRangeIterator, IndexedIterator.
Part C: ranges.   Part D: hybrid helpers.
-/
import DuneVerif.Proofs.C16Extra

namespace DV.C16

/-! ## Part A — legacy facades -/
section legacy
variable {I : Type} {k : Core I} {pos : I → Int} {same : I → I → Prop}

/-- `--(++it) == it`, `++(--it) == it`; the postfix forms return the old value and step the iterator -/
theorem inc_dec_inverse (h : LawfulCore k pos same) (i : I) :
    Legacy.preDec k (Legacy.preInc k i) = i ∧ Legacy.preInc k (Legacy.preDec k i) = i ∧
    (Legacy.postInc k i).1 = i ∧ (Legacy.postInc k i).2 = Legacy.preInc k i ∧
    (Legacy.postDec k i).1 = i ∧ (Legacy.postDec k i).2 = Legacy.preDec k i :=
  ⟨h.inc_dec i, h.dec_inc i, rfl, rfl, rfl, rfl⟩

/-- `it += n`, `it + n`, `it -= n`, `it - n` are `n` (resp. `-n`) single `++`/`--` steps, for either sign of `n` -/
theorem advance_n_eq_n_steps (h : LawfulCore k pos same) (i : I) (n : Int) :
    Legacy.addAssign k i n = steps (Legacy.preInc k) (Legacy.preDec k) i n ∧
    Legacy.plus k i n = steps (Legacy.preInc k) (Legacy.preDec k) i n ∧
    Legacy.subAssign k i n = steps (Legacy.preInc k) (Legacy.preDec k) i (-n) ∧
    Legacy.minus k i n = steps (Legacy.preInc k) (Legacy.preDec k) i (-n) := by
  have key := advance_eq_steps k.increment k.decrement k.advance h.adv_zero h.adv_succ h.adv_pred i
  exact ⟨key n, key n, key (-n), key (-n)⟩

/-- the position reached by `n` steps is `pos + n` -/
theorem advance_pos (h : LawfulCore k pos same) (i : I) (n : Int) :
    pos (Legacy.plus k i n) = pos i + n ∧ pos (Legacy.minus k i n) = pos i - n ∧
    pos (steps (Legacy.preInc k) (Legacy.preDec k) i n) = pos i + n := by
  refine ⟨by rw [Legacy.plus_spec]; exact h.pos_adv i n, ?_, ?_⟩
  · rw [Legacy.minus_spec, h.pos_adv]; omega
  · rw [← (advance_n_eq_n_steps h i n).2.1, Legacy.plus_spec]; exact h.pos_adv i n

/-- `(a + n) - a == n` and `a - b` is the difference of the positions, in both `is_convertible` branches -/
theorem diff_consistent (h : LawfulCore k pos same) (conv : Bool) (a b : I) (n : Int) :
    Legacy.diff k conv (Legacy.plus k a n) a = n ∧ Legacy.diff k conv a b = pos a - pos b := by
  cases conv <;> simp [Legacy.diff_spec, Legacy.plus_spec, h.dist, h.pos_adv] <;> omega

/-- the four relational operators are the order of the positions, in both `is_convertible` branches;
equality is equality of positions within one container -/
theorem rel_ops_are_position_order (h : LawfulCore k pos same) (conv : Bool) (l r : I) :
    Legacy.lt k conv l r = decide (pos l < pos r) ∧
    Legacy.le k conv l r = decide (pos l ≤ pos r) ∧
    Legacy.gt k conv l r = decide (pos l > pos r) ∧
    Legacy.ge k conv l r = decide (pos l ≥ pos r) ∧
    (same l r → Legacy.eq k conv l r = decide (pos l = pos r)) ∧
    (same l r → Legacy.ne k conv l r = decide (pos l ≠ pos r)) ∧
    (same l r → Legacy.neBidi k conv l r = decide (pos l ≠ pos r)) := by
  have eqv : ∀ a b, same a b → k.equals a b = decide (pos a = pos b) := by
    intro a b hs
    have := h.equals_iff a b hs
    cases hq : k.equals a b <;> simp [hq] at this ⊢ <;> exact this
  refine ⟨?_, ?_, ?_, ?_, ?_, ?_, ?_⟩
  · cases conv <;> simp [Legacy.lt_spec, h.dist] <;> omega
  · cases conv <;> simp [Legacy.le_spec, h.dist] <;> omega
  · cases conv <;> simp [Legacy.gt_spec, h.dist] <;> omega
  · cases conv <;> simp [Legacy.ge_spec, h.dist] <;> omega
  · intro hs
    cases conv
    · simp only [Legacy.eq, Bool.false_eq_true, if_false, eqv r l (h.same_symm l r hs)]
      exact decide_eq_decide.mpr ⟨Eq.symm, Eq.symm⟩
    · simp only [Legacy.eq, if_true, eqv l r hs]
  · intro hs
    cases conv
    · simp only [Legacy.ne, Bool.false_eq_true, if_false, eqv r l (h.same_symm l r hs)]
      rw [← decide_not]; exact decide_eq_decide.mpr ⟨fun a b => a b.symm, fun a b => a b.symm⟩
    · simp only [Legacy.ne, if_true, eqv l r hs]; rw [← decide_not]
  · intro hs
    cases conv
    · simp only [Legacy.neBidi, Legacy.eq, Bool.false_eq_true, if_false, eqv r l (h.same_symm l r hs)]
      rw [← decide_not]; exact decide_eq_decide.mpr ⟨fun a b => a b.symm, fun a b => a b.symm⟩
    · simp only [Legacy.neBidi, Legacy.eq, if_true, eqv l r hs]; rw [← decide_not]

/-- `<` is a strict total order on the iterators of one container (irreflexive, asymmetric, transitive,
trichotomous), `<=`/`>=` are the negations of `>`/`<`, `>` is the converse of `<` — whatever branches
(`c1 … c4`) the operand types select -/
theorem strict_order (h : LawfulCore k pos same) (c1 c2 c3 c4 : Bool) (a b c : I) :
    Legacy.lt k c1 a a = false ∧
    (Legacy.lt k c1 a b = true → Legacy.lt k c2 b a = false) ∧
    (Legacy.lt k c1 a b = true → Legacy.lt k c2 b c = true → Legacy.lt k c3 a c = true) ∧
    (same a b → (Legacy.lt k c1 a b = true ∨ Legacy.eq k c2 a b = true ∨ Legacy.gt k c3 a b = true)) ∧
    (same a b → ¬ (Legacy.lt k c1 a b = true ∧ Legacy.eq k c2 a b = true)) ∧
    (same a b → ¬ (Legacy.gt k c1 a b = true ∧ Legacy.eq k c2 a b = true)) ∧
    Legacy.le k c1 a b = !Legacy.gt k c2 a b ∧
    Legacy.ge k c1 a b = !Legacy.lt k c2 a b ∧
    Legacy.gt k c1 a b = Legacy.lt k c4 b a := by
  have R := fun cv x y => rel_ops_are_position_order h cv x y
  refine ⟨?_, ?_, ?_, ?_, ?_, ?_, ?_, ?_, ?_⟩
  · rw [(R c1 a a).1]; simp
  · rw [(R c1 a b).1, (R c2 b a).1]; simp; omega
  · rw [(R c1 a b).1, (R c2 b c).1, (R c3 a c).1]; simp; omega
  · intro hs; rw [(R c1 a b).1, (R c2 a b).2.2.2.2.1 hs, (R c3 a b).2.2.1]; simp; omega
  · intro hs; rw [(R c1 a b).1, (R c2 a b).2.2.2.2.1 hs]; simp; omega
  · intro hs; rw [(R c1 a b).2.2.1, (R c2 a b).2.2.2.2.1 hs]; simp; omega
  · rw [(R c1 a b).2.1, (R c2 a b).2.2.1, ← decide_not]; exact decide_eq_decide.mpr (by omega)
  · rw [(R c1 a b).2.2.2.1, (R c2 a b).1, ← decide_not]; exact decide_eq_decide.mpr (by omega)
  · rw [(R c1 a b).2.2.1, (R c4 b a).1]

/-- a mutable and a const iterator (they differ only in which `is_convertible` branch is compiled and in
the operand order) compare equal exactly when they stand at the same position of the same container;
`==` is symmetric and `!=` is its negation in all three facades -/
theorem const_mutable_equal (h : LawfulCore k pos same) (c1 c2 : Bool) (m c : I) (hs : same m c) :
    (Legacy.eq k c1 m c = true ↔ pos m = pos c) ∧
    Legacy.eq k c1 m c = Legacy.eq k c2 m c ∧
    Legacy.eq k c1 m c = Legacy.eq k c2 c m ∧
    Legacy.ne k c1 m c = !Legacy.eq k c2 m c ∧
    Legacy.neBidi k c1 m c = !Legacy.eq k c2 m c := by
  have hs' := h.same_symm m c hs
  have R := fun cv => rel_ops_are_position_order h cv m c
  have R' := fun cv => rel_ops_are_position_order h cv c m
  refine ⟨?_, ?_, ?_, ?_, ?_⟩
  · rw [(R c1).2.2.2.2.1 hs]; simp
  · rw [(R c1).2.2.2.2.1 hs, (R c2).2.2.2.2.1 hs]
  · rw [(R c1).2.2.2.2.1 hs, (R' c2).2.2.2.2.1 hs']; exact decide_eq_decide.mpr ⟨Eq.symm, Eq.symm⟩
  · rw [(R c1).2.2.2.2.2.1 hs, (R c2).2.2.2.2.1 hs, ← decide_not]
  · rw [(R c1).2.2.2.2.2.2 hs, (R c2).2.2.2.2.1 hs, ← decide_not]

end legacy

/-- the position based iterators of the library satisfy the primitive laws (so all of the above applies
to GenericIterator, DenseIterator, ArrayListIterator, ContainerWrapperIterator) -/
theorem posCore_is_lawful : LawfulCore posCore It.pos (fun a b => a.cont = b.cont) := posCore_lawful

/-- `it[n] == *(it + n)` for the position based iterators (`elementAt(n)` vs. `dereference` after `advance(n)`) -/
theorem index_eq_deref_advance (c : List Int) (i : It) (n : Int) :
    elementAt c i n = dereference c (Legacy.plus posCore i n) := rfl

/-- and both denote the element at position `pos + n` of the container -/
theorem index_is_element (c : List Int) (i : It) (n : Int) (h0 : 0 ≤ i.pos + n) :
    elementAt c i n = c[(i.pos + n).toNat]? := by
  simp [elementAt, getAt]; omega

-- non-vacuity: concrete iterators of a three element container
example : Legacy.lt posCore false ⟨7, 0⟩ ⟨7, 2⟩ = true ∧ Legacy.lt posCore true ⟨7, 2⟩ ⟨7, 2⟩ = false ∧
    Legacy.diff posCore false (Legacy.plus posCore ⟨7, 3⟩ (-4)) ⟨7, 3⟩ = -4 ∧
    elementAt [5, 6, 7] ⟨7, 0⟩ 2 = some 7 ∧ Legacy.eq posCore false ⟨7, 1⟩ ⟨8, 1⟩ = false := by decide


/-! ## Part A' — the new `IteratorFacade` over a lawful base iterator -/
section newfacade
variable {B : Type} {b : Base B} {pos : B → Int} {same : B → B → Prop}

theorem inc_dec_inverse_new (h : LawfulBase b pos same) (i : B) :
    NewF.preDec b (NewF.preInc b i) = i ∧ NewF.preInc b (NewF.preDec b i) = i ∧
    (NewF.postInc b i).1 = i ∧ (NewF.postInc b i).2 = NewF.preInc b i ∧
    (NewF.postDec b i).1 = i ∧ (NewF.postDec b i).2 = NewF.preDec b i :=
  ⟨h.inc_dec i, h.dec_inc i, rfl, rfl, rfl, rfl⟩

theorem advance_n_eq_n_steps_new (h : LawfulBase b pos same) (i : B) (n : Int) :
    NewF.addAssign b i n = steps (NewF.preInc b) (NewF.preDec b) i n ∧
    NewF.plus b i n = steps (NewF.preInc b) (NewF.preDec b) i n ∧
    NewF.subAssign b i n = steps (NewF.preInc b) (NewF.preDec b) i (-n) ∧
    NewF.minus b i n = steps (NewF.preInc b) (NewF.preDec b) i (-n) := by
  have key := advance_eq_steps b.inc b.dec b.addAssign h.add_zero h.add_succ h.add_pred i
  exact ⟨key n, key n, key (-n), key (-n)⟩

/-- `it[n]` is defined as `*(it+n)`, hence the dereference after `n` single steps -/
theorem index_eq_deref_advance_new {α : Type} (h : LawfulBase b pos same) (drf : B → α) (i : B) (n : Int) :
    NewF.index b drf i n = drf (NewF.plus b i n) ∧
    NewF.index b drf i n = drf (steps (NewF.preInc b) (NewF.preDec b) i n) := by
  refine ⟨rfl, ?_⟩
  rw [← (advance_n_eq_n_steps_new h i n).2.1]; rfl

theorem diff_consistent_new (h : LawfulBase b pos same) (a c : B) (n : Int) :
    NewF.diff b (NewF.plus b a n) a = n ∧ NewF.diff b a c = pos a - pos c := by
  simp only [NewF.diff, NewF.plus, NewF.addAssign, h.sub_pos, h.pos_add]
  exact ⟨by omega, trivial⟩

theorem rel_ops_are_position_order_new (h : LawfulBase b pos same) (l r : B) :
    NewF.lt b l r = decide (pos l < pos r) ∧
    NewF.le b l r = decide (pos l ≤ pos r) ∧
    NewF.gt b l r = decide (pos l > pos r) ∧
    NewF.ge b l r = decide (pos l ≥ pos r) ∧
    (same l r → NewF.eq b l r = decide (pos l = pos r)) ∧
    (same l r → NewF.ne b l r = decide (pos l ≠ pos r)) := by
  have eqv : same l r → b.eq l r = decide (pos l = pos r) := by
    intro hs
    have := h.eq_iff l r hs
    cases hq : b.eq l r <;> simp [hq] at this ⊢ <;> exact this
  refine ⟨?_, ?_, ?_, ?_, ?_, ?_⟩
  · simp only [NewF.lt, NewF.diff, h.sub_pos]; exact decide_eq_decide.mpr (by omega)
  · simp only [NewF.le, NewF.diff, h.sub_pos]; exact decide_eq_decide.mpr (by omega)
  · simp only [NewF.gt, NewF.diff, h.sub_pos]; exact decide_eq_decide.mpr (by omega)
  · simp only [NewF.ge, NewF.diff, h.sub_pos]; exact decide_eq_decide.mpr (by omega)
  · intro hs; simp only [NewF.eq, eqv hs]
  · intro hs; simp only [NewF.ne, NewF.eq, eqv hs, ← decide_not]

theorem strict_order_new (h : LawfulBase b pos same) (x y z : B) :
    NewF.lt b x x = false ∧
    (NewF.lt b x y = true → NewF.lt b y x = false) ∧
    (NewF.lt b x y = true → NewF.lt b y z = true → NewF.lt b x z = true) ∧
    (same x y → (NewF.lt b x y = true ∨ NewF.eq b x y = true ∨ NewF.gt b x y = true)) ∧
    (same x y → ¬ (NewF.lt b x y = true ∧ NewF.eq b x y = true)) ∧
    NewF.le b x y = !NewF.gt b x y ∧
    NewF.ge b x y = !NewF.lt b x y ∧
    NewF.gt b x y = NewF.lt b y x := by
  have R := fun u v => rel_ops_are_position_order_new h u v
  refine ⟨?_, ?_, ?_, ?_, ?_, ?_, ?_, ?_⟩
  · rw [(R x x).1]; simp
  · rw [(R x y).1, (R y x).1]; simp; omega
  · rw [(R x y).1, (R y z).1, (R x z).1]; simp; omega
  · intro hs; rw [(R x y).1, (R x y).2.2.2.2.1 hs, (R x y).2.2.1]; simp; omega
  · intro hs; rw [(R x y).1, (R x y).2.2.2.2.1 hs]; simp; omega
  · rw [(R x y).2.1, (R x y).2.2.1, ← decide_not]; exact decide_eq_decide.mpr (by omega)
  · rw [(R x y).2.2.2.1, (R x y).1, ← decide_not]; exact decide_eq_decide.mpr (by omega)
  · rw [(R x y).2.2.1, (R y x).1]

end newfacade

/-- std iterators, IntegralRangeIterator and DenseIterator are lawful bases: the `_new` theorems apply to
transformed ranges over std containers, over integral ranges, and to sparse ranges over dense vectors -/
theorem bases_are_lawful :
    LawfulBase stdBase It.pos (fun a b => a.cont = b.cont) ∧
    LawfulBase irBase IR.value (fun _ _ => True) ∧
    LawfulBase denseBase It.pos (fun a b => a.cont = b.cont) :=
  ⟨stdBase_lawful, irBase_lawful, denseBase_lawful⟩


-- non-vacuity: the three bases are lawful, so e.g. a transformed iterator over an integral range obeys the laws
example : NewF.lt irBase ⟨3⟩ ⟨3⟩ = false ∧ NewF.lt irBase ⟨3⟩ ⟨5⟩ = true ∧
    NewF.minus stdBase ⟨0, 4⟩ 3 = ⟨0, 1⟩ ∧ NewF.diff denseBase (NewF.plus denseBase ⟨0, 1⟩ 2) ⟨0, 1⟩ = 2 ∧
    NewF.index stdBase (fun i => (dereference [5, 6, 7] i).map (3 * · + 1)) ⟨0, 0⟩ 2 = some 22 := by decide

/-! ## Part B — the hand-written IntegralRangeIterator (repaired) and IndexedIterator -/

theorem ir_inc_dec_inverse (a : IR) :
    IR.dec (IR.inc a) = a ∧ IR.inc (IR.dec a) = a ∧ (IR.postInc a).1 = a ∧ (IR.postInc a).2 = IR.inc a ∧
    (IR.postDec a).1 = a ∧ (IR.postDec a).2 = IR.dec a := by
  cases a; simp [IR.inc, IR.dec, IR.postInc, IR.postDec]

theorem ir_advance_n_eq_n_steps (a : IR) (n : Int) :
    IR.addAssign a n = steps IR.inc IR.dec a n ∧ IR.plus a n = steps IR.inc IR.dec a n ∧
    IR.nplus n a = steps IR.inc IR.dec a n ∧
    IR.subAssign a n = steps IR.inc IR.dec a (-n) ∧ IR.minus a n = steps IR.inc IR.dec a (-n) := by
  have key := advance_eq_steps IR.inc IR.dec IR.addAssign
    (by intro i; cases i; simp [IR.addAssign])
    (by intro i m; cases i; simp [IR.addAssign, IR.inc]; omega)
    (by intro i m; cases i; simp [IR.addAssign, IR.dec]; omega) a
  refine ⟨key n, key n, key n, ?_, ?_⟩
  · rw [← key (-n)]; cases a; simp [IR.subAssign, IR.addAssign]; omega
  · rw [← key (-n)]; cases a; simp [IR.minus, IR.addAssign]; omega

theorem ir_index_eq_deref_advance (a : IR) (n : Int) : IR.index a n = IR.deref (IR.plus a n) := rfl

theorem ir_diff_consistent (a b : IR) (n : Int) :
    IR.diff (IR.plus a n) a = n ∧ IR.diff (IR.nplus n a) a = n ∧ IR.diff a (IR.minus a n) = n ∧
    IR.diff a b = a.value - b.value := by
  simp [IR.diff, IR.plus, IR.nplus, IR.minus]; omega

/-- the six comparisons of the repaired iterator are the order of the values (= positions `value - from`) -/
theorem ir_rel_ops_are_position_order (from_ : Int) (a b : IR) :
    IR.lt a b = decide (a.value - from_ < b.value - from_) ∧
    IR.le a b = decide (a.value - from_ ≤ b.value - from_) ∧
    IR.gt a b = decide (a.value - from_ > b.value - from_) ∧
    IR.ge a b = decide (a.value - from_ ≥ b.value - from_) ∧
    IR.eq a b = decide (a.value - from_ = b.value - from_) ∧
    IR.ne a b = decide (a.value - from_ ≠ b.value - from_) := by
  refine ⟨?_, ?_, ?_, ?_, ?_, ?_⟩
  · exact decide_eq_decide.mpr (by omega)
  · exact decide_eq_decide.mpr (by omega)
  · exact decide_eq_decide.mpr (by omega)
  · exact decide_eq_decide.mpr (by omega)
  · show (a.value == b.value) = _
    by_cases h : a.value = b.value
    · simp [h]
    · have : ¬ (a.value - from_ = b.value - from_) := by omega
      simp [h, this]
  · show (a.value != b.value) = _
    by_cases h : a.value = b.value
    · simp [h]
    · have : a.value - from_ ≠ b.value - from_ := by omega
      simp [h, this]

/-- `<` of the repaired iterator is a strict total order (this is what fails for the unrepaired code:
there `it < it` is `true`) -/
theorem ir_strict_order (a b c : IR) :
    IR.lt a a = false ∧ IR.gt a a = false ∧
    (IR.lt a b = true → IR.lt b a = false) ∧
    (IR.lt a b = true → IR.lt b c = true → IR.lt a c = true) ∧
    (IR.lt a b = true ∨ IR.eq a b = true ∨ IR.gt a b = true) ∧
    ¬ (IR.lt a b = true ∧ IR.eq a b = true) ∧ ¬ (IR.gt a b = true ∧ IR.eq a b = true) ∧
    IR.le a b = !IR.gt a b ∧ IR.ge a b = !IR.lt a b ∧ IR.gt a b = IR.lt b a := by
  have heq : IR.eq a b = decide (a.value = b.value) := by
    show (a.value == b.value) = _
    by_cases h : a.value = b.value <;> simp [h]
  rw [heq]
  simp only [IR.lt, IR.gt, IR.le, IR.ge, decide_eq_true_eq, decide_eq_false_iff_not]
  refine ⟨by omega, by omega, by omega, by omega, by omega, by omega, by omega, ?_, ?_, ?_⟩
  · rw [← decide_not]; exact decide_eq_decide.mpr (by omega)
  · rw [← decide_not]; exact decide_eq_decide.mpr (by omega)
  · trivial

/-- IndexedIterator: `index()` moves in lock step with the wrapped iterator, `++`/`--` are inverse,
`+=`/`-=` are `n` single steps -/
theorem indexed_tracks_position {B : Type} {b : Base B} {pos : B → Int} {same : B → B → Prop}
    (h : LawfulBase b pos same) (i : Indexed B) (n : Int) :
    (Indexed.inc b i).index - pos (Indexed.inc b i).base = i.index - pos i.base ∧
    (Indexed.dec b i).index - pos (Indexed.dec b i).base = i.index - pos i.base ∧
    (Indexed.addAssign b i n).index - pos (Indexed.addAssign b i n).base = i.index - pos i.base ∧
    (Indexed.subAssign b i n).index - pos (Indexed.subAssign b i n).base = i.index - pos i.base ∧
    Indexed.dec b (Indexed.inc b i) = i ∧ Indexed.inc b (Indexed.dec b i) = i ∧
    Indexed.addAssign b i n = steps (Indexed.inc b) (Indexed.dec b) i n ∧
    Indexed.subAssign b i n = steps (Indexed.inc b) (Indexed.dec b) i (-n) ∧
    pos (Indexed.plus b i n) = pos i.base + n ∧ pos (Indexed.minus b i n) = pos i.base - n := by
  have key := advance_eq_steps (Indexed.inc b) (Indexed.dec b) (Indexed.addAssign b)
    (by intro j; cases j; simp [Indexed.addAssign, h.add_zero])
    (by intro j m; cases j; simp [Indexed.addAssign, Indexed.inc, h.add_succ]; omega)
    (by intro j m; cases j; simp [Indexed.addAssign, Indexed.dec, h.add_pred]; omega) i
  refine ⟨?_, ?_, ?_, ?_, ?_, ?_, key n, ?_, ?_, ?_⟩
  · simp [Indexed.inc, h.pos_inc]; omega
  · simp [Indexed.dec, h.pos_dec]; omega
  · simp [Indexed.addAssign, h.pos_add]; omega
  · simp [Indexed.subAssign, h.pos_add]; omega
  · cases i; simp [Indexed.inc, Indexed.dec, h.inc_dec]
  · cases i; simp [Indexed.inc, Indexed.dec, h.dec_inc]
  · rw [← key (-n)]; cases i; simp [Indexed.subAssign, Indexed.addAssign]; omega
  · simp [Indexed.plus, h.pos_add]
  · simp [Indexed.minus, h.pos_add]; omega


-- non-vacuity (and the witness of the repaired defect: `it < it` is now false)
example : IR.lt ⟨0⟩ ⟨0⟩ = false ∧ IR.gt ⟨0⟩ ⟨0⟩ = false ∧ IR.le ⟨0⟩ ⟨0⟩ = true ∧ IR.lt ⟨-1⟩ ⟨2⟩ = true ∧
    IR.diff (IR.nplus (-3) ⟨7⟩) ⟨7⟩ = -3 ∧ IR.index ⟨250⟩ 4 = 254 := by decide
example : (Indexed.addAssign stdBase ⟨⟨0, 1⟩, 6⟩ 3).index = 9 ∧ (Indexed.subAssign stdBase ⟨⟨0, 4⟩, 9⟩ 3).index = 6 ∧
    (Indexed.plus stdBase ⟨⟨0, 1⟩, 6⟩ 3).pos = 4 := by decide

/-! ## Part C — ranges -/

/-- an integral range enumerates exactly `from, from+1, …, to-1`; `size()` is `to-from` whenever that fits
the unsigned type, `contains` is membership, `range[i]` is the `i`-th enumerated value -/
theorem integral_range_enumerates (r : IntegralRange) (h : r.lo ≤ r.hi) :
    r.enumerate = intRange r.lo r.hi ∧
    (∀ x, r.contains x = true ↔ x ∈ r.enumerate) ∧
    (r.empty = true ↔ r.enumerate = []) ∧
    (∀ bits : Nat, r.hi - r.lo < 2 ^ bits → r.size bits = r.enumerate.length) ∧
    (∀ i : Nat, i < r.enumerate.length → r.enumerate[i]? = some (r.get i)) := by
  have he : r.enumerate = intRange r.lo r.hi :=
    enumLoop_eq r.hi (r.hi - r.lo).toNat r.lo h rfl
  have hlen : (intRange r.lo r.hi).length = (r.hi - r.lo).toNat := by simp [intRange]
  refine ⟨he, ?_, ?_, ?_, ?_⟩
  · intro x; rw [he, mem_intRange]; simp [IntegralRange.contains]
  · rw [he]
    constructor
    · intro h0
      have : r.lo = r.hi := by simpa [IntegralRange.empty] using h0
      exact intRange_nil _ _ (by omega)
    · intro h0
      have : (intRange r.lo r.hi).length = 0 := by rw [h0]; rfl
      rw [hlen] at this
      have : r.lo = r.hi := by omega
      simp [IntegralRange.empty, this]
  · intro bits hb
    rw [he, hlen]
    unfold IntegralRange.size
    rw [← Int.sub_emod, Int.emod_eq_of_lt (by omega) hb]; omega
  · intro i hi
    rw [he] at hi ⊢
    rw [hlen] at hi
    simp only [intRange, List.getElem?_map, IntegralRange.get]
    rw [List.getElem?_range hi]; rfl

/-- a transformed range applies `f` to every element exactly once, in order: the produced values are
`map f` and the sequence of arguments `f` was called with is the container itself -/
theorem transformed_applies_once_in_order (f : Int → Int) (c : List Int) :
    transformedEnumerate f c = (c.map f, c) := by
  have := transformLoop_eq f c 0 c.length (Nat.le_refl _) c.length 0 (Nat.zero_le _) rfl
  simpa [transformedEnumerate] using this

theorem transformed_applies_once_in_order_integral (f : Int → Int) (r : IntegralRange) (h : r.lo ≤ r.hi) :
    transformedEnumerateIR f r = ((intRange r.lo r.hi).map f, intRange r.lo r.hi) :=
  transformLoopIR_eq f r.hi (r.hi - r.lo).toNat r.lo h rfl

/-- a sparse range pairs every entry with its index -/
theorem sparse_pairs_with_index (c : List Int) :
    sparseEnumerate c = withIndexFrom 0 c ∧
    (sparseEnumerate c).map Prod.fst = c ∧
    (sparseEnumerate c).map Prod.snd = (List.range c.length).map (fun (i : Nat) => (i : Int)) := by
  have h := sparseLoop_eq c 0 c.length (Nat.le_refl _) c.length 0 (Nat.zero_le _) rfl
  have he : sparseEnumerate c = withIndexFrom 0 c := by simpa [sparseEnumerate] using h
  have fst : ∀ (l : List Int) (p : Nat), (withIndexFrom p l).map Prod.fst = l := by
    intro l; induction l with
    | nil => intro p; rfl
    | cons x xs ih => intro p; simp [withIndexFrom, ih]
  have snd : ∀ (l : List Int) (p : Nat),
      (withIndexFrom p l).map Prod.snd = (List.range l.length).map (fun (i : Nat) => ((p + i : Nat) : Int)) := by
    intro l; induction l with
    | nil => intro p; rfl
    | cons x xs ih =>
      intro p
      simp only [withIndexFrom, List.map_cons, List.length_cons, List.range_succ_eq_map, ih (p + 1), List.map_map]
      congr 1
      apply List.map_congr_left
      intro a _; simp only [Function.comp]; congr 1; omega
  refine ⟨he, ?_, ?_⟩
  · rw [he]; exact fst c 0
  · rw [he, snd c 0]; simp

/-- range-based `for` over a whole container through a legacy facade iterator, and over an
`IteratorRange(begin+a, begin+b)`, visits exactly the intended elements in order -/
theorem range_for_visits_elements (conv : Bool) (c : List Int) (k a b : Nat) (hab : a ≤ b) (hb : b ≤ c.length) :
    legacyLoop conv c c.length ⟨k, 0⟩ ⟨k, c.length⟩ = c ∧
    iteratorRangeEnumerate c a b = (c.drop a).take (b - a) := by
  constructor
  · have := legacyLoop_eq conv c k c.length (Nat.le_refl _) c.length 0 (Nat.zero_le _) rfl
    simpa using this
  · exact legacyLoop_eq true c 0 b hb (b - a) a hab rfl


-- non-vacuity
example : IntegralRange.enumerate ⟨-2, 3⟩ = [-2, -1, 0, 1, 2] ∧ IntegralRange.size 8 ⟨-2, 3⟩ = 5 ∧
    IntegralRange.size 8 ⟨250, 255⟩ = 5 ∧ IntegralRange.enumerate ⟨4, 4⟩ = [] ∧
    IntegralRange.contains ⟨-2, 3⟩ 3 = false := by decide
example : transformedEnumerate (fun x => 3 * x + 1) [4, -1, 4] = ([13, -2, 13], [4, -1, 4]) ∧
    transformedEnumerateIR (fun x => 3 * x + 1) ⟨1, 3⟩ = ([4, 7], [1, 2]) ∧
    sparseEnumerate [7, 7, 9] = [(7, 0), (7, 1), (9, 2)] ∧
    iteratorRangeEnumerate [5, 6, 7, 8] 1 3 = [6, 7] := by decide

/-! ## Part D — hybrid helpers: compile-time containers/indices vs. run-time counterparts -/

theorem hybrid_elementAt (c : List Int) (i : Nat) : Hybrid.elementAtStatic c i = Hybrid.elementAtDynamic c i := by
  induction c generalizing i with
  | nil => simp [Hybrid.elementAtStatic, Hybrid.elementAtDynamic]
  | cons x xs ih =>
    cases i with
    | zero => simp [Hybrid.elementAtStatic, Hybrid.elementAtDynamic]
    | succ j => simp [Hybrid.elementAtStatic, Hybrid.elementAtDynamic] at ih ⊢; exact ih j

theorem hybrid_forEach {σ : Type} (c : List Int) (f : σ → Int → σ) (s : σ) :
    Hybrid.forEachStatic c f s = Hybrid.forEachDynamic c f s ∧ Hybrid.forEachDynamic c f s = c.foldl f s := by
  induction c generalizing s with
  | nil => exact ⟨rfl, rfl⟩
  | cons x xs ih =>
    rw [forEachStatic_cons]
    exact ⟨(ih (f s x)).1, (ih (f s x)).2⟩

theorem hybrid_switchCases_seq {α : Type} (cases : List Int) (v : Int) (br : Int → α) (els : α) :
    Hybrid.switchSeqStatic cases v br els = Hybrid.switchSeqDynamic cases v br els := by
  induction cases with
  | nil => rfl
  | cons t tt ih =>
    unfold Hybrid.switchSeqStatic at ih ⊢
    simp only [Hybrid.switchSeqDynamic, List.any_cons]
    by_cases h : t = v
    · subst h; simp
    · have : (t == v) = false := by simpa using h
      simp only [this, Bool.false_or, h, if_false]; exact ih

theorem hybrid_switchCases_range {α : Type} (r : IntegralRange) (h : r.lo ≤ r.hi) (v : Int) (br : Int → α) (els : α) :
    Hybrid.switchRangeStatic r v br els = Hybrid.switchRangeDynamic r v br els := by
  unfold Hybrid.switchRangeStatic Hybrid.switchRangeDynamic
  rw [← hybrid_switchCases_seq]
  unfold Hybrid.switchSeqStatic
  have hm := (integral_range_enumerates r h).2.1 v
  by_cases hc : r.contains v = true
  · have : r.enumerate.any (· == v) = true := by
      rw [List.any_eq_true]; exact ⟨v, hm.mp hc, by simp⟩
    simp [hc, this]
  · have : r.enumerate.any (· == v) = false := by
      rw [Bool.eq_false_iff]; intro hany
      rw [List.any_eq_true] at hany
      obtain ⟨x, hx, hxe⟩ := hany
      have : x = v := by simpa using hxe
      subst this
      exact hc (hm.mpr hx)
    simp [hc, this]

/-- static and dynamic overloads of the hybrid helpers agree (size, element access, loop order,
accumulation, if/else, switchCases over sequences and ranges, the integral-constant functors) -/
theorem hybrid_static_eq_dynamic (c : List Int) :
    Hybrid.sizeStatic c = Hybrid.sizeDynamic c ∧
    (∀ i, Hybrid.elementAtStatic c i = Hybrid.elementAtDynamic c i) ∧
    (∀ (σ : Type) (f : σ → Int → σ) (s : σ), Hybrid.forEachStatic c f s = Hybrid.forEachDynamic c f s) ∧
    (∀ (visit : List Int), Hybrid.forEachStatic c (fun l e => l ++ [e]) visit = visit ++ c) ∧
    (∀ init f, Hybrid.accumulateStatic c init f = Hybrid.accumulateDynamic c init f ∧
               Hybrid.accumulateDynamic c init f = c.foldl f init) ∧
    (∀ (α : Type) (cond : Bool) (x y : α), Hybrid.ifElseStatic cond x y = Hybrid.ifElseDynamic cond x y) ∧
    (∀ (α : Type) v (br : Int → α) els, Hybrid.switchSeqStatic c v br els = Hybrid.switchSeqDynamic c v br els) ∧
    (∀ f a b, Hybrid.functorStatic f a b = Hybrid.functorDynamic f a b) := by
  refine ⟨rfl, hybrid_elementAt c, fun σ f s => (hybrid_forEach c f s).1, ?_, ?_, ?_, ?_, fun _ _ _ => rfl⟩
  · intro visit
    rw [(hybrid_forEach c _ visit).1, (hybrid_forEach c _ visit).2]
    induction c generalizing visit with
    | nil => simp
    | cons x xs ih => simp [ih]
  · intro init f
    exact ⟨(hybrid_forEach c f init).1, (hybrid_forEach c f init).2⟩
  · intro α cond x y; cases cond <;> rfl
  · intro α v br els; exact hybrid_switchCases_seq c v br els


-- non-vacuity
example : Hybrid.forEachStatic [3, 1, 4] (fun (l : List Int) e => l ++ [e]) [] = [3, 1, 4] ∧
    Hybrid.accumulateStatic [3, 1, 4] 2 (fun a e => 3 * a + e) = 88 ∧
    Hybrid.accumulateDynamic [3, 1, 4] 2 (fun a e => 3 * a + e) = 88 ∧
    Hybrid.switchSeqStatic [3, 1, 4, 1, 5] 4 (fun i => 100 + i) (-1) = 104 ∧
    Hybrid.switchSeqDynamic [3, 1, 4, 1, 5] 9 (fun i => 100 + i) (-1) = -1 ∧
    Hybrid.switchRangeStatic ⟨2, 5⟩ 4 (fun i => 100 + i) (-1) = 104 ∧
    Hybrid.switchRangeDynamic ⟨2, 5⟩ 5 (fun i => 100 + i) (-1) = -1 ∧
    Hybrid.elementAtStatic [3, 1, 4] 2 = some 4 := by decide

end DV.C16
