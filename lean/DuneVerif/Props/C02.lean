import DuneVerif.Proofs.C02Closed
import DuneVerif.Proofs.C02Main
import DuneVerif.Proofs.C02Minor
import DuneVerif.Proofs.C02Top
import DuneVerif.Proofs.C02FloatLU
import DuneVerif.Proofs.C02FloatDet
import DuneVerif.Proofs.C02FloatInv
import DuneVerif.Proofs.C02Scale
import DuneVerif.Proofs.C02FloatSing
import Mathlib.LinearAlgebra.Matrix.NonsingularInverse
import Mathlib.LinearAlgebra.Matrix.ToLinearEquiv
import Mathlib.Algebra.Order.Field.Rat
import Mathlib.Tactic.NormNum
/-!
# C02 — solve / invert / determinant return the solution, inverse and determinant

Part 1 (closed forms, `rows() ≤ 3`): theorems about the definitions in `DV.C02.Gen`, which are regenerated from
`densematrix.hh` / `fmatrix.hh` on every run — over any field.

Part 2 (LU path, `rows() ≥ 4`; the model is for every `n`): theorems about the hand-written model
`DV.C02.luDecomp / solveLU / invertLU / detLU` — over any field `K`, any size `n`, both pivoting modes, and any
"absolute value" `absval : K → Q` into a linear order with `absval x = 0 ↔ x = 0` and `0 ≤ absval x`
(hence for every pivot choice such a function can induce).

Part 2b (the member functions as a whole): `DV.C02.determinant / solve / invert` of Model/C02Top.lean — the size dispatch
between Part 1 and Part 2 (sizes read off the source), both pivoting modes, the calls without the optional argument
(defaults read off the source).  These theorems are the clauses of the property as stated.

Part 3: DiagonalMatrix.

Part 4 (floating point): the same models over reals with rounded operations — backward-error bounds of Gaussian
elimination for solve / invert / determinant on the LU path and for DiagonalMatrix.

Part 5 (round three — no absolute scale): the LU path of solve / invert / determinant treats `c·A`, `d·b` exactly as it
treats `A`, `b` — the same verdict "singular" (FMatrixError / determinant 0), the same row exchanges and multipliers,
the results scaled — over exact fields for every `c ≠ 0` and under every rounding that commutes with the scaling
(binary floating point, `c` a power of two, no overflow / underflow).  This is the clause "for every nonsingular A …
over floating-point fields" seen from the side of the singularity test: a well-conditioned matrix is not declared
singular because its entries are small (or large).

Part 6 (round four — the tie): the hand-written LU / DiagonalMatrix model is the loop skeleton instantiated with the
kernels, loop headers, conditions and call flags that `tr_c02.py` re-reads from `densematrix.hh` / `diagonalmatrix.hh` on
every run (`tie_*`).

Part 7 (round four — histories and consistency): `invert_sound`; `A.invert(); A.invert();` restores A; `solve` = `invert`·b;
the pivoting mode does not change the solution; `det(B)·det(A) = 1`; DiagonalMatrix agrees with the dense matrix `diag(d)`.

"solve and determinant never modify A or b": the model is purely functional (inputs cannot change); for the real
code this clause is checked by the harness (operands compared before/after every call).
-/
namespace DV.C02
open Matrix
set_option linter.unusedTactic false
set_option linter.unreachableTactic false
set_option linter.unnecessarySeqFocus false
set_option linter.unusedSectionVars false

/-! ## Part 1: closed forms -/
section Closed
variable {K : Type} [Field K]

theorem det1_eq (A : Matrix (Fin 1) (Fin 1) K) : Gen.det1 (A 0 0) = A.det := by
  rw [det_fin_one']; simp only [Gen.det1]

theorem det2_eq (A : Matrix (Fin 2) (Fin 2) K) : Gen.det2 (A 0 0) (A 0 1) (A 1 0) (A 1 1) = A.det := by
  rw [Matrix.det_fin_two]; simp only [Gen.det2] <;> ring

theorem det3_eq (A : Matrix (Fin 3) (Fin 3) K) :
    Gen.det3 (A 0 0) (A 0 1) (A 0 2) (A 1 0) (A 1 1) (A 1 2) (A 2 0) (A 2 1) (A 2 2) = A.det := by
  rw [Matrix.det_fin_three]; simp only [Gen.det3] <;> ring

theorem solve1_correct (A : Matrix (Fin 1) (Fin 1) K) (b : Fin 1 → K) (h : A.det ≠ 0) :
    A *ᵥ v1 (Gen.solve1 (A 0 0) (b 0)) = b := by
  rw [det_fin_one'] at h
  funext i
  fin_cases i
  simp [Matrix.mulVec, dotProduct, v1]
  simp only [Gen.solve1]
  field_simp

theorem solve2_correct (A : Matrix (Fin 2) (Fin 2) K) (b : Fin 2 → K) (h : A.det ≠ 0) :
    A *ᵥ v2 (Gen.solve2 (A 0 0) (A 0 1) (A 1 0) (A 1 1) (b 0) (b 1)) = b := by
  rw [Matrix.det_fin_two] at h
  funext i
  fin_cases i <;>
    simp [Matrix.mulVec, dotProduct, Fin.sum_univ_two, v2] <;>
    simp only [Gen.solve2, div_eq_mul_inv] <;>
    generalize ht : (_ : K)⁻¹ = t <;>
    have hkey := inv_key ht h (by ring) <;>
    first
      | linear_combination (b 0) * hkey
      | linear_combination (b 1) * hkey

theorem solve3_correct (A : Matrix (Fin 3) (Fin 3) K) (b : Fin 3 → K) (h : A.det ≠ 0) :
    A *ᵥ v3 (Gen.solve3 (A 0 0) (A 0 1) (A 0 2) (A 1 0) (A 1 1) (A 1 2) (A 2 0) (A 2 1) (A 2 2)
      (b 0) (b 1) (b 2)) = b := by
  rw [Matrix.det_fin_three] at h
  funext i
  fin_cases i <;>
    simp [Matrix.mulVec, dotProduct, Fin.sum_univ_three, v3] <;>
    simp only [Gen.solve3, Gen.det3, div_eq_mul_inv] <;>
    generalize ht : (_ : K)⁻¹ = t <;>
    have hkey := inv_key ht h (by ring) <;>
    first
      | linear_combination (b 0) * hkey
      | linear_combination (b 1) * hkey
      | linear_combination (b 2) * hkey

theorem invert1_correct (A : Matrix (Fin 1) (Fin 1) K) (h : A.det ≠ 0) :
    A * m1 (Gen.invert1 (A 0 0)) = 1 ∧ m1 (Gen.invert1 (A 0 0)) * A = 1 := by
  rw [det_fin_one'] at h
  constructor <;> ext i j <;> fin_cases i <;> fin_cases j <;>
    simp [Matrix.mul_apply, m1] <;>
    simp only [Gen.invert1] <;>
    field_simp

theorem invert2_correct (A : Matrix (Fin 2) (Fin 2) K) (h : A.det ≠ 0) :
    A * m2 (Gen.invert2 (A 0 0) (A 0 1) (A 1 0) (A 1 1)) = 1 ∧
    m2 (Gen.invert2 (A 0 0) (A 0 1) (A 1 0) (A 1 1)) * A = 1 := by
  rw [Matrix.det_fin_two] at h
  constructor <;> ext i j <;> fin_cases i <;> fin_cases j <;>
    simp [Matrix.mul_apply, Fin.sum_univ_two, m2] <;>
    simp only [Gen.invert2, div_eq_mul_inv] <;>
    generalize ht : (_ : K)⁻¹ = t <;>
    have hkey := inv_key ht h (by ring) <;>
    first
      | ring1
      | linear_combination hkey

theorem invert3_correct (A : Matrix (Fin 3) (Fin 3) K) (h : A.det ≠ 0) :
    A * m3 (Gen.invert3 (A 0 0) (A 0 1) (A 0 2) (A 1 0) (A 1 1) (A 1 2) (A 2 0) (A 2 1) (A 2 2)) = 1 ∧
    m3 (Gen.invert3 (A 0 0) (A 0 1) (A 0 2) (A 1 0) (A 1 1) (A 1 2) (A 2 0) (A 2 1) (A 2 2)) * A = 1 := by
  rw [Matrix.det_fin_three] at h
  constructor <;> ext i j <;> fin_cases i <;> fin_cases j <;>
    simp [Matrix.mul_apply, Fin.sum_univ_three, m3] <;>
    simp only [Gen.invert3, div_eq_mul_inv] <;>
    generalize ht : (_ : K)⁻¹ = t <;>
    have hkey := inv_key ht h (by ring) <;>
    first
      | ring1
      | linear_combination hkey

/-- `FMatrixHelp::invertMatrix` for 1×1, 2×2, 3×3: returns the determinant and writes the inverse;
`invertMatrix_retTransposed` writes the transposed inverse. -/
theorem fmhInvert1_correct (A : Matrix (Fin 1) (Fin 1) K) (h : A.det ≠ 0) :
    (Gen.fmhInvert1 (A 0 0)).1 = A.det ∧ A * m1 (Gen.fmhInvert1 (A 0 0)).2 = 1 ∧
    (Gen.fmhInvertT1 (A 0 0)).1 = A.det ∧ A * (m1 (Gen.fmhInvertT1 (A 0 0)).2)ᵀ = 1 := by
  rw [det_fin_one'] at h ⊢
  refine ⟨by simp only [Gen.fmhInvert1], ?_, by simp only [Gen.fmhInvertT1, Gen.fmhInvert1], ?_⟩ <;>
    ext i j <;> fin_cases i <;> fin_cases j <;>
    simp [Matrix.mul_apply, m1] <;>
    simp only [Gen.fmhInvertT1, Gen.fmhInvert1] <;>
    field_simp

theorem fmhInvert2_correct (A : Matrix (Fin 2) (Fin 2) K) (h : A.det ≠ 0) :
    (Gen.fmhInvert2 (A 0 0) (A 0 1) (A 1 0) (A 1 1)).1 = A.det ∧
    A * m2 (Gen.fmhInvert2 (A 0 0) (A 0 1) (A 1 0) (A 1 1)).2 = 1 ∧
    (Gen.fmhInvertT2 (A 0 0) (A 0 1) (A 1 0) (A 1 1)).1 = A.det ∧
    A * (m2 (Gen.fmhInvertT2 (A 0 0) (A 0 1) (A 1 0) (A 1 1)).2)ᵀ = 1 := by
  rw [Matrix.det_fin_two] at h ⊢
  refine ⟨by simp only [Gen.fmhInvert2] <;> ring, ?_, by simp only [Gen.fmhInvertT2] <;> ring, ?_⟩ <;>
    ext i j <;> fin_cases i <;> fin_cases j <;>
    simp [Matrix.mul_apply, Fin.sum_univ_two, m2] <;>
    simp only [Gen.fmhInvert2, Gen.fmhInvertT2, div_eq_mul_inv] <;>
    generalize ht : (_ : K)⁻¹ = t <;>
    have hkey := inv_key ht h (by ring) <;>
    first
      | ring1
      | linear_combination hkey

theorem fmhInvert3_correct (A : Matrix (Fin 3) (Fin 3) K) (h : A.det ≠ 0) :
    (Gen.fmhInvert3 (A 0 0) (A 0 1) (A 0 2) (A 1 0) (A 1 1) (A 1 2) (A 2 0) (A 2 1) (A 2 2)).1 = A.det ∧
    A * m3 (Gen.fmhInvert3 (A 0 0) (A 0 1) (A 0 2) (A 1 0) (A 1 1) (A 1 2) (A 2 0) (A 2 1) (A 2 2)).2 = 1 ∧
    (Gen.fmhInvertT3 (A 0 0) (A 0 1) (A 0 2) (A 1 0) (A 1 1) (A 1 2) (A 2 0) (A 2 1) (A 2 2)).1 = A.det ∧
    A * (m3 (Gen.fmhInvertT3 (A 0 0) (A 0 1) (A 0 2) (A 1 0) (A 1 1) (A 1 2) (A 2 0) (A 2 1) (A 2 2)).2)ᵀ = 1 := by
  rw [Matrix.det_fin_three] at h ⊢
  refine ⟨by simp only [Gen.fmhInvert3] <;> ring, ?_, by simp only [Gen.fmhInvertT3] <;> ring, ?_⟩ <;>
    ext i j <;> fin_cases i <;> fin_cases j <;>
    simp [Matrix.mul_apply, Fin.sum_univ_three, m3] <;>
    simp only [Gen.fmhInvert3, Gen.fmhInvertT3, div_eq_mul_inv] <;>
    generalize ht : (_ : K)⁻¹ = t <;>
    have hkey := inv_key ht h (by ring) <;>
    first
      | ring1
      | linear_combination hkey

/-- non-vacuity: a concrete nonsingular 3×3 matrix (needs no special structure) -/
example : (!![2, 1, 0; 1, 3, 1; 0, 1, 4] : Matrix (Fin 3) (Fin 3) ℚ).det ≠ 0 := by
  rw [Matrix.det_fin_three]; simp; norm_num
example : (!![0, 1; 1, 0] : Matrix (Fin 2) (Fin 2) ℚ).det ≠ 0 := by
  rw [Matrix.det_fin_two]; simp

/-- round five: with `DUNE_FMatrix_WITH_CHECKING` the closed forms of `solve` (n = 1, 2, 3) and `invert` (n = 1, 2) throw
FMatrixError when the magnitude of one quantity is below `FMatrixPrecision<>::absolute_limit()`; the translator emits that
quantity (`Gen.*Checked`, with the locals as they are bound at the test) and this theorem ties it to the determinant.  The
harness does not compile that configuration, so a test of anything else (say of the reciprocal of the determinant, which
rejects well-conditioned matrices of large determinant) can only be seen here. -/
theorem tie_checked_quantity (m00 m01 m02 m10 m11 m12 m20 m21 m22 b0 b1 b2 : K) :
    Gen.solve1Checked m00 b0 = Gen.det1 m00 ∧
    Gen.solve2Checked m00 m01 m10 m11 b0 b1 = Gen.det2 m00 m01 m10 m11 ∧
    Gen.solve3Checked m00 m01 m02 m10 m11 m12 m20 m21 m22 b0 b1 b2
      = Gen.det3 m00 m01 m02 m10 m11 m12 m20 m21 m22 ∧
    Gen.invert1Checked m00 = Gen.det1 m00 ∧
    Gen.invert2Checked m00 m01 m10 m11 = Gen.det2 m00 m01 m10 m11 := by
  refine ⟨?_, ?_, ?_, ?_, ?_⟩
  · simp only [Gen.solve1Checked, Gen.det1] <;> ring
  · simp only [Gen.solve2Checked, Gen.det2] <;> ring
  · simp only [Gen.solve3Checked, Gen.det3] <;> ring
  · simp only [Gen.invert1Checked, Gen.det1] <;> ring
  · simp only [Gen.invert2Checked, Gen.det2] <;> ring

end Closed

/-! ## Part 2: the LU path (`luDecomposition` with its three functors, back substitution, inverse assembly) -/
section LU
variable {n : Nat} {K Q : Type} [Field K] [LinearOrder Q] [Zero Q]

/-- **solve is correct whenever it returns** — with and without pivoting (without pivoting it returns exactly
when the unpivoted elimination is defined, i.e. no zero pivot is met). -/
theorem solveLU_correct (piv : Bool) {absval : K → Q} (habs : AbsLike absval) (A : Mat n K) (b x : Vec n K)
    (h : solveLU piv absval A b = .ok x) : toMatrix A *ᵥ x.f = b.f := by
  unfold solveLU at h
  split at h
  · rename_i hok
    injection h with hx
    rw [← hx]
    exact solve_of_ok piv habs A b hok
  · cases h

/-- **singular ⇒ FMatrixError**, with and without pivoting -/
theorem solveLU_singular (piv : Bool) {absval : K → Q} (habs : AbsLike absval) (A : Mat n K) (b : Vec n K)
    (hdet : (toMatrix A).det = 0) : solveLU piv absval A b = .fmatrixError := by
  unfold solveLU
  split
  · rename_i hok
    obtain ⟨σ, hA, _⟩ := (lu_elim_run piv habs A b).1 hok
    exact absurd hdet (AInv_det_ne_zero hA)
  · rfl

/-- **nonsingular ⇒ solve with pivoting succeeds** (`nonsingular_succeeds`) -/
theorem solveLU_nonsingular {absval : K → Q} (habs : AbsLike absval) (A : Mat n K) (b : Vec n K)
    (hdet : (toMatrix A).det ≠ 0) : ∃ x, solveLU true absval A b = .ok x := by
  unfold solveLU
  split
  · exact ⟨_, rfl⟩
  · rename_i hok
    have hok' : (luDecomp true absval elimFunc A b).ok = false := by simpa using hok
    exact absurd ((lu_elim_run true habs A b).2 hok' rfl) hdet

/-- **`singular_reported`**: if solve with pivoting reports FMatrixError (a zero pivot column was met), the matrix
has a nontrivial kernel. -/
theorem singular_reported {absval : K → Q} (habs : AbsLike absval) (A : Mat n K) (b : Vec n K)
    (h : solveLU true absval A b = .fmatrixError) : ∃ v : Fin n → K, v ≠ 0 ∧ toMatrix A *ᵥ v = 0 := by
  apply Matrix.exists_mulVec_eq_zero_iff.mpr
  by_contra hdet
  obtain ⟨x, hx⟩ := solveLU_nonsingular habs A b hdet
  rw [hx] at h
  cases h

/-- **`detLU_eq_det`** (all n): the LU determinant with pivoting is the determinant — including the value `0`
returned for singular matrices. -/
theorem detLU_eq_det {absval : K → Q} (habs : AbsLike absval) (A : Mat n K) :
    detLU true absval A = (toMatrix A).det := by
  unfold detLU
  by_cases hok : (luDecomp true absval detFunc A (1 : K)).ok = true
  · obtain ⟨σ, hA, hs⟩ := (lu_det_run true habs A).1 hok
    rw [if_pos hok, forUp_mul_prod, hs, AInv_det hA]
  · have hok' : (luDecomp true absval detFunc A (1 : K)).ok = false := by simpa using hok
    rw [if_neg hok, (lu_det_run true habs A).2 hok' rfl]

/-- without pivoting the determinant is right whenever the unpivoted elimination is defined -/
theorem detLU_nopivot_eq_det {absval : K → Q} (habs : AbsLike absval) (A : Mat n K)
    (hok : (luDecomp false absval detFunc A (1 : K)).ok = true) :
    detLU false absval A = (toMatrix A).det := by
  unfold detLU
  obtain ⟨σ, hA, hs⟩ := (lu_det_run false habs A).1 hok
  rw [if_pos hok, forUp_mul_prod, hs, AInv_det hA]

/-- **singular ⇒ determinant 0**, with and without pivoting -/
theorem detLU_singular (piv : Bool) {absval : K → Q} (habs : AbsLike absval) (A : Mat n K)
    (hdet : (toMatrix A).det = 0) : detLU piv absval A = 0 := by
  unfold detLU
  by_cases hok : (luDecomp piv absval detFunc A (1 : K)).ok = true
  · obtain ⟨σ, hA, _⟩ := (lu_det_run piv habs A).1 hok
    exact absurd hdet (AInv_det_ne_zero hA)
  · rw [if_neg hok]

/-- **`detLU_zero_iff_singular`** -/
theorem detLU_zero_iff_singular {absval : K → Q} (habs : AbsLike absval) (A : Mat n K) :
    detLU true absval A = 0 ↔ ∃ v : Fin n → K, v ≠ 0 ∧ toMatrix A *ᵥ v = 0 := by
  rw [detLU_eq_det habs, Matrix.exists_mulVec_eq_zero_iff]

/-- **`invertLU_correct`** (all n, both pivoting modes): whenever invert returns, `A B = B A = I`. -/
theorem invertLU_correct (piv : Bool) {absval : K → Q} (habs : AbsLike absval) (A B : Mat n K)
    (h : invertLU piv absval A = .ok B) : toMatrix A * toMatrix B = 1 ∧ toMatrix B * toMatrix A = 1 := by
  unfold invertLU at h
  split at h
  · rename_i hok
    injection h with hB
    have := invert_of_ok piv habs A hok
    rw [hB] at this
    exact ⟨this, mul_eq_one_comm.mp this⟩
  · cases h

theorem invertLU_singular (piv : Bool) {absval : K → Q} (habs : AbsLike absval) (A : Mat n K)
    (hdet : (toMatrix A).det = 0) : invertLU piv absval A = .fmatrixError := by
  unfold invertLU
  split
  · rename_i hok
    obtain ⟨σ, hA, _⟩ := (lu_pivot_run piv habs A).1 hok
    exact absurd hdet (AInv_det_ne_zero hA)
  · rfl

theorem invertLU_nonsingular {absval : K → Q} (habs : AbsLike absval) (A : Mat n K)
    (hdet : (toMatrix A).det ≠ 0) : ∃ B, invertLU true absval A = .ok B := by
  unfold invertLU
  split
  · exact ⟨_, rfl⟩
  · rename_i hok
    have hok' : (luDecomp true absval pivotFunc A idPivot).ok = false := by simpa using hok
    exact absurd ((lu_pivot_run true habs A).2 hok' rfl) hdet

/-- **"without pivoting whenever the unpivoted elimination is defined"**: the unpivoted decomposition runs
through exactly when all leading principal minors of `A` are nonzero (`leadingMinor A k` = minor of order `k+1`),
and then solve / determinant / invert without pivoting are correct. -/
theorem solveLU_nopivot_iff_minors {absval : K → Q} (habs : AbsLike absval) (A : Mat n K) (b : Vec n K) :
    (∃ x, solveLU false absval A b = .ok x) ↔ ∀ k : Fin n, leadingMinor A k ≠ 0 := by
  rw [← nopivot_ok_iff_minors habs elimFunc A b]
  unfold solveLU
  constructor
  · rintro ⟨x, hx⟩
    split at hx
    · assumption
    · cases hx
  · intro hok
    rw [if_pos hok]
    exact ⟨_, rfl⟩

theorem solveLU_nopivot_correct {absval : K → Q} (habs : AbsLike absval) (A : Mat n K) (b : Vec n K)
    (hmin : ∀ k : Fin n, leadingMinor A k ≠ 0) :
    ∃ x, solveLU false absval A b = .ok x ∧ toMatrix A *ᵥ x.f = b.f := by
  obtain ⟨x, hx⟩ := (solveLU_nopivot_iff_minors habs A b).mpr hmin
  exact ⟨x, hx, solveLU_correct false habs A b x hx⟩

theorem detLU_nopivot_of_minors {absval : K → Q} (habs : AbsLike absval) (A : Mat n K)
    (hmin : ∀ k : Fin n, leadingMinor A k ≠ 0) : detLU false absval A = (toMatrix A).det :=
  detLU_nopivot_eq_det habs A ((nopivot_ok_iff_minors habs detFunc A (1 : K)).mpr hmin)

theorem invertLU_nopivot_of_minors {absval : K → Q} (habs : AbsLike absval) (A : Mat n K)
    (hmin : ∀ k : Fin n, leadingMinor A k ≠ 0) :
    ∃ B, invertLU false absval A = .ok B ∧ toMatrix A * toMatrix B = 1 ∧ toMatrix B * toMatrix A = 1 := by
  have hok := (nopivot_ok_iff_minors habs pivotFunc A idPivot).mpr hmin
  have : ∃ B, invertLU false absval A = .ok B := by
    unfold invertLU; rw [if_pos hok]; exact ⟨_, rfl⟩
  obtain ⟨B, hB⟩ := this
  exact ⟨B, hB, invertLU_correct false habs A B hB⟩

/-! non-vacuity: `|·|` on ℚ is an admissible absolute value; a concrete 4×4 matrix that needs a row swap in the
first step is nonsingular, so solve/invert with pivoting return and the theorems above apply to it. -/
theorem absLike_abs_rat : AbsLike (fun x : ℚ => |x|) := ⟨fun _ => abs_eq_zero, fun _ => abs_nonneg _⟩

def exA : Mat 4 ℚ := Mat.ofFn ![![0, 2, 0, 0], ![1, 0, 0, 0], ![0, 0, 1, 3], ![0, 0, 5, 1]]

theorem exA_det : (toMatrix exA).det ≠ 0 := by
  have : toMatrix exA = !![0, 2, 0, 0; 1, 0, 0, 0; 0, 0, 1, 3; 0, 0, 5, 1] := by
    ext i j; simp [exA]
  rw [this]
  simp [Matrix.det_succ_row_zero, Fin.sum_univ_succ, Fin.succAbove]
  norm_num

example (b : Vec 4 ℚ) : ∃ x, solveLU true (fun x : ℚ => |x|) exA b = .ok x :=
  solveLU_nonsingular absLike_abs_rat exA b exA_det
example : ∃ B, invertLU true (fun x : ℚ => |x|) exA = .ok B :=
  invertLU_nonsingular absLike_abs_rat exA exA_det
example : detLU true (fun x : ℚ => |x|) exA ≠ 0 := by
  rw [detLU_eq_det absLike_abs_rat]; exact exA_det
/-- all leading principal minors of a concrete lower triangular 4×4 matrix are nonzero -/
example : ∀ k : Fin 4, leadingMinor (Mat.ofFn ![![2, 0, 0, 0], ![1, 3, 0, 0], ![4, 1, 5, 0], ![1, 1, 1, 7]] : Mat 4 ℚ) k ≠ 0 := by
  intro k
  unfold leadingMinor
  rw [det_of_isLowerTriangular]
  · apply Finset.prod_ne_zero_iff.mpr
    intro j _
    obtain ⟨j, hj⟩ := j
    fin_cases j <;> simp [toSquareBlockProp_def]
  · intro r c hrc
    have hlt : r < c := by simpa using hrc
    obtain ⟨r, hr⟩ := r
    obtain ⟨c, hc⟩ := c
    have hlt' : r < c := hlt
    fin_cases r <;> fin_cases c <;> simp_all [toSquareBlockProp_def]
/-- a singular 4×4 example for the error clauses -/
example : (toMatrix (Mat.ofFn (fun _ _ => (1 : ℚ)) : Mat 4 ℚ)).det = 0 := by
  apply Matrix.det_zero_of_row_eq (i := 0) (j := 1) (by decide)
  funext c; simp

end LU

/-! ## Part 2b: the member functions as a whole — size dispatch (closed forms for `rows() ∈ {1,2,3}`, LU otherwise),
both pivoting modes, default arguments.  These are the clauses of the property as stated, for **every** `n`
(`n = 0` takes the LU path with empty loops, as in the code). -/
section Whole
variable {K Q : Type} [Field K] [LinearOrder Q] [Zero Q]

/-- the size tests found in the source are exactly the ones `DV.C02.determinant / solve / invert` dispatch on -/
theorem dispatch_sizes : Gen.closedFormSizes = [1, 2, 3] := by decide

/-- the default arguments found in the source: pivoting is on when the caller says nothing -/
theorem default_pivoting : Gen.solveDefaultPivoting = true ∧ Gen.invertDefaultPivoting = true ∧
    Gen.determinantDefaultPivoting = true := by decide

/-- **determinant returns det A** (pivoting on; every n; singular matrices included: the value is then 0) -/
theorem determinant_spec {absval : K → Q} (habs : AbsLike absval) :
    ∀ {n : Nat} (A : Mat n K), determinant true absval A = (toMatrix A).det
  | 0, A => detLU_eq_det habs A
  | 1, A => det1_eq (toMatrix A)
  | 2, A => det2_eq (toMatrix A)
  | 3, A => det3_eq (toMatrix A)
  | _ + 4, A => detLU_eq_det habs A

/-- **… and without pivoting whenever the unpivoted elimination is defined** (for n ≤ 3 unconditionally) -/
theorem determinant_nopivot_spec {absval : K → Q} (habs : AbsLike absval) :
    ∀ {n : Nat} (A : Mat n K), (∀ k : Fin n, leadingMinor A k ≠ 0) →
      determinant false absval A = (toMatrix A).det
  | 0, A, h => detLU_nopivot_of_minors habs A h
  | 1, A, _ => det1_eq (toMatrix A)
  | 2, A, _ => det2_eq (toMatrix A)
  | 3, A, _ => det3_eq (toMatrix A)
  | _ + 4, A, h => detLU_nopivot_of_minors habs A h

/-- **singular ⇒ determinant returns zero** — every n, with and without pivoting -/
theorem determinant_singular (piv : Bool) {absval : K → Q} (habs : AbsLike absval) :
    ∀ {n : Nat} (A : Mat n K), (toMatrix A).det = 0 → determinant piv absval A = 0
  | 0, A, h => detLU_singular piv habs A h
  | 1, A, h => (det1_eq (toMatrix A)).trans h
  | 2, A, h => (det2_eq (toMatrix A)).trans h
  | 3, A, h => (det3_eq (toMatrix A)).trans h
  | _ + 4, A, h => detLU_singular piv habs A h

/-- **nonsingular ⇒ solve (pivoting on) returns x with A x = b** — every n -/
theorem solve_spec {absval : K → Q} (habs : AbsLike absval) :
    ∀ {n : Nat} (A : Mat n K) (b : Vec n K), (toMatrix A).det ≠ 0 →
      ∃ x, solve true absval A b = .ok x ∧ toMatrix A *ᵥ x.f = b.f
  | 0, A, b, h => by
    obtain ⟨x, hx⟩ := solveLU_nonsingular habs A b h
    exact ⟨x, hx, solveLU_correct true habs A b x hx⟩
  | 1, A, b, h => ⟨_, rfl, by rw [vecOf1_f]; exact solve1_correct (toMatrix A) b.f h⟩
  | 2, A, b, h => ⟨_, rfl, by rw [vecOf2_f]; exact solve2_correct (toMatrix A) b.f h⟩
  | 3, A, b, h => ⟨_, rfl, by rw [vecOf3_f]; exact solve3_correct (toMatrix A) b.f h⟩
  | _ + 4, A, b, h => by
    obtain ⟨x, hx⟩ := solveLU_nonsingular habs A b h
    exact ⟨x, hx, solveLU_correct true habs A b x hx⟩

/-- **… and without pivoting whenever the unpivoted elimination is defined** -/
theorem solve_nopivot_spec {absval : K → Q} (habs : AbsLike absval) :
    ∀ {n : Nat} (A : Mat n K) (b : Vec n K), (∀ k : Fin n, leadingMinor A k ≠ 0) →
      ∃ x, solve false absval A b = .ok x ∧ toMatrix A *ᵥ x.f = b.f
  | 0, A, b, h => solveLU_nopivot_correct habs A b h
  | 1, A, b, h => ⟨_, rfl, by rw [vecOf1_f]; exact solve1_correct (toMatrix A) b.f (det_ne_zero_of_minors habs A h)⟩
  | 2, A, b, h => ⟨_, rfl, by rw [vecOf2_f]; exact solve2_correct (toMatrix A) b.f (det_ne_zero_of_minors habs A h)⟩
  | 3, A, b, h => ⟨_, rfl, by rw [vecOf3_f]; exact solve3_correct (toMatrix A) b.f (det_ne_zero_of_minors habs A h)⟩
  | _ + 4, A, b, h => solveLU_nopivot_correct habs A b h

/-- whatever solve returns for a nonsingular matrix is the solution — both pivoting modes, every n
(on the LU path the hypothesis `det ≠ 0` is not even needed: `solveLU_correct`) -/
theorem solve_sound (piv : Bool) {absval : K → Q} (habs : AbsLike absval) :
    ∀ {n : Nat} (A : Mat n K) (b x : Vec n K), (toMatrix A).det ≠ 0 → solve piv absval A b = .ok x →
      toMatrix A *ᵥ x.f = b.f
  | 0, A, b, x, _, hx => solveLU_correct piv habs A b x hx
  | 1, A, b, x, h, hx => by
    injection hx with hx; rw [← hx, vecOf1_f]; exact solve1_correct (toMatrix A) b.f h
  | 2, A, b, x, h, hx => by
    injection hx with hx; rw [← hx, vecOf2_f]; exact solve2_correct (toMatrix A) b.f h
  | 3, A, b, x, h, hx => by
    injection hx with hx; rw [← hx, vecOf3_f]; exact solve3_correct (toMatrix A) b.f h
  | _ + 4, A, b, x, _, hx => solveLU_correct piv habs A b x hx

/-- **singular A of size four or more ⇒ solve reports FMatrixError** — with and without pivoting -/
theorem solve_singular_ge4 (piv : Bool) {absval : K → Q} (habs : AbsLike absval) {n : Nat} (A : Mat (n + 4) K)
    (b : Vec (n + 4) K) (hdet : (toMatrix A).det = 0) : solve piv absval A b = .fmatrixError :=
  solveLU_singular piv habs A b hdet

/-- **nonsingular ⇒ invert (pivoting on) leaves B with A B = B A = I** — every n -/
theorem invert_spec {absval : K → Q} (habs : AbsLike absval) :
    ∀ {n : Nat} (A : Mat n K), (toMatrix A).det ≠ 0 →
      ∃ B, invert true absval A = .ok B ∧ toMatrix A * toMatrix B = 1 ∧ toMatrix B * toMatrix A = 1
  | 0, A, h => by
    obtain ⟨B, hB⟩ := invertLU_nonsingular habs A h
    exact ⟨B, hB, invertLU_correct true habs A B hB⟩
  | 1, A, h => ⟨_, rfl, by rw [toMatrix_matOf1]; exact invert1_correct (toMatrix A) h⟩
  | 2, A, h => ⟨_, rfl, by rw [toMatrix_matOf2]; exact invert2_correct (toMatrix A) h⟩
  | 3, A, h => ⟨_, rfl, by rw [toMatrix_matOf3]; exact invert3_correct (toMatrix A) h⟩
  | _ + 4, A, h => by
    obtain ⟨B, hB⟩ := invertLU_nonsingular habs A h
    exact ⟨B, hB, invertLU_correct true habs A B hB⟩

/-- **… and without pivoting whenever the unpivoted elimination is defined** -/
theorem invert_nopivot_spec {absval : K → Q} (habs : AbsLike absval) :
    ∀ {n : Nat} (A : Mat n K), (∀ k : Fin n, leadingMinor A k ≠ 0) →
      ∃ B, invert false absval A = .ok B ∧ toMatrix A * toMatrix B = 1 ∧ toMatrix B * toMatrix A = 1
  | 0, A, h => invertLU_nopivot_of_minors habs A h
  | 1, A, h => ⟨_, rfl, by
      rw [toMatrix_matOf1]; exact invert1_correct (toMatrix A) (det_ne_zero_of_minors habs A h)⟩
  | 2, A, h => ⟨_, rfl, by
      rw [toMatrix_matOf2]; exact invert2_correct (toMatrix A) (det_ne_zero_of_minors habs A h)⟩
  | 3, A, h => ⟨_, rfl, by
      rw [toMatrix_matOf3]; exact invert3_correct (toMatrix A) (det_ne_zero_of_minors habs A h)⟩
  | _ + 4, A, h => invertLU_nopivot_of_minors habs A h

/-- **singular A of size four or more ⇒ invert reports FMatrixError** — with and without pivoting -/
theorem invert_singular_ge4 (piv : Bool) {absval : K → Q} (habs : AbsLike absval) {n : Nat} (A : Mat (n + 4) K)
    (hdet : (toMatrix A).det = 0) : invert piv absval A = .fmatrixError :=
  invertLU_singular piv habs A hdet

/-- the calls without the optional argument (`A.solve(x,b)`, `A.invert()`, `A.determinant()`) -/
theorem solveDefault_spec {absval : K → Q} (habs : AbsLike absval) {n : Nat} (A : Mat n K) (b : Vec n K)
    (hdet : (toMatrix A).det ≠ 0) : ∃ x, solveDefault absval A b = .ok x ∧ toMatrix A *ᵥ x.f = b.f :=
  solve_spec habs A b hdet

theorem invertDefault_spec {absval : K → Q} (habs : AbsLike absval) {n : Nat} (A : Mat n K)
    (hdet : (toMatrix A).det ≠ 0) :
    ∃ B, invertDefault absval A = .ok B ∧ toMatrix A * toMatrix B = 1 ∧ toMatrix B * toMatrix A = 1 :=
  invert_spec habs A hdet

theorem determinantDefault_spec {absval : K → Q} (habs : AbsLike absval) {n : Nat} (A : Mat n K) :
    determinantDefault absval A = (toMatrix A).det :=
  determinant_spec habs A

/-! non-vacuity: the 4×4 example `exA` (needs a row swap) and a 2×2 one go through the whole functions -/
example (b : Vec 4 ℚ) : ∃ x, solveDefault (fun x : ℚ => |x|) exA b = .ok x ∧ toMatrix exA *ᵥ x.f = b.f :=
  solveDefault_spec absLike_abs_rat exA b exA_det
example : ∃ B, invert true (fun x : ℚ => |x|) exA = .ok B ∧ toMatrix exA * toMatrix B = 1 ∧
    toMatrix B * toMatrix exA = 1 := invert_spec absLike_abs_rat exA exA_det
example : (toMatrix (Mat.ofFn ![![0, 1], ![1, 0]] : Mat 2 ℚ)).det ≠ 0 := by
  rw [Matrix.det_fin_two]; simp [toMatrix]
example : solve true (fun x : ℚ => |x|) (Mat.ofFn (fun _ _ => (1 : ℚ)) : Mat 4 ℚ) (Vec.ofFn fun _ => 1) =
    .fmatrixError := by
  apply solve_singular_ge4 true absLike_abs_rat (n := 0)
  apply Matrix.det_zero_of_row_eq (i := 0) (j := 1) (by decide)
  funext c; simp [toMatrix]

end Whole

/-! ## Part 3: DiagonalMatrix (non-singular clauses; `solve` divides entry-wise, there is no singularity check) -/
section Diag
variable {n : Nat} {K : Type} [Field K]

theorem solveDiag_correct (d b : Vec n K) (h : ∀ i, d.f i ≠ 0) :
    Matrix.diagonal d.f *ᵥ (solveDiag d b).f = b.f := by
  funext i
  rw [Matrix.mulVec_diagonal]
  simp only [solveDiag, Vec.ofFn_f]
  field_simp [h i]

theorem invertDiag_correct (d : Vec n K) (h : ∀ i, d.f i ≠ 0) :
    Matrix.diagonal d.f * Matrix.diagonal (invertDiag d).f = 1 ∧
    Matrix.diagonal (invertDiag d).f * Matrix.diagonal d.f = 1 := by
  constructor <;>
  · rw [Matrix.diagonal_mul_diagonal, ← Matrix.diagonal_one]
    congr 1
    funext i
    simp only [invertDiag, Vec.ofFn_f]
    field_simp [h i]

theorem detDiag_eq (d : Vec (n + 1) K) : detDiag d = (Matrix.diagonal d.f).det := by
  rw [Matrix.det_diagonal]
  unfold detDiag
  have : (fun (i : Fin (n + 1)) (det : K) => if 0 < i.1 then det * d.f i else det) =
      fun i det => det * (if 0 < i.1 then d.f i else 1) := by
    funext i det; split_ifs <;> simp
  rw [this, forUp_mul_prod, Fin.prod_univ_succ, Fin.prod_univ_succ]
  simp

example : ∀ i : Fin 3, (Vec.ofFn ![(2 : ℚ), 3, 5] : Vec 3 ℚ).f i ≠ 0 := by
  intro i; fin_cases i <;> simp

end Diag

/-! ## Part 4: floating point — the same models under the standard model of rounded arithmetic

`Flt.Rounding` (Proofs/C02Float.lean) is an abstract floating-point format: `fl : ℝ → ℝ` with
`fl x = x (1 + δ)`, `|δ| ≤ u` (no overflow / underflow); `Flt.FlR R` are the reals whose `+ - * /` round with `R.fl`.
The executable models of Model/C02.lean are generic in the scalar type, so `solveLU`, `backSubst`, `solveDiag`, … below
are literally the functions of Parts 2–3 instantiated at `FlR R`.  `Flt.gamma u k = k u / (1 - k u)` is Higham's `γ_k`;
`Flt.Lr`, `Flt.Ur` are the computed factors `L̂` (unit lower triangular, the stored multipliers) and `Û`.

Proved for every `n`, both pivoting modes, every pivot choice: the **backward-error bound of Gaussian elimination**
for the LU paths (Higham, *Accuracy and Stability of Numerical Algorithms*, Thm 9.3 + 8.5 ⇒ 9.4, with the constant
`3γ_{n+1} + γ_{n+1}²` instead of `γ_{3n}`):
* `solve`: the computed `x̂` is the exact solution of a system whose (row-permuted) matrix differs from `A` entry-wise
  by at most `(3γ+γ²) (|L̂| |Û|)`;
* `invert`: every column `b̂_c` of the computed inverse is the exact solution of such a perturbed system
  `(A + ΔA_c) b̂_c = e_c` (Higham §14.3: this bounds the right residual `A B̂ − I`; the left residual `B̂ A − I` of an
  inverse computed column by column is not small in general and nothing is claimed about it);
* `determinant`: the computed value is `det(A + ΔA)(1 + θ)`, `|ΔA| ≤ γ_n |L̂||Û|`, `|θ| ≤ γ_{2n}`;
* the triangular solve alone and the three DiagonalMatrix members.

NOT proved:
* the closed forms for `n ≤ 3` are Cramer's rule / the adjugate formula, which are forward but not backward stable
  (Higham §1.10.1): the appropriate statement is a forward bound `‖x̂ − x‖ ≤ c u cond(A) ‖x‖`; not proved;
* a bound in terms of `‖A‖` alone needs the growth factor `‖|L̂||Û|‖ ≤ n ρ_n ‖A‖` of partial pivoting
  (`|l̂_ij| ≤ 1` because the pivot is the column maximum); the theorems below state the bound with `|L̂||Û|`, as
  Higham's Theorem 9.4 does;
* that IEEE binary64 / 80-bit / complex arithmetic of the C++ compiler satisfies `Flt.Rounding` with `u = 2⁻⁵³` etc.
  (true for round-to-nearest in the absence of overflow/underflow; complex multiplication and division satisfy it
  with a small multiple of `u`) is an assumption, not a theorem. -/
section Float
open Flt
variable {R : Rounding} {n : Nat} {Q : Type} [LinearOrder Q] [Zero Q]

/-- **backward error of `solve` on the LU path**.
`habs0`: the magnitude used in the pivot search vanishes on zero (true for `abs`). -/
theorem solveLU_backward_error (hn : ((n + 1 : ℕ) : ℝ) * R.u < 1) (piv : Bool) (absval : FlR R → Q)
    (habs0 : ∀ x : FlR R, x.val = 0 → absval x = 0) (A : Mat n (FlR R)) (b x : Vec n (FlR R))
    (h : solveLU piv absval A b = .ok x) :
    ∃ (σ : Equiv.Perm (Fin n)) (ΔA : Fin n → Fin n → ℝ),
      (∀ r, ∑ c, ((A.f (σ r) c).val + ΔA r c) * (x.f c).val = (b.f (σ r)).val) ∧
      ∀ r c, |ΔA r c| ≤ (3 * gamma R.u (n + 1) + gamma R.u (n + 1) ^ 2) *
        ∑ k, |Lr (luDecomp piv absval elimFunc A b).A r k| * |Ur (luDecomp piv absval elimFunc A b).A k c| :=
  solveLU_backward_error_rows hn piv absval habs0 A b x h

/-- the same for the member function as a whole when `rows() ≥ 4` -/
theorem solve_backward_error_ge4 (hn : ((n + 4 + 1 : ℕ) : ℝ) * R.u < 1) (piv : Bool) (absval : FlR R → Q)
    (habs0 : ∀ x : FlR R, x.val = 0 → absval x = 0) (A : Mat (n + 4) (FlR R)) (b x : Vec (n + 4) (FlR R))
    (h : solve piv absval A b = .ok x) :
    ∃ (σ : Equiv.Perm (Fin (n + 4))) (ΔA : Fin (n + 4) → Fin (n + 4) → ℝ),
      (∀ r, ∑ c, ((A.f (σ r) c).val + ΔA r c) * (x.f c).val = (b.f (σ r)).val) ∧
      ∀ r c, |ΔA r c| ≤ (3 * gamma R.u (n + 4 + 1) + gamma R.u (n + 4 + 1) ^ 2) *
        ∑ k, |Lr (luDecomp piv absval elimFunc A b).A r k| * |Ur (luDecomp piv absval elimFunc A b).A k c| :=
  solveLU_backward_error_rows hn piv absval habs0 A b x h

/-- the factorisation alone (Higham Thm 9.3): every entry of the row-permuted input is `Σ_k L̂_rk Û_kc (1+Θ_k)`
with `|Θ_k| ≤ γ_n`, i.e. `L̂ Û = P A + ΔA`, `|ΔA| ≤ γ_n |L̂| |Û|` -/
theorem lu_backward_error (hn : (n : ℝ) * R.u < 1) (piv : Bool) (absval : FlR R → Q)
    (habs0 : ∀ x : FlR R, x.val = 0 → absval x = 0) (A : Mat n (FlR R)) (b : Vec n (FlR R))
    (hok : (luDecomp piv absval elimFunc A b).ok = true) :
    ∃ σ : Equiv.Perm (Fin n), ∀ r c, ∃ Θ : Fin n → ℝ, (∀ k, |Θ k| ≤ gamma R.u n) ∧
      (A.f (σ r) c).val = ∑ k, Lr (luDecomp piv absval elimFunc A b).A r k *
        Ur (luDecomp piv absval elimFunc A b).A k c * (1 + Θ k) := by
  obtain ⟨σ, hM, _, _⟩ := lu_run_fl hn piv absval habs0 A b hok
  exact ⟨σ, fun r c => MatInv_rows hM r c⟩

/-- **backward error of `determinant` on the LU path**: when the decomposition runs through, the returned value is
the exact determinant of `A + ΔA` times `1 + θ` (when it does not, `detLU` returns exactly `0`, Part 2) -/
theorem detLU_backward_error (hn : ((2 * n : ℕ) : ℝ) * R.u < 1) (piv : Bool) (absval : FlR R → Q)
    (habs0 : ∀ x : FlR R, x.val = 0 → absval x = 0) (A : Mat n (FlR R))
    (hok : (luDecomp piv absval detFunc A (1 : FlR R)).ok = true) :
    ∃ (σ : Equiv.Perm (Fin n)) (ΔA : Matrix (Fin n) (Fin n) ℝ) (θ : ℝ), |θ| ≤ gamma R.u (2 * n) ∧
      (∀ r c, |ΔA (σ r) c| ≤ gamma R.u n *
        ∑ k, |Lr (luDecomp piv absval detFunc A (1 : FlR R)).A r k| *
          |Ur (luDecomp piv absval detFunc A (1 : FlR R)).A k c|) ∧
      (detLU piv absval A).val = (realMat A + ΔA).det * (1 + θ) :=
  detLU_backward_error_rows hn piv absval habs0 A hok

/-- **backward error of `invert` on the LU path**, column by column -/
theorem invertLU_backward_error (hn : ((n + 1 : ℕ) : ℝ) * R.u < 1) (piv : Bool) (absval : FlR R → Q)
    (habs0 : ∀ x : FlR R, x.val = 0 → absval x = 0) (A B : Mat n (FlR R)) (h : invertLU piv absval A = .ok B) :
    ∃ σ : Equiv.Perm (Fin n), ∀ c : Fin n, ∃ ΔA : Fin n → Fin n → ℝ,
      (∀ r, ∑ k, ((A.f (σ r) k).val + ΔA r k) * (B.f k c).val = if σ r = c then 1 else 0) ∧
      ∀ r k, |ΔA r k| ≤ (3 * gamma R.u (n + 1) + gamma R.u (n + 1) ^ 2) *
        ∑ j, |Lr (luDecomp piv absval pivotFunc A idPivot).A r j| *
          |Ur (luDecomp piv absval pivotFunc A idPivot).A j k| :=
  invertLU_backward_error_cols hn piv absval habs0 A B h

/-- the triangular solve alone (Higham Thm 8.5 for the loop order of the code): `(U + ΔU) x̂ = y`,
`|ΔU| ≤ γ_{n+1} |U|` -/
theorem backSubst_backward_error (hn : ((n + 1 : ℕ) : ℝ) * R.u < 1) (U : Mat n (FlR R)) (y : Vec n (FlR R))
    (hd : ∀ j, (U.f j j).val ≠ 0) (r : Fin n) :
    ∃ θ : Fin n → ℝ, (∀ c, |θ c| ≤ gamma R.u (n + 1)) ∧
      ∑ c, (if r ≤ c then (U.f r c).val * (1 + θ c) * ((backSubst U y).f c).val else 0) = (y.f r).val :=
  backSubst_rows hn U y hd r

/-- DiagonalMatrix::solve — backward error `γ_1` per diagonal entry -/
theorem solveDiag_backward_error (hu1 : ((1 : ℕ) : ℝ) * R.u < 1) (d b : Vec n (FlR R)) (hd : ∀ i, (d.f i).val ≠ 0)
    (i : Fin n) :
    ∃ θ : ℝ, |θ| ≤ gamma R.u 1 ∧ (d.f i).val * (1 + θ) * ((solveDiag d b).f i).val = (b.f i).val :=
  solveDiag_fl hu1 d b hd i

/-- DiagonalMatrix::invert — relative error `u` per entry -/
theorem invertDiag_error (d : Vec n (FlR R)) (i : Fin n) :
    ∃ δ : ℝ, |δ| ≤ R.u ∧ ((invertDiag d).f i).val = 1 / (d.f i).val * (1 + δ) :=
  invertDiag_fl d i

/-- DiagonalMatrix::determinant — relative error `γ_{n+1}` -/
theorem detDiag_error (hn : ((n + 1 : ℕ) : ℝ) * R.u < 1) (d : Vec (n + 1) (FlR R)) :
    ∃ θ : ℝ, |θ| ≤ gamma R.u (n + 1) ∧ (detDiag d).val = (∏ i, (d.f i).val) * (1 + θ) :=
  detDiag_fl hn d

/-- **FMatrixError under rounding means "singular up to the backward error"** (round three; the rounded analogue of
`singular_reported`).  If `luDecomposition` with pivoting reports a singular matrix — whatever functor it runs with — then
for a row permutation `σ`, the failing step `i` and the values `B` of the working matrix at that step there is a
perturbation `ΔA` with `|ΔA| ≤ γ_n |L̃||W̃|` entry-wise (`L̃ = Lview i B`: unit lower triangular, the multipliers of the
columns `< i`; `W̃ = Wview i B`: the matrix under reduction) such that `P A + ΔA = L̃ W̃` **is singular**.  So a matrix whose
distance to the singular matrices exceeds the backward error of the elimination — a well-conditioned matrix, at
whatever scale — is never rejected.  `habs0`, `hnn`: the pivot magnitude vanishes exactly on zero and is nonnegative. -/
theorem lu_singular_reported_fl {S : Type} (hn : (n : ℝ) * R.u < 1) (absval : FlR R → Q)
    (habs0 : ∀ x : FlR R, absval x = 0 ↔ x.val = 0) (hnn : ∀ x : FlR R, 0 ≤ absval x)
    (F : Func n (FlR R) S) (A : Mat n (FlR R)) (s : S)
    (hfail : (luDecomp true absval F A s).ok = false) :
    ∃ (σ : Equiv.Perm (Fin n)) (i : Fin n) (B : Mat n ℝ) (ΔA : Matrix (Fin n) (Fin n) ℝ),
      (∀ r c, |ΔA r c| ≤ gamma R.u n * ∑ k, |Lview i.1 B r k| * |Wview i.1 B k c|) ∧
      (Matrix.of fun r c => (A.f (σ r) c).val + ΔA r c) = Lview i.1 B * Wview i.1 B ∧
      (Matrix.of fun r c => (A.f (σ r) c).val + ΔA r c).det = 0 :=
  lu_fail_singular_fl hn absval habs0 hnn F A s hfail

/-- the same for the calls: `solve` (pivoting on, `rows() ≥ 4`) throws FMatrixError only for such matrices -/
theorem solve_singular_reported_fl_ge4 {m : Nat} (hn : ((m + 4 : ℕ) : ℝ) * R.u < 1) (absval : FlR R → Q)
    (habs0 : ∀ x : FlR R, absval x = 0 ↔ x.val = 0) (hnn : ∀ x : FlR R, 0 ≤ absval x)
    (A : Mat (m + 4) (FlR R)) (b : Vec (m + 4) (FlR R)) (h : solve true absval A b = .fmatrixError) :
    ∃ (σ : Equiv.Perm (Fin (m + 4))) (i : Fin (m + 4)) (B : Mat (m + 4) ℝ) (ΔA : Matrix (Fin (m + 4)) (Fin (m + 4)) ℝ),
      (∀ r c, |ΔA r c| ≤ gamma R.u (m + 4) * ∑ k, |Lview i.1 B r k| * |Wview i.1 B k c|) ∧
      (Matrix.of fun r c => (A.f (σ r) c).val + ΔA r c).det = 0 := by
  have hfail : (luDecomp true absval elimFunc A b).ok = false := by
    have h' : solveLU true absval A b = .fmatrixError := h
    unfold solveLU at h'
    by_cases hok : (luDecomp true absval elimFunc A b).ok = true
    · rw [if_pos hok] at h'; cases h'
    · simpa using hok
  obtain ⟨σ, i, B, ΔA, hb, _, hd⟩ := lu_fail_singular_fl hn absval habs0 hnn elimFunc A b hfail
  exact ⟨σ, i, B, ΔA, hb, hd⟩

/-- … and `invert` (pivoting on, `rows() ≥ 4`) -/
theorem invert_singular_reported_fl_ge4 {m : Nat} (hn : ((m + 4 : ℕ) : ℝ) * R.u < 1) (absval : FlR R → Q)
    (habs0 : ∀ x : FlR R, absval x = 0 ↔ x.val = 0) (hnn : ∀ x : FlR R, 0 ≤ absval x)
    (A : Mat (m + 4) (FlR R)) (h : invert true absval A = .fmatrixError) :
    ∃ (σ : Equiv.Perm (Fin (m + 4))) (i : Fin (m + 4)) (B : Mat (m + 4) ℝ) (ΔA : Matrix (Fin (m + 4)) (Fin (m + 4)) ℝ),
      (∀ r c, |ΔA r c| ≤ gamma R.u (m + 4) * ∑ k, |Lview i.1 B r k| * |Wview i.1 B k c|) ∧
      (Matrix.of fun r c => (A.f (σ r) c).val + ΔA r c).det = 0 := by
  have hfail : (luDecomp true absval pivotFunc A idPivot).ok = false := by
    have h' : invertLU true absval A = .fmatrixError := h
    unfold invertLU at h'
    by_cases hok : (luDecomp true absval pivotFunc A idPivot).ok = true
    · rw [if_pos hok] at h'; cases h'
    · simpa using hok
  obtain ⟨σ, i, B, ΔA, hb, _, hd⟩ := lu_fail_singular_fl hn absval habs0 hnn pivotFunc A idPivot hfail
  exact ⟨σ, i, B, ΔA, hb, hd⟩

/-- non-vacuity of the premise: the 2×2 zero matrix is rejected under rounding -/
example : solveLU true (fun y : FlR exRounding => |y.val|) (Mat.ofFn fun _ _ => (0 : FlR exRounding) : Mat 2 (FlR exRounding))
    (Vec.ofFn fun _ => (1 : FlR exRounding)) = .fmatrixError := by
  have h0 : (0 : FlR exRounding).val = 0 := rfl
  have hok : (luDecomp true (fun y : FlR exRounding => |y.val|) elimFunc
      (Mat.ofFn fun _ _ => (0 : FlR exRounding) : Mat 2 (FlR exRounding)) (Vec.ofFn fun _ => (1 : FlR exRounding))).ok = false := by
    simp [luDecomp, forUp, List.finRange, List.ofFn, luStep, pivotPhase, pivotSearch, Fin.foldr, Fin.foldr.loop, h0]
  unfold solveLU; rw [hok]; rfl
example : ∀ x : FlR exRounding, (fun y : FlR exRounding => |y.val|) x = 0 ↔ x.val = 0 := fun _ => abs_eq_zero

/-! non-vacuity: a rounding with `u = 2⁻⁵³ > 0` exists and meets the size condition for every `n ≤ 10⁶`;
`|·|` on the values is an admissible magnitude.  (Whether a given hardware arithmetic *is* such a `Rounding` is the
assumption named in the header.) -/
example : ((1000000 + 1 : ℕ) : ℝ) * exRounding.u < 1 := by
  simp only [exRounding]; norm_num
example : ∀ x : FlR exRounding, x.val = 0 → (fun y : FlR exRounding => |y.val|) x = 0 := by
  intro x hx; simp [hx]
/-- the premise `solveLU … = .ok x` holds for a concrete 2×2 system that needs a row exchange -/
noncomputable def exA2 : Mat 2 (FlR exRounding) :=
  Mat.ofFn fun i j => ⟨if i.1 = 0 then (if j.1 = 0 then 0 else 2) else (if j.1 = 0 then 1 else 0)⟩
noncomputable def exb2 : Vec 2 (FlR exRounding) := Vec.ofFn fun i => ⟨if i.1 = 0 then 2 else 3⟩
example : ∃ x, solveLU true (fun y : FlR exRounding => |y.val|) exA2 exb2 = .ok x := by
  have hok : (luDecomp true (fun y : FlR exRounding => |y.val|) elimFunc exA2 exb2).ok = true := by
    simp [luDecomp, forUp, List.finRange, List.ofFn, luStep, pivotPhase, pivotSearch, swapRows, elimLoop, exA2, exb2,
      Fin.foldr, Fin.foldr.loop, elimRow, factor, exRounding_sub, exRounding_mul, exRounding_div]
  unfold solveLU; rw [if_pos hok]; exact ⟨_, rfl⟩

end Float
/-! ## Part 5 (round three): the LU path has no absolute scale

`Scale.ScaleSys absval φ ψ χ` (Proofs/C02Scale.lean) lists the identities the loops use about a scaling `φ` of the
matrix, `ψ` of the right-hand side and `χ` of the solution; `Scale.mapMat / mapVec / mapRes` apply a map entry-wise /
to the result of a call that may report FMatrixError.  The theorems say: **FMatrixError is reported for the scaled
operands iff it is reported for the unscaled ones** (both pivoting modes, every `n`), and otherwise the result is the
scaled result.  They hold for the code as it is (pivot compared with zero exactly, pivot chosen by comparing
magnitudes within a column); a singularity test against a fixed threshold violates them. -/
section ScaleInvariance
open Scale

section GenericScalar
variable {n : Nat} {K Q : Type} [Add K] [Sub K] [Mul K] [Div K] [Neg K] [OfNat K 0] [OfNat K 1]
variable [LinearOrder Q] [Zero Q] {absval : K → Q} {φ ψ χ : K → K}

/-- **solve, LU path, any scalar type** -/
theorem solveLU_scale (H : ScaleSys absval φ ψ χ) (piv : Bool) (A : Mat n K) (b : Vec n K) :
    solveLU piv absval (mapMat φ A) (mapVec ψ b) = mapRes (mapVec χ) (solveLU piv absval A b) :=
  Scale.solveLU_scale H piv A b

/-- **invert, LU path, any scalar type** (`ι` = the inverse scaling) -/
theorem invertLU_scale {ι : K → K} (H : ScaleSys absval φ id ι) (piv : Bool) (A : Mat n K) :
    invertLU piv absval (mapMat φ A) = mapRes (mapMat ι) (invertLU piv absval A) :=
  Scale.invertLU_scale H piv A

/-- **determinant, LU path, any scalar type**: the value is scaled `n` times; in particular it is `0` (matrix declared
singular) for the scaled matrix iff it is for the unscaled one, given `φ x = 0 → x = 0` -/
theorem detLU_scale (H : ScaleSys absval φ ψ χ) (hleft : ∀ x a, φ x * a = φ (x * a)) (hzero : φ 0 = 0)
    (piv : Bool) (A : Mat n K) :
    detLU piv absval (mapMat φ A) = φ^[n] (detLU piv absval A) :=
  Scale.detLU_scale H hleft hzero piv A

/-- the verdict "singular" of `luDecomposition` itself (any functor whose state is untouched by the scaling) -/
theorem lu_singular_verdict_scale (H : ScaleSys absval φ ψ χ) (piv : Bool) (A : Mat n K) :
    (luDecomp piv absval (detFunc : Func n K K) (mapMat φ A) (1 : K)).ok =
      (luDecomp piv absval (detFunc : Func n K K) A (1 : K)).ok :=
  (luDecomp_scale H piv (detFunc : Func n K K) (fun s' s => s' = s) (fun s' s i p h => by rw [h])
    (fun B' B s' s i _ h => by
      rw [elimLoop_snd_of_elim_id detFunc (fun _ _ _ _ => rfl), elimLoop_snd_of_elim_id detFunc (fun _ _ _ _ => rfl)]
      exact h)
    (mapMat φ A) A (1 : K) (1 : K) (MatRel_map φ A) rfl).1

end GenericScalar

section ExactField
variable {K Q : Type} [Field K] [LinearOrder Q] [Zero Q]

/-- **exact fields, `rows() ≥ 4`**: `solve` of `c·A`, `d·b` (`c ≠ 0`) reports FMatrixError iff `solve` of `A`, `b` does,
and otherwise returns `(d/c)·x`.  `hlt`: the pivot magnitude orders `c·x`, `c·y` as it orders `x`, `y` (true for
`|·|` on an ordered field and for `|re| + |im|` with real `c`). -/
theorem solve_scale_exact_ge4 {absval : K → Q} (habs : AbsLike absval) {c : K} (hc : c ≠ 0) (d : K)
    (hlt : ∀ x y, absval (c * x) < absval (c * y) ↔ absval x < absval y) (piv : Bool) {m : Nat}
    (A : Mat (m + 4) K) (b : Vec (m + 4) K) :
    solve piv absval (mapMat (fun x => c * x) A) (mapVec (fun x => d * x) b) =
      mapRes (mapVec fun x => d / c * x) (solve piv absval A b) :=
  solve_scale_ge4 (scaleSys_field hc d habs.zero_iff hlt) piv A b

theorem invert_scale_exact_ge4 {absval : K → Q} (habs : AbsLike absval) {c : K} (hc : c ≠ 0)
    (hlt : ∀ x y, absval (c * x) < absval (c * y) ↔ absval x < absval y) (piv : Bool) {m : Nat}
    (A : Mat (m + 4) K) :
    invert piv absval (mapMat (fun x => c * x) A) = mapRes (mapMat fun x => c⁻¹ * x) (invert piv absval A) :=
  invert_scale_ge4 (scaleSys_field_inv hc habs.zero_iff hlt) piv A

theorem determinant_scale_exact_ge4 {absval : K → Q} (habs : AbsLike absval) {c : K} (hc : c ≠ 0)
    (hlt : ∀ x y, absval (c * x) < absval (c * y) ↔ absval x < absval y) (piv : Bool) {m : Nat}
    (A : Mat (m + 4) K) :
    determinant piv absval (mapMat (fun x => c * x) A) = c ^ (m + 4) * determinant piv absval A := by
  rw [determinant_scale_ge4 (scaleSys_field hc 1 habs.zero_iff hlt) (fun x a => by ring) (by simp) piv A,
    iterate_mul_const]

end ExactField

section RoundedArithmetic
open Flt
variable {R : Rounding} {Q : Type} [LinearOrder Q] [Zero Q]

/-- **floating point, `rows() ≥ 4`**: if the rounding commutes with the multiplications by `c ≠ 0`, `d` and `d/c`
(`fl (c·x) = c·fl x`: a binary format, powers of two, no overflow / underflow), `solve` of `c·A`, `d·b` reports
FMatrixError iff `solve` of `A`, `b` does, and otherwise returns exactly `(d/c)·x̂` -/
theorem solve_scale_fl_ge4 {absval : FlR R → Q} {c d : ℝ} (hc : c ≠ 0)
    (hflc : ∀ x, R.fl (c * x) = c * R.fl x) (hfld : ∀ x, R.fl (d * x) = d * R.fl x)
    (hfldc : ∀ x, R.fl (d / c * x) = d / c * R.fl x)
    (h0 : ∀ x, absval (scaleFl c x) = 0 ↔ absval x = 0)
    (hlt : ∀ x y, absval (scaleFl c x) < absval (scaleFl c y) ↔ absval x < absval y)
    (piv : Bool) {m : Nat} (A : Mat (m + 4) (FlR R)) (b : Vec (m + 4) (FlR R)) :
    solve piv absval (mapMat (scaleFl c) A) (mapVec (scaleFl d) b) =
      mapRes (mapVec (scaleFl (d / c))) (solve piv absval A b) :=
  solve_scale_ge4 (scaleSys_fl hc hflc hfld hfldc h0 hlt) piv A b

theorem invert_scale_fl_ge4 {absval : FlR R → Q} {c : ℝ} (hc : c ≠ 0)
    (hflc : ∀ x, R.fl (c * x) = c * R.fl x) (hflci : ∀ x, R.fl (c⁻¹ * x) = c⁻¹ * R.fl x)
    (h0 : ∀ x, absval (scaleFl c x) = 0 ↔ absval x = 0)
    (hlt : ∀ x y, absval (scaleFl c x) < absval (scaleFl c y) ↔ absval x < absval y)
    (piv : Bool) {m : Nat} (A : Mat (m + 4) (FlR R)) :
    invert piv absval (mapMat (scaleFl c) A) = mapRes (mapMat (scaleFl c⁻¹)) (invert piv absval A) :=
  invert_scale_ge4 (scaleSys_fl_inv hc hflc hflci h0 hlt) piv A

/-- the computed determinant of `c·A` is exactly `cⁿ` times the computed determinant of `A` (in particular `0`, the
verdict "singular", in the same cases) -/
theorem determinant_scale_fl_ge4 {absval : FlR R → Q} {c : ℝ} (hc : c ≠ 0)
    (hflc : ∀ x, R.fl (c * x) = c * R.fl x)
    (h0 : ∀ x, absval (scaleFl c x) = 0 ↔ absval x = 0)
    (hlt : ∀ x y, absval (scaleFl c x) < absval (scaleFl c y) ↔ absval x < absval y)
    (piv : Bool) {m : Nat} (A : Mat (m + 4) (FlR R)) :
    (determinant piv absval (mapMat (scaleFl c) A)).val = c ^ (m + 4) * (determinant piv absval A).val := by
  have h1 : ∀ x, R.fl ((1 : ℝ) * x) = 1 * R.fl x := fun x => by simp
  have h1c : ∀ x, R.fl ((1 : ℝ) / c * x) = 1 / c * R.fl x := by
    intro x
    -- fl (c⁻¹ x) = c⁻¹ fl x follows from fl (c y) = c fl y with y = c⁻¹ x
    have := hflc (1 / c * x)
    have e2 : c * (1 / c * x) = x := by field_simp
    rw [e2] at this
    rw [this]; field_simp
  rw [determinant_scale_ge4 (scaleSys_fl hc hflc h1 h1c h0 hlt) (scaleFl_mul_left hflc) (scaleFl_zero c) piv A,
    iterate_scaleFl]

/-! non-vacuity: the hypotheses are satisfiable — `|·|` is an admissible magnitude for every `c ≠ 0`, a rounding that
commutes with `c = 2⁻¹⁰⁰⁰`, `d = 2⁻⁹⁰⁰` exists, and on a concrete 4×4 rational matrix that needs a row exchange the
scaled call (`c = 1/1024`) returns a solution (so both sides of `solve_scale_exact_ge4` are `.ok _`). -/
example (c : ℝ) (hc : c ≠ 0) (x y : FlR exRounding) :
    (fun z : FlR exRounding => |z.val|) (scaleFl c x) < (fun z : FlR exRounding => |z.val|) (scaleFl c y) ↔
      (fun z : FlR exRounding => |z.val|) x < (fun z : FlR exRounding => |z.val|) y := abs_scale_lt hc x y
example (c : ℝ) (hc : c ≠ 0) (x : FlR exRounding) :
    (fun z : FlR exRounding => |z.val|) (scaleFl c x) = 0 ↔ (fun z : FlR exRounding => |z.val|) x = 0 :=
  abs_scale_zero hc x
example : ∀ x, exRounding.fl ((1 / 2 ^ 1000 : ℝ) * x) = 1 / 2 ^ 1000 * exRounding.fl x := fun _ => rfl
example : (1 / 2 ^ 1000 : ℝ) ≠ 0 := by positivity
example (x y : ℚ) : |(1 / 1024 : ℚ) * x| < |(1 / 1024 : ℚ) * y| ↔ |x| < |y| := by
  rw [abs_mul, abs_mul]; exact mul_lt_mul_iff_right₀ (by norm_num)
example (b : Vec 4 ℚ) : ∃ x, solve true (fun x : ℚ => |x|) (mapMat (fun x => (1 / 1024 : ℚ) * x) exA)
    (mapVec (fun x => (1 / 4 : ℚ) * x) b) = .ok x := by
  rw [solve_scale_exact_ge4 (m := 0) absLike_abs_rat (by norm_num) (1 / 4)
    (fun x y => by rw [abs_mul, abs_mul]; exact mul_lt_mul_iff_right₀ (by norm_num)) true exA b]
  obtain ⟨x, hx, _⟩ := solve_spec absLike_abs_rat exA b exA_det
  exact ⟨_, by rw [hx]; rfl⟩

end RoundedArithmetic
end ScaleInvariance

/-! ## Part 6 (round four): the hand-written LU / DiagonalMatrix model is tied to the source
`tr_c02.py` re-reads, on every run, the loop headers, the statement order, the branch conditions, the arguments of the
three `luDecomposition` calls and the scalar kernel of every update statement of `luDecomposition`, `Elim`, `ElimPivot`,
`ElimDet`, the LU branches of `solve` / `invert` / `determinant` and of `DiagonalMatrix::solve / invert / determinant`
(`DV.C02.Gen.lu*`, `elim*`, `backSubst*`, `det*`, `forward*`, `backward*`, `unpermute*`, `diag*`).  The `gen_*` lemmas say what
each generated kernel computes over a field; the `tie_*` theorems say that the model functions the theorems of Parts 2-5
speak about are exactly the loop skeletons instantiated with these kernels (and that the loop headers / call arguments
are the ones the model mirrors).  A changed sign, operand, index, loop bound, comparison, flag or statement order in the
source changes `Gen/C02.lean` and breaks the corresponding tie. -/
section Ties
variable {n : Nat} {K Q : Type} [Field K] [LinearOrder Q] [Zero Q]

/-! ### what each generated kernel computes (proved with `ring`: commuted / re-associated source expressions still pass) -/
theorem gen_luFactor (aki aii : K) : Gen.luFactor aki aii = aki / aii := by
  simp only [Gen.luFactor] <;> ring
theorem gen_luUpdate (akj fac aij : K) : Gen.luUpdate akj fac aij = akj - fac * aij := by
  simp only [Gen.luUpdate] <;> ring
theorem gen_elimRhsUpdate (rk fac ri : K) : Gen.elimRhsUpdate rk fac ri = rk - fac * ri := by
  simp only [Gen.elimRhsUpdate] <;> ring
theorem gen_elimDetSwap (same : Bool) (sign : K) :
    Gen.elimDetSwap same sign = sign * (if same then (1 : K) else -(1 : K)) := by
  cases same <;> simp [Gen.elimDetSwap]
theorem gen_elimDetInit : (Gen.elimDetInit : K) = 1 := by simp only [Gen.elimDetInit]
theorem gen_elimPivotSwap {α : Type} (same : Bool) (old j : α) :
    Gen.elimPivotSwap same old j = if same then old else j := by
  cases same <;> simp [Gen.elimPivotSwap]
theorem gen_backSubstStep (xi a xj : K) : Gen.backSubstStep xi a xj = xi - a * xj := by
  simp only [Gen.backSubstStep] <;> ring
theorem gen_backSubstDiv (xi a : K) : Gen.backSubstDiv xi a = xi / a := by
  simp only [Gen.backSubstDiv] <;> ring
theorem gen_detStep (det a : K) : Gen.detStep det a = det * a := by
  simp only [Gen.detStep] <;> ring
theorem gen_detMask (ok : Bool) (det : K) : Gen.detMask ok det = if ok then det else 0 := by
  cases ok <;> simp [Gen.detMask]
theorem gen_forwardStep (b a c : K) : Gen.forwardStep b a c = b - a * c := by
  simp only [Gen.forwardStep] <;> ring
theorem gen_backwardStep (b a c : K) : Gen.backwardStep b a c = b - a * c := by
  simp only [Gen.backwardStep] <;> ring
theorem gen_backwardDiv (b a : K) : Gen.backwardDiv b a = b / a := by
  simp only [Gen.backwardDiv] <;> ring
theorem gen_diagSolveEntry (d b : K) : Gen.diagSolveEntry d b = b / d := by
  simp only [Gen.diagSolveEntry] <;> ring
theorem gen_diagInvertEntry (d : K) : Gen.diagInvertEntry d = 1 / d := by
  simp only [Gen.diagInvertEntry] <;> ring
theorem gen_diagDetStep (det d : K) : Gen.diagDetStep det d = det * d := by
  simp only [Gen.diagDetStep] <;> ring

/-! ### the hand-written model is the loop skeleton below instantiated with the generated kernels -/

/-- `factor = A[k][i]/A[i][i]` -/
theorem tie_factor (A : Mat n K) (i k : Fin n) : factor A i k = Gen.luFactor (A.f k i) (A.f i i) := by
  simp only [factor, gen_luFactor]

/-- `A[k][i] = factor; for j > i: A[k][j] -= factor*A[i][j]` -/
theorem tie_elimRow (A : Mat n K) (i k : Fin n) (fac : K) :
    elimRow A i k fac = Mat.ofFn fun r c =>
      if r = k then (if c = i then fac else if i < c then Gen.luUpdate (A.f k c) fac (A.f i c) else A.f k c)
      else A.f r c := by
  simp only [elimRow, gen_luUpdate]

/-- `Elim<V>`: `operator()` -/
theorem tie_elimFunc_elim (rhs : Vec n K) (fac : K) (k i : Fin n) :
    (elimFunc : Func n K (Vec n K)).elim rhs fac k i =
      Vec.ofFn fun r => if r = k then Gen.elimRhsUpdate (rhs.f k) fac (rhs.f i) else rhs.f r := by
  simp only [elimFunc, gen_elimRhsUpdate]

/-- `ElimDet`: constructor and `swap` -/
theorem tie_detFunc_swap (sign : K) (i j : Fin n) :
    (detFunc : Func n K K).swap sign i j = Gen.elimDetSwap (decide (i = j)) sign := by
  simp only [detFunc, gen_elimDetSwap, decide_eq_true_eq]

/-- `ElimPivot`: constructor (`pivot_[i] = i`) and `swap` -/
theorem tie_pivotFunc_swap (p : Vec n (Fin n)) (i j : Fin n) :
    (pivotFunc : Func n K (Vec n (Fin n))).swap p i j =
      Vec.ofFn fun r => if r = i then Gen.elimPivotSwap (decide (i = j)) (p.f i) j else p.f r := by
  simp only [pivotFunc, gen_elimPivotSwap, decide_eq_true_eq]

theorem tie_idPivot (i : Fin n) : ((idPivot : Vec n (Fin n)).f i).1 = Gen.elimPivotInit i.1 := by
  simp [idPivot, Gen.elimPivotInit]

/-- the pivot search: whatever comparison the source uses, a candidate is only taken when it is at least as large as
the running maximum, and always when it is strictly larger (the model keeps the first maximum; which of several
equal maxima is taken does not matter for any theorem) -/
theorem tie_pivotBetter (a p : Q) :
    (Gen.luPivotBetter a p = true → p ≤ a) ∧ (p < a → Gen.luPivotBetter a p = true) := by
  unfold Gen.luPivotBetter
  constructor
  · intro h
    have h' := of_decide_eq_true h
    first | exact le_of_lt h' | exact h'
  · intro h
    first | exact decide_eq_true h | exact decide_eq_true (le_of_lt h)

/-- `pivmax = cond(mask, abs, pivmax); imax = cond(mask, k, imax)` -/
theorem tie_pivotSearch (absval : K → Q) (A : Mat n K) (i : Fin n) :
    pivotSearch absval A i = forUp n (absval (A.f i i), i) fun k st =>
      if i < k then
        (Gen.luPivmaxUpdate (decide (st.1 < absval (A.f k i))) (absval (A.f k i)) st.1,
         Gen.luImaxUpdate (decide (st.1 < absval (A.f k i))) k st.2)
      else st := by
  unfold pivotSearch
  congr 1
  funext k st
  by_cases h : i < k
  · by_cases h2 : st.1 < absval (A.f k i) <;> simp [h, h2, Gen.luPivmaxUpdate, Gen.luImaxUpdate]
  · simp [h]

/-- the singularity test `nonsingularLanes && (pivmax != 0)` is the model's `pivmax == 0 → fail` -/
theorem tie_nonsingular (p : Q) : Gen.luNonsingular true p = !(p == 0) := by
  simp [Gen.luNonsingular]

/-- back substitution -/
theorem tie_backSubst (A : Mat n K) (rhs : Vec n K) :
    backSubst A rhs = forDown n rhs fun i x =>
      Vec.ofFn fun r =>
        if r = i then
          Gen.backSubstDiv (forUp n (x.f i) fun j acc => if i < j then Gen.backSubstStep acc (A.f i j) (x.f j) else acc)
            (A.f i i)
        else x.f r := by
  simp only [backSubst, gen_backSubstStep, gen_backSubstDiv]

/-- determinant: `det = sign; for i: det *= A[i][i]; det = cond(nonsingularLanes, det, 0)` -/
theorem tie_detLU (piv : Bool) (absval : K → Q) (A : Mat n K) :
    detLU piv absval A =
      Gen.detMask (luDecomp piv absval detFunc A (Gen.elimDetInit : K)).ok
        (forUp n (luDecomp piv absval detFunc A (Gen.elimDetInit : K)).s
          fun i det => Gen.detStep det ((luDecomp piv absval detFunc A (Gen.elimDetInit : K)).A.f i i)) := by
  simp only [detLU, gen_detMask, gen_detStep, gen_elimDetInit]

/-- inverse: forward and backward sweeps -/
theorem tie_forwardL (L B : Mat n K) :
    forwardL L B = forUp n B fun i B =>
      forUp n B fun j B =>
        if j < i then Mat.ofFn fun r c => if r = i then Gen.forwardStep (B.f i c) (L.f i j) (B.f j c) else B.f r c
        else B := by
  simp only [forwardL, gen_forwardStep]

theorem tie_backwardU (U B : Mat n K) :
    backwardU U B = forDown n B fun i B =>
      Mat.ofFn fun r c =>
        if r = i then
          Gen.backwardDiv (forUp n (B.f i c) fun j acc => if i < j then Gen.backwardStep acc (U.f i j) (B.f j c) else acc)
            (U.f i i)
        else B.f r c := by
  simp only [backwardU, gen_backwardStep, gen_backwardDiv]

/-- DiagonalMatrix -/
theorem tie_solveDiag (d b : Vec n K) : solveDiag d b = Vec.ofFn fun i => Gen.diagSolveEntry (d.f i) (b.f i) := by
  simp only [solveDiag, gen_diagSolveEntry]
theorem tie_invertDiag (d : Vec n K) : invertDiag d = Vec.ofFn fun i => Gen.diagInvertEntry (d.f i) := by
  simp only [invertDiag, gen_diagInvertEntry]
theorem tie_detDiag (d : Vec (n + 1) K) :
    detDiag d = forUp (n + 1) (d.f ⟨Gen.diagDetInitIndex, by simp [Gen.diagDetInitIndex]⟩)
      fun i det => if Gen.diagDetInitIndex < i.1 then Gen.diagDetStep det (d.f i) else det := by
  simp only [detDiag, gen_diagDetStep, Gen.diagDetInitIndex]
  rfl

/-- loop headers, statement order and call arguments as the model mirrors them -/
theorem tie_lu_loops :
    Gen.luLoops = [("i", "0", "i<n", "up"), ("j", "0", "j<n", "up"),
                   ("k", "i+1", "k<n", "up"), ("j", "i+1", "j<n", "up")] ∧
    (Gen.luSearchLoop = ("k", "i+1", "k<n", "up") ∨ Gen.luSearchLoop = ("k", "i", "k<n", "up")) ∧
    Gen.luRowSwap = ["A[i][j]", "A[imax][j]"] ∧ Gen.luFuncSwapArgs = ["i", "imax"] ∧
    Gen.luFuncElimArgs = ["factor", "k", "i"] ∧ Gen.elimRhsSwap = ["(*rhs_)[i]", "(*rhs_)[j]"] ∧
    Gen.elimPivotInitLoop = [("i", "0", "i<n", "up")] :=
  ⟨rfl, by first | exact Or.inl rfl | exact Or.inr rfl, rfl, rfl, rfl, rfl, rfl⟩

theorem tie_branch_loops :
    Gen.backSubstLoops = [("i", "n-1", "i>=0", "down"), ("j", "i+1", "j<n", "up")] ∧
    Gen.detLoops = [("i", "0", "i<n", "up")] ∧
    Gen.invertInitLoops = [("i", "0", "i<n", "up")] ∧
    Gen.forwardLoops = [("i", "0", "i<n", "up"), ("j", "0", "j<i", "up"), ("k", "0", "k<n", "up")] ∧
    Gen.backwardLoops = [("i", "n-1", "i>=0", "down"), ("k", "0", "k<n", "up"), ("j", "i+1", "j<n", "up")] ∧
    Gen.unpermuteLoops = [("i", "n-1", "i>=0", "down"), ("j", "0", "j<n", "up")] ∧
    Gen.unpermuteSwap = ["(*this)[j][i]", "(*this)[j][pi]"] ∧
    Gen.diagLoops = [("i", "0", "i<n", "up"), ("i", "0", "i<n", "up"), ("i", "1", "i<n", "up")] :=
  ⟨rfl, rfl, rfl, rfl, rfl, rfl, rfl, rfl⟩

/-- the three calls of `luDecomposition`: the operand is a local copy of `*this` (so `solve` / `determinant` cannot
modify the matrix through it) and `throwEarly` is `true` for solve / invert (singular ⇒ FMatrixError) and `false` for
determinant (singular ⇒ the masked value 0).  (The third component, "the caller's `doPivoting` is passed on", is generated
but deliberately not tied: always pivoting would keep every clause of the property.) -/
theorem tie_lu_calls :
    (Gen.solveLUCall.1 = true ∧ Gen.solveLUCall.2.1 = true) ∧
    (Gen.invertLUCall.1 = true ∧ Gen.invertLUCall.2.1 = true) ∧
    (Gen.determinantLUCall.1 = true ∧ Gen.determinantLUCall.2.1 = false) :=
  ⟨⟨rfl, rfl⟩, ⟨rfl, rfl⟩, ⟨rfl, rfl⟩⟩


/-! non-vacuity: the generated kernels evaluate on concrete rationals, and the tied model functions run on the 4×4
example with a row exchange -/
example : Gen.luFactor (6 : ℚ) 3 = 2 ∧ Gen.luUpdate (5 : ℚ) 2 3 = -1 ∧ Gen.elimRhsUpdate (5 : ℚ) 2 3 = -1 ∧
    Gen.backSubstStep (7 : ℚ) 2 3 = 1 ∧ Gen.backSubstDiv (6 : ℚ) 4 = 3 / 2 ∧ Gen.detStep (2 : ℚ) 5 = 10 ∧
    Gen.forwardStep (1 : ℚ) 2 3 = -5 ∧ Gen.backwardStep (1 : ℚ) 2 3 = -5 ∧ Gen.backwardDiv (1 : ℚ) 4 = 1 / 4 ∧
    Gen.diagSolveEntry (4 : ℚ) 2 = 1 / 2 ∧ Gen.diagInvertEntry (4 : ℚ) = 1 / 4 ∧ Gen.diagDetStep (2 : ℚ) 3 = 6 := by
  simp only [gen_luFactor, gen_luUpdate, gen_elimRhsUpdate, gen_backSubstStep, gen_backSubstDiv, gen_detStep,
    gen_forwardStep, gen_backwardStep, gen_backwardDiv, gen_diagSolveEntry, gen_diagInvertEntry, gen_diagDetStep]
  norm_num
example : Gen.elimDetSwap false (1 : ℚ) = -1 ∧ Gen.elimDetSwap true (1 : ℚ) = 1 ∧
    Gen.elimPivotSwap false (0 : Fin 4) 2 = 2 ∧ Gen.detMask false (5 : ℚ) = 0 ∧ Gen.detMask true (5 : ℚ) = 5 := by
  simp [gen_elimDetSwap, gen_elimPivotSwap, gen_detMask]
example : Gen.luPivotBetter (3 : ℚ) 2 = true ∧ Gen.luPivotBetter (2 : ℚ) 3 = false ∧
    Gen.luNonsingular true (0 : ℚ) = false ∧ Gen.luNonsingular true (2 : ℚ) = true := by
  refine ⟨(tie_pivotBetter 3 2).2 (by norm_num), ?_, ?_, ?_⟩
  · cases h : Gen.luPivotBetter (2 : ℚ) 3
    · rfl
    · exact absurd ((tie_pivotBetter (2 : ℚ) 3).1 h) (by norm_num)
  · rw [tie_nonsingular]; simp
  · rw [tie_nonsingular]; simp
end Ties

/-! ## Part 7 (round four): histories and consistency between the operations
Second use of an object (`A.invert(); A.invert()` restores A), `solve` against `invert` and `determinant`, the pivoting
mode is irrelevant for the result, and DiagonalMatrix agrees with the dense matrix `diag(d)` on every path. -/
section History
variable {K Q : Type} [Field K] [LinearOrder Q] [Zero Q]

/-- whatever invert returns for a nonsingular matrix is the two-sided inverse — both pivoting modes, every n -/
theorem invert_sound (piv : Bool) {absval : K → Q} (habs : AbsLike absval) :
    ∀ {n : Nat} (A B : Mat n K), (toMatrix A).det ≠ 0 → invert piv absval A = .ok B →
      toMatrix A * toMatrix B = 1 ∧ toMatrix B * toMatrix A = 1
  | 0, A, B, _, hB => invertLU_correct piv habs A B hB
  | 1, A, B, h, hB => by
    injection hB with hB; rw [← hB, toMatrix_matOf1]; exact invert1_correct (toMatrix A) h
  | 2, A, B, h, hB => by
    injection hB with hB; rw [← hB, toMatrix_matOf2]; exact invert2_correct (toMatrix A) h
  | 3, A, B, h, hB => by
    injection hB with hB; rw [← hB, toMatrix_matOf3]; exact invert3_correct (toMatrix A) h
  | _ + 4, A, B, _, hB => invertLU_correct piv habs A B hB

/-- the result of invert is nonsingular again -/
theorem invert_det_ne_zero (piv : Bool) {absval : K → Q} (habs : AbsLike absval) {n : Nat} (A B : Mat n K)
    (hdet : (toMatrix A).det ≠ 0) (hB : invert piv absval A = .ok B) : (toMatrix B).det ≠ 0 := by
  have h := (invert_sound piv habs A B hdet hB).2
  have h1 : (toMatrix B).det * (toMatrix A).det = 1 := by rw [← Matrix.det_mul, h, Matrix.det_one]
  exact left_ne_zero_of_mul_eq_one h1

/-- **second use of the object: `A.invert(); A.invert();` restores A** — any combination of pivoting modes, every n:
the second call returns (pivoting on) and whatever it returns is A -/
theorem invert_invert (piv piv' : Bool) {absval : K → Q} (habs : AbsLike absval) {n : Nat} (A B C : Mat n K)
    (hdet : (toMatrix A).det ≠ 0) (hB : invert piv absval A = .ok B) (hC : invert piv' absval B = .ok C) :
    toMatrix C = toMatrix A := by
  have hAB := (invert_sound piv habs A B hdet hB).1
  have hBC := (invert_sound piv' habs B C (invert_det_ne_zero piv habs A B hdet hB) hC).1
  calc toMatrix C = (toMatrix A * toMatrix B) * toMatrix C := by rw [hAB, Matrix.one_mul]
    _ = toMatrix A * (toMatrix B * toMatrix C) := Matrix.mul_assoc _ _ _
    _ = toMatrix A := by rw [hBC, Matrix.mul_one]

theorem invert_invert_returns (piv : Bool) {absval : K → Q} (habs : AbsLike absval) {n : Nat} (A B : Mat n K)
    (hdet : (toMatrix A).det ≠ 0) (hB : invert piv absval A = .ok B) :
    ∃ C, invert true absval B = .ok C ∧ toMatrix C = toMatrix A := by
  obtain ⟨C, hC, _⟩ := invert_spec habs B (invert_det_ne_zero piv habs A B hdet hB)
  exact ⟨C, hC, invert_invert piv true habs A B C hdet hB hC⟩

/-- **solve and invert agree**: the solution returned by `solve` is `B·b` for the matrix `B` left by `invert` -/
theorem solve_eq_invert_mulVec (piv piv' : Bool) {absval : K → Q} (habs : AbsLike absval) {n : Nat}
    (A B : Mat n K) (b x : Vec n K) (hdet : (toMatrix A).det ≠ 0)
    (hx : solve piv absval A b = .ok x) (hB : invert piv' absval A = .ok B) :
    x.f = toMatrix B *ᵥ b.f := by
  have h1 := solve_sound piv habs A b x hdet hx
  have h2 := (invert_sound piv' habs A B hdet hB).2
  calc x.f = (1 : Matrix (Fin n) (Fin n) K) *ᵥ x.f := (Matrix.one_mulVec _).symm
    _ = (toMatrix B * toMatrix A) *ᵥ x.f := by rw [h2]
    _ = toMatrix B *ᵥ (toMatrix A *ᵥ x.f) := by rw [Matrix.mulVec_mulVec]
    _ = toMatrix B *ᵥ b.f := by rw [h1]

/-- **the result of solve does not depend on the pivoting mode** (when both calls return) -/
theorem solve_pivoting_irrelevant (piv piv' : Bool) {absval : K → Q} (habs : AbsLike absval) {n : Nat}
    (A : Mat n K) (b x y : Vec n K) (hdet : (toMatrix A).det ≠ 0)
    (hx : solve piv absval A b = .ok x) (hy : solve piv' absval A b = .ok y) : x.f = y.f := by
  obtain ⟨B, hB, _⟩ := invert_spec habs A hdet
  rw [solve_eq_invert_mulVec piv true habs A B b x hdet hx hB, solve_eq_invert_mulVec piv' true habs A B b y hdet hy hB]

/-- **determinant of the inverse** -/
theorem determinant_invert (piv : Bool) {absval : K → Q} (habs : AbsLike absval) {n : Nat} (A B : Mat n K)
    (hdet : (toMatrix A).det ≠ 0) (hB : invert piv absval A = .ok B) :
    determinant true absval B * determinant true absval A = 1 := by
  rw [determinant_spec habs, determinant_spec habs, ← Matrix.det_mul, (invert_sound piv habs A B hdet hB).2, Matrix.det_one]

/-- the dense matrix `diag(d)` -/
def diagMat {n : Nat} (d : Vec n K) : Mat n K := Mat.ofFn fun i j => if i = j then d.f i else 0

theorem toMatrix_diagMat {n : Nat} (d : Vec n K) : toMatrix (diagMat d) = Matrix.diagonal d.f := by
  ext i j
  simp [diagMat, Matrix.diagonal_apply]

/-- **DiagonalMatrix and FieldMatrix/DynamicMatrix agree**: `DiagonalMatrix::solve` returns what the dense `solve`
(either pivoting mode, closed form or LU path) returns for the matrix `diag(d)` -/
theorem solveDiag_eq_solve (piv : Bool) {absval : K → Q} (habs : AbsLike absval) {n : Nat} (d b x : Vec n K)
    (h : ∀ i, d.f i ≠ 0) (hx : solve piv absval (diagMat d) b = .ok x) : x.f = (solveDiag d b).f := by
  have hdet : (toMatrix (diagMat d)).det ≠ 0 := by
    rw [toMatrix_diagMat, Matrix.det_diagonal]; exact Finset.prod_ne_zero_iff.mpr fun i _ => h i
  obtain ⟨B, hB, _, hBA⟩ := invert_spec habs (diagMat d) hdet
  have h1 := solve_eq_invert_mulVec piv true habs (diagMat d) B b x hdet hx hB
  have h2 : toMatrix (diagMat d) *ᵥ (solveDiag d b).f = b.f := by
    rw [toMatrix_diagMat]; exact solveDiag_correct d b h
  rw [h1, ← h2, Matrix.mulVec_mulVec, hBA, Matrix.one_mulVec]

/-- … and so do `determinant` and `invert` -/
theorem detDiag_eq_determinant {absval : K → Q} (habs : AbsLike absval) {n : Nat} (d : Vec (n + 1) K) :
    detDiag d = determinant true absval (diagMat d) := by
  rw [determinant_spec habs, toMatrix_diagMat, detDiag_eq]

theorem invertDiag_eq_invert (piv : Bool) {absval : K → Q} (habs : AbsLike absval) {n : Nat} (d : Vec n K) (B : Mat n K)
    (h : ∀ i, d.f i ≠ 0) (hB : invert piv absval (diagMat d) = .ok B) :
    toMatrix B = Matrix.diagonal (invertDiag d).f := by
  have hdet : (toMatrix (diagMat d)).det ≠ 0 := by
    rw [toMatrix_diagMat, Matrix.det_diagonal]; exact Finset.prod_ne_zero_iff.mpr fun i _ => h i
  have h1 := (invert_sound piv habs (diagMat d) B hdet hB).2
  have h2 := (invertDiag_correct d h).1
  rw [← toMatrix_diagMat] at h2
  calc toMatrix B = toMatrix B * (toMatrix (diagMat d) * Matrix.diagonal (invertDiag d).f) := by rw [h2, Matrix.mul_one]
    _ = (toMatrix B * toMatrix (diagMat d)) * Matrix.diagonal (invertDiag d).f := (Matrix.mul_assoc _ _ _).symm
    _ = Matrix.diagonal (invertDiag d).f := by rw [h1, Matrix.one_mul]

/-! non-vacuity: the 4×4 example with a row exchange goes through two inversions; a nonsingular diagonal exists -/
example : ∃ B C, invert true (fun x : ℚ => |x|) exA = .ok B ∧ invert true (fun x : ℚ => |x|) B = .ok C ∧
    toMatrix C = toMatrix exA := by
  obtain ⟨B, hB, _⟩ := invert_spec absLike_abs_rat exA exA_det
  obtain ⟨C, hC, hCA⟩ := invert_invert_returns true absLike_abs_rat exA B exA_det hB
  exact ⟨B, C, hB, hC, hCA⟩
example : ∀ i : Fin 4, (Vec.ofFn ![(2 : ℚ), 3, 5, 7] : Vec 4 ℚ).f i ≠ 0 := by
  intro i; fin_cases i <;> simp
example (d b : Vec 4 ℚ) (h : ∀ i, d.f i ≠ 0) :
    ∃ x, solve true (fun x : ℚ => |x|) (diagMat d) b = .ok x ∧ x.f = (solveDiag d b).f := by
  have hdet : (toMatrix (diagMat d)).det ≠ 0 := by
    rw [toMatrix_diagMat, Matrix.det_diagonal]; exact Finset.prod_ne_zero_iff.mpr fun i _ => h i
  obtain ⟨x, hx, _⟩ := solve_spec absLike_abs_rat (diagMat d) b hdet
  exact ⟨x, hx, solveDiag_eq_solve true absLike_abs_rat d b x h hx⟩
end History

end DV.C02
