import DuneVerif.Model.C05
namespace DV.C05
end DV.C05
