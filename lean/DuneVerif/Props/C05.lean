import DuneVerif.Proofs.C05History
import DuneVerif.Proofs.C05Async
import DuneVerif.Proofs.C05Regen
/-!
# C05 — Interface + buffered communication move each value to exactly its matches

Property theorems about the model `DuneVerif/Model/C05.lean`, for **every** process count `P`, every
decomposition (`System`: per process a source and a target index set, one object or two), every choice of
`ignorePublic`, every pair of attribute sets `S`, `T` (arbitrary predicates), every payload geometry (`sz` =
`sizeof(IndexedType)`, `blk g` = `CommPolicy::getSize` of the entry with global index `g`), every gather/scatter
policy, every arrival order of the messages and every completion order reported by `MPI_Waitany`.

Standing hypotheses (`Setting.OK`):
* `WF`: every index set is in `ParallelIndexSet` order with every global index at most once (the property's
  "decomposition of global indices"; DESIGN.md section 5, C04);
* `0 < sz`;
* `SizesByGlobal`: the number of elements communicated for an index is the same on both sides of a pair (it is
  a function of the global index) — for `SizeOne` payloads `blk = fun _ => 1`.

The remote index lists are *defined* as `remoteSpec` (what C04 proves about `RemoteIndices::rebuild`).
MPI is trusted at the message level: a posted send and the matching posted receive (same pair, same size)
complete; messages land in the receive buffer before their completion is reported.
-/
namespace DV.C05

/-- everything that parameterises the communicators of one collective `build` -/
structure Setting where
  ign : Bool
  S : Nat → Bool
  T : Nat → Bool
  sys : System
  sz : Nat
  csS : Nat → Nat → Nat
  csT : Nat → Nat → Nat
  blk : Int → Nat

structure Setting.OK (s : Setting) : Prop where
  wf : WF s.sys
  sz : 0 < s.sz
  sizes : SizesByGlobal s.sys s.csS s.csT s.blk

/-- the interface of process `p` -/
def Setting.iface (s : Setting) (p : Nat) : IfMap := interfaceOf s.ign s.S s.T s.sys p
/-- the `BufferedCommunicator` of process `p` -/
def Setting.comm (s : Setting) (p : Nat) : Comm := (netOf s.ign s.S s.T s.sys s.sz s.csS s.csT).comm p
/-- the entries `p` sends to `q` / `q` receives from `p` in a forward communication, by the property's definition
    (global index, attribute on the other process, local index, own attribute), ascending global index -/
def Setting.sendL (s : Setting) (p q : Nat) : List RIdx := DV.C05.sendL s.ign s.S s.T s.sys p q
def Setting.recvL (s : Setting) (q p : Nat) : List RIdx := DV.C05.recvL s.ign s.S s.T s.sys q p

/-- roles exchanged: target index sets become sources, `T` becomes the source attribute set -/
def Setting.swap (s : Setting) : Setting :=
  { s with S := s.T, T := s.S, sys := s.sys.swap, csS := s.csT, csT := s.csS }

theorem Setting.OK.swap {s : Setting} (h : s.OK) : s.swap.OK :=
  ⟨swap_wf h.wf, h.sz, swap_sizes h.sizes⟩

theorem Setting.OK.good {s : Setting} (h : s.OK) : (netOf s.ign s.S s.T s.sys s.sz s.csS s.csT).Good :=
  netOf_good h.wf h.sz h.sizes

/-! ## 1. The interface -/

/-- **interface_spec.**  The send list of `p` for `q` consists of exactly the local indices of the own published
    source entries whose attribute is in `S` and whose global index has a published target entry on `q` with
    attribute in `T`; the receive list of exactly those target entries with attribute in `T` that have a source
    entry on `q` with attribute in `S`; both in ascending global index order, each global index once.  (The process
    itself is a neighbour only with two index sets.) -/
theorem interface_spec (s : Setting) (hwf : WF s.sys) (p q : Nat) :
    ((s.iface p).get q).1.idx = (s.sendL p q).map (·.l) ∧
    ((s.iface p).get q).2.idx = (s.recvL p q).map (·.l) ∧
    (∀ x, x ∈ s.sendL p q ↔ admits s.sys p q ∧
        ∃ a ∈ published s.ign (s.sys.rank p).src, ∃ b ∈ published s.ign (s.sys.rank q).tgtSet,
          b.g = a.g ∧ s.S a.a = true ∧ s.T b.a = true ∧ x = ⟨a.g, b.a, a.l, a.a⟩) ∧
    (∀ x, x ∈ s.recvL p q ↔ admits s.sys p q ∧
        ∃ a ∈ published s.ign (s.sys.rank p).tgtSet, ∃ b ∈ published s.ign (s.sys.rank q).src,
          b.g = a.g ∧ s.T a.a = true ∧ s.S b.a = true ∧ x = ⟨a.g, b.a, a.l, a.a⟩) ∧
    ((s.sendL p q).map (·.g)).Pairwise (· < ·) ∧ ((s.recvL p q).map (·.g)).Pairwise (· < ·) := by
  have hget := get_interfaceOf s.ign s.S s.T s.sys p q
  refine ⟨?_, ?_, ?_, ?_, ?_, ?_⟩
  · simp only [Setting.iface, Setting.sendL, sendL, hget]
    by_cases ha : admits s.sys p q <;> simp [ha, infoOf_eq, sendEntries, Info.empty]
  · simp only [Setting.iface, Setting.recvL, recvL, hget]
    by_cases ha : admits s.sys p q <;> simp [ha, infoOf_eq, recvEntries, Info.empty]
  · intro x
    simp only [Setting.sendL, sendL]
    by_cases ha : admits s.sys p q
    · simp only [ha, if_true, true_and, sendEntries, sendSpec, List.mem_filter,
        mem_joinSpec ((hwf.tgt q).published s.ign)]
      constructor
      · rintro ⟨⟨a, ha', b, hb, hg, rfl⟩, hp⟩
        refine ⟨a, ha', b, hb, hg, ?_, ?_, rfl⟩
        · simp only [passes, if_true] at hp
          cases hT : s.T b.a <;> simp [hT] at hp ⊢; exact hp
        · simp only [passes, if_true] at hp
          cases hT : s.T b.a <;> simp [hT] at hp ⊢
      · rintro ⟨a, ha', b, hb, hg, hS, hT, rfl⟩
        exact ⟨⟨a, ha', b, hb, hg, rfl⟩, by simp [passes, hS, hT]⟩
    · simp [ha]
  · intro x
    simp only [Setting.recvL, recvL]
    by_cases ha : admits s.sys p q
    · simp only [ha, if_true, true_and, recvEntries, recvSpec, List.mem_filter,
        mem_joinSpec ((hwf.src q).published s.ign)]
      constructor
      · rintro ⟨⟨a, ha', b, hb, hg, rfl⟩, hp⟩
        refine ⟨a, ha', b, hb, hg, ?_, ?_, rfl⟩
        · simp only [passes, Bool.false_eq_true, if_false] at hp
          cases hS : s.S b.a <;> simp [hS] at hp ⊢; exact hp
        · simp only [passes, Bool.false_eq_true, if_false] at hp
          cases hS : s.S b.a <;> simp [hS] at hp ⊢
      · rintro ⟨a, ha', b, hb, hg, hT, hS, rfl⟩
        exact ⟨⟨a, ha', b, hb, hg, rfl⟩, by simp [passes, hS, hT]⟩
    · simp [ha]
  · simp only [Setting.sendL, sendL]
    by_cases ha : admits s.sys p q
    · simp only [ha, if_true]; exact joinSpec_globals_sorted ((hwf.src p).published s.ign) _ _
    · simp [ha]
  · simp only [Setting.recvL, recvL]
    by_cases ha : admits s.sys p q
    · simp only [ha, if_true]; exact joinSpec_globals_sorted ((hwf.tgt p).published s.ign) _ _
    · simp [ha]

/-- the reserved sizes are exactly filled: the `assert(size_<maxSize_)` of `InterfaceInformation::add` never fires
    and no reserved slot stays unused -/
theorem add_within_reserved (send : Bool) (S T : Nat → Bool) (l : List RIdx) :
    (infoOf send S T l).idx.length = (infoOf send S T l).maxSize := by
  simp [infoOf_eq]

/-- **interface_neighbours.**  After `strip`, `q` is a key of `p`'s interface map iff something is sent to or
    received from `q`; the keys ascend strictly. -/
theorem interface_neighbours (s : Setting) (p q : Nat) :
    (q ∈ (s.iface p).map (·.1) ↔ (s.sendL p q ≠ [] ∨ s.recvL p q ≠ [])) ∧
    ((s.iface p).map (·.1)).Pairwise (· < ·) := by
  refine ⟨?_, keys_interfaceOf_sorted _ _ _ _ _⟩
  simp only [Setting.iface, mem_keys_interfaceOf, Setting.sendL, Setting.recvL, sendL, recvL]
  by_cases ha : admits s.sys p q
  · simp only [ha, if_true, true_and, infoOf_eq, Info.size, List.length_map, sendEntries, recvEntries]
    constructor
    · intro hne
      by_cases h1 : (sendSpec s.ign s.sys p q).filter (passes true s.S s.T) = []
      · right; intro h2; apply hne; simp [h1, h2]
      · left; exact h1
    · rintro (h1 | h1) h2
      · exact h1 (List.eq_nil_of_length_eq_zero h2.1)
      · exact h1 (List.eq_nil_of_length_eq_zero h2.2)
  · simp [ha]

/-- **interface_mirror.**  The `k`-th entry `p` sends to `q` and the `k`-th entry `q` receives from `p` denote the
    same global index (and the lists have the same length). -/
theorem interface_mirror (s : Setting) (hwf : WF s.sys) {p q : Nat} (hp : p < s.sys.P) (hq : q < s.sys.P) :
    (s.sendL p q).map (·.g) = (s.recvL q p).map (·.g) ∧
    ((s.iface p).get q).1.idx.length = ((s.iface q).get p).2.idx.length := by
  have hm := L_mirror (ign := s.ign) (S := s.S) (T := s.T) hwf hp hq
  refine ⟨hm, ?_⟩
  rw [(interface_spec s hwf p q).1, (interface_spec s hwf q p).2.1, List.length_map, List.length_map]
  have := congrArg List.length hm
  simpa [Setting.sendL, Setting.recvL] using this

/-- `Selection`: the local indices of the entries with attribute in the set, in index set order -/
theorem selection_spec (S : Nat → Bool) (set : List Entry) (l : Nat) :
    l ∈ selection S set ↔ ∃ e ∈ set, S e.a = true ∧ e.l = l := by
  simp [selection, List.mem_map, List.mem_filter, and_assoc]

/-! ## 2. Message layout -/

/-- **slice_layout_disjoint_cover** (send side).  The message for `q` is the slice of the gathered send buffer that
    holds exactly the values gathered for `q`'s send list in interface order, and the send buffer is the
    concatenation of these messages over the neighbours in rank order: the slices are disjoint and cover the buffer. -/
theorem slice_layout_disjoint_cover (s : Setting) (h : s.OK) {Val} (gat : Nat → Nat → Val) (p : Nat) :
    (∀ q, (s.comm p).msgTo true ((s.comm p).sendBuf true gat) q =
        (slotsOf s.blk (s.sendL p q)).map fun sl => gat sl.1 sl.2) ∧
    (s.comm p).sendBuf true gat =
      ((s.iface p).map (·.1)).flatMap fun q => (s.comm p).msgTo true ((s.comm p).sendBuf true gat) q := by
  have hg := h.good
  constructor
  · intro q
    rw [Setting.comm, Net.msgTo_eq _ hg, sendSlots_eq h.wf h.sizes]; rfl
  · have hmsg : ∀ q, (s.comm p).msgTo true ((s.comm p).sendBuf true gat) q =
        ((netOf s.ign s.S s.T s.sys s.sz s.csS s.csT).sendSlots p q).map fun sl => gat sl.1 sl.2 :=
      fun q => Net.msgTo_eq _ hg gat p q
    simp only [hmsg, List.flatMap_map]
    simp only [Setting.comm, Net.comm, buildComm, Comm.sendBuf, Comm.csSend, if_true, gatherBuf, sendSide,
      Setting.iface, Net.sendSlots, netOf]
    apply flatMap_congr_mem
    intro e he
    have hk : Keys (interfaceOf s.ign s.S s.T s.sys p) := keys_interfaceOf_sorted _ _ _ _ _
    rw [get_of_find_some ((mem_iff_find _ hk e).1 he)]

/-- **slice_layout_disjoint_cover** (receive side): the regions into which the receives of two different
    neighbours are posted do not overlap and lie inside the receive buffer. -/
theorem recv_regions_disjoint (s : Setting) (q : Nat) {a b : Nat} {ma mb} (hab : a < b)
    (ha : (s.comm q).msg a = some ma) (hb : (s.comm q).msg b = some mb) :
    ma.2.start + ma.2.size / s.sz ≤ mb.2.start ∧ mb.2.start + mb.2.size / s.sz ≤ (s.comm q).recvElems true ∧
    ma.1.start + ma.1.size / s.sz ≤ mb.1.start ∧ mb.1.start + mb.1.size / s.sz ≤ (s.comm q).sendElems true := by
  have hk : ∀ p, Keys ((netOf s.ign s.S s.T s.sys s.sz s.csS s.csT).ifs p) :=
    fun p => keys_interfaceOf_sorted _ _ _ _ _
  simp only [Setting.comm] at ha hb ⊢
  rw [Net.msg_eq _ hk] at ha hb
  cases hfa : ((netOf s.ign s.S s.T s.sys s.sz s.csS s.csT).ifs q).find? (fun e => e.1 == a) with
  | none => simp [hfa] at ha
  | some ea =>
    cases hfb : ((netOf s.ign s.S s.T s.sys s.sz s.csS s.csT).ifs q).find? (fun e => e.1 == b) with
    | none => simp [hfb] at hb
    | some eb =>
      simp only [hfa, hfb, Option.bind_some] at ha hb
      split at ha
      · split at hb
        · cases ha; cases hb
          simp only
          by_cases hz : s.sz = 0
          · simp only [netOf, hz, Nat.mul_zero, Nat.div_zero, Nat.add_zero]
            refine ⟨?_, ?_, ?_, ?_⟩
            · have := pre_mono (fun e => sizeCalc (s.csT q) e.2.2) _ (hk q) hab hfa ⟨eb, hfb⟩; simp only [netOf] at this; omega
            · have := pre_le_total (fun e => sizeCalc (s.csT q) e.2.2) _ hfb
              simp only [Comm.recvElems, Comm.sendElems, Net.comm, buildComm, netOf, Bool.not_true, Bool.false_eq_true,
                if_false] at this ⊢; omega
            · have := pre_mono (fun e => sizeCalc (s.csS q) e.2.1) _ (hk q) hab hfa ⟨eb, hfb⟩; simp only [netOf] at this; omega
            · have := pre_le_total (fun e => sizeCalc (s.csS q) e.2.1) _ hfb
              simp only [Comm.sendElems, Net.comm, buildComm, netOf, if_true] at this ⊢; omega
          · have hpos : 0 < s.sz := Nat.pos_of_ne_zero hz
            simp only [netOf, Nat.mul_div_cancel _ hpos]
            refine ⟨?_, ?_, ?_, ?_⟩
            · have := pre_mono (fun e => sizeCalc (s.csT q) e.2.2) _ (hk q) hab hfa ⟨eb, hfb⟩; simpa only [netOf] using this
            · have := pre_le_total (fun e => sizeCalc (s.csT q) e.2.2) _ hfb
              simpa only [Comm.recvElems, Comm.sendElems, Net.comm, buildComm, netOf, Bool.not_true, Bool.false_eq_true,
                if_false] using this
            · have := pre_mono (fun e => sizeCalc (s.csS q) e.2.1) _ (hk q) hab hfa ⟨eb, hfb⟩; simpa only [netOf] using this
            · have := pre_le_total (fun e => sizeCalc (s.csS q) e.2.1) _ hfb
              simpa only [Comm.sendElems, Net.comm, buildComm, netOf, if_true] using this
        · cases hb
      · cases ha

/-! ## 3. Delivery -/

/-- what the property expects process `q` to scatter in a forward communication: for every process `p` and every
    shared entry (`k`-th of `sendL p q` = `k`-th of `recvL q p`, the same global index by `interface_mirror`) and
    every component `j`, the value `p` gathered at its local index, delivered to `q`'s local index -/
def Setting.expectedCalls {Val} (s : Setting) (gat : Nat → Nat → Nat → Val) (q : Nat) : List (Val × Nat × Nat) :=
  (List.range s.sys.P).flatMap fun p => pairExpected s.blk (gat p) (s.sendL p q) (s.recvL q p)

/-- the same list with the tag (sender, global index, component) of every call -/
def Setting.expectedTagged {Val} (s : Setting) (gat : Nat → Nat → Nat → Val) (q : Nat) :
    List ((Nat × Int × Nat) × (Val × Nat × Nat)) :=
  (List.range s.sys.P).flatMap fun p => pairExpectedTagged s.blk (gat p) p (s.sendL p q) (s.recvL q p)

/-- admissible schedules on `q`: the messages land in any order (`arr`, no process twice), `MPI_Waitany` reports
    exactly the posted receives, each once, in any order (`order`), a message is reported only after it landed -/
structure Sched (s : Setting) (fwd : Bool) (q : Nat) (arr order : List Nat) : Prop where
  nodup : arr.Nodup
  bound : ∀ p ∈ arr, p < s.sys.P
  landed : ∀ p ∈ order, p ∈ arr
  complete : order.Perm ((s.comm q).postedRecvs fwd)

/-- **forward_calls.**  The scatter calls made on `q` during one `forward` are, as a multiset, exactly the expected
    ones: every value gathered at a source entry reaches the scatter of its matching target entry, nothing else is
    scattered. -/
theorem forward_calls (s : Setting) (h : s.OK) {Val} (gat : Nat → Nat → Nat → Val) (junk : Val) {q : Nat}
    (hq : q < s.sys.P) {arr order : List Nat} (hs : Sched s true q arr order) :
    (roundCallsAt s.comm true gat junk q arr order).Perm (s.expectedCalls gat q) := by
  have hg := h.good
  have heq := Net.roundCallsAt_eq _ hg gat junk (q := q) hq arr order hs.nodup hs.bound hs.landed
  have hcomm : s.comm = (netOf s.ign s.S s.T s.sys s.sz s.csS s.csT).comm := rfl
  rw [hcomm, heq]
  refine (List.Perm.flatMap_right _ hs.complete).trans (List.Perm.of_eq ?_)
  rw [hcomm, Net.postedRecvs_eq _ hg]
  rw [filter_flatMap_of_nil]
  · apply flatMap_congr_mem
    intro p hp
    exact pairCalls_eq h.wf h.sizes gat (List.mem_range.mp hp) hq
  · intro p hp
    have h0 : ((netOf s.ign s.S s.T s.sys s.sz s.csS s.csT).recvSlots q p).length = 0 := by simpa using hp
    simp only [Net.pairCalls, List.eq_nil_of_length_eq_zero h0, List.zip_nil_right]

/-- **forward_exactly_once.**  The expected calls are indexed by (sender, global index, component) without
    repetition, and the calls made are a permutation of them: each shared entry's value is scattered exactly once. -/
theorem forward_exactly_once (s : Setting) (h : s.OK) {Val} (gat : Nat → Nat → Nat → Val) (junk : Val) {q : Nat}
    (hq : q < s.sys.P) {arr order : List Nat} (hs : Sched s true q arr order) :
    ((s.expectedTagged gat q).map (·.1)).Nodup ∧
    (roundCallsAt s.comm true gat junk q arr order).Perm ((s.expectedTagged gat q).map (·.2)) := by
  constructor
  · exact tagged_nodup s.blk gat s.sys.P (fun p => s.sendL p q) (fun p => s.recvL q p)
      (fun p => (interface_spec s h.wf p q).2.2.2.2.1)
  · have : (s.expectedTagged gat q).map (·.2) = s.expectedCalls gat q := by
      simp only [Setting.expectedTagged, Setting.expectedCalls, List.map_flatMap, pairExpectedTagged_snd]
    rw [this]
    exact forward_calls s h gat junk hq hs

/-- **order_irrelevant_calls.**  The multiset of scatter calls does not depend on arrival and completion order. -/
theorem order_irrelevant_calls (s : Setting) (h : s.OK) {Val} (gat : Nat → Nat → Nat → Val) (junk : Val) {q : Nat}
    (hq : q < s.sys.P) {arr order arr' order' : List Nat} (hs : Sched s true q arr order) (hs' : Sched s true q arr' order') :
    (roundCallsAt s.comm true gat junk q arr order).Perm (roundCallsAt s.comm true gat junk q arr' order') :=
  (forward_calls s h gat junk hq hs).trans (forward_calls s h gat junk hq hs').symm

/-- **backward_is_forward_swapped.**  A backward communication is literally a forward communication of the
    setting with the index sets and the attribute sets exchanged (same schedules). -/
theorem backward_is_forward_swapped (s : Setting) {Val} (gat : Nat → Nat → Nat → Val) (junk : Val) (q : Nat)
    (arr order : List Nat) :
    roundCallsAt s.comm false gat junk q arr order = roundCallsAt s.swap.comm true gat junk q arr order ∧
    (s.comm q).postedRecvs false = (s.swap.comm q).postedRecvs true ∧
    (s.comm q).postedSends false = (s.swap.comm q).postedSends true := by
  have hc : ∀ p, (s.comm p).swap = s.swap.comm p := fun p => swap_comm s.ign s.S s.T s.sys s.sz s.csS s.csT p
  refine ⟨?_, ?_, ?_⟩
  · rw [roundCallsAt_swap]; simp only [hc]
  · rw [← hc, Comm.swap_postedRecvs]
  · rw [← hc, Comm.swap_postedSends]

theorem Sched.swap {s : Setting} {q : Nat} {arr order : List Nat} (hs : Sched s false q arr order) :
    Sched s.swap true q arr order :=
  ⟨hs.nodup, hs.bound, hs.landed, by rw [← (backward_is_forward_swapped s (fun _ _ _ => ()) () q [] []).2.1]; exact hs.complete⟩

/-- **backward_calls.**  In a backward communication the values gathered at the *target* entries reach the scatter
    of the matching *source* entries, exactly once each. -/
theorem backward_calls (s : Setting) (h : s.OK) {Val} (gat : Nat → Nat → Nat → Val) (junk : Val) {q : Nat}
    (hq : q < s.sys.P) {arr order : List Nat} (hs : Sched s false q arr order) :
    (roundCallsAt s.comm false gat junk q arr order).Perm
      ((List.range s.sys.P).flatMap fun p => pairExpected s.blk (gat p) (s.recvL p q) (s.sendL q p)) := by
  rw [(backward_is_forward_swapped s gat junk q arr order).1]
  have := forward_calls s.swap h.swap gat junk (q := q) hq hs.swap
  have hP : s.sys.swap.P = s.sys.P := rfl
  simpa only [Setting.expectedCalls, Setting.sendL, Setting.recvL, Setting.swap, swap_sendL, swap_recvL, hP] using this

/-! ## 4. Policies -/

/-- **forward_copy_spec.**  Copy policy, every target entry of `q` has at most one sender: after `forward` every
    target entry that has a sender equals the value gathered at its source entry, all other entries of the target
    container are unchanged — for every schedule. -/
theorem forward_copy_spec (s : Setting) (h : s.OK) {Val Data} {gather : Data → Nat → Nat → Val}
    {scatter : Data → Val → Nat → Nat → Data} (hst : CopyStore gather scatter) (junk : Val)
    (w : Nat → Cont Data) (arr order : Nat → List Nat) {q : Nat} (hq : q < s.sys.P) (hs : Sched s true q (arr q) (order q))
    (hsingle : ((s.expectedCalls (fun p => gather ((w p).get false)) q).map (·.2)).Nodup) :
    let w' := worldRound s.comm gather scatter junk true arr order w
    (∀ c ∈ s.expectedCalls (fun p => gather ((w p).get false)) q, gather ((w' q).get true) c.2.1 c.2.2 = c.1) ∧
    (∀ l j, (l, j) ∉ (s.expectedCalls (fun p => gather ((w p).get false)) q).map (·.2) →
        gather ((w' q).get true) l j = gather ((w q).get true) l j) := by
  intro w'
  have hperm := forward_calls s h (fun p => gather ((w p).get false)) junk hq hs
  have hnd : ((roundCallsAt s.comm true (fun p => gather ((w p).get false)) junk q (arr q) (order q)).map (·.2)).Nodup :=
    ((hperm.map (·.2)).nodup_iff).2 hsingle
  simp only [w', worldRound, Cont.get_set, Bool.not_true]
  constructor
  · intro c hc
    exact applyCalls_copy_mem hst _ _ hnd c (hperm.mem_iff.2 hc)
  · intro l j hn
    apply applyCalls_copy_other hst
    intro hm
    exact hn ((hperm.map (·.2)).mem_iff.1 hm)

/-- **forward_add_spec.**  Accumulating policy over a commutative, associative `add`: after `forward` every target
    entry holds its old value plus the values of all its senders (sum over the expected calls aimed at it), for every
    schedule. -/
theorem forward_add_spec (s : Setting) (h : s.OK) {Val Data} {add : Val → Val → Val}
    (hcomm : ∀ a b, add a b = add b a) (hassoc : ∀ a b c, add (add a b) c = add a (add b c))
    {gather : Data → Nat → Nat → Val} {scatter : Data → Val → Nat → Nat → Data} (hst : AddStore add gather scatter)
    (junk : Val) (w : Nat → Cont Data) (arr order : Nat → List Nat) {q : Nat} (hq : q < s.sys.P)
    (hs : Sched s true q (arr q) (order q)) (l j : Nat) :
    gather ((worldRound s.comm gather scatter junk true arr order w q).get true) l j =
      (((s.expectedCalls (fun p => gather ((w p).get false)) q).filter fun c => c.2 == (l, j)).map (·.1)).foldl add
        (gather ((w q).get true) l j) := by
  have hperm := forward_calls s h (fun p => gather ((w p).get false)) junk hq hs
  simp only [worldRound, Cont.get_set, Bool.not_true]
  rw [applyCalls_add hst]
  exact foldl_add_perm hcomm hassoc ((hperm.filter _).map _) _

/-- **backward_copy_spec** / **backward_add_spec**: the same with the roles exchanged (values gathered at target
    entries arrive at the source entries). -/
theorem backward_add_spec (s : Setting) (h : s.OK) {Val Data} {add : Val → Val → Val}
    (hcomm : ∀ a b, add a b = add b a) (hassoc : ∀ a b c, add (add a b) c = add a (add b c))
    {gather : Data → Nat → Nat → Val} {scatter : Data → Val → Nat → Nat → Data} (hst : AddStore add gather scatter)
    (junk : Val) (w : Nat → Cont Data) (arr order : Nat → List Nat) {q : Nat} (hq : q < s.sys.P)
    (hs : Sched s false q (arr q) (order q)) (l j : Nat) :
    gather ((worldRound s.comm gather scatter junk false arr order w q).get false) l j =
      ((((List.range s.sys.P).flatMap fun p => pairExpected s.blk (gather ((w p).get true)) (s.recvL p q) (s.sendL q p)).filter
          fun c => c.2 == (l, j)).map (·.1)).foldl add (gather ((w q).get false) l j) := by
  have hperm := backward_calls s h (fun p => gather ((w p).get true)) junk hq hs
  simp only [worldRound, Cont.get_set, Bool.not_false]
  rw [applyCalls_add hst]
  exact foldl_add_perm hcomm hassoc ((hperm.filter _).map _) _

theorem backward_copy_spec (s : Setting) (h : s.OK) {Val Data} {gather : Data → Nat → Nat → Val}
    {scatter : Data → Val → Nat → Nat → Data} (hst : CopyStore gather scatter) (junk : Val)
    (w : Nat → Cont Data) (arr order : Nat → List Nat) {q : Nat} (hq : q < s.sys.P) (hs : Sched s false q (arr q) (order q))
    (hsingle : (((List.range s.sys.P).flatMap fun p =>
        pairExpected s.blk (gather ((w p).get true)) (s.recvL p q) (s.sendL q p)).map (·.2)).Nodup) :
    let w' := worldRound s.comm gather scatter junk false arr order w
    (∀ c ∈ (List.range s.sys.P).flatMap fun p => pairExpected s.blk (gather ((w p).get true)) (s.recvL p q) (s.sendL q p),
        gather ((w' q).get false) c.2.1 c.2.2 = c.1) ∧
    (∀ l j, (l, j) ∉ ((List.range s.sys.P).flatMap fun p =>
          pairExpected s.blk (gather ((w p).get true)) (s.recvL p q) (s.sendL q p)).map (·.2) →
        gather ((w' q).get false) l j = gather ((w q).get false) l j) := by
  intro w'
  have hperm := backward_calls s h (fun p => gather ((w p).get true)) junk hq hs
  have hnd := ((hperm.map (·.2)).nodup_iff).2 hsingle
  simp only [w', worldRound, Cont.get_set, Bool.not_false]
  constructor
  · intro c hc
    exact applyCalls_copy_mem hst _ _ hnd c (hperm.mem_iff.2 hc)
  · intro l j hn
    apply applyCalls_copy_other hst
    intro hm
    exact hn ((hperm.map (·.2)).mem_iff.1 hm)

/-! ## 5. Termination at the message level, repeated use -/

/-- **recv_posted_iff_send_posted.**  In a forward communication `q` posts a receive for `p` iff `p` posts a send
    to `q`, and the message has exactly the posted length; the same holds for backward.  Hence every `MPI_Irecv` is
    matched by exactly one `MPI_Issend` of the same size and vice versa: the `MPI_Waitany` loop receives its
    `numberOfRealRecvRequests` completions and all sends complete. -/
theorem recv_posted_iff_send_posted (s : Setting) (h : s.OK) (fwd : Bool) {Val} (gat : Nat → Nat → Val)
    {p q : Nat} (hp : p < s.sys.P) (hq : q < s.sys.P) :
    (p ∈ (s.comm q).postedRecvs fwd ↔ q ∈ (s.comm p).postedSends fwd) ∧
    (∀ m, (s.comm q).msg p = some m →
        ((s.comm p).msgTo fwd ((s.comm p).sendBuf fwd gat) q).length * s.sz = (recvMsgInfo fwd m).size) := by
  -- forward case for an arbitrary OK setting
  have fwdCase : ∀ (t : Setting), t.OK → p < t.sys.P → q < t.sys.P →
      (p ∈ (t.comm q).postedRecvs true ↔ q ∈ (t.comm p).postedSends true) ∧
      (∀ m, (t.comm q).msg p = some m →
          ((t.comm p).msgTo true ((t.comm p).sendBuf true gat) q).length * t.sz = (recvMsgInfo true m).size) := by
    intro t ht hp hq
    have hg := ht.good
    constructor
    · rw [Setting.comm, Setting.comm, Net.mem_postedRecvs _ hg, Net.mem_postedSends _ hg, hg.mirror p q hp hq]
    · intro m hm
      rw [Setting.comm, Net.msgTo_length _ hg gat hp hq]
      rw [Setting.comm, Net.msg_eq _ hg.keys] at hm
      cases hf : ((netOf t.ign t.S t.T t.sys t.sz t.csS t.csT).ifs q).find? (fun e => e.1 == p) with
      | none => simp [hf] at hm
      | some e =>
        simp only [hf, Option.bind_some] at hm
        split at hm
        · cases hm
          simp only [recvMsgInfo, if_true, Net.recvSlots_length_of_find _ hf]
          rfl
        · cases hm
  cases fwd with
  | true => exact fwdCase s h hp hq
  | false =>
    have hc : ∀ p, (s.comm p).swap = s.swap.comm p := fun p => swap_comm s.ign s.S s.T s.sys s.sz s.csS s.csT p
    have := fwdCase s.swap h.swap hp hq
    rw [← hc, ← hc, Comm.swap_postedRecvs, Comm.swap_postedSends, Comm.swap_sendBuf] at this
    refine ⟨this.1, ?_⟩
    intro m hm
    have h2 := this.2 (m.2, m.1) (by rw [Comm.swap_msg, hm]; rfl)
    rw [Comm.swap_msgTo] at h2
    simpa [recvMsgInfo, Setting.swap, Comm.swap] using h2

/-- **reuse.**  A communicator carries no state from one communication to the next: a sequence of `forward` /
    `backward` calls is the sequence of the single communications, each delivering (by `forward_calls` /
    `backward_calls`, which hold for *every* container state `w`) the values present before it. -/
theorem reuse (s : Setting) {Val Data} (gather : Data → Nat → Nat → Val) (scatter : Data → Val → Nat → Nat → Data)
    (junk : Val) (arr order : Bool → Nat → List Nat) (d1 d2 : Bool) (w : Nat → Cont Data) :
    runRounds s.comm gather scatter junk arr order [d1, d2] w =
      worldRound s.comm gather scatter junk d2 (arr d2) (order d2)
        (worldRound s.comm gather scatter junk d1 (arr d1) (order d1) w) ∧
    ∀ (ds : List Bool) (d : Bool), runRounds s.comm gather scatter junk arr order (ds ++ [d]) w =
      worldRound s.comm gather scatter junk d (arr d) (order d) (runRounds s.comm gather scatter junk arr order ds w) := by
  refine ⟨rfl, ?_⟩
  intro ds d
  induction ds generalizing w with
  | nil => rfl
  | cons x xs ih => simp only [List.cons_append, runRounds]; exact ih _

/-- second `forward` on the same communicator: its calls are the expected ones for the state the first one left -/
theorem reuse_forward_twice (s : Setting) (h : s.OK) {Val Data} (gather : Data → Nat → Nat → Val)
    (scatter : Data → Val → Nat → Nat → Data) (junk : Val) (arr order : Nat → List Nat) (w : Nat → Cont Data) {q : Nat}
    (hq : q < s.sys.P) (hs : Sched s true q (arr q) (order q)) :
    let w1 := worldRound s.comm gather scatter junk true arr order w
    (roundCallsAt s.comm true (fun p => gather ((w1 p).get false)) junk q (arr q) (order q)).Perm
      (s.expectedCalls (fun p => gather ((w1 p).get false)) q) :=
  forward_calls s h _ junk hq hs

/-! ## 6. DatatypeCommunicator variant -/

/-- **datatype_calls.**  The index lists behind the MPI datatypes of `DatatypeCommunicator` are the (unstripped)
    interface lists; moving, for every neighbour `p` in rank order, the entries of `p`'s send type into the
    entries of `q`'s receive type amounts exactly to the expected calls of a forward resp. backward communication
    (as a list: there is no completion order to speak of, `MPI_Waitall`). -/
theorem datatype_calls (s : Setting) (h : s.OK) {Val} (gat : Nat → Nat → Nat → Val) {q : Nat} (hq : q < s.sys.P) :
    dtCalls (s.csT q) gat s.csS (dtNeighbours (rawInterfaceOf s.ign s.S s.T s.sys) true q) = s.expectedCalls gat q ∧
    dtCalls (s.csS q) gat s.csT (dtNeighbours (rawInterfaceOf s.ign s.S s.T s.sys) false q) =
      (List.range s.sys.P).flatMap fun p => pairExpected s.blk (gat p) (s.recvL p q) (s.sendL q p) :=
  ⟨dtCalls_forward h.wf h.sizes gat hq, dtCalls_backward h.wf h.sizes gat hq⟩

/-- **datatype_copy_spec.**  With non-overlapping receive types (every target entry has one sender — otherwise the
    MPI calls are erroneous) a forward communication leaves every target entry with a sender equal to its source and
    every other entry unchanged. -/
theorem datatype_copy_spec (s : Setting) (h : s.OK) {Val Data} {gather : Data → Nat → Nat → Val}
    {scatter : Data → Val → Nat → Nat → Data} (hst : CopyStore gather scatter) (w : Nat → Cont Data) {q : Nat}
    (hq : q < s.sys.P) (hsingle : ((s.expectedCalls (fun p => gather ((w p).get false)) q).map (·.2)).Nodup) :
    let d' := applyCalls scatter ((w q).get true)
      (dtCalls (s.csT q) (fun p => gather ((w p).get false)) s.csS (dtNeighbours (rawInterfaceOf s.ign s.S s.T s.sys) true q))
    (∀ c ∈ s.expectedCalls (fun p => gather ((w p).get false)) q, gather d' c.2.1 c.2.2 = c.1) ∧
    (∀ l j, (l, j) ∉ (s.expectedCalls (fun p => gather ((w p).get false)) q).map (·.2) →
        gather d' l j = gather ((w q).get true) l j) := by
  intro d'
  simp only [d', (datatype_calls s h _ hq).1]
  exact ⟨fun c hc => applyCalls_copy_mem hst _ _ hsingle c hc, fun l j hn => applyCalls_copy_other hst _ _ l j hn⟩

/-! ## 7. Round two: delivery by definition, stale buffers, histories, life cycle, progress -/

/-- the expected calls of a backward communication on `q`: values gathered at target entries of `p`, delivered to
    the matching source entries of `q` -/
def Setting.expectedBack {Val} (s : Setting) (gat : Nat → Nat → Nat → Val) (q : Nat) : List (Val × Nat × Nat) :=
  (List.range s.sys.P).flatMap fun p => pairExpected s.blk (gat p) (s.recvL p q) (s.sendL q p)

def Setting.expectedDir {Val} (s : Setting) (fwd : Bool) (gat : Nat → Nat → Nat → Val) (q : Nat) : List (Val × Nat × Nat) :=
  if fwd then s.expectedCalls gat q else s.expectedBack gat q

/-- **expected_iff** (the delivery claim by definition, without reference to list positions).  A call with tag
    (sender `p`, global index `g`, component `j`) is expected on `q` iff `p` and `q` are neighbours, `p` holds a
    published source entry `a` for `g` with attribute in `S`, `q` holds a published target entry `b` for `g` with
    attribute in `T`, `j` is a component of `g`; and then the call delivers exactly the value `p` gathered at `a`'s
    local index to `b`'s local index.  Together with `forward_exactly_once` (the tags are pairwise distinct and the
    calls made are a permutation of the expected ones): every such value reaches the scatter of its matching target
    entry exactly once, and nothing else is scattered. -/
theorem expected_iff (s : Setting) (h : s.OK) {Val} (gat : Nat → Nat → Nat → Val) {q : Nat} (hq : q < s.sys.P)
    (p : Nat) (g : Int) (j : Nat) (c : Val × Nat × Nat) :
    ((p, g, j), c) ∈ s.expectedTagged gat q ↔
      p < s.sys.P ∧ admits s.sys p q ∧
      ∃ a ∈ published s.ign (s.sys.rank p).src, ∃ b ∈ published s.ign (s.sys.rank q).tgtSet,
        a.g = g ∧ b.g = g ∧ s.S a.a = true ∧ s.T b.a = true ∧ j < s.blk g ∧ c = (gat p a.l j, b.l, j) := by
  simp only [Setting.expectedTagged, List.mem_flatMap, List.mem_range, pairExpectedTagged, List.mem_map, Prod.mk.injEq]
  constructor
  · rintro ⟨p', hp', ⟨x, y⟩, hxy, j', hj', ⟨rfl, rfl, rfl⟩, rfl⟩
    obtain ⟨hx, hy, hg⟩ := (mem_zip_of_keys (·.g) (·.g) _ _ (interface_mirror s h.wf hp' hq).1
      (interface_spec s h.wf p' q).2.2.2.2.1 x y).1 hxy
    obtain ⟨hadm, a, ha, b, _, _, hS, _, rfl⟩ := ((interface_spec s h.wf p' q).2.2.1 x).1 hx
    obtain ⟨_, a', ha', b', _, _, hT', _, rfl⟩ := ((interface_spec s h.wf q p').2.2.2.1 y).1 hy
    exact ⟨hp', hadm, a, ha, a', ha', rfl, hg.symm, hS, hT', hj', rfl⟩
  · rintro ⟨hp, hadm, a, ha, b, hb, rfl, hbg, hS, hT, hj, rfl⟩
    refine ⟨p, hp, (⟨a.g, b.a, a.l, a.a⟩, ⟨b.g, a.a, b.l, b.a⟩), ?_, j, hj, ⟨rfl, rfl, rfl⟩, rfl⟩
    apply (mem_zip_of_keys (·.g) (·.g) _ _ (interface_mirror s h.wf hp hq).1
      (interface_spec s h.wf p q).2.2.2.2.1 _ _).2
    refine ⟨?_, ?_, hbg.symm⟩
    · exact ((interface_spec s h.wf p q).2.2.1 _).2 ⟨hadm, a, ha, b, hb, hbg, hS, hT, rfl⟩
    · exact ((interface_spec s h.wf q p).2.2.2.1 _).2 ⟨(admits_symm hp hq).1 hadm, b, hb, a, ha, hbg.symm, hT, hS, rfl⟩

/-- **stale_buffer_irrelevant.**  What the receive buffer held before a communication (uninitialised memory after
    `build`, the messages of earlier communications later on) never reaches a scatter call: for every admissible
    schedule the calls are the same for any two previous contents of (at least) the allocated size. -/
theorem stale_buffer_irrelevant (s : Setting) (h : s.OK) (fwd : Bool) {Val} (gat : Nat → Nat → Nat → Val)
    (init init' : List Val) {q : Nat} (hq : q < s.sys.P) (hinit : (s.comm q).recvElems fwd ≤ init.length)
    (hinit' : (s.comm q).recvElems fwd ≤ init'.length) {arr order : List Nat} (hs : Sched s fwd q arr order) :
    roundCallsFrom s.comm fwd gat init q arr order = roundCallsFrom s.comm fwd gat init' q arr order :=
  (roundCallsFrom_dir s.ign s.S s.T s.sys s.sz s.csS s.csT h.wf h.sz h.sizes fwd gat init hq hinit arr order
      hs.nodup hs.bound hs.landed).trans
    (roundCallsFrom_dir s.ign s.S s.T s.sys s.sz s.csS s.csT h.wf h.sz h.sizes fwd gat init' hq hinit' arr order
      hs.nodup hs.bound hs.landed).symm

/-- **calls_any_buffer.**  `forward_calls` / `backward_calls` for an arbitrary previous receive buffer. -/
theorem calls_any_buffer (s : Setting) (h : s.OK) (fwd : Bool) {Val} (gat : Nat → Nat → Nat → Val) (init : List Val)
    {q : Nat} (hq : q < s.sys.P) (hinit : (s.comm q).recvElems fwd ≤ init.length) {arr order : List Nat}
    (hs : Sched s fwd q arr order) :
    (roundCallsFrom s.comm fwd gat init q arr order).Perm (s.expectedDir fwd gat q) := by
  rw [stale_buffer_irrelevant s h fwd gat init (List.replicate ((s.comm q).recvElems fwd) (gat 0 0 0)) hq hinit
    (by simp) hs]
  show (roundCallsAt s.comm fwd gat (gat 0 0 0) q arr order).Perm _
  cases fwd with
  | true => exact forward_calls s h gat _ hq hs
  | false => exact backward_calls s h gat _ hq hs

/-- all communications of a history have admissible schedules -/
def AllSched (s : Setting) (rs : List Round) : Prop :=
  ∀ r ∈ rs, ∀ q, q < s.sys.P → Sched s r.fwd q (r.arr q) (r.order q)

/-- one communication keeps the buffer sizes -/
theorem step_bufOK (s : Setting) (h : s.OK) {Val Data} (gather : Data → Nat → Nat → Val)
    (scatter : Data → Val → Nat → Nat → Data) (r : Round) (st : Nat → PState Val Data) (hb : BufOK s.sys.P s.comm st)
    (hs : ∀ q, q < s.sys.P → Sched s r.fwd q (r.arr q) (r.order q)) :
    BufOK s.sys.P s.comm (worldStep s.comm gather scatter r st) := by
  intro q hq
  have hsb : (stepSendBuf s.comm gather r.fwd st q).length = (s.comm q).sendElems r.fwd := by
    rw [stepSendBuf_eq hb gather r.fwd hq, Comm.sendBuf_length]
  have hrb : (stepRecvBuf s.comm gather r.fwd st q (r.arr q)).length = (s.comm q).sendElems (!r.fwd) := by
    rw [stepRecvBuf_eq hb gather r.fwd q (r.arr q) (hs q hq).bound]
    have := recvBufAfter_length_dir s.ign s.S s.T s.sys s.sz s.csS s.csT h.wf h.sz h.sizes r.fwd
      (fun p => gather ((st p).cont.get (!r.fwd))) ((st q).recvB r.fwd) hq (Nat.le_of_eq (hb.recvB hq r.fwd).symm)
      (r.arr q) (hs q hq).bound
    rw [show s.comm = (netOf s.ign s.S s.T s.sys s.sz s.csS s.csT).comm from rfl, this, hb.recvB hq r.fwd]
    rfl
  simp only [worldStep]
  cases hf : r.fwd <;> simp only [hf, Bool.not_true, Bool.not_false, if_true, if_false, Bool.false_eq_true] at hsb hrb ⊢
  · exact ⟨hrb, hsb⟩
  · exact ⟨hsb, hrb⟩

/-- **history_bufOK.**  Invariant of every history of communications on one set of communicators, established by
    `build` (which allocates buffers of exactly these sizes; their contents are arbitrary): the buffers keep the
    allocated sizes. -/
theorem history_bufOK (s : Setting) (h : s.OK) {Val Data} (gather : Data → Nat → Nat → Val)
    (scatter : Data → Val → Nat → Nat → Data) : ∀ (rs : List Round) (st : Nat → PState Val Data),
    BufOK s.sys.P s.comm st → AllSched s rs → BufOK s.sys.P s.comm (runSt s.comm gather scatter rs st)
  | [], _, hb, _ => hb
  | r :: rs, st, hb, hs =>
    history_bufOK s h gather scatter rs _ (step_bufOK s h gather scatter r st hb (hs r (by simp)))
      (fun r' hr' => hs r' (List.mem_cons_of_mem _ hr'))

/-- **history_calls** (repeated use of one communicator, for all histories).  After any sequence `rs` of forward and
    backward communications on the same communicators — whatever their schedules, whatever the buffers held at the
    beginning — the next communication `r` makes, on every process, exactly the calls expected for the containers as
    the history left them: each value gathered now reaches its matching entry exactly once; nothing of an earlier
    communication is delivered again. -/
theorem history_calls (s : Setting) (h : s.OK) {Val Data} (gather : Data → Nat → Nat → Val)
    (scatter : Data → Val → Nat → Nat → Data) (rs : List Round) (r : Round) (st0 : Nat → PState Val Data)
    (hb : BufOK s.sys.P s.comm st0) (hs : AllSched s (rs ++ [r])) {q : Nat} (hq : q < s.sys.P) :
    (stepCalls s.comm gather r (runSt s.comm gather scatter rs st0) q).Perm
      (s.expectedDir r.fwd (fun p => gather (((runSt s.comm gather scatter rs st0) p).cont.get (!r.fwd))) q) := by
  have hb' := history_bufOK s h gather scatter rs st0 hb (fun r' hr' => hs r' (List.mem_append_left _ hr'))
  have hsr := hs r (by simp) q hq
  rw [stepCalls_eq hb' gather r q hsr.bound]
  exact calls_any_buffer s h r.fwd _ _ hq (Nat.le_of_eq (hb'.recvB hq r.fwd).symm) hsr

/-- **history_step_is_worldRound.**  On buffers of the allocated sizes the stateful step changes the containers
    exactly like the buffer-free `worldRound` (about which the policy theorems `forward_copy_spec`,
    `forward_add_spec`, … speak): they hold for every communication of every history. -/
theorem history_step_is_worldRound (s : Setting) (h : s.OK) {Val Data} (gather : Data → Nat → Nat → Val)
    (scatter : Data → Val → Nat → Nat → Data) (junk : Val) (r : Round) (st : Nat → PState Val Data)
    (hb : BufOK s.sys.P s.comm st) {q : Nat} (hq : q < s.sys.P) (hs : Sched s r.fwd q (r.arr q) (r.order q)) :
    (worldStep s.comm gather scatter r st q).cont =
      worldRound s.comm gather scatter junk r.fwd r.arr r.order (fun p => (st p).cont) q := by
  simp only [worldStep, worldRound, roundCallsAt]
  rw [stepCalls_eq hb gather r q hs.bound,
    stale_buffer_irrelevant s h r.fwd _ ((st q).recvB r.fwd) (List.replicate ((s.comm q).recvElems r.fwd) junk) hq
      (Nat.le_of_eq (hb.recvB hq r.fwd).symm) (by simp) hs]

/-- **rebuild_is_fresh** (life cycle).  `build` on a communicator object in any previous state (built for another
    interface, used, freed or not) yields the communicator a new object would get. -/
theorem rebuild_is_fresh (s : Setting) (c : Comm) (p : Nat) :
    c.build s.sz (s.csS p) (s.csT p) (s.iface p) = s.comm p :=
  Comm.build_eq_fresh c _ _ _ _ (keys_interfaceOf_sorted _ _ _ _ _)

/-- **copy_some_sender.**  Copy policy without any assumption on the number of senders, either direction: after
    the communication every entry that has senders holds the value of one of them, every other entry is unchanged. -/
theorem copy_some_sender (s : Setting) (h : s.OK) (fwd : Bool) {Val Data} {gather : Data → Nat → Nat → Val}
    {scatter : Data → Val → Nat → Nat → Data} (hst : CopyStore gather scatter) (junk : Val)
    (w : Nat → Cont Data) (arr order : Nat → List Nat) {q : Nat} (hq : q < s.sys.P)
    (hs : Sched s fwd q (arr q) (order q)) :
    let w' := worldRound s.comm gather scatter junk fwd arr order w
    let exp := s.expectedDir fwd (fun p => gather ((w p).get (!fwd))) q
    (∀ l j, (l, j) ∈ exp.map (·.2) → ∃ c ∈ exp, c.2 = (l, j) ∧ gather ((w' q).get fwd) l j = c.1) ∧
    (∀ l j, (l, j) ∉ exp.map (·.2) → gather ((w' q).get fwd) l j = gather ((w q).get fwd) l j) := by
  intro w' exp
  have hperm : (roundCallsAt s.comm fwd (fun p => gather ((w p).get (!fwd))) junk q (arr q) (order q)).Perm exp := by
    have := calls_any_buffer s h fwd (fun p => gather ((w p).get (!fwd))) (List.replicate ((s.comm q).recvElems fwd) junk)
      hq (by simp) hs
    exact this
  simp only [w', worldRound, Cont.get_set]
  constructor
  · intro l j hm
    obtain ⟨c, hc, h1, h2⟩ := applyCalls_copy_last hst _ ((w q).get fwd) l j ((hperm.map (·.2)).mem_iff.2 hm)
    exact ⟨c, hperm.mem_iff.1 hc, h1, h2⟩
  · intro l j hn
    apply applyCalls_copy_other hst
    intro hm
    exact hn ((hperm.map (·.2)).mem_iff.1 hm)

/-- **datatype_copy_spec_backward**: `DatatypeCommunicator::backward()` with non-overlapping receive types. -/
theorem datatype_copy_spec_backward (s : Setting) (h : s.OK) {Val Data} {gather : Data → Nat → Nat → Val}
    {scatter : Data → Val → Nat → Nat → Data} (hst : CopyStore gather scatter) (w : Nat → Cont Data) {q : Nat}
    (hq : q < s.sys.P) (hsingle : ((s.expectedBack (fun p => gather ((w p).get true)) q).map (·.2)).Nodup) :
    let d' := applyCalls scatter ((w q).get false)
      (dtCalls (s.csS q) (fun p => gather ((w p).get true)) s.csT (dtNeighbours (rawInterfaceOf s.ign s.S s.T s.sys) false q))
    (∀ c ∈ s.expectedBack (fun p => gather ((w p).get true)) q, gather d' c.2.1 c.2.2 = c.1) ∧
    (∀ l j, (l, j) ∉ (s.expectedBack (fun p => gather ((w p).get true)) q).map (·.2) →
        gather d' l j = gather ((w q).get false) l j) := by
  intro d'
  simp only [d', (datatype_calls s h _ hq).2]
  exact ⟨fun c hc => applyCalls_copy_mem hst _ _ hsingle c hc, fun l j hn => applyCalls_copy_other hst _ _ l j hn⟩

/-- **comm_progress** (termination, part 1).  While a process has not returned from `sendRecv`, some process can
    move: a process that has not entered posts its requests; once all have entered, every waiting process can
    complete, because each of its posted receives is matched by a posted send of the same communication and each of
    its synchronous sends by a posted receive (`recv_posted_iff_send_posted`).  No state is a deadlock. -/
theorem comm_progress (s : Setting) (h : s.OK) (fwd : Bool) (ph : Nat → Phase)
    (hnot : ∃ q, q < s.sys.P ∧ ph q ≠ Phase.done) : ∃ ph', CommStep s.comm fwd s.sys.P ph ph' := by
  by_cases hidle : ∃ q, q < s.sys.P ∧ ph q = Phase.idle
  · obtain ⟨q, hq, hi⟩ := hidle
    exact ⟨_, CommStep.post ph q hq hi⟩
  · have hall : ∀ q, q < s.sys.P → ph q ≠ Phase.idle := fun q hq hi => hidle ⟨q, hq, hi⟩
    obtain ⟨q, hq, hnd⟩ := hnot
    have hposted : ph q = Phase.posted := by
      have := hall q hq
      cases hph : ph q <;> simp_all
    refine ⟨_, CommStep.finish ph q hq hposted ⟨?_, ?_⟩⟩
    · intro p hp
      have hp' : p < s.sys.P := by
        have hg := dirNet_good s.ign s.S s.T s.sys s.sz s.csS s.csT h.wf h.sz h.sizes fwd
        have := Net.postedRecvs_lt _ hg q p (by
          rw [← postedRecvs_dirNet]; exact hp)
        rwa [dirNet_P] at this
      exact ⟨hall p hp', ((recv_posted_iff_send_posted s h fwd (fun _ _ => ()) hp' hq).1).1 hp⟩
    · intro r hr
      have hr' : r < s.sys.P := by
        have hg := dirNet_good s.ign s.S s.T s.sys s.sz s.csS s.csT h.wf h.sz h.sizes fwd
        have := Net.postedSends_lt _ hg q r (by
          rw [← postedSends_dirNet]; exact hr)
        rwa [dirNet_P] at this
      exact ⟨hall r hr', ((recv_posted_iff_send_posted s h fwd (fun _ _ => ()) hq hr').1).2 hr⟩

/-- **comm_measure** (termination, part 2).  Every move strictly decreases the amount of outstanding work
    (`todoSum` ≤ 2·P), so every execution of one communication is finite; by `comm_progress` it can only end with
    all processes returned. -/
theorem comm_measure (s : Setting) (fwd : Bool) {ph ph' : Nat → Phase} (hstep : CommStep s.comm fwd s.sys.P ph ph') :
    todoSum s.sys.P ph' < todoSum s.sys.P ph ∧ (todoSum s.sys.P ph = 0 ↔ ∀ q, q < s.sys.P → ph q = Phase.done) := by
  constructor
  · cases hstep with
    | post q hq hi => exact todoSum_update_lt _ ph q hq _ (by rw [hi]; decide)
    | finish q hq hp _ => exact todoSum_update_lt _ ph q hq _ (by rw [hp]; decide)
  · exact todoSum_eq_zero _ _

/-! ## 7b. The processes are not synchronised (round three)

`history_*` above treat every `forward`/`backward` as one collective step in which the messages carry what their senders
gathered in THAT communication.  MPI gives no such guarantee by itself: the payload of an `MPI_Issend` is read from the
send buffer at some time between the posting and the completion of the request (large messages: when the receive is
matched), the processes run at their own pace, and the next `sendRecv` gathers into the same buffer.  The guarantee
rests on the completion loops at the end of `sendRecv`, whose bounds are REGENERATED from communicator.hh.
`AStep` (Model/C05Async.lean) is the asynchronous system: every process walks through the history on its own; a posted
send stays outstanding until MPI transfers it, and the transfer reads the sender's buffer as it is at that moment; a
process leaves `sendRecv` when its receives are complete and the sends it waits for have been transferred. -/

/-- **sendRecv_completes_all.**  As read from the source: the last loop of `sendRecv` waits for the send request of every
    neighbour a send was posted to, the `MPI_Waitany` loop runs once per posted receive and looks at all entries of
    `recvRequests`.  (With a bound of the send loop that covers only the first `numberOfRealRecvRequests` entries the first
    conjunct is false: a neighbour that is only sent to can sit behind that position.) -/
theorem sendRecv_completes_all (c : Comm) (fwd : Bool) :
    c.waitedSends fwd = c.postedSends fwd ∧ c.recvLoopIters fwd = (c.postedRecvs fwd).length ∧
      c.recvWaitCount fwd = c.msgs.length := by
  refine ⟨?_, ?_, ?_⟩
  · simp [Comm.waitedSends, Comm.boundVal, Gen.sendWaitBound, Comm.postedSends]
  · simp [Comm.recvLoopIters, Comm.boundVal, Gen.recvLoopBound]
  · simp [Comm.recvWaitCount, Comm.boundVal, Gen.recvWaitCount]

/-- the asynchronous system of a setting: policies, the directions of the history, and what the user assigns before
    communication `k` on process `p` -/
def Setting.asys (s : Setting) {Val Data : Type} (gather : Data → Nat → Nat → Val) (scatter : Data → Val → Nat → Nat → Data)
    (dirs : List Bool) (pre : Nat → Nat → Cont Data → Cont Data) : ASys Val Data :=
  { P := s.sys.P, comm := s.comm, gather := gather, scatter := scatter, dirs := dirs, pre := pre }

theorem Setting.postedSends_lt (s : Setting) (h : s.OK) (fwd : Bool) {p q : Nat} (hm : q ∈ (s.comm p).postedSends fwd) :
    q < s.sys.P := by
  have hg := dirNet_good s.ign s.S s.T s.sys s.sz s.csS s.csT h.wf h.sz h.sizes fwd
  have := Net.postedSends_lt _ hg p q (by rw [← postedSends_dirNet]; exact hm)
  rwa [dirNet_P] at this

theorem Setting.postedRecvs_lt (s : Setting) (h : s.OK) (fwd : Bool) {p q : Nat} (hm : q ∈ (s.comm p).postedRecvs fwd) :
    q < s.sys.P := by
  have hg := dirNet_good s.ign s.S s.T s.sys s.sz s.csS s.csT h.wf h.sz h.sizes fwd
  have := Net.postedRecvs_lt _ hg p q (by rw [← postedRecvs_dirNet]; exact hm)
  rwa [dirNet_P] at this

theorem Setting.asys_ok (s : Setting) (h : s.OK) {Val Data : Type} (gather : Data → Nat → Nat → Val)
    (scatter : Data → Val → Nat → Nat → Data) (dirs : List Bool) (pre : Nat → Nat → Cont Data → Cont Data) :
    AOK (s.asys gather scatter dirs pre) where
  matched := fun fwd p q hp hq => ((recv_posted_iff_send_posted s h fwd (fun _ _ => ()) hp hq).1).symm
  sendsLt := fun fwd _ _ _ hm => s.postedSends_lt h fwd hm
  recvsLt := fun fwd _ _ _ hm => s.postedRecvs_lt h fwd hm
  sendsNodup := fun fwd p => by
    have hk := Net.msgs_keys _ h.good.keys p
    have : (((s.comm p).msgs.filter fun e => (sendMsgInfo fwd e.2).size != 0).map (·.1)).Pairwise (· < ·) :=
      List.Pairwise.sublist (List.Sublist.map _ List.filter_sublist) hk
    exact this.imp (fun hlt => Nat.ne_of_lt hlt)
  recvsNodup := fun fwd p => by
    have hk := Net.msgs_keys _ h.good.keys p
    have : (((s.comm p).msgs.filter fun e => (recvMsgInfo fwd e.2).size != 0).map (·.1)).Pairwise (· < ·) :=
      List.Pairwise.sublist (List.Sublist.map _ List.filter_sublist) hk
    exact this.imp (fun hlt => Nat.ne_of_lt hlt)
  waited := fun fwd p q hq => by
    rw [show (s.asys gather scatter dirs pre).comm = s.comm from rfl, (sendRecv_completes_all _ fwd).1]
    exact hq

/-- the schedule function recorded by an execution, completed arbitrarily where nothing is recorded yet -/
def schedOf (gh : Ghost) : Nat → Nat → List Nat × List Nat := fun k p => (gh k p).getD ([], [])

theorem schedOf_extends (gh : Ghost) : Extends (schedOf gh) gh := by
  intro k p v hv
  simp [schedOf, hv]

/-- **async_refines_history** (repeated use of one communicator, processes not synchronised, payload read from the send
    buffer at transfer time).  In every state the asynchronous system can reach, for every schedule function that agrees
    with the landing and completion orders the execution has taken so far (`schedOf a.gh` is one): a process that is
    outside `sendRecv` after `k` communications is in exactly the state (containers and both buffers) the collective
    semantics `specSt` gives it after `k` communications; a process inside `sendRecv` has gathered from that state and
    holds in its receive buffer the messages of the same communication of the neighbours that have landed so far.  The
    recorded orders are admissible schedules (`Sched`), so all theorems about `worldStep`/`runSt` (`history_calls`,
    `forward_copy_spec`, `forward_add_spec`, …) speak about every asynchronous execution: each value gathered in a
    communication reaches its matching entries in that same communication, exactly once, whatever the relative speed of
    the processes. -/
theorem async_refines_history (s : Setting) (h : s.OK) {Val Data : Type} (gather : Data → Nat → Nat → Val)
    (scatter : Data → Val → Nat → Nat → Data) (dirs : List Bool) (pre : Nat → Nat → Cont Data → Cont Data)
    (st0 : Nat → PState Val Data) {a : AState Val Data} (hr : AReach (s.asys gather scatter dirs pre) st0 a) :
    (∀ sched, Extends sched a.gh → ∀ p, p < s.sys.P →
      ((a.σ p).inC = false → (a.σ p).st = specSt (s.asys gather scatter dirs pre) st0 sched (a.σ p).k p) ∧
      ((a.σ p).inC = true →
        (a.σ p).st = midState (s.asys gather scatter dirs pre) st0 sched (a.σ p).k p (a.σ p).arrd)) ∧
    (∀ k p arr order, a.gh k p = some (arr, order) →
      p < s.sys.P ∧ k < (a.σ p).k ∧ Sched s ((s.asys gather scatter dirs pre).dir k) p arr order) := by
  have hinv := areach_inv (s.asys_ok h gather scatter dirs pre) hr
  refine ⟨hinv.data, ?_⟩
  intro k p arr order hg
  obtain ⟨hp, hk, harr, hord⟩ := hinv.ghost k p _ hg
  refine ⟨hp, hk, ?_, ?_, ?_, hord.trans harr⟩
  · exact (harr.nodup_iff).2 ((s.asys_ok h gather scatter dirs pre).recvsNodup _ _)
  · intro p' hp'
    exact s.postedRecvs_lt h _ (harr.subset hp')
  · intro p' hp'
    exact hord.subset hp'

/-- **async_history_is_runSt.**  Without user assignments between the communications the collective semantics that
    `async_refines_history` refers to is `runSt` on the history with the recorded schedules: a process that has finished
    `k` communications is in the state `runSt` gives it after the first `k` rounds. -/
theorem async_history_is_runSt (s : Setting) (h : s.OK) {Val Data : Type} (gather : Data → Nat → Nat → Val)
    (scatter : Data → Val → Nat → Nat → Data) (dirs : List Bool) (st0 : Nat → PState Val Data) {a : AState Val Data}
    (hr : AReach (s.asys gather scatter dirs (fun _ _ c => c)) st0 a) {p : Nat} (hp : p < s.sys.P)
    (hout : (a.σ p).inC = false) :
    (a.σ p).st = runSt s.comm gather scatter
      ((List.range (a.σ p).k).map (roundOf (s.asys gather scatter dirs (fun _ _ c => c)) (schedOf a.gh))) st0 p := by
  rw [((async_refines_history s h gather scatter dirs _ st0 hr).1 _ (schedOf_extends a.gh) p hp).1 hout,
    specSt_eq_runSt _ st0 _ (fun _ _ _ => rfl)]
  rfl

/-- **async_message_is_gathered.**  Whenever MPI can transfer a message in a reachable state — `p` has an outstanding send
    to `q`, `q` is inside `sendRecv` and still waits for `p` — that send was posted in the communication `q` is in, and
    what is read from `p`'s buffer at that moment is the message `p` gathered for `q` in that communication (`specMsg`):
    no process has overwritten a buffer that a neighbour has yet to read. -/
theorem async_message_is_gathered (s : Setting) (h : s.OK) {Val Data : Type} (gather : Data → Nat → Nat → Val)
    (scatter : Data → Val → Nat → Nat → Data) (dirs : List Bool) (pre : Nat → Nat → Cont Data → Cont Data)
    (st0 : Nat → PState Val Data) {a : AState Val Data} (hr : AReach (s.asys gather scatter dirs pre) st0 a)
    {p q k' : Nat} (hp : p < s.sys.P) (hq : q < s.sys.P) (hsend : (q, k') ∈ (a.σ p).outS) (hin : (a.σ q).inC = true)
    (hpend : p ∈ (a.σ q).pendR) :
    k' = (a.σ q).k ∧ ∀ sched, Extends sched a.gh →
      transferMsg (s.asys gather scatter dirs pre) p q k' (a.σ p) =
        specMsg (s.asys gather scatter dirs pre) st0 sched (a.σ q).k p q := by
  have hA := s.asys_ok h gather scatter dirs pre
  have hinv := areach_inv hA hr
  obtain ⟨hk', hkq, _⟩ := hinv.transfer_round hA p q k' hp hq hsend hin hpend
  exact ⟨by rw [hk', hkq], fun sched hext => hinv.transfer_msg hA p q k' hp hq hsend hin hpend sched hext⟩

/-- **async_returns_without_pending_send.**  A process that is outside `sendRecv` has no outstanding send: when
    `forward`/`backward` returns, every send request it posted has been completed (what harness/pmpi_c05.cc observes
    through the profiling interface), so the buffers may be gathered into again, or released. -/
theorem async_returns_without_pending_send (s : Setting) (h : s.OK) {Val Data : Type} (gather : Data → Nat → Nat → Val)
    (scatter : Data → Val → Nat → Nat → Data) (dirs : List Bool) (pre : Nat → Nat → Cont Data → Cont Data)
    (st0 : Nat → PState Val Data) {a : AState Val Data} (hr : AReach (s.asys gather scatter dirs pre) st0 a)
    {p : Nat} (hp : p < s.sys.P) (hout : (a.σ p).inC = false) : (a.σ p).outS = [] := by
  have hinv := areach_inv (s.asys_ok h gather scatter dirs pre) hr
  apply List.eq_nil_iff_forall_not_mem.mpr
  intro e he
  have := (hinv.outS_ok p hp e he).1
  rw [hout] at this
  cases this

/-- **async_progress** (termination over whole histories, part 1).  In no reachable state of the asynchronous system with
    a process that has not finished the history is everything blocked: a process outside `sendRecv` can enter its next
    communication; otherwise the process that is furthest behind either has a pending receive whose matching send is
    posted and outstanding (MPI can transfer it), or an outstanding send whose receiver is inside the same
    communication and waits for it, or can leave `sendRecv`.  (A late process delays its neighbours, it never blocks
    them for good.) -/
theorem async_progress (s : Setting) (h : s.OK) {Val Data : Type} (gather : Data → Nat → Nat → Val)
    (scatter : Data → Val → Nat → Nat → Data) (dirs : List Bool) (pre : Nat → Nat → Cont Data → Cont Data)
    (st0 : Nat → PState Val Data) {a : AState Val Data} (hr : AReach (s.asys gather scatter dirs pre) st0 a)
    (hnot : ∃ p, p < s.sys.P ∧ (a.σ p).k < dirs.length) : ∃ a', AStep (s.asys gather scatter dirs pre) a a' :=
  (areach_inv (s.asys_ok h gather scatter dirs pre) hr).progress (s.asys_ok h gather scatter dirs pre) hnot

/-- **async_measure** (termination, part 2).  Every move of the asynchronous system (entering a communication, a
    transfer, leaving `sendRecv`) strictly decreases the natural number `atodo`; so every execution of a history is
    finite, and by `async_progress` it can only end with every process having finished all communications — in the state
    `async_refines_history` describes. -/
theorem async_measure (s : Setting) (h : s.OK) {Val Data : Type} (gather : Data → Nat → Nat → Val)
    (scatter : Data → Val → Nat → Nat → Data) (dirs : List Bool) (pre : Nat → Nat → Cont Data → Cont Data)
    (st0 : Nat → PState Val Data) {a a' : AState Val Data} (hr : AReach (s.asys gather scatter dirs pre) st0 a)
    (hs : AStep (s.asys gather scatter dirs pre) a a') :
    atodo (s.asys gather scatter dirs pre) a'.σ < atodo (s.asys gather scatter dirs pre) a.σ :=
  (areach_inv (s.asys_ok h gather scatter dirs pre) hr).step_todo_lt hs

/-! ## 8. What the translator regenerates from the source (tools/translators/tr_c05.py → Gen/C05.lean) -/

/-- **interface_tests_regenerated.**  The attribute tests of the counting loop and of the adding loop of
    `InterfaceBuilder::buildInterface`, as read from the current interface.hh, are both the documented test
    (`passes`): remote attribute in the other side's set, own attribute in the own side's set.  `countPass` and
    `addPass` — and through them `interface_spec` and everything above — are evaluated with the regenerated tests. -/
theorem interface_tests_regenerated : passesCount = passes ∧ passesAdd = passes := ⟨passesCount_eq, passesAdd_eq⟩

/-- **attrsets_spec.**  The `contains` functions of the six attribute set classes, as read from the current
    enumset.hh, have the documented meaning (EnumRange includes both borders). -/
theorem attrsets_spec (i lo hi item : Int) (s s1 s2 : Int → Bool) :
    Gen.emptySetContains item = false ∧ Gen.allSetContains item = true ∧
    (Gen.enumItemContains i item = true ↔ item = i) ∧
    (Gen.enumRangeContains lo hi item = true ↔ lo ≤ item ∧ item ≤ hi) ∧
    Gen.negateSetContains s item = (!(s item)) ∧
    Gen.combineContains s1 s2 item = (s1 item || s2 item) := by
  refine ⟨by simp [Gen.emptySetContains], by simp [Gen.allSetContains], ?_, ?_, ?_, ?_⟩
  · simp [Gen.enumItemContains] <;> omega
  · simp [Gen.enumRangeContains] <;> omega
  · cases h : s item <;> simp [Gen.negateSetContains, h]
  · cases h1 : s1 item <;> cases h2 : s2 item <;> simp [Gen.combineContains, h1, h2]

/-- the set an expression over the enumset.hh classes denotes -/
def SetExpr.denote : SetExpr → Int → Prop
  | .empty, _ => False
  | .all, _ => True
  | .item i, x => x = i
  | .range lo hi, x => lo ≤ x ∧ x ≤ hi
  | .neg s, x => ¬ s.denote x
  | .comb a b, x => a.denote x ∨ b.denote x

/-- **setExpr_spec.**  Every attribute set written with these classes, however nested, contains exactly the
    attributes of the set it denotes. -/
theorem setExpr_spec (e : SetExpr) (x : Int) : e.contains x = true ↔ e.denote x := by
  induction e with
  | empty => simp [SetExpr.contains, SetExpr.denote, (attrsets_spec 0 0 0 x (fun _ => true) (fun _ => true) (fun _ => true)).1]
  | all => simp [SetExpr.contains, SetExpr.denote, (attrsets_spec 0 0 0 x (fun _ => true) (fun _ => true) (fun _ => true)).2.1]
  | item i => simpa [SetExpr.contains, SetExpr.denote] using
      (attrsets_spec i 0 0 x (fun _ => true) (fun _ => true) (fun _ => true)).2.2.1
  | range lo hi => simpa [SetExpr.contains, SetExpr.denote] using
      (attrsets_spec 0 lo hi x (fun _ => true) (fun _ => true) (fun _ => true)).2.2.2.1
  | neg s ih =>
    simp only [SetExpr.contains, SetExpr.denote, (attrsets_spec 0 0 0 x s.contains (fun _ => true) (fun _ => true)).2.2.2.2.1,
      ← ih]
    cases s.contains x <;> simp
  | comb a b iha ihb =>
    simp only [SetExpr.contains, SetExpr.denote, (attrsets_spec 0 0 0 x (fun _ => true) a.contains b.contains).2.2.2.2.2,
      ← iha, ← ihb, Bool.or_eq_true]

/-- **attrset_tables.**  Both spellings of the sixteen attribute sets the harness uses (plain classes; nested
    `Combine`, `NegateSet<Combine<…>>`, `combine()`) denote the set given by the bit mask. -/
theorem attrset_tables : ∀ m, m < 16 → ∀ a, a < 4 →
    maskSet false m a = ((m >>> a) % 2 == 1) ∧ maskSet true m a = ((m >>> a) % 2 == 1) := by
  decide

/-! ### round four: `strip`, the loop of `build`, the direction selectors -/

/-- **strip_regenerated.**  `Interface::strip` with the erase condition as read from the current interface.hh erases
    exactly the neighbours with two empty lists; the interface the driver computes with it (`interfaceOfG`) is the
    `interfaceOf` of `interface_spec` / `interface_neighbours`. -/
theorem strip_regenerated :
    (∀ n1 n2, Gen.stripErase n1 n2 = true ↔ n1 = 0 ∧ n2 = 0) ∧ stripG = strip ∧ interfaceOfG = interfaceOf := by
  refine ⟨fun n1 n2 => by simp [stripErase_spec], funext stripG_eq, ?_⟩
  funext ign S T sys p
  exact interfaceOfG_eq ign S T sys p

/-- **layout_regenerated.**  The loop body of both `BufferedCommunicator::build` overloads as read from the current
    communicator.hh — message sizes from the `first`/`second` index list with the source/target container, entry inserted
    iff `noSend + noRecv > 0`, `MessageInformation(bufferSize_[0], noSend*sizeof)`, `MessageInformation(bufferSize_[1],
    noRecv*sizeof)`, then `bufferSize_[0] += noSend`, `bufferSize_[1] += noRecv` — is the `layout` of
    `slice_layout_disjoint_cover`, `recv_regions_disjoint`, `rebuild_is_fresh` …; the communicator the driver builds with
    it (`Comm.buildG`, either overload, any previous state of the object) is `Comm.build`. -/
theorem layout_regenerated (two : Bool) (sz : Nat) (csS csT : Nat → Nat) :
    layoutG two sz csS csT = layout sz csS csT ∧
    ∀ (c : Comm) (ifs : IfMap), c.buildG two sz csS csT ifs = c.build sz csS csT ifs :=
  ⟨by funext m s0 s1; exact layoutG_eq two sz csS csT m s0 s1, fun c ifs => Comm.buildG_eq c two sz csS csT ifs⟩

/-- **direction_selectors_regenerated.**  Every `FORWARD ? … : …` of `sendRecv`, of the two `MessageGatherer`s and the two
    `MessageScatterer`s, as read from the current communicator.hh, selects what the model selects: gather from the send
    side (`first` forward, `second` backward), scatter to the receive side; `MPI_Issend` start/size/guard from the send
    `MessageInformation`, `MPI_Irecv` start/size/guard and the scatter position after `MPI_Waitany` from the receive one;
    gather into `buffers_[0]` forward / `buffers_[1]` backward, receive into the other.  The members
    `forward(data)`, `backward(data)`, `forward(source,dest)`, `backward(source,dest)` instantiate `sendRecv` with
    `true/false/true/false` and gather from the source container forward, from the target container backward. -/
theorem direction_selectors_regenerated (fwd : Bool) :
    (∀ e : Info × Info,
      pick (Gen.gatherOneSize.side fwd) e = sendSide fwd e ∧ pick (Gen.gatherOneIndex.side fwd) e = sendSide fwd e ∧
      pick (Gen.gatherVarSize.side fwd) e = sendSide fwd e ∧ pick (Gen.gatherVarIndex.side fwd) e = sendSide fwd e ∧
      pick (Gen.scatterOneInfo.side fwd) e = recvSide fwd e ∧ pick (Gen.scatterVarInfo.side fwd) e = recvSide fwd e) ∧
    (∀ m : MsgInfo × MsgInfo,
      pick (Gen.issendStart.side fwd) m = sendMsgInfo fwd m ∧ pick (Gen.issendSize.side fwd) m = sendMsgInfo fwd m ∧
      pick (Gen.issendGuard.side fwd) m = sendMsgInfo fwd m ∧
      pick (Gen.irecvStart.side fwd) m = recvMsgInfo fwd m ∧ pick (Gen.irecvSize.side fwd) m = recvMsgInfo fwd m ∧
      pick (Gen.irecvGuard.side fwd) m = recvMsgInfo fwd m ∧ pick (Gen.waitanyInfo.side fwd) m = recvMsgInfo fwd m) ∧
    (∀ {Val Data : Type} (st : PState Val Data),
      pick (Gen.sendBuffer.side fwd) (st.b0, st.b1) = st.sendB fwd ∧ pick (Gen.recvBuffer.side fwd) (st.b0, st.b1) = st.recvB fwd) ∧
    (∀ {Data : Type} (c : Cont Data), c.one = false →
      Gen.forward1.fwd = true ∧ Gen.backward1.fwd = false ∧ Gen.forward2.fwd = true ∧ Gen.backward2.fwd = false ∧
      Gen.forward1.gatherArg = 0 ∧ Gen.forward1.scatterArg = 0 ∧ Gen.backward1.gatherArg = 0 ∧ Gen.backward1.scatterArg = 0 ∧
      argOf c Gen.forward2.gatherArg = c.get (!true) ∧ argOf c Gen.forward2.scatterArg = c.get true ∧
      argOf c Gen.backward2.gatherArg = c.get (!false) ∧ argOf c Gen.backward2.scatterArg = c.get false) :=
  ⟨ifaceSelectors_spec fwd, msgSelectors_spec fwd, fun st => bufSelectors_spec fwd st, fun c hc => wrappers_spec c hc⟩

/-- **datatype_selectors_regenerated.**  `DatatypeCommunicator` as read from the current communicator.hh: composing which
    `messageTypes` slot `createDataTypes<…,send>` fills, which datatype `createRequests<V,createForward>` hands to
    `MPI_Recv_init` / `MPI_Ssend_init`, which request set it fills and which one `forward()` / `backward()` start — in
    direction `fwd` the receives use the datatype built from the model's receive side of the (unstripped) interface entry
    and the sends the one built from the send side (`dtNeighbours`, `datatype_calls`); the receives go to the target
    container forward and to the source container backward, the sends leave from the other one, and each datatype is
    applied to the container its displacements were computed on. -/
theorem datatype_selectors_regenerated (fwd : Bool) (e : Info × Info) :
    dtRecvList fwd e = some (recvSide fwd e) ∧ dtSendList fwd e = some (sendSide fwd e) ∧
    dtRecvCont fwd = some (if fwd then .second else .first) ∧ dtRecvTypeCont fwd = dtRecvCont fwd ∧
    dtSendCont fwd = some (if fwd then .first else .second) ∧ dtSendTypeCont fwd = dtSendCont fwd :=
  dtSelectors_spec fwd e

/-- **loops_regenerated.**  The counting loops of `MessageSizeCalculator<Data,VariableSize>`, of both `MessageGatherer`s and of
    both `MessageScatterer`s, with start value and condition as read from the current communicator.hh, visit exactly
    `0 … n-1` (`n` = `info.size()` resp. `CommPolicy::getSize(data, info[i])`); with the statements the translator recognised
    (`entries += getSize(data, info[i])`; `buffer[index++] = gather(data, info[i][, j])`; `scatter(data, buffer[index++ | i],
    info[i][, j])`; `index` set to 0 once per call and advanced once per element) the nested loops compute the model's
    `sizeCalc` and enumerate the model's `slots` — the order in which `gatherBuf` fills and `scatterCalls` reads a message. -/
theorem loops_regenerated (cs : Nat → Nat) (info : Info) :
    (∀ n, Gen.loop_sizeVarI n = List.range n ∧ Gen.loop_gatherOneI n = List.range n ∧ Gen.loop_gatherVarI n = List.range n ∧
      Gen.loop_gatherVarJ n = List.range n ∧ Gen.loop_scatterOneI n = List.range n ∧ Gen.loop_scatterVarI n = List.range n ∧
      Gen.loop_scatterVarJ n = List.range n) ∧
    (((Gen.loop_sizeVarI info.size).map fun i => cs (info.idx.getD i 0)).sum = sizeCalc cs info ∧
      slotsLoop Gen.loop_gatherVarI Gen.loop_gatherVarJ cs info = slots cs info ∧
      slotsLoop Gen.loop_gatherOneI (fun _ => [0]) cs info = slots (fun _ => 1) info ∧
      slotsLoop Gen.loop_scatterVarI Gen.loop_scatterVarJ cs info = slots cs info ∧
      slotsLoop Gen.loop_scatterOneI (fun _ => [0]) cs info = slots (fun _ => 1) info) ∧
    Gen.counter_gatherOne = (0, 1) ∧ Gen.counter_gatherVar = (0, 1) ∧ Gen.counter_scatterVar = (0, 1) :=
  ⟨loops_spec, loopsModel_spec cs info, rfl, rfl, rfl⟩

/-! ## Non-vacuity: the hypotheses are satisfiable by non-trivial decompositions

`exSys`: three processes, one index set each (global, local, attribute, public); attributes 0 = owner,
1 = overlap.  Process 0 owns 0,1 and holds 2 as overlap; process 1 owns 2,3 and holds 1 as overlap; process 2
holds 1 and 2 as overlap.  `ex`: owner → overlap, scalar payload.  `exBack`: overlap → owner (two senders per
owner entry: the accumulation case).  `exRed`: two processes, two index sets each (redistribution), process 0
keeps global index 0 (message to itself), three components per index. -/

def exSys : System :=
  { P := 3,
    rank := fun p => match p with
      | 0 => { src := [⟨0, 0, 0, true⟩, ⟨1, 1, 0, true⟩, ⟨2, 2, 1, true⟩], tgt := [], two := false }
      | 1 => { src := [⟨1, 0, 1, true⟩, ⟨2, 1, 0, true⟩, ⟨3, 2, 0, true⟩], tgt := [], two := false }
      | 2 => { src := [⟨1, 0, 1, true⟩, ⟨2, 1, 1, true⟩], tgt := [], two := false }
      | _ => { src := [], tgt := [], two := false } }

def ex : Setting :=
  { ign := false, S := fun a => a == 0, T := fun a => a == 1, sys := exSys, sz := 8,
    csS := fun _ _ => 1, csT := fun _ _ => 1, blk := fun _ => 1 }

def exBack : Setting := { ex with S := fun a => a == 1, T := fun a => a == 0 }

theorem exSys_wf : WF exSys := by
  constructor <;> intro p <;> match p with
  | 0 => simp [exSys, StrictSorted, RankData.tgtSet]
  | 1 => simp [exSys, StrictSorted, RankData.tgtSet]
  | 2 => simp [exSys, StrictSorted, RankData.tgtSet]
  | n + 3 => simp [exSys, StrictSorted, RankData.tgtSet]

theorem ex_ok : ex.OK := ⟨exSys_wf, by decide, ⟨fun _ _ _ => rfl, fun _ _ _ => rfl⟩⟩
theorem exBack_ok : exBack.OK := ⟨exSys_wf, by decide, ⟨fun _ _ _ => rfl, fun _ _ _ => rfl⟩⟩

/-- interface_spec / interface_neighbours / interface_mirror: non-empty, asymmetric interfaces -/
example : ex.iface 0 = [(1, ⟨1, [1]⟩, ⟨1, [2]⟩), (2, ⟨1, [1]⟩, ⟨0, []⟩)] := by decide
example : ex.iface 2 = [(0, ⟨0, []⟩, ⟨1, [0]⟩), (1, ⟨0, []⟩, ⟨1, [1]⟩)] := by decide
example : (ex.sendL 0 2).map (·.g) = [1] ∧ (ex.recvL 2 0).map (·.g) = [1] := by decide
/-- forward_calls / forward_exactly_once / order_irrelevant_calls: two admissible schedules that differ -/
example : (ex.comm 2).postedRecvs true = [0, 1] := by decide
example : Sched ex true 2 [1, 0] [1, 0] := ⟨by decide, by decide, by decide, by decide⟩
example : Sched ex true 2 [0, 1] [0, 1] := ⟨by decide, by decide, by decide, by decide⟩
example : ex.expectedCalls (fun p l j => (p, l, j)) 2 = [((0, 1, 0), 0, 0), ((1, 1, 0), 1, 0)] := by decide
/-- forward_copy_spec: every target entry of process 2 has one sender -/
example : ((ex.expectedCalls (fun p l j => (p, l, j)) 2).map (·.2)).Nodup := by decide
/-- forward_add_spec: owner entry 1 of process 0 receives from processes 1 and 2 -/
example : exBack.expectedCalls (fun p l j => (p, l, j)) 0 = [((1, 0, 0), 1, 0), ((2, 0, 0), 1, 0)] := by decide
/-- backward_calls / backward_*_spec / recv_posted_iff_send_posted with `fwd = false` -/
example : (ex.comm 0).postedRecvs false = [1, 2] ∧ (ex.comm 1).postedSends false = [0] := by decide
example : Sched ex false 0 [2, 1] [1, 2] := ⟨by decide, by decide, by decide, by decide⟩

/-- datatype_calls / datatype_copy_spec: the neighbours of process 2 with the index lists behind the datatypes -/
example : dtNeighbours (rawInterfaceOf ex.ign ex.S ex.T ex.sys) true 2 = [(0, ⟨1, [1]⟩, ⟨1, [0]⟩), (1, ⟨1, [1]⟩, ⟨1, [1]⟩)] := by
  decide

/-- a container with read-after-write semantics: functions from (local index, component) to values -/
def fnScatterCopy {Val} (d : Nat → Nat → Val) (v : Val) (l j : Nat) : Nat → Nat → Val :=
  fun l' j' => if l' = l ∧ j' = j then v else d l' j'
def fnScatterAdd (d : Nat → Nat → Int) (v : Int) (l j : Nat) : Nat → Nat → Int :=
  fun l' j' => if l' = l ∧ j' = j then d l j + v else d l' j'
example {Val} : CopyStore (fun (d : Nat → Nat → Val) => d) fnScatterCopy := ⟨fun _ _ _ _ _ _ => rfl⟩
example : AddStore (· + ·) (fun (d : Nat → Nat → Int) => d) fnScatterAdd := ⟨fun _ _ _ _ _ _ => rfl⟩

def exRedSys : System :=
  { P := 2,
    rank := fun p => match p with
      | 0 => { src := [⟨0, 1, 0, true⟩, ⟨1, 0, 0, true⟩], tgt := [⟨0, 0, 0, true⟩, ⟨2, 1, 0, true⟩], two := true }
      | 1 => { src := [⟨2, 0, 0, true⟩], tgt := [⟨1, 0, 0, true⟩], two := true }
      | _ => { src := [], tgt := [], two := true } }

def exRed : Setting :=
  { ign := true, S := fun a => a == 0, T := fun a => a == 0, sys := exRedSys, sz := 8,
    csS := fun _ _ => 3, csT := fun _ _ => 3, blk := fun _ => 3 }

theorem exRed_ok : exRed.OK := by
  refine ⟨?_, by decide, ⟨fun _ _ _ => rfl, fun _ _ _ => rfl⟩⟩
  constructor <;> intro p <;> match p with
  | 0 => simp [exRed, exRedSys, StrictSorted, RankData.tgtSet]
  | 1 => simp [exRed, exRedSys, StrictSorted, RankData.tgtSet]
  | n + 2 => simp [exRed, exRedSys, StrictSorted, RankData.tgtSet]

/-- two index sets: process 0 is its own neighbour; multi-component slices -/
example : exRed.iface 0 = [(0, ⟨1, [1]⟩, ⟨1, [0]⟩), (1, ⟨1, [0]⟩, ⟨1, [1]⟩)] := by decide
example : (exRed.comm 0).msgs = [(0, ⟨0, 24⟩, ⟨0, 24⟩), (1, ⟨3, 24⟩, ⟨3, 24⟩)] := by decide
example : Sched exRed true 0 [1, 0] [0, 1] := ⟨by decide, by decide, by decide, by decide⟩


/-! ### round two -/

/-- expected_iff: process 0 owns global index 1 (local 1), process 2 holds it as overlap (local 0) -/
example : ((0, (1 : Int), 0), ((0, 1, 0), 0, 0)) ∈ ex.expectedTagged (fun p l j => (p, l, j)) 2 := by decide

/-- a history on `ex`: one forward, then one backward communication, with schedules that are not in rank order -/
def exRoundF : Round :=
  { fwd := true, arr := fun q => match q with | 0 => [1] | 1 => [0] | _ => [1, 0],
    order := fun q => match q with | 0 => [1] | 1 => [0] | _ => [1, 0] }
def exRoundB : Round :=
  { fwd := false, arr := fun q => match q with | 0 => [2, 1] | 1 => [2, 0] | _ => [],
    order := fun q => match q with | 0 => [1, 2] | 1 => [2, 0] | _ => [] }

/-- AllSched: every schedule of the history is admissible -/
example : AllSched ex [exRoundF, exRoundB] := by
  intro r hr q hq
  simp only [List.mem_cons, List.mem_nil_iff, or_false] at hr
  rcases hr with rfl | rfl
  · match q, hq with
    | 0, _ => exact ⟨by decide, by decide, by decide, by decide⟩
    | 1, _ => exact ⟨by decide, by decide, by decide, by decide⟩
    | 2, _ => exact ⟨by decide, by decide, by decide, by decide⟩
    | n + 3, h => exact absurd h (by simp [ex, exSys])
  · match q, hq with
    | 0, _ => exact ⟨by decide, by decide, by decide, by decide⟩
    | 1, _ => exact ⟨by decide, by decide, by decide, by decide⟩
    | 2, _ => exact ⟨by decide, by decide, by decide, by decide⟩
    | n + 3, h => exact absurd h (by simp [ex, exSys])

/-- BufOK: buffers of the allocated sizes (2 and 1 elements on process 0) holding junk -/
def exSt : Nat → PState (Nat × Nat × Nat) (Nat → Nat → Nat × Nat × Nat) := fun p =>
  { cont := { c0 := fun l j => (p, l, j), c1 := fun l j => (p, l, j), one := true },
    b0 := List.replicate ((ex.comm p).sendElems true) (9, 9, 9),
    b1 := List.replicate ((ex.comm p).sendElems false) (7, 7, 7) }
example : BufOK ex.sys.P ex.comm exSt := fun p _ => ⟨by simp [exSt], by simp [exSt]⟩
example : (ex.comm 0).sendElems true = 2 ∧ (ex.comm 0).sendElems false = 1 := by decide

/-- rebuild_is_fresh: the communicator object of `exBack` (other message sizes for neighbour 2), built again for `ex` -/
example : (exBack.comm 0).msgs ≠ (ex.comm 0).msgs ∧
    ((exBack.comm 0).build ex.sz (ex.csS 0) (ex.csT 0) (ex.iface 0)).msgs = (ex.comm 0).msgs := by decide

/-- comm_progress / comm_measure: a first move, and a waiting process whose requests are all matched -/
example : CommStep ex.comm true 3 (fun _ => Phase.idle) (fun x => if x = 1 then Phase.posted else Phase.idle) :=
  CommStep.post _ 1 (by decide) rfl
example : canFinish ex.comm true (fun _ => Phase.posted) 2 := by unfold canFinish; decide
example : todoSum 3 (fun _ => Phase.idle) = 6 := by decide

/-- copy_some_sender / datatype_copy_spec_backward: backward on `ex` sends overlap values to the owners; owner entry 1
    of process 0 has two senders, the entries of process 1 … -/
example : (ex.expectedBack (fun p l j => (p, l, j)) 0).map (·.2) = [(1, 0), (1, 0)] := by decide
example : ((exBack.expectedBack (fun p l j => (p, l, j)) 2).map (·.2)).Nodup := by decide


/-- setExpr_spec / attrset_tables: a negated union of a range and an item (mask 1 written as `A1` in the harness) -/
example : (altTable.getD 1 .empty).contains 0 = true ∧ (altTable.getD 1 .empty).contains 2 = false := by decide

/-! ### the asynchronous system on `ex` (round three)

forward twice; processes 0 and 1 send to each other and to 2, process 2 only receives (so on 0 and 1 the neighbour 2 sits
behind the number of posted receives: the position a send-wait loop bounded by `numberOfRealRecvRequests` would miss) -/
example : (ex.comm 0).boundVal true .realRecvs = 1 ∧ (ex.comm 0).boundVal true .neighbours = 2 ∧
    (ex.comm 0).postedSends true = [1, 2] ∧ (ex.comm 0).waitedSends true = [1, 2] := by decide

def exA : ASys (Nat × Nat × Nat) (Nat → Nat → Nat × Nat × Nat) :=
  ex.asys (fun d l j => d l j) fnScatterCopy [true, true] (fun _ _ c => c)

example : (ex.comm 0).postedSends true = [1, 2] ∧ (ex.comm 1).postedSends true = [0, 2] ∧ (ex.comm 2).postedSends true = [] ∧
   (ex.comm 2).postedRecvs true = [0, 1] := by decide

def exS1 : AState (Nat × Nat × Nat) (Nat → Nat → Nat × Nat × Nat) := AState.init exSt
def exS2 := ({ σ := upd exS1.σ 0 (enterProc exA 0 (exS1.σ 0)), gh := exS1.gh } : AState _ _)
def exS3 := ({ σ := upd exS2.σ 1 (enterProc exA 1 (exS2.σ 1)), gh := exS2.gh } : AState _ _)
def exS4 := ({ σ := upd exS3.σ 2 (enterProc exA 2 (exS3.σ 2)), gh := exS3.gh } : AState _ _)

example : (exS4.σ 1).outS = [] ++ (0, 0) :: [(2, 0)] := by decide

def trans (s : AState (Nat × Nat × Nat) (Nat → Nat → Nat × Nat × Nat)) (p q k' : Nat) (pre post : List (Nat × Nat)) :
    AState (Nat × Nat × Nat) (Nat → Nat → Nat × Nat × Nat) :=
  { σ := let σ1 := upd s.σ p { s.σ p with outS := pre ++ post }
         upd σ1 q (landProc exA q p (transferMsg exA p q k' (s.σ p)) (σ1 q)),
    gh := s.gh }
def exS5 := trans exS4 1 0 0 [] [(2, 0)]
def exS6 := trans exS5 1 2 0 [] []
def exS7 := trans exS6 0 1 0 [] [(2, 0)]
def exS8 : AState (Nat × Nat × Nat) (Nat → Nat → Nat × Nat × Nat) :=
  { σ := upd exS7.σ 1 (finishProc exA 1 [0] (exS7.σ 1)),
    gh := fun k x => if k = (exS7.σ 1).k ∧ x = 1 then some ((exS7.σ 1).arrd, [0]) else exS7.gh k x }
def exS9 := ({ σ := upd exS8.σ 1 (enterProc exA 1 (exS8.σ 1)), gh := exS8.gh } : AState _ _)

theorem exS4_reach : AReach exA exSt exS4 :=
  AReach.step (AReach.step (AReach.step AReach.init (AStep.enter _ 0 (by decide) rfl (by decide)))
    (AStep.enter _ 1 (by decide) rfl (by decide))) (AStep.enter _ 2 (by decide) rfl (by decide))

theorem exS9_reach : AReach exA exSt exS9 := by
  have h5 : AReach exA exSt exS5 :=
    AReach.step exS4_reach (AStep.transfer exS4 1 0 0 [] [(2, 0)] (by decide) (by decide) (by decide) (by decide) (by decide) (by decide))
  have h6 : AReach exA exSt exS6 :=
    AReach.step h5 (AStep.transfer exS5 1 2 0 [] [] (by decide) (by decide) (by decide) (by decide) (by decide) (by decide))
  have h7 : AReach exA exSt exS7 :=
    AReach.step h6 (AStep.transfer exS6 0 1 0 [] [(2, 0)] (by decide) (by decide) (by decide) (by decide) (by decide) (by decide))
  have h8 : AReach exA exSt exS8 :=
    AReach.step h7 (AStep.finish exS7 1 [0] (by decide) (by decide) (by decide) (by decide) (by decide))
  exact AReach.step h8 (AStep.enter exS8 1 (by decide) (by decide) (by decide))

-- process 1 is inside its second communication, 0 and 2 still inside the first; 0 waits for its send to 2 only
example : (exS9.σ 1).k = 1 ∧ (exS9.σ 1).inC = true ∧ (exS9.σ 0).k = 0 ∧ (exS9.σ 0).pendR = [] ∧ (exS9.σ 0).outS = [(2, 0)] ∧
    (exS9.σ 2).pendR = [0] ∧ (exS9.σ 1).outS = [(0, 1), (2, 1)] ∧ exS9.gh 0 1 = some ([0], [0]) := by decide

/-- async_message_is_gathered: in `exS4` MPI can transfer the send of 0 to 2 -/
example : (2, 0) ∈ (exS4.σ 0).outS ∧ (exS4.σ 2).inC = true ∧ 0 ∈ (exS4.σ 2).pendR := by decide
/-- async_progress / async_measure: `exS9` is not final -/
example : ∃ p, p < ex.sys.P ∧ (exS9.σ p).k < [true, true].length := ⟨0, by decide, by decide⟩

/-! ### round four -/
-- `strip` as regenerated drops the middle neighbour (two empty lists) and keeps one with only a receive list
example : stripG [(0, ⟨1, [4]⟩, ⟨0, []⟩), (1, ⟨0, []⟩, ⟨0, []⟩), (2, ⟨0, []⟩, ⟨1, [3]⟩)] =
    [(0, ⟨1, [4]⟩, ⟨0, []⟩), (2, ⟨0, []⟩, ⟨1, [3]⟩)] := by decide
example : interfaceOfG ex.ign ex.S ex.T ex.sys 0 = [(1, ⟨1, [1]⟩, ⟨1, [2]⟩), (2, ⟨1, [1]⟩, ⟨0, []⟩)] := by decide
-- the regenerated loop of `build(source, dest, interface)` on the redistribution example: 3 components of 8 bytes
example : layoutG true exRed.sz (exRed.csS 0) (exRed.csT 0) (exRed.iface 0) 0 0 = [(0, ⟨0, 24⟩, ⟨0, 24⟩), (1, ⟨3, 24⟩, ⟨3, 24⟩)] := by
  decide
-- an entry with nothing to send and nothing to receive gets no message information, the offsets do not move
example : layoutG false 8 (fun _ => 1) (fun _ => 1) [(0, ⟨0, []⟩, ⟨0, []⟩), (1, ⟨2, [5, 6]⟩, ⟨1, [7]⟩), (3, ⟨0, []⟩, ⟨1, [2]⟩)] 0 0 =
    [(1, ⟨0, 16⟩, ⟨0, 8⟩), (3, ⟨2, 0⟩, ⟨1, 8⟩)] := by decide
example : pick (Gen.gatherOneIndex.side false) ((⟨1, [4]⟩, ⟨1, [9]⟩) : Info × Info) = ⟨1, [9]⟩ ∧
    pick (Gen.scatterVarInfo.side false) ((⟨1, [4]⟩, ⟨1, [9]⟩) : Info × Info) = ⟨1, [4]⟩ := by decide
example : (⟨(5 : Nat), 6, false⟩ : Cont Nat).one = false ∧ argOf (⟨(5 : Nat), 6, false⟩ : Cont Nat) Gen.backward2.gatherArg = 6 := by decide
example : dtFlagOf false = some false ∧ dtPassOf (Gen.dtReqRecvType.side false) = some true ∧
    dtRecvList false ((⟨1, [4]⟩, ⟨1, [9]⟩) : Info × Info) = some ⟨1, [4]⟩ ∧ dtRecvCont false = some .first := by decide

example : Gen.loop_gatherVarI 3 = [0, 1, 2] ∧ Gen.loop_scatterVarJ 0 = [] := by decide
example : slotsLoop Gen.loop_gatherVarI Gen.loop_gatherVarJ (fun l => l % 3) ⟨3, [4, 9, 5]⟩ = [(4, 0), (5, 0), (5, 1)] := by decide

end DV.C05
