/-
C10 — Dune::bigunsignedint<k> is arithmetic modulo 2^w: the property theorems.

All theorems are about the executable model `DuneVerif/Model/C10.lean` (the definitions the driver runs against the
real class) and about the constants regenerated from bigunsignedint.hh in `DuneVerif/Gen/C10.lean`.
They hold for every digit count `n` (unbounded) and all well-formed operands `Wf n a` (n uint16 digits,
little-endian); `val a = Σ aᵢ·B^i`, `B = 2^bits`, `W n = B^n = 2^(bits·n)`.
Lemmas live in `DuneVerif/Proofs/C10*.lean`; every `example` shows that the hypotheses of the theorem above it
are satisfied by a concrete non-trivial input (and what the theorem then says about it).
-/
import DuneVerif.Proofs.C10Arith
import DuneVerif.Proofs.C10Cmp
import DuneVerif.Proofs.C10Bit
import DuneVerif.Proofs.C10Shift
import DuneVerif.Proofs.C10Mul
import DuneVerif.Proofs.C10Div
import DuneVerif.Proofs.C10Conv

namespace DV.C10
open DV.C10.Gen

/-! ## the constants of the header mean what the proofs assume -/

/-- the masks generated from the header are what the digit arithmetic needs: `bitmask` selects exactly one digit,
    `overflowmask` keeps a carry of 0/1 (odd), `compbitmask` keeps the digit above the low `bits` bits, four hex
    characters per digit, and `todouble` keeps digits that fit a 53-bit mantissa with ≥ 32 bits below the leading
    digit -/
theorem constants_ok :
    bitmask = 2 ^ bits - 1 ∧ overflowmask % 2 = 1 ∧ (compbitmask >>> bits) &&& bitmask = bitmask ∧
    hexdigits * 4 = bits ∧ B = 65536 ∧ 0 < representableDigits ∧
    B ^ representableDigits ≤ 2 ^ 53 ∧ 2 ^ 32 ≤ B ^ (representableDigits - 1) :=
  ⟨bitmask_eq, overflowmask_odd, compbitmask_keeps, hexdigits_eq, B_eq, representableDigits_pos,
    representable_fit, representable_margin⟩

/-- the modulus is 2^w with w = bits·n = `numeric_limits::digits` -/
theorem modulus_eq (n : Nat) : W n = 2 ^ (bits * n) := W_eq n

/-- the storage width bits·n is the least multiple of `bits` that holds k bits; n ≥ 1 for k ≥ 1 -/
theorem width_spec (k : Nat) (hk : 0 < k) :
    k ≤ bits * ndigits k ∧ bits * ndigits k < k + bits ∧ 1 ≤ ndigits k :=
  ⟨(ndigits_spec k).1, (ndigits_spec k).2, ndigits_pos hk⟩

example : ndigits 8 = 1 ∧ ndigits 16 = 1 ∧ ndigits 24 = 2 ∧ ndigits 100 = 7 ∧ ndigits 128 = 8 := by decide

/-- every `singleproduct.digit[i+m]` (i, m < n) written by `operator*=` lies inside the `bigunsignedint<2k>` -/
theorem mul_temp_fits (k : Nat) : 2 * ndigits k - 1 ≤ ndigits (2 * k) := (ndigits_double k).1

/-! ## representation -/

/-- a well-formed value is below the modulus -/
theorem val_lt_modulus {n : Nat} {a : List Nat} (ha : Wf n a) : val a < W n := val_lt ha

example : Wf 3 [0xffff, 0xffff, 0xffff] ∧ val [0xffff, 0xffff, 0xffff] = W 3 - 1 := by decide

/-- the digit list is determined by the value: equal values have equal representations -/
theorem val_injective {n : Nat} {a b : List Nat} (ha : Wf n a) (hb : Wf n b) (h : val a = val b) : a = b :=
  val_inj ha hb h

/-- `ofNat n v` (how the driver reads an operand) is the well-formed representation of `v mod W n` -/
theorem ofNat_spec (n v : Nat) : Wf n (ofNat n v) ∧ val (ofNat n v) = v % W n :=
  ⟨ofNat_wf n v, ofNat_val n v⟩

example : ofNat 2 0x12345678 = [0x5678, 0x1234] := by decide

/-! ## addition, increment, subtraction -/

theorem add_wf_val {n : Nat} {a x : List Nat} (ha : Wf n a) (hx : Wf n x) :
    Wf n (add a x) ∧ val (add a x) = (val a + val x) % W n :=
  ⟨add_wf ha hx, add_val' ha hx⟩

theorem add_val {n : Nat} {a x : List Nat} (ha : Wf n a) (hx : Wf n x) :
    val (add a x) = (val a + val x) % W n := add_val' ha hx

-- a carry running through every digit and out of the top
example : Wf 3 [0xffff, 0xffff, 0xffff] ∧ Wf 3 [1, 0, 0] ∧ add [0xffff, 0xffff, 0xffff] [1, 0, 0] = [0, 0, 0] := by
  decide

theorem incr_wf_val {n : Nat} {a : List Nat} (ha : Wf n a) :
    Wf n (incr a) ∧ val (incr a) = (val a + 1) % W n :=
  ⟨incr_wf ha, incr_val' ha⟩

theorem incr_val {n : Nat} {a : List Nat} (ha : Wf n a) : val (incr a) = (val a + 1) % W n := incr_val' ha

example : Wf 2 [0xffff, 0x7fff] ∧ incr [0xffff, 0x7fff] = [0, 0x8000] := by decide

theorem sub_wf_val {n : Nat} {a x : List Nat} (ha : Wf n a) (hx : Wf n x) :
    Wf n (sub a x) ∧ val (sub a x) = (val a + W n - val x) % W n :=
  ⟨sub_wf ha hx, sub_val' ha hx⟩

/-- subtraction modulo W (`val x < W n`, so `val a + W n - val x` is the non-negative representative) -/
theorem sub_val {n : Nat} {a x : List Nat} (ha : Wf n a) (hx : Wf n x) :
    val (sub a x) = (val a + W n - val x) % W n := sub_val' ha hx

-- a borrow running through every digit and out of the top: 0 - 1 = W - 1
example : Wf 3 [0, 0, 0] ∧ Wf 3 [1, 0, 0] ∧ sub [0, 0, 0] [1, 0, 0] = [0xffff, 0xffff, 0xffff] := by decide

/-! ## multiplication -/

/-- `operator*=` for `bigunsignedint<k>`: both operands have `ndigits k` digits; the double-width temporary has
    `ndigits (2k) ≥ ndigits k` digits (`mul_temp_fits`), which is all the truncation needs. -/
theorem mul_wf_val {k : Nat} {a x : List Nat} (ha : Wf (ndigits k) a) (hx : Wf (ndigits k) x) :
    Wf (ndigits k) (mul k a x) ∧ val (mul k a x) = (val a * val x) % W (ndigits k) := mul_spec ha hx

theorem mul_val {k : Nat} {a x : List Nat} (ha : Wf (ndigits k) a) (hx : Wf (ndigits k) x) :
    val (mul k a x) = (val a * val x) % W (ndigits k) := (mul_spec ha hx).2

-- (W-1)·(W-1) = 1 mod W, with k = 24 (not a multiple of 16): two digits, three-digit temporary
example : Wf (ndigits 24) [0xffff, 0xffff] ∧ mul 24 [0xffff, 0xffff] [0xffff, 0xffff] = [1, 0] := by decide

/-! ## division and remainder -/

/-- `operator/=` with a non-zero divisor returns the exact quotient; the fuel `val a + 1` of the model's
    repeated-subtraction loop is never exhausted (`divLoop_fuel_irrelevant`). -/
theorem div_val {n : Nat} {a x : List Nat} (ha : Wf n a) (hx : Wf n x) (h : val x ≠ 0) :
    ∃ q, div a x = .ok q ∧ Wf n q ∧ val q = val a / val x := div_spec ha hx h

theorem mod_val {n : Nat} {a x : List Nat} (ha : Wf n a) (hx : Wf n x) (h : val x ≠ 0) :
    ∃ r, mod a x = .ok r ∧ Wf n r ∧ val r = val a % val x := mod_spec ha hx h

example : Wf 2 [0x0003, 0x0001] ∧ Wf 2 [0x8000, 0] ∧ val [0x8000, 0] ≠ 0 ∧
    div [0x0003, 0x0001] [0x8000, 0] = .ok [2, 0] ∧ mod [0x0003, 0x0001] [0x8000, 0] = .ok [3, 0] := by decide

/-- a zero divisor is reported (the model's `mathError` is the code's `DUNE_THROW(MathError)`), never looped on -/
theorem div_zero_reported {n : Nat} {a x : List Nat} (hx : Wf n x) (h : val x = 0) :
    div a x = .mathError := div_zero' hx h

theorem mod_zero_reported {n : Nat} {a x : List Nat} (hx : Wf n x) (h : val x = 0) :
    mod a x = .mathError := mod_zero' hx h

example : Wf 2 [0, 0] ∧ val [0, 0] = 0 ∧ div [5, 0] [0, 0] = .mathError ∧ mod [5, 0] [0, 0] = .mathError := by
  decide

/-- termination of `while (*this >= x)`: any fuel above `val a` gives the same result, i.e. the loop has left
    through its exit test; with remainder `< val x` (from `mod_val`). -/
theorem divLoop_fuel_irrelevant {n : Nat} {a x r : List Nat} (ha : Wf n a) (hx : Wf n x) (hr : Wf n r)
    (hpos : 0 < val x) {f1 f2 : Nat} (h1 : val a < f1) (h2 : val a < f2) :
    divLoop f1 a x r = divLoop f2 a x r := divLoop_fuel ha hx hr hpos h1 h2

/-! ## bitwise operations -/

theorem band_wf_val {n : Nat} {a x : List Nat} (ha : Wf n a) (hx : Wf n x) :
    Wf n (band a x) ∧ val (band a x) = val a &&& val x :=
  ⟨⟨by rw [band_length a x (by rw [ha.1, hx.1]), ha.1], band_digs a x ha.2 hx.2⟩,
    band_val'' a x (by rw [ha.1, hx.1]) ha.2 hx.2⟩

theorem bor_wf_val {n : Nat} {a x : List Nat} (ha : Wf n a) (hx : Wf n x) :
    Wf n (bor a x) ∧ val (bor a x) = val a ||| val x :=
  ⟨⟨by rw [bor_length a x (by rw [ha.1, hx.1]), ha.1], bor_digs a x ha.2 hx.2⟩,
    bor_val'' a x (by rw [ha.1, hx.1]) ha.2 hx.2⟩

theorem bxor_wf_val {n : Nat} {a x : List Nat} (ha : Wf n a) (hx : Wf n x) :
    Wf n (bxor a x) ∧ val (bxor a x) = val a ^^^ val x :=
  ⟨⟨by rw [bxor_length a x (by rw [ha.1, hx.1]), ha.1], bxor_digs a x ha.2 hx.2⟩,
    bxor_val'' a x (by rw [ha.1, hx.1]) ha.2 hx.2⟩

example : Wf 2 [0xff00, 0x0f0f] ∧ Wf 2 [0x0ff0, 0xffff] ∧
    band [0xff00, 0x0f0f] [0x0ff0, 0xffff] = [0x0f00, 0x0f0f] ∧
    bor [0xff00, 0x0f0f] [0x0ff0, 0xffff] = [0xfff0, 0xffff] ∧
    bxor [0xff00, 0x0f0f] [0x0ff0, 0xffff] = [0xf0f0, 0xf0f0] := by decide

/-- complement: `~a = W - 1 - a` -/
theorem bnot_wf_val {n : Nat} {a : List Nat} (ha : Wf n a) :
    Wf n (bnot a) ∧ val (bnot a) = W n - 1 - val a :=
  ⟨⟨by rw [bnot_length, ha.1], bnot_digs a⟩, by rw [bnot_val'' a ha.2, ha.1]⟩

example : Wf 2 [0x0001, 0x8000] ∧ bnot [0x0001, 0x8000] = [0xfffe, 0x7fff] := by decide

/-! ## shifts -/

/-- left shift by any amount below the width -/
theorem shl_wf_val {n : Nat} {a : List Nat} (ha : Wf n a) {s : Nat} (hs : s < bits * n) :
    Wf n (shl a s) ∧ val (shl a s) = (val a * 2 ^ s) % W n := shl_spec ha hs

/-- right shift (the theorem does not even need `s < bits * n`; the code is only specified below the width) -/
theorem shr_wf_val {n : Nat} {a : List Nat} (ha : Wf n a) (s : Nat) :
    Wf n (shr a s) ∧ val (shr a s) = val a / 2 ^ s := shr_spec ha s

-- a shift across a digit boundary with a bit remainder: 17 = 1 digit + 1 bit
example : Wf 3 [0x8001, 0xffff, 0x0001] ∧ 17 < bits * 3 ∧
    shl [0x8001, 0xffff, 0x0001] 17 = [0, 0x0002, 0xffff] ∧
    shr [0x8001, 0xffff, 0x0001] 17 = [0xffff, 0, 0] := by decide

/-! ## comparisons -/

theorem lt_iff {n : Nat} {a x : List Nat} (ha : Wf n a) (hx : Wf n x) : lt a x = decide (val a < val x) :=
  lt_val' ha hx
theorem le_iff {n : Nat} {a x : List Nat} (ha : Wf n a) (hx : Wf n x) : le a x = decide (val a ≤ val x) :=
  le_val' ha hx
theorem gt_iff {n : Nat} {a x : List Nat} (ha : Wf n a) (hx : Wf n x) : gt a x = decide (val a > val x) :=
  gt_val' ha hx
theorem ge_iff {n : Nat} {a x : List Nat} (ha : Wf n a) (hx : Wf n x) : ge a x = decide (val a ≥ val x) :=
  ge_val' ha hx
theorem eq_iff {n : Nat} {a x : List Nat} (ha : Wf n a) (hx : Wf n x) : eq a x = decide (val a = val x) :=
  eq_val' ha hx
theorem ne_iff {n : Nat} {a x : List Nat} (ha : Wf n a) (hx : Wf n x) : ne a x = decide (val a ≠ val x) :=
  ne_val' ha hx

-- the low digits order the other way round than the values
example : Wf 2 [0xffff, 0x0001] ∧ Wf 2 [0x0000, 0x0002] ∧
    lt [0xffff, 0x0001] [0x0000, 0x0002] = true ∧ le [0xffff, 0x0001] [0xffff, 0x0001] = true ∧
    gt [0xffff, 0x0001] [0x0000, 0x0002] = false ∧ ge [0x0000, 0x0002] [0xffff, 0x0001] = true ∧
    eq [0xffff, 0x0001] [0xffff, 0x0001] = true ∧ ne [0xffff, 0x0001] [0x0000, 0x0002] = true := by decide

/-! ## construction from built-in integers, conversions, limits -/

/-- construction from an unsigned built-in (`uintmax_t`, 64 bits): the value modulo W, for every n
    (n < 4: truncation; n ≥ 4: zero extension) -/
theorem assign_wf_val (n : Nat) {x : Nat} (hx : x < 2 ^ 64) :
    Wf n (assign n x) ∧ val (assign n x) = x % W n :=
  ⟨assign_wf' n x, assign_val' n hx⟩

example : assign 1 0x123456789abcdef0 = [0xdef0] ∧
    assign 5 0x123456789abcdef0 = [0xdef0, 0x9abc, 0x5678, 0x1234, 0] := by decide

/-- `numeric_limits::min()` and the default constructor are `assign 0`: the value 0 -/
theorem min_val (n : Nat) : Wf n (assign n 0) ∧ val (assign n 0) = 0 := by
  refine ⟨assign_wf' n 0, ?_⟩
  rw [assign_val' n (by omega), Nat.zero_mod]

/-- mixed operations with a built-in integer convert it first (`bigunsignedint<k> temp(y); return x+temp;`), so
    they are the big-integer operation on `y mod W`; shown for `+` and `*` (the other operators compose alike) -/
theorem mixed_add_val {n : Nat} {a : List Nat} (ha : Wf n a) {y : Nat} (hy : y < 2 ^ 64) :
    val (add a (assign n y)) = (val a + y) % W n := by
  rw [add_val' ha (assign_wf' n y), assign_val' n hy, Nat.add_mod_mod]

theorem mixed_mul_val {k : Nat} {a : List Nat} (ha : Wf (ndigits k) a) {y : Nat} (hy : y < 2 ^ 64) :
    val (mul k a (assign (ndigits k) y)) = (val a * y) % W (ndigits k) := by
  rw [(mul_spec ha (assign_wf' _ y)).2, assign_val' _ hy, Nat.mul_mod_mod]

-- a built-in operand wider than the big integer (k = 8: one digit)
example : Wf (ndigits 8) [0xffff] ∧ add [0xffff] (assign 1 0x10001) = [0] ∧
    mul 8 [0xffff] (assign (ndigits 8) 0x10002) = [0xfffe] := by decide

/-- construction from a signed built-in: negative values are rejected, non-negative ones are taken modulo W -/
theorem ofSigned_spec (n : Nat) (y : Int) :
    (y < 0 → ofSigned n y = .negative) ∧
    (0 ≤ y → y < 2 ^ 63 → ∃ v, ofSigned n y = .ok v ∧ Wf n v ∧ val v = y.toNat % W n) := by
  refine ⟨fun h => by simp [ofSigned, h], fun h0 h1 => ?_⟩
  have hx : y.toNat < 2 ^ 64 := by omega
  exact ⟨assign n y.toNat, by simp [ofSigned, Int.not_lt.2 h0], assign_wf' n _, assign_val' n hx⟩

example : ofSigned 2 (-1) = .negative ∧ ofSigned 2 0x12345 = .ok [0x2345, 0x0001] := by decide

/-- `touint()` is the low 32 bits of the value for every n ≥ 1, including the one-digit case -/
theorem touint_val {n : Nat} {a : List Nat} (ha : Wf n a) (hn : 1 ≤ n) : touint a = val a % 2 ^ 32 :=
  touint_val' ha hn

example : Wf 1 [0xabcd] ∧ touint [0xabcd] = 0xabcd ∧
    Wf 3 [0x5678, 0x1234, 0xffff] ∧ touint [0x5678, 0x1234, 0xffff] = 0x12345678 := by decide

/-- `todouble()` (as the exact number `mantissa · 2^exponent` the code computes): never above the value, and the
    relative error is below 2^-32 for every magnitude; exactly 0 for 0. -/
theorem todouble_err {n : Nat} {a : List Nat} (ha : Wf n a) :
    todoubleN a ≤ val a ∧ (val a - todoubleN a) * 2 ^ 32 ≤ val a ∧
    (0 < val a → (val a - todoubleN a) * 2 ^ 32 < val a) := todouble_spec ha.2

/-- the mantissa accumulated by the Horner loop is below 2^53, so every step of the loop and the final `ldexp`
    are exact in IEEE double (for values below 2^1024) -/
theorem todouble_mantissa_exact {n : Nat} {a : List Nat} (ha : Wf n a) :
    (todoubleParts a).1 < 2 ^ 53 ∧ todoubleN a = (todoubleParts a).1 * 2 ^ (todoubleParts a).2 := by
  obtain ⟨_, _, _, h, _⟩ := todouble_parts ha.2
  exact ⟨Nat.lt_of_lt_of_le h representable_fit, rfl⟩

-- a value ≥ 2^64 (the case the unrepaired code got wrong): the three leading digits are kept
example : Wf 6 [0xffff, 0xffff, 0x0001, 0x8000, 0x0001, 0] ∧
    todoubleParts [0xffff, 0xffff, 0x0001, 0x8000, 0x0001, 0] = (0x000180000001, 32) ∧
    todoubleN [0xffff, 0xffff, 0x0001, 0x8000, 0x0001, 0] = 0x0001800000010000_0000 := by decide

/-- hex printing denotes the value: parsing the printed characters gives `val a` back -/
theorem print_parse {n : Nat} {a : List Nat} (ha : Wf n a) : parseHexChars (print a) = some (val a) := by
  rw [parseHexChars_eq, parseFrom_print a 0 ha.2, Nat.zero_mul, Nat.zero_add]

example : Wf 2 [0x00ab, 0x0c00] ∧ String.ofList (print [0x00ab, 0x0c00]) = "0c0000ab" := by decide

/-- `numeric_limits::max()` is W - 1 -/
theorem maxVal_wf_val (n : Nat) : Wf n (maxVal n) ∧ val (maxVal n) = W n - 1 :=
  ⟨maxVal_wf n, maxVal_val' n⟩

example : maxVal 2 = [0xffff, 0xffff] := by decide

/-- hashing is consistent with the represented value: the hash is a function of the digits, and equal values
    (of one width) have equal digits -/
theorem hash_congr {n : Nat} {a b : List Nat} (ha : Wf n a) (hb : Wf n b) (h : val a = val b) :
    hash a = hash b := by
  rw [val_inj ha hb h]

example : Wf 2 (ofNat 2 0x10002) ∧ Wf 2 (add [1, 1] [1, 0]) ∧ val (ofNat 2 0x10002) = val (add [1, 1] [1, 0]) := by
  decide

end DV.C10
