/-
C10 — Dune::bigunsignedint<k> is arithmetic modulo 2^w: the property theorems.

All theorems are about the executable model `DuneVerif/Model/C10.lean` (the definitions the driver runs against the
real class) and about the constants regenerated from bigunsignedint.hh in `DuneVerif/Gen/C10.lean`.
They hold for every digit count `n` (unbounded) and all well-formed operands `Wf n a` (n uint16 digits,
little-endian); `val a = Σ aᵢ·B^i`, `B = 2^bits`, `W n = B^n = 2^(bits·n)`.
Lemmas live in `DuneVerif/Proofs/C10*.lean`; every `example` shows that the hypotheses of the theorem above it
are satisfied by a concrete non-trivial input (and what the theorem then says about it).
-/
import DuneVerif.Proofs.C10Arith
import DuneVerif.Proofs.C10Cmp
import DuneVerif.Proofs.C10Bit
import DuneVerif.Proofs.C10Shift
import DuneVerif.Proofs.C10Mul
import DuneVerif.Proofs.C10Div
import DuneVerif.Proofs.C10Conv
import DuneVerif.Proofs.C10Prog
import DuneVerif.Proofs.C10Hist
import DuneVerif.Proofs.C10Mem

namespace DV.C10
open DV.C10.Gen

/-! ## the constants of the header mean what the proofs assume -/

/-- the masks generated from the header are what the digit arithmetic needs: `bitmask` selects exactly one digit,
    `overflowmask` keeps a carry of 0/1 (odd), `compbitmask` keeps the digit above the low `bits` bits, four hex
    characters per digit, and `todouble` keeps digits that fit a 53-bit mantissa with ≥ 32 bits below the leading
    digit -/
theorem constants_ok :
    bitmask = 2 ^ bits - 1 ∧ overflowmask % 2 = 1 ∧ (compbitmask >>> bits) &&& bitmask = bitmask ∧
    hexdigits * 4 = bits ∧ B = 65536 ∧ 0 < representableDigits ∧
    B ^ representableDigits ≤ 2 ^ 53 ∧ 2 ^ 32 ≤ B ^ (representableDigits - 1) :=
  ⟨bitmask_eq, overflowmask_odd, compbitmask_keeps, hexdigits_eq, B_eq, representableDigits_pos,
    representable_fit, representable_margin⟩

/-- the modulus is 2^w with w = bits·n = `numeric_limits::digits` -/
theorem modulus_eq (n : Nat) : W n = 2 ^ (bits * n) := W_eq n

/-- the storage width bits·n is the least multiple of `bits` that holds k bits; n ≥ 1 for k ≥ 1 -/
theorem width_spec (k : Nat) (hk : 0 < k) :
    k ≤ bits * ndigits k ∧ bits * ndigits k < k + bits ∧ 1 ≤ ndigits k :=
  ⟨(ndigits_spec k).1, (ndigits_spec k).2, ndigits_pos hk⟩

example : ndigits 8 = 1 ∧ ndigits 16 = 1 ∧ ndigits 24 = 2 ∧ ndigits 100 = 7 ∧ ndigits 128 = 8 := by decide

/-- every `singleproduct.digit[i+m]` (i, m < n) written by `operator*=` lies inside the `bigunsignedint<2k>` -/
theorem mul_temp_fits (k : Nat) : 2 * ndigits k - 1 ≤ ndigits (2 * k) := (ndigits_double k).1

/-! ## representation -/

/-- a well-formed value is below the modulus -/
theorem val_lt_modulus {n : Nat} {a : List Nat} (ha : Wf n a) : val a < W n := val_lt ha

example : Wf 3 [0xffff, 0xffff, 0xffff] ∧ val [0xffff, 0xffff, 0xffff] = W 3 - 1 := by decide

/-- the digit list is determined by the value: equal values have equal representations -/
theorem val_injective {n : Nat} {a b : List Nat} (ha : Wf n a) (hb : Wf n b) (h : val a = val b) : a = b :=
  val_inj ha hb h

/-- `ofNat n v` (how the driver reads an operand) is the well-formed representation of `v mod W n` -/
theorem ofNat_spec (n v : Nat) : Wf n (ofNat n v) ∧ val (ofNat n v) = v % W n :=
  ⟨ofNat_wf n v, ofNat_val n v⟩

example : ofNat 2 0x12345678 = [0x5678, 0x1234] := by decide

/-! ## addition, increment, subtraction -/

theorem add_wf_val {n : Nat} {a x : List Nat} (ha : Wf n a) (hx : Wf n x) :
    Wf n (add a x) ∧ val (add a x) = (val a + val x) % W n :=
  ⟨add_wf ha hx, add_val' ha hx⟩

theorem add_val {n : Nat} {a x : List Nat} (ha : Wf n a) (hx : Wf n x) :
    val (add a x) = (val a + val x) % W n := add_val' ha hx

-- a carry running through every digit and out of the top
example : Wf 3 [0xffff, 0xffff, 0xffff] ∧ Wf 3 [1, 0, 0] ∧ add [0xffff, 0xffff, 0xffff] [1, 0, 0] = [0, 0, 0] := by
  decide

theorem incr_wf_val {n : Nat} {a : List Nat} (ha : Wf n a) :
    Wf n (incr a) ∧ val (incr a) = (val a + 1) % W n :=
  ⟨incr_wf ha, incr_val' ha⟩

theorem incr_val {n : Nat} {a : List Nat} (ha : Wf n a) : val (incr a) = (val a + 1) % W n := incr_val' ha

example : Wf 2 [0xffff, 0x7fff] ∧ incr [0xffff, 0x7fff] = [0, 0x8000] := by decide

theorem sub_wf_val {n : Nat} {a x : List Nat} (ha : Wf n a) (hx : Wf n x) :
    Wf n (sub a x) ∧ val (sub a x) = (val a + W n - val x) % W n :=
  ⟨sub_wf ha hx, sub_val' ha hx⟩

/-- subtraction modulo W (`val x < W n`, so `val a + W n - val x` is the non-negative representative) -/
theorem sub_val {n : Nat} {a x : List Nat} (ha : Wf n a) (hx : Wf n x) :
    val (sub a x) = (val a + W n - val x) % W n := sub_val' ha hx

-- a borrow running through every digit and out of the top: 0 - 1 = W - 1
example : Wf 3 [0, 0, 0] ∧ Wf 3 [1, 0, 0] ∧ sub [0, 0, 0] [1, 0, 0] = [0xffff, 0xffff, 0xffff] := by decide

/-! ## multiplication -/

/-- `operator*=` for `bigunsignedint<k>`: both operands have `ndigits k` digits; the double-width temporary has
    `ndigits (2k) ≥ ndigits k` digits (`mul_temp_fits`), which is all the truncation needs. -/
theorem mul_wf_val {k : Nat} {a x : List Nat} (ha : Wf (ndigits k) a) (hx : Wf (ndigits k) x) :
    Wf (ndigits k) (mul k a x) ∧ val (mul k a x) = (val a * val x) % W (ndigits k) := mul_spec ha hx

theorem mul_val {k : Nat} {a x : List Nat} (ha : Wf (ndigits k) a) (hx : Wf (ndigits k) x) :
    val (mul k a x) = (val a * val x) % W (ndigits k) := (mul_spec ha hx).2

-- (W-1)·(W-1) = 1 mod W, with k = 24 (not a multiple of 16): two digits, three-digit temporary
example : Wf (ndigits 24) [0xffff, 0xffff] ∧ mul 24 [0xffff, 0xffff] [0xffff, 0xffff] = [1, 0] := by decide

/-! ## division and remainder -/

/-- `operator/=` with a non-zero divisor returns the exact quotient; the fuel `val a / val x + 1` of the model's
    repeated-subtraction loop is never exhausted (`divLoop_fuel_irrelevant`). -/
theorem div_val {n : Nat} {a x : List Nat} (ha : Wf n a) (hx : Wf n x) (h : val x ≠ 0) :
    ∃ q, div a x = .ok q ∧ Wf n q ∧ val q = val a / val x := div_spec ha hx h

theorem mod_val {n : Nat} {a x : List Nat} (ha : Wf n a) (hx : Wf n x) (h : val x ≠ 0) :
    ∃ r, mod a x = .ok r ∧ Wf n r ∧ val r = val a % val x := mod_spec ha hx h

example : Wf 2 [0x0003, 0x0001] ∧ Wf 2 [0x8000, 0] ∧ val [0x8000, 0] ≠ 0 ∧
    div [0x0003, 0x0001] [0x8000, 0] = .ok [2, 0] ∧ mod [0x0003, 0x0001] [0x8000, 0] = .ok [3, 0] := by decide

/-- a zero divisor is reported (the model's `mathError` is the code's `DUNE_THROW(MathError)`), never looped on -/
theorem div_zero_reported {n : Nat} {a x : List Nat} (hx : Wf n x) (h : val x = 0) :
    div a x = .mathError := div_zero' hx h

theorem mod_zero_reported {n : Nat} {a x : List Nat} (hx : Wf n x) (h : val x = 0) :
    mod a x = .mathError := mod_zero' hx h

example : Wf 2 [0, 0] ∧ val [0, 0] = 0 ∧ div [5, 0] [0, 0] = .mathError ∧ mod [5, 0] [0, 0] = .mathError := by
  decide

/-- termination of `while (*this >= x)`: any fuel above the quotient `val a / val x` gives the same result, i.e. the
    loop has left through its exit test after exactly quotient rounds; with remainder `< val x` (from `mod_val`).
    (Round four: strengthened from "fuel above `val a`"; the model's `div`/`mod` now pass `val a / val x + 1`.) -/
theorem divLoop_fuel_irrelevant {n : Nat} {a x r : List Nat} (ha : Wf n a) (hx : Wf n x) (hr : Wf n r)
    (hpos : 0 < val x) {f1 f2 : Nat} (h1 : val a / val x < f1) (h2 : val a / val x < f2) :
    divLoop f1 a x r = divLoop f2 a x r := divLoop_fuel ha hx hr hpos h1 h2

example : Wf 2 [0x0003, 0x0001] ∧ Wf 2 [0x8000, 0] ∧ Wf 2 [0, 0] ∧ 0 < val [0x8000, 0] ∧
    val [0x0003, 0x0001] / val [0x8000, 0] < 3 ∧
    divLoop 3 [0x0003, 0x0001] [0x8000, 0] [0, 0] = ([2, 0], [3, 0]) := by decide

/-! ## bitwise operations -/

theorem band_wf_val {n : Nat} {a x : List Nat} (ha : Wf n a) (hx : Wf n x) :
    Wf n (band a x) ∧ val (band a x) = val a &&& val x :=
  ⟨⟨by rw [band_length a x (by rw [ha.1, hx.1]), ha.1], band_digs a x ha.2 hx.2⟩,
    band_val'' a x (by rw [ha.1, hx.1]) ha.2 hx.2⟩

theorem bor_wf_val {n : Nat} {a x : List Nat} (ha : Wf n a) (hx : Wf n x) :
    Wf n (bor a x) ∧ val (bor a x) = val a ||| val x :=
  ⟨⟨by rw [bor_length a x (by rw [ha.1, hx.1]), ha.1], bor_digs a x ha.2 hx.2⟩,
    bor_val'' a x (by rw [ha.1, hx.1]) ha.2 hx.2⟩

theorem bxor_wf_val {n : Nat} {a x : List Nat} (ha : Wf n a) (hx : Wf n x) :
    Wf n (bxor a x) ∧ val (bxor a x) = val a ^^^ val x :=
  ⟨⟨by rw [bxor_length a x (by rw [ha.1, hx.1]), ha.1], bxor_digs a x ha.2 hx.2⟩,
    bxor_val'' a x (by rw [ha.1, hx.1]) ha.2 hx.2⟩

example : Wf 2 [0xff00, 0x0f0f] ∧ Wf 2 [0x0ff0, 0xffff] ∧
    band [0xff00, 0x0f0f] [0x0ff0, 0xffff] = [0x0f00, 0x0f0f] ∧
    bor [0xff00, 0x0f0f] [0x0ff0, 0xffff] = [0xfff0, 0xffff] ∧
    bxor [0xff00, 0x0f0f] [0x0ff0, 0xffff] = [0xf0f0, 0xf0f0] := by decide

/-- complement: `~a = W - 1 - a` -/
theorem bnot_wf_val {n : Nat} {a : List Nat} (ha : Wf n a) :
    Wf n (bnot a) ∧ val (bnot a) = W n - 1 - val a :=
  ⟨⟨by rw [bnot_length, ha.1], bnot_digs a⟩, by rw [bnot_val'' a ha.2, ha.1]⟩

example : Wf 2 [0x0001, 0x8000] ∧ bnot [0x0001, 0x8000] = [0xfffe, 0x7fff] := by decide

/-! ## shifts -/

/-- left shift by any amount below the width -/
theorem shl_wf_val {n : Nat} {a : List Nat} (ha : Wf n a) {s : Nat} (hs : s < bits * n) :
    Wf n (shl a s) ∧ val (shl a s) = (val a * 2 ^ s) % W n := shl_spec ha hs

/-- right shift (the theorem does not even need `s < bits * n`; the code is only specified below the width) -/
theorem shr_wf_val {n : Nat} {a : List Nat} (ha : Wf n a) (s : Nat) :
    Wf n (shr a s) ∧ val (shr a s) = val a / 2 ^ s := shr_spec ha s

-- a shift across a digit boundary with a bit remainder: 17 = 1 digit + 1 bit
example : Wf 3 [0x8001, 0xffff, 0x0001] ∧ 17 < bits * 3 ∧
    shl [0x8001, 0xffff, 0x0001] 17 = [0, 0x0002, 0xffff] ∧
    shr [0x8001, 0xffff, 0x0001] 17 = [0xffff, 0, 0] := by decide

/-! ## comparisons -/

theorem lt_iff {n : Nat} {a x : List Nat} (ha : Wf n a) (hx : Wf n x) : lt a x = decide (val a < val x) :=
  lt_val' ha hx
theorem le_iff {n : Nat} {a x : List Nat} (ha : Wf n a) (hx : Wf n x) : le a x = decide (val a ≤ val x) :=
  le_val' ha hx
theorem gt_iff {n : Nat} {a x : List Nat} (ha : Wf n a) (hx : Wf n x) : gt a x = decide (val a > val x) :=
  gt_val' ha hx
theorem ge_iff {n : Nat} {a x : List Nat} (ha : Wf n a) (hx : Wf n x) : ge a x = decide (val a ≥ val x) :=
  ge_val' ha hx
theorem eq_iff {n : Nat} {a x : List Nat} (ha : Wf n a) (hx : Wf n x) : eq a x = decide (val a = val x) :=
  eq_val' ha hx
theorem ne_iff {n : Nat} {a x : List Nat} (ha : Wf n a) (hx : Wf n x) : ne a x = decide (val a ≠ val x) :=
  ne_val' ha hx

-- the low digits order the other way round than the values
example : Wf 2 [0xffff, 0x0001] ∧ Wf 2 [0x0000, 0x0002] ∧
    lt [0xffff, 0x0001] [0x0000, 0x0002] = true ∧ le [0xffff, 0x0001] [0xffff, 0x0001] = true ∧
    gt [0xffff, 0x0001] [0x0000, 0x0002] = false ∧ ge [0x0000, 0x0002] [0xffff, 0x0001] = true ∧
    eq [0xffff, 0x0001] [0xffff, 0x0001] = true ∧ ne [0xffff, 0x0001] [0x0000, 0x0002] = true := by decide

/-! ## construction from built-in integers, conversions, limits -/

/-- construction from an unsigned built-in (`uintmax_t`, 64 bits): the value modulo W, for every n
    (n < 4: truncation; n ≥ 4: zero extension) -/
theorem assign_wf_val (n : Nat) {x : Nat} (hx : x < 2 ^ 64) :
    Wf n (assign n x) ∧ val (assign n x) = x % W n :=
  ⟨assign_wf' n x, assign_val' n hx⟩

example : assign 1 0x123456789abcdef0 = [0xdef0] ∧
    assign 5 0x123456789abcdef0 = [0xdef0, 0x9abc, 0x5678, 0x1234, 0] := by decide

/-- `numeric_limits::min()` and the default constructor are `assign 0`: the value 0 -/
theorem min_val (n : Nat) : Wf n (assign n 0) ∧ val (assign n 0) = 0 := by
  refine ⟨assign_wf' n 0, ?_⟩
  rw [assign_val' n (by omega), Nat.zero_mod]

/-- mixed operations with a built-in integer convert it first (`bigunsignedint<k> temp(y); return x+temp;`), so
    they are the big-integer operation on `y mod W`; shown for `+` and `*` (the other operators compose alike) -/
theorem mixed_add_val {n : Nat} {a : List Nat} (ha : Wf n a) {y : Nat} (hy : y < 2 ^ 64) :
    val (add a (assign n y)) = (val a + y) % W n := by
  rw [add_val' ha (assign_wf' n y), assign_val' n hy, Nat.add_mod_mod]

theorem mixed_mul_val {k : Nat} {a : List Nat} (ha : Wf (ndigits k) a) {y : Nat} (hy : y < 2 ^ 64) :
    val (mul k a (assign (ndigits k) y)) = (val a * y) % W (ndigits k) := by
  rw [(mul_spec ha (assign_wf' _ y)).2, assign_val' _ hy, Nat.mul_mod_mod]

-- a built-in operand wider than the big integer (k = 8: one digit)
example : Wf (ndigits 8) [0xffff] ∧ add [0xffff] (assign 1 0x10001) = [0] ∧
    mul 8 [0xffff] (assign (ndigits 8) 0x10002) = [0xfffe] := by decide

/-- construction from a signed built-in: negative values are rejected, non-negative ones are taken modulo W -/
theorem ofSigned_spec (n : Nat) (y : Int) :
    (y < 0 → ofSigned n y = .negative) ∧
    (0 ≤ y → y < 2 ^ 63 → ∃ v, ofSigned n y = .ok v ∧ Wf n v ∧ val v = y.toNat % W n) := by
  refine ⟨fun h => by simp [ofSigned, h], fun h0 h1 => ?_⟩
  have hx : y.toNat < 2 ^ 64 := by omega
  exact ⟨assign n y.toNat, by simp [ofSigned, Int.not_lt.2 h0], assign_wf' n _, assign_val' n hx⟩

example : ofSigned 2 (-1) = .negative ∧ ofSigned 2 0x12345 = .ok [0x2345, 0x0001] := by decide

/-- `touint()` is the low 32 bits of the value for every n ≥ 1, including the one-digit case -/
theorem touint_val {n : Nat} {a : List Nat} (ha : Wf n a) (hn : 1 ≤ n) : touint a = val a % 2 ^ 32 :=
  touint_val' ha hn

example : Wf 1 [0xabcd] ∧ touint [0xabcd] = 0xabcd ∧
    Wf 3 [0x5678, 0x1234, 0xffff] ∧ touint [0x5678, 0x1234, 0xffff] = 0x12345678 := by decide

/-- `todouble()` (as the exact number `mantissa · 2^exponent` the code computes): never above the value, and the
    relative error is below 2^-32 for every magnitude; exactly 0 for 0. -/
theorem todouble_err {n : Nat} {a : List Nat} (ha : Wf n a) :
    todoubleN a ≤ val a ∧ (val a - todoubleN a) * 2 ^ 32 ≤ val a ∧
    (0 < val a → (val a - todoubleN a) * 2 ^ 32 < val a) := todouble_spec ha.2

/-- the mantissa accumulated by the Horner loop is below 2^53, so every step of the loop and the final `ldexp`
    are exact in IEEE double (for values below 2^1024) -/
theorem todouble_mantissa_exact {n : Nat} {a : List Nat} (ha : Wf n a) :
    (todoubleParts a).1 < 2 ^ 53 ∧ todoubleN a = (todoubleParts a).1 * 2 ^ (todoubleParts a).2 := by
  obtain ⟨_, _, _, h, _⟩ := todouble_parts ha.2
  exact ⟨Nat.lt_of_lt_of_le h representable_fit, rfl⟩

-- a value ≥ 2^64 (the case the unrepaired code got wrong): the three leading digits are kept
example : Wf 6 [0xffff, 0xffff, 0x0001, 0x8000, 0x0001, 0] ∧
    todoubleParts [0xffff, 0xffff, 0x0001, 0x8000, 0x0001, 0] = (0x000180000001, 32) ∧
    todoubleN [0xffff, 0xffff, 0x0001, 0x8000, 0x0001, 0] = 0x0001800000010000_0000 := by decide

/-- hex printing denotes the value: parsing the printed characters gives `val a` back -/
theorem print_parse {n : Nat} {a : List Nat} (ha : Wf n a) : parseHexChars (print a) = some (val a) := by
  rw [parseHexChars_eq, parseFrom_print a 0 ha.2, Nat.zero_mul, Nat.zero_add]

example : Wf 2 [0x00ab, 0x0c00] ∧ String.ofList (print [0x00ab, 0x0c00]) = "0c0000ab" := by decide

/-- `numeric_limits::max()` is W - 1 -/
theorem maxVal_wf_val (n : Nat) : Wf n (maxVal n) ∧ val (maxVal n) = W n - 1 :=
  ⟨maxVal_wf n, maxVal_val' n⟩

example : maxVal 2 = [0xffff, 0xffff] := by decide

/-- hashing is consistent with the represented value: the hash is a function of the digits, and equal values
    (of one width) have equal digits -/
theorem hash_congr {n : Nat} {a b : List Nat} (ha : Wf n a) (hb : Wf n b) (h : val a = val b) :
    hash a = hash b := by
  rw [val_inj ha hb h]

example : Wf 2 (ofNat 2 0x10002) ∧ Wf 2 (add [1, 1] [1, 0]) ∧ val (ofNat 2 0x10002) = val (add [1, 1] [1, 0]) := by
  decide

/-! ## round two: numeric_limits data, all mixed operators, constructor overloads, canonical printing,
    exact small conversions, ring laws, and operation histories (compound operators, aliasing) -/

/-- `std::numeric_limits<bigunsignedint<k>>` as regenerated from the header: `radix^digits` is the modulus the
    arithmetic theorems are about, `max() = radix^digits - 1`, `min() = 0`, and the type is declared an unsigned,
    exact, bounded, modulo integer -/
theorem limits_spec (k : Nat) :
    limitsRadix ^ limitsDigits k = W (ndigits k) ∧
    val (maxVal (ndigits k)) = limitsRadix ^ limitsDigits k - 1 ∧ val (assign (ndigits k) 0) = 0 ∧
    limitsIsSigned = false ∧ limitsIsInteger = true ∧ limitsIsExact = true ∧ limitsIsBounded = true ∧
    limitsIsModulo = true := by
  have h : limitsRadix ^ limitsDigits k = W (ndigits k) := by
    rw [W_eq]; rfl
  exact ⟨h, by rw [h, maxVal_val'], (min_val _).2, rfl, rfl, rfl, rfl, rfl⟩

example : limitsDigits 24 = 32 ∧ limitsDigits 100 = 112 ∧ limitsDigits 128 = 128 := by decide

/-- the remaining mixed operators `x - y`, `x / y`, `x % y` with a built-in `y` (converted first, so `y mod W`) -/
theorem mixed_sub_val {n : Nat} {a : List Nat} (ha : Wf n a) {y : Nat} (hy : y < 2 ^ 64) :
    val (sub a (assign n y)) = (val a + W n - y % W n) % W n := by
  rw [sub_val' ha (assign_wf' n y), assign_val' n hy]

theorem mixed_div_val {n : Nat} {a : List Nat} (ha : Wf n a) {y : Nat} (hy : y < 2 ^ 64) (h : y % W n ≠ 0) :
    ∃ q, div a (assign n y) = .ok q ∧ Wf n q ∧ val q = val a / (y % W n) := by
  have := div_spec ha (assign_wf' n y) (by rw [assign_val' n hy]; exact h)
  rwa [assign_val' n hy] at this

theorem mixed_mod_val {n : Nat} {a : List Nat} (ha : Wf n a) {y : Nat} (hy : y < 2 ^ 64) (h : y % W n ≠ 0) :
    ∃ r, mod a (assign n y) = .ok r ∧ Wf n r ∧ val r = val a % (y % W n) := by
  have := mod_spec ha (assign_wf' n y) (by rw [assign_val' n hy]; exact h)
  rwa [assign_val' n hy] at this

/-- a built-in divisor that is a multiple of W is a zero divisor of the `bigunsignedint<k>` operation: reported -/
theorem mixed_div_zero_reported {n : Nat} {a : List Nat} {y : Nat} (hy : y < 2 ^ 64) (h : y % W n = 0) :
    div a (assign n y) = .mathError ∧ mod a (assign n y) = .mathError :=
  ⟨div_zero' (assign_wf' n y) (by rw [assign_val' n hy]; exact h),
   mod_zero' (assign_wf' n y) (by rw [assign_val' n hy]; exact h)⟩

-- k = 16: the built-in 65536 is 0 modulo W and is reported as a zero divisor; 65539 divides as 3
example : Wf 1 [7] ∧ Wf 1 [1] ∧ (65536 : Nat) < 2 ^ 64 ∧ (65536 : Nat) % W 1 = 0 ∧ div [7] (assign 1 65536) = .mathError ∧
    (65539 : Nat) % W 1 ≠ 0 ∧ div [7] (assign 1 65539) = .ok [2] ∧ mod [7] (assign 1 65539) = .ok [1] ∧
    sub [1] (assign 1 65539) = [0xfffe] := by decide

/-- the mixed operators with the built-in on the left (`y + x`, `y - x`, `y * x`, `y / x`, `y % x`) -/
theorem mixed_rev_val {k : Nat} {x : List Nat} (hx : Wf (ndigits k) x) {y : Nat} (hy : y < 2 ^ 64) :
    val (add (assign (ndigits k) y) x) = (y + val x) % W (ndigits k) ∧
    val (sub (assign (ndigits k) y) x) = (y % W (ndigits k) + W (ndigits k) - val x) % W (ndigits k) ∧
    val (mul k (assign (ndigits k) y) x) = (y * val x) % W (ndigits k) ∧
    (val x ≠ 0 → ∃ q r, div (assign (ndigits k) y) x = .ok q ∧ mod (assign (ndigits k) y) x = .ok r ∧
      val q = y % W (ndigits k) / val x ∧ val r = y % W (ndigits k) % val x) ∧
    (val x = 0 → div (assign (ndigits k) y) x = .mathError ∧ mod (assign (ndigits k) y) x = .mathError) := by
  have hw := assign_wf' (ndigits k) y
  have hv := assign_val' (ndigits k) hy
  refine ⟨?_, ?_, ?_, fun h => ?_, fun h => ⟨div_zero' hx h, mod_zero' hx h⟩⟩
  · rw [add_val' hw hx, hv, Nat.mod_add_mod]
  · rw [sub_val' hw hx, hv]
  · rw [(mul_spec hw hx).2, hv, Nat.mod_mul_mod]
  · obtain ⟨q, hq, _, hqv⟩ := div_spec hw hx h
    obtain ⟨r, hr, _, hrv⟩ := mod_spec hw hx h
    exact ⟨q, r, hq, hr, by rw [hqv, hv], by rw [hrv, hv]⟩

example : Wf (ndigits 24) [3, 1] ∧ sub (assign (ndigits 24) 5) [3, 1] = [2, 0xffff] ∧
    div (assign (ndigits 24) 0x50007) [3, 1] = .ok [4, 0] ∧ mod (assign (ndigits 24) 0x50007) [3, 1] = .ok [0xfffb, 0] := by
  decide

/-- every constructor overload: a signed built-in type rejects exactly its negative values; every non-negative
    value of every built-in integer type of at most 64 bits (signed or unsigned, `bool`, `char`, …) gives the
    value modulo W -/
theorem construct_spec (n : Nat) (t : IntTy) (y : Int) (hw : t.width ≤ 64) (hy : t.holds y = true) :
    (y < 0 → t.signed = true ∧ construct n t y = .negative) ∧
    (0 ≤ y → ∃ v, construct n t y = .ok v ∧ Wf n v ∧ val v = y.toNat % W n) := by
  have hp : 2 ^ t.width ≤ 2 ^ 64 := Nat.pow_le_pow_right (by omega) hw
  have hp' : 2 ^ (t.width - 1) ≤ 2 ^ 64 := Nat.pow_le_pow_right (by omega) (by omega)
  have hlt : y < 2 ^ 64 := by
    unfold IntTy.holds at hy
    split at hy
    · have := of_decide_eq_true hy; omega
    · have := of_decide_eq_true hy; omega
  refine ⟨fun hneg => ?_, fun h0 => ?_⟩
  · have hs : t.signed = true := by
      unfold IntTy.holds at hy
      split at hy
      · assumption
      · have := of_decide_eq_true hy; omega
    exact ⟨hs, construct_signed_neg n t y hs hneg⟩
  · have hx : y.toNat < 2 ^ 64 := by omega
    exact ⟨_, construct_nonneg n t y h0, assign_wf' n _, assign_val' n hx⟩

example : IntTy.holds ⟨true, 8⟩ (-128) = true ∧ construct 2 ⟨true, 8⟩ (-128) = .negative ∧
    IntTy.holds ⟨false, 16⟩ 65535 = true ∧ construct 1 ⟨false, 16⟩ 65535 = .ok [0xffff] ∧
    IntTy.holds ⟨true, 32⟩ 0x7fffffff = true ∧ construct 1 ⟨true, 32⟩ 0x7fffffff = .ok [0xffff] ∧
    IntTy.holds ⟨false, 8⟩ (-1) = false := by decide

/-- the canonical (leading zeros stripped) printed form — what the line protocol compares — still denotes the value,
    and the full form has exactly `hexdigits` characters per digit -/
theorem print_canon_parse {n : Nat} {a : List Nat} (ha : Wf n a) :
    parseHexChars (printCanon a) = some (val a) ∧ (print a).length = hexdigits * n := by
  refine ⟨?_, by rw [print_length, ha.1]⟩
  rw [parseHexChars_eq, printCanon, parseFrom_stripZeros, parseFrom_print a 0 ha.2, Nat.zero_mul, Nat.zero_add]

example : Wf 2 [0x00ab, 0] ∧ String.ofList (printCanon [0x00ab, 0]) = "ab" ∧
    String.ofList (printCanon [0, 0]) = "0" := by decide

/-- `todouble()` is exact (no digit is dropped) for every value below 2^48, whatever the width -/
theorem todouble_exact_small {n : Nat} {a : List Nat} (ha : Wf n a) (h : val a < 2 ^ 48) :
    todoubleN a = val a := by
  obtain ⟨last, h1, h2⟩ := todoubleN_eq ha.2
  by_cases hl : last = 0
  · subst hl; rw [h1]; simp [W_zero]
  · rcases h2 with h0 | hbig
    · exact absurd h0 hl
    · exfalso
      have h3 : W 1 ≤ W last := W_le (by omega)
      have hw : W 1 = 65536 := by decide
      have h4 := Nat.mul_le_mul_right (2 ^ 32) h3
      omega

example : Wf 6 [0xffff, 0xffff, 0xffff, 0, 0, 0] ∧ val [0xffff, 0xffff, 0xffff, 0, 0, 0] < 2 ^ 48 ∧
    todoubleN [0xffff, 0xffff, 0xffff, 0, 0, 0] = 2 ^ 48 - 1 := by decide

/-- the commutative-ring laws, as equalities of the digit lists the operators return (consequences of the value
    theorems and injectivity of `val`) -/
theorem ring_laws {k : Nat} {a b c : List Nat} (ha : Wf (ndigits k) a) (hb : Wf (ndigits k) b)
    (hc : Wf (ndigits k) c) :
    add a b = add b a ∧ add (add a b) c = add a (add b c) ∧
    mul k a b = mul k b a ∧ mul k (mul k a b) c = mul k a (mul k b c) ∧
    mul k a (add b c) = add (mul k a b) (mul k a c) ∧
    sub (add a b) b = a ∧ add (sub a b) b = a ∧
    add a (assign (ndigits k) 0) = a ∧ mul k a (assign (ndigits k) 1) = a := by
  have hab := add_wf ha hb
  have hbc := add_wf hb hc
  have mab := (mul_spec (k := k) ha hb)
  have mba := (mul_spec (k := k) hb ha)
  have mbc := (mul_spec (k := k) hb hc)
  have mac := (mul_spec (k := k) ha hc)
  have la := val_lt ha
  have lb := val_lt hb
  have h0 := assign_wf' (ndigits k) 0
  have h1 := assign_wf' (ndigits k) 1
  refine ⟨?_, ?_, ?_, ?_, ?_, ?_, ?_, ?_, ?_⟩
  · exact val_inj hab (add_wf hb ha) (by rw [add_val' ha hb, add_val' hb ha, Nat.add_comm])
  · refine val_inj (add_wf hab hc) (add_wf ha hbc) ?_
    rw [add_val' hab hc, add_val' ha hb, add_val' ha hbc, add_val' hb hc, Nat.mod_add_mod, Nat.add_mod_mod,
      Nat.add_assoc]
  · exact val_inj mab.1 mba.1 (by rw [mab.2, mba.2, Nat.mul_comm])
  · refine val_inj (mul_spec mab.1 hc).1 (mul_spec ha mbc.1).1 ?_
    rw [(mul_spec mab.1 hc).2, mab.2, (mul_spec ha mbc.1).2, mbc.2, Nat.mod_mul_mod, Nat.mul_mod_mod,
      Nat.mul_assoc]
  · refine val_inj (mul_spec ha hbc).1 (add_wf mab.1 mac.1) ?_
    rw [(mul_spec ha hbc).2, add_val' hb hc, add_val' mab.1 mac.1, mab.2, mac.2, Nat.mul_mod_mod, ← Nat.add_mod,
      Nat.mul_add]
  · refine val_inj (sub_wf hab hb) ha ?_
    rw [sub_val' hab hb, add_val' ha hb]
    by_cases h : val a + val b < W (ndigits k)
    · rw [Nat.mod_eq_of_lt h]
      have e : val a + val b + W (ndigits k) - val b = val a + W (ndigits k) := by omega
      rw [e, Nat.add_mod_right, Nat.mod_eq_of_lt la]
    · rw [Nat.mod_eq_sub_mod (Nat.le_of_not_lt h),
        Nat.mod_eq_of_lt (by omega : val a + val b - W (ndigits k) < W (ndigits k))]
      have e : val a + val b - W (ndigits k) + W (ndigits k) - val b = val a := by omega
      rw [e, Nat.mod_eq_of_lt la]
  · refine val_inj (add_wf (sub_wf ha hb) hb) ha ?_
    rw [add_val' (sub_wf ha hb) hb, sub_val' ha hb, Nat.mod_add_mod]
    have e : val a + W (ndigits k) - val b + val b = val a + W (ndigits k) := by omega
    rw [e, Nat.add_mod_right, Nat.mod_eq_of_lt la]
  · refine val_inj (add_wf ha h0) ha ?_
    rw [add_val' ha h0, assign_val' _ (by omega), Nat.zero_mod, Nat.add_zero, Nat.mod_eq_of_lt la]
  · refine val_inj (mul_spec ha h1).1 ha ?_
    rw [(mul_spec ha h1).2, assign_val' _ (by omega), Nat.mul_mod_mod, Nat.mul_one, Nat.mod_eq_of_lt la]

example : Wf (ndigits 32) [0xffff, 0x8000] ∧ Wf (ndigits 32) [0x0002, 0xffff] ∧ Wf (ndigits 32) [0xfffe, 0x7fff] ∧
    mul 32 [0xffff, 0x8000] (add [0x0002, 0xffff] [0xfffe, 0x7fff]) =
      add (mul 32 [0xffff, 0x8000] [0x0002, 0xffff]) (mul 32 [0xffff, 0x8000] [0xfffe, 0x7fff]) := by decide

/-! ### operation histories -/

/-- ALL HISTORIES.  For every width `k`, every pair of well-formed start values and every program `p` of compound
    statements on the two variables (`d op= s` with `d`, `s` possibly the same variable; mixed `d = d op y`; `++d`;
    `d = ~d`; shifts; copies), running the digit-loop model gives, statement by statement, exactly the
    observations (new value of the destination, or the reported zero divisor) and the final state of the machine
    that computes with plain natural numbers modulo `2^(bits·n)`; both reject exactly the same (protocol-invalid)
    programs; and the variables stay well-formed.  Proved by induction over the program. -/
theorem prog_refines {k : Nat} (p : List POp) (r : Regs) (hr : WfRegs (ndigits k) r) :
    (run k r p).map (fun q => (q.1.map Res.abs, q.2.abs)) = specRun (ndigits k) r.abs p ∧
    ∀ os r', run k r p = some (os, r') → WfRegs (ndigits k) r' := run_refines p r hr

-- a += a; a /= a; b -= a; b %= b (b = 0: reported, b unchanged); a = a << 17; b = b + 65535; a /= b with k = 40 (three digits)
example : WfRegs (ndigits 40) ⟨[0xffff, 0x7fff, 0x0001], [0, 0, 0]⟩ ∧
    run 40 ⟨[0xffff, 0x7fff, 0x0001], [0, 0, 0]⟩
      [.bin .add .a .a, .bin .div .a .a, .bin .sub .b .a, .bin .mod .b .b, .bin .bxor .b .b, .bin .mod .b .b,
       .shl .a 17, .binU .add .b 0xffff, .bin .div .a .b] =
    some ([.ok [0xfffe, 0xffff, 0x0002], .ok [1, 0, 0], .ok [0xffff, 0xffff, 0xffff], .ok [0, 0, 0], .ok [0, 0, 0],
           .mathError, .ok [0, 2, 0], .ok [0xffff, 0, 0], .ok [2, 0, 0]],
          ⟨[2, 0, 0], [0xffff, 0, 0]⟩) := by decide

/-- self-aliasing compound division (the case the unrepaired code never returned from): `a /= a` is 1 and
    `a %= a` is 0 for every non-zero `a`; for `a = 0` the zero divisor is reported -/
theorem div_mod_self {n : Nat} {a : List Nat} (ha : Wf n a) :
    (val a ≠ 0 → ∃ q r, div a a = .ok q ∧ mod a a = .ok r ∧ val q = 1 ∧ val r = 0) ∧
    (val a = 0 → div a a = .mathError ∧ mod a a = .mathError) := by
  refine ⟨fun h => ?_, fun h => ⟨div_zero' ha h, mod_zero' ha h⟩⟩
  obtain ⟨q, hq, _, hqv⟩ := div_spec ha ha h
  obtain ⟨r, hr, _, hrv⟩ := mod_spec ha ha h
  exact ⟨q, r, hq, hr, by rw [hqv, Nat.div_self (Nat.pos_of_ne_zero h)], by rw [hrv, Nat.mod_self]⟩

example : Wf 2 [7, 0] ∧ val [7, 0] ≠ 0 ∧ div [7, 0] [7, 0] = .ok [1, 0] ∧ mod [7, 0] [7, 0] = .ok [0, 0] := by
  decide

/-! ## round four: straight-line code regenerated from the header (operator tables, derived comparisons, the rest of
    numeric_limits), built-in operands of every integral type, and histories with observations

`gt_iff`, `ge_iff`, `eq_iff` above are now statements about the *generated* definitions `gtDef`, `geDef`, `eqDef`
(how the header derives `>`, `>=`, `==` from `<=`, `<`, `!=`): `gt a x = evalCmpDef gtDef a x`. -/

/-- the twenty free mixed operators (`big OP uintmax_t`, `uintmax_t OP big`, and the same for every signed built-in
    type), as parsed from their bodies (`mixedOk`): for each of `+ - * / %`, each side and each signedness the body applies
    that very operator to the operands in the order of the call (after converting the built-in operand) — for the
    commutative `+` and `*` the mirrored order is admitted too, so that an overload may forward to its mirror image —
    and there is no mixed overload of a bitwise operator -/
theorem mixed_table_spec (s bl : Bool) (o : BinOp) : mixedOk s bl o = true := mixedOk_all s bl o

example : mixedBody true false .sub = some ⟨.sub, false⟩ ∧ mixedBody false true .band = none ∧
    mixedOk true false .sub = true := by decide

/-- every binary operator of the class (`+ - * / % & ^ |`) is defined by `DUNE_BINOP` as copy-then-compound-operator,
    so the statement forms `d op= s` of the histories cover the binary operators too -/
theorem binop_list_spec (o : BinOp) : o ∈ binopViaCompound := binop_all o

/-- the remaining `numeric_limits` members describe an integer type: specialised, all four exponents 0, no infinity,
    NaN, denormal loss, IEC 559 arithmetic, traps or tinyness detection -/
theorem limits_rest_spec :
    limitsIsSpecialized = true ∧ limitsExponents = [0, 0, 0, 0] ∧ limitsHasInfinity = false ∧
    limitsHasQuietNaN = false ∧ limitsHasSignalingNaN = false ∧ limitsHasDenormLoss = false ∧
    limitsIsIec559 = false ∧ limitsTraps = false ∧ limitsTinynessBefore = false := by decide

/-- a negative built-in operand is rejected wherever it meets a bigunsignedint — in all ten signed mixed operators,
    in the eight compound operators and in the six comparisons — and the variables are left untouched -/
theorem negative_builtin_rejected (k : Nat) (r : Regs) (t : IntTy) (y : Int) (hb : builtinOk t y = true)
    (hneg : y < 0) (o : BinOp) (d : Reg) (bl : Bool) (c : Cmp) :
    t.signed = true ∧
    (isArith o = true → step4 k r (.mixed o d t y bl) = some (r, .negative)) ∧
    step4 k r (.compound o d t y) = some (r, .negative) ∧
    step4 k r (.cmpB c d t y) = some (r, .negative) := by
  have hc : construct (ndigits k) t y = .negative := by
    rcases construct_cases (n := ndigits k) hb with ⟨_, h⟩ | ⟨h, _⟩
    · exact h
    · omega
  refine ⟨(builtin_bounds hb).2 hneg, fun ha => ?_, ?_, ?_⟩
  · have hok := mixedOk_all t.signed bl o
    unfold mixedOk at hok
    cases hm : mixedBody t.signed bl o with
    | none => rw [hm] at hok; simp [ha] at hok
    | some b => simp [step4, Stmt.valid, hb, hm, hc]
  · simp [step4, Stmt.valid, hb, hc]
  · simp [step4, Stmt.valid, hb, hc]

example : builtinOk ⟨true, 8⟩ (-128) = true ∧ isArith .mod = true ∧
    step4 24 ⟨[1, 2], [3, 4]⟩ (.mixed .mod .a ⟨true, 8⟩ (-128) false) = some (⟨[1, 2], [3, 4]⟩, .negative) := by decide

/-- ALL HISTORIES, round four.  For every width `k`, every pair of well-formed start values and every program of
    statements — the round-two statements, `d = d OP y` / `d = y OP d` through the regenerated table of the mixed
    operators with a built-in `y` of any integral type of at most 64 bits, `d OP= y` through the implicit
    constructor, the six comparisons between variables (or a variable and itself) and with a built-in, `touint()` —
    the digit-loop model produces, statement by statement, exactly the observations (value, zero divisor reported,
    negative operand rejected, boolean, number) and the final state of the machine computing with natural numbers
    modulo `2^(bits·n)`; both reject the same protocol-invalid programs; the variables stay well-formed. -/
theorem hist_refines {k : Nat} (p : List Stmt) (r : Regs) (hr : WfRegs (ndigits k) r) :
    (run4 k r p).map (fun q => (q.1.map Obs.abs, q.2.abs)) = specRun4 (ndigits k) r.abs p ∧
    ∀ os r', run4 k r p = some (os, r') → WfRegs (ndigits k) r' := run4_refines p r hr

-- b = 0x3000 - b; a = a + (signed char)(-1) (rejected); a &= 0xff00; a > b; b == 0x2ffbll; a < (short)(-5) (rejected);
-- a.touint(); a /= b   with k = 40 (three digits)
set_option maxRecDepth 2000 in
example : WfRegs (ndigits 40) ⟨[0xffff, 0x7fff, 1], [5, 0, 0]⟩ ∧
    run4 40 ⟨[0xffff, 0x7fff, 1], [5, 0, 0]⟩
      [.mixed .sub .b ⟨true, 32⟩ 0x3000 false, .mixed .add .a ⟨true, 8⟩ (-1) true, .compound .band .a ⟨false, 16⟩ 0xff00,
       .cmp .gt .a .b, .cmpB .eq .b ⟨true, 64⟩ 0x2ffb, .cmpB .lt .a ⟨true, 16⟩ (-5), .touint .a,
       .old (.bin .div .a .b)] =
    some ([.val [0x2ffb, 0, 0], .negative, .val [0xff00, 0, 0], .bool true, .bool true, .negative, .num 0xff00,
           .val [5, 0, 0]], ⟨[5, 0, 0], [0x2ffb, 0, 0]⟩) := by decide

/-- the six comparisons inside histories: whatever the history did before, `x CMP y` (also `x CMP x`) decides the
    order of the values -/
theorem cmp_spec {n : Nat} {a x : List Nat} (ha : Wf n a) (hx : Wf n x) (c : Cmp) :
    cmpEval c a x = cmpSpec c (val a) (val x) := cmpEval_spec ha hx c

example : Wf 2 [0xffff, 1] ∧ cmpEval .ge [0xffff, 1] [0xffff, 1] = true ∧ cmpEval .gt [0xffff, 1] [0xffff, 1] = false := by
  decide

/-- `MPITraits<bigunsignedint<k>>` (dune/common/parallel/mpitraits.hh, regenerated): the MPI datatype is one block, placed
    at the member `digit`, of `n` contiguous elements whose width is the digit width — it transports exactly the
    `numeric_limits::digits` bits of the value, for every k -/
theorem mpi_type_spec (k : Nat) :
    mpiBlocks * mpiCount k * mpiElemBits = limitsDigits k ∧ mpiElemBits = bits ∧ mpiCount k = ndigits k := by
  refine ⟨?_, rfl, rfl⟩
  simp only [mpiBlocks, mpiCount, mpiElemBits, limitsDigits, bits]
  omega

example : mpiCount 100 = 7 ∧ mpiBlocks * mpiCount 100 * mpiElemBits = 112 := by decide

/-! ### memory level: the compound operators work in place, and the right operand may be the destination itself -/

/-- ALIASING.  The compound operators executed on the indexed store of the destination (`Model/C10Mem.lean`: explicit
    reads `digit[i]`, `x.digit[i]` and writes `digit[i] = …` per round; with `ali = true` the operand `x` is the very
    same store, read at the time of each access, as in `a += a`, `a -= a`, `a &= a`, `a *= a`, `a /= a`) return exactly
    what the value-level operators return on the two values — for every operator, every width and all operands.
    Together with `applyBin`'s value theorems: `a op= a` is `val a op val a` modulo W. -/
theorem alias_refines (k : Nat) (o : BinOp) (ali : Bool) {n : Nat} {a x : List Nat} (ha : Wf n a) (hx : Wf n x) :
    applyBinMem k o ali a x = applyBin k o a (if ali then a else x) :=
  applyBinMem_eq k o ali (by rw [hx.1, ha.1])

example : Wf 2 [0xffff, 0x8000] ∧ applyBinMem 32 .add true [0xffff, 0x8000] [] = .ok [0xfffe, 1] ∧
    applyBinMem 32 .sub true [0xffff, 0x8000] [] = .ok [0, 0] ∧
    applyBinMem 32 .sub false [0, 0] [1, 0] = .ok [0xffff, 0xffff] := by decide

/-- whole histories run with `d op= s` on the store (what the driver executes) are the histories of `hist_refines` -/
theorem hist_mem_refines {k : Nat} (p : List Stmt) (r : Regs) (hr : WfRegs (ndigits k) r) :
    runMem k r p = run4 k r p ∧
    (runMem k r p).map (fun q => (q.1.map Obs.abs, q.2.abs)) = specRun4 (ndigits k) r.abs p := by
  have h := runMem_eq (k := k) p r hr
  exact ⟨h, by rw [h]; exact (run4_refines p r hr).1⟩

example : WfRegs (ndigits 32) ⟨[0xffff, 0x8000], [1, 0]⟩ ∧
    runMem 32 ⟨[0xffff, 0x8000], [1, 0]⟩ [.old (.bin .add .a .a), .old (.bin .sub .b .a), .old (.bin .bxor .a .a)] =
    some ([.val [0xfffe, 1], .val [3, 0xfffe], .val [0, 0]], ⟨[0, 0], [3, 0xfffe]⟩) := by decide

end DV.C10
