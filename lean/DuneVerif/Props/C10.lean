import DuneVerif.Model.C10
namespace DV.C10
theorem placeholder : True := trivial
end DV.C10
