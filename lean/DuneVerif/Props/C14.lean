/-
C14 — property theorems: md layouts address distinct in-range elements; md views and arrays honour them.

All statements are for an arbitrary rank `n` and arbitrary extents `E 0 … E (n-1)` (0 and 1 included), index tuples
`I`, strides `S` — arrays are functions `Nat → Nat` of which only the entries below `n` matter.  The functions
`offsetLeft/offsetRight/offsetStride`, `strideLeft/strideRight`, `product`, `requiredSpanStride` are the loops of
Model/C14.lean running the loop pieces regenerated from the C++ sources (Gen/C14.lean).  Vocabulary (`Valid`, `sumTo`,
`prodFrom`, `bump`, `DescChain`, `countDyn`) is defined in Proofs/C14.lean.  Arithmetic is over `Nat`
(no overflow of `index_type`).
-/
import DuneVerif.Proofs.C14

namespace DV.C14

/-! ## layout_left and layout_right -/

/-- closed form of `stride(i)`: the product of the extents to the left -/
theorem stride_left_formula (n : Nat) (E : Arr) (i : Nat) : strideLeft n E i = prodFrom E 0 i :=
  strideLeft_eq n E i

/-- closed form of `stride(i)`: the product of the extents to the right -/
theorem stride_right_formula (n : Nat) (E : Arr) (i : Nat) : strideRight n E i = prodFrom E (i+1) (n - (i+1)) :=
  strideRight_eq n E i

/-- `required_span_size()` of left/right is the product of all extents -/
theorem span_size_left_right (n : Nat) (E : Arr) : product n E = prodFrom E 0 n := product_eq n E

/-- column-major formula: `offset = Σ_k i_k · Π_{m<k} E_m = Σ_k i_k · stride(k)` -/
theorem left_formula (n : Nat) (E I : Arr) : offsetLeft n E I = sumTo n (fun k => I k * strideLeft n E k) := by
  rw [offsetLeft_eq_polyL, polyL_formula]
  apply sumTo_congr
  intro k _
  rw [strideLeft_eq, Nat.zero_add]

/-- row-major formula: `offset = Σ_k i_k · Π_{m>k} E_m = Σ_k i_k · stride(k)` -/
theorem right_formula (n : Nat) (E I : Arr) : offsetRight n E I = sumTo n (fun k => I k * strideRight n E k) := by
  rw [offsetRight_eq_polyR, polyR_formula]
  apply sumTo_congr
  intro k _
  rw [strideRight_eq]

/-- every valid index tuple maps into `[0, required_span_size)` -/
theorem offset_in_range_left (n : Nat) (E I : Arr) (h : Valid n E I) : offsetLeft n E I < product n E := by
  rw [offsetLeft_eq_polyL, product_eq]
  exact polyL_lt (fun k _ hk => h k (by omega))

theorem offset_in_range_right (n : Nat) (E I : Arr) (h : Valid n E I) : offsetRight n E I < product n E := by
  rw [offsetRight_eq_polyR, product_eq]
  exact polyR_lt h

/-- distinct valid index tuples map to distinct offsets -/
theorem offset_injective_left (n : Nat) (E I J : Arr) (hI : Valid n E I) (hJ : Valid n E J)
    (h : offsetLeft n E I = offsetLeft n E J) : ∀ k, k < n → I k = J k := by
  rw [offsetLeft_eq_polyL, offsetLeft_eq_polyL] at h
  intro k hk
  exact polyL_inj (fun k _ hk => hI k (by omega)) (fun k _ hk => hJ k (by omega)) h k (Nat.zero_le _) (by omega)

theorem offset_injective_right (n : Nat) (E I J : Arr) (hI : Valid n E I) (hJ : Valid n E J)
    (h : offsetRight n E I = offsetRight n E J) : ∀ k, k < n → I k = J k := by
  rw [offsetRight_eq_polyR, offsetRight_eq_polyR] at h
  exact polyR_inj hI hJ h

/-- a unit step in dimension `r` changes the offset by `stride(r)` -/
theorem offset_step_left (n : Nat) (E I : Arr) (r : Nat) (hr : r < n) :
    offsetLeft n E (bump I r) = offsetLeft n E I + strideLeft n E r := by
  rw [left_formula, left_formula]
  exact sumTo_bump hr _ _

theorem offset_step_right (n : Nat) (E I : Arr) (r : Nat) (hr : r < n) :
    offsetRight n E (bump I r) = offsetRight n E I + strideRight n E r := by
  rw [right_formula, right_formula]
  exact sumTo_bump hr _ _

/-- no gaps: every offset below `required_span_size` is the image of a valid index tuple
    (together with `offset_in_range_*` and `offset_injective_*`: a bijection onto the range) -/
theorem left_bijective_onto_range (n : Nat) (E : Arr) (o : Nat) (ho : o < product n E) :
    ∃ I, Valid n E I ∧ offsetLeft n E I = o := by
  rw [product_eq] at ho
  obtain ⟨I, hv, hp⟩ := polyL_surj E 0 n o ho
  exact ⟨I, fun k hk => hv k (Nat.zero_le _) (by omega), by rw [offsetLeft_eq_polyL]; exact hp⟩

theorem right_bijective_onto_range (n : Nat) (E : Arr) (o : Nat) (ho : o < product n E) :
    ∃ I, Valid n E I ∧ offsetRight n E I = o := by
  rw [product_eq] at ho
  obtain ⟨I, hv, hp⟩ := polyR_surj E n o ho
  exact ⟨I, hv, by rw [offsetRight_eq_polyR]; exact hp⟩

/-- no intermediate overflow (all index types): for a valid index tuple every intermediate value of the accumulator in
    the Horner loop of `layout_left::mapping::operator()` (the state after `t` iterations of the loop assembled from the
    regenerated pieces) is bounded by the final offset, hence by `required_span_size() - 1`; so whenever
    `required_span_size()` is representable in `index_type`, so is every value the loop computes -/
theorem offset_left_intermediate_le (n : Nat) (E I : Arr) (h : Valid n E I) (t : Nat) (ht : t + 1 ≤ n) :
    loopFrom (Gen.left_step n I E) t (Gen.left_lo n I E) (Gen.left_init n I E) ≤ offsetLeft n E I ∧
    offsetLeft n E I < product n E := by
  refine ⟨?_, offset_in_range_left n E I h⟩
  show loopFrom (Gen.left_step n I E) t 1 (I (n - 1)) ≤ _
  rw [left_loop_inv n E I t ht, offsetLeft_eq_polyL]
  have := polyL_suffix_le (E := E) (I := I) 0 (n - 1 - t) (t + 1) (fun k _ hk => valid_pos h k (by omega))
  rw [Nat.zero_add] at this
  have e : n - 1 - t + (t + 1) = n := by omega
  rw [e] at this
  exact this

theorem offset_right_intermediate_le (n : Nat) (E I : Arr) (h : Valid n E I) (t : Nat) (ht : t + 1 ≤ n) :
    loopFrom (Gen.right_step n I E) t (Gen.right_lo n I E) (Gen.right_init n I E) ≤ offsetRight n E I ∧
    offsetRight n E I < product n E := by
  refine ⟨?_, offset_in_range_right n E I h⟩
  show loopFrom (Gen.right_step n I E) t 0 (I 0) ≤ _
  rw [right_loop_inv n E I t, offsetRight_eq_polyR]
  have := polyR_prefix_le (E := E) (I := I) (t + 1) (n - (t + 1)) (fun k _ hk => valid_pos h k (by omega))
  have e : t + 1 + (n - (t + 1)) = n := by omega
  rw [e] at this
  exact this

-- the intermediate values of the loops for the index (1,2,3) in 2 x 3 x 4: left 3, 11, 23; right 1, 5, 23
example : (List.range 3).map (fun t => loopFrom (Gen.left_step 3 (arr [1,2,3]) (arr [2,3,4])) t 1 3) = [3, 11, 23] ∧
    (List.range 3).map (fun t => loopFrom (Gen.right_step 3 (arr [1,2,3]) (arr [2,3,4])) t 0 1) = [1, 5, 23] := by decide

-- non-vacuity: a 2 x 3 x 4 index space, the index (1,2,3), a step in dimension 1, the last offset
example : Valid 3 (arr [2,3,4]) (arr [1,2,3]) ∧ offsetLeft 3 (arr [2,3,4]) (arr [1,2,3]) = 23 ∧
    offsetRight 3 (arr [2,3,4]) (arr [1,2,3]) = 23 ∧ product 3 (arr [2,3,4]) = 24 ∧
    offsetLeft 3 (arr [2,3,4]) (arr [1,0,2]) = 13 ∧ offsetLeft 3 (arr [2,3,4]) (bump (arr [1,0,2]) 1) = 13 + 2 ∧
    offsetRight 3 (arr [2,3,4]) (arr [1,0,2]) = 14 ∧ strideRight 3 (arr [2,3,4]) 1 = 4 := by
  refine ⟨?_, by decide, by decide, by decide, by decide, by decide, by decide, by decide⟩
  intro k hk
  match k, hk with
  | 0, _ => decide
  | 1, _ => decide
  | 2, _ => decide
-- extents 0 and 1: an empty index space has span 0 and no valid index; extent 1 contributes nothing
example : product 3 (arr [2,0,4]) = 0 ∧ ¬ Valid 3 (arr [2,0,4]) (arr [0,0,0]) ∧
    offsetLeft 3 (arr [2,1,4]) (arr [1,0,3]) = 7 ∧ product 0 (arr []) = 1 ∧ offsetRight 0 (arr []) (arr []) = 0 := by
  refine ⟨by decide, ?_, by decide, by decide, by decide⟩
  intro h
  exact absurd (h 1 (by omega)) (by decide)

/-! ## layout_stride -/

/-- the strided offset is the dot product of indices and strides -/
theorem stride_formula (n : Nat) (S I : Arr) : offsetStride n S I = sumTo n (fun k => I k * S k) :=
  offsetStride_eq n S I

/-- `required_span_size = 1 + Σ (E_r - 1)·S_r` when no extent is 0 (rank 0: the empty sum, 1) … -/
theorem span_size_stride (n : Nat) (E S : Arr) (h : ∀ k, k < n → 0 < E k) :
    requiredSpanStride n E S = 1 + sumTo n (fun k => (E k - 1) * S k) :=
  requiredSpanStride_pos_ext S h

/-- … and 0 if an extent is 0 -/
theorem span_size_stride_empty (n : Nat) (E S : Arr) (h : ∃ k, k < n ∧ E k = 0) : requiredSpanStride n E S = 0 :=
  requiredSpanStride_zero_ext S h

/-- every valid index tuple maps into `[0, required_span_size)`, for arbitrary strides -/
theorem offset_in_range_stride (n : Nat) (E S I : Arr) (h : Valid n E I) :
    offsetStride n S I < requiredSpanStride n E S := by
  rw [offsetStride_eq, requiredSpanStride_pos_ext S (valid_pos h)]
  have : sumTo n (fun k => I k * S k) ≤ sumTo n (fun k => (E k - 1) * S k) :=
    sumTo_le (fun k hk => Nat.mul_le_mul_right _ (by have := h k hk; omega))
  omega

/-- the bound is tight: the last index tuple `E - 1` maps to `required_span_size - 1` -/
theorem span_size_stride_tight (n : Nat) (E S : Arr) (h : ∀ k, k < n → 0 < E k) :
    requiredSpanStride n E S = offsetStride n S (fun k => E k - 1) + 1 := by
  rw [offsetStride_eq, requiredSpanStride_pos_ext S h]
  omega

theorem offset_step_stride (n : Nat) (S I : Arr) (r : Nat) (hr : r < n) :
    offsetStride n S (bump I r) = offsetStride n S I + S r := by
  rw [offsetStride_eq, offsetStride_eq]
  exact sumTo_bump hr _ _

/-- uniqueness criterion: if the dimensions can be listed (`p`, a permutation of `0..n-1`) from the largest stride
    downwards such that each stride covers the whole span of the following dimension (`S b · E b ≤ S a`) and the
    smallest stride is at least 1, then distinct valid index tuples map to distinct offsets.
    (The criterion is sufficient, not necessary: see the example below, so no `iff` is claimed.) -/
theorem stride_unique_of_sorted (n : Nat) (E S I J : Arr) (p : List Nat) (hp : p.Perm (List.range n))
    (hc : DescChain E S p) (hI : Valid n E I) (hJ : Valid n E J)
    (h : offsetStride n S I = offsetStride n S J) : ∀ k, k < n → I k = J k := by
  rw [offsetStride_eq_dotList S I hp, offsetStride_eq_dotList S J hp] at h
  have mem : ∀ b, b ∈ p → b < n := fun b hb => List.mem_range.mp ((hp.mem_iff).mp hb)
  intro k hk
  exact dotList_inj hc (fun b hb => hI b (mem b hb)) (fun b hb => hJ b (mem b hb)) h k
    ((hp.mem_iff).mpr (List.mem_range.mpr hk))

-- non-vacuity: extents (2,3,2) with strides (3,8,1): the order 1,0,2 is a descending chain (8 ≥ 3·2, 3 ≥ 1·2, 1 ≥ 1);
-- the mapping is padded (span 23 > 12 elements)
example : [1,0,2].Perm (List.range 3) ∧ DescChain (arr [2,3,2]) (arr [3,8,1]) [1,0,2] ∧
    requiredSpanStride 3 (arr [2,3,2]) (arr [3,8,1]) = 21 ∧ offsetStride 3 (arr [3,8,1]) (arr [1,2,1]) = 20 := by
  refine ⟨by decide, ⟨by decide, by decide, by decide⟩, by decide, by decide⟩
-- the criterion is not necessary: extents (2,2), strides (2,3) give the distinct offsets 0,3,2,5 although 3 < 2·2
example : ¬ DescChain (arr [2,2]) (arr [2,3]) [1,0] ∧
    (allTuples [2,2]).map (fun t => offsetStride 2 (arr [2,3]) (arr t)) = [0,3,2,5] := by
  refine ⟨?_, by decide⟩
  intro h
  exact absurd h.1 (by decide)
/-- the same criterion where dimensions of extent 1 are ignored (their index is always 0, so their stride is
    irrelevant — e.g. stride 0 is fine there): `p` lists exactly the dimensions whose extent is not 1 -/
theorem stride_unique_of_sorted_ext1 (n : Nat) (E S I J : Arr) (hs : SortedUnique n E S)
    (hI : Valid n E I) (hJ : Valid n E J) (h : offsetStride n S I = offsetStride n S J) : ∀ k, k < n → I k = J k := by
  obtain ⟨p, hp, hc⟩ := hs
  rw [offsetStride_eq_dotList_big E S I hI hp, offsetStride_eq_dotList_big E S J hJ hp] at h
  have mem : ∀ b, b ∈ p → b < n := fun b hb => (mem_bigDims.mp ((hp.mem_iff).mp hb)).1
  intro k hk
  by_cases h1 : E k = 1
  · have := hI k hk; have := hJ k hk; omega
  · exact dotList_inj hc (fun b hb => hI b (mem b hb)) (fun b hb => hJ b (mem b hb)) h k
      ((hp.mem_iff).mpr (mem_bigDims.mpr ⟨hk, h1⟩))

/-- the criterion of `stride_unique_of_sorted` is the special case without dimensions of extent 1 … -/
theorem sortedUnique_of_chain (n : Nat) (E S : Arr) (p : List Nat) (hp : p.Perm (List.range n))
    (hc : DescChain E S p) (h1 : ∀ k, k < n → E k ≠ 1) : SortedUnique n E S := by
  refine ⟨p, ?_, hc⟩
  have : bigDims n E = List.range n := by
    unfold bigDims
    rw [List.filter_eq_self]
    intro a ha
    simpa using h1 a (List.mem_range.mp ha)
  rw [this]; exact hp

-- … and the new one accepts e.g. extents (3,1,2) with strides (2,0,1): dimension 1 has stride 0
example : SortedUnique 3 (arr [3,1,2]) (arr [2,0,1]) ∧ offsetStride 3 (arr [2,0,1]) (arr [2,0,1]) = 5 ∧
    requiredSpanStride 3 (arr [3,1,2]) (arr [2,0,1]) = 6 :=
  ⟨⟨[0,2], by decide, by decide, by decide⟩, by decide, by decide⟩

/-- no intermediate overflow: every summand of the fold expression of `layout_stride::mapping::operator()` is bounded by
    the offset, which is below `required_span_size()` -/
theorem offset_stride_term_le (n : Nat) (E S I : Arr) (h : Valid n E I) (r : Nat) (hr : r < n) :
    I r * S r ≤ offsetStride n S I ∧ offsetStride n S I < requiredSpanStride n E S := by
  refine ⟨?_, offset_in_range_stride n E S I h⟩
  rw [offsetStride_eq]
  exact sumTo_term_le hr (fun k => I k * S k)

-- an extent 0 gives span 0, rank 0 gives span 1
example : requiredSpanStride 2 (arr [3,0]) (arr [1,3]) = 0 ∧ requiredSpanStride 0 (arr []) (arr []) = 1 := by decide

/-! ## all three layouts at once (`Mapping`) -/

theorem offset_in_range (m : Mapping) (I : Arr) (h : Valid m.rank m.ext I) : m.offset I < m.requiredSpan := by
  cases m with | mk lay rank ext str =>
  cases lay
  · exact offset_in_range_left rank ext I h
  · exact offset_in_range_right rank ext I h
  · exact offset_in_range_stride rank ext str I h

theorem offset_step (m : Mapping) (I : Arr) (r : Nat) (hr : r < m.rank) :
    m.offset (bump I r) = m.offset I + m.stride r := by
  cases m with | mk lay rank ext str =>
  cases lay
  · exact offset_step_left rank ext I r hr
  · exact offset_step_right rank ext I r hr
  · exact offset_step_stride rank str I r hr

/-- injectivity: unconditional for left/right, under the sorted-stride criterion for stride -/
theorem offset_injective (m : Mapping) (I J : Arr)
    (hu : m.lay = .stride → ∃ p : List Nat, p.Perm (List.range m.rank) ∧ DescChain m.ext m.str p)
    (hI : Valid m.rank m.ext I) (hJ : Valid m.rank m.ext J) (h : m.offset I = m.offset J) :
    ∀ k, k < m.rank → I k = J k := by
  cases m with | mk lay rank ext str =>
  cases lay
  · exact offset_injective_left rank ext I J hI hJ h
  · exact offset_injective_right rank ext I J hI hJ h
  · obtain ⟨p, hp, hc⟩ := hu rfl
    exact stride_unique_of_sorted rank ext str I J p hp hc hI hJ h

/-- uniqueness of the mappings the property speaks about, as one predicate: left/right always, strided under the
    sorted-stride criterion that ignores dimensions of extent 1.  (`InjOn m`: valid index tuples with equal offsets agree
    below the rank.)  The theorems about views and arrays below assume only `InjOn`, i.e. they hold for EVERY stride
    vector that makes the mapping unique, not only for those recognised by the criterion. -/
theorem mapping_unique (m : Mapping) (hu : m.lay = .stride → SortedUnique m.rank m.ext m.str) : InjOn m := by
  intro I J hI hJ h
  cases m with | mk lay rank ext str =>
  cases lay
  · exact offset_injective_left rank ext I J hI hJ h
  · exact offset_injective_right rank ext I J hI hJ h
  · exact stride_unique_of_sorted_ext1 rank ext str I J (hu rfl) hI hJ h

-- a unique strided mapping outside the criterion (extents (2,2), strides (2,3)) still satisfies `InjOn` (checked on
-- its four index tuples above); `InjOn` is the hypothesis used from here on

/-! ## conversions between layouts and extents types -/

/-- left → stride → left (and right → stride → right): the strided mapping built from `stride(r)` of a left/right
    mapping computes the same offset for EVERY index tuple, has the same required span whenever the index space is
    non-empty or empty, and passes the assertions of the from-stride constructor, which then yields the original mapping -/
theorem convert_preserves_left (n : Nat) (E : Arr) :
    let m : Mapping := ⟨.left, n, E, fun _ => 0⟩
    (∀ I, m.toStride.offset I = m.offset I) ∧ m.toStride.requiredSpan = m.requiredSpan ∧
    (∃ m', m.toStride.convertTo .left = some m' ∧ ∀ I, m'.offset I = m.offset I) := by
  refine ⟨?_, ?_, ?_⟩
  · intro I
    show offsetStride n (fun r => strideLeft n E r) I = offsetLeft n E I
    rw [left_formula, offsetStride_eq]
  · show requiredSpanStride n E (fun r => strideLeft n E r) = product n E
    by_cases hz : ∃ k, k < n ∧ E k = 0
    · rw [requiredSpanStride_zero_ext _ hz, product_eq]
      symm
      rw [prodFrom_eq_zero_iff]
      obtain ⟨k, hk, hz⟩ := hz
      exact ⟨k, Nat.zero_le _, by omega, hz⟩
    · have hpos : ∀ k, k < n → 0 < E k := by
        intro k hk
        rcases Nat.eq_zero_or_pos (E k) with h0 | h0
        · exact absurd ⟨k, hk, h0⟩ hz
        · exact h0
      -- the span is one more than the offset of the last index, which by surjectivity/range is product - 1
      rw [requiredSpanStride_pos_ext _ hpos]
      have hlast : Valid n E (fun k => E k - 1) := fun k hk => by
        show E k - 1 < E k
        have := hpos k hk; omega
      have h1 := offset_in_range_left n E _ hlast
      rw [left_formula] at h1
      -- and no valid index lies above it: the last index has the largest offset, product - 1
      have h2 : product n E ≤ 1 + sumTo n (fun k => (E k - 1) * strideLeft n E k) := by
        rcases Nat.lt_or_ge (1 + sumTo n (fun k => (E k - 1) * strideLeft n E k)) (product n E) with hlt | hge
        · obtain ⟨I, hv, ho⟩ := left_bijective_onto_range n E _ hlt
          rw [left_formula] at ho
          have : sumTo n (fun k => I k * strideLeft n E k) ≤ sumTo n (fun k => (E k - 1) * strideLeft n E k) :=
            sumTo_le (fun k hk => Nat.mul_le_mul_right _ (by have := hv k hk; omega))
          omega
        · exact hge
      omega
  · have hc : checkFromStrideLeft n E (fun r => strideLeft n E r) = true :=
      (checkFromStrideLeft_iff n E _).mpr (fun _ _ => rfl)
    refine ⟨⟨.left, n, E, fun r => strideLeft n E r⟩, ?_, fun _ => rfl⟩
    show (if checkFromStrideLeft n E (fun r => strideLeft n E r) = true then _ else _) = _
    rw [hc]; rfl

theorem convert_preserves_right (n : Nat) (E : Arr) :
    let m : Mapping := ⟨.right, n, E, fun _ => 0⟩
    (∀ I, m.toStride.offset I = m.offset I) ∧ m.toStride.requiredSpan = m.requiredSpan ∧
    (∃ m', m.toStride.convertTo .right = some m' ∧ ∀ I, m'.offset I = m.offset I) := by
  refine ⟨?_, ?_, ?_⟩
  · intro I
    show offsetStride n (fun r => strideRight n E r) I = offsetRight n E I
    rw [right_formula, offsetStride_eq]
  · show requiredSpanStride n E (fun r => strideRight n E r) = product n E
    by_cases hz : ∃ k, k < n ∧ E k = 0
    · rw [requiredSpanStride_zero_ext _ hz, product_eq]
      symm
      rw [prodFrom_eq_zero_iff]
      obtain ⟨k, hk, hz⟩ := hz
      exact ⟨k, Nat.zero_le _, by omega, hz⟩
    · have hpos : ∀ k, k < n → 0 < E k := by
        intro k hk
        rcases Nat.eq_zero_or_pos (E k) with h0 | h0
        · exact absurd ⟨k, hk, h0⟩ hz
        · exact h0
      rw [requiredSpanStride_pos_ext _ hpos]
      have hlast : Valid n E (fun k => E k - 1) := fun k hk => by
        show E k - 1 < E k
        have := hpos k hk; omega
      have h1 := offset_in_range_right n E _ hlast
      rw [right_formula] at h1
      have h2 : product n E ≤ 1 + sumTo n (fun k => (E k - 1) * strideRight n E k) := by
        rcases Nat.lt_or_ge (1 + sumTo n (fun k => (E k - 1) * strideRight n E k)) (product n E) with hlt | hge
        · obtain ⟨I, hv, ho⟩ := right_bijective_onto_range n E _ hlt
          rw [right_formula] at ho
          have : sumTo n (fun k => I k * strideRight n E k) ≤ sumTo n (fun k => (E k - 1) * strideRight n E k) :=
            sumTo_le (fun k hk => Nat.mul_le_mul_right _ (by have := hv k hk; omega))
          omega
        · exact hge
      omega
  · have hc : checkFromStrideRight n E (fun r => strideRight n E r) = true :=
      (checkFromStrideRight_iff n E _).mpr (fun _ _ => rfl)
    refine ⟨⟨.right, n, E, fun r => strideRight n E r⟩, ?_, fun _ => rfl⟩
    show (if checkFromStrideRight n E (fun r => strideRight n E r) = true then _ else _) = _
    rw [hc]; rfl

/-- ANY strided mapping accepted by the from-stride constructors (their assertions hold) converts to a left/right
    mapping with identical addressing -/
theorem convert_from_stride_preserves (n : Nat) (E S : Arr) :
    (checkFromStrideLeft n E S = true → ∀ I, offsetLeft n E I = offsetStride n S I) ∧
    (checkFromStrideRight n E S = true → ∀ I, offsetRight n E I = offsetStride n S I) := by
  constructor
  · intro h I
    rw [left_formula, offsetStride_eq]
    exact sumTo_congr (fun k hk => by rw [(checkFromStrideLeft_iff n E S).mp h k hk])
  · intro h I
    rw [right_formula, offsetStride_eq]
    exact sumTo_congr (fun k hk => by rw [(checkFromStrideRight_iff n E S).mp h k hk])

/-- rank ≤ 1 (the only ranks with a left ↔ right converting constructor): both layouts address identically -/
theorem convert_left_right (n : Nat) (hn : n ≤ 1) (E I : Arr) :
    offsetLeft n E I = offsetRight n E I ∧ ∀ i, i < n → strideLeft n E i = strideRight n E i := by
  rcases Nat.le_one_iff_eq_zero_or_eq_one.mp hn with h | h
  · subst h; exact ⟨rfl, fun i hi => by omega⟩
  · subst h
    refine ⟨by simp [offsetLeft_eq_polyL, offsetRight_eq_polyR, polyL, polyR], ?_⟩
    intro i hi
    have : i = 0 := by omega
    subst this
    rw [strideLeft_eq, strideRight_eq]; rfl

/-- ALL converting constructors between the three mapping types at once (`Mapping.convertTo` = the constructor that
    exists for the pair of layouts, `none` if it does not exist or one of its assertions fails): the converted mapping
    has the requested layout, the same rank and extents, computes the same offset for EVERY index tuple and requires
    the same span -/
theorem convertTo_preserves (m m' : Mapping) (t : Layout) (h : m.convertTo t = some m') :
    m'.lay = t ∧ m'.rank = m.rank ∧ m'.ext = m.ext ∧ (∀ I, m'.offset I = m.offset I) ∧
    m'.requiredSpan = m.requiredSpan := by
  cases m with | mk lay rank ext str =>
  cases lay <;> cases t
  · -- left → left
    cases h; exact ⟨rfl, rfl, rfl, fun _ => rfl, rfl⟩
  · -- left → right (rank ≤ 1)
    simp only [Mapping.convertTo] at h
    split at h
    · rename_i hr
      cases h
      exact ⟨rfl, rfl, rfl, fun I => ((convert_left_right rank hr ext I).1).symm, rfl⟩
    · cases h
  · -- left → stride
    cases h
    refine ⟨rfl, rfl, rfl, fun I => (convert_preserves_left rank ext).1 I, (convert_preserves_left rank ext).2.1⟩
  · -- right → left (rank ≤ 1)
    simp only [Mapping.convertTo] at h
    split at h
    · rename_i hr
      cases h
      exact ⟨rfl, rfl, rfl, fun I => (convert_left_right rank hr ext I).1, rfl⟩
    · cases h
  · -- right → right
    cases h; exact ⟨rfl, rfl, rfl, fun _ => rfl, rfl⟩
  · -- right → stride
    cases h
    refine ⟨rfl, rfl, rfl, fun I => (convert_preserves_right rank ext).1 I, (convert_preserves_right rank ext).2.1⟩
  · -- stride → left (assertions of the constructor hold)
    simp only [Mapping.convertTo] at h
    split at h
    · rename_i hc
      cases h
      have hs := (checkFromStrideLeft_iff rank ext str).mp hc
      refine ⟨rfl, rfl, rfl, fun I => (convert_from_stride_preserves rank ext str).1 hc I, ?_⟩
      show product rank ext = requiredSpanStride rank ext str
      rw [requiredSpanStride_congr (F := ext) (T := fun r => strideLeft rank ext r) (fun _ _ => rfl) hs]
      exact ((convert_preserves_left rank ext).2.1).symm
    · cases h
  · -- stride → right
    simp only [Mapping.convertTo] at h
    split at h
    · rename_i hc
      cases h
      have hs := (checkFromStrideRight_iff rank ext str).mp hc
      refine ⟨rfl, rfl, rfl, fun I => (convert_from_stride_preserves rank ext str).2 hc I, ?_⟩
      show product rank ext = requiredSpanStride rank ext str
      rw [requiredSpanStride_congr (F := ext) (T := fun r => strideRight rank ext r) (fun _ _ => rfl) hs]
      exact ((convert_preserves_right rank ext).2.1).symm
    · cases h
  · -- stride → stride: the strides are copied
    cases h; exact ⟨rfl, rfl, rfl, fun _ => rfl, rfl⟩

example : ((Mapping.toStride ⟨.left, 3, arr [2,3,4], fun _ => 0⟩).convertTo .left).map (·.offset (arr [1,2,3])) = some 23 ∧
    (Mapping.toStride ⟨.left, 3, arr [2,3,4], fun _ => 0⟩).str 2 = 6 ∧
    (Mapping.toStride ⟨.left, 3, arr [2,3,4], fun _ => 0⟩).offset (arr [1,2,3]) = 23 := by decide
example : checkFromStrideLeft 2 (arr [2,3]) (arr [1,3]) = false ∧ checkFromStrideRight 2 (arr [2,3]) (arr [3,1]) = true := by decide

/-! ## extents: static/dynamic pattern and the dynamic index table -/

/-- `dynamic_index_[r]` is the number of dynamic extents before position `r` -/
theorem dynamic_index_table_correct (p : Pattern) (r : Nat) (hr : r ≤ p.length) :
    (makeDynamicIndex p).getD r 0 = countDyn p r :=
  makeDynamicIndex_getD p r hr

/-- constructing from all `rank` values (compatible with the static extents) yields exactly these extents … -/
theorem extents_from_full (p : Pattern) (c : List Nat) (hc : compatible p c = true) (e : Extents)
    (he : initDynamic p c = some e) : ∀ r, r < p.length → e.extent r = c.getD r 0 :=
  extent_of_initDynamic p c hc e (Or.inl he)

/-- … and constructing from the dynamic extents only places the j-th value at the j-th dynamic position and keeps
    the static extents -/
theorem extents_from_dynamic (p : Pattern) (c : List Nat) (hc : compatible p c = true) (e : Extents)
    (he : initDynamic p (dynPart p c) = some e) : ∀ r, r < p.length → e.extent r = c.getD r 0 :=
  extent_of_initDynamic p c hc e (Or.inr he)

/-- converting an extents object to another extents type of the same rank whose static extents agree with its values
    (`extents(const extents<I,e...>&)`) preserves every extent — for ARBITRARY static/dynamic patterns on both sides:
    `o.pat` (source) and `q` (target) are unrelated lists, so a dimension may be static in the source and dynamic in the
    target, dynamic in the source and static in the target, and the dynamic extents may sit at different positions of
    the two `dynamic_extents_` arrays (the conversion is position-aware: it goes through `as_array(other)`, all `rank`
    values, and `init_dynamic_extents` picks the target's dynamic positions) -/
theorem convert_extents_preserves (q : Pattern) (o e : Extents) (hq : compatible q o.toList = true)
    (he : Extents.convert q o = some e) : ∀ r, r < o.rank → e.extent r = o.extent r := by
  unfold Extents.convert at he
  split at he
  · rename_i hlen
    intro r hr
    have := extent_of_initDynamic q o.toList hq e (Or.inl he) r (by omega)
    rw [this]
    simp [Extents.toList, List.getD_eq_getElem?_getD, hr]
  · cases he

/-- … hence the mapping over the converted extents (`mapping(const mapping<OtherExtents>&)` of all three layouts:
    `extents_(m.extents())`, strides copied) has the same rank, computes the same offset for EVERY index tuple and requires
    the same span -/
theorem convert_extents_preserves_addressing (q : Pattern) (o e : Extents) (hq : compatible q o.toList = true)
    (he : Extents.convert q o = some e) (lay : Layout) (S : Arr) :
    e.rank = o.rank ∧
    (∀ I, (Mapping.mk lay e.rank e.extent S).offset I = (Mapping.mk lay o.rank o.extent S).offset I) ∧
    (Mapping.mk lay e.rank e.extent S).requiredSpan = (Mapping.mk lay o.rank o.extent S).requiredSpan := by
  have hext := convert_extents_preserves q o e hq he
  have hrank : e.rank = o.rank := by
    unfold Extents.convert at he
    split at he
    · rename_i hlen
      show e.pat.length = o.rank
      rw [initDynamic_pat he]; exact hlen
    · cases he
  refine ⟨hrank, ?_, ?_⟩
  · intro I
    rw [hrank]
    cases lay
    · show offsetLeft o.rank e.extent I = offsetLeft o.rank o.extent I
      rw [offsetLeft_eq_polyL, offsetLeft_eq_polyL]
      exact polyL_congr_ext (fun k _ hk => hext k (by omega))
    · show offsetRight o.rank e.extent I = offsetRight o.rank o.extent I
      rw [offsetRight_eq_polyR, offsetRight_eq_polyR]
      exact polyR_congr_ext hext
    · rfl
  · rw [hrank]
    cases lay
    · show product o.rank e.extent = product o.rank o.extent
      rw [product_eq, product_eq]
      exact prodFrom_congr (fun k _ hk => hext k (by omega))
    · show product o.rank e.extent = product o.rank o.extent
      rw [product_eq, product_eq]
      exact prodFrom_congr (fun k _ hk => hext k (by omega))
    · exact requiredSpanStride_congr hext (fun _ _ => rfl)

/-- value-initialised extents (`E{}`; used by the default constructors of mappings, views and arrays): static extents
    as declared, every dynamic extent 0 — so a default-constructed view/array with a dynamic extent is empty -/
theorem extents_default (p : Pattern) (r : Nat) (hr : r < p.length) :
    (∀ s, p[r]? = some (some s) → (Extents.dflt p).extent r = s) ∧
    (p[r]? = some none → (Extents.dflt p).extent r = 0 ∧ mdSize p.length (Extents.dflt p).extent = 0) := by
  refine ⟨fun s h => extent_static (Extents.dflt p) r s h, fun h => ?_⟩
  have h0 := extent_default_dynamic p r hr h
  refine ⟨h0, ?_⟩
  rw [mdSize_eq, prodFrom_eq_zero_iff]
  exact ⟨r, Nat.zero_le _, by omega, h0⟩

example : (Extents.dflt [some 2, none, some 3]).toList = [2,0,3] := by decide

-- non-vacuity of the conversion theorems with dynamic extents at DIFFERENT positions: extents<int,dyn,3>{5} →
-- extents<long,5,dyn> is 5 x 3 (copying the stored dynamic values by their position in the array would give 5 x 5);
-- extents<int,dyn,dyn,4>{2,3} → extents<long,2,dyn,dyn> is 2 x 3 x 4; and a left mapping over either addresses alike
example : compatible [some 5, none] (Extents.toList ⟨[none, some 3], [5]⟩) = true ∧
    (Extents.convert [some 5, none] ⟨[none, some 3], [5]⟩).map (fun e => (e.dyn, e.toList)) = some ([3], [5,3]) ∧
    (Extents.convert [some 2, none, none] ⟨[none, none, some 4], [2,3]⟩).map (fun e => (e.dyn, e.toList)) = some ([3,4], [2,3,4]) ∧
    ((Extents.convert [some 5, none] ⟨[none, some 3], [5]⟩).map fun e => offsetLeft 2 e.extent (arr [4,2])) = some 14 ∧
    offsetLeft 2 (Extents.extent ⟨[none, some 3], [5]⟩) (arr [4,2]) = 14 := by decide

-- non-vacuity: extents<I, 2, dyn, 3, dyn> from (2,5,3,7) and from the dynamic values (5,7)
example : makeDynamicIndex [some 2, none, some 3, none] = [0,0,1,1,2] ∧
    (initDynamic [some 2, none, some 3, none] [2,5,3,7]).map (·.toList) = some [2,5,3,7] ∧
    (initDynamic [some 2, none, some 3, none] [5,7]).map (·.toList) = some [2,5,3,7] ∧
    compatible [some 2, none, some 3, none] [2,5,3,7] = true ∧ dynPart [some 2, none, some 3, none] [2,5,3,7] = [5,7] := by
  decide

/-! ## mdspan / mdarray -/

/-- an owning array built by `mdarray(mapping)` (container of `required_span_size()` elements) can be accessed at
    every valid index, for all three layouts: nothing outside the storage is touched -/
theorem mdarray_access_in_bounds (m : Mapping) (v : Int) (I : Arr) (h : Valid m.rank m.ext I) :
    (Md.new m v).get? I = some v ∧ m.offset I < (Md.new m v).data.length := by
  have hr := offset_in_range m I h
  simp only [Md.new, Md.get?, List.length_replicate, Gen.mdarray_from_mapping_csize]
  refine ⟨?_, hr⟩
  rw [List.getElem?_replicate]
  simp [hr]

/-- a view over storage of at least `required_span_size()` elements reads inside the storage -/
theorem mdspan_access_in_bounds (m : Mapping) (data : List Int) (hd : m.requiredSpan ≤ data.length) (I : Arr)
    (h : Valid m.rank m.ext I) : ∃ v, (Md.mk m data).get? I = some v := by
  have hr := offset_in_range m I h
  have : m.offset I < data.length := by omega
  exact ⟨data[m.offset I], by simp [Md.get?, List.getElem?_eq_getElem this]⟩

/-- exactly the designated element: writing at `I` is read back at `I` and leaves the element of every other valid
    index `J` untouched — for EVERY unique mapping (any layout, any stride vector making the mapping unique) over
    storage of at least `required_span_size()` elements (views over foreign storage, arrays built from a container) -/
theorem md_write_read_unique (a : Md) (I J : Arr) (v : Int) (hu : InjOn a.map)
    (hd : a.map.requiredSpan ≤ a.data.length) (hI : Valid a.map.rank a.map.ext I) (hJ : Valid a.map.rank a.map.ext J) :
    (a.set I v).get? I = some v ∧ ((∃ k, k < a.map.rank ∧ I k ≠ J k) → (a.set I v).get? J = a.get? J) ∧
    (a.set I v).data.length = a.data.length := by
  have hr := offset_in_range a.map I hI
  refine ⟨?_, ?_, by simp [Md.set]⟩
  · simp only [Md.set, Md.get?]
    exact getElem?_set_self' _ _ _ (by omega)
  · rintro ⟨k, hk, hne⟩
    simp only [Md.set, Md.get?]
    apply getElem?_set_ne'
    intro heq
    exact hne (hu I J hI hJ heq k hk)

/-- the same with the uniqueness supplied by the criterion of `offset_injective` -/
theorem md_write_read (a : Md) (I J : Arr) (v : Int)
    (hu : a.map.lay = .stride → ∃ p : List Nat, p.Perm (List.range a.map.rank) ∧ DescChain a.map.ext a.map.str p)
    (hd : a.map.requiredSpan ≤ a.data.length) (hI : Valid a.map.rank a.map.ext I) (hJ : Valid a.map.rank a.map.ext J) :
    (a.set I v).get? I = some v ∧ ((∃ k, k < a.map.rank ∧ I k ≠ J k) → (a.set I v).get? J = a.get? J) := by
  have hr := offset_in_range a.map I hI
  constructor
  · simp only [Md.set, Md.get?]
    exact getElem?_set_self' _ _ _ (by omega)
  · rintro ⟨k, hk, hne⟩
    simp only [Md.set, Md.get?]
    apply getElem?_set_ne'
    intro heq
    exact hne (offset_injective a.map I J hu hI hJ heq k hk)

/-- sizes are consistent: `size()` of a view/array is the product of the extents, which for left/right is the
    container size chosen by the constructors -/
theorem md_size_consistent (n : Nat) (E : Arr) :
    mdSize n E = prodFrom E 0 n ∧ mdSize n E = product n E ∧
    (Md.new ⟨.left, n, E, fun _ => 0⟩).data.length = mdSize n E ∧ (Md.new ⟨.right, n, E, fun _ => 0⟩).data.length = mdSize n E := by
  refine ⟨mdSize_eq n E, by rw [mdSize_eq, product_eq], ?_, ?_⟩ <;>
    simp [Md.new, Mapping.requiredSpan, mdSize_eq, product_eq, Gen.mdarray_from_mapping_csize]

example : (Md.new ⟨.left, 2, arr [2,3], fun _ => 0⟩ 7).get? (arr [1,2]) = some 7 ∧
    ((Md.new ⟨.left, 2, arr [2,3], fun _ => 0⟩ 7).set (arr [1,2]) 9).data = [7,7,7,7,7,9] ∧
    ((Md.new ⟨.right, 2, arr [2,3], fun _ => 0⟩ 7).set (arr [1,0]) 9).data = [7,7,7,9,7,7] := by decide

/-- the number of elements the two `mdarray(const mdspan&[, const Alloc&])` constructors create their container with
    (the member initialisers as regenerated from mdarray.hh) is the required span of the mapping the array adopts, and
    both constructors build the same array -/
theorem mdarray_from_view_alloc (m : Mapping) (other : View) :
    Gen.mdarray_from_mdspan_csize m.requiredSpan other.map.requiredSpan (mdSize other.map.rank other.map.ext) = m.requiredSpan ∧
    Gen.mdarray_from_mdspan_alloc_csize m.requiredSpan other.map.requiredSpan (mdSize other.map.rank other.map.ext) = m.requiredSpan ∧
    Md.fromViewAlloc m other = Md.fromView m other := ⟨rfl, rfl, rfl⟩

/-- copies refer to equal elements, for ALL layout, accessor and stride choices: an array built from a view
    (`mdarray(const mdspan&)`: container of `mapping_type(other.mapping()).required_span_size()` elements,
    `mapping_(other.mapping())`, then the nested loops `container_[mapping_(ii...)] = other[ii...]`) holds at every valid
    index the element the view yields there, i.e. `accessor.access(data_handle, other.mapping()(ii...))` — for an array
    with EVERY unique mapping `m` (left, right, or strided with any stride vector making it unique: padded, permuted,
    non-exhaustive — a user-supplied layout policy) and a view of any layout and ANY accessor policy (`other.acc` is an
    arbitrary function of the offset) that stays inside its storage.  (Round four: the restriction to left/right arrays
    is gone; with a container of `other.size()` elements the statement is false for non-exhaustive mappings.) -/
theorem mdarray_from_view_elements (m : Mapping) (hu : InjOn m) (other : View)
    (hrank : other.map.rank = m.rank)
    (hother : ∀ J, Valid m.rank m.ext J → ∃ v, other.get? J = some v)
    (I : Arr) (hI : Valid m.rank m.ext I) : (Md.fromView m other).get? I = other.get? I := by
  unfold Md.fromView
  rw [initFromView_eq]
  apply initFold_spec m hu other hrank (fun J hJ => offset_in_range m J hJ) I hI (hother I hI)
  · rfl
  · -- the container has exactly the required span of the adopted mapping
    show m.requiredSpan ≤ (List.replicate _ 0).length
    rw [List.length_replicate, (mdarray_from_view_alloc m other).1]
    exact Nat.le_refl _
  · intro t ht k hk
    obtain ⟨hl, hv⟩ := valid_of_mem_allTuples _ t ht
    rw [toList_length] at hl hv
    have := hv k hk
    rw [toList_getD _ _ _ hk] at this
    exact this
  · right
    refine ⟨toList m.rank I, ?_, fun k hk => arr_toList m.rank I k hk⟩
    apply mem_allTuples
    · rw [toList_length, toList_length]
    · intro k hk
      rw [toList_length] at hk
      rw [toList_getD _ _ _ hk, toList_getD _ _ _ hk]
      exact hI k hk

/-- the special case of a view with `default_accessor` over flat storage -/
theorem mdarray_from_mdspan_elements (m : Mapping) (hu : InjOn m) (other : Md)
    (hrank : other.map.rank = m.rank)
    (hother : ∀ J, Valid m.rank m.ext J → ∃ v, other.get? J = some v)
    (I : Arr) (hI : Valid m.rank m.ext I) : (Md.fromMdspan m other).get? I = other.get? I :=
  mdarray_from_view_elements m hu other.toView hrank hother I hI

example : (Md.fromMdspan ⟨.left, 2, arr [2,3], fun _ => 0⟩ ⟨⟨.right, 2, arr [2,3], fun _ => 0⟩, [10,11,12,13,14,15]⟩).data
    = [10,13,11,14,12,15] := by decide

-- an accessor that views every second entry of interleaved storage, starting at 1 (`access(p,i) = p[2*i+1]`): the array
-- holds the viewed entries 1,3,5,7,9,11 (in its own layout), not the raw entries `p[i]`
example : (Md.fromView ⟨.left, 2, arr [2,3], fun _ => 0⟩
    (AccView.toView ⟨⟨.right, 2, arr [2,3], fun _ => 0⟩, fun i => 2 * i + 1, [0,1,2,3,4,5,6,7,8,9,10,11,12]⟩)).data
    = [1,7,3,9,5,11] := by decide

-- a padded array (rows of 3 elements padded to 4: extents (2,3), strides (4,1), unique by the criterion, NOT exhaustive:
-- size() = 6 < required span 7) built from a view with the same mapping: 7 elements, the padding entry stays 0, the last
-- element sits at offset 6 — with a container of other.size() = 6 elements it would lie outside
example : SortedUnique 2 (arr [2,3]) (arr [4,1]) ∧
    (Md.fromMdspan ⟨.stride, 2, arr [2,3], arr [4,1]⟩ ⟨⟨.stride, 2, arr [2,3], arr [4,1]⟩, [10,11,12,13,14,15,16]⟩).data
      = [10,11,12,0,14,15,16] ∧
    mdSize 2 (arr [2,3]) = 6 ∧ Mapping.offset ⟨.stride, 2, arr [2,3], arr [4,1]⟩ (arr [1,2]) = 6 :=
  ⟨⟨[0,1], by decide, by decide, by decide⟩, by decide, by decide, by decide⟩

/-- the container of an array built from a view (any accessor policy, any layout of the array) has exactly the elements
    the adopted mapping requires: every later access at a valid index is inside the container; for an exhaustive
    (left/right) array over the view's extents that number is `other.size()` -/
theorem mdarray_from_view_container (m : Mapping) (other : View) :
    (Md.fromView m other).data.length = m.requiredSpan ∧ (Md.fromView m other).map = m ∧
    (∀ I, Valid m.rank m.ext I → m.offset I < (Md.fromView m other).data.length) ∧
    (m.lay ≠ .stride → other.map.rank = m.rank → (∀ k, k < m.rank → other.map.ext k = m.ext k) →
      (Md.fromView m other).data.length = mdSize other.map.rank other.map.ext) := by
  have hlen : (Md.fromView m other).data.length = m.requiredSpan := by
    unfold Md.fromView
    rw [initFromView_eq, initFold_length, List.length_replicate, (mdarray_from_view_alloc m other).1]
  refine ⟨hlen, ?_, fun I hI => by rw [hlen]; exact offset_in_range m I hI, fun hm hrank hext => ?_⟩
  · unfold Md.fromView
    rw [initFromView_eq, initFold_map]
  · rw [hlen, mdSize_eq, hrank, prodFrom_congr (fun k _ hk => hext k (by simpa using hk))]
    cases m with | mk lay rank ext str =>
    cases lay
    · show product rank ext = _; rw [product_eq]
    · show product rank ext = _; rw [product_eq]
    · exact absurd rfl hm

theorem mdarray_from_mdspan_container (m : Mapping) (other : Md) :
    (Md.fromMdspan m other).data.length = m.requiredSpan ∧ (Md.fromMdspan m other).map = m ∧
    (∀ I, Valid m.rank m.ext I → m.offset I < (Md.fromMdspan m other).data.length) ∧
    (m.lay ≠ .stride → other.map.rank = m.rank → (∀ k, k < m.rank → other.map.ext k = m.ext k) →
      (Md.fromMdspan m other).data.length = mdSize other.map.rank other.map.ext) :=
  mdarray_from_view_container m other.toView

/-- second use of an array built from a view, for EVERY unique mapping (padded / permuted strides included): a later
    write at a valid index `I` is read back at `I`, every other valid index `J` still holds the element the view yielded
    there, and the container keeps exactly the required span -/
theorem mdarray_from_view_then_write (m : Mapping) (hu : InjOn m) (other : View)
    (hrank : other.map.rank = m.rank)
    (hother : ∀ J, Valid m.rank m.ext J → ∃ v, other.get? J = some v)
    (I J : Arr) (v : Int) (hI : Valid m.rank m.ext I) (hJ : Valid m.rank m.ext J) :
    ((Md.fromView m other).set I v).get? I = some v ∧
    ((∃ k, k < m.rank ∧ I k ≠ J k) → ((Md.fromView m other).set I v).get? J = other.get? J) ∧
    ((Md.fromView m other).set I v).data.length = m.requiredSpan := by
  obtain ⟨hlen, hmap, _, _⟩ := mdarray_from_view_container m other
  have h := md_write_read_unique (Md.fromView m other) I J v (by rw [hmap]; exact hu) (by rw [hmap, hlen]; exact Nat.le_refl _)
    (by rw [hmap]; exact hI) (by rw [hmap]; exact hJ)
  refine ⟨h.1, fun hne => ?_, by rw [h.2.2, hlen]⟩
  rw [h.2.1 (by rw [hmap]; exact hne)]
  exact mdarray_from_view_elements m hu other hrank hother J hJ

-- the padded array of the example above, then `a(0,1) = 99`: the neighbours and the padding entry are untouched
example : ((Md.fromMdspan ⟨.stride, 2, arr [2,3], arr [4,1]⟩ ⟨⟨.stride, 2, arr [2,3], arr [4,1]⟩, [10,11,12,13,14,15,16]⟩).set
    (arr [0,1]) 99).data = [10,99,12,0,14,15,16] := by decide

/-- whole histories on one object (induction over the history): after ANY sequence of assignments at valid indices
    through a view / array with a unique mapping over storage of at least `required_span_size()` elements, the mapping
    and the storage size are unchanged and every valid index `J` reads the value of the LAST assignment made to `J`, or
    its original element if `J` was never assigned — no assignment ever disturbs another index -/
theorem md_history (a : Md) (hu : InjOn a.map) (hd : a.map.requiredSpan ≤ a.data.length)
    (ws : List (List Nat × Int)) (hws : ∀ w, w ∈ ws → Valid a.map.rank a.map.ext (arr w.1))
    (J : Arr) (hJ : Valid a.map.rank a.map.ext J) :
    (a.writes ws).map = a.map ∧ (a.writes ws).data.length = a.data.length ∧
    (a.writes ws).get? J = (match lastWrite a.map.rank J ws with | some v => some v | none => a.get? J) := by
  refine ⟨Md.writes_map a ws, Md.writes_length a ws, ?_⟩
  induction ws generalizing a with
  | nil => rfl
  | cons w ws ih =>
    have hw := hws w (by simp)
    have hstep := md_write_read_unique a (arr w.1) J w.2 hu hd hw hJ
    have hmap : (a.set (arr w.1) w.2).map = a.map := rfl
    have := ih (a.set (arr w.1) w.2) (by rw [hmap]; exact hu) (by rw [hmap, hstep.2.2]; exact hd)
      (fun w' hw' => by rw [hmap]; exact hws w' (List.mem_cons_of_mem _ hw')) (by rw [hmap]; exact hJ)
    rw [Md.writes, this, hmap]
    simp only [lastWrite]
    cases hl : lastWrite a.map.rank J ws with
    | some v => rfl
    | none =>
      simp only
      by_cases hag : (List.range a.map.rank).all (fun k => arr w.1 k == J k) = true
      · rw [if_pos hag]
        have hall : ∀ k, k < a.map.rank → arr w.1 k = J k := by
          intro k hk
          have := List.all_eq_true.mp hag k (List.mem_range.mpr hk)
          exact beq_iff_eq.mp this
        have hoff : a.map.offset (arr w.1) = a.map.offset J := Mapping.offset_congr a.map hall
        have h1 := hstep.1
        simp only [Md.get?, Md.set] at h1 ⊢
        rw [← hoff]; exact h1
      · rw [if_neg hag]
        apply hstep.2.1
        have : ¬ ∀ k, k ∈ List.range a.map.rank → (arr w.1 k == J k) = true := fun h => hag (List.all_eq_true.mpr h)
        have ⟨k, hk⟩ := Classical.not_forall.mp this
        have ⟨hk1, hk2⟩ := Classical.not_imp.mp hk
        exact ⟨k, List.mem_range.mp hk1, fun h => hk2 (beq_iff_eq.mpr h)⟩

-- a history on the padded 2 x 3 array (strides (4,1)): (0,1) is assigned twice, (1,2) once, (1,0) never
example : ((Md.new ⟨.stride, 2, arr [2,3], arr [4,1]⟩ 7).writes [([0,1], 1), ([1,2], 2), ([0,1], 3)]).data = [7,3,7,7,7,7,2] ∧
    lastWrite 2 (arr [0,1]) [([0,1], 1), ([1,2], 2), ([0,1], 3)] = some 3 ∧
    lastWrite 2 (arr [1,0]) [([0,1], 1), ([1,2], 2), ([0,1], 3)] = none := by decide

/-- conversions of views refer to equal elements: a view whose mapping was converted by any of the mapping
    constructors (`mdspan(const mdspan<…>&)`: same data handle, `mapping_type(other.mapping())`) reads, at every index
    tuple, the element the original view reads -/
theorem mdspan_convert_elements (a : Md) (t : Layout) (m' : Mapping) (h : a.map.convertTo t = some m') (I : Arr) :
    (Md.mk m' a.data).get? I = a.get? I := by
  simp only [Md.get?]
  rw [(convertTo_preserves a.map m' t h).2.2.2.1 I]

/-- sizes agree between the two classes: `mdarray::size()` = `mdspan::size()` = product of the extents (both loops are
    regenerated from their sources) -/
theorem mdarray_size_consistent (n : Nat) (E : Arr) : mdarraySize n E = mdSize n E ∧ mdarraySize n E = prodFrom E 0 n := by
  rw [mdarraySize_eq, mdSize_eq]; exact ⟨rfl, rfl⟩

/-! ## round three: containers that are larger than the index space, accessor policies, index types -/

/-- `size()` of an owning array counts the index tuples, WHATEVER container it owns: an array built by
    `mdarray(extents|mapping, container)` from an arbitrary container `c` (e.g. a re-used, larger buffer, or a
    `std::array<T,N>` with `N` above the product of the extents) reports the number of index tuples = the product of the
    extents = `to_mdspan().size()`, while `container_size()` is `c.size()`; for left/right mappings that is the required
    span, and a copy of the array made through its view owns exactly `size()` elements -/
theorem mdarray_size_any_container (m : Mapping) (c : List Int) :
    (Md.fromContainer m c).size = (allTuples (toList m.rank m.ext)).length ∧
    (Md.fromContainer m c).size = prodFrom m.ext 0 m.rank ∧
    (Md.fromContainer m c).size = mdSize m.rank m.ext ∧
    (Md.fromContainer m c).containerSize = c.length ∧
    (m.lay ≠ .stride → (Md.fromContainer m c).size = m.requiredSpan ∧
      (Md.fromMdspan m (Md.fromContainer m c)).containerSize = (Md.fromContainer m c).size) := by
  have hs : (Md.fromContainer m c).size = prodFrom m.ext 0 m.rank := mdarraySize_eq m.rank m.ext
  refine ⟨by rw [hs, allTuples_toList_length], hs, by rw [hs, mdSize_eq], rfl, fun hm => ?_⟩
  have hreq : m.requiredSpan = prodFrom m.ext 0 m.rank := by
    cases m with | mk lay rank ext str =>
    cases lay
    · exact product_eq rank ext
    · exact product_eq rank ext
    · exact absurd rfl hm
  refine ⟨by rw [hs, hreq], ?_⟩
  have := (mdarray_from_mdspan_container m (Md.fromContainer m c)).2.2.2 hm rfl (fun _ _ => rfl)
  show (Md.fromMdspan m (Md.fromContainer m c)).data.length = _
  rw [this, hs]
  exact mdSize_eq m.rank m.ext

-- a 2 x 3 array over a buffer of 10 elements: size 6, container size 10; a 0 x 3 array over 4 elements is empty
example : (Md.fromContainer ⟨.right, 2, arr [2,3], fun _ => 0⟩ [1,2,3,4,5,6,7,8,9,10]).size = 6 ∧
    (Md.fromContainer ⟨.right, 2, arr [2,3], fun _ => 0⟩ [1,2,3,4,5,6,7,8,9,10]).containerSize = 10 ∧
    (Md.fromContainer ⟨.left, 2, arr [0,3], fun _ => 0⟩ [1,2,3,4]).size = 0 := by decide

/-- an array over a container that is larger than the required span (every unique mapping): all valid accesses are
    inside, writes at valid indices are read back and never touch an element at or beyond `required_span_size()` (the
    surplus of the container stays as it was) -/
theorem mdarray_oversized_container (a : Md) (I : Arr) (v : Int)
    (hd : a.map.requiredSpan ≤ a.data.length) (hI : Valid a.map.rank a.map.ext I) :
    a.map.offset I < a.data.length ∧ (a.set I v).get? I = some v ∧ (a.set I v).size = a.size ∧
    (a.set I v).containerSize = a.containerSize ∧
    ∀ j, a.map.requiredSpan ≤ j → (a.set I v).data[j]? = a.data[j]? := by
  have hr := offset_in_range a.map I hI
  refine ⟨by omega, ?_, rfl, by simp [Md.set, Md.containerSize], ?_⟩
  · simp only [Md.set, Md.get?]
    exact getElem?_set_self' _ _ _ (by omega)
  · intro j hj
    simp only [Md.set]
    exact getElem?_set_ne' _ _ _ _ (by omega)

example : ((Md.fromContainer ⟨.left, 2, arr [2,2], fun _ => 0⟩ [1,2,3,4,5,6]).set (arr [1,1]) 9).data = [1,2,3,9,5,6] := by decide

/-- `std::array<T,N>` as container (`ContainerConstructionTraits<std::array<T,N>>::construct` asserts `size <= N`):
    the array owns all `N` elements, each valid index reads the initial value, and `size()` is still the product of
    the extents -/
theorem mdarray_std_array_container (m : Mapping) (N : Nat) (v : Int) (a : Md) (h : Md.newArray m N v = some a) :
    m.requiredSpan ≤ N ∧ a.containerSize = N ∧ a.size = prodFrom m.ext 0 m.rank ∧
    ∀ I, Valid m.rank m.ext I → a.get? I = some v := by
  unfold Md.newArray at h
  split at h
  · rename_i hN
    cases h
    refine ⟨hN, by simp [Md.containerSize], mdarraySize_eq m.rank m.ext, ?_⟩
    intro I hI
    have hr := offset_in_range m I hI
    simp only [Md.get?]
    rw [List.getElem?_replicate]
    simp; omega
  · cases h

example : (Md.newArray ⟨.right, 2, arr [2,3], fun _ => 0⟩ 8 7).map (fun a => (a.size, a.containerSize)) = some (6, 8) ∧
    (Md.newArray ⟨.right, 2, arr [2,3], fun _ => 0⟩ 5 7).isNone = true := by decide

/-- views with an accessor policy `access(p, i) = p[pos i]` (any `pos` that is injective on `[0, required_span_size)`
    and stays inside the storage there — `default_accessor` is `pos = id`): a write at `I` is read back at `I`, leaves the
    element of every other valid index untouched and keeps the storage size — for EVERY unique mapping -/
theorem accview_write_read_unique (a : AccView) (I J : Arr) (v : Int) (hu : InjOn a.map)
    (hpos : ∀ i j, i < a.map.requiredSpan → j < a.map.requiredSpan → a.pos i = a.pos j → i = j)
    (hd : ∀ i, i < a.map.requiredSpan → a.pos i < a.data.length)
    (hI : Valid a.map.rank a.map.ext I) (hJ : Valid a.map.rank a.map.ext J) :
    (a.set I v).get? I = some v ∧ ((∃ k, k < a.map.rank ∧ I k ≠ J k) → (a.set I v).get? J = a.get? J) ∧
    (a.set I v).data.length = a.data.length ∧ (a.set I v).toView.get? I = some v := by
  have hrI := offset_in_range a.map I hI
  have hrJ := offset_in_range a.map J hJ
  have h1 : (a.set I v).get? I = some v := by
    simp only [AccView.set, AccView.get?]
    exact getElem?_set_self' _ _ _ (hd _ hrI)
  refine ⟨h1, ?_, by simp [AccView.set], h1⟩
  rintro ⟨k, hk, hne⟩
  simp only [AccView.set, AccView.get?]
  apply getElem?_set_ne'
  intro heq
  exact hne (hu I J hI hJ (hpos _ _ hrI hrJ heq) k hk)

-- the interleaved accessor `pos i = 2 i + 1` over 13 entries, 2 x 3 row-major: writing (1,0) changes entry 7 only
example : ((AccView.mk ⟨.right, 2, arr [2,3], fun _ => 0⟩ (fun i => 2 * i + 1) [0,1,2,3,4,5,6,7,8,9,10,11,12]).set (arr [1,0]) 99).data
    = [0,1,2,3,4,5,6,99,8,9,10,11,12] := by decide

/-- all index types: for a non-empty index space `stride(i)·extent(i)` of a left mapping is at most
    `required_span_size()`, and every intermediate value of the accumulator of the `stride(i)` loop (assembled from the
    regenerated pieces) is at most `stride(i)` — so whenever `required_span_size()` is representable in `index_type`, the
    stride computation must be carried out in `index_type` and then cannot overflow -/
theorem stride_left_no_overflow (n : Nat) (E : Arr) (i : Nat) (hi : i < n) (hpos : ∀ k, k < n → 0 < E k)
    (t : Nat) (ht : t ≤ i) :
    loopFrom (Gen.left_stride_step n E i) t (Gen.left_stride_lo n E i) (Gen.left_stride_init n E i) ≤ strideLeft n E i ∧
    strideLeft n E i * E i ≤ product n E := by
  constructor
  · show loopFrom (fun r acc => acc * E r) t 0 1 ≤ _
    rw [loop_prod, Nat.one_mul, strideLeft_eq]
    have e : i = t + (i - t) := by omega
    rw [e]
    exact prodFrom_le_add 0 t (i - t) (fun k _ hk => hpos k (by omega))
  · rw [strideLeft_eq, product_eq, prodFrom_split E n i hi]
    exact Nat.le_mul_of_pos_right _ (prodFrom_pos (fun k _ hk => hpos k (by omega)))

theorem stride_right_no_overflow (n : Nat) (E : Arr) (i : Nat) (hi : i < n) (hpos : ∀ k, k < n → 0 < E k)
    (t : Nat) (ht : t ≤ n - (i + 1)) :
    loopFrom (Gen.right_stride_step n E i) t (Gen.right_stride_lo n E i) (Gen.right_stride_init n E i) ≤ strideRight n E i ∧
    strideRight n E i * E i ≤ product n E := by
  constructor
  · show loopFrom (fun r acc => acc * E r) t (i + 1) 1 ≤ _
    rw [loop_prod, Nat.one_mul, strideRight_eq]
    have e : n - (i + 1) = t + (n - (i + 1) - t) := by omega
    rw [e]
    exact prodFrom_le_add (i + 1) t (n - (i + 1) - t) (fun k _ hk => hpos k (by omega))
  · rw [strideRight_eq, product_eq, prodFrom_split E n i hi]
    have hp : 0 < prodFrom E 0 i := prodFrom_pos (fun k _ hk => hpos k (by omega))
    calc prodFrom E (i + 1) (n - (i + 1)) * E i
        = 1 * (E i * prodFrom E (i + 1) (n - (i + 1))) := by rw [Nat.one_mul, Nat.mul_comm]
      _ ≤ prodFrom E 0 i * (E i * prodFrom E (i + 1) (n - (i + 1))) := Nat.mul_le_mul_right _ hp
      _ = prodFrom E 0 i * E i * prodFrom E (i + 1) (n - (i + 1)) := by rw [Nat.mul_assoc]

/-- likewise the loops of `extents::product()` (= `required_span_size()` of left/right), `mdspan::size()` and
    `mdarray::size()`: every partial product is at most the final value when no extent is 0 -/
theorem size_loops_no_overflow (n : Nat) (E : Arr) (hpos : ∀ k, k < n → 0 < E k) (t : Nat) (ht : t ≤ n) :
    loopFrom (Gen.product_step n E) t (Gen.product_lo n E) (Gen.product_init n E) ≤ product n E ∧
    loopFrom (Gen.mdspan_size_step n E) t (Gen.mdspan_size_lo n E) (Gen.mdspan_size_init n E) ≤ mdSize n E ∧
    loopFrom (Gen.mdarray_size_step n E) t (Gen.mdarray_size_lo n E) (Gen.mdarray_size_init n E) ≤ mdarraySize n E := by
  have key : loopFrom (fun r acc => acc * E r) t 0 1 ≤ prodFrom E 0 n := by
    rw [loop_prod, Nat.one_mul]
    have e : n = t + (n - t) := by omega
    rw [e]
    exact prodFrom_le_add 0 t (n - t) (fun k _ hk => hpos k (by omega))
  refine ⟨?_, ?_, ?_⟩
  · rw [product_eq]; exact key
  · rw [mdSize_eq]; exact key
  · rw [mdarraySize_eq]; exact key

/-- … and the summation loop of `layout_stride::mapping::required_span_size()`: every partial sum is at most the result -/
theorem span_stride_no_overflow (n : Nat) (E S : Arr) (hpos : ∀ k, k < n → 0 < E k) (t : Nat) (ht : t ≤ n) :
    loopFrom (Gen.stride_size_step n E S) t (Gen.stride_size_lo n E S) (Gen.stride_size_init n E S) ≤
      requiredSpanStride n E S := by
  rw [requiredSpanStride_pos_ext S hpos]
  show loopFrom (fun r acc => acc + (E r - 1) * S r) t 0 1 ≤ _
  rw [loop_sum]
  have : sumTo t (fun k => (E (0 + k) - 1) * S (0 + k)) ≤ sumTo n (fun k => (E k - 1) * S k) := by
    have e : n = t + (n - t) := by omega
    rw [e]
    clear e ht hpos
    generalize n - t = d
    induction d with
    | zero => exact Nat.le_of_eq (sumTo_congr (fun k _ => by rw [Nat.zero_add]))
    | succ d ih => rw [← Nat.add_assoc]; simp only [sumTo]; omega
  omega

-- 2 x 1 x 3000000000 (the span 6000000000 needs a 64-bit index type): stride(0) = stride(1) = 3000000000 ≥ 2^31
example : strideRight 3 (arr [2,1,3000000000]) 0 = 3000000000 ∧ strideRight 3 (arr [2,1,3000000000]) 1 = 3000000000 ∧
    product 3 (arr [2,1,3000000000]) = 6000000000 ∧
    offsetRight 3 (arr [2,1,3000000000]) (arr [1,0,2999999999]) = 5999999999 ∧
    (Mapping.toStride ⟨.right, 3, arr [2,1,3000000000], fun _ => 0⟩).offset (arr [1,0,2999999999]) = 5999999999 := by decide

/-! ## round four: `is_exhaustive()` of strided mappings -/

/-- for a unique strided mapping (any rank, any extents, any strides): the required span is at least the number of index
    tuples, and it EQUALS that number (the test `is_exhaustive()` performs) iff every offset below the span is hit by a
    valid index tuple — by a pigeonhole argument against the column-major numbering of the index space -/
theorem stride_exhaustive_iff_no_gaps (n : Nat) (E S : Arr)
    (hu : ∀ I J, Valid n E I → Valid n E J → offsetStride n S I = offsetStride n S J → ∀ k, k < n → I k = J k) :
    product n E ≤ requiredSpanStride n E S ∧
    (requiredSpanStride n E S = product n E ↔
      ∀ o, o < requiredSpanStride n E S → ∃ I, Valid n E I ∧ offsetStride n S I = o) := by
  -- enumerate the index space by the column-major numbering
  let T : Nat → Arr := fun q =>
    if h : q < product n E then Classical.choose (left_bijective_onto_range n E q h) else fun _ => 0
  have hT : ∀ q, q < product n E → Valid n E (T q) ∧ offsetLeft n E (T q) = q := by
    intro q hq
    have := Classical.choose_spec (left_bijective_onto_range n E q hq)
    show Valid n E (if h : q < product n E then _ else _) ∧ offsetLeft n E (if h : q < product n E then _ else _) = q
    rw [dif_pos hq]; exact this
  let f : Nat → Nat := fun q => offsetStride n S (T q)
  have hfr : ∀ q, q < product n E → f q < requiredSpanStride n E S :=
    fun q hq => offset_in_range_stride n E S (T q) (hT q hq).1
  have hfi : ∀ q q', q < product n E → q' < product n E → f q = f q' → q = q' := by
    intro q q' hq hq' h
    have hag := hu (T q) (T q') (hT q hq).1 (hT q' hq').1 h
    have := offsetLeft_congr' n E hag
    rw [(hT q hq).2, (hT q' hq').2] at this
    exact this
  have hPR : product n E ≤ requiredSpanStride n E S := pigeon _ _ f hfr hfi
  refine ⟨hPR, ?_, ?_⟩
  · intro heq o ho
    rw [heq] at ho hfr
    obtain ⟨q, hq, hfq⟩ := pigeon_surj (product n E) f hfr hfi o ho
    exact ⟨T q, (hT q hq).1, hfq⟩
  · intro hsurj
    let U : Nat → Arr := fun o =>
      if h : o < requiredSpanStride n E S then Classical.choose (hsurj o h) else fun _ => 0
    have hU : ∀ o, o < requiredSpanStride n E S → Valid n E (U o) ∧ offsetStride n S (U o) = o := by
      intro o ho
      have := Classical.choose_spec (hsurj o ho)
      show Valid n E (if h : o < requiredSpanStride n E S then _ else _) ∧
        offsetStride n S (if h : o < requiredSpanStride n E S then _ else _) = o
      rw [dif_pos ho]; exact this
    have hRP : requiredSpanStride n E S ≤ product n E := by
      apply pigeon _ _ (fun o => offsetLeft n E (U o))
      · intro o ho; exact offset_in_range_left n E (U o) (hU o ho).1
      · intro o o' ho ho' h
        have hag := offset_injective_left n E (U o) (U o') (hU o ho).1 (hU o' ho').1 h
        have := offsetStride_congr' n S hag
        rw [(hU o ho).2, (hU o' ho').2] at this
        exact this
    omega


/-- `is_exhaustive()` of a strided mapping decides exactly whether the mapping fills its range without gaps: for a
    unique strided mapping over a non-empty index space, `is_exhaustive()` is true iff every offset below
    `required_span_size()` is the image of a valid index tuple (as for layout_left / layout_right, which are always
    exhaustive); and the required span is never below the number of index tuples -/
theorem is_exhaustive_iff_no_gaps (m : Mapping) (hlay : m.lay = .stride) (hpos : ∀ k, k < m.rank → 0 < m.ext k)
    (hu : InjOn m) :
    (m.isExhaustive = true ↔ ∀ o, o < m.requiredSpan → ∃ I, Valid m.rank m.ext I ∧ m.offset I = o) ∧
    mdSize m.rank m.ext ≤ m.requiredSpan := by
  obtain ⟨lay, n, E, S⟩ := m
  simp only at hlay hpos
  subst hlay
  have hu' : ∀ I J, Valid n E I → Valid n E J → offsetStride n S I = offsetStride n S J → ∀ k, k < n → I k = J k := hu
  obtain ⟨hle, hiff⟩ := stride_exhaustive_iff_no_gaps n E S hu'
  have hR : requiredSpanStride n E S = 1 + sumTo n (fun k => (E k - 1) * S k) := span_size_stride n E S hpos
  have hex : (Mapping.isExhaustive ⟨.stride, n, E, S⟩ = true) ↔ requiredSpanStride n E S = product n E := by
    show ((n == 0 || (decide (0 < requiredSpanStride n E S) && requiredSpanStride n E S == product n E)) = true) ↔ _
    by_cases hn : n = 0
    · subst hn
      have h1 : requiredSpanStride 0 E S = 1 := by rw [hR]; rfl
      have h2 : product 0 E = 1 := by rw [product_eq]; rfl
      simp [h1, h2]
    · have : (n == 0) = false := by simp [hn]
      rw [this, Bool.false_or, Bool.and_eq_true, decide_eq_true_eq, beq_iff_eq]
      constructor
      · exact fun h => h.2
      · exact fun h => ⟨by omega, h⟩
  refine ⟨hex.trans hiff, ?_⟩
  show mdSize n E ≤ requiredSpanStride n E S
  rw [(md_size_consistent n E).2.1]
  exact hle

-- strides (4,1) over extents (2,3): span 7 > 6 index tuples, not exhaustive, offset 3 is a gap;
-- strides (1,2) (column-major): exhaustive
example : Mapping.isExhaustive ⟨.stride, 2, arr [2,3], arr [4,1]⟩ = false ∧
    Mapping.requiredSpan ⟨.stride, 2, arr [2,3], arr [4,1]⟩ = 7 ∧
    ((allTuples [2,3]).map fun t => Mapping.offset ⟨.stride, 2, arr [2,3], arr [4,1]⟩ (arr t)) = [0,1,2,4,5,6] ∧
    Mapping.isExhaustive ⟨.stride, 2, arr [2,3], arr [1,2]⟩ = true ∧
    ((allTuples [2,3]).map fun t => Mapping.offset ⟨.stride, 2, arr [2,3], arr [1,2]⟩ (arr t)) = [0,2,4,1,3,5] := by decide


/-! ## span sub-views -/

/-- `subspan(offset, count)` (run-time and template form; `count = none` is `dynamic_extent`) under its asserted
    precondition: the result lies inside the parent, and its i-th element is the (offset+i)-th element of the parent -/
theorem subspan_elements {α : Type} (mem : List α) (s t : Span) (o : Nat) (c : Option Nat)
    (h : s.subspan o c = some t) :
    s.off ≤ t.off ∧ t.off + t.size ≤ s.off + s.size ∧ t.off = s.off + o ∧
    (match c with | some c => t.size = c | none => t.size = s.size - o) ∧
    ∀ i, i < t.size → (t.elems mem)[i]? = (s.elems mem)[o + i]? := by
  unfold Span.subspan at h
  cases c with
  | none =>
    simp only at h
    split at h
    · cases h
      refine ⟨by simp, by simp; omega, rfl, rfl, ?_⟩
      intro i hi
      simp only at hi
      rw [elems_getElem? _ _ _ hi, elems_getElem? _ _ _ (by omega)]
      simp [Nat.add_assoc]
    · cases h
  | some c =>
    simp only at h
    split at h
    · rename_i hc
      cases h
      refine ⟨by simp, by simp; omega, rfl, rfl, ?_⟩
      intro i hi
      simp only at hi
      rw [elems_getElem? _ _ _ hi, elems_getElem? _ _ _ (by omega)]
      simp [Nat.add_assoc]
    · cases h

/-- `first(count)` and `last(count)` likewise -/
theorem first_last_elements {α : Type} (mem : List α) (s t : Span) (c : Nat) :
    (s.first c = some t → t.off = s.off ∧ t.size = c ∧ c ≤ s.size ∧
        ∀ i, i < c → (t.elems mem)[i]? = (s.elems mem)[i]?) ∧
    (s.last c = some t → t.off = s.off + (s.size - c) ∧ t.size = c ∧ c ≤ s.size ∧
        ∀ i, i < c → (t.elems mem)[i]? = (s.elems mem)[s.size - c + i]?) := by
  constructor
  · intro h
    unfold Span.first at h
    split at h
    · rename_i hc
      cases h
      refine ⟨rfl, rfl, hc, ?_⟩
      intro i hi
      rw [elems_getElem? _ _ _ hi, elems_getElem? _ _ _ (by omega)]
    · cases h
  · intro h
    unfold Span.last at h
    split at h
    · rename_i hc
      cases h
      refine ⟨rfl, rfl, hc, ?_⟩
      intro i hi
      rw [elems_getElem? _ _ _ hi, elems_getElem? _ _ _ (by omega)]
      simp [Nat.add_assoc]
    · cases h

/-- a span inside its storage has exactly `size()` elements, and `at(i)` is the i-th of them -/
theorem span_elems_size {α : Type} (mem : List α) (s : Span) (h : s.off + s.size ≤ mem.length) :
    (s.elems mem).length = s.size ∧ ∀ i, s.at? mem i = if i < s.size then (s.elems mem)[i]? else none := by
  refine ⟨elems_length s mem h, ?_⟩
  intro i
  unfold Span.at?
  split
  · rename_i hi; rw [elems_getElem? _ _ _ hi]
  · rfl

/-- every single sub-view operation stays inside its parent -/
theorem span_apply_inside (s t : Span) (op : SpanOp) (h : s.apply op = some t) :
    s.off ≤ t.off ∧ t.off + t.size ≤ s.off + s.size := by
  cases op with
  | first c =>
    obtain ⟨h1, h2, h3, _⟩ := (first_last_elements ([] : List Nat) s t c).1 h
    omega
  | last c =>
    obtain ⟨h1, h2, h3, _⟩ := (first_last_elements ([] : List Nat) s t c).2 h
    omega
  | sub o c =>
    obtain ⟨h1, h2, _⟩ := subspan_elements ([] : List Nat) s t o c h
    exact ⟨h1, h2⟩

/-- for ALL histories of `first`/`last`/`subspan` operations (each applied to the result of the previous one, every
    asserted precondition holding): the final span lies inside the initial one, and its i-th element is the element
    of the initial span at the accumulated offset -/
theorem span_history {α : Type} (mem : List α) (ops : List SpanOp) (s t : Span) (h : s.run ops = some t) :
    s.off ≤ t.off ∧ t.off + t.size ≤ s.off + s.size ∧
    ∀ i, i < t.size → (t.elems mem)[i]? = (s.elems mem)[(t.off - s.off) + i]? := by
  have inside : ∀ (ops : List SpanOp) (s t : Span), s.run ops = some t → s.off ≤ t.off ∧ t.off + t.size ≤ s.off + s.size := by
    intro ops
    induction ops with
    | nil => intro s t h; cases h; exact ⟨Nat.le_refl _, Nat.le_refl _⟩
    | cons op ops ih =>
      intro s t h
      simp only [Span.run] at h
      cases hu : s.apply op with
      | none => rw [hu] at h; cases h
      | some u =>
        rw [hu] at h
        have h1 := span_apply_inside s u op hu
        have h2 := ih u t h
        omega
  obtain ⟨h1, h2⟩ := inside ops s t h
  refine ⟨h1, h2, ?_⟩
  intro i hi
  rw [elems_getElem? _ _ _ hi, elems_getElem? _ _ _ (by omega)]
  congr 1; omega

example : (Span.mk 0 9).run [.sub 1 (some 6), .last 4, .first 2, .sub 1 none] = some ⟨4, 1⟩ ∧
    (Span.mk 0 9).run [.sub 1 (some 6), .last 7] = none := by decide

example : (Span.mk 0 6).subspan 1 (some 4) = some ⟨1, 4⟩ ∧ (Span.mk 1 4).subspan 2 none = some ⟨3, 2⟩ ∧
    (Span.mk 3 2).elems [10,11,12,13,14,15] = [13,14] ∧ (Span.mk 0 6).subspan 3 (some 4) = none ∧
    (Span.mk 1 4).last 1 = some ⟨4, 1⟩ := by decide

/-! ## round four: the sub-view functions of span.hh as they read in the source -/

section SpanGen
open DV.C14.Gen

/-- arguments the C++ functions can be called with: an explicit count is not `dynamic_extent` -/
def SpanOpG.wf : SpanOpG → Prop
  | .sub _ (some c) => c < dynExt
  | .tsub _ (some c) => c < dynExt
  | _ => True

/-- the static extent of a span is dynamic or equals its size -/
def extOk (ext : Option Nat) (s : Span) : Prop := ext = none ∨ ext = some s.size

/-- REFINEMENT: each of the six sub-view member functions of span.hh — precondition, pointer offset and size of the
    returned span exactly as regenerated from the source, for a span with a static or a dynamic extent — implements the
    abstract operation `Span.apply` (about which `span_apply_inside`, `subspan_elements`, `first_last_elements` are
    proved), and the static extent it declares for the result (`Count`, `subspan_extent(Offset,Count)`, or dynamic)
    is again consistent with the size of the result -/
theorem span_gen_refines (ext : Option Nat) (s : Span) (op : SpanOpG) (hs : s.size < dynExt) (he : extOk ext s)
    (hw : op.wf) :
    (s.applyG ext op).map (·.2) = s.apply op.erase ∧
    ∀ e t, s.applyG ext op = some (e, t) → extOk e t := by
  have hext : optNat ext = dynExt ∨ optNat ext = s.size := by
    rcases he with h | h <;> simp [h, optNat]
  cases op with
  | first c =>
    simp only [Span.applyG, SpanOpG.erase, Span.apply, Span.first, mkSub, span_first_pre, span_first_off, span_first_size]
    by_cases h : c ≤ s.size <;> simp [h, extOk]
  | last c =>
    simp only [Span.applyG, SpanOpG.erase, Span.apply, Span.last, mkSub, span_last_pre, span_last_off, span_last_size]
    by_cases h : c ≤ s.size <;> simp [h, extOk]
  | tfirst c =>
    simp only [Span.applyG, SpanOpG.erase, Span.apply, Span.first, mkSub, span_tfirst_pre, span_tfirst_off, span_tfirst_size]
    by_cases h : c ≤ s.size
    · simp only [h, decide_true, if_true, Option.map_some]
      refine ⟨by simp, ?_⟩
      intro e t ht
      simp only [Option.some.injEq, Prod.mk.injEq] at ht
      obtain ⟨h1, h2⟩ := ht
      subst h1; subst h2
      exact Or.inr rfl
    · simp [h]
  | tlast c =>
    simp only [Span.applyG, SpanOpG.erase, Span.apply, Span.last, mkSub, span_tlast_pre, span_tlast_off, span_tlast_size]
    by_cases h : c ≤ s.size
    · simp only [h, decide_true, if_true, Option.map_some]
      refine ⟨by simp, ?_⟩
      intro e t ht
      simp only [Option.some.injEq, Prod.mk.injEq] at ht
      obtain ⟨h1, h2⟩ := ht
      subst h1; subst h2
      exact Or.inr rfl
    · simp [h]
  | sub o c =>
    cases c with
    | none =>
      simp only [Span.applyG, SpanOpG.erase, Span.apply, Span.subspan, mkSub, span_sub_pre, span_sub_off, span_sub_size, optNat,
        Option.getD_none]
      by_cases h : o ≤ s.size <;> simp [h, extOk]
    | some c =>
      have hc : c ≠ dynExt := Nat.ne_of_lt hw
      simp only [Span.applyG, SpanOpG.erase, Span.apply, Span.subspan, mkSub, span_sub_pre, span_sub_off, span_sub_size, optNat,
        Option.getD_some]
      by_cases h1 : o ≤ s.size <;> by_cases h2 : c ≤ s.size - o <;> simp [h1, h2, hc, extOk]
  | tsub o c =>
    cases c with
    | none =>
      simp only [Span.applyG, SpanOpG.erase, Span.apply, Span.subspan, mkSub, span_tsub_pre, span_tsub_off, span_tsub_size,
        span_subspan_extent, optNat, Option.getD_none]
      by_cases h : o ≤ s.size
      · refine ⟨by simp [h], ?_⟩
        intro e t ht
        rcases he with he | he
        · subst he
          simp [h, natOpt] at ht
          obtain ⟨h1, h2⟩ := ht
          subst h1; subst h2
          simp [extOk]
        · subst he
          have h3 : s.size - o ≠ dynExt := by omega
          have hs' : s.size ≠ dynExt := Nat.ne_of_lt hs
          simp [h, natOpt, h3, hs'] at ht
          obtain ⟨h1, h2⟩ := ht
          subst h1; subst h2
          simp [extOk]
      · simp [h]
    | some c =>
      have hc : c ≠ dynExt := Nat.ne_of_lt hw
      simp only [Span.applyG, SpanOpG.erase, Span.apply, Span.subspan, mkSub, span_tsub_pre, span_tsub_off, span_tsub_size,
        span_subspan_extent, optNat, Option.getD_some]
      by_cases h1 : o ≤ s.size <;> by_cases h2 : c ≤ s.size - o <;> simp [h1, h2, hc, extOk, natOpt]

/-- the same for whole histories (induction): a sequence of calls of the member functions as they read in span.hh
    computes the span `Span.run` computes for the abstract operations (to which `span_history` applies: inside the initial
    span, element `i` = element `accumulated offset + i`), and the declared static extent stays consistent -/
theorem span_run_gen_refines (ops : List SpanOpG) (ext : Option Nat) (s : Span) (hs : s.size < dynExt) (he : extOk ext s)
    (hw : ∀ op, op ∈ ops → op.wf) :
    (s.runG ext ops).map (·.2) = s.run (ops.map SpanOpG.erase) ∧
    ∀ e t, s.runG ext ops = some (e, t) → extOk e t := by
  induction ops generalizing ext s with
  | nil =>
    refine ⟨rfl, ?_⟩
    intro e t ht
    simp only [Span.runG, Option.some.injEq, Prod.mk.injEq] at ht
    obtain ⟨h1, h2⟩ := ht
    subst h1; subst h2
    exact he
  | cons op ops ih =>
    obtain ⟨h1, h2⟩ := span_gen_refines ext s op hs he (hw op (by simp))
    simp only [Span.runG, List.map_cons, Span.run]
    cases hg : s.applyG ext op with
    | none =>
      rw [hg] at h1
      simp only [Option.map_none] at h1
      rw [← h1]
      exact ⟨rfl, fun e t ht => by cases ht⟩
    | some et =>
      obtain ⟨e1, t1⟩ := et
      rw [hg] at h1
      simp only [Option.map_some] at h1
      rw [← h1]
      have hin := span_apply_inside s t1 op.erase h1.symm
      have hs1 : t1.size < dynExt := by omega
      exact ih e1 t1 hs1 (h2 e1 t1 hg) (fun op' hop' => hw op' (List.mem_cons_of_mem _ hop'))

-- the six functions on a span of 9 elements with static extent 9: `subspan<1>()` declares extent 8, `last<4>()` extent 4,
-- `first(2)` a dynamic extent; the abstract history gives the same span
example : (Span.mk 0 9).runG (some 9) [.tsub 1 none, .tlast 4, .first 2, .sub 1 none] = some (none, ⟨6, 1⟩) ∧
    (Span.mk 0 9).run [.sub 1 none, .last 4, .first 2, .sub 1 none] = some ⟨6, 1⟩ ∧
    (Span.mk 0 9).applyG (some 9) (.tsub 1 none) = some (some 8, ⟨1, 8⟩) ∧
    (Span.mk 0 9).applyG (some 9) (.tsub 1 (some 3)) = some (some 3, ⟨1, 3⟩) ∧
    (Span.mk 0 9).applyG none (.tsub 1 none) = some (none, ⟨1, 8⟩) ∧
    (Span.mk 0 9).applyG (some 9) (.tlast 10) = none := by decide

end SpanGen

end DV.C14
