import DuneVerif.Proofs.C04
/-!
C04 — RemoteIndices equals the pairwise intersection of the published index sets.

Property theorems about the model `DuneVerif/Model/C04.lean` (which describes remoteindices.hh after
fixes/C04_*.patch), for every process count `P ≥ 1`, every decomposition without repeated global indices
(`System.Strict`), `ignorePublic` and `includeSelf` arbitrary, one or two index sets on each rank independently.
MPI itself is trusted (reliable, pairwise FIFO): the theorems speak about which messages a rank processes and
in which order.

Vocabulary (Model/C04.lean): `spec A B` = one entry per pair of `A` whose global index occurs in `B`, in `A`'s
order, carrying `B`'s attribute; `srcPairs/dstPairs ign` = the published source / (effective) target pairs;
`buildRemote ign sys p order` = the map rank ↦ (send, receive) on rank `p`, `order` = arrival order of the
hinted neighbours' messages (neighbour mode); `sendList/recvList m q` = the lists for `q`, empty if `q` has no entry.
-/
namespace DV.C04

/-! ### the merge-join -/

/-- `unpackIndices` on inputs without repeated globals is the sorted intersection: one remote index per local pair
    whose global index was received, in ascending order, carrying the *remote* attribute and the local pair
    (the rewind branch is dead code here; `fromSelf` drops equal attributes). -/
theorem unpack_spec_strict (fromSelf : Bool) (remote : List Wire) (loc : List Pair)
    (hr : StrictW remote) (hl : StrictG loc) :
    unpackLoop fromSelf remote loc = join fromSelf loc remote :=
  unpackLoop_eq_join fromSelf remote loc hr hl

example : StrictW [⟨1, 0⟩, ⟨3, 2⟩, ⟨4, 1⟩] ∧ StrictG [⟨0, 0, 1, true⟩, ⟨3, 1, 3, true⟩, ⟨4, 2, 1, false⟩] ∧
    unpackLoop false [⟨1, 0⟩, ⟨3, 2⟩, ⟨4, 1⟩] [⟨0, 0, 1, true⟩, ⟨3, 1, 3, true⟩, ⟨4, 2, 1, false⟩]
      = [⟨2, ⟨3, 1, 3, true⟩⟩, ⟨1, ⟨4, 2, 1, false⟩⟩] := by decide

/-- **unpack_spec** (Tier B, repeated global indices allowed): for inputs that are merely sorted, the merge-join with
    its rewind yields every pair (remote entry, local pair) with equal global index — except, for the own message,
    those of equal attribute — ordered by remote entry, then local pair. -/
theorem unpack_spec (fromSelf : Bool) (remote : List Wire) (loc : List Pair)
    (hr : SortedW remote) (hl : SortedG loc) :
    unpackLoop fromSelf remote loc = joinAll fromSelf loc remote :=
  unpackLoop_eq_joinAll fromSelf remote loc hr hl

/-- global index 5 twice on both sides (attributes 0/3 remote, 1/2 local): the rewind produces all four pairs -/
example : SortedW [⟨5, 0⟩, ⟨5, 3⟩, ⟨7, 1⟩] ∧ SortedG [⟨2, 0, 0, true⟩, ⟨5, 1, 1, true⟩, ⟨5, 2, 2, true⟩, ⟨7, 3, 1, true⟩] ∧
    unpackLoop true [⟨5, 0⟩, ⟨5, 3⟩, ⟨7, 1⟩] [⟨2, 0, 0, true⟩, ⟨5, 1, 1, true⟩, ⟨5, 2, 2, true⟩, ⟨7, 3, 1, true⟩]
      = [⟨0, ⟨5, 1, 1, true⟩⟩, ⟨0, ⟨5, 2, 2, true⟩⟩, ⟨3, ⟨5, 1, 1, true⟩⟩, ⟨3, ⟨5, 2, 2, true⟩⟩] := by decide

/-- the buffer position after `unpackIndices`: exactly `n` entries are consumed (needed by the two-set path) -/
theorem unpack_consumes_all (fromSelf : Bool) (buf : List Wire) (n : Nat) (loc : List Pair) :
    (unpackIndices fromSelf buf n loc).2 = buf.drop n := by
  unfold unpackIndices
  split
  · rename_i h; simp [h]
  · rfl

/-- the two-list `unpackIndices` (one remote set against our source and target sets) -/
theorem unpackBoth_spec_strict (remote : List Wire) (ls ld : List Pair)
    (hr : StrictW remote) (hs : StrictG ls) (hd : StrictG ld) :
    unpackBoth remote ls ld = (join false ls remote, join false ld remote) := by
  rw [unpackBoth_eq_scan, scan_eq_join _ _ hr hs, scan_eq_join _ _ hr hd]

example : unpackBoth [⟨1, 0⟩, ⟨3, 2⟩] [⟨3, 0, 1, true⟩] [⟨1, 0, 0, true⟩, ⟨3, 1, 1, true⟩]
    = ([⟨2, ⟨3, 0, 1, true⟩⟩], [⟨0, ⟨1, 0, 0, true⟩⟩, ⟨2, ⟨3, 1, 1, true⟩⟩]) := by decide

/-! ### an example system used for the non-vacuity examples: 3 ranks, rank 1 with two index sets -/

def exSys : System where
  P := 3
  rank
    | 0 => { src := [⟨1, 0, 0, true⟩, ⟨2, 1, 1, true⟩, ⟨5, 2, 0, false⟩], incl := true, hints := [1, 2] }
    | 1 => { src := [⟨2, 0, 0, true⟩, ⟨3, 1, 0, true⟩], tgt := [⟨1, 0, 3, true⟩, ⟨5, 1, 2, true⟩], two := true, hints := [0, 1] }
    | 2 => { src := [⟨5, 7, 3, true⟩], hints := [0] }
    | _ => {}

theorem exSys_strict : exSys.Strict := by
  intro p hp
  have : p = 0 ∨ p = 1 ∨ p = 2 := by simp [exSys] at hp; omega
  rcases this with h | h | h <;> subst h <;> decide

/-! ### the remote index lists -/

theorem GoodMode.valid {ign : Bool} {sys : System} {p : Nat} {order : List Nat} (hp : p < sys.P)
    (h : GoodMode ign sys p order) : ValidSources sys p order := by
  rcases h with h | h
  · exact validSources_ring hp order h
  · exact validSources_nb h.1.1 h.1.2 hp

/-- **rebuild_spec**: after the collective rebuild, rank `p` holds for every other rank `q`
    send list = `spec (published src_p) (published tgt_q)` and receive list = `spec (published tgt_p) (published src_q)`:
    exactly one entry per global index present (and public unless ignored) on both sides, carrying `p`'s own pair
    and the attribute on `q`.  All `P ≥ 1`, all strict decompositions, one or two sets per rank, ring mode or
    covering hints with any arrival order. -/
theorem rebuild_spec (ign : Bool) (sys : System) (hs : sys.Strict) (p q : Nat) (hp : p < sys.P) (hq : q < sys.P)
    (hpq : q ≠ p) (order : List Nat) (hm : GoodMode ign sys p order) :
    (buildRemote ign sys p order).sendList q = spec ((sys.rank p).srcPairs ign) ((sys.rank q).dstPairs ign) ∧
    (buildRemote ign sys p order).recvList q = spec ((sys.rank p).dstPairs ign) ((sys.rank q).srcPairs ign) := by
  have hv := hm.valid hp
  have hf := find_buildRemote ign sys p order hv hp q
  rw [if_neg hpq] at hf
  unfold RMap.sendList RMap.recvList
  rw [hf]
  by_cases hmem : q ∈ sources sys p order
  · rw [if_pos hmem, fromRank_spec ign sys hs hp hq false (by simp), optLists_send, optLists_recv]
    exact ⟨rfl, rfl⟩
  · rw [if_neg hmem]
    rcases hm with h | h
    · exfalso
      apply hmem
      simp only [sources, h, List.isEmpty_nil, if_true]
      exact (mem_ringOrder hp q).mpr ⟨hq, hpq⟩
    · have hnb : q ∉ nbIds (sys.rank p) p := by
        intro hin
        apply hmem
        unfold sources
        split
        · exact (mem_ringOrder hp q).mpr ⟨hq, hpq⟩
        · exact h.1.1.mem_iff.mpr hin
      have := h.2 q hq hpq hnb
      simp [this.1, this.2]

example : exSys.Strict ∧ GoodMode false exSys 0 [2, 1] ∧
    (buildRemote false exSys 0 [2, 1]).sendList 1 = [⟨3, ⟨1, 0, 0, true⟩⟩] ∧
    (buildRemote false exSys 0 [2, 1]).recvList 1 = [⟨0, ⟨2, 1, 1, true⟩⟩] := by
  refine ⟨exSys_strict, Or.inr ⟨⟨by decide, by decide⟩, ?_⟩, by decide, by decide⟩
  intro q hq hne hnot
  have : q = 1 ∨ q = 2 := by simp [exSys] at hq; omega
  rcases this with h | h <;> subst h <;> revert hnot <;> decide

/-- **rebuild_sorted**: the ranks of the map are strictly ascending, and every send and receive list is strictly
    ascending in the global index. -/
theorem rebuild_sorted (ign : Bool) (sys : System) (hs : sys.Strict) (p : Nat) (hp : p < sys.P)
    (order : List Nat) (hv : ValidSources sys p order) :
    (buildRemote ign sys p order).SortedKeys ∧
    ∀ e ∈ buildRemote ign sys p order, StrictR e.2.1 ∧ StrictR e.2.2 := by
  refine ⟨sorted_buildRemote ign sys p order, fun e he => ?_⟩
  have key : ∀ (q : Nat) (fs : Bool), q < sys.P → (fs = true → (sys.rank p).two = (sys.rank q).two) →
      fromRank ign sys p q fs = some e.2 → StrictR e.2.1 ∧ StrictR e.2.2 := by
    intro q fs hq hfs h
    rw [fromRank_spec ign sys hs hp hq fs hfs] at h
    have := optLists_some h
    rw [this]
    have hS := strictG_published (hs p hp).1 ign
    have hD : StrictG ((sys.rank p).dstPairs ign) := by
      unfold RankData.dstPairs RankData.tgtOf
      split
      · exact strictG_published (hs p hp).2 ign
      · exact hS
    exact ⟨strictR_join hS _ _, strictR_join hD _ _⟩
  rw [buildRemote_eq] at he
  split at he
  · cases he
  · rcases foldAdd_mem (fun q => fromRank ign sys p q false) _ _ e he with h | h
    · unfold selfPart at h
      by_cases h2 : ((sys.rank p).two || (sys.rank p).incl) = true
      · simp only [h2, if_true] at h
        cases hfr : fromRank ign sys p p (sys.rank p).incl with
        | none => simp [RMap.add, hfr] at h
        | some v =>
          simp only [RMap.add, hfr, RMap.insert, List.mem_singleton] at h
          subst h
          exact key p _ hp (fun _ => rfl) hfr
      · simp [h2] at h
    · exact key e.1 false (hv e.1 h.1).1 (by simp) h.2

example : ValidSources exSys 1 [0] := validSources_nb (by decide) (by decide) (by decide)

/-- **no_empty_neighbour**: a rank with which nothing is shared does not appear (no hypotheses at all). -/
theorem no_empty_neighbour (ign : Bool) (sys : System) (p : Nat) (order : List Nat) :
    ∀ e ∈ buildRemote ign sys p order, e.2.1 ≠ [] ∨ e.2.2 ≠ [] := by
  intro e he
  rw [buildRemote_eq] at he
  split at he
  · cases he
  · rcases foldAdd_mem (fun q => fromRank ign sys p q false) _ _ e he with h | h
    · unfold selfPart at h
      by_cases h2 : ((sys.rank p).two || (sys.rank p).incl) = true
      · simp only [h2, if_true] at h
        cases hfr : fromRank ign sys p p (sys.rank p).incl with
        | none => simp [RMap.add, hfr] at h
        | some v =>
          simp only [RMap.add, hfr, RMap.insert, List.mem_singleton] at h
          subst h
          exact unpackCreateRemote_some_nonempty hfr
      · simp [h2] at h
    · exact unpackCreateRemote_some_nonempty h.2

/-- ranks 0 and 2 of the example share only the non-public index 5: no entry for 2 on rank 0 unless ignorePublic -/
example : (buildRemote false exSys 0 [1, 2]).find 2 = none ∧ (buildRemote true exSys 0 [1, 2]).find 2 ≠ none := by decide

/-- **self_entry_cases**: entries for the process itself.
    (1) one index set, `includeSelf = false`: none.
    (2) two index sets, `includeSelf = false`: the process is treated like any other rank.
    (3) one index set, `includeSelf = true`: only pairs of *different* attribute on the same global index would be
        listed (`join true`), hence with at most one entry per global index there is no self entry.
    (4) two index sets, `includeSelf = true`: like (2) but without the pairs of equal attribute (this is what the
        code does: `fromOurSelf = includeSelf`). -/
theorem self_entry_cases (ign : Bool) (sys : System) (hs : sys.Strict) (p : Nat) (hp : p < sys.P)
    (order : List Nat) (hv : ValidSources sys p order) :
    let me := sys.rank p
    let m := buildRemote ign sys p order
    (me.two = false → me.incl = false → m.find p = none) ∧
    (me.two = true → me.incl = false →
      m.sendList p = spec (me.srcPairs ign) (me.dstPairs ign) ∧ m.recvList p = spec (me.dstPairs ign) (me.srcPairs ign)) ∧
    (me.two = false → me.incl = true → m.find p = none) ∧
    (me.two = true → me.incl = true →
      m.sendList p = join true (me.srcPairs ign) (wire (me.dstPairs ign)) ∧
      m.recvList p = join true (me.dstPairs ign) (wire (me.srcPairs ign))) := by
  intro me m
  have hf := find_buildRemote ign sys p order hv hp p
  rw [if_pos rfl] at hf
  refine ⟨?_, ?_, ?_, ?_⟩
  · intro h2 hi
    simp only [m, me] at *
    rw [hf]; simp [h2, hi]
  · intro h2 hi
    simp only [m, me] at *
    unfold RMap.sendList RMap.recvList
    rw [hf, if_pos (by simp [h2]), hi, fromRank_spec ign sys hs hp hp false (by simp), optLists_send, optLists_recv]
    exact ⟨rfl, rfl⟩
  · intro h2 hi
    simp only [m, me] at *
    rw [hf, if_pos (by simp [hi]), hi, fromRank_spec ign sys hs hp hp true (fun _ => rfl), optLists_none_iff]
    have hd : (sys.rank p).dstPairs ign = (sys.rank p).srcPairs ign := by
      simp [RankData.dstPairs, RankData.srcPairs, RankData.tgtOf, h2]
    have := join_self_fromSelf (strictG_published (hs p hp).1 ign)
    simp only [specLists, hd]
    exact ⟨this, this⟩
  · intro h2 hi
    simp only [m, me] at *
    unfold RMap.sendList RMap.recvList
    rw [hf, if_pos (by simp [h2]), hi, fromRank_spec ign sys hs hp hp true (fun _ => rfl), optLists_send, optLists_recv]
    exact ⟨rfl, rfl⟩

example : (buildRemote false exSys 1 [0]).sendList 1 = [] ∧
    (buildRemote true exSys 1 [0]).find 1 = none ∧ (buildRemote false exSys 0 [1, 2]).find 0 = none := by decide

/-- **arrival_order_irrelevant**: in neighbour mode the result does not depend on the order in which
    `MPI_Probe(MPI_ANY_SOURCE)` delivers the neighbours' messages. -/
theorem arrival_order_irrelevant (ign : Bool) (sys : System) (p : Nat) (o₁ o₂ : List Nat) (h : o₁.Perm o₂) :
    buildRemote ign sys p o₁ = buildRemote ign sys p o₂ := by
  rw [buildRemote_eq, buildRemote_eq]
  split
  · rfl
  · unfold receiveAll
    have s1 := foldAdd_spec (fun q => fromRank ign sys p q false) (sources sys p o₁) _ (sorted_selfPart ign sys p)
    have s2 := foldAdd_spec (fun q => fromRank ign sys p q false) (sources sys p o₂) _ (sorted_selfPart ign sys p)
    apply RMap.ext s1.1 s2.1
    intro k
    rw [s1.2 k, s2.2 k]
    have : k ∈ sources sys p o₁ ↔ k ∈ sources sys p o₂ := by
      unfold sources
      split
      · exact Iff.rfl
      · exact h.mem_iff
    simp only [this]

example : ([2, 1] : List Nat).Perm [1, 2] ∧ buildRemote false exSys 0 [2, 1] = buildRemote false exSys 0 [1, 2] := by decide

/-- **neighbours_eq_ring**: with hints that name every rank sharing a published index (any arrival order) the
    result is the one of the ring algorithm. -/
theorem neighbours_eq_ring (ign : Bool) (sys : System) (hs : sys.Strict) (p : Nat) (hp : p < sys.P)
    (order : List Nat) (hv : ValidOrder sys p order) (hc : HintsCover ign sys p) :
    buildRemote ign sys p order = buildRemote ign sys.ring p [] := by
  have hring : nbIds (sys.ring.rank p) p = [] := rfl
  have hp' : p < sys.ring.P := hp
  have v1 : ValidSources sys p order := validSources_nb hv.1 hv.2 hp
  have v2 : ValidSources sys.ring p [] := validSources_ring hp' [] hring
  apply RMap.ext (sorted_buildRemote _ _ _ _) (sorted_buildRemote _ _ _ _)
  intro k
  rw [find_buildRemote ign sys p order v1 hp k, find_buildRemote ign sys.ring p [] v2 hp' k]
  by_cases hk : k = p
  · rw [if_pos hk, if_pos hk]
    rfl
  · rw [if_neg hk, if_neg hk, fromRank_ring]
    have hsr : sources sys.ring p [] = ringOrder sys.P p := by
      unfold sources
      rw [hring]
      rfl
    rw [hsr]
    by_cases hkP : k < sys.P
    · rw [if_pos ((mem_ringOrder hp k).mpr ⟨hkP, hk⟩)]
      by_cases hin : k ∈ sources sys p order
      · rw [if_pos hin]
      · rw [if_neg hin]
        have hnb : k ∉ nbIds (sys.rank p) p := by
          intro h
          apply hin
          unfold sources
          split
          · exact (mem_ringOrder hp k).mpr ⟨hkP, hk⟩
          · exact hv.1.mem_iff.mpr h
        have := hc k hkP hk hnb
        rw [fromRank_spec ign sys hs hp hkP false (by simp)]
        symm
        rw [optLists_none_iff]
        exact this
    · have h1 : k ∉ ringOrder sys.P p := fun h => hkP ((mem_ringOrder hp k).mp h).1
      have h2 : k ∉ sources sys p order := fun h => hkP (v1 k h).1
      rw [if_neg h1, if_neg h2]

example : buildRemote false exSys 0 [2, 1] = buildRemote false exSys.ring 0 [] := by decide

/-- **rebuild_spec_repeated** (Tier B): systems in which every rank uses one index set that may contain a global
    index several times (with different attributes; lists sorted by global index).  For every rank `q` whose message
    `p` processes (ring mode: every other rank) send and receive list are the same list: all pairs of a published
    local pair and a published remote entry with equal global index; with `includeSelf` the self entry lists exactly
    the pairs of *different* attribute on the same global index. -/
theorem rebuild_spec_repeated (ign : Bool) (sys : System)
    (h1 : ∀ p, p < sys.P → (sys.rank p).two = false ∧ SortedG (sys.rank p).src)
    (p : Nat) (hp : p < sys.P) (order : List Nat) (hv : ValidSources sys p order) :
    (∀ q, q ≠ p → q ∈ sources sys p order →
      (buildRemote ign sys p order).sendList q = joinAll false ((sys.rank p).srcPairs ign) (wire ((sys.rank q).srcPairs ign)) ∧
      (buildRemote ign sys p order).recvList q = joinAll false ((sys.rank p).srcPairs ign) (wire ((sys.rank q).srcPairs ign))) ∧
    ((sys.rank p).incl = true →
      (buildRemote ign sys p order).sendList p = joinAll true ((sys.rank p).srcPairs ign) (wire ((sys.rank p).srcPairs ign)) ∧
      (buildRemote ign sys p order).recvList p = joinAll true ((sys.rank p).srcPairs ign) (wire ((sys.rank p).srcPairs ign))) := by
  constructor
  · intro q hqp hq
    have hqP := (hv q hq).1
    have hf := find_buildRemote ign sys p order hv hp q
    rw [if_neg hqp, if_pos hq, fromRank_oneset ign sys (h1 p hp).1 (h1 q hqP).1 (h1 p hp).2 (h1 q hqP).2] at hf
    unfold RMap.sendList RMap.recvList
    rw [hf, optLists_send, optLists_recv]
    exact ⟨rfl, rfl⟩
  · intro hi
    have hf := find_buildRemote ign sys p order hv hp p
    rw [if_pos rfl, if_pos (by simp [hi]), hi,
      fromRank_oneset ign sys (h1 p hp).1 (h1 p hp).1 (h1 p hp).2 (h1 p hp).2] at hf
    unfold RMap.sendList RMap.recvList
    rw [hf, optLists_send, optLists_recv]
    exact ⟨rfl, rfl⟩

/-- one rank, one set, includeSelf: global index 4 as (local 0, attr 0) and (local 1, attr 2) -/
def exDup : System where
  P := 1
  rank _ := { src := [⟨4, 0, 0, true⟩, ⟨4, 1, 2, true⟩, ⟨6, 2, 1, true⟩], incl := true }

example : (∀ p, p < exDup.P → (exDup.rank p).two = false ∧ SortedG (exDup.rank p).src) ∧
    (buildRemote false exDup 0 []).sendList 0 = [⟨0, ⟨4, 1, 2, true⟩⟩, ⟨2, ⟨4, 0, 0, true⟩⟩] :=
  ⟨fun _ _ => by simp only [exDup]; decide, by decide⟩

/-! ### staleness -/

/-- **synced_iff**: after `rebuild` (whether it really rebuilt or found itself in sync) the object reports itself in
    sync exactly as long as neither of the index set objects it refers to has completed a resize; resizing an
    unrelated index set does not matter.  (`two = false`: source and target are the same object.) -/
theorem synced_iff (st : RIState) (ign two : Bool) (s : Seqs) (build : Unit → RMap) (evs : List Resize) :
    (st.rebuild ign s.src s.dst build).isSynced (s.applyAll two evs).src (s.applyAll two evs).dst = true
      ↔ ∀ e ∈ evs, e = Resize.other := by
  have h := rebuild_seqs st ign s build
  rw [← Seqs.applyAll_eq_iff two evs s]
  unfold RIState.isSynced
  rw [h.1, h.2]
  simp only [Bool.and_eq_true, beq_iff_eq]
  constructor
  · rintro ⟨a, b⟩; exact ⟨by omega, by omega⟩
  · rintro ⟨a, b⟩; exact ⟨by omega, by omega⟩

/-- a freshly constructed object (sequence numbers -1) is never in sync -/
theorem fresh_not_synced (a b : Nat) : ({} : RIState).isSynced a b = false := by
  simp only [RIState.isSynced]
  have : ((-1 : Int) == (a : Int)) = false := by
    rw [beq_eq_false_iff_ne]; omega
  simp [this]

example : (({} : RIState).rebuild false 1 1 (fun _ => [])).isSynced
      ((Seqs.mk 1 1).applyAll true [.other, .target]).src ((Seqs.mk 1 1).applyAll true [.other, .target]).dst = false ∧
    (({} : RIState).rebuild false 1 1 (fun _ => [])).isSynced
      ((Seqs.mk 1 1).applyAll true [.other]).src ((Seqs.mk 1 1).applyAll true [.other]).dst = true := by decide

end DV.C04
