import DuneVerif.Proofs.C04H
import DuneVerif.Proofs.C04L
/-!
C04 — RemoteIndices equals the pairwise intersection of the published index sets.

Property theorems about the two-layer model of remoteindices.hh (after fixes/C04_*.patch):

* the per-rank layer `DuneVerif/Model/C04.lean` (`DV.C04`): merge-joins, `unpackCreateRemote`, `buildRemote` of one rank
  given the ranks whose original messages it processes, `RIState`;
* the faithful layer `DuneVerif/Model/C04F.lean` (`DV.C04.F`, what the driver runs): buffer cursor and entry counts,
  the ring as a state machine over all ranks, the neighbour exchange at network level, the `World` of index set
  objects / `RemoteIndices` objects with its events; its decisions and rank arithmetic are the definitions
  `DV.C04.Gen.*` regenerated from the source on every run.

All theorems are for every process count `P ≥ 1`, every decomposition (`System.Strict` = no repeated global indices,
where needed), `ignorePublic` and `includeSelf` arbitrary, one or two index sets on each rank independently, every
arrival order, every history.  MPI itself is trusted (reliable, pairwise FIFO).

Vocabulary (Model/C04.lean): `spec A B` = one entry per pair of `A` whose global index occurs in `B`, in `A`'s
order, carrying `B`'s attribute; `srcPairs/dstPairs ign` = the published source / (effective) target pairs;
`buildRemote ign sys p order` = the map rank ↦ (send, receive) on rank `p`, `order` = arrival order of the
hinted neighbours' messages (neighbour mode); `sendList/recvList m q` = the lists for `q`, empty if `q` has no entry.
-/
namespace DV.C04

/-! ### the merge-join -/

/-- `unpackIndices` on inputs without repeated globals is the sorted intersection: one remote index per local pair
    whose global index was received, in ascending order, carrying the *remote* attribute and the local pair
    (the rewind branch is dead code here; `fromSelf` drops equal attributes). -/
theorem unpack_spec_strict (fromSelf : Bool) (remote : List Wire) (loc : List Pair)
    (hr : StrictW remote) (hl : StrictG loc) :
    unpackLoop fromSelf remote loc = join fromSelf loc remote :=
  unpackLoop_eq_join fromSelf remote loc hr hl

example : StrictW [⟨1, 0⟩, ⟨3, 2⟩, ⟨4, 1⟩] ∧ StrictG [⟨0, 0, 1, true⟩, ⟨3, 1, 3, true⟩, ⟨4, 2, 1, false⟩] ∧
    unpackLoop false [⟨1, 0⟩, ⟨3, 2⟩, ⟨4, 1⟩] [⟨0, 0, 1, true⟩, ⟨3, 1, 3, true⟩, ⟨4, 2, 1, false⟩]
      = [⟨2, ⟨3, 1, 3, true⟩⟩, ⟨1, ⟨4, 2, 1, false⟩⟩] := by decide

/-- **unpack_spec** (Tier B, repeated global indices allowed): for inputs that are merely sorted, the merge-join with
    its rewind yields every pair (remote entry, local pair) with equal global index — except, for the own message,
    those of equal attribute — ordered by remote entry, then local pair. -/
theorem unpack_spec (fromSelf : Bool) (remote : List Wire) (loc : List Pair)
    (hr : SortedW remote) (hl : SortedG loc) :
    unpackLoop fromSelf remote loc = joinAll fromSelf loc remote :=
  unpackLoop_eq_joinAll fromSelf remote loc hr hl

/-- global index 5 twice on both sides (attributes 0/3 remote, 1/2 local): the rewind produces all four pairs -/
example : SortedW [⟨5, 0⟩, ⟨5, 3⟩, ⟨7, 1⟩] ∧ SortedG [⟨2, 0, 0, true⟩, ⟨5, 1, 1, true⟩, ⟨5, 2, 2, true⟩, ⟨7, 3, 1, true⟩] ∧
    unpackLoop true [⟨5, 0⟩, ⟨5, 3⟩, ⟨7, 1⟩] [⟨2, 0, 0, true⟩, ⟨5, 1, 1, true⟩, ⟨5, 2, 2, true⟩, ⟨7, 3, 1, true⟩]
      = [⟨0, ⟨5, 1, 1, true⟩⟩, ⟨0, ⟨5, 2, 2, true⟩⟩, ⟨3, ⟨5, 1, 1, true⟩⟩, ⟨3, ⟨5, 2, 2, true⟩⟩] := by decide

/-- **unpack_cursor_refines**: the faithful single-list `unpackIndices` — one `MPI_Unpack` per entry read, rewind test on
    the entry just unpacked, trailing unpack loop — computes the list-level merge-join and leaves the position behind
    the `n` announced entries (for a buffer that holds them). -/
theorem unpack_cursor_refines (fromSelf : Bool) (buf : List Wire) (n : Nat) (loc : List Pair) (h : n ≤ buf.length) :
    F.unpackIndices fromSelf buf n loc = (if n = 0 then [] else unpackLoop fromSelf (buf.take n) loc, buf.drop n) := by
  rw [F.unpackIndices_eq' fromSelf buf n loc h]
  unfold unpackIndices
  split <;> simp_all

/-- the buffer position after the faithful `unpackIndices`: exactly `n` entries are consumed, whatever the loop did
    (exhausted local list, break after the last entry, rewinds) — needed by the two-set path -/
theorem unpack_consumes_all (fromSelf : Bool) (buf : List Wire) (n : Nat) (loc : List Pair) (h : n ≤ buf.length) :
    (F.unpackIndices fromSelf buf n loc).2 = buf.drop n := by
  rw [unpack_cursor_refines fromSelf buf n loc h]

/-- local list exhausted after the first of four announced entries: the three others are still skipped -/
example : F.unpackIndices false [⟨1, 0⟩, ⟨3, 2⟩, ⟨3, 1⟩, ⟨9, 1⟩, ⟨20, 0⟩] 4 [⟨1, 0, 1, true⟩]
    = ([⟨0, ⟨1, 0, 1, true⟩⟩], [⟨20, 0⟩]) := by decide

/-- the two-list `unpackIndices` (one remote set against our source and target sets) -/
theorem unpackBoth_spec_strict (remote : List Wire) (ls ld : List Pair)
    (hr : StrictW remote) (hs : StrictG ls) (hd : StrictG ld) :
    unpackBoth remote ls ld = (join false ls remote, join false ld remote) := by
  rw [unpackBoth_eq_scan, scan_eq_join _ _ hr hs, scan_eq_join _ _ hr hd]

example : unpackBoth [⟨1, 0⟩, ⟨3, 2⟩] [⟨3, 0, 1, true⟩] [⟨1, 0, 0, true⟩, ⟨3, 1, 1, true⟩]
    = ([⟨2, ⟨3, 0, 1, true⟩⟩], [⟨0, ⟨1, 0, 0, true⟩⟩, ⟨2, ⟨3, 1, 1, true⟩⟩]) := by decide

/-! ### an example system used for the non-vacuity examples: 3 ranks, rank 1 with two index sets -/

def exSys : System where
  P := 3
  rank
    | 0 => { src := [⟨1, 0, 0, true⟩, ⟨2, 1, 1, true⟩, ⟨5, 2, 0, false⟩], incl := true, hints := [1, 2] }
    | 1 => { src := [⟨2, 0, 0, true⟩, ⟨3, 1, 0, true⟩], tgt := [⟨1, 0, 3, true⟩, ⟨5, 1, 2, true⟩], two := true, hints := [0, 1] }
    | 2 => { src := [⟨5, 7, 3, true⟩], hints := [0] }
    | _ => {}

theorem exSys_strict : exSys.Strict := by
  intro p hp
  have : p = 0 ∨ p = 1 ∨ p = 2 := by simp [exSys] at hp; omega
  rcases this with h | h | h <;> subst h <;> decide

/-! ### the remote index lists -/

theorem GoodMode.valid {ign : Bool} {sys : System} {p : Nat} {order : List Nat} (hp : p < sys.P)
    (h : GoodMode ign sys p order) : ValidSources sys p order := by
  rcases h with h | h
  · exact validSources_ring hp order h
  · exact validSources_nb h.1.1 h.1.2 hp

/-- **rebuild_spec**: after the collective rebuild, rank `p` holds for every other rank `q`
    send list = `spec (published src_p) (published tgt_q)` and receive list = `spec (published tgt_p) (published src_q)`:
    exactly one entry per global index present (and public unless ignored) on both sides, carrying `p`'s own pair
    and the attribute on `q`.  All `P ≥ 1`, all strict decompositions, one or two sets per rank, ring mode or
    covering hints with any arrival order. -/
theorem rebuild_spec (ign : Bool) (sys : System) (hs : sys.Strict) (p q : Nat) (hp : p < sys.P) (hq : q < sys.P)
    (hpq : q ≠ p) (order : List Nat) (hm : GoodMode ign sys p order) :
    (buildRemote ign sys p order).sendList q = spec ((sys.rank p).srcPairs ign) ((sys.rank q).dstPairs ign) ∧
    (buildRemote ign sys p order).recvList q = spec ((sys.rank p).dstPairs ign) ((sys.rank q).srcPairs ign) := by
  have hv := hm.valid hp
  have hf := find_buildRemote ign sys p order hv hp q
  rw [if_neg hpq] at hf
  unfold RMap.sendList RMap.recvList
  rw [hf]
  by_cases hmem : q ∈ sources sys p order
  · rw [if_pos hmem, fromRank_spec ign sys hs hp hq false (by simp), optLists_send, optLists_recv]
    exact ⟨rfl, rfl⟩
  · rw [if_neg hmem]
    rcases hm with h | h
    · exfalso
      apply hmem
      simp only [sources, h, List.isEmpty_nil, if_true]
      exact (mem_ringOrder hp q).mpr ⟨hq, hpq⟩
    · have hnb : q ∉ nbIds (sys.rank p) p := by
        intro hin
        apply hmem
        unfold sources
        split
        · exact (mem_ringOrder hp q).mpr ⟨hq, hpq⟩
        · exact h.1.1.mem_iff.mpr hin
      have := h.2 q hq hpq hnb
      simp [this.1, this.2]

example : exSys.Strict ∧ GoodMode false exSys 0 [2, 1] ∧
    (buildRemote false exSys 0 [2, 1]).sendList 1 = [⟨3, ⟨1, 0, 0, true⟩⟩] ∧
    (buildRemote false exSys 0 [2, 1]).recvList 1 = [⟨0, ⟨2, 1, 1, true⟩⟩] := by
  refine ⟨exSys_strict, Or.inr ⟨⟨by decide, by decide⟩, ?_⟩, by decide, by decide⟩
  intro q hq hne hnot
  have : q = 1 ∨ q = 2 := by simp [exSys] at hq; omega
  rcases this with h | h <;> subst h <;> revert hnot <;> decide

/-- **rebuild_sorted**: the ranks of the map are strictly ascending, and every send and receive list is strictly
    ascending in the global index. -/
theorem rebuild_sorted (ign : Bool) (sys : System) (hs : sys.Strict) (p : Nat) (hp : p < sys.P)
    (order : List Nat) (hv : ValidSources sys p order) :
    (buildRemote ign sys p order).SortedKeys ∧
    ∀ e ∈ buildRemote ign sys p order, StrictR e.2.1 ∧ StrictR e.2.2 := by
  refine ⟨sorted_buildRemote ign sys p order, fun e he => ?_⟩
  have key : ∀ (q : Nat) (fs : Bool), q < sys.P → (fs = true → (sys.rank p).two = (sys.rank q).two) →
      fromRank ign sys p q fs = some e.2 → StrictR e.2.1 ∧ StrictR e.2.2 := by
    intro q fs hq hfs h
    rw [fromRank_spec ign sys hs hp hq fs hfs] at h
    have := optLists_some h
    rw [this]
    have hS := strictG_published (hs p hp).1 ign
    have hD : StrictG ((sys.rank p).dstPairs ign) := by
      unfold RankData.dstPairs RankData.tgtOf
      split
      · exact strictG_published (hs p hp).2 ign
      · exact hS
    exact ⟨strictR_join hS _ _, strictR_join hD _ _⟩
  rw [buildRemote_eq] at he
  split at he
  · cases he
  · rcases foldAdd_mem (fun q => fromRank ign sys p q false) _ _ e he with h | h
    · unfold selfPart at h
      by_cases h2 : ((sys.rank p).two || (sys.rank p).incl) = true
      · simp only [h2, if_true] at h
        cases hfr : fromRank ign sys p p (sys.rank p).incl with
        | none => simp [RMap.add, hfr] at h
        | some v =>
          simp only [RMap.add, hfr, RMap.insert, List.mem_singleton] at h
          subst h
          exact key p _ hp (fun _ => rfl) hfr
      · simp [h2] at h
    · exact key e.1 false (hv e.1 h.1).1 (by simp) h.2

example : ValidSources exSys 1 [0] := validSources_nb (by decide) (by decide) (by decide)

/-- **no_empty_neighbour**: a rank with which nothing is shared does not appear (no hypotheses at all). -/
theorem no_empty_neighbour (ign : Bool) (sys : System) (p : Nat) (order : List Nat) :
    ∀ e ∈ buildRemote ign sys p order, e.2.1 ≠ [] ∨ e.2.2 ≠ [] := by
  intro e he
  rw [buildRemote_eq] at he
  split at he
  · cases he
  · rcases foldAdd_mem (fun q => fromRank ign sys p q false) _ _ e he with h | h
    · unfold selfPart at h
      by_cases h2 : ((sys.rank p).two || (sys.rank p).incl) = true
      · simp only [h2, if_true] at h
        cases hfr : fromRank ign sys p p (sys.rank p).incl with
        | none => simp [RMap.add, hfr] at h
        | some v =>
          simp only [RMap.add, hfr, RMap.insert, List.mem_singleton] at h
          subst h
          exact unpackCreateRemote_some_nonempty hfr
      · simp [h2] at h
    · exact unpackCreateRemote_some_nonempty h.2

/-- ranks 0 and 2 of the example share only the non-public index 5: no entry for 2 on rank 0 unless ignorePublic -/
example : (buildRemote false exSys 0 [1, 2]).find 2 = none ∧ (buildRemote true exSys 0 [1, 2]).find 2 ≠ none := by decide

/-- **self_entry_cases**: entries for the process itself.
    (1) one index set, `includeSelf = false`: none.
    (2) two index sets, `includeSelf = false`: the process is treated like any other rank.
    (3) one index set, `includeSelf = true`: only pairs of *different* attribute on the same global index would be
        listed (`join true`), hence with at most one entry per global index there is no self entry.
    (4) two index sets, `includeSelf = true`: like (2) but without the pairs of equal attribute (this is what the
        code does: `fromOurSelf = includeSelf`). -/
theorem self_entry_cases (ign : Bool) (sys : System) (hs : sys.Strict) (p : Nat) (hp : p < sys.P)
    (order : List Nat) (hv : ValidSources sys p order) :
    let me := sys.rank p
    let m := buildRemote ign sys p order
    (me.two = false → me.incl = false → m.find p = none) ∧
    (me.two = true → me.incl = false →
      m.sendList p = spec (me.srcPairs ign) (me.dstPairs ign) ∧ m.recvList p = spec (me.dstPairs ign) (me.srcPairs ign)) ∧
    (me.two = false → me.incl = true → m.find p = none) ∧
    (me.two = true → me.incl = true →
      m.sendList p = join true (me.srcPairs ign) (wire (me.dstPairs ign)) ∧
      m.recvList p = join true (me.dstPairs ign) (wire (me.srcPairs ign))) := by
  intro me m
  have hf := find_buildRemote ign sys p order hv hp p
  rw [if_pos rfl] at hf
  refine ⟨?_, ?_, ?_, ?_⟩
  · intro h2 hi
    simp only [m, me] at *
    rw [hf]; simp [h2, hi]
  · intro h2 hi
    simp only [m, me] at *
    unfold RMap.sendList RMap.recvList
    rw [hf, if_pos (by simp [h2]), hi, fromRank_spec ign sys hs hp hp false (by simp), optLists_send, optLists_recv]
    exact ⟨rfl, rfl⟩
  · intro h2 hi
    simp only [m, me] at *
    rw [hf, if_pos (by simp [hi]), hi, fromRank_spec ign sys hs hp hp true (fun _ => rfl), optLists_none_iff]
    have hd : (sys.rank p).dstPairs ign = (sys.rank p).srcPairs ign := by
      simp [RankData.dstPairs, RankData.srcPairs, RankData.tgtOf, h2]
    have := join_self_fromSelf (strictG_published (hs p hp).1 ign)
    simp only [specLists, hd]
    exact ⟨this, this⟩
  · intro h2 hi
    simp only [m, me] at *
    unfold RMap.sendList RMap.recvList
    rw [hf, if_pos (by simp [h2]), hi, fromRank_spec ign sys hs hp hp true (fun _ => rfl), optLists_send, optLists_recv]
    exact ⟨rfl, rfl⟩

example : (buildRemote false exSys 1 [0]).sendList 1 = [] ∧
    (buildRemote true exSys 1 [0]).find 1 = none ∧ (buildRemote false exSys 0 [1, 2]).find 0 = none := by decide

/-- **arrival_order_irrelevant**: in neighbour mode the result does not depend on the order in which
    `MPI_Probe(MPI_ANY_SOURCE)` delivers the neighbours' messages. -/
theorem arrival_order_irrelevant (ign : Bool) (sys : System) (p : Nat) (o₁ o₂ : List Nat) (h : o₁.Perm o₂) :
    buildRemote ign sys p o₁ = buildRemote ign sys p o₂ :=
  buildRemote_perm ign sys p o₁ o₂ h

example : ([2, 1] : List Nat).Perm [1, 2] ∧ buildRemote false exSys 0 [2, 1] = buildRemote false exSys 0 [1, 2] := by decide

/-- **neighbours_eq_ring**: with hints that name every rank sharing a published index (any arrival order) the
    result is the one of the ring algorithm. -/
theorem neighbours_eq_ring (ign : Bool) (sys : System) (hs : sys.Strict) (p : Nat) (hp : p < sys.P)
    (order : List Nat) (hv : ValidOrder sys p order) (hc : HintsCover ign sys p) :
    buildRemote ign sys p order = buildRemote ign sys.ring p [] := by
  have hring : nbIds (sys.ring.rank p) p = [] := rfl
  have hp' : p < sys.ring.P := hp
  have v1 : ValidSources sys p order := validSources_nb hv.1 hv.2 hp
  have v2 : ValidSources sys.ring p [] := validSources_ring hp' [] hring
  apply RMap.ext (sorted_buildRemote _ _ _ _) (sorted_buildRemote _ _ _ _)
  intro k
  rw [find_buildRemote ign sys p order v1 hp k, find_buildRemote ign sys.ring p [] v2 hp' k]
  by_cases hk : k = p
  · rw [if_pos hk, if_pos hk]
    rfl
  · rw [if_neg hk, if_neg hk, fromRank_ring]
    have hsr : sources sys.ring p [] = ringOrder sys.P p := by
      unfold sources
      rw [hring]
      rfl
    rw [hsr]
    by_cases hkP : k < sys.P
    · rw [if_pos ((mem_ringOrder hp k).mpr ⟨hkP, hk⟩)]
      by_cases hin : k ∈ sources sys p order
      · rw [if_pos hin]
      · rw [if_neg hin]
        have hnb : k ∉ nbIds (sys.rank p) p := by
          intro h
          apply hin
          unfold sources
          split
          · exact (mem_ringOrder hp k).mpr ⟨hkP, hk⟩
          · exact hv.1.mem_iff.mpr h
        have := hc k hkP hk hnb
        rw [fromRank_spec ign sys hs hp hkP false (by simp)]
        symm
        rw [optLists_none_iff]
        exact this
    · have h1 : k ∉ ringOrder sys.P p := fun h => hkP ((mem_ringOrder hp k).mp h).1
      have h2 : k ∉ sources sys p order := fun h => hkP (v1 k h).1
      rw [if_neg h1, if_neg h2]

example : buildRemote false exSys 0 [2, 1] = buildRemote false exSys.ring 0 [] := by decide

/-- **rebuild_spec_repeated** (Tier B): systems in which every rank uses one index set that may contain a global
    index several times (with different attributes; lists sorted by global index).  For every rank `q` whose message
    `p` processes (ring mode: every other rank) send and receive list are the same list: all pairs of a published
    local pair and a published remote entry with equal global index; with `includeSelf` the self entry lists exactly
    the pairs of *different* attribute on the same global index. -/
theorem rebuild_spec_repeated (ign : Bool) (sys : System)
    (h1 : ∀ p, p < sys.P → (sys.rank p).two = false ∧ SortedG (sys.rank p).src)
    (p : Nat) (hp : p < sys.P) (order : List Nat) (hv : ValidSources sys p order) :
    (∀ q, q ≠ p → q ∈ sources sys p order →
      (buildRemote ign sys p order).sendList q = joinAll false ((sys.rank p).srcPairs ign) (wire ((sys.rank q).srcPairs ign)) ∧
      (buildRemote ign sys p order).recvList q = joinAll false ((sys.rank p).srcPairs ign) (wire ((sys.rank q).srcPairs ign))) ∧
    ((sys.rank p).incl = true →
      (buildRemote ign sys p order).sendList p = joinAll true ((sys.rank p).srcPairs ign) (wire ((sys.rank p).srcPairs ign)) ∧
      (buildRemote ign sys p order).recvList p = joinAll true ((sys.rank p).srcPairs ign) (wire ((sys.rank p).srcPairs ign))) := by
  constructor
  · intro q hqp hq
    have hqP := (hv q hq).1
    have hf := find_buildRemote ign sys p order hv hp q
    rw [if_neg hqp, if_pos hq, fromRank_oneset ign sys (h1 p hp).1 (h1 q hqP).1 (h1 p hp).2 (h1 q hqP).2] at hf
    unfold RMap.sendList RMap.recvList
    rw [hf, optLists_send, optLists_recv]
    exact ⟨rfl, rfl⟩
  · intro hi
    have hf := find_buildRemote ign sys p order hv hp p
    rw [if_pos rfl, if_pos (by simp [hi]), hi,
      fromRank_oneset ign sys (h1 p hp).1 (h1 p hp).1 (h1 p hp).2 (h1 p hp).2] at hf
    unfold RMap.sendList RMap.recvList
    rw [hf, optLists_send, optLists_recv]
    exact ⟨rfl, rfl⟩

/-- one rank, one set, includeSelf: global index 4 as (local 0, attr 0) and (local 1, attr 2) -/
def exDup : System where
  P := 1
  rank _ := { src := [⟨4, 0, 0, true⟩, ⟨4, 1, 2, true⟩, ⟨6, 2, 1, true⟩], incl := true }

example : (∀ p, p < exDup.P → (exDup.rank p).two = false ∧ SortedG (exDup.rank p).src) ∧
    (buildRemote false exDup 0 []).sendList 0 = [⟨0, ⟨4, 1, 2, true⟩⟩, ⟨2, ⟨4, 0, 0, true⟩⟩] :=
  ⟨fun _ _ => by simp only [exDup]; decide, by decide⟩

/-! ### staleness -/

/-- **synced_iff**: after `rebuild` (whether it really rebuilt or found itself in sync) the object reports itself in
    sync exactly as long as neither of the index set objects it refers to has completed a resize; resizing an
    unrelated index set does not matter.  (`two = false`: source and target are the same object.) -/
theorem synced_iff (st : RIState) (ign two : Bool) (s : Seqs) (build : Unit → RMap) (evs : List Resize) :
    (st.rebuild ign s.src s.dst build).isSynced (s.applyAll two evs).src (s.applyAll two evs).dst = true
      ↔ ∀ e ∈ evs, e = Resize.other := by
  have h := rebuild_seqs st ign s build
  rw [← Seqs.applyAll_eq_iff two evs s]
  unfold RIState.isSynced
  rw [h.1, h.2]
  simp only [Bool.and_eq_true, beq_iff_eq]
  constructor
  · rintro ⟨a, b⟩; exact ⟨by omega, by omega⟩
  · rintro ⟨a, b⟩; exact ⟨by omega, by omega⟩

/-- a freshly constructed object (sequence numbers -1) is never in sync -/
theorem fresh_not_synced (a b : Nat) : ({} : RIState).isSynced a b = false := by
  simp only [RIState.isSynced]
  have : ((-1 : Int) == (a : Int)) = false := by
    rw [beq_eq_false_iff_ne]; omega
  simp [this]

example : (({} : RIState).rebuild false 1 1 (fun _ => [])).isSynced
      ((Seqs.mk 1 1).applyAll true [.other, .target]).src ((Seqs.mk 1 1).applyAll true [.other, .target]).dst = false ∧
    (({} : RIState).rebuild false 1 1 (fun _ => [])).isSynced
      ((Seqs.mk 1 1).applyAll true [.other]).src ((Seqs.mk 1 1).applyAll true [.other]).dst = true := by decide

/-! ### the specification read as a set; who appears; symmetry -/

/-- **mem_spec_iff**: `spec A B` is the set of doc/comm/communication.tex (eqs. ri_s_set / ri_t_set): an entry is in it
    exactly if its local pair is in `A`, a pair with the same global index is in `B`, and the entry carries that pair's
    attribute. -/
theorem mem_spec_iff (A B : List Pair) (hB : StrictG B) (x : RIdx) :
    x ∈ spec A B ↔ x.loc ∈ A ∧ ∃ b ∈ B, b.g = x.loc.g ∧ b.a = x.ra :=
  F.mem_spec_iff' A B hB x

/-- … and it has exactly one entry per such global index, in ascending order -/
theorem spec_one_per_global (A B : List Pair) (hA : StrictG A) : StrictR (spec A B) := strictR_join hA false _

example : spec [⟨1, 0, 0, true⟩, ⟨2, 1, 1, true⟩] [⟨2, 5, 3, true⟩, ⟨4, 6, 0, true⟩] = [⟨3, ⟨2, 1, 1, true⟩⟩] := by decide

/-- **appears_iff**: another rank `q` has an entry in `p`'s map exactly if they share something (in either
    direction); together with `rebuild_spec`: processes sharing nothing do not appear, all others do. -/
theorem appears_iff (ign : Bool) (sys : System) (hs : sys.Strict) (p q : Nat) (hp : p < sys.P) (hq : q < sys.P)
    (hpq : q ≠ p) (order : List Nat) (hm : GoodMode ign sys p order) :
    (buildRemote ign sys p order).find q ≠ none ↔
      spec ((sys.rank p).srcPairs ign) ((sys.rank q).dstPairs ign) ≠ [] ∨
      spec ((sys.rank p).dstPairs ign) ((sys.rank q).srcPairs ign) ≠ [] := by
  have hrs := rebuild_spec ign sys hs p q hp hq hpq order hm
  unfold RMap.sendList RMap.recvList at hrs
  cases hf : (buildRemote ign sys p order).find q with
  | none =>
    rw [hf] at hrs
    simp only [Option.map_none, Option.getD_none] at hrs
    simp [← hrs.1, ← hrs.2]
  | some v =>
    rw [hf] at hrs
    simp only [Option.map_some, Option.getD_some] at hrs
    have := no_empty_neighbour ign sys p order (q, v) (F.RMap.mem_of_find hf)
    simp only [← hrs.1, ← hrs.2]
    simpa using this

/-- the map only has entries for ranks of the communicator -/
theorem keys_are_ranks (ign : Bool) (sys : System) (p : Nat) (hp : p < sys.P) (order : List Nat)
    (hv : ValidSources sys p order) : ∀ e ∈ buildRemote ign sys p order, e.1 < sys.P := by
  intro e he
  have hf := find_buildRemote ign sys p order hv hp e.1
  have hsome : (buildRemote ign sys p order).find e.1 ≠ none := by
    have hsorted := sorted_buildRemote ign sys p order
    intro hn
    -- an entry that is in the map is found
    have : ∀ (m : RMap), m.SortedKeys → e ∈ m → m.find e.1 ≠ none := by
      intro m hm hem
      induction m with
      | nil => simp at hem
      | cons x xs ih =>
        obtain ⟨k', v'⟩ := x
        unfold RMap.find
        by_cases c : e.1 = k'
        · simp [c]
        · rw [if_neg c]
          rcases List.mem_cons.mp hem with e' | e'
          · subst e'; exact absurd rfl c
          · exact ih (List.pairwise_cons.mp hm).2 e'
    exact this _ hsorted he hn
  rw [hf] at hsome
  by_cases c : e.1 = p
  · rw [c]; exact hp
  · rw [if_neg c] at hsome
    by_cases c2 : e.1 ∈ sources sys p order
    · exact (hv e.1 c2).1
    · rw [if_neg c2] at hsome
      exact absurd rfl hsome

/-- **send_recv_mirror**: what `p` plans to send to `q` is what `q` expects to receive from `p`: the two lists name the
    same global indices in the same order, `p`'s entry carrying (own attribute, attribute on `q`) and `q`'s entry the
    same two attributes seen from the other side.  (Both ranks in ring mode or with covering hints.) -/
theorem send_recv_mirror (ign : Bool) (sys : System) (hs : sys.Strict) (p q : Nat) (hp : p < sys.P) (hq : q < sys.P)
    (hpq : q ≠ p) (op oq : List Nat) (hmp : GoodMode ign sys p op) (hmq : GoodMode ign sys q oq) :
    ((buildRemote ign sys p op).sendList q).map (fun x => (x.loc.g, x.loc.a, x.ra)) =
    ((buildRemote ign sys q oq).recvList p).map (fun x => (x.loc.g, x.ra, x.loc.a)) := by
  rw [(rebuild_spec ign sys hs p q hp hq hpq op hmp).1, (rebuild_spec ign sys hs q p hq hp (Ne.symm hpq) oq hmq).2]
  have hS := strictG_published (hs p hp).1 ign
  have hD : StrictG ((sys.rank q).dstPairs ign) := by
    unfold RankData.dstPairs RankData.tgtOf
    split
    · exact strictG_published (hs q hq).2 ign
    · exact strictG_published (hs q hq).1 ign
  exact F.spec_mirror _ _ hS hD

example : ((buildRemote false exSys 0 [2, 1]).sendList 1).map (fun x => (x.loc.g, x.loc.a, x.ra)) = [(1, 0, 3)] ∧
    ((buildRemote false exSys 1 [0]).recvList 0).map (fun x => (x.loc.g, x.ra, x.loc.a)) = [(1, 0, 3)] := by decide

/-! ### the protocol underneath: regenerated decisions, ring, neighbour network -/

/-- the bookkeeping of `rebuild`, `free` and `setIndexSets` as read from the source is what the model performs
    (`RankW.built`, `RankW.free`, `World.step`): `rebuild` frees, builds, then records both sequence numbers,
    `firstBuild=false` and `publicIgnored`; `free` empties the map and makes the next rebuild a real one; `setIndexSets`
    frees (a function the translator cannot locate is `none` and left to the differential run). -/
theorem gen_bookkeeping :
    Gen.rebuildAssigns = ["destSeqNo_=target_->seqNo()", "firstBuild=false", "publicIgnored=ignorePublic",
      "sourceSeqNo_=source_->seqNo()"] ∧
    Gen.rebuildBefore = ["free()"] ∧ Gen.freeClears ≠ some false ∧ Gen.freeMarksFirstBuild ≠ some false ∧
    Gen.setIndexSetsFrees ≠ some false := by decide

/-- **gen_configuration**: the configuration calls, as read from the source on this run, *replace* the stored
    configuration by their arguments unconditionally — `setNeighbours` clears before it inserts, `setIndexSets` and the
    five-argument constructor hand their `neighbours` argument on whatever it contains (an empty vector = the omitted
    argument switches back to the ring), `setIndexSets` stores both index sets and the communicator, `setIncludeSelf`
    its argument.  This is what `World.step` / `Config.step` (hence `config_in_force`) say; a statement that was put
    under a condition, dropped or made partial turns the fact into `some false` (one the reader cannot locate is
    `none` and left to the differential run). -/
theorem gen_configuration :
    Gen.setNeighboursReplaces ≠ some false ∧ Gen.setIndexSetsReplacesHints ≠ some false ∧
    Gen.ctorSetsHints ≠ some false ∧ Gen.setIndexSetsSetsBothSets ≠ some false ∧
    Gen.setIndexSetsSetsComm ≠ some false ∧ Gen.setIncludeSelfAssigns ≠ some false := by decide

/-- the generated `isSynced()` / rebuild test are the ones `synced_iff` speaks about -/
theorem faithful_isSynced (r : F.RankW) :
    r.isSynced = r.ri.isSynced (r.obj r.srcObj).seq (r.obj r.tgtObj).seq := rfl

theorem faithful_rebuild_test (r : F.RankW) (ign : Bool) :
    r.needs ign = (r.ri.firstBuild || ign != r.ri.publicIgnored ||
      !r.ri.isSynced (r.obj r.srcObj).seq (r.obj r.tgtObj).seq) := rfl

/-- **ring_partners_agree**: the rank `p` receives from sends to `p`; it is a rank of the communicator. -/
theorem ring_partners_agree (p P : Nat) (hp : p < P) :
    (Gen.ringRecvFrom p P).toNat < P ∧ (Gen.ringSendTo (Gen.ringRecvFrom p P).toNat P).toNat = p := by
  have hP : 0 < P := by omega
  rw [F.ringRecvFrom_eq hP, F.ringSendTo_eq]
  refine ⟨Nat.mod_lt _ hP, ?_⟩
  by_cases h0 : p = 0
  · subst h0
    have e1 : (0 + P - 1) % P = P - 1 := by rw [Nat.zero_add]; exact Nat.mod_eq_of_lt (by omega)
    rw [e1]
    have : P - 1 + 1 = P := by omega
    rw [this, Nat.mod_self]
  · have e1 : (p + P - 1) % P = p - 1 := by
      have : p + P - 1 = (p - 1) + P := by omega
      rw [this, Nat.add_mod_right]
      exact Nat.mod_eq_of_lt (by omega)
    rw [e1]
    have : p - 1 + 1 = p := by omega
    rw [this]
    exact Nat.mod_eq_of_lt hp

/-- **ring_buffers_distinct**: in every round the buffer sent and the buffer received into differ (both are 0 or 1) —
    so a rank never overwrites what it is sending. -/
theorem ring_buffers_distinct (k : Nat) :
    Gen.ringOutBuf k ≠ Gen.ringInBuf k ∧ (Gen.ringInBuf k = 0 ∨ Gen.ringInBuf k = 1) ∧
    (Gen.ringOutBuf k = 0 ∨ Gen.ringOutBuf k = 1) := by
  have h : Gen.ringInBuf (k : Int) = ((k % 2 : Nat) : Int) := F.ringInBuf_eq k
  have h2 : Gen.ringOutBuf (k : Int) = 1 - Gen.ringInBuf (k : Int) := rfl
  rw [h2, h]
  omega

/-- **ring_delivers**: forwarding works — after `k` ring rounds (`k < P`) rank `p` holds, in the buffer it received into,
    the *original* message of rank `(p+P-k)%P`, and that is the rank `buildRemote` labels the content with. -/
theorem ring_delivers (P : Nat) (msgs : List Msg) (hl : msgs.length = P) (k p : Nat) (hk : k < P) (hp : p < P) :
    ((F.ringState P msgs k).getD p default).get (Gen.ringInBuf k) = msgs.getD ((p + P - k) % P) default ∧
    (Gen.ringOrigin p P k).toNat = (p + P - k) % P ∧ (p + P - k) % P < P := by
  have held : ∀ k, k < P → F.Held P msgs k (F.ringState P msgs k) := by
    intro k
    induction k with
    | zero => intro _; exact F.held_init P msgs hl
    | succ j ih => intro hj; exact F.held_step (by omega) (ih (by omega))
  exact ⟨held k hk p hp, F.ringOrigin_eq (by omega), Nat.mod_lt _ (by omega)⟩

/-- three ranks, two rounds: rank 0 ends with the message of rank 1 (two places before it) in buffer 0 -/
example : let msgs : List Msg := [⟨false, 0, 0, []⟩, ⟨true, 1, 0, [⟨7, 1⟩]⟩, ⟨false, 2, 0, [⟨1, 0⟩, ⟨2, 0⟩]⟩]
    (((F.ringState 3 msgs 2).getD 0 default).get (Gen.ringInBuf 2)).nS = 1 := by decide

/-- **consistent_hints_network**: with consistent (symmetric, in-range) hints the ranks that send to `p` are exactly
    the ranks `p` waits for; hence with hints on every rank and any arrival orders, or with no hints anywhere, the
    collective call returns on every rank (`netOK`). -/
theorem consistent_hints_network (sys : System) (arrivals : Nat → List Nat) :
    (F.SymHints sys → ∀ p, p < sys.P → F.senders sys p = nbIds (sys.rank p) p) ∧
    (F.AllRing sys → F.netOK sys arrivals = true) ∧
    (F.AllNb sys → F.SymHints sys → (∀ p, p < sys.P → (arrivals p).Perm (nbIds (sys.rank p) p)) →
      F.netOK sys arrivals = true) :=
  ⟨fun h _ hp => F.senders_eq_nbIds sys h hp, F.netOK_ring sys arrivals, F.netOK_nb sys arrivals⟩

theorem exSys_sym : F.SymHints exSys := by
  intro p hp
  have : p = 0 ∨ p = 1 ∨ p = 2 := by simp [exSys] at hp; omega
  rcases this with h | h | h <;> subst h <;> decide

example : F.AllNb exSys ∧ F.senders exSys 0 = [1, 2] ∧ F.netOK exSys (fun p => if p = 0 then [2, 1] else F.senders exSys p) = true := by
  refine ⟨?_, by decide, by decide⟩
  intro p hp
  have : p = 0 ∨ p = 1 ∨ p = 2 := by simp [exSys] at hp; omega
  rcases this with h | h | h <;> subst h <;> decide

/-- **collective_refines**: the faithful collective `buildRemote` (generated decisions, entry counts and buffer cursor,
    ring state machine on all ranks, network-level neighbour exchange) returns, on a working network, on every rank
    the map of the per-rank model — about which `rebuild_spec`, `rebuild_sorted`, … speak. -/
theorem collective_refines (ign : Bool) (sys : System) (arrivals : Nat → List Nat)
    (hn : F.netOK sys arrivals = true) (hP : 0 < sys.P) :
    ∃ maps, F.buildAll ign sys arrivals = some maps ∧ maps.length = sys.P ∧
      ∀ p, p < sys.P → maps.getD p [] = buildRemote ign sys p (arrivals p) :=
  F.buildAll_refines ign sys arrivals hn hP

example : (F.buildAll false exSys (F.stdArrivals exSys)).map (fun maps => maps.getD 0 [])
    = some (buildRemote false exSys 0 [1, 2]) := by decide

/-! ### histories -/

/-- **history_rebuild_fresh**: for every history of resizes (any rank, any index set object, any new contents), `free`,
    `setIndexSets` and collective rebuilds, starting from freshly constructed objects: a collective `rebuild<ign>()`
    that returns leaves every rank with exactly the lists `buildRemote` computes from the *current* index sets of
    all ranks (also when `rebuild` found nothing to do), in sync, with `publicIgnored = ign`.
    (A collective rebuild on which the ranks disagree — some resized, others did not — does not return: `World.rebuild`
    is `none`, and so is the run.) -/
theorem history_rebuild_fresh (w0 : F.World) (h0 : ∀ r ∈ w0, r.ri.firstBuild = true) (evs : List F.Ev)
    (hc : ∀ e ∈ evs, e.core = true) (ign : Bool) (arrivals : Nat → List Nat) (w : F.World)
    (hr : F.World.run w0 (evs ++ [F.Ev.rebuild ign arrivals]) = some w) (p : Nat) (hp : p < w.length) :
    (w.getD p default).ri.remote = buildRemote ign w.sys p (F.senders w.sys p) ∧
    (w.getD p default).isSynced = true ∧ (w.getD p default).ri.publicIgnored = ign := by
  have := F.run_then_rebuild_fresh w0 h0 evs hc ign arrivals w hr p hp
  exact ⟨this.remote, this.synced, this.pub⟩

/-- **history_rebuild_spec**: … and therefore, when the current decomposition has no repeated global indices and the
    hints are consistent and covering (or absent), the lists are the pairwise intersections of the *current*
    published index sets. -/
theorem history_rebuild_spec (w0 : F.World) (h0 : ∀ r ∈ w0, r.ri.firstBuild = true) (evs : List F.Ev)
    (hc : ∀ e ∈ evs, e.core = true) (ign : Bool) (arrivals : Nat → List Nat) (w : F.World)
    (hr : F.World.run w0 (evs ++ [F.Ev.rebuild ign arrivals]) = some w)
    (hs : w.sys.Strict) (hsym : F.SymHints w.sys) (p q : Nat) (hp : p < w.length) (hq : q < w.length) (hpq : q ≠ p)
    (hcov : nbIds (w.sys.rank p) p = [] ∨ HintsCover ign w.sys p) :
    (w.getD p default).ri.remote.sendList q = spec ((w.sys.rank p).srcPairs ign) ((w.sys.rank q).dstPairs ign) ∧
    (w.getD p default).ri.remote.recvList q = spec ((w.sys.rank p).dstPairs ign) ((w.sys.rank q).srcPairs ign) := by
  rw [(history_rebuild_fresh w0 h0 evs hc ign arrivals w hr p hp).1]
  apply rebuild_spec ign w.sys hs p q hp hq hpq
  rcases hcov with h | h
  · exact Or.inl h
  · refine Or.inr ⟨⟨?_, fun x hx => (hsym p hp x hx).1⟩, h⟩
    rw [F.senders_eq_nbIds w.sys hsym hp]

/-- **config_in_force**: after *any* history (all events, also `setIncludeSelf`/`setNeighbours`, any interleaving with
    resizes, frees and rebuilds) that returns, every rank works with the configuration of the *last* calls addressed to
    it: index set objects and hints of its last `setIndexSets` (hints: or of a later `setNeighbours`), `includeSelf` of
    its last `setIncludeSelf`, else what it was constructed with.  Nothing of an earlier configuration survives a
    call that sets it — in particular hints do not survive a `setIndexSets` without hints. -/
theorem config_in_force (w0 : F.World) (evs : List F.Ev) (w : F.World) (hr : F.World.run w0 evs = some w) :
    w.length = w0.length ∧
    ∀ p, p < w0.length → (w.getD p default).config = F.Config.after p (w0.getD p default).config evs :=
  F.run_config evs hr

/-- rank 0 is constructed with hints [1], gets hints [1,2] by `setNeighbours`, is re-targeted by `setIndexSets` without
    hints, and `setIncludeSelf(true)` is called: objects (1,0), includeSelf, no hints; rank 1 keeps its hints -/
example : let w0 : F.World := [{ hints := [1] }, { hints := [0] }, {}]
    let evs : List F.Ev := [.setNb 0 [1, 2], .resize 0 0 [⟨1, 0, 0, true⟩], .setSets 0 1 0 [], .setIncl 0 true]
    (F.World.run w0 evs).map (fun w => ((w.getD 0 default).config, (w.getD 1 default).hints))
      = some (⟨1, 0, true, []⟩, [0]) ∧
    F.Config.after 0 (w0.getD 0 default).config evs = ⟨1, 0, true, []⟩ := by decide

/-- **history_last_hints_ring**: whatever hints the objects had before — a history whose last hint-setting call on
    every rank passes no hints (e.g. `setIndexSets(source, target, comm)` on all ranks after a phase with neighbour
    hints) ends, after the collective rebuild, with the *full* pairwise intersections on every rank and for every
    other rank: no covering hypothesis is left, the ring visits everybody. -/
theorem history_last_hints_ring (w0 : F.World) (h0 : ∀ r ∈ w0, r.ri.firstBuild = true) (evs : List F.Ev)
    (hc : ∀ e ∈ evs, e.core = true) (ign : Bool) (arrivals : Nat → List Nat) (w : F.World)
    (hr : F.World.run w0 (evs ++ [F.Ev.rebuild ign arrivals]) = some w)
    (hlast : ∀ p, p < w0.length → (F.Config.after p (w0.getD p default).config evs).hints = [])
    (hs : w.sys.Strict) (p q : Nat) (hp : p < w.length) (hq : q < w.length) (hpq : q ≠ p) :
    (w.getD p default).ri.remote.sendList q = spec ((w.sys.rank p).srcPairs ign) ((w.sys.rank q).dstPairs ign) ∧
    (w.getD p default).ri.remote.recvList q = spec ((w.sys.rank p).dstPairs ign) ((w.sys.rank q).srcPairs ign) := by
  obtain ⟨hlen, hcfg⟩ := F.run_config _ hr
  have hnil : ∀ r, r < w.length → nbIds (w.sys.rank r) r = [] := by
    intro r hr'
    apply F.nbIds_nil_of_hints
    have h1 := hcfg r (hlen ▸ hr')
    have h2 : (w.getD r default).hints = (w.getD r default).config.hints := rfl
    show (w.getD r default).hints = []
    rw [h2, h1]
    simp only [F.Config.after, List.foldl_append, List.foldl_cons, List.foldl_nil, F.Config.step]
    exact hlast r (hlen ▸ hr')
  have hsym : F.SymHints w.sys := by
    intro r hr' x hx
    rw [hnil r hr'] at hx
    cases hx
  exact history_rebuild_spec w0 h0 evs hc ign arrivals w hr hs hsym p q hp hq hpq (Or.inl (hnil p hp))

/-- three ranks; neighbour hints 0–1, 1–2 (rank 0 and 2 share index 30 but do not name each other: after the first
    rebuild rank 0 has nothing about rank 2); every rank calls `setIndexSets` without hints; the rebuild then gives
    rank 0 its entry for rank 2 -/
def exChain : F.World :=
  [{ o0 := { pairs := [⟨10, 0, 0, true⟩, ⟨30, 1, 0, true⟩] }, hints := [1] },
   { o0 := { pairs := [⟨10, 0, 1, true⟩, ⟨20, 1, 0, true⟩] }, hints := [0, 2] },
   { o0 := { pairs := [⟨20, 0, 1, true⟩, ⟨30, 1, 2, true⟩] }, hints := [1] }]
def exRetarget : List F.Ev := [.rebuild false (fun p => F.senders exChain.sys p), .setSets 0 0 0 [], .setSets 1 0 0 [], .setSets 2 0 0 []]

example : (∀ r ∈ exChain, r.ri.firstBuild = true) ∧ (∀ e ∈ exRetarget, e.core = true) ∧
    (∀ p, p < exChain.length → (F.Config.after p (exChain.getD p default).config exRetarget).hints = []) := by decide

example : ((F.World.run exChain (exRetarget.take 1)).map fun w => ((w.getD 0 default).ri.remote.sendList 2).map (fun x => (x.loc.g, x.ra)))
      = some [] ∧
    ((F.World.run exChain (exRetarget ++ [.rebuild false (fun _ => [])])).map
      fun w => ((w.getD 0 default).ri.remote.sendList 2).map (fun x => (x.loc.g, x.ra))) = some [(30, 2)] := by decide

/-- **world_synced_iff**: in the faithful world, a rank that is in sync (as it is after every collective rebuild that
    returned, `history_rebuild_fresh`) stays in sync through any sequence of resizes — of any index set object on any
    rank — exactly if none of them resized the object that is *its* source or target index set. -/
theorem world_synced_iff (w : F.World) (p : Nat) (hp : p < w.length) (hsy : (w.getD p default).isSynced = true)
    (rs : List (Nat × Nat × List Pair)) :
    ((w.resizes rs).getD p default).isSynced = true ↔
      ∀ e ∈ rs, e.1 = p → (w.getD p default).refers e.2.1 = false :=
  F.world_synced_iff' w p hp hsy rs

/-- rank 0 uses objects 0 (source) and 1 (target): resizing object 2 of rank 0 and object 0 of rank 1 keeps rank 0 in
    sync, resizing its target object does not -/
example : let w : F.World := [{ tgtObj := 1, ri := { sourceSeqNo := 0, destSeqNo := 0 } }, {}]
    (w.getD 0 default).isSynced = true ∧
    ((w.resizes [(0, 2, []), (1, 0, [])]).getD 0 default).isSynced = true ∧
    ((w.resizes [(0, 2, []), (0, 1, [])]).getD 0 default).isSynced = false := by decide

/-- two ranks, one index set each: build, rank 1 gets global index 2 as well, both ranks resize (rank 0 without a
    change), rebuild: rank 0 now lists index 2 for rank 1; a second rebuild changes nothing; a rebuild after a
    resize on rank 1 only does not return -/
def exWorld : F.World := [{ o0 := { pairs := [⟨1, 0, 0, true⟩, ⟨2, 1, 0, true⟩] } }, { o0 := { pairs := [⟨1, 0, 1, true⟩] } }]
def exEvs : List F.Ev :=
  [.rebuild false (fun _ => []), .resize 1 0 [⟨1, 0, 1, true⟩, ⟨2, 1, 3, true⟩], .resize 0 0 [⟨1, 0, 0, true⟩, ⟨2, 1, 0, true⟩]]

example : (∀ r ∈ exWorld, r.ri.firstBuild = true) ∧ (∀ e ∈ exEvs, e.core = true) := by decide

example : ((F.World.run exWorld (exEvs ++ [.rebuild false (fun _ => [])])).map
      fun w => ((w.getD 0 default).ri.remote.sendList 1).map (fun x => (x.loc.g, x.ra)))
    = some [(1, 1), (2, 3)] := by decide

example : ((F.World.run exWorld (exEvs ++ [.rebuild false (fun _ => []), .rebuild false (fun _ => [])])).map
      fun w => ((w.getD 0 default).ri.remote.sendList 1).map (fun x => (x.loc.g, x.ra)))
    = some [(1, 1), (2, 3)] ∧
    (F.World.run exWorld [.rebuild false (fun _ => []), .resize 1 0 [], .rebuild false (fun _ => [])]).isNone = true := by
  decide

/-! ### how the index pairs come into being, and where they lie (round four) -/

/-- **localindex_variants_agree**: every way of making a local index that the correspondence uses — the three
    constructors of `ParallelLocalIndex` (member-initialiser lists and delegations *regenerated from plocalindex.hh*,
    `DV.C04.GenL`), the default argument `isPublic=true`, `operator=(size_t)`, `setAttribute`, `IndexPair(global)` +
    assignment, `setLocal` — yields the pair `(g, l, a, pub)` it was asked for, as seen through the getters
    `local()`, `attribute()`, `isPublic()`, and a `VALID` one.  So "arbitrary attributes and public flags" of the
    property do not depend on the overload through which an index is created.  (A constructor that drops an argument
    changes a generated definition and this proof fails.) -/
theorem localindex_variants_agree (how : Nat) (g : Int) (l a : Nat) (pub : Bool) :
    L.mkPair how g l a pub = { g := g, l := l, a := a, pub := pub } ∧ (L.build how l a pub).valid = true :=
  ⟨L.mkPair_eq how g l a pub, L.build_valid how l a pub⟩

example : L.mkPair 1 7 5 2 false = ⟨7, 5, 2, false⟩ ∧ L.mkPair 2 7 5 2 true = ⟨7, 5, 2, true⟩ ∧
    L.mkPair 3 (-1) 9 0 false = ⟨-1, 9, 0, false⟩ ∧ L.mkPair 4 0 0 3 true = ⟨0, 0, 3, true⟩ := by decide

/-- **gen_pair_facts**: what the variants rest on in indexset.hh, read from the source: `IndexPair(global, local)`
    stores both, `IndexPair(global)` default-constructs the local index, `setLocal` assigns, the two `add` overloads
    append exactly these pairs unconditionally — none of the facts is contradicted by the source. -/
theorem gen_pair_facts : ∀ f ∈ L.pairFacts, f ≠ some false := by decide

example : L.pairFacts.length = 5 := rfl

/-- **chunked_storage**: `ArrayList<T,N>` keeps `l` in chunks that are never empty, never longer than `N` (`N = 0`
    counts as 1), and whose concatenation — what the iterator walks through — is `l`, for every `N` and every `l`. -/
theorem chunked_storage (N : Nat) (l : List α) :
    (L.chunked N l).flatten = l ∧ ∀ c ∈ L.chunked N l, c ≠ [] ∧ c.length ≤ max N 1 :=
  ⟨L.chunked_go_flatten N l.length l (Nat.le_refl _), L.chunked_go_sizes N l.length l⟩

example : L.chunked 2 [1, 2, 3, 4, 5] = [[1, 2], [3, 4], [5]] ∧ L.chunked 100 [1, 2, 3] = [[1, 2, 3]] ∧
    L.chunked 1 [1, 2] = [[1], [2]] := by decide

/-- **pack_chunked**: `packEntries`' loop over the chunked storage — every published pair packed by one `MPI_Pack`
    call of `Gen.packCount n` pairs (*the count argument read from the source*) starting at the pair's address —
    never reads past the end of a chunk and produces exactly the published pairs in set order (the entries of the
    model's message, `F.published`), for every chunk size `N`, every index set (any size: fewer than `N`, exactly `N`,
    `N+1`, many chunks), both values of `ignorePublic`, every entry count `n`. -/
theorem pack_chunked (N : Nat) (n : Int) (ign : Bool) (l : List Pair) :
    L.packWalk (fun p => Gen.publishes ign p.pub) (Gen.packCount n).toNat (L.chunked N l) = some (F.published ign l) := by
  have h1 : (Gen.packCount n).toNat = 1 := by simp [Gen.packCount]
  rw [h1, L.packWalk_one, (chunked_storage N l).1]
  rfl

/-- three pairs in chunks of two, the middle one not public: both flags; and what a single call for all `n = 3` pairs
    starting at the first pair would do: it leaves the first chunk (`none`), while for `N ≥ 3` nothing is wrong —
    the reason why sets that fit into one chunk cannot show such a change -/
example : let l : List Pair := [⟨1, 0, 0, true⟩, ⟨2, 1, 1, false⟩, ⟨3, 2, 0, true⟩]
    L.packWalk (fun p => Gen.publishes false p.pub) 1 (L.chunked 2 l) = some [⟨1, 0, 0, true⟩, ⟨3, 2, 0, true⟩] ∧
    L.packWalk (fun p => Gen.publishes true p.pub) 1 (L.chunked 2 l) = some l ∧
    L.packAt ((L.chunked 2 l).headD []) 0 3 = none ∧
    L.packAt ((L.chunked 100 l).headD []) 0 3 = some l := by decide

/-- the receiving side takes one pair per `MPI_Unpack` call as well (count read from all five calls of the two
    `unpackIndices`): the cursor model `F.unpackGo`, which advances by one entry per call, is the code's -/
theorem unpack_one_per_call (remoteEntries : Int) : Gen.unpackCount remoteEntries = 1 := rfl

example : Gen.unpackCount 5 = 1 := rfl

/-- **announced_count_is_packed_count**: the entry count a rank announces for an index set
    (`Gen.publishCount`: `size()` when publicity is ignored, otherwise `noPublic()`, which counts the pairs passing
    `Gen.countedPublic` — both read from the source) is the number of pairs `packEntries` packs (`F.published`), for
    every index set and both flag values; so the `assert(i==n)` of `packEntries` holds and the receiver's loop bound is
    the number of entries in the buffer. -/
theorem announced_count_is_packed_count (ign : Bool) (l : List Pair) :
    Gen.publishCount ign l.length ((l.filter fun p => Gen.countedPublic p.pub).length) = (F.published ign l).length := by
  cases ign
  · simp [Gen.publishCount, Gen.countedPublic, F.published, Gen.publishes]
  · have h : l.filter (fun p => Gen.publishes true p.pub) = l := by
      simp [Gen.publishes]
    simp [Gen.publishCount, F.published, h]

example : Gen.publishCount false 3 (([⟨1, 0, 0, true⟩, ⟨2, 1, 1, false⟩, ⟨3, 2, 0, true⟩] : List Pair).filter
    fun p => Gen.countedPublic p.pub).length = 2 := by decide

end DV.C04
