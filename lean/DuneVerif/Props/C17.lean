/-
C17 — property theorems: tolerant comparison, rounding and the integer helpers satisfy their laws.

`K` is an arbitrary linearly ordered field; `eqS s`, `neS s`, `ltS s`, … are `FloatCmp::eq<T,style>` … of the model,
whose formulas are the definitions generated from float_cmp.cc (`Gen/C17.lean`).  `tol s a b e` is the documented
tolerance of the style (`e·max(|a|,|b|)`, `e·min(|a|,|b|)`, `e`), `IsTrunc tr` states that `tr` is the C++ conversion
`I(val)`.  Integer helpers: `IType` = signedness and width, result `none` = some intermediate value is not representable.

`round` / `trunc` are the algorithms over mathematical integers; `roundM t` / `truncM t` are the same statements with the
integer target type `t` explicit (values stored in an `I` variable are reduced as the type does) — what the driver executes.
Section "The integer target type made explicit" ties the two together (`roundM_eq_round`, `truncM_eq_trunc`, `round_of_fits`,
`trunc_of_fits_nonneg`) and proves what happens where a stored value wraps around: an unsigned type and an argument in (-1,0)
(`trunc_unsigned_neg_up`, `round_unsigned_neg`), the ends of the range of unsigned and narrow types (`trunc_unsigned_top_down`,
`trunc_narrow_bottom_up`, `trunc_snap_conversion`).

Three layers carry the quantifier "for all pairs of values of a floating type":
* the theorems over an arbitrary ordered field `K` (exact arithmetic: documented definitions, algebra, rounding laws);
* the `rat_…` theorems: the functions the driver executes on exact inputs (`eqRat`, `roundRat`, … of Model/C17.lean,
  compiled against core Lean's `Rat`) ARE the generic functions at `K = ℚ`, so the field theorems speak about the very
  values the harness compares with the C++ results;
* the `fp_…` theorems: the comparison algebra holds verbatim in the rounding arithmetic `FP f` of every binary
  floating-point format `f` (binary32/64, x87 extended, the harness' 8-bit format), for all finite operands — no
  exactness assumption.  (The documented *definitions* and the distance/direction laws of round/trunc are statements
  about real numbers and are proved in exact arithmetic only.)
-/
import DuneVerif.Proofs.C17
import DuneVerif.Proofs.C17M
import DuneVerif.Proofs.C17Int
import DuneVerif.Proofs.C17RT
import Mathlib.Algebra.Order.Field.Rat
import Mathlib.Algebra.Order.Field.Power
import Mathlib.Algebra.Order.Floor.Ring
import Mathlib.Data.Rat.Floor

set_option linter.unusedSectionVars false
set_option linter.unusedSimpArgs false
namespace DV.C17
open Nat

section comparisons
variable {K : Type} [Field K] [LinearOrder K] [IsStrictOrderedRing K]

/-! ## Comparisons -/

/-- the generated formulas are the documented definitions:
    `eq(a,b) ⇔ |a-b| ≤ ε·max(|a|,|b|)` (relativeWeak), `… ε·min(|a|,|b|)` (relativeStrong), `… ε` (absolute) -/
theorem eq_def (s : Style) (a b e : K) : eqS s a b e = true ↔ |a - b| ≤ tol s a b e := eqS_iff s a b e

example : eqS .relativeWeak (1 : ℚ) (3/2) (1/2) = true := by
  rw [eq_def]; norm_num [tol, abs_of_pos, abs_of_neg]
example : eqS .relativeStrong (1 : ℚ) (3/2) (1/3) = false := by
  rw [Bool.eq_false_iff, Ne, eq_def]; norm_num [tol, abs_of_pos, abs_of_neg]
example : eqS .relativeWeak (Dy.mk2 1 0) (Dy.mk2 3 (-1)) (Dy.mk2 1 (-1)) = true := by decide

/-- enum documentation of relativeWeak: `|a-b|/|a| ≤ ε || |a-b|/|b| ≤ ε` (written without the division) -/
theorem eq_weak_iff_or (a b e : K) (h : 0 ≤ e) :
    eqS .relativeWeak a b e = true ↔ (|a - b| ≤ e * |a| ∨ |a - b| ≤ e * |b|) := by
  rw [eq_def]; simp only [tol]
  rw [mul_max_of_nonneg _ _ h, le_max_iff]

/-- enum documentation of relativeStrong: `|a-b|/|a| ≤ ε && |a-b|/|b| ≤ ε` -/
theorem eq_strong_iff_and (a b e : K) (h : 0 ≤ e) :
    eqS .relativeStrong a b e = true ↔ (|a - b| ≤ e * |a| ∧ |a - b| ≤ e * |b|) := by
  rw [eq_def]; simp only [tol]
  rw [mul_min_of_nonneg _ _ h, le_min_iff]

theorem eq_strong_imp_weak (a b e : K) (h : 0 ≤ e) (hs : eqS .relativeStrong a b e = true) :
    eqS .relativeWeak a b e = true := by
  rw [eq_strong_iff_and a b e h] at hs
  rw [eq_weak_iff_or a b e h]; exact Or.inl hs.1

/-- equality is symmetric (every style, every epsilon) -/
theorem eq_symm (s : Style) (a b e : K) : eqS s a b e = eqS s b a e := eqS_symm s a b e

/-- equality is reflexive for a non-negative epsilon -/
theorem eq_refl (s : Style) (a e : K) (h : 0 ≤ e) : eqS s a a e = true := eqS_refl s a e h

/-- not-equal is the negation of equal -/
theorem ne_not_eq (s : Style) (a b e : K) : neS s a b e = !eqS s a b e := rfl

/-- documented: `lt = ne && first < second`, `gt = ne && first > second` -/
theorem lt_def (s : Style) (a b e : K) : ltS s a b e = true ↔ (a < b ∧ eqS s a b e = false) := ltS_iff s a b e
theorem gt_def (s : Style) (a b e : K) : gtS s a b e = true ↔ (b < a ∧ eqS s a b e = false) := gtS_iff s a b e
/-- documented: `le = eq || first < second`, `ge = eq || first > second` -/
theorem le_def (s : Style) (a b e : K) : leS s a b e = true ↔ (a < b ∨ eqS s a b e = true) := leS_iff s a b e
theorem ge_def (s : Style) (a b e : K) : geS s a b e = true ↔ (b < a ∨ eqS s a b e = true) := by
  simp [geS, Gen.ge, or_comm]

/-- exactly one of less / equal / greater holds (non-negative epsilon) -/
theorem trichotomy (s : Style) (a b e : K) (h : 0 ≤ e) :
    (ltS s a b e = true ∧ eqS s a b e = false ∧ gtS s a b e = false) ∨
    (ltS s a b e = false ∧ eqS s a b e = true ∧ gtS s a b e = false) ∨
    (ltS s a b e = false ∧ eqS s a b e = false ∧ gtS s a b e = true) := by
  cases hE : eqS s a b e
  · have hne : a ≠ b := by
      intro hab; subst hab; rw [eq_refl s a e h] at hE; exact Bool.noConfusion hE
    rcases lt_or_gt_of_ne hne with hlt | hgt
    · left; simp [ltS, gtS, Gen.lt, Gen.gt, Gen.ne, hE, hlt, not_lt_of_gt hlt]
    · right; right; simp [ltS, gtS, Gen.lt, Gen.gt, Gen.ne, hE, hgt, not_lt_of_gt hgt]
  · right; left; simp [ltS, gtS, Gen.lt, Gen.gt, Gen.ne, hE]

-- all three cases occur …
example : ltS .absolute (1 : ℚ) 2 (1/2) = true := by rw [lt_def, Bool.eq_false_iff, Ne, eq_def]; norm_num [tol, abs_of_neg]
example : eqS .absolute (1 : ℚ) 2 1 = true := by rw [eq_def]; norm_num [tol, abs_of_neg]
example : gtS .absolute (2 : ℚ) 1 (1/2) = true := by rw [gt_def, Bool.eq_false_iff, Ne, eq_def]; norm_num [tol, abs_of_pos]
-- … and the hypothesis `0 ≤ ε` is needed: with a negative epsilon none of the three holds for equal operands
example : ltS .absolute (1 : ℚ) 1 (-1) = false ∧ eqS .absolute (1 : ℚ) 1 (-1) = false ∧ gtS .absolute (1 : ℚ) 1 (-1) = false := by
  refine ⟨?_, ?_, ?_⟩
  · rw [Bool.eq_false_iff, Ne, lt_def]; norm_num
  · rw [Bool.eq_false_iff, Ne, eq_def]; norm_num [tol]
  · rw [Bool.eq_false_iff, Ne, gt_def]; norm_num

/-- less-or-equal is less or equal -/
theorem le_iff_lt_or_eq (s : Style) (a b e : K) : leS s a b e = (ltS s a b e || eqS s a b e) := by
  simp only [leS, ltS, Gen.le, Gen.lt, Gen.ne]
  cases decide (a < b) <;> cases eqS s a b e <;> rfl

/-- greater-or-equal is greater or equal -/
theorem ge_iff (s : Style) (a b e : K) : geS s a b e = (gtS s a b e || eqS s a b e) := by
  simp only [geS, gtS, Gen.ge, Gen.gt, Gen.ne]
  cases decide (a > b) <;> cases eqS s a b e <;> rfl

theorem lt_iff_gt_swap (s : Style) (a b e : K) : ltS s a b e = gtS s b a e := by
  simp only [ltS, gtS, Gen.lt, Gen.gt, Gen.ne, eq_symm s a b e]

/-! ### vector overloads -/

/-- `std::vector`: equal iff the sizes agree and every pair of components is equal -/
theorem vec_eq_conj (s : Style) (a b : List K) (e : K) :
    eqVec s a b e = true ↔ a.length = b.length ∧
      ∀ (i : Nat) (ha : i < a.length) (hb : i < b.length), eqS s a[i] b[i] e = true := eqVec_iff s a b e

/-- `FieldVector<T,n>`: equal iff every pair of components is equal -/
theorem fvec_eq_conj (s : Style) (a b : List K) (e : K) (h : a.length = b.length) :
    eqFV s a b e = true ↔ ∀ (i : Nat) (ha : i < a.length) (hb : i < b.length), eqS s a[i] b[i] e = true :=
  eqLoop_iff s e a b h

example : eqVec .absolute [(1 : ℚ), 2] [1, 5/2] 1 = true := by
  rw [vec_eq_conj]; refine ⟨rfl, fun i ha hb => ?_⟩
  have : i = 0 ∨ i = 1 := by simp at ha; omega
  rcases this with rfl | rfl <;> (rw [eq_def]; norm_num [tol, abs_of_neg])

theorem vec_ne_not_eq (s : Style) (a b : List K) (e : K) : neVec s a b e = !eqVec s a b e := rfl
theorem fvec_ne_not_eq (s : Style) (a b : List K) (e : K) : neFV s a b e = !eqFV s a b e := rfl

theorem vec_eq_symm (s : Style) (a b : List K) (e : K) : eqVec s a b e = eqVec s b a e := by
  rw [Bool.eq_iff_iff, vec_eq_conj, vec_eq_conj]
  constructor
  · rintro ⟨hl, h⟩; exact ⟨hl.symm, fun i ha hb => by rw [eq_symm]; exact h i hb ha⟩
  · rintro ⟨hl, h⟩; exact ⟨hl.symm, fun i ha hb => by rw [eq_symm]; exact h i hb ha⟩

theorem vec_eq_refl (s : Style) (a : List K) (e : K) (h : 0 ≤ e) : eqVec s a a e = true := by
  rw [vec_eq_conj]; exact ⟨rfl, fun i _ _ => eq_refl s _ e h⟩

/-- `std::vector` (ordered lexicographically by `operator<`): exactly one of less / equal / greater -/
theorem vec_trichotomy (s : Style) (a b : List K) (e : K) (h : 0 ≤ e) :
    (ltVec s a b e = true ∧ eqVec s a b e = false ∧ gtVec s a b e = false) ∨
    (ltVec s a b e = false ∧ eqVec s a b e = true ∧ gtVec s a b e = false) ∨
    (ltVec s a b e = false ∧ eqVec s a b e = false ∧ gtVec s a b e = true) := by
  cases hE : eqVec s a b e
  · rcases lexLt_total a b with ⟨h1, _, _⟩ | ⟨_, h2, h3⟩ | ⟨_, h2, h3⟩
    · subst h1; rw [vec_eq_refl s a e h] at hE; exact Bool.noConfusion hE
    · left; simp [ltVec, gtVec, neVec, hE, h2, h3]
    · right; right; simp [ltVec, gtVec, neVec, hE, h2, h3]
  · right; left; simp [ltVec, gtVec, neVec, hE]

theorem vec_le_iff (s : Style) (a b : List K) (e : K) : leVec s a b e = (ltVec s a b e || eqVec s a b e) := by
  simp only [leVec, ltVec, neVec]
  cases lexLt a b <;> cases eqVec s a b e <;> rfl

theorem vec_ge_iff (s : Style) (a b : List K) (e : K) : geVec s a b e = (gtVec s a b e || eqVec s a b e) := by
  simp only [geVec, gtVec, neVec]
  cases lexLt b a <;> cases eqVec s a b e <;> rfl

end comparisons

/-- the default epsilons read off float_cmp.cc (for float, double, long double and the harness' 8-bit type) are
    non-negative, so the laws above apply to calls that omit the epsilon argument -/
theorem defaultEps_nonneg :
    (0 : Dy) ≤ Gen.defaultEps_relativeWeak_f32 ∧ (0 : Dy) ≤ Gen.defaultEps_relativeWeak_f64 ∧
    (0 : Dy) ≤ Gen.defaultEps_relativeStrong_f32 ∧ (0 : Dy) ≤ Gen.defaultEps_relativeStrong_f64 ∧
    (0 : Dy) ≤ Gen.defaultEps_absolute_f32 ∧ (0 : Dy) ≤ Gen.defaultEps_absolute_f64 ∧
    (0 : Dy) ≤ Gen.defaultEps_relativeWeak_f80 ∧ (0 : Dy) ≤ Gen.defaultEps_relativeStrong_f80 ∧
    (0 : Dy) ≤ Gen.defaultEps_absolute_f80 ∧ (0 : Dy) ≤ Gen.defaultEps_relativeWeak_mf8 ∧
    (0 : Dy) ≤ Gen.defaultEps_relativeStrong_mf8 ∧ (0 : Dy) ≤ Gen.defaultEps_absolute_mf8 := by decide

end DV.C17

namespace DV.C17
open Nat

section rounding
variable {K : Type} [Field K] [LinearOrder K] [IsStrictOrderedRing K]

/-! ## round / trunc -/


theorem round_of_near_integer (s : Style) (rs : RStyle) (tr : K → Int) (x e : K)
    (h : eqS s ((tr x : Int) : K) x e = true) : round s rs tr x e = tr x := by
  rcases round_cases s rs tr x e with hc | hc <;> rw [hc]
  · exact roundDown_of_eq s tr x e h
  · exact roundUp_of_eq s tr x e h

theorem round_within (s : Style) (rs : RStyle) {tr : K → Int} (htr : IsTrunc tr) (x e : K) (h0 : 0 ≤ e) :
    |((round s rs tr x e : Int) : K) - x| < 1 ∧
    (eqS s ((round s rs tr x e : Int) : K) x e = true ∨ |((round s rs tr x e : Int) : K) - x| ≤ 1 / 2 + e / 2) := by
  cases hE : eqS s ((tr x : Int) : K) x e
  · obtain ⟨hl, hu⟩ := strict_bracket s htr x e h0 hE
    set l := floorOf tr x
    have hd := down_choice_within s x e l h0 hl hu
    have hu' := up_choice_within s x e l h0 hl hu
    have hlt1 : ∀ r : Int, (r = l ∨ r = l + 1) → |((r : Int) : K) - x| < 1 := by
      intro r hr; rw [abs_lt]
      rcases hr with hr | hr <;> subst hr <;> push_cast <;> constructor <;> linarith
    rcases round_cases s rs tr x e with hc | hc <;> rw [hc]
    · rw [roundDown_eq s htr x e l hl hu hE]
      refine ⟨hlt1 _ ?_, Or.inr hd⟩
      split <;> simp
    · rw [roundUp_eq s htr x e l hl hu hE]
      refine ⟨hlt1 _ ?_, Or.inr hu'⟩
      split <;> simp
  · rw [round_of_near_integer s rs tr x e hE]
    exact ⟨trunc_abs_lt_one htr x, Or.inl hE⟩

theorem round_nearest (s : Style) (rs : RStyle) {tr : K → Int} (htr : IsTrunc tr) (x e : K) (l : Int)
    (hl : (l : K) < x) (hu : x < (l : K) + 1) (hne : eqS s ((tr x : Int) : K) x e = false)
    (hnt : eqS s (x - (l : K)) ((l : K) + 1 - x) e = false) :
    round s rs tr x e = if x - (l : K) < (l : K) + 1 - x then l else l + 1 := by
  have hle : leS s (x - (l : K)) ((l : K) + 1 - x) e = decide (x - (l : K) < (l : K) + 1 - x) := by
    simp [leS, Gen.le, hnt]
  have hlt : ltS s (x - (l : K)) ((l : K) + 1 - x) e = decide (x - (l : K) < (l : K) + 1 - x) := by
    simp [ltS, Gen.lt, Gen.ne, hnt]
  rcases round_cases s rs tr x e with hc | hc <;> rw [hc]
  · rw [roundDown_eq s htr x e l hl hu hne, hle]; simp
  · rw [roundUp_eq s htr x e l hl hu hne, hlt]; simp


theorem round_tie (s : Style) (rs : RStyle) {tr : K → Int} (htr : IsTrunc tr) (x e : K) (l : Int)
    (hl : (l : K) < x) (hu : x < (l : K) + 1) (hne : eqS s ((tr x : Int) : K) x e = false)
    (ht : eqS s (x - (l : K)) ((l : K) + 1 - x) e = true) :
    round s rs tr x e = tieChoice rs x l := by
  have hle : leS s (x - (l : K)) ((l : K) + 1 - x) e = true := by simp [leS, Gen.le, ht]
  have hlt : ltS s (x - (l : K)) ((l : K) + 1 - x) e = false := by simp [ltS, Gen.lt, Gen.ne, ht]
  have hd : roundDown s tr x e = l := by rw [roundDown_eq s htr x e l hl hu hne, hle]; simp
  have hup : roundUp s tr x e = l + 1 := by rw [roundUp_eq s htr x e l hl hu hne, hlt]; simp
  cases rs <;> simp only [round, tieChoice, hd, hup, Int.cast_zero, gt_iff_lt]

theorem round_int (s : Style) (rs : RStyle) {tr : K → Int} (htr : IsTrunc tr) (n : Int) (e : K) (h0 : 0 ≤ e) :
    round s rs tr (n : K) e = n := by
  have hb := floorOf_spec htr (n : K)
  have hab := trunc_abs_lt_one htr (n : K)
  have htn : tr (n : K) = n := by
    rw [abs_lt] at hab
    have a : ((tr (n : K) : Int) : K) < ((n + 1 : Int) : K) := by push_cast; linarith
    have b : ((n : Int) : K) < ((tr (n : K) + 1 : Int) : K) := by push_cast; linarith
    have := Int.cast_lt.mp a; have := Int.cast_lt.mp b; omega
  rw [round_of_near_integer s rs tr (n : K) e (by rw [htn]; exact eqS_refl s _ e h0), htn]

/-- truncation toward zero exists in every floor ring (non-vacuity of `IsTrunc`) -/
theorem isTrunc_floor_ceil [FloorRing K] : IsTrunc (fun x : K => if 0 ≤ x then ⌊x⌋ else ⌈x⌉) := by
  intro x
  constructor
  · intro h; simp only [h, if_true]; exact ⟨Int.floor_le x, Int.lt_floor_add_one x⟩
  · intro h
    by_cases h0 : 0 ≤ x
    · have hx : x = 0 := le_antisymm h h0
      subst hx; simp
    · simp only [h0, if_false]
      exact ⟨Int.le_ceil x, by have := Int.ceil_lt_add_one x; linarith⟩

/-- the truncation used in the examples -/
def trQ : ℚ → Int := fun x => if 0 ≤ x then ⌊x⌋ else ⌈x⌉
theorem trQ_isTrunc : IsTrunc trQ := isTrunc_floor_ceil

-- 5/2 with epsilon 1/10 (absolute): a tie; downward gives 2, upward 3, towardZero 2, towardInf 3
example : round .absolute .downward trQ (5/2) (1/10) = 2 ∧ round .absolute .upward trQ (5/2) (1/10) = 3 ∧
    round .absolute .towardZero trQ (5/2) (1/10) = 2 ∧ round .absolute .towardInf trQ (5/2) (1/10) = 3 := by
  have htr : trQ (5/2) = 2 := by
    simp only [trQ]; norm_num
  have hne : eqS .absolute ((trQ (5/2) : Int) : ℚ) (5/2) (1/10) = false := by
    rw [htr, Bool.eq_false_iff, Ne, eq_def]; norm_num [tol, abs_of_neg]
  have ht : eqS .absolute ((5/2 : ℚ) - ((2 : Int) : ℚ)) (((2 : Int) : ℚ) + 1 - 5/2) (1/10) = true := by
    rw [eq_def]; norm_num [tol]
  refine ⟨?_, ?_, ?_, ?_⟩ <;>
    (rw [round_tie .absolute _ trQ_isTrunc (5/2) (1/10) 2 (by norm_num) (by norm_num) hne ht]; norm_num [tieChoice])

/-- closed form of `trunc<downward>` (`l = ⌊x⌋`): an integer argument is returned unchanged; otherwise `l+1` if the
    argument is equal to it within epsilon, else `l` -/
theorem trunc_downward_spec (s : Style) {tr : K → Int} (htr : IsTrunc tr) (x e : K) (l : Int)
    (hl : (l : K) ≤ x) (hu : x < (l : K) + 1) :
    trunc s false .downward tr x e = if (l : K) = x then l else if eqS s ((l : K) + 1) x e then l + 1 else l :=
  truncDown_eq s htr x e l hl hu

theorem trunc_upward_spec (s : Style) {tr : K → Int} (htr : IsTrunc tr) (x e : K) (l : Int) (h0 : 0 ≤ e)
    (hl : (l : K) ≤ x) (hu : x < (l : K) + 1) :
    trunc s false .upward tr x e =
      if (l : K) = x then l else
      if eqS s ((l : K) + 1) x e then l + 1 else if eqS s (l : K) x e then l else l + 1 :=
  truncUp_eq s htr x e l h0 hl hu

/-- integers are fixed points of `trunc` in every comparison and rounding style, for EVERY magnitude and every
    epsilon ≥ 0 (before fixes/C17_trunc_large.patch an integer `n` with `eq(n+1, n)`, i.e. `1 ≤ ε·|n|` resp. `1 ≤ ε`,
    was moved to `n+1`: `trunc<int,float>(2000000.f) = 2000001` with the default epsilon) -/
theorem trunc_int (s : Style) (rs : RStyle) {tr : K → Int} (htr : IsTrunc tr) (n : Int) (e : K) (h0 : 0 ≤ e) :
    trunc s false rs tr (n : K) e = n := by
  have hd := trunc_downward_spec s htr (n : K) e n (le_refl _) (by linarith)
  have hup := trunc_upward_spec s htr (n : K) e n h0 (le_refl _) (by linarith)
  simp only [if_true] at hd hup
  cases rs
  · rw [trunc_towardZero_eq]; split <;> assumption
  · rw [trunc_towardInf_eq]; split <;> assumption
  · exact hd
  · exact hup

theorem trunc_direction_downward (s : Style) {tr : K → Int} (htr : IsTrunc tr) (x e : K) :
    let r := trunc s false .downward tr x e
    (((r : Int) : K) ≤ x ∨ eqS s ((r : Int) : K) x e = true) ∧ x - 1 < ((r : Int) : K) ∧ ((r : Int) : K) ≤ x + 1 := by
  intro r
  obtain ⟨hl, hu⟩ := floorOf_spec htr x
  have hr : r = _ := trunc_downward_spec s htr x e (floorOf tr x) hl hu
  set l := floorOf tr x
  by_cases hi : (l : K) = x
  · simp only [hi, if_true] at hr
    rw [hr]; exact ⟨Or.inl hl, by linarith, by linarith⟩
  · simp only [hi, if_false] at hr
    by_cases h1 : eqS s ((l : K) + 1) x e = true
    · simp only [h1, if_true] at hr
      rw [hr]; push_cast
      exact ⟨Or.inr h1, by linarith, by linarith⟩
    · simp only [h1, Bool.false_eq_true, if_false] at hr
      rw [hr]
      exact ⟨Or.inl hl, by linarith, by linarith⟩

theorem trunc_direction_upward (s : Style) {tr : K → Int} (htr : IsTrunc tr) (x e : K) (h0 : 0 ≤ e) :
    let r := trunc s false .upward tr x e
    (x ≤ ((r : Int) : K) ∨ eqS s ((r : Int) : K) x e = true) ∧ x - 1 < ((r : Int) : K) ∧ ((r : Int) : K) ≤ x + 1 := by
  intro r
  obtain ⟨hl, hu⟩ := floorOf_spec htr x
  have hr : r = _ := trunc_upward_spec s htr x e (floorOf tr x) h0 hl hu
  set l := floorOf tr x
  by_cases hi : (l : K) = x
  · simp only [hi, if_true] at hr
    rw [hr]; exact ⟨Or.inl (le_of_eq hi.symm), by linarith, by linarith⟩
  · simp only [hi, if_false] at hr
    by_cases h1 : eqS s ((l : K) + 1) x e = true
    · simp only [h1, if_true] at hr
      rw [hr]; push_cast
      exact ⟨Or.inr h1, by linarith, by linarith⟩
    · simp only [h1, Bool.false_eq_true, if_false] at hr
      by_cases h2 : eqS s (l : K) x e = true
      · simp only [h2, if_true] at hr
        rw [hr]; exact ⟨Or.inr h2, by linarith, by linarith⟩
      · simp only [h2, Bool.false_eq_true, if_false] at hr
        rw [hr]; push_cast
        exact ⟨Or.inl (le_of_lt hu), by linarith, by linarith⟩


theorem trunc_direction_towardInf (s : Style) {tr : K → Int} (htr : IsTrunc tr) (x e : K) (h0 : 0 ≤ e) :
    let r := trunc s false .towardInf tr x e
    |x| ≤ |((r : Int) : K)| ∨ eqS s ((r : Int) : K) x e = true := by
  intro r
  have hr : r = _ := trunc_towardInf_eq s false tr x e
  by_cases hx : 0 < x
  · simp only [hx, if_true] at hr
    rcases (trunc_direction_upward s htr x e h0).1 with h | h
    · left; rw [hr, abs_of_pos hx]; exact le_trans h (le_abs_self _)
    · right; rw [hr]; exact h
  · simp only [hx, if_false] at hr
    have hx' : x ≤ 0 := not_lt.mp hx
    rcases (trunc_direction_downward s htr x e).1 with h | h
    · left; rw [hr, abs_of_nonpos hx', abs_of_nonpos (le_trans h hx')]; linarith
    · right; rw [hr]; exact h

theorem trunc_direction_towardZero (s : Style) {tr : K → Int} (htr : IsTrunc tr) (x e : K) (h0 : 0 ≤ e) :
    let r := trunc s false .towardZero tr x e
    |((r : Int) : K)| ≤ |x| ∨ eqS s ((r : Int) : K) x e = true := by
  intro r
  have hr : r = _ := trunc_towardZero_eq s false tr x e
  obtain ⟨hl, hu⟩ := floorOf_spec htr x
  set l := floorOf tr x with hldef
  by_cases hx : 0 < x
  · simp only [hx, if_true] at hr
    have hl0 : (0 : Int) ≤ l := by
      have : ((0 : Int) : K) < ((l + 1 : Int) : K) := by push_cast; linarith
      have := Int.cast_lt.mp this; omega
    have hd := trunc_downward_spec s htr x e l hl hu
    rcases (trunc_direction_downward s htr x e).1 with h | h
    · left; rw [hr, abs_of_pos hx]
      have hr0 : (0 : K) ≤ ((trunc s false .downward tr x e : Int) : K) := by
        have hlK : (0 : K) ≤ (l : K) := by exact_mod_cast hl0
        rw [hd]; split
        · exact hlK
        · split
          · push_cast; linarith
          · exact hlK
      rw [abs_of_nonneg hr0]; exact h
    · right; rw [hr]; exact h
  · simp only [hx, if_false] at hr
    have hx' : x ≤ 0 := not_lt.mp hx
    have hup := trunc_upward_spec s htr x e l h0 hl hu
    rcases (trunc_direction_upward s htr x e h0).1 with h | h
    · -- x ≤ r; either r ≤ 0, or r = l+1 = 1 and x = 0
      by_cases hr0 : ((trunc s false .upward tr x e : Int) : K) ≤ 0
      · left; rw [hr, abs_of_nonpos hr0, abs_of_nonpos hx']; linarith
      · right; rw [hr]
        have hrpos : 0 < ((trunc s false .upward tr x e : Int) : K) := not_le.mp hr0
        have hll : (l : K) ≤ 0 := le_trans hl hx'
        by_cases hi : (l : K) = x
        · -- integer argument: r = l ≤ 0, contradiction
          rw [hup, if_pos hi] at hrpos; exact absurd hrpos (not_lt.mpr hll)
        · simp only [hi, if_false] at hup
          by_cases h1 : eqS s ((l : K) + 1) x e = true
          · rw [hup]; simp only [h1, if_true]; push_cast; exact h1
          · simp only [h1, Bool.false_eq_true, if_false] at hup
            by_cases h2 : eqS s (l : K) x e = true
            · rw [hup]; simp only [h2, if_true]
            · simp only [h2, Bool.false_eq_true, if_false] at hup
              rw [hup] at hrpos; push_cast at hrpos
              have hl1 : (0 : Int) < l + 1 := by exact_mod_cast hrpos
              have hl2 : l ≤ 0 := by exact_mod_cast hll
              have hl3 : l = 0 := by omega
              have hx0 : x = 0 := by rw [hl3] at hl; push_cast at hl; exact le_antisymm hx' hl
              exfalso; apply hi; rw [hl3, hx0]; push_cast; rfl
    · right; rw [hr]; exact h

/-- a non-integer argument equal (within epsilon) to the integer above it is truncated to that integer in every style -/
theorem trunc_snap_up (s : Style) (rs : RStyle) {tr : K → Int} (htr : IsTrunc tr) (x e : K) (l : Int) (h0 : 0 ≤ e)
    (hl : (l : K) < x) (hu : x < (l : K) + 1) (h : eqS s ((l : K) + 1) x e = true) :
    trunc s false rs tr x e = l + 1 := by
  have hd := trunc_downward_spec s htr x e l (le_of_lt hl) hu
  have hup := trunc_upward_spec s htr x e l h0 (le_of_lt hl) hu
  simp only [ne_of_lt hl, h, if_true, if_false] at hd hup
  cases rs
  · rw [trunc_towardZero_eq]; split <;> assumption
  · rw [trunc_towardInf_eq]; split <;> assumption
  · exact hd
  · exact hup

theorem trunc_unsigned_zero (s : Style) (rs : RStyle) (tr : K → Int) (x e : K) (h : eqS s x 0 e = true) :
    trunc s true rs tr x e = 0 := by
  have hd : truncDown s true tr x e = 0 := by simp [truncDown, h]
  have hup : truncUp s true tr x e = 0 := by
    have h' : eqS s (0 : K) x e = true := by rw [eqS_symm]; exact h
    simp [truncUp, hd, neS, Gen.ne, h']
  cases rs <;> simp only [trunc, hd, hup] <;> (try split) <;> rfl

/-- unsigned target type: an argument that is not equal to 0 within epsilon is truncated exactly as for a signed type -/
theorem trunc_unsigned_eq_signed (s : Style) (rs : RStyle) (tr : K → Int) (x e : K) (h : eqS s x 0 e = false) :
    trunc s true rs tr x e = trunc s false rs tr x e := by
  have hd : truncDown s true tr x e = truncDown s false tr x e := by simp [truncDown, h]
  have hu : truncUp s true tr x e = truncUp s false tr x e := by simp [truncUp, hd]
  cases rs <;> simp only [trunc, hd, hu]

/-- every rounding style: the truncated value is the floor of the argument or the integer above it (distance at
    most 1; it is the integer above only in the cases listed in `trunc_downward_spec` / `trunc_upward_spec`) -/
theorem trunc_within (s : Style) (rs : RStyle) {tr : K → Int} (htr : IsTrunc tr) (x e : K) (h0 : 0 ≤ e) :
    let r := trunc s false rs tr x e
    (r = floorOf tr x ∨ r = floorOf tr x + 1) ∧ x - 1 < ((r : Int) : K) ∧ ((r : Int) : K) ≤ x + 1 := by
  intro r
  obtain ⟨hl, hu⟩ := floorOf_spec htr x
  have hd := trunc_downward_spec s htr x e (floorOf tr x) hl hu
  have hup := trunc_upward_spec s htr x e (floorOf tr x) h0 hl hu
  have hcases : r = trunc s false .downward tr x e ∨ r = trunc s false .upward tr x e := by
    show trunc s false rs tr x e = _ ∨ trunc s false rs tr x e = _
    cases rs
    · rw [trunc_towardZero_eq]; split <;> simp
    · rw [trunc_towardInf_eq]; split <;> simp
    · exact Or.inl rfl
    · exact Or.inr rfl
  have hr : r = floorOf tr x ∨ r = floorOf tr x + 1 := by
    rcases hcases with h | h <;> rw [h]
    · rw [hd]; split
      · simp
      · split <;> simp
    · rw [hup]; split
      · simp
      · split
        · simp
        · split <;> simp
  refine ⟨hr, ?_, ?_⟩
  · rcases hr with h | h <;> rw [h] <;> push_cast <;> linarith
  · rcases hr with h | h <;> rw [h] <;> push_cast <;> linarith

example : trunc .absolute true .downward trQ (3/2) 2 = 0 ∧ trunc .absolute false .downward trQ (3/2) 2 = 2 := by
  constructor
  · exact trunc_unsigned_zero .absolute .downward trQ (3/2) 2 (by rw [eq_def]; norm_num [tol])
  · have := trunc_downward_spec .absolute trQ_isTrunc (3/2) 2 1 (by norm_num) (by norm_num)
    rw [this, if_neg (by norm_num), if_pos (by rw [eq_def]; norm_num [tol])]; norm_num

-- integers stay where they are even when the next integer is "equal" to them: 2·10^6 with the default epsilon of
-- float, 2^-20 (relativeWeak: 1 ≤ 2^-20 · 2000001)
example : eqS .relativeWeak (2000001 : ℚ) 2000000 (1 / 2 ^ 20) = true ∧
    trunc .relativeWeak false .towardZero trQ ((2000000 : Int) : ℚ) (1 / 2 ^ 20) = 2000000 :=
  ⟨by rw [eq_def]; norm_num [tol, abs_of_pos], trunc_int .relativeWeak .towardZero trQ_isTrunc 2000000 _ (by norm_num)⟩

-- -5/2 with epsilon 0: downward -3, upward -2, towardZero -2, towardInf -3
example : trunc .relativeWeak false .downward trQ (-5/2) 0 = -3 ∧ trunc .relativeWeak false .upward trQ (-5/2) 0 = -2 ∧
    trunc .relativeWeak false .towardZero trQ (-5/2) 0 = -2 ∧ trunc .relativeWeak false .towardInf trQ (-5/2) 0 = -3 := by
  have hd := trunc_downward_spec .relativeWeak trQ_isTrunc (-5/2) 0 (-3) (by norm_num) (by norm_num)
  have hu := trunc_upward_spec .relativeWeak trQ_isTrunc (-5/2) 0 (-3) (le_refl _) (by norm_num) (by norm_num)
  have hni : ¬ ((((-3 : Int)) : ℚ) = -5/2) := by norm_num
  have e1 : eqS .relativeWeak ((((-3 : Int)) : ℚ) + 1) (-5/2) 0 = false := by
    rw [Bool.eq_false_iff, Ne, eq_def]; norm_num [tol]
  have e2 : eqS .relativeWeak (((-3 : Int)) : ℚ) (-5/2) 0 = false := by
    rw [Bool.eq_false_iff, Ne, eq_def]; norm_num [tol]
  simp only [hni, e1, e2, Bool.false_eq_true, if_false] at hd hu
  refine ⟨hd, by rw [hu]; norm_num, ?_, ?_⟩
  · rw [trunc_towardZero_eq, if_neg (by norm_num), hu]; norm_num
  · rw [trunc_towardInf_eq, if_neg (by norm_num), hd]

/-! ### The integer target type made explicit: `roundM` / `truncM`

`round` / `trunc` above compute with mathematical integers.  The code stores its integers in variables of the target type
`I`; `roundM t` / `truncM t` (Model/C17.lean; what the driver executes) reduce every stored value as the type `t` does
(unsigned: modulo `2^bits`; `T(lower+1)` after the integral promotions).  `NoWrap t tr x` says that none of the stored
values leaves the type; then the two agree and every theorem above speaks about the code.  The remaining case of the
property's domain is an unsigned target with an argument in (-1,0), where `lower--` turns 0 into the largest value
`M = 2^bits - 1` of the type: `trunc_unsigned_neg_up`, `round_unsigned_neg`. -/

theorem truncM_eq_trunc (t : IType) (s : Style) (rs : RStyle) {tr : K → Int} (x e : K) (h : NoWrap t tr x) :
    truncM t s rs tr x e = trunc s (!t.signed) rs tr x e := truncM_eq s rs e h

theorem roundM_eq_round (t : IType) (s : Style) (rs : RStyle) {tr : K → Int} (x e : K) (h : NoWrap t tr x) :
    roundM t s rs tr x e = round s rs tr x e := roundM_eq s rs e h

/-- `NoWrap` holds for `int` and wider signed target types (overflow at the ends of the range is undefined behaviour,
    outside the model), for every type when `I(val)-1 … I(val)+2` (and 1) are values of it, and for an unsigned one
    whenever the argument is non-negative and `I(val) + 2` is a value of the type -/
theorem noWrap_cases (t : IType) {tr : K → Int} (htr : IsTrunc tr) (x : K)
    (h : (t.signed = true ∧ 32 ≤ t.bits) ∨
         (0 < t.bits ∧ t.fits (tr x - 1) = true ∧ t.fits (tr x + 2) = true ∧ t.fits 1 = true) ∨
         (t.signed = false ∧ 0 ≤ x ∧ tr x + 2 < 2 ^ t.bits)) : NoWrap t tr x := by
  rcases h with ⟨h, hw⟩ | ⟨hb, h1, h2, h3⟩ | ⟨hu, h0, hhi⟩
  · exact noWrap_signed h hw tr x
  · exact noWrap_of_fits hb tr x h1 h2 h3
  · have h1 := (htr x).1 h0
    refine noWrap_unsigned hu tr x (not_lt.mpr h1.1) ?_ hhi
    have : ((0 : Int) : K) < ((tr x + 1 : Int) : K) := by push_cast; linarith
    have := Int.cast_lt.mp this; omega

/-- **`round` for every integer target type and every argument whose integer part is a value of the type** (also beyond
    the largest / smallest value of the type and in (-1,0) for an unsigned type): whenever the mathematical result — the
    one all the theorems above describe — is a value of the type, it is returned.  Before
    fixes/C17_round_range_end.patch this failed above the largest value: `round<unsigned char>(255.25)` was 0 and
    `round<signed char>(127.25)` was -128 (`roundOld_range_end`); for `int` the neighbour `lower+1` overflowed. -/
theorem round_of_fits (t : IType) (hb : 0 < t.bits) (s : Style) (rs : RStyle) (tr : K → Int) (x e : K)
    (h0 : t.fits (tr x) = true) (hr : t.fits (round s rs tr x e) = true) :
    roundM t s rs tr x e = round s rs tr x e := by
  rw [roundM_eq_wrap s rs tr x e (IType.wrap_of_fits hb _ h0), IType.wrap_of_fits hb _ hr]

/-- **`trunc` of a non-negative argument, every target type, the upper end of its range included**: if `I(val)` and the
    mathematical result (the one `trunc_downward_spec` … `trunc_within` describe) are values of the type, it is returned.
    `ha`: `lower+1` as an expression does not wrap — all types narrower than `int` (integral promotion), wider ones when
    `I(val)+1` is a value of the type. -/
theorem trunc_of_fits_nonneg (t : IType) (hb : 0 < t.bits) (s : Style) (rs : RStyle) {tr : K → Int} (htr : IsTrunc tr)
    (x e : K) (hx : 0 ≤ x) (ha : t.bits < 32 ∨ t.fits (tr x + 1) = true) (h0 : t.fits (tr x) = true)
    (hD : t.fits (trunc s (!t.signed) rs tr x e) = true) :
    truncM t s rs tr x e = trunc s (!t.signed) rs tr x e := by
  apply truncM_of_fits_nodec hb s rs e (not_lt.mpr ((htr x).1 hx).1) ?_ h0 hD
  rcases ha with h | h
  · simp [IType.arith, h]
  · exact IType.arith_of_fits hb _ h

/-- the lower end: where `I(val)` lies above `val` and is equal to it within epsilon the downward truncation returns it
    without decrementing — `trunc<short,double,relativeWeak,downward>(-32768.00000000001)` is -32768 (it was 32767 before
    fixes/C17_trunc_range_end.patch, `truncOld_range_end`) -/
theorem trunc_snap_conversion (t : IType) (s : Style) (tr : K → Int) (x e : K)
    (hz : t.signed = true ∨ eqS s x 0 e = false)
    (hg : ((tr x : Int) : K) > x) (hE : eqS s ((tr x : Int) : K) x e = true) :
    truncM t s .downward tr x e = tr x := by
  apply truncDownM_snap_conversion s tr x e ?_ hg hE
  rcases hz with h | h
  · simp [h]
  · simp [h]

/-- the conversion `I(val)` of an argument in (-1,0) is 0 -/
theorem tr_eq_zero_of_neg {tr : K → Int} (htr : IsTrunc tr) (x : K) (hx1 : -1 < x) (hx0 : x < 0) : tr x = 0 := by
  have h := (htr x).2 (le_of_lt hx0)
  have a : ((-1 : Int) : K) < ((tr x : Int) : K) := by push_cast; linarith
  have b : ((tr x : Int) : K) < ((1 : Int) : K) := by push_cast; linarith
  have := Int.cast_lt.mp a; have := Int.cast_lt.mp b; omega

/-- a positive integer `N` is not equal within epsilon to an argument `x` in (-1,0) that is not equal to 0 within
    epsilon — for the relative-strong style provided `ε·|x| < N + |x|` (the tolerance `ε·min(N,|x|)` is `ε·|x|`) -/
theorem eqS_posInt_neg_false (s : Style) (N : Int) (x e : K) (hN : 1 ≤ N) (hx1 : -1 < x) (hx0 : x < 0)
    (hz : eqS s x 0 e = false) (hs : s = .relativeStrong → e * (-x) < (N : K) - x) :
    eqS s ((N : Int) : K) x e = false := by
  have hNK : (1 : K) ≤ (N : K) := by exact_mod_cast hN
  rw [Bool.eq_false_iff, Ne, eqS_iff] at hz ⊢
  intro h
  apply hz
  have hxa : |x| = -x := abs_of_neg hx0
  have hNa : |(N : K)| = (N : K) := abs_of_pos (by linarith)
  have hd : |(N : K) - x| = (N : K) - x := abs_of_pos (by linarith)
  rw [hd] at h
  rw [sub_zero, hxa]
  cases s
  · -- relativeWeak: tolerance ε·N; `x` is not 0 within epsilon means ε < 1
    simp only [tol, hxa, hNa, abs_zero] at h ⊢
    rw [max_eq_left (by linarith : -x ≤ (N : K))] at h
    rw [max_eq_left (by linarith : (0 : K) ≤ -x)]
    by_contra hc
    have he : e < 1 := by
      by_contra he'
      exact hc (le_mul_of_one_le_left (by linarith) (not_lt.mp he'))
    have : e * (N : K) < 1 * (N : K) := mul_lt_mul_of_pos_right he (by linarith)
    linarith
  · simp only [tol, hxa, hNa, abs_zero] at h ⊢
    rw [min_eq_right (by linarith : -x ≤ (N : K))] at h
    exact absurd h (not_le.mpr (hs rfl))
  · simp only [tol] at h ⊢
    linarith

/-- **unsigned target, argument in (-1,0), truncation upward / toward zero: the result is 0.**  The downward step
    decrements 0 to the largest value `M = 2^bits - 1` of the type; the correction `if(ne(T(upper), val)) ++upper` sees
    `T(M)`, which differs from `val`, and the increment wraps around to 0 — the integer above the argument, the only
    value of the type within distance 1.  Every comparison style and every epsilon ≥ 0; for the relative-strong style
    provided `ε·|val| < M + |val|` (otherwise `M` itself is "equal to val within epsilon"; the documented result is then
    the integer -1, which the type does not have). -/
theorem trunc_unsigned_neg_up (t : IType) (ht : t.signed = false) (hb : 0 < t.bits) (s : Style) (rs : RStyle)
    (hrs : rs = .upward ∨ rs = .towardZero) {tr : K → Int} (htr : IsTrunc tr) (x e : K) (hx1 : -1 < x) (hx0 : x < 0)
    (hs : s = .relativeStrong → e * (-x) < (((2 : Int) ^ t.bits - 1 : Int) : K) - x) :
    truncM t s rs tr x e = 0 := by
  have htr0 : tr x = 0 := tr_eq_zero_of_neg htr x hx1 hx0
  have hp : (2 : Int) ≤ 2 ^ t.bits := by
    calc (2 : Int) = 2 ^ 1 := by norm_num
      _ ≤ 2 ^ t.bits := pow_le_pow_right₀ (by norm_num) hb
  have hgt : ((0 : Int) : K) > x := by push_cast; exact hx0
  have hup : truncUpM t s tr x e = 0 := by
    cases hz : eqS s x ((0 : Int) : K) e
    · -- not equal to 0 within epsilon
      have hz' : eqS s x 0 e = false := by simpa using hz
      have hM : eqS s (((2 : Int) ^ t.bits - 1 : Int) : K) x e = false :=
        eqS_posInt_neg_false s _ x e (by omega) hx1 hx0 hz' hs
      have hsame : sameVal ((((2 : Int) ^ t.bits - 1 : Int) : Int) : K) x = false := by
        rw [Bool.eq_false_iff, Ne, sameVal_iff]; intro h
        have : (1 : K) ≤ (((2 : Int) ^ t.bits - 1 : Int) : K) := by exact_mod_cast (by omega : (1 : Int) ≤ 2 ^ t.bits - 1)
        linarith
      have harith : eqS s ((t.arith ((2 : Int) ^ t.bits - 1 + 1) : Int) : K) x e = false := by
        unfold IType.arith
        split
        · refine eqS_posInt_neg_false s _ x e (by omega) hx1 hx0 hz' (fun h => lt_trans (hs h) ?_)
          push_cast; linarith
        · rw [IType.wrap_pow ht, eqS_symm]; simpa using hz
      have hz0 : eqS s ((0 : Int) : K) x e = false := by rw [eqS_symm]; exact hz
      have hd : truncDownM t s tr x e = 2 ^ t.bits - 1 := by
        unfold truncDownM
        simp only [ht, hz, Bool.not_false, Bool.and_false, Bool.false_eq_true, if_false, htr0, hgt, if_true,
          IType.wrap_neg_one ht, hsame, harith, hz0, decide_true]
      unfold truncUpM
      simp only [hd, neS, Gen.ne, hM, Bool.not_false, if_true, IType.wrap_pow ht]
    · have hd : truncDownM t s tr x e = 0 := by
        unfold truncDownM; simp only [ht, hz, Bool.not_false, Bool.and_true, if_true]
      have h' : eqS s ((0 : Int) : K) x e = true := by rw [eqS_symm]; exact hz
      unfold truncUpM
      simp only [hd, neS, Gen.ne, h', Bool.not_true, Bool.false_eq_true, if_false]
  have hng : ¬ x > ((0 : Int) : K) := by push_cast; exact not_lt.mpr (le_of_lt hx0)
  rcases hrs with h | h <;> subst h <;> simp only [truncM, hng, if_false, hup]

/-- the same with the hypothesis in the form of the check's domain predicate: the argument is not equal within epsilon
    to the integer -1 below it (otherwise the documented result is -1, which the type does not have; `truncUnrep`
    in Driver/C17.lean and the harness leave that case out) -/
theorem trunc_unsigned_neg_up_doc (t : IType) (ht : t.signed = false) (hb : 0 < t.bits) (s : Style) (rs : RStyle)
    (hrs : rs = .upward ∨ rs = .towardZero) {tr : K → Int} (htr : IsTrunc tr) (x e : K) (hx1 : -1 < x) (hx0 : x < 0)
    (hL : eqS s (((-1 : Int) : Int) : K) x e = false) :
    truncM t s rs tr x e = 0 := by
  apply trunc_unsigned_neg_up t ht hb s rs hrs htr x e hx1 hx0
  intro hs; subst hs
  have hp : (2 : Int) ≤ 2 ^ t.bits := by
    calc (2 : Int) = 2 ^ 1 := by norm_num
      _ ≤ 2 ^ t.bits := pow_le_pow_right₀ (by norm_num) hb
  have hM : (1 : K) ≤ (((2 : Int) ^ t.bits - 1 : Int) : K) := by exact_mod_cast (by omega : (1 : Int) ≤ 2 ^ t.bits - 1)
  rw [Bool.eq_false_iff, Ne, eqS_iff] at hL
  simp only [tol] at hL
  push_cast at hL
  rw [abs_of_neg (by linarith : (-1 : K) - x < 0), abs_of_neg hx0, abs_neg, abs_one,
    min_eq_right (by linarith : -x ≤ (1 : K))] at hL
  have := not_le.mp hL
  linarith

/-- **narrow signed target (`signed char`, `short`), argument just below its smallest value `m`, truncation upward / toward
    zero: the result is `m`** (unless the argument is equal within epsilon to the integer `m-1` below it, which the type does
    not have).  If the argument is equal to `m` within epsilon the repaired downward step returns `m` at once; otherwise the
    decrement wraps around to the largest value `M`, `T(M+1)` and `T(M)` are far from the argument, and `++upper` wraps back. -/
theorem trunc_narrow_bottom_up (t : IType) (hs : t.signed = true) (hn : t.bits < 32) (hb : 0 < t.bits) (s : Style)
    (rs : RStyle) (hrs : rs = .upward ∨ rs = .towardZero) {tr : K → Int} (htr : IsTrunc tr) (x e : K)
    (hx0 : ((t.lo : Int) : K) - 1 < x) (hx1 : x < ((t.lo : Int) : K))
    (hL : eqS s (((t.lo - 1 : Int) : Int) : K) x e = false) :
    truncM t s rs tr x e = t.lo := by
  have hp : (1 : Int) ≤ 2 ^ (t.bits - 1) := Int.pow_pos (by decide)
  have hlo : t.lo = -(2 ^ (t.bits - 1) : Int) := by simp [IType.lo, hs]
  generalize hN : (2 ^ (t.bits - 1) : Int) = N at hp hlo
  have hNK : (1 : K) ≤ (N : K) := by exact_mod_cast hp
  rw [hlo] at hx0 hx1 hL ⊢
  push_cast at hx0 hx1
  have hxneg : x ≤ -1 := by linarith
  -- I(val) is the smallest value
  have htr0 : tr x = -N := by
    have h := (htr x).2 (by linarith)
    have a : (((-N - 1 : Int) : Int) : K) < ((tr x : Int) : K) := by push_cast; linarith
    have b : ((tr x : Int) : K) < (((-N + 1 : Int) : Int) : K) := by push_cast; linarith
    have := Int.cast_lt.mp a; have := Int.cast_lt.mp b; omega
  have hgt : (((-N : Int) : Int) : K) > x := by push_cast; exact hx1
  have hng : ¬ x > ((0 : Int) : K) := by push_cast; linarith
  have hup : truncUpM t s tr x e = -N := by
    cases hE : eqS s (((-N : Int) : Int) : K) x e
    · -- not equal to the smallest value within epsilon: epsilon is below 1, the wrapped values are far away
      have he : e < 1 := by
        refine lt_one_of_not_eq_near s _ x e ?_ ?_ ?_ hL
        · push_cast; rw [abs_of_neg (by linarith)]; linarith
        · rw [abs_of_neg (by linarith)]; linarith
        · push_cast; rw [abs_of_neg (by linarith)]; linarith
      have hw1 : t.wrap (-N - 1) = N - 1 := by rw [← hN]; exact IType.wrap_lo_pred hs hn hb
      have hw2 : t.wrap (N - 1 + 1) = -N := by rw [← hN]; exact IType.wrap_hi_succ hs hn hb
      have hM : eqS s (((N - 1 : Int) : Int) : K) x e = false :=
        eqS_opposite_false s _ x e (by push_cast; linarith) hxneg he
      have hM1 : eqS s (((N - 1 + 1 : Int) : Int) : K) x e = false :=
        eqS_opposite_false s _ x e (by push_cast; linarith) hxneg he
      have hsame : sameVal ((((N - 1 : Int) : Int)) : K) x = false := by
        rw [Bool.eq_false_iff, Ne, sameVal_iff]; intro h
        have : (0 : K) ≤ (((N - 1 : Int) : Int) : K) := by push_cast; linarith
        linarith
      have hd : truncDownM t s tr x e = N - 1 := by
        unfold truncDownM
        simp only [hs, Bool.not_true, Bool.false_and, Bool.false_eq_true, if_false, htr0, hgt, decide_true, Bool.true_and,
          hE, if_true, hw1, hsame, IType.arith, hn, hM1]
      unfold truncUpM
      simp only [hd, neS, Gen.ne, hM, Bool.not_false, if_true, hw2]
    · have hd : truncDownM t s tr x e = -N := by
        unfold truncDownM
        simp only [hs, Bool.not_true, Bool.false_and, Bool.false_eq_true, if_false, htr0, hgt, decide_true, Bool.true_and,
          hE, if_true]
      unfold truncUpM
      simp only [hd, neS, Gen.ne, hE, Bool.not_true, Bool.false_eq_true, if_false]
  rcases hrs with h | h <;> subst h <;> simp only [truncM, hng, if_false, hup]

/-- **`unsigned` / `unsigned long` target, argument between the largest value `M` and `M+1`, truncation downward / toward
    zero: the result is `M`.**  `lower+1` wraps around to 0 in the expression `T(lower+1)`; the argument is not equal to 0
    within epsilon (otherwise the unsigned special case returns 0), so the snap test fails and `lower = M` is returned. -/
theorem trunc_unsigned_top_down (t : IType) (hu : t.signed = false) (hw : 32 ≤ t.bits) (s : Style) (rs : RStyle)
    (hrs : rs = .downward ∨ rs = .towardZero) {tr : K → Int} (htr : IsTrunc tr) (x e : K)
    (hx0 : ((t.hi : Int) : K) < x) (hx1 : x < ((t.hi : Int) : K) + 1) (hz : eqS s x 0 e = false) :
    truncM t s rs tr x e = t.hi := by
  have hp : (1 : Int) ≤ 2 ^ t.bits := Int.pow_pos (by decide)
  have hhi : t.hi = 2 ^ t.bits - 1 := by simp [IType.hi, hu]
  have hM0 : (0 : K) ≤ ((t.hi : Int) : K) := by rw [hhi]; exact_mod_cast (by omega : (0 : Int) ≤ 2 ^ t.bits - 1)
  have hxpos : 0 < x := by linarith
  have htr0 : tr x = t.hi := by
    have h := (htr x).1 (le_of_lt hxpos)
    have a : ((t.hi : Int) : K) < (((tr x + 1 : Int) : Int) : K) := by push_cast; linarith
    have b : ((tr x : Int) : K) < (((t.hi + 1 : Int) : Int) : K) := by push_cast; linarith
    have := Int.cast_lt.mp a; have := Int.cast_lt.mp b; omega
  have hng : ¬ ((t.hi : Int) : K) > x := not_lt.mpr (le_of_lt hx0)
  have hsame : sameVal ((t.hi : Int) : K) x = false := by
    rw [Bool.eq_false_iff, Ne, sameVal_iff]; intro h; linarith
  have hnw : ¬ t.bits < 32 := by omega
  have har : t.arith (t.hi + 1) = 0 := by
    rw [hhi]; simp only [IType.arith, hnw, if_false]; exact IType.wrap_pow hu
  have hz0 : eqS s ((0 : Int) : K) x e = false := by rw [eqS_symm]; simpa using hz
  have hz' : eqS s x ((0 : Int) : K) e = false := by simpa using hz
  have hd : truncDownM t s tr x e = t.hi := by
    unfold truncDownM
    simp only [hu, hz', Bool.not_false, Bool.and_false, Bool.false_eq_true, if_false, htr0, hng, decide_false, Bool.false_and,
      hsame, har, hz0]
  have hgt : x > ((0 : Int) : K) := by push_cast; exact hxpos
  rcases hrs with h | h <;> subst h <;> simp only [truncM, hgt, if_true, hd]

/-- unsigned target, argument in (-1,0): `round` returns 0 where the mathematical result is 0, and the largest value
    of the type where it is -1 (the nearest integer is then not a value of the type) -/
theorem round_unsigned_neg (t : IType) (ht : t.signed = false) (hb : 0 < t.bits) (s : Style) (rs : RStyle)
    {tr : K → Int} (htr : IsTrunc tr) (x e : K) (h0 : 0 ≤ e) (hx1 : -1 < x) (hx0 : x < 0) :
    (round s rs tr x e = 0 ∧ roundM t s rs tr x e = 0) ∨
    (round s rs tr x e = -1 ∧ roundM t s rs tr x e = 2 ^ t.bits - 1) := by
  have htr0 : tr x = 0 := tr_eq_zero_of_neg htr x hx1 hx0
  have hp : (2 : Int) ≤ 2 ^ t.bits := by
    calc (2 : Int) = 2 ^ 1 := by norm_num
      _ ≤ 2 ^ t.bits := pow_le_pow_right₀ (by norm_num) hb
  have hw : roundM t s rs tr x e = t.wrap (round s rs tr x e) := by
    apply roundM_eq_wrap
    rw [htr0]; exact IType.wrap_of_range ht 0 (by omega) (by omega)
  have hwi := (round_within s rs htr x e h0).1
  rw [abs_lt] at hwi
  have a : ((-2 : Int) : K) < ((round s rs tr x e : Int) : K) := by push_cast; linarith
  have b : ((round s rs tr x e : Int) : K) < ((1 : Int) : K) := by push_cast; linarith
  have a' := Int.cast_lt.mp a
  have b' := Int.cast_lt.mp b
  have hr : round s rs tr x e = 0 ∨ round s rs tr x e = -1 := by omega
  rcases hr with hr | hr
  · left; refine ⟨hr, ?_⟩; rw [hw, hr]; exact IType.wrap_of_range ht 0 (by omega) (by omega)
  · right; refine ⟨hr, ?_⟩; rw [hw, hr]; exact IType.wrap_neg_one ht

-- -4/5 with the absolute epsilon 3/10 truncated upward: the argument is within epsilon of the integer -1 below it.  With
-- mathematical integers (a signed target) the result is -1; an `unsigned` target returns 0 — this is where `truncM`
-- and `trunc` part, and why the check runs the machine-integer version against the code
example : trunc .absolute false .upward trQ (-4/5) (3/10) = -1 ∧ truncM uint32 .absolute .upward trQ (-4/5) (3/10) = 0 := by
  constructor
  · have := trunc_upward_spec .absolute trQ_isTrunc (-4/5) (3/10) (-1) (by norm_num) (by norm_num) (by norm_num)
    rw [this, if_neg (by norm_num), if_neg (by rw [Bool.not_eq_true, Bool.eq_false_iff, Ne, eq_def]; norm_num [tol, abs_of_pos]),
      if_pos (by rw [eq_def]; norm_num [tol, abs_of_neg])]
  · exact trunc_unsigned_neg_up uint32 rfl (by decide) .absolute .upward (Or.inl rfl) trQ_isTrunc _ _ (by norm_num) (by norm_num)
      (fun h => by cases h)


end rounding

/-- the defect repaired by fixes/C17_round_range_end.patch, on concrete inputs (exact dyadics `m·2^e` of
    Model/C17/Base.lean): 255.25 rounded to `unsigned char` was 0 and 127.25 rounded to `signed char` was -128 — the
    unrepaired algorithm stored `upper = lower+1` in the target type and computed both distances from the wrapped-around
    value.  The repaired one returns 255 and 127. -/
theorem roundOld_range_end :
    roundDownOldM uint8 .absolute Dy.trunc (Dy.mk2 1021 (-2)) (Dy.mk2 1 (-10)) = 0 ∧
    roundM uint8 .absolute .downward Dy.trunc (Dy.mk2 1021 (-2)) (Dy.mk2 1 (-10)) = 255 ∧
    roundDownOldM int8 .absolute Dy.trunc (Dy.mk2 509 (-2)) (Dy.mk2 1 (-10)) = -128 ∧
    roundM int8 .absolute .downward Dy.trunc (Dy.mk2 509 (-2)) (Dy.mk2 1 (-10)) = 127 := by decide

/-- the defect repaired by fixes/C17_trunc_range_end.patch on a concrete input: -32768.5 truncated downward to `short`
    with the relative-strong epsilon 2^-13 (tolerance 4) is equal to -32768 within epsilon; the unrepaired algorithm
    decremented first, wrapped around to 32767 and returned it -/
theorem truncOld_range_end :
    truncDownOldM int16 .relativeStrong Dy.trunc (Dy.mk2 (-65537) (-1)) (Dy.mk2 1 (-13)) = 32767 ∧
    truncM int16 .relativeStrong .downward Dy.trunc (Dy.mk2 (-65537) (-1)) (Dy.mk2 1 (-13)) = -32768 := by decide

-- outside the property: -1/2 truncated upward to `unsigned char` with the relative-strong epsilon 1024 is 1 (`T(lower+1)` =
-- T(256) is "equal" to -1/2, `return lower+1` converts 256 to 0, `ne(0, val)` holds, `++upper`).  The documented result
-- is the integer -1 (-1/2 is equal to -1 within that epsilon); `trunc_unsigned_neg_up` excludes the case by its
-- hypothesis on epsilon, the check prints `unrep` on both sides
example : truncM uint8 .relativeStrong .upward Dy.trunc (Dy.mk2 (-1) (-1)) (Dy.mk2 1 10) = 1 := by decide


/-! ## The functions the driver executes on exact inputs are the generic ones at `ℚ`

`eqRat`, `roundRat`, … are defined in Model/C17.lean with the instances of core Lean's `Rat` (that file cannot import
Mathlib).  Each statement below is an application of a field theorem to them: it type-checks only because the core
instances and Mathlib's ordered-field structure on `ℚ` are the same operations. -/

theorem trRat_eq (x : ℚ) : trRat x = if 0 ≤ x then ⌊x⌋ else ⌈x⌉ := by
  unfold trRat
  by_cases h : 0 ≤ x
  · have hn : 0 ≤ x.num := Rat.num_nonneg.mpr h
    rw [if_pos h, Rat.floor_def', Int.tdiv_eq_ediv_of_nonneg hn]
  · have hn : x.num < 0 := Rat.num_neg.mpr (not_le.mp h)
    rw [if_neg h]
    have hc : ⌈x⌉ = -⌊-x⌋ := by rw [Int.floor_neg, neg_neg]
    rw [hc, Rat.floor_def', Rat.num_neg_eq_neg_num, Rat.den_neg_eq_den]
    have : Int.tdiv x.num (x.den : Int) = -(Int.tdiv (-x.num) (x.den : Int)) := by rw [Int.neg_tdiv, neg_neg]
    rw [this, Int.tdiv_eq_ediv_of_nonneg (by omega)]

/-- the driver's float → integer conversion is truncation toward zero -/
theorem trRat_isTrunc : IsTrunc trRat := by
  have : trRat = trQ := by funext x; rw [trRat_eq]; rfl
  rw [this]; exact trQ_isTrunc

theorem rat_eq_def (s : Style) (a b e : ℚ) : eqRat s a b e = true ↔ |a - b| ≤ tol s a b e := eq_def s a b e
theorem rat_eq_symm (s : Style) (a b e : ℚ) : eqRat s a b e = eqRat s b a e := eq_symm s a b e
theorem rat_ne_not_eq (s : Style) (a b e : ℚ) : neRat s a b e = !eqRat s a b e := ne_not_eq s a b e
theorem rat_trichotomy (s : Style) (a b e : ℚ) (h : 0 ≤ e) :
    (ltRat s a b e = true ∧ eqRat s a b e = false ∧ gtRat s a b e = false) ∨
    (ltRat s a b e = false ∧ eqRat s a b e = true ∧ gtRat s a b e = false) ∨
    (ltRat s a b e = false ∧ eqRat s a b e = false ∧ gtRat s a b e = true) := trichotomy s a b e h
theorem rat_le_ge (s : Style) (a b e : ℚ) :
    leRat s a b e = (ltRat s a b e || eqRat s a b e) ∧ geRat s a b e = (gtRat s a b e || eqRat s a b e) :=
  ⟨le_iff_lt_or_eq s a b e, ge_iff s a b e⟩
theorem rat_vec_eq_conj (s : Style) (a b : List ℚ) (e : ℚ) :
    eqVecRat s a b e = true ↔ a.length = b.length ∧
      ∀ (i : Nat) (ha : i < a.length) (hb : i < b.length), eqRat s a[i] b[i] e = true := vec_eq_conj s a b e
theorem rat_fvec_eq_conj (s : Style) (a b : List ℚ) (e : ℚ) (h : a.length = b.length) :
    eqFVRat s a b e = true ↔ ∀ (i : Nat) (ha : i < a.length) (hb : i < b.length), eqRat s a[i] b[i] e = true :=
  fvec_eq_conj s a b e h
theorem rat_vec_trichotomy (s : Style) (a b : List ℚ) (e : ℚ) (h : 0 ≤ e) :
    (ltVecRat s a b e = true ∧ eqVecRat s a b e = false ∧ gtVecRat s a b e = false) ∨
    (ltVecRat s a b e = false ∧ eqVecRat s a b e = true ∧ gtVecRat s a b e = false) ∨
    (ltVecRat s a b e = false ∧ eqVecRat s a b e = false ∧ gtVecRat s a b e = true) := vec_trichotomy s a b e h
theorem rat_vec_le_ge (s : Style) (a b : List ℚ) (e : ℚ) :
    neVecRat s a b e = (!eqVecRat s a b e) ∧ leVecRat s a b e = (ltVecRat s a b e || eqVecRat s a b e) ∧
    geVecRat s a b e = (gtVecRat s a b e || eqVecRat s a b e) ∧ neFVRat s a b e = (!eqFVRat s a b e) :=
  ⟨vec_ne_not_eq s a b e, vec_le_iff s a b e, vec_ge_iff s a b e, fvec_ne_not_eq s a b e⟩
theorem rat_round_within (s : Style) (rs : RStyle) (x e : ℚ) (h0 : 0 ≤ e) :
    |((roundRat s rs x e : Int) : ℚ) - x| < 1 ∧
    (eqRat s ((roundRat s rs x e : Int) : ℚ) x e = true ∨ |((roundRat s rs x e : Int) : ℚ) - x| ≤ 1 / 2 + e / 2) :=
  round_within s rs trRat_isTrunc x e h0
theorem rat_round_nearest (s : Style) (rs : RStyle) (x e : ℚ) (l : Int)
    (hl : (l : ℚ) < x) (hu : x < (l : ℚ) + 1) (hne : eqRat s ((trRat x : Int) : ℚ) x e = false)
    (hnt : eqRat s (x - (l : ℚ)) ((l : ℚ) + 1 - x) e = false) :
    roundRat s rs x e = if x - (l : ℚ) < (l : ℚ) + 1 - x then l else l + 1 :=
  round_nearest s rs trRat_isTrunc x e l hl hu hne hnt
theorem rat_round_tie (s : Style) (rs : RStyle) (x e : ℚ) (l : Int)
    (hl : (l : ℚ) < x) (hu : x < (l : ℚ) + 1) (hne : eqRat s ((trRat x : Int) : ℚ) x e = false)
    (ht : eqRat s (x - (l : ℚ)) ((l : ℚ) + 1 - x) e = true) :
    roundRat s rs x e = tieChoice rs x l := round_tie s rs trRat_isTrunc x e l hl hu hne ht
theorem rat_trunc_spec (s : Style) (x e : ℚ) (l : Int) (h0 : 0 ≤ e) (hl : (l : ℚ) ≤ x) (hu : x < (l : ℚ) + 1) :
    truncRat s false .downward x e = (if (l : ℚ) = x then l else if eqRat s ((l : ℚ) + 1) x e then l + 1 else l) ∧
    truncRat s false .upward x e =
      (if (l : ℚ) = x then l else if eqRat s ((l : ℚ) + 1) x e then l + 1 else if eqRat s (l : ℚ) x e then l else l + 1) :=
  ⟨trunc_downward_spec s trRat_isTrunc x e l hl hu, trunc_upward_spec s trRat_isTrunc x e l h0 hl hu⟩
theorem rat_trunc_int (s : Style) (rs : RStyle) (n : Int) (e : ℚ) (h0 : 0 ≤ e) : truncRat s false rs (n : ℚ) e = n :=
  trunc_int s rs trRat_isTrunc n e h0
theorem rat_trunc_unsigned (s : Style) (rs : RStyle) (x e : ℚ) :
    (eqRat s x 0 e = true → truncRat s true rs x e = 0) ∧
    (eqRat s x 0 e = false → truncRat s true rs x e = truncRat s false rs x e) :=
  ⟨trunc_unsigned_zero s rs trRat x e, trunc_unsigned_eq_signed s rs trRat x e⟩

/-- the op lines `round` / `trunc` are evaluated with `roundRatM t` / `truncRatM t` (integer type `t` explicit).  For a
    signed `t`, and for an unsigned `t` with a non-negative argument whose integer part plus 2 is a value of `t`, these
    are `roundRat` / `truncRat`, about which the theorems above speak -/
theorem rat_roundM_truncM_eq (t : IType) (s : Style) (rs : RStyle) (x e : ℚ)
    (h : (t.signed = true ∧ 32 ≤ t.bits) ∨
         (0 < t.bits ∧ t.fits (trRat x - 1) = true ∧ t.fits (trRat x + 2) = true ∧ t.fits 1 = true) ∨
         (t.signed = false ∧ 0 ≤ x ∧ trRat x + 2 < 2 ^ t.bits)) :
    roundRatM t s rs x e = roundRat s rs x e ∧ truncRatM t s rs x e = truncRat s (!t.signed) rs x e :=
  have hw := noWrap_cases t trRat_isTrunc x h
  ⟨roundM_eq_round t s rs x e hw, truncM_eq_trunc t s rs x e hw⟩
/-- … and for an unsigned `t` and an argument in (-1,0), upward / toward zero, `trunc` gives 0 -/
theorem rat_trunc_unsigned_neg_up (t : IType) (ht : t.signed = false) (hb : 0 < t.bits) (s : Style) (rs : RStyle)
    (hrs : rs = .upward ∨ rs = .towardZero) (x e : ℚ) (hx1 : -1 < x) (hx0 : x < 0)
    (hs : s = .relativeStrong → e * (-x) < (((2 : Int) ^ t.bits - 1 : Int) : ℚ) - x) :
    truncRatM t s rs x e = 0 := trunc_unsigned_neg_up t ht hb s rs hrs trRat_isTrunc x e hx1 hx0 hs
theorem rat_round_unsigned_neg (t : IType) (ht : t.signed = false) (hb : 0 < t.bits) (s : Style) (rs : RStyle)
    (x e : ℚ) (h0 : 0 ≤ e) (hx1 : -1 < x) (hx0 : x < 0) :
    (roundRat s rs x e = 0 ∧ roundRatM t s rs x e = 0) ∨
    (roundRat s rs x e = -1 ∧ roundRatM t s rs x e = 2 ^ t.bits - 1) :=
  round_unsigned_neg t ht hb s rs trRat_isTrunc x e h0 hx1 hx0
theorem rat_trunc_of_fits_nonneg (t : IType) (hb : 0 < t.bits) (s : Style) (rs : RStyle) (x e : ℚ) (hx : 0 ≤ x)
    (ha : t.bits < 32 ∨ t.fits (trRat x + 1) = true) (h0 : t.fits (trRat x) = true)
    (hD : t.fits (truncRat s (!t.signed) rs x e) = true) :
    truncRatM t s rs x e = truncRat s (!t.signed) rs x e :=
  trunc_of_fits_nonneg t hb s rs trRat_isTrunc x e hx ha h0 hD
/-- the op line `round` for every target type: a representable mathematical result is returned (range ends included) -/
theorem rat_round_of_fits (t : IType) (hb : 0 < t.bits) (s : Style) (rs : RStyle) (x e : ℚ)
    (h0 : t.fits (trRat x) = true) (hr : t.fits (roundRat s rs x e) = true) :
    roundRatM t s rs x e = roundRat s rs x e := round_of_fits t hb s rs trRat x e h0 hr

-- the driver's own evaluation of `trunc f64 u8 absolute towardZero -1:-1 1:-3` is 0; without the hypothesis on epsilon of
-- the relative-strong style the result can be the largest value: `trunc f64 u8 relativeStrong upward -1:-1 1:10`
example : truncRatM uint8 .absolute .towardZero (-1/2) (1/8) = 0 :=
  rat_trunc_unsigned_neg_up uint8 rfl (by decide) .absolute .towardZero (Or.inr rfl) _ _ (by norm_num) (by norm_num) (fun h => by cases h)

-- the driver's own evaluation of `cmp f64 relativeWeak 1:0 3:-1 1:-1` and `round f64 i32 absolute upward 5:-1 1:-10`
example : eqRat .relativeWeak 1 (3/2) (1/2) = true := by rw [rat_eq_def]; norm_num [tol, abs_of_pos, abs_of_neg]
example : trRat (-5/2) = -2 ∧ trRat (5/2) = 2 := by
  constructor <;> (rw [trRat_eq]; norm_num)

/-! ## The comparison algebra in the rounding arithmetic of a floating-point format

`FP f` = the finite numbers of the binary format `f` (as integer multiples of its smallest subnormal) plus ±∞ and NaN;
`-`, `*`, the conversions and the order are the IEEE 754 operations with round-to-nearest-even (Model/C17/Base.lean;
executed by the driver against `float`, `double`, `long double` and the 8-bit class on arbitrary finite inputs).
The statements hold for EVERY format and ALL finite operands, with a finite non-negative epsilon where the real-number
version needs `0 ≤ ε` — overflow of `a-b` or of `ε·max(|a|,|b|)` to infinity included. -/

section floating
variable {f : Fmt}

/-- equality is symmetric (every style, every epsilon, all finite operands of every format) -/
theorem fp_eq_symm (s : Style) (a b : Int) (e : FP f) :
    eqS s (.fin a : FP f) (.fin b) e = eqS s (.fin b) (.fin a) e := FP.eqS_symm s a b e

/-- equality is reflexive for a finite non-negative epsilon -/
theorem fp_eq_refl (s : Style) (a m : Int) (hm : 0 ≤ m) : eqS s (.fin a : FP f) (.fin a) (.fin m) = true :=
  FP.eqS_refl s a m hm

theorem fp_ne_not_eq (s : Style) (a b e : FP f) : neS s a b e = !eqS s a b e := rfl

/-- exactly one of less / equal / greater holds -/
theorem fp_trichotomy (s : Style) (a b m : Int) (hm : 0 ≤ m) :
    let x : FP f := .fin a; let y : FP f := .fin b; let e : FP f := .fin m
    (ltS s x y e = true ∧ eqS s x y e = false ∧ gtS s x y e = false) ∨
    (ltS s x y e = false ∧ eqS s x y e = true ∧ gtS s x y e = false) ∨
    (ltS s x y e = false ∧ eqS s x y e = false ∧ gtS s x y e = true) := FP.trichotomy s a b m hm

theorem fp_le_ge (s : Style) (a b e : FP f) :
    leS s a b e = (ltS s a b e || eqS s a b e) ∧ geS s a b e = (gtS s a b e || eqS s a b e) := by
  constructor
  · simp only [leS, ltS, Gen.le, Gen.lt, Gen.ne]
    cases decide (a < b) <;> cases eqS s a b e <;> rfl
  · simp only [geS, gtS, Gen.ge, Gen.gt, Gen.ne]
    cases decide (a > b) <;> cases eqS s a b e <;> rfl

theorem fp_lt_iff_gt_swap (s : Style) (a b : Int) (e : FP f) :
    ltS s (.fin a : FP f) (.fin b) e = gtS s (.fin b) (.fin a) e := by
  simp only [ltS, gtS, Gen.lt, Gen.gt, Gen.ne, fp_eq_symm s a b e]

/-- `std::vector` / `FieldVector` of finite numbers: equality is the conjunction over the components -/
theorem fp_vec_eq_conj (s : Style) (a b : List (FP f)) (e : FP f) :
    (eqVec s a b e = true ↔ a.length = b.length ∧
      ∀ (i : Nat) (ha : i < a.length) (hb : i < b.length), eqS s a[i] b[i] e = true) ∧
    (a.length = b.length → (eqFV s a b e = true ↔
      ∀ (i : Nat) (ha : i < a.length) (hb : i < b.length), eqS s a[i] b[i] e = true)) :=
  ⟨eqVec_iff s a b e, eqLoop_iff s e a b⟩

theorem fp_vec_eq_symm (s : Style) (a b : List Int) (e : FP f) :
    eqVec s (a.map (FP.fin (f := f))) (b.map FP.fin) e = eqVec s (b.map FP.fin) (a.map FP.fin) e := by
  apply eqVec_symm_of
  intro x hx y hy
  obtain ⟨p, _, rfl⟩ := List.mem_map.mp hx
  obtain ⟨q, _, rfl⟩ := List.mem_map.mp hy
  exact FP.eqS_symm s p q e

/-- vectors of finite numbers under the lexicographic order: exactly one of less / equal / greater -/
theorem fp_vec_trichotomy (s : Style) (a b : List Int) (m : Int) (hm : 0 ≤ m) :
    let x : List (FP f) := a.map FP.fin; let y : List (FP f) := b.map FP.fin; let e : FP f := .fin m
    (ltVec s x y e = true ∧ eqVec s x y e = false ∧ gtVec s x y e = false) ∨
    (ltVec s x y e = false ∧ eqVec s x y e = true ∧ gtVec s x y e = false) ∨
    (ltVec s x y e = false ∧ eqVec s x y e = false ∧ gtVec s x y e = true) := by
  intro x y e
  apply vec_trichotomy_of
  · intro p hp q hq
    obtain ⟨p', _, rfl⟩ := List.mem_map.mp hp
    obtain ⟨q', _, rfl⟩ := List.mem_map.mp hq
    exact FP.tri_fin p' q'
  · intro p hp
    obtain ⟨p', _, rfl⟩ := List.mem_map.mp hp
    exact FP.eqS_refl s p' m hm

theorem fp_vec_le_ge (s : Style) (a b : List (FP f)) (e : FP f) :
    neVec s a b e = (!eqVec s a b e) ∧ leVec s a b e = (ltVec s a b e || eqVec s a b e) ∧
    geVec s a b e = (gtVec s a b e || eqVec s a b e) := by
  refine ⟨rfl, ?_, ?_⟩
  · simp only [leVec, ltVec, neVec]
    cases lexLt a b <;> cases eqVec s a b e <;> rfl
  · simp only [geVec, gtVec, neVec]
    cases lexLt b a <;> cases eqVec s a b e <;> rfl

/-- `round` and `trunc` of an integer-valued floating-point number return it, in every comparison / rounding style, for
    every magnitude — in particular from `2^digits` on, where every number of the format is an integer but `i+1` need
    not be one (`T(lower+1)` rounds back to the argument: the defect repaired by fixes/C17_trunc_large.patch) -/
theorem fp_round_trunc_int (s : Style) (rs : RStyle) (n i m : Int) (hm : 0 ≤ m)
    (hT : ((i : Int) : FP f) = .fin n) (hI : FP.trunc (.fin n : FP f) = i) :
    round s rs FP.trunc (.fin n : FP f) (.fin m) = i ∧ trunc s false rs FP.trunc (.fin n : FP f) (.fin m) = i :=
  FP.round_trunc_int s rs n i m hm hT hI

/-- the same for the functions the driver executes (`roundM` / `truncM`), signed target types in which nothing wraps
    around (`int`, `long`; the narrow ones when `i-1 … i+2` are values of the type) -/
theorem fp_roundM_truncM_int (t : IType) (ht : t.signed = true) (s : Style) (rs : RStyle) (n i m : Int) (hm : 0 ≤ m)
    (hT : ((i : Int) : FP f) = .fin n) (hI : FP.trunc (.fin n : FP f) = i)
    (hw : NoWrap t FP.trunc (.fin n : FP f)) :
    roundM t s rs FP.trunc (.fin n : FP f) (.fin m) = i ∧ truncM t s rs FP.trunc (.fin n : FP f) (.fin m) = i := by
  have h := fp_round_trunc_int s rs n i m hm hT hI
  rw [roundM_eq s rs _ hw, truncM_eq s rs _ hw, ht]
  exact h

/-- in the rounding arithmetic too, `round` returns the mathematical result whenever it and `I(val)` are values of the
    target type (every type, range ends included) -/
theorem fp_round_of_fits (t : IType) (hb : 0 < t.bits) (s : Style) (rs : RStyle) (x e : FP f)
    (h0 : t.fits (FP.trunc x) = true) (hr : t.fits (round s rs FP.trunc x e) = true) :
    roundM t s rs FP.trunc x e = round s rs FP.trunc x e := by
  rw [roundM_eq_wrap s rs FP.trunc x e (IType.wrap_of_fits hb _ h0), IType.wrap_of_fits hb _ hr]

/-- … and so does `trunc` wherever `lower` is not decremented (`T(I(val))` is not above `val`) and the expression `lower+1`
    does not wrap — in particular at the upper end of the range of the narrow types -/
theorem fp_trunc_of_fits_nodec (t : IType) (hb : 0 < t.bits) (s : Style) (rs : RStyle) (x e : FP f)
    (hnd : ¬ ((FP.trunc x : Int) : FP f) > x) (ha : t.arith (FP.trunc x + 1) = FP.trunc x + 1)
    (h0 : t.fits (FP.trunc x) = true) (hD : t.fits (trunc s (!t.signed) rs FP.trunc x e) = true) :
    truncM t s rs FP.trunc x e = trunc s (!t.signed) rs FP.trunc x e :=
  truncM_of_fits_nodec hb s rs e hnd ha h0 hD

end floating

-- the 8-bit format (grid unit 2^-9): 1 = 512, 1.125 = 576 (the next number after 1), epsilon 0.125 = 64, 0.0625 = 32.
-- |1 - 1.125| = 0.125 ≤ 0.125 · 1.125 = 0.140625 → rounds to 0.140625 (72 units): equal; with epsilon 0.0625 not equal, less.
example : eqS .relativeWeak (.fin 512 : FP Fmt.mf8) (.fin 576) (.fin 64) = true := by decide
example : eqS .relativeWeak (.fin 512 : FP Fmt.mf8) (.fin 576) (.fin 32) = false ∧
    ltS .relativeWeak (.fin 512 : FP Fmt.mf8) (.fin 576) (.fin 32) = true := by decide
-- rounding matters: 1.125 · 0.1875 = 0.2109375 (108 units) is not a number of the format; it lies half way between
-- 0.203125 (104 units) and 0.21875 (112 units) and goes to the one with the even significand
example : ((.fin 576 : FP Fmt.mf8) * (.fin 96 : FP Fmt.mf8)) = .fin 112 := by decide
-- overflow: 240 - (-240) = +∞ and 2 · 240 = +∞, the laws still hold (eq is true: ∞ ≤ ∞)
example : ((.fin 122880 : FP Fmt.mf8) - (.fin (-122880) : FP Fmt.mf8)) = .inf false ∧
    eqS .relativeWeak (.fin 122880 : FP Fmt.mf8) (.fin (-122880)) (.fin 1024) = true := by decide
-- the 8-bit format: 16 = 8192 units is an integer, 17 is not a number of the format (T(17) = 16), absolute epsilon 0:
-- the hypotheses of `fp_round_trunc_int` hold and trunc returns 16 (the unrepaired code returned 17)
example : (((16 : Int) : FP Fmt.mf8) = .fin 8192 ∧ ((17 : Int) : FP Fmt.mf8) = .fin 8192 ∧ FP.trunc (.fin 8192 : FP Fmt.mf8) = 16) ∧
    trunc .absolute false .downward FP.trunc (.fin 8192 : FP Fmt.mf8) (.fin 0) = 16 := by decide
-- binary32: 1 and the next float above it compare equal with the default epsilon 2^-20 (grid unit 2^-149)
example : eqS .relativeWeak (.fin (2 ^ 149) : FP Fmt.f32) (.fin (2 ^ 149 + 2 ^ 126)) (.fin (2 ^ 129)) = true := by decide

/-! ## power, factorial, binomial, sign, classifiers -/

/-- `power(m,p)` over a field (floating-point `Base`): the integer power, negative exponents included -/


theorem power_eq_zpow {F : Type} [Field F] (m : F) (p : Int) : powerK m p = m ^ p := by
  unfold powerK
  rcases Int.eq_nat_or_neg p with ⟨n, rfl | rfl⟩
  · have : ¬ ((n : Int) < 0) := by omega
    simp [this, powLoopK_eq]
  · by_cases hn : n = 0
    · subst hn; simp [powLoopK]
    · have hpos : 0 < n := Nat.pos_of_ne_zero hn
      simp [hpos, powLoopK_eq]


/-- `power(m,p)`, integer `Base`, `p ≥ 0`: every intermediate product is representable exactly when the result is,
    and then the result is `m^p`; otherwise the computation overflows -/
theorem power_eq_pow (t te : IType) (m : Int) (p : Nat) (h1 : t.fits 1 = true) (hm : t.fits m = true) :
    powerI t te m (p : Int) = if t.fits (m ^ p) then some (m ^ p) else none := powerI_nat t te m p h1 hm

example : powerI int32 int32 (-2) 31 = some (-2147483648) := by decide
example : powerI int32 int32 2 31 = none := by decide

/-- `factorial(n)`: `n!` exactly when it is representable -/
theorem factorial_eq (t : IType) (n : Nat) (h1 : t.fits 1 = true) :
    factorial t (n : Int) = if t.fits ((n ! : Nat) : Int) then some ((n ! : Nat) : Int) else none := by
  have e : factorial t (n : Int) = factLoop t n ((0 : Nat) : Int) (((0 ! : Nat)) : Int) := by simp [factorial]
  rw [e]
  cases hf : t.fits ((n ! : Nat) : Int)
  · have := factLoop_none t n 0 (by simpa using h1) (by simpa using hf)
    simpa using this
  · have := factLoop_spec t h1 n 0 (by simpa using hf)
    simpa using this

theorem factorial_neg (t : IType) (n : Int) (h : n < 0) : factorial t n = some 1 := by
  have : n.toNat = 0 := by omega
  simp [factorial, this, factLoop]

example : factorial int64 20 = some 2432902008176640000 := by decide
example : factorial int64 21 = none := by decide

/-- `binomial(n,k)` for `0 ≤ k ≤ n`: the binomial coefficient exactly when it is representable -/
theorem binomial_eq_choose (t : IType) (n k : Nat) (hk : k ≤ n) (h1 : t.fits 1 = true) (hn : t.fits (n : Int) = true) :
    binomial t (n : Int) (k : Int) =
      if t.fits ((n.choose k : Nat) : Int) then some ((n.choose k : Nat) : Int) else none := binomial_nat t n k hk h1 hn

/-- no intermediate value of `binomial` leaves the type when the result is representable
    (the model returns `some` only if every intermediate passed `chk`) -/
theorem binomial_no_overflow (t : IType) (n k : Nat) (hk : k ≤ n) (h1 : t.fits 1 = true) (hn : t.fits (n : Int) = true)
    (hc : t.fits ((n.choose k : Nat) : Int) = true) :
    binomial t (n : Int) (k : Int) = some ((n.choose k : Nat) : Int) := by
  rw [binomial_eq_choose t n k hk h1 hn, hc]; rfl

example : binomial int32 18 9 = some 48620 := by decide
example : binomial int32 2147483647 2147483646 = some 2147483647 := by decide

/-- the algorithm of the unrepaired tree overflows on representable results (DESIGN.md section 6 #15):
    `binomial(18,9)` in `int`, and `binomial(26,13)` through `factorial(13)` -/
theorem binomialOld_overflows : binomialOld int32 18 9 = none ∧ binomialOld int32 26 13 = none ∧
    int32.fits (((18 : Nat).choose 9 : Nat) : Int) = true := by decide

theorem binomial_symm (t : IType) (n k : Nat) (hk : k ≤ n) (h1 : t.fits 1 = true) (hn : t.fits (n : Int) = true) :
    binomial t (n : Int) (k : Int) = binomial t (n : Int) ((n : Int) - (k : Int)) := by
  have e : (n : Int) - (k : Int) = ((n - k : Nat) : Int) := by omega
  rw [e, binomial_nat t n k hk h1 hn, binomial_nat t n (n - k) (by omega) h1 hn, Nat.choose_symm hk]

theorem pascal (t : IType) (n k : Nat) (hk : k + 1 ≤ n) (h1 : t.fits 1 = true)
    (hn : t.fits ((n : Int) + 1) = true) (hc : t.fits (((n + 1).choose (k + 1) : Nat) : Int) = true) :
    ∃ a b : Int, binomial t (n : Int) (k : Int) = some a ∧ binomial t (n : Int) ((k : Int) + 1) = some b ∧
      binomial t ((n : Int) + 1) ((k : Int) + 1) = some (a + b) := by
  have h0 := fits_zero_of_one h1
  have hn' : t.fits (n : Int) = true := fits_between h0 hn (by omega) (by omega)
  have hsum : (n + 1).choose (k + 1) = n.choose k + n.choose (k + 1) := Nat.choose_succ_succ n k
  have fa : t.fits ((n.choose k : Nat) : Int) = true :=
    fits_between h0 hc (by exact_mod_cast Nat.zero_le _) (by exact_mod_cast (by omega : n.choose k ≤ (n + 1).choose (k + 1)))
  have fb : t.fits ((n.choose (k + 1) : Nat) : Int) = true :=
    fits_between h0 hc (by exact_mod_cast Nat.zero_le _) (by exact_mod_cast (by omega : n.choose (k + 1) ≤ (n + 1).choose (k + 1)))
  refine ⟨(n.choose k : Nat), (n.choose (k + 1) : Nat), ?_, ?_, ?_⟩
  · rw [binomial_nat t n k (by omega) h1 hn', fa]; rfl
  · have := binomial_nat t n (k + 1) hk h1 hn'
    rw [fb] at this; simpa using this
  · have := binomial_nat t (n + 1) (k + 1) (by omega) h1 (by simpa using hn)
    rw [hc] at this
    simp only [if_true] at this
    rw [hsum] at this
    simpa using this

theorem binomial_outside (t : IType) (n k : Int) (h : k < 0 ∨ k > n) : binomial t n k = some 0 := by
  simp [binomial, h]

-- the hypotheses of `pascal` / `binomial_symm` at the top of the 32-bit range: C(33,16) = 1166803110 < 2^31 ≤ C(34,17)
example : binomial int32 32 15 = some 565722720 ∧ binomial int32 32 16 = some 601080390 ∧
    binomial int32 33 16 = some (565722720 + 601080390) ∧ binomial int32 33 17 = binomial int32 33 16 ∧
    binomial int32 34 17 = none ∧ binomial int32 (-1) 0 = some 0 ∧ binomial uint64 67 33 = some 14226520737620288370 := by decide

section sign
variable {K : Type} [Ring K] [LinearOrder K] [IsStrictOrderedRing K]
/-- `sign` over any ordered ring (the integers and every ordered field): -1 exactly for negative arguments, else 1,
    and `sign x · |x| = x` -/
theorem sign_spec (x : K) :
    (signK x = -1 ↔ x < 0) ∧ (signK x = 1 ↔ 0 ≤ x) ∧ ((signK x : Int) : K) * |x| = x := by
  unfold signK
  by_cases h : x < 0
  · simp [h, abs_of_neg h, not_le.mpr h]
  · have h' : 0 ≤ x := not_lt.mp h
    simp [h, abs_of_nonneg h', h']
end sign

example : signK (-3 : Int) = -1 ∧ signK (0 : Int) = 1 ∧ signK (7/2 : ℚ) = 1 := by
  refine ⟨(sign_spec (-3 : Int)).1.mpr (by norm_num), (sign_spec (0 : Int)).2.1.mpr (le_refl _), (sign_spec (7/2 : ℚ)).2.1.mpr (by norm_num)⟩


theorem isNaN_any {α} (f : α → Bool) (v : List α) : isNaNV f v = v.any f := by simp [isNaNV, foldl_or]
theorem isInf_any {α} (f : α → Bool) (v : List α) : isInfV f v = v.any f := by simp [isInfV, foldl_or]
theorem isFinite_all {α} (f : α → Bool) (v : List α) : isFiniteV f v = v.all f := by simp [isFiniteV, foldl_and]

theorem isFinite_iff_not_nan_inf (v : List FpClass) :
    isFiniteV isFinite1 v = (!isNaNV isNaN1 v && !isInfV isInf1 v) := by
  rw [isFinite_all, isNaN_any, isInf_any]
  induction v with
  | nil => simp
  | cons c cs ih =>
    simp only [List.all_cons, List.any_cons, ih]
    cases c <;> cases cs.any isNaN1 <;> cases cs.any isInf1 <;> decide

theorem complex_classifiers (z : FpClass × FpClass) :
    isNaNC z = [z.1, z.2].any isNaN1 ∧ isInfC z = [z.1, z.2].any isInf1 ∧ isFiniteC z = [z.1, z.2].all isFinite1 := by
  simp [isNaNC, isInfC, isFiniteC]

/-- `isUnordered(FieldVector<K,1>, FieldVector<K,1>)`: true iff one of the two numbers is NaN -/
theorem isUnordered_any (a b : FpClass) : isUnordered1 a b = [a, b].any isNaN1 := by
  simp [isUnordered1]

-- binary32 bit patterns: 0x7fc00000 is a NaN, 0x7f800000 is +∞, 0x3f800000 is 1.0
example : isNaNV isNaN1 [classify 8 23 0x3f800000, classify 8 23 0x7fc00000] = true ∧
    isInfV isInf1 [classify 8 23 0x3f800000, classify 8 23 0x7f800000] = true ∧
    isFiniteV isFinite1 [classify 8 23 0x3f800000, classify 8 23 0x7f800000] = false ∧
    isFiniteV isFinite1 [classify 8 23 0x3f800000, classify 8 23 0x00000001] = true := by decide


/-! ## Round four: the regenerated rounding-style dispatch and the vector overloads of round / trunc

`Gen/C17RT.lean` and `Gen/C17Vec.lean` are regenerated from float_cmp.cc on every run.  The theorems of this section are
stated about those generated definitions: an edit of the dispatch (`if(val > T(0)) return round_t<…,downward>… else …upward…`)
or of a component loop (bounds, the specialisation called, the styles / epsilon passed on, the helper a vector
specialisation derives from) changes what Lean has to prove here. -/

section roundfour_tie
variable {K : Type} [Zero K] [Neg K] [Sub K] [Mul K] [LT K] [LE K] [DecidableLT K] [DecidableLE K] [IntCast K] [Add K]

/-- the model's `round` for `towardZero` / `towardInf` is the dispatch read from the source, for every scalar type -/
theorem round_dispatch_tied (s : Style) (tr : K → Int) (x e : K) :
    round s .towardZero tr x e = GenRT.round_towardZero.run (fun rs => round s rs tr) x e ∧
    round s .towardInf tr x e = GenRT.round_towardInf.run (fun rs => round s rs tr) x e := dispatch_round s tr x e

theorem trunc_dispatch_tied (s : Style) (uns : Bool) (tr : K → Int) (x e : K) :
    trunc s uns .towardZero tr x e = GenRT.trunc_towardZero.run (fun rs => trunc s uns rs tr) x e ∧
    trunc s uns .towardInf tr x e = GenRT.trunc_towardInf.run (fun rs => trunc s uns rs tr) x e := dispatch_trunc s uns tr x e

/-- … and so are the machine-integer versions the driver executes -/
theorem roundM_dispatch_tied (t : IType) (s : Style) (tr : K → Int) (x e : K) :
    roundM t s .towardZero tr x e = GenRT.round_towardZero.run (fun rs => roundM t s rs tr) x e ∧
    roundM t s .towardInf tr x e = GenRT.round_towardInf.run (fun rs => roundM t s rs tr) x e := dispatch_roundM t s tr x e

theorem truncM_dispatch_tied (t : IType) (s : Style) (tr : K → Int) (x e : K) :
    truncM t s .towardZero tr x e = GenRT.trunc_towardZero.run (fun rs => truncM t s rs tr) x e ∧
    truncM t s .towardInf tr x e = GenRT.trunc_towardInf.run (fun rs => truncM t s rs tr) x e := dispatch_truncM t s tr x e

/-- the dispatching specialisations forward to `downward` / `upward` only (no recursion between them) -/
theorem dispatch_no_recursion :
    ∀ d ∈ [GenRT.round_towardZero, GenRT.round_towardInf, GenRT.trunc_towardZero, GenRT.trunc_towardInf],
      (d.thenStyle = .downward ∨ d.thenStyle = .upward) ∧ (d.elseStyle = .downward ∨ d.elseStyle = .upward) :=
  dispatch_targets_base

-- -5/2 with absolute epsilon 1/8: toward zero -2, toward infinity -3 (a tie, so the direction decides)
example : GenRT.round_towardZero.run (fun rs => roundM int32 .absolute rs Dy.trunc) (Dy.mk2 (-5) (-1)) (Dy.mk2 1 (-3)) = -2 ∧
    GenRT.round_towardInf.run (fun rs => roundM int32 .absolute rs Dy.trunc) (Dy.mk2 (-5) (-1)) (Dy.mk2 1 (-3)) = -3 ∧
    GenRT.trunc_towardZero.run (fun rs => truncM int32 .absolute rs Dy.trunc) (Dy.mk2 (-5) (-1)) (Dy.mk2 1 (-3)) = -2 ∧
    GenRT.trunc_towardInf.run (fun rs => truncM int32 .absolute rs Dy.trunc) (Dy.mk2 (-5) (-1)) (Dy.mk2 1 (-3)) = -3 := by decide

end roundfour_tie

section roundfour_eqvec
variable {K : Type} [Zero K] [Neg K] [Sub K] [Mul K] [LT K] [LE K] [DecidableLT K] [DecidableLE K]

/-- **the vector comparisons regenerated from float_cmp.cc** (`Gen/C17EqVec.lean`: size test, loop bounds, the component
    comparison called with which style / operands / epsilon, the helper each `eq_t<vector, style>` derives from) **are the model's
    `eqVec` / `eqFV`**, about which `vec_eq_conj`, `fvec_eq_conj`, `vec_trichotomy`, `fp_vec_*` … are stated — every scalar
    type, every length -/
theorem vec_eq_tied (s : Style) (a b : List K) (e : K) :
    GenEqVec.eq_std_vec eqS s a b e = eqVec s a b e ∧
    (a.length = b.length → GenEqVec.eq_fvec eqS s a b e = eqFV s a b e) := eqvec_tied s a b e

example : GenEqVec.eq_std_vec eqS .absolute [Dy.mk2 1 0, Dy.mk2 3 (-1)] [Dy.mk2 1 0, Dy.mk2 13 (-3)] (Dy.mk2 1 (-2)) = true ∧
    GenEqVec.eq_std_vec eqS .absolute [Dy.mk2 1 0, Dy.mk2 3 (-1)] [Dy.mk2 1 0, Dy.mk2 3 (-1), Dy.mk2 0 0] (Dy.mk2 1 (-2)) = false ∧
    GenEqVec.eq_fvec eqS .relativeStrong [Dy.mk2 1 0, Dy.mk2 3 (-1)] [Dy.mk2 1 0, Dy.mk2 2 0] (Dy.mk2 1 (-3)) = false := by decide

end roundfour_eqvec

section roundfour_vec

/-- **vector round / trunc = the scalar function applied to every component** — `std::vector` and `FieldVector`, every
    rounding style, every length, every scalar type, whatever the component functions are
    (after fixes/C17_vector_round_trunc.patch; before it these overloads cannot be instantiated) -/
theorem vec_round_trunc_eq_map {K : Type} [Zero K] (round_t trunc_t : Style → RStyle → K → K → Int) (cs : Style) (rs : RStyle)
    (v : List K) (e : K) :
    GenVec.round_std_vec round_t trunc_t cs rs v e = v.map (fun x => round_t cs rs x e) ∧
    GenVec.round_fvec round_t trunc_t cs rs v e = v.map (fun x => round_t cs rs x e) ∧
    GenVec.trunc_std_vec round_t trunc_t cs rs v e = v.map (fun x => trunc_t cs rs x e) ∧
    GenVec.trunc_fvec round_t trunc_t cs rs v e = v.map (fun x => trunc_t cs rs x e) := vec_eq_map round_t trunc_t cs rs v e

example : GenVec.round_std_vec (fun s rs x e => roundM int32 s rs Dy.trunc x e) (fun s rs x e => truncM int32 s rs Dy.trunc x e)
      .absolute .downward [Dy.mk2 1 (-1), Dy.mk2 (-5) (-1), Dy.mk2 3 0] (Dy.mk2 1 (-3)) = [0, -3, 3] ∧
    GenVec.trunc_fvec (fun s rs x e => roundM uint8 s rs Dy.trunc x e) (fun s rs x e => truncM uint8 s rs Dy.trunc x e)
      .absolute .upward [Dy.mk2 1 (-1), Dy.mk2 (-1) (-1), Dy.mk2 3 0] (Dy.mk2 1 (-3)) = [1, 0, 3] := by decide

variable {K : Type} [Field K] [LinearOrder K] [IsStrictOrderedRing K]

/-- the scalar specialisations as the vector loops see them -/
abbrev roundT (tr : K → Int) : Style → RStyle → K → K → Int := fun s rs x e => round s rs tr x e
abbrev truncT (uns : Bool) (tr : K → Int) : Style → RStyle → K → K → Int := fun s rs x e => trunc s uns rs tr x e
abbrev roundMT (t : IType) (tr : K → Int) : Style → RStyle → K → K → Int := fun s rs x e => roundM t s rs tr x e
abbrev truncMT (t : IType) (tr : K → Int) : Style → RStyle → K → K → Int := fun s rs x e => truncM t s rs tr x e

/-- **vector round: every component of the result is within the documented distance of the corresponding component of the
    argument** (`round_within` lifted through the regenerated loops; all lengths) -/
theorem vec_round_within (s : Style) (rs : RStyle) {tr : K → Int} (htr : IsTrunc tr) (v : List K) (e : K) (h0 : 0 ≤ e) :
    let P := fun (x : K) (r : Int) => |((r : Int) : K) - x| < 1 ∧ (eqS s ((r : Int) : K) x e = true ∨ |((r : Int) : K) - x| ≤ 1 / 2 + e / 2)
    Componentwise P v (GenVec.round_std_vec (roundT tr) (truncT false tr) s rs v e) ∧
    Componentwise P v (GenVec.round_fvec (roundT tr) (truncT false tr) s rs v e) := by
  intro P
  obtain ⟨h1, h2, _, _⟩ := vec_eq_map (roundT tr) (truncT false tr) s rs v e
  rw [h1, h2]
  exact ⟨componentwise_map P _ v (fun x _ => round_within s rs htr x e h0),
         componentwise_map P _ v (fun x _ => round_within s rs htr x e h0)⟩

/-- **vector trunc: every component is `⌊x⌋` or `⌊x⌋+1` of its argument component, `x-1 < r ≤ x+1`** -/
theorem vec_trunc_within (s : Style) (rs : RStyle) {tr : K → Int} (htr : IsTrunc tr) (v : List K) (e : K) (h0 : 0 ≤ e) :
    let P := fun (x : K) (r : Int) => (r = floorOf tr x ∨ r = floorOf tr x + 1) ∧ x - 1 < ((r : Int) : K) ∧ ((r : Int) : K) ≤ x + 1
    Componentwise P v (GenVec.trunc_std_vec (roundT tr) (truncT false tr) s rs v e) ∧
    Componentwise P v (GenVec.trunc_fvec (roundT tr) (truncT false tr) s rs v e) := by
  intro P
  obtain ⟨_, _, h3, h4⟩ := vec_eq_map (roundT tr) (truncT false tr) s rs v e
  rw [h3, h4]
  exact ⟨componentwise_map P _ v (fun x _ => trunc_within s rs htr x e h0),
         componentwise_map P _ v (fun x _ => trunc_within s rs htr x e h0)⟩

/-- the vector overloads with the integer target type explicit (what the driver executes) are the mathematical ones whenever
    nothing wraps around in any component (`noWrap_cases`) -/
theorem vec_roundM_truncM_eq (t : IType) (s : Style) (rs : RStyle) {tr : K → Int} (v : List K) (e : K)
    (h : ∀ x ∈ v, NoWrap t tr x) :
    GenVec.round_std_vec (roundMT t tr) (truncMT t tr) s rs v e = GenVec.round_std_vec (roundT tr) (truncT (!t.signed) tr) s rs v e ∧
    GenVec.round_fvec (roundMT t tr) (truncMT t tr) s rs v e = GenVec.round_fvec (roundT tr) (truncT (!t.signed) tr) s rs v e ∧
    GenVec.trunc_std_vec (roundMT t tr) (truncMT t tr) s rs v e = GenVec.trunc_std_vec (roundT tr) (truncT (!t.signed) tr) s rs v e ∧
    GenVec.trunc_fvec (roundMT t tr) (truncMT t tr) s rs v e = GenVec.trunc_fvec (roundT tr) (truncT (!t.signed) tr) s rs v e := by
  obtain ⟨a1, a2, a3, a4⟩ := vec_eq_map (roundMT t tr) (truncMT t tr) s rs v e
  obtain ⟨b1, b2, b3, b4⟩ := vec_eq_map (roundT tr) (truncT (!t.signed) tr) s rs v e
  rw [a1, a2, a3, a4, b1, b2, b3, b4]
  refine ⟨?_, ?_, ?_, ?_⟩ <;> apply List.map_congr_left <;> intro x hx
  · exact roundM_eq_round t s rs x e (h x hx)
  · exact roundM_eq_round t s rs x e (h x hx)
  · exact truncM_eq_trunc t s rs x e (h x hx)
  · exact truncM_eq_trunc t s rs x e (h x hx)

-- [1/2, -5/2, 3] over ℚ, absolute epsilon 1/8: hypotheses satisfiable (trQ is a truncation, every int32 component is NoWrap)
example : Componentwise (fun (x : ℚ) (r : Int) => |((r : Int) : ℚ) - x| < 1 ∧
      (eqS .absolute ((r : Int) : ℚ) x (1/8) = true ∨ |((r : Int) : ℚ) - x| ≤ 1 / 2 + (1/8) / 2))
    [1/2, -5/2, 3] (GenVec.round_std_vec (roundT trQ) (truncT false trQ) .absolute .downward [1/2, -5/2, 3] (1/8)) :=
  (vec_round_within .absolute .downward trQ_isTrunc [1/2, -5/2, 3] (1/8) (by norm_num)).1
example : ∀ x ∈ ([1/2, -5/2, 3] : List ℚ), NoWrap int32 trQ x :=
  fun x _ => noWrap_cases int32 trQ_isTrunc x (Or.inl ⟨rfl, by decide⟩)

end roundfour_vec

section floating4
variable {f : Fmt}

/-- in the rounding arithmetic of every format: the vector overloads of round and trunc return a vector of integer-valued
    numbers unchanged (component `p = (n, i)`: the number `.fin n` is `T(i)` and `I(.fin n) = i`), every length, every style -/
theorem fp_vec_round_trunc_int (s : Style) (rs : RStyle) (m : Int) (hm : 0 ≤ m) (c : List (Int × Int))
    (h : ∀ p ∈ c, ((p.2 : Int) : FP f) = .fin p.1 ∧ FP.trunc (.fin p.1 : FP f) = p.2) :
    let rT : Style → RStyle → FP f → FP f → Int := fun s rs x e => round s rs FP.trunc x e
    let tT : Style → RStyle → FP f → FP f → Int := fun s rs x e => trunc s false rs FP.trunc x e
    let v : List (FP f) := c.map fun p => .fin p.1
    GenVec.round_std_vec rT tT s rs v (.fin m) = c.map (·.2) ∧ GenVec.round_fvec rT tT s rs v (.fin m) = c.map (·.2) ∧
    GenVec.trunc_std_vec rT tT s rs v (.fin m) = c.map (·.2) ∧ GenVec.trunc_fvec rT tT s rs v (.fin m) = c.map (·.2) := by
  intro rT tT v
  obtain ⟨h1, h2, h3, h4⟩ := vec_eq_map rT tT s rs v (.fin m)
  rw [h1, h2, h3, h4]
  have hr : v.map (fun x => rT s rs x (.fin m)) = c.map (·.2) := by
    simp only [v, List.map_map]
    apply List.map_congr_left
    intro p hp
    exact (fp_round_trunc_int s rs p.1 p.2 m hm (h p hp).1 (h p hp).2).1
  have ht : v.map (fun x => tT s rs x (.fin m)) = c.map (·.2) := by
    simp only [v, List.map_map]
    apply List.map_congr_left
    intro p hp
    exact (fp_round_trunc_int s rs p.1 p.2 m hm (h p hp).1 (h p hp).2).2
  exact ⟨hr, hr, ht, ht⟩

-- the 8-bit format (grid unit 2^-9): the vector (16, -3, 0); 17 is not a number of the format, so `16+1` converts back to 16
example : ∀ p ∈ [((8192 : Int), (16 : Int)), (-1536, -3), (0, 0)],
    ((p.2 : Int) : FP Fmt.mf8) = .fin p.1 ∧ FP.trunc (.fin p.1 : FP Fmt.mf8) = p.2 := by decide

end floating4

end DV.C17
