/-
C17 — property theorems: tolerant comparison, rounding and the integer helpers satisfy their laws.

`K` is an arbitrary linearly ordered field; `eqS s`, `neS s`, `ltS s`, … are `FloatCmp::eq<T,style>` … of the model,
whose formulas are the definitions generated from float_cmp.cc (`Gen/C17.lean`).  `tol s a b e` is the documented
tolerance of the style (`e·max(|a|,|b|)`, `e·min(|a|,|b|)`, `e`), `IsTrunc tr` states that `tr` is the C++ conversion
`I(val)`.  Integer helpers: `IType` = signedness and width, result `none` = some intermediate value is not representable.
-/
import DuneVerif.Proofs.C17
import DuneVerif.Proofs.C17Int
import Mathlib.Algebra.Order.Field.Rat
import Mathlib.Algebra.Order.Field.Power
import Mathlib.Algebra.Order.Floor.Ring
import Mathlib.Data.Rat.Floor

set_option linter.unusedSectionVars false
namespace DV.C17
open Nat

section comparisons
variable {K : Type} [Field K] [LinearOrder K] [IsStrictOrderedRing K]

/-! ## Comparisons -/

/-- the generated formulas are the documented definitions:
    `eq(a,b) ⇔ |a-b| ≤ ε·max(|a|,|b|)` (relativeWeak), `… ε·min(|a|,|b|)` (relativeStrong), `… ε` (absolute) -/
theorem eq_def (s : Style) (a b e : K) : eqS s a b e = true ↔ |a - b| ≤ tol s a b e := eqS_iff s a b e

example : eqS .relativeWeak (1 : ℚ) (3/2) (1/2) = true := by
  rw [eq_def]; norm_num [tol, abs_of_pos, abs_of_neg]
example : eqS .relativeStrong (1 : ℚ) (3/2) (1/3) = false := by
  rw [Bool.eq_false_iff, Ne, eq_def]; norm_num [tol, abs_of_pos, abs_of_neg]
example : eqS .relativeWeak (Dy.mk2 1 0) (Dy.mk2 3 (-1)) (Dy.mk2 1 (-1)) = true := by decide

/-- enum documentation of relativeWeak: `|a-b|/|a| ≤ ε || |a-b|/|b| ≤ ε` (written without the division) -/
theorem eq_weak_iff_or (a b e : K) (h : 0 ≤ e) :
    eqS .relativeWeak a b e = true ↔ (|a - b| ≤ e * |a| ∨ |a - b| ≤ e * |b|) := by
  rw [eq_def]; simp only [tol]
  rw [mul_max_of_nonneg _ _ h, le_max_iff]

/-- enum documentation of relativeStrong: `|a-b|/|a| ≤ ε && |a-b|/|b| ≤ ε` -/
theorem eq_strong_iff_and (a b e : K) (h : 0 ≤ e) :
    eqS .relativeStrong a b e = true ↔ (|a - b| ≤ e * |a| ∧ |a - b| ≤ e * |b|) := by
  rw [eq_def]; simp only [tol]
  rw [mul_min_of_nonneg _ _ h, le_min_iff]

theorem eq_strong_imp_weak (a b e : K) (h : 0 ≤ e) (hs : eqS .relativeStrong a b e = true) :
    eqS .relativeWeak a b e = true := by
  rw [eq_strong_iff_and a b e h] at hs
  rw [eq_weak_iff_or a b e h]; exact Or.inl hs.1

/-- equality is symmetric (every style, every epsilon) -/
theorem eq_symm (s : Style) (a b e : K) : eqS s a b e = eqS s b a e := eqS_symm s a b e

/-- equality is reflexive for a non-negative epsilon -/
theorem eq_refl (s : Style) (a e : K) (h : 0 ≤ e) : eqS s a a e = true := eqS_refl s a e h

/-- not-equal is the negation of equal -/
theorem ne_not_eq (s : Style) (a b e : K) : neS s a b e = !eqS s a b e := rfl

/-- documented: `lt = ne && first < second`, `gt = ne && first > second` -/
theorem lt_def (s : Style) (a b e : K) : ltS s a b e = true ↔ (a < b ∧ eqS s a b e = false) := ltS_iff s a b e
theorem gt_def (s : Style) (a b e : K) : gtS s a b e = true ↔ (b < a ∧ eqS s a b e = false) := gtS_iff s a b e

/-- exactly one of less / equal / greater holds (non-negative epsilon) -/
theorem trichotomy (s : Style) (a b e : K) (h : 0 ≤ e) :
    (ltS s a b e = true ∧ eqS s a b e = false ∧ gtS s a b e = false) ∨
    (ltS s a b e = false ∧ eqS s a b e = true ∧ gtS s a b e = false) ∨
    (ltS s a b e = false ∧ eqS s a b e = false ∧ gtS s a b e = true) := by
  cases hE : eqS s a b e
  · have hne : a ≠ b := by
      intro hab; subst hab; rw [eq_refl s a e h] at hE; exact Bool.noConfusion hE
    rcases lt_or_gt_of_ne hne with hlt | hgt
    · left; simp [ltS, gtS, Gen.lt, Gen.gt, Gen.ne, hE, hlt, not_lt_of_gt hlt]
    · right; right; simp [ltS, gtS, Gen.lt, Gen.gt, Gen.ne, hE, hgt, not_lt_of_gt hgt]
  · right; left; simp [ltS, gtS, Gen.lt, Gen.gt, Gen.ne, hE]

-- all three cases occur …
example : ltS .absolute (1 : ℚ) 2 (1/2) = true := by rw [lt_def, Bool.eq_false_iff, Ne, eq_def]; norm_num [tol, abs_of_neg]
example : eqS .absolute (1 : ℚ) 2 1 = true := by rw [eq_def]; norm_num [tol, abs_of_neg]
example : gtS .absolute (2 : ℚ) 1 (1/2) = true := by rw [gt_def, Bool.eq_false_iff, Ne, eq_def]; norm_num [tol, abs_of_pos]
-- … and the hypothesis `0 ≤ ε` is needed: with a negative epsilon none of the three holds for equal operands
example : ltS .absolute (1 : ℚ) 1 (-1) = false ∧ eqS .absolute (1 : ℚ) 1 (-1) = false ∧ gtS .absolute (1 : ℚ) 1 (-1) = false := by
  refine ⟨?_, ?_, ?_⟩
  · rw [Bool.eq_false_iff, Ne, lt_def]; norm_num
  · rw [Bool.eq_false_iff, Ne, eq_def]; norm_num [tol]
  · rw [Bool.eq_false_iff, Ne, gt_def]; norm_num

/-- less-or-equal is less or equal -/
theorem le_iff_lt_or_eq (s : Style) (a b e : K) : leS s a b e = (ltS s a b e || eqS s a b e) := by
  simp only [leS, ltS, Gen.le, Gen.lt, Gen.ne]
  cases decide (a < b) <;> cases eqS s a b e <;> rfl

/-- greater-or-equal is greater or equal -/
theorem ge_iff (s : Style) (a b e : K) : geS s a b e = (gtS s a b e || eqS s a b e) := by
  simp only [geS, gtS, Gen.ge, Gen.gt, Gen.ne]
  cases decide (a > b) <;> cases eqS s a b e <;> rfl

theorem lt_iff_gt_swap (s : Style) (a b e : K) : ltS s a b e = gtS s b a e := by
  simp only [ltS, gtS, Gen.lt, Gen.gt, Gen.ne, eq_symm s a b e]

/-! ### vector overloads -/

/-- `std::vector`: equal iff the sizes agree and every pair of components is equal -/
theorem vec_eq_conj (s : Style) (a b : List K) (e : K) :
    eqVec s a b e = true ↔ a.length = b.length ∧
      ∀ (i : Nat) (ha : i < a.length) (hb : i < b.length), eqS s a[i] b[i] e = true := by
  unfold eqVec
  by_cases h : a.length = b.length
  · have hb : (a.length != b.length) = false := by simp [h]
    rw [hb]; simp only [Bool.false_eq_true, if_false]
    exact ⟨fun hl => ⟨h, (eqLoop_iff s e a b h).mp hl⟩, fun hr => (eqLoop_iff s e a b h).mpr hr.2⟩
  · simp [h]

/-- `FieldVector<T,n>`: equal iff every pair of components is equal -/
theorem fvec_eq_conj (s : Style) (a b : List K) (e : K) (h : a.length = b.length) :
    eqFV s a b e = true ↔ ∀ (i : Nat) (ha : i < a.length) (hb : i < b.length), eqS s a[i] b[i] e = true :=
  eqLoop_iff s e a b h

example : eqVec .absolute [(1 : ℚ), 2] [1, 5/2] 1 = true := by
  rw [vec_eq_conj]; refine ⟨rfl, fun i ha hb => ?_⟩
  have : i = 0 ∨ i = 1 := by simp at ha; omega
  rcases this with rfl | rfl <;> (rw [eq_def]; norm_num [tol, abs_of_neg])

theorem vec_ne_not_eq (s : Style) (a b : List K) (e : K) : neVec s a b e = !eqVec s a b e := rfl
theorem fvec_ne_not_eq (s : Style) (a b : List K) (e : K) : neFV s a b e = !eqFV s a b e := rfl

theorem vec_eq_symm (s : Style) (a b : List K) (e : K) : eqVec s a b e = eqVec s b a e := by
  rw [Bool.eq_iff_iff, vec_eq_conj, vec_eq_conj]
  constructor
  · rintro ⟨hl, h⟩; exact ⟨hl.symm, fun i ha hb => by rw [eq_symm]; exact h i hb ha⟩
  · rintro ⟨hl, h⟩; exact ⟨hl.symm, fun i ha hb => by rw [eq_symm]; exact h i hb ha⟩

theorem vec_eq_refl (s : Style) (a : List K) (e : K) (h : 0 ≤ e) : eqVec s a a e = true := by
  rw [vec_eq_conj]; exact ⟨rfl, fun i _ _ => eq_refl s _ e h⟩

/-- `std::vector` (ordered lexicographically by `operator<`): exactly one of less / equal / greater -/
theorem vec_trichotomy (s : Style) (a b : List K) (e : K) (h : 0 ≤ e) :
    (ltVec s a b e = true ∧ eqVec s a b e = false ∧ gtVec s a b e = false) ∨
    (ltVec s a b e = false ∧ eqVec s a b e = true ∧ gtVec s a b e = false) ∨
    (ltVec s a b e = false ∧ eqVec s a b e = false ∧ gtVec s a b e = true) := by
  cases hE : eqVec s a b e
  · rcases lexLt_total a b with ⟨h1, _, _⟩ | ⟨_, h2, h3⟩ | ⟨_, h2, h3⟩
    · subst h1; rw [vec_eq_refl s a e h] at hE; exact Bool.noConfusion hE
    · left; simp [ltVec, gtVec, neVec, hE, h2, h3]
    · right; right; simp [ltVec, gtVec, neVec, hE, h2, h3]
  · right; left; simp [ltVec, gtVec, neVec, hE]

theorem vec_le_iff (s : Style) (a b : List K) (e : K) : leVec s a b e = (ltVec s a b e || eqVec s a b e) := by
  simp only [leVec, ltVec, neVec]
  cases lexLt a b <;> cases eqVec s a b e <;> rfl

theorem vec_ge_iff (s : Style) (a b : List K) (e : K) : geVec s a b e = (gtVec s a b e || eqVec s a b e) := by
  simp only [geVec, gtVec, neVec]
  cases lexLt b a <;> cases eqVec s a b e <;> rfl

end comparisons

/-- the default epsilons read off float_cmp.cc are non-negative (so the laws above apply to them) -/
theorem defaultEps_nonneg :
    (0 : Dy) ≤ Gen.defaultEps_relativeWeak_f32 ∧ (0 : Dy) ≤ Gen.defaultEps_relativeWeak_f64 ∧
    (0 : Dy) ≤ Gen.defaultEps_relativeStrong_f32 ∧ (0 : Dy) ≤ Gen.defaultEps_relativeStrong_f64 ∧
    (0 : Dy) ≤ Gen.defaultEps_absolute_f32 ∧ (0 : Dy) ≤ Gen.defaultEps_absolute_f64 := by decide

end DV.C17

namespace DV.C17
open Nat

section rounding
variable {K : Type} [Field K] [LinearOrder K] [IsStrictOrderedRing K]

/-! ## round / trunc -/


theorem round_of_near_integer (s : Style) (rs : RStyle) (tr : K → Int) (x e : K)
    (h : eqS s ((tr x : Int) : K) x e = true) : round s rs tr x e = tr x := by
  rcases round_cases s rs tr x e with hc | hc <;> rw [hc]
  · exact roundDown_of_eq s tr x e h
  · exact roundUp_of_eq s tr x e h

theorem round_within (s : Style) (rs : RStyle) {tr : K → Int} (htr : IsTrunc tr) (x e : K) (h0 : 0 ≤ e) :
    |((round s rs tr x e : Int) : K) - x| < 1 ∧
    (eqS s ((round s rs tr x e : Int) : K) x e = true ∨ |((round s rs tr x e : Int) : K) - x| ≤ 1 / 2 + e / 2) := by
  cases hE : eqS s ((tr x : Int) : K) x e
  · obtain ⟨hl, hu⟩ := strict_bracket s htr x e h0 hE
    set l := floorOf tr x
    have hd := down_choice_within s x e l h0 hl hu
    have hu' := up_choice_within s x e l h0 hl hu
    have hlt1 : ∀ r : Int, (r = l ∨ r = l + 1) → |((r : Int) : K) - x| < 1 := by
      intro r hr; rw [abs_lt]
      rcases hr with hr | hr <;> subst hr <;> push_cast <;> constructor <;> linarith
    rcases round_cases s rs tr x e with hc | hc <;> rw [hc]
    · rw [roundDown_eq s htr x e l hl hu hE]
      refine ⟨hlt1 _ ?_, Or.inr hd⟩
      split <;> simp
    · rw [roundUp_eq s htr x e l hl hu hE]
      refine ⟨hlt1 _ ?_, Or.inr hu'⟩
      split <;> simp
  · rw [round_of_near_integer s rs tr x e hE]
    exact ⟨trunc_abs_lt_one htr x, Or.inl hE⟩

theorem round_nearest (s : Style) (rs : RStyle) {tr : K → Int} (htr : IsTrunc tr) (x e : K) (l : Int)
    (hl : (l : K) < x) (hu : x < (l : K) + 1) (hne : eqS s ((tr x : Int) : K) x e = false)
    (hnt : eqS s (x - (l : K)) ((l : K) + 1 - x) e = false) :
    round s rs tr x e = if x - (l : K) < (l : K) + 1 - x then l else l + 1 := by
  have hle : leS s (x - (l : K)) ((l : K) + 1 - x) e = decide (x - (l : K) < (l : K) + 1 - x) := by
    simp [leS, Gen.le, hnt]
  have hlt : ltS s (x - (l : K)) ((l : K) + 1 - x) e = decide (x - (l : K) < (l : K) + 1 - x) := by
    simp [ltS, Gen.lt, Gen.ne, hnt]
  rcases round_cases s rs tr x e with hc | hc <;> rw [hc]
  · rw [roundDown_eq s htr x e l hl hu hne, hle]; simp
  · rw [roundUp_eq s htr x e l hl hu hne, hlt]; simp


theorem round_tie (s : Style) (rs : RStyle) {tr : K → Int} (htr : IsTrunc tr) (x e : K) (l : Int)
    (hl : (l : K) < x) (hu : x < (l : K) + 1) (hne : eqS s ((tr x : Int) : K) x e = false)
    (ht : eqS s (x - (l : K)) ((l : K) + 1 - x) e = true) :
    round s rs tr x e = tieChoice rs x l := by
  have hle : leS s (x - (l : K)) ((l : K) + 1 - x) e = true := by simp [leS, Gen.le, ht]
  have hlt : ltS s (x - (l : K)) ((l : K) + 1 - x) e = false := by simp [ltS, Gen.lt, Gen.ne, ht]
  have hd : roundDown s tr x e = l := by rw [roundDown_eq s htr x e l hl hu hne, hle]; simp
  have hup : roundUp s tr x e = l + 1 := by rw [roundUp_eq s htr x e l hl hu hne, hlt]; simp
  cases rs <;> simp only [round, tieChoice, hd, hup, Int.cast_zero, gt_iff_lt]

theorem round_int (s : Style) (rs : RStyle) {tr : K → Int} (htr : IsTrunc tr) (n : Int) (e : K) (h0 : 0 ≤ e) :
    round s rs tr (n : K) e = n := by
  have hb := floorOf_spec htr (n : K)
  have hab := trunc_abs_lt_one htr (n : K)
  have htn : tr (n : K) = n := by
    rw [abs_lt] at hab
    have a : ((tr (n : K) : Int) : K) < ((n + 1 : Int) : K) := by push_cast; linarith
    have b : ((n : Int) : K) < ((tr (n : K) + 1 : Int) : K) := by push_cast; linarith
    have := Int.cast_lt.mp a; have := Int.cast_lt.mp b; omega
  rw [round_of_near_integer s rs tr (n : K) e (by rw [htn]; exact eqS_refl s _ e h0), htn]

/-- truncation toward zero exists in every floor ring (non-vacuity of `IsTrunc`) -/
theorem isTrunc_floor_ceil [FloorRing K] : IsTrunc (fun x : K => if 0 ≤ x then ⌊x⌋ else ⌈x⌉) := by
  intro x
  constructor
  · intro h; simp only [h, if_true]; exact ⟨Int.floor_le x, Int.lt_floor_add_one x⟩
  · intro h
    by_cases h0 : 0 ≤ x
    · have hx : x = 0 := le_antisymm h h0
      subst hx; simp
    · simp only [h0, if_false]
      exact ⟨Int.le_ceil x, by have := Int.ceil_lt_add_one x; linarith⟩

/-- the truncation used in the examples -/
def trQ : ℚ → Int := fun x => if 0 ≤ x then ⌊x⌋ else ⌈x⌉
theorem trQ_isTrunc : IsTrunc trQ := isTrunc_floor_ceil

-- 5/2 with epsilon 1/10 (absolute): a tie; downward gives 2, upward 3, towardZero 2, towardInf 3
example : round .absolute .downward trQ (5/2) (1/10) = 2 ∧ round .absolute .upward trQ (5/2) (1/10) = 3 ∧
    round .absolute .towardZero trQ (5/2) (1/10) = 2 ∧ round .absolute .towardInf trQ (5/2) (1/10) = 3 := by
  have htr : trQ (5/2) = 2 := by
    simp only [trQ]; norm_num
  have hne : eqS .absolute ((trQ (5/2) : Int) : ℚ) (5/2) (1/10) = false := by
    rw [htr, Bool.eq_false_iff, Ne, eq_def]; norm_num [tol, abs_of_neg]
  have ht : eqS .absolute ((5/2 : ℚ) - ((2 : Int) : ℚ)) (((2 : Int) : ℚ) + 1 - 5/2) (1/10) = true := by
    rw [eq_def]; norm_num [tol]
  refine ⟨?_, ?_, ?_, ?_⟩ <;>
    (rw [round_tie .absolute _ trQ_isTrunc (5/2) (1/10) 2 (by norm_num) (by norm_num) hne ht]; norm_num [tieChoice])

theorem trunc_downward_spec (s : Style) {tr : K → Int} (htr : IsTrunc tr) (x e : K) (l : Int)
    (hl : (l : K) ≤ x) (hu : x < (l : K) + 1) :
    trunc s false .downward tr x e = if eqS s ((l : K) + 1) x e then l + 1 else l :=
  truncDown_eq s htr x e l hl hu

theorem trunc_upward_spec (s : Style) {tr : K → Int} (htr : IsTrunc tr) (x e : K) (l : Int)
    (hl : (l : K) ≤ x) (hu : x < (l : K) + 1) :
    trunc s false .upward tr x e =
      if eqS s ((l : K) + 1) x e then l + 1 else if eqS s (l : K) x e then l else l + 1 :=
  truncUp_eq s htr x e l hl hu

theorem trunc_direction_downward (s : Style) {tr : K → Int} (htr : IsTrunc tr) (x e : K) :
    let r := trunc s false .downward tr x e
    (((r : Int) : K) ≤ x ∨ eqS s ((r : Int) : K) x e = true) ∧ x - 1 < ((r : Int) : K) ∧ ((r : Int) : K) ≤ x + 1 := by
  intro r
  obtain ⟨hl, hu⟩ := floorOf_spec htr x
  have hr : r = _ := trunc_downward_spec s htr x e (floorOf tr x) hl hu
  set l := floorOf tr x
  by_cases h1 : eqS s ((l : K) + 1) x e = true
  · simp only [h1, if_true] at hr
    rw [hr]; push_cast
    exact ⟨Or.inr h1, by linarith, by linarith⟩
  · simp only [h1, Bool.false_eq_true, if_false] at hr
    rw [hr]
    exact ⟨Or.inl hl, by linarith, by linarith⟩

theorem trunc_direction_upward (s : Style) {tr : K → Int} (htr : IsTrunc tr) (x e : K) :
    let r := trunc s false .upward tr x e
    (x ≤ ((r : Int) : K) ∨ eqS s ((r : Int) : K) x e = true) ∧ x - 1 < ((r : Int) : K) ∧ ((r : Int) : K) ≤ x + 1 := by
  intro r
  obtain ⟨hl, hu⟩ := floorOf_spec htr x
  have hr : r = _ := trunc_upward_spec s htr x e (floorOf tr x) hl hu
  set l := floorOf tr x
  by_cases h1 : eqS s ((l : K) + 1) x e = true
  · simp only [h1, if_true] at hr
    rw [hr]; push_cast
    exact ⟨Or.inr h1, by linarith, by linarith⟩
  · simp only [h1, Bool.false_eq_true, if_false] at hr
    by_cases h2 : eqS s (l : K) x e = true
    · simp only [h2, if_true] at hr
      rw [hr]; exact ⟨Or.inr h2, by linarith, by linarith⟩
    · simp only [h2, Bool.false_eq_true, if_false] at hr
      rw [hr]; push_cast
      exact ⟨Or.inl (le_of_lt hu), by linarith, by linarith⟩


theorem trunc_direction_towardInf (s : Style) {tr : K → Int} (htr : IsTrunc tr) (x e : K) :
    let r := trunc s false .towardInf tr x e
    |x| ≤ |((r : Int) : K)| ∨ eqS s ((r : Int) : K) x e = true := by
  intro r
  have hr : r = _ := trunc_towardInf_eq s false tr x e
  by_cases hx : 0 < x
  · simp only [hx, if_true] at hr
    rcases (trunc_direction_upward s htr x e).1 with h | h
    · left; rw [hr, abs_of_pos hx]; exact le_trans h (le_abs_self _)
    · right; rw [hr]; exact h
  · simp only [hx, if_false] at hr
    have hx' : x ≤ 0 := not_lt.mp hx
    rcases (trunc_direction_downward s htr x e).1 with h | h
    · left; rw [hr, abs_of_nonpos hx', abs_of_nonpos (le_trans h hx')]; linarith
    · right; rw [hr]; exact h

theorem trunc_direction_towardZero (s : Style) {tr : K → Int} (htr : IsTrunc tr) (x e : K) (h0 : 0 ≤ e) :
    let r := trunc s false .towardZero tr x e
    |((r : Int) : K)| ≤ |x| ∨ eqS s ((r : Int) : K) x e = true := by
  intro r
  have hr : r = _ := trunc_towardZero_eq s false tr x e
  obtain ⟨hl, hu⟩ := floorOf_spec htr x
  set l := floorOf tr x with hldef
  by_cases hx : 0 < x
  · simp only [hx, if_true] at hr
    have hl0 : (0 : Int) ≤ l := by
      have : ((0 : Int) : K) < ((l + 1 : Int) : K) := by push_cast; linarith
      have := Int.cast_lt.mp this; omega
    have hd := trunc_downward_spec s htr x e l hl hu
    rcases (trunc_direction_downward s htr x e).1 with h | h
    · left; rw [hr, abs_of_pos hx]
      have hr0 : (0 : K) ≤ ((trunc s false .downward tr x e : Int) : K) := by
        have hlK : (0 : K) ≤ (l : K) := by exact_mod_cast hl0
        rw [hd]; split
        · push_cast; linarith
        · exact hlK
      rw [abs_of_nonneg hr0]; exact h
    · right; rw [hr]; exact h
  · simp only [hx, if_false] at hr
    have hx' : x ≤ 0 := not_lt.mp hx
    have hup := trunc_upward_spec s htr x e l hl hu
    rcases (trunc_direction_upward s htr x e).1 with h | h
    · -- x ≤ r; either r ≤ 0, or r = l+1 = 1 and x = 0
      by_cases hr0 : ((trunc s false .upward tr x e : Int) : K) ≤ 0
      · left; rw [hr, abs_of_nonpos hr0, abs_of_nonpos hx']; linarith
      · right; rw [hr]
        -- r > 0 ≥ x ≥ l  so r = l+1 and l = 0 = x
        have hrpos : 0 < ((trunc s false .upward tr x e : Int) : K) := not_le.mp hr0
        have hll : (l : K) ≤ 0 := le_trans hl hx'
        by_cases h1 : eqS s ((l : K) + 1) x e = true
        · rw [hup]; simp only [h1, if_true]; push_cast; exact h1
        · simp only [h1, Bool.false_eq_true, if_false] at hup
          by_cases h2 : eqS s (l : K) x e = true
          · rw [hup]; simp only [h2, if_true]
          · simp only [h2, Bool.false_eq_true, if_false] at hup
            rw [hup] at hrpos; push_cast at hrpos
            -- l + 1 > 0 and l ≤ 0 → l = 0 → x = 0 → eqS l x by reflexivity: contradiction
            have hl1 : (0 : Int) < l + 1 := by exact_mod_cast hrpos
            have hl2 : l ≤ 0 := by exact_mod_cast hll
            have hl3 : l = 0 := by omega
            have hx0 : x = 0 := by rw [hl3] at hl; push_cast at hl; exact le_antisymm hx' hl
            exfalso; apply h2; rw [hl3, hx0]; push_cast; exact eqS_refl s 0 e h0
    · right; rw [hr]; exact h

/-- an argument equal (within epsilon) to the integer above it is truncated to that integer in every style -/
theorem trunc_snap_up (s : Style) (rs : RStyle) {tr : K → Int} (htr : IsTrunc tr) (x e : K) (l : Int)
    (hl : (l : K) ≤ x) (hu : x < (l : K) + 1) (h : eqS s ((l : K) + 1) x e = true) :
    trunc s false rs tr x e = l + 1 := by
  have hd := trunc_downward_spec s htr x e l hl hu
  have hup := trunc_upward_spec s htr x e l hl hu
  simp only [h, if_true] at hd hup
  cases rs
  · rw [trunc_towardZero_eq]; split <;> assumption
  · rw [trunc_towardInf_eq]; split <;> assumption
  · exact hd
  · exact hup

theorem trunc_unsigned_zero (s : Style) (rs : RStyle) (tr : K → Int) (x e : K) (h : eqS s x 0 e = true) :
    trunc s true rs tr x e = 0 := by
  have hd : truncDown s true tr x e = 0 := by simp [truncDown, h]
  have hup : truncUp s true tr x e = 0 := by
    have h' : eqS s (0 : K) x e = true := by rw [eqS_symm]; exact h
    simp [truncUp, hd, neS, Gen.ne, h']
  cases rs <;> simp only [trunc, hd, hup] <;> (try split) <;> rfl

-- -5/2 with epsilon 0: downward -3, upward -2, towardZero -2, towardInf -3
example : trunc .relativeWeak false .downward trQ (-5/2) 0 = -3 ∧ trunc .relativeWeak false .upward trQ (-5/2) 0 = -2 ∧
    trunc .relativeWeak false .towardZero trQ (-5/2) 0 = -2 ∧ trunc .relativeWeak false .towardInf trQ (-5/2) 0 = -3 := by
  have hd := trunc_downward_spec .relativeWeak trQ_isTrunc (-5/2) 0 (-3) (by norm_num) (by norm_num)
  have hu := trunc_upward_spec .relativeWeak trQ_isTrunc (-5/2) 0 (-3) (by norm_num) (by norm_num)
  have e1 : eqS .relativeWeak ((((-3 : Int)) : ℚ) + 1) (-5/2) 0 = false := by
    rw [Bool.eq_false_iff, Ne, eq_def]; norm_num [tol]
  have e2 : eqS .relativeWeak (((-3 : Int)) : ℚ) (-5/2) 0 = false := by
    rw [Bool.eq_false_iff, Ne, eq_def]; norm_num [tol]
  simp only [e1, e2, Bool.false_eq_true, if_false] at hd hu
  refine ⟨hd, by rw [hu]; norm_num, ?_, ?_⟩
  · rw [trunc_towardZero_eq, if_neg (by norm_num), hu]; norm_num
  · rw [trunc_towardInf_eq, if_neg (by norm_num), hd]

end rounding

/-! ## power, factorial, binomial, sign, classifiers -/

/-- `power(m,p)` over a field (floating-point `Base`): the integer power, negative exponents included -/


theorem power_eq_zpow {F : Type} [Field F] (m : F) (p : Int) : powerK m p = m ^ p := by
  unfold powerK
  rcases Int.eq_nat_or_neg p with ⟨n, rfl | rfl⟩
  · have : ¬ ((n : Int) < 0) := by omega
    simp [this, powLoopK_eq]
  · by_cases hn : n = 0
    · subst hn; simp [powLoopK]
    · have hpos : 0 < n := Nat.pos_of_ne_zero hn
      simp [hpos, powLoopK_eq]


/-- `power(m,p)`, integer `Base`, `p ≥ 0`: every intermediate product is representable exactly when the result is,
    and then the result is `m^p`; otherwise the computation overflows -/
theorem power_eq_pow (t te : IType) (m : Int) (p : Nat) (h1 : t.fits 1 = true) (hm : t.fits m = true) :
    powerI t te m (p : Int) = if t.fits (m ^ p) then some (m ^ p) else none := powerI_nat t te m p h1 hm

example : powerI int32 int32 (-2) 31 = some (-2147483648) := by decide
example : powerI int32 int32 2 31 = none := by decide

/-- `factorial(n)`: `n!` exactly when it is representable -/
theorem factorial_eq (t : IType) (n : Nat) (h1 : t.fits 1 = true) :
    factorial t (n : Int) = if t.fits ((n ! : Nat) : Int) then some ((n ! : Nat) : Int) else none := by
  have e : factorial t (n : Int) = factLoop t n ((0 : Nat) : Int) (((0 ! : Nat)) : Int) := by simp [factorial]
  rw [e]
  cases hf : t.fits ((n ! : Nat) : Int)
  · have := factLoop_none t n 0 (by simpa using h1) (by simpa using hf)
    simpa using this
  · have := factLoop_spec t h1 n 0 (by simpa using hf)
    simpa using this

theorem factorial_neg (t : IType) (n : Int) (h : n < 0) : factorial t n = some 1 := by
  have : n.toNat = 0 := by omega
  simp [factorial, this, factLoop]

example : factorial int64 20 = some 2432902008176640000 := by decide
example : factorial int64 21 = none := by decide

/-- `binomial(n,k)` for `0 ≤ k ≤ n`: the binomial coefficient exactly when it is representable -/
theorem binomial_eq_choose (t : IType) (n k : Nat) (hk : k ≤ n) (h1 : t.fits 1 = true) (hn : t.fits (n : Int) = true) :
    binomial t (n : Int) (k : Int) =
      if t.fits ((n.choose k : Nat) : Int) then some ((n.choose k : Nat) : Int) else none := binomial_nat t n k hk h1 hn

/-- no intermediate value of `binomial` leaves the type when the result is representable
    (the model returns `some` only if every intermediate passed `chk`) -/
theorem binomial_no_overflow (t : IType) (n k : Nat) (hk : k ≤ n) (h1 : t.fits 1 = true) (hn : t.fits (n : Int) = true)
    (hc : t.fits ((n.choose k : Nat) : Int) = true) :
    binomial t (n : Int) (k : Int) = some ((n.choose k : Nat) : Int) := by
  rw [binomial_eq_choose t n k hk h1 hn, hc]; rfl

example : binomial int32 18 9 = some 48620 := by decide
example : binomial int32 2147483647 2147483646 = some 2147483647 := by decide

/-- the algorithm of the unrepaired tree overflows on representable results (DESIGN.md section 6 #15):
    `binomial(18,9)` in `int`, and `binomial(26,13)` through `factorial(13)` -/
theorem binomialOld_overflows : binomialOld int32 18 9 = none ∧ binomialOld int32 26 13 = none ∧
    int32.fits (((18 : Nat).choose 9 : Nat) : Int) = true := by decide

theorem binomial_symm (t : IType) (n k : Nat) (hk : k ≤ n) (h1 : t.fits 1 = true) (hn : t.fits (n : Int) = true) :
    binomial t (n : Int) (k : Int) = binomial t (n : Int) ((n : Int) - (k : Int)) := by
  have e : (n : Int) - (k : Int) = ((n - k : Nat) : Int) := by omega
  rw [e, binomial_nat t n k hk h1 hn, binomial_nat t n (n - k) (by omega) h1 hn, Nat.choose_symm hk]

theorem pascal (t : IType) (n k : Nat) (hk : k + 1 ≤ n) (h1 : t.fits 1 = true)
    (hn : t.fits ((n : Int) + 1) = true) (hc : t.fits (((n + 1).choose (k + 1) : Nat) : Int) = true) :
    ∃ a b : Int, binomial t (n : Int) (k : Int) = some a ∧ binomial t (n : Int) ((k : Int) + 1) = some b ∧
      binomial t ((n : Int) + 1) ((k : Int) + 1) = some (a + b) := by
  have h0 := fits_zero_of_one h1
  have hn' : t.fits (n : Int) = true := fits_between h0 hn (by omega) (by omega)
  have hsum : (n + 1).choose (k + 1) = n.choose k + n.choose (k + 1) := Nat.choose_succ_succ n k
  have fa : t.fits ((n.choose k : Nat) : Int) = true :=
    fits_between h0 hc (by exact_mod_cast Nat.zero_le _) (by exact_mod_cast (by omega : n.choose k ≤ (n + 1).choose (k + 1)))
  have fb : t.fits ((n.choose (k + 1) : Nat) : Int) = true :=
    fits_between h0 hc (by exact_mod_cast Nat.zero_le _) (by exact_mod_cast (by omega : n.choose (k + 1) ≤ (n + 1).choose (k + 1)))
  refine ⟨(n.choose k : Nat), (n.choose (k + 1) : Nat), ?_, ?_, ?_⟩
  · rw [binomial_nat t n k (by omega) h1 hn', fa]; rfl
  · have := binomial_nat t n (k + 1) hk h1 hn'
    rw [fb] at this; simpa using this
  · have := binomial_nat t (n + 1) (k + 1) (by omega) h1 (by simpa using hn)
    rw [hc] at this
    simp only [if_true] at this
    rw [hsum] at this
    simpa using this

theorem binomial_outside (t : IType) (n k : Int) (h : k < 0 ∨ k > n) : binomial t n k = some 0 := by
  simp [binomial, h]

section sign
variable {K : Type} [Field K] [LinearOrder K] [IsStrictOrderedRing K]
theorem sign_spec (x : K) :
    (signK x = -1 ↔ x < 0) ∧ (signK x = 1 ↔ 0 ≤ x) ∧ ((signK x : Int) : K) * |x| = x := by
  unfold signK
  by_cases h : x < 0
  · simp [h, abs_of_neg h, not_le.mpr h]
  · have h' : 0 ≤ x := not_lt.mp h
    simp [h, abs_of_nonneg h', h']
end sign


theorem isNaN_any {α} (f : α → Bool) (v : List α) : isNaNV f v = v.any f := by simp [isNaNV, foldl_or]
theorem isInf_any {α} (f : α → Bool) (v : List α) : isInfV f v = v.any f := by simp [isInfV, foldl_or]
theorem isFinite_all {α} (f : α → Bool) (v : List α) : isFiniteV f v = v.all f := by simp [isFiniteV, foldl_and]

theorem isFinite_iff_not_nan_inf (v : List FpClass) :
    isFiniteV isFinite1 v = (!isNaNV isNaN1 v && !isInfV isInf1 v) := by
  rw [isFinite_all, isNaN_any, isInf_any]
  induction v with
  | nil => simp
  | cons c cs ih =>
    simp only [List.all_cons, List.any_cons, ih]
    cases c <;> cases cs.any isNaN1 <;> cases cs.any isInf1 <;> decide

theorem complex_classifiers (z : FpClass × FpClass) :
    isNaNC z = [z.1, z.2].any isNaN1 ∧ isInfC z = [z.1, z.2].any isInf1 ∧ isFiniteC z = [z.1, z.2].all isFinite1 := by
  simp [isNaNC, isInfC, isFiniteC]


end DV.C17
