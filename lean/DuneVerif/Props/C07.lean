import DuneVerif.Proofs.C07
/-!
# C07 — property theorems (statements only; the lemmas live in `Proofs/C07.lean`)

All theorems are for arbitrary cell types, arbitrary typemaps / lengths / process counts.  MPI itself (that a
transfer with a datatype moves exactly the typemap's blocks, that reductions with a commutative op fold the
contributions in some order and bracketing, that `MPI_Unpack` inverts `MPI_Pack` for a basic type) is the trusted
part and appears here as the *definitions* `transfer`, `Spec.*`, `Codec`.
-/
namespace DV.C07
open TMap

/-! ## (iii) datatypes -/

/-- **typemap_transfers_exactly.**  After moving one element of datatype `tm`, a destination cell holds the
corresponding source cell iff it lies in one of the typemap's blocks; every other cell is untouched. -/
theorem typemap_transfers_exactly {α} (tm : TMap) (src : List α) (soff : Nat) (dst : List α) (doff i : Nat) :
    (transfer tm src soff dst doff)[i]? =
      if doff ≤ i ∧ tm.covers (i - doff) = true then ovw src[soff + (i - doff)]? dst[i]? else dst[i]? :=
  Proofs.transfer_getElem? tm src soff dst doff i

theorem transfer_length {α} (tm : TMap) (src : List α) (soff : Nat) (dst : List α) (doff : Nat) :
    (transfer tm src soff dst doff).length = dst.length :=
  Proofs.transfer_length tm src soff dst doff

example : transfer (Types.indexPair 0 (basic 1) 1 (Types.localIndex 1 (basic 1) 4) 5) [10, 11, 12, 13, 14] 0
    [0, 1, 2, 3, 4] 0 = [10, 1, 12, 3, 4] := by decide

/-- **typemap_transfers_exactly, arrays.**  With all blocks inside the extent, `count` elements stride correctly:
cell `i` is overwritten iff its element index is `< n` and its position inside the element is covered. -/
theorem typemap_transfers_exactly_strided {α} (tm : TMap) (hwf : tm.wf) (hpos : 0 < tm.extent) (n : Nat)
    (src : List α) (soff : Nat) (dst : List α) (doff i : Nat) :
    (transferN tm n src soff dst doff)[i]? =
      if doff ≤ i ∧ (i - doff) / tm.extent < n ∧ tm.covers ((i - doff) % tm.extent) = true
      then ovw src[soff + (i - doff)]? dst[i]? else dst[i]? :=
  Proofs.transferN_getElem? tm hwf hpos n src soff dst doff i

example : transferN (Types.localIndex 1 (basic 1) 4) 2 [10, 11, 12, 13, 20, 21, 22, 23] 0
    [0, 0, 0, 0, 0, 0, 0, 0, 0] 0 = [0, 11, 0, 0, 0, 21, 0, 0, 0] := by decide

/-- a transfer is `MPI_Unpack ∘ MPI_Pack` -/
theorem transfer_eq_unpack_pack {α} (tm : TMap) (src : List α) (soff : Nat) (dst : List α) (doff : Nat)
    (hsrc : ∀ b ∈ tm.blocks, soff + b.1 + b.2 ≤ src.length) :
    unpackElem tm (packElem tm src soff) dst doff = transfer tm src soff dst doff :=
  Proofs.unpack_pack_elem tm src soff dst doff hsrc

/-- **indexpair_typemap = {global, attribute}.**  The datatype built in remoteindices.hh / plocalindex.hh consists
of exactly the block of `global_` and the one byte `attribute_` inside `local_`; its extent is `sizeof`. -/
theorem indexpair_typemap (offG szG offL offA szL size : Nat) :
    Types.indexPair offG (basic szG) offL (Types.localIndex offA (basic 1) szL) size
      = ⟨[(offG, szG), (offL + offA, 1)], size⟩ := by
  simp [Types.indexPair, Types.localIndex, resized, struct, contiguous, basic, shift, List.range_succ, List.range_zero]

-- the hypotheses hold for the IndexPair datatype at cell level
example : (Types.indexPair 0 (basic 1) 1 (Types.localIndex 1 (basic 1) 4) 5).wf ∧
    0 < (Types.indexPair 0 (basic 1) 1 (Types.localIndex 1 (basic 1) 4) 5).extent := by
  rw [indexpair_typemap]; simp [TMap.wf]

theorem localindex_typemap (offA size : Nat) :
    Types.localIndex offA (basic 1) size = ⟨[(offA, 1)], size⟩ := by
  simp [Types.localIndex, resized, struct, contiguous, basic, shift, List.range_succ, List.range_zero]

theorem pair_typemap (off1 s1 off2 s2 size : Nat) :
    Types.pair off1 (basic s1) off2 (basic s2) size = ⟨[(off1, s1), (off2, s2)], size⟩ := by
  simp [Types.pair, resized, struct, contiguous, basic, shift, List.range_succ, List.range_zero]

-- hypothesis of `transfer_eq_unpack_pack` for a pair stored in two cells
example : ∀ b ∈ (Types.pair 0 (basic 1) 1 (basic 1) 2).blocks, 0 + b.1 + b.2 ≤ [10, 20].length := by
  rw [pair_typemap]; simp

/-- `FieldVector<K,n>` / `bigunsignedint<k>`: every cell of the `n` components (digits) is communicated, nothing else -/
theorem fieldvector_typemap (d n w : Nat) (j : Nat) :
    (Types.fieldVector d n (basic w)).covers j = true ↔ d ≤ j ∧ j < d + n * w :=
  Proofs.fieldVector_covers d n w j

theorem fieldvector_extent (d n w : Nat) : (Types.fieldVector d n (basic w)).extent = d + n * w := by
  simp [Types.fieldVector, struct, ub, contiguous, basic]

theorem bigunsigned_typemap (d n w : Nat) (j : Nat) :
    (Types.bigUnsigned d n (basic w)).covers j = true ↔ d ≤ j ∧ j < d + n * w :=
  Proofs.fieldVector_covers d n w j

/-- numbers: the whole object -/
theorem basic_typemap (w j : Nat) : (basic w).covers j = true ↔ j < w := by
  simp [basic, covers]

/-- IndexPair: exactly global index and attribute travel (instance of `typemap_transfers_exactly`) -/
theorem indexpair_transfers_global_and_attribute {α} (offG szG offL offA szL size : Nat) (src dst : List α) (i : Nat) :
    (transfer (Types.indexPair offG (basic szG) offL (Types.localIndex offA (basic 1) szL) size) src 0 dst 0)[i]? =
      if (offG ≤ i ∧ i < offG + szG) ∨ i = offL + offA then ovw src[i]? dst[i]? else dst[i]? := by
  rw [typemap_transfers_exactly, indexpair_typemap]
  have : (covers ⟨[(offG, szG), (offL + offA, 1)], size⟩ i = true) ↔
      ((offG ≤ i ∧ i < offG + szG) ∨ i = offL + offA) := by
    simp [covers]; omega
  simp only [Nat.zero_le, true_and, Nat.sub_zero, Nat.zero_add, this]

/-! ## (i) collectives -/

/-- **gatherv_concat.**  With prefix-sum displacements the root's receive buffer is what one transfer of the
concatenation of all contributions (in rank order) gives.  (`parts` = every rank's (send buffer, element count).) -/
theorem gatherv_concat {α} (tm : TMap) (hwf : tm.wf) (parts : List (List α × Nat))
    (hl : ∀ p ∈ parts, p.1.length = p.2 * tm.extent) (out : List α) :
    Spec.gathervAt tm (parts.map (·.1)) (parts.map (·.2)) (Proofs.prefixSums (parts.map (·.2))) out
      = transferN tm (parts.map (·.2)).sum (parts.map (·.1)).flatten 0 out 0 :=
  Proofs.gathervAt_prefix tm hwf parts hl out

-- three ranks with 2, 0 and 1 ParallelLocalIndex elements (4 cells each) satisfy the hypotheses
example : (Types.localIndex 1 (basic 1) 4).wf ∧
    ∀ p ∈ [([1, 2, 3, 4, 5, 6, 7, 8], 2), ([], 0), ([9, 10, 11, 12], 1)],
      p.1.length = p.2 * (Types.localIndex 1 (basic 1) 4).extent := by
  rw [localindex_typemap]; simp [TMap.wf]

/-- … and when every cell is communicated and the buffer has exactly the total size, it *is* the concatenation -/
theorem gatherv_concat_full {α} (e : Nat) (parts : List (List α × Nat))
    (hl : ∀ p ∈ parts, p.1.length = p.2 * e) (out : List α)
    (hout : out.length = (parts.map (·.2)).sum * e) :
    Spec.gathervAt (full e) (parts.map (·.1)) (parts.map (·.2)) (Proofs.prefixSums (parts.map (·.2))) out
      = (parts.map (·.1)).flatten :=
  Proofs.gathervAt_prefix_full e parts hl out hout

example : Spec.gathervAt (full 1) [[1, 2], [], [3]] [2, 0, 1] (Proofs.prefixSums [2, 0, 1]) [0, 0, 0]
    = [1, 2, 3] := by decide

/-- `gather` is the equal-length case: the root's buffer is one transfer of the concatenation -/
theorem gather_concat {α} (tm : TMap) (hwf : tm.wf) (n : Nat) (ins : List (List α))
    (hl : ∀ inp ∈ ins, inp.length = n * tm.extent) (out : List α) :
    Spec.gatherAt tm n ins out = transferN tm (ins.length * n) ins.flatten 0 out 0 :=
  Proofs.gatherAt_concat tm hwf n ins hl out

/-- **scatterv** out of a concatenation with prefix-sum displacements hands rank `r` exactly its part -/
theorem scatterv_concat {α} (tm : TMap) (hwf : tm.wf) (parts : List (List α × Nat))
    (hl : ∀ p ∈ parts, p.1.length = p.2 * tm.extent) (r : Nat) (hr : r < parts.length) (rcv : List α) :
    Spec.scattervAt tm (parts.map (·.1)).flatten (parts[r].2) ((Proofs.prefixSums (parts.map (·.2))).getD r 0) rcv
      = transferN tm (parts[r].2) (parts[r].1) 0 rcv 0 :=
  Proofs.scattervAt_flatten tm hwf parts hl r hr rcv

/-- **scatterv_inverse.**  Scattering what `gatherv` collected gives every rank its own contribution back. -/
theorem scatterv_inverse {α} (e : Nat) (parts : List (List α × Nat))
    (hl : ∀ p ∈ parts, p.1.length = p.2 * e) (out : List α) (hout : out.length = (parts.map (·.2)).sum * e)
    (r : Nat) (hr : r < parts.length) (rcv : List α) (hrcv : rcv.length = parts[r].2 * e) :
    Spec.scattervAt (full e)
      (Spec.gathervAt (full e) (parts.map (·.1)) (parts.map (·.2)) (Proofs.prefixSums (parts.map (·.2))) out)
      (parts[r].2) ((Proofs.prefixSums (parts.map (·.2))).getD r 0) rcv = parts[r].1 :=
  Proofs.scatterv_gatherv_full e parts hl out hout r hr rcv hrcv

example : Spec.scattervAt (full 1) (Spec.gathervAt (full 1) [[1, 2], [], [3]] [2, 0, 1] (Proofs.prefixSums [2, 0, 1])
    [0, 0, 0]) 1 2 [9] = [3] := by decide

/-- **allreduce_rank_order.**  For an associative and commutative `op`, *every* reduction tree over *any*
permutation of the contributions evaluates to the left fold in rank order (MPI may choose tree and order because
the wrapper registers user ops as commutative). -/
theorem allreduce_rank_order {β : Type} (op : β → β → β) (hassoc : ∀ a b c, op (op a b) c = op a (op b c))
    (hcomm : ∀ a b, op a b = op b a) (t : Proofs.Tree β) (xs : List β) (hp : t.leaves.Perm xs) :
    some (t.eval op) = Spec.foldRanks op xs :=
  Proofs.tree_eval_eq_foldRanks op hassoc hcomm t xs hp

example : (Proofs.Tree.node (.leaf 3) (.node (.leaf 1) (.leaf 2))).leaves.Perm [1, 2, 3] := by decide

example : (Proofs.Tree.node (.leaf 3) (.node (.leaf 1) (.leaf 2))).eval (· + ·) = 6 := by decide

/-! ### seq_eq_oneproc — one obligation per collective of `Communication<No_Comm>` -/

theorem seq_eq_oneproc_sum_scalar {α} (e : Nat) (op : List α → List α → List α) (x : List α) (hx : x.length = e) :
    Spec.allreduceVal e 1 op [x] = Seq.reduceScalar x :=
  Proofs.seq_reduceScalar e op x hx

theorem seq_eq_oneproc_allreduce_inplace {α} (e len : Nat) (op : List α → List α → List α) (inout : List α)
    (h : len * e ≤ inout.length) :
    Spec.allreduce e len op [inout] [inout] = [Seq.reduceInplace inout len] :=
  Proofs.seq_reduceInplace e len op inout h

theorem seq_eq_oneproc_allreduce {α} (e len : Nat) (op : List α → List α → List α) (inp out : List α)
    (h : len * e ≤ inp.length) :
    Spec.allreduce e len op [inp] [out] = [Seq.allreduceInOut e inp out len] :=
  Proofs.seq_allreduceInOut e len op inp out h

example : Spec.allreduce 2 1 (fun a _ => a) [[1, 2, 3]] [[0, 0, 0]] = [Seq.allreduceInOut 2 [1, 2, 3] [0, 0, 0] 1] := by
  decide

theorem seq_eq_oneproc_iallreduce {α} (e n : Nat) (op : List α → List α → List α) (dataIn dataOut : List α)
    (hi : dataIn.length = n * e) (ho : dataOut.length = n * e) :
    Spec.allreduce e n op [dataIn] [dataOut] = [Seq.iallreduceInOut dataIn dataOut] :=
  Proofs.seq_iallreduceInOut e n op dataIn dataOut hi ho

theorem seq_eq_oneproc_iallreduce_inplace {α} (e n : Nat) (op : List α → List α → List α) (data : List α)
    (h : data.length = n * e) :
    Spec.allreduce e n op [data] [data] = [Seq.iallreduceInplace data] :=
  Proofs.seq_iallreduceInplace e n op data h

theorem seq_eq_oneproc_broadcast {α} (tm : TMap) (inout : List α) (len root : Nat) :
    Spec.bcast tm len 0 [inout] = [Seq.broadcast inout len root] := by
  simp [Spec.bcast, Seq.broadcast]

theorem seq_eq_oneproc_ibroadcast {α} (tm : TMap) (data : List α) (n root : Nat) :
    Spec.bcast tm n 0 [data] = [Seq.ibroadcast data root] := by
  simp [Spec.bcast, Seq.ibroadcast]

theorem seq_eq_oneproc_gather {α} (e : Nat) (inp out : List α) (len root : Nat) :
    Spec.gather (full e) len 0 [inp] [out] = [Seq.gather e inp out len root] :=
  Proofs.seq_gather e inp out len root

theorem seq_eq_oneproc_igather {α} (e : Nat) (dataIn dataOut : List α) (root : Nat) :
    Spec.gather (full e) 1 0 [dataIn] [dataOut] = [Seq.igather e dataIn dataOut root] :=
  Proofs.seq_igather e dataIn dataOut root

theorem seq_eq_oneproc_gatherv {α} (e : Nat) (inp : List α) (sendLen : Nat) (out : List α) (displ root : Nat) :
    Spec.gatherv (full e) 0 [inp] [sendLen] [displ] [out] = [Seq.gatherv e inp sendLen out sendLen displ root] :=
  Proofs.seq_gatherv e inp sendLen out displ root

theorem seq_eq_oneproc_scatter {α} (e : Nat) (send recv : List α) (len root : Nat) :
    Spec.scatter (full e) len 0 [send] [recv] = [Seq.scatter e send recv len root] :=
  Proofs.seq_scatter e send recv len root

theorem seq_eq_oneproc_iscatter {α} (e : Nat) (dataIn dataOut : List α) (root : Nat) :
    Spec.scatter (full e) 1 0 [dataIn] [dataOut] = [Seq.iscatter e dataIn dataOut root] :=
  Proofs.seq_iscatter e dataIn dataOut root

theorem seq_eq_oneproc_scatterv {α} (e : Nat) (send : List α) (sendLen displ : Nat) (recv : List α) (root : Nat) :
    Spec.scatterv (full e) 0 [send] [sendLen] [displ] [recv] = [Seq.scatterv e send sendLen displ recv sendLen root] :=
  Proofs.seq_scatterv e send sendLen displ recv root

theorem seq_eq_oneproc_allgather {α} (e : Nat) (sbuf : List α) (count : Nat) (rbuf : List α) :
    Spec.allgather (full e) count [sbuf] [rbuf] = [Seq.allgather e sbuf count rbuf] :=
  Proofs.seq_allgather e sbuf count rbuf

theorem seq_eq_oneproc_iallgather {α} (e : Nat) (dataIn dataOut : List α) :
    Spec.allgather (full e) 1 [dataIn] [dataOut] = [Seq.iallgather e dataIn dataOut] :=
  Proofs.seq_iallgather e dataIn dataOut

theorem seq_eq_oneproc_allgatherv {α} (e : Nat) (inp : List α) (sendLen : Nat) (out : List α) (displ : Nat) :
    Spec.allgatherv (full e) [inp] [sendLen] [displ] [out] = [Seq.allgatherv e inp sendLen out sendLen displ] :=
  Proofs.seq_allgatherv e inp sendLen out displ

/-- **seq_eq_oneproc for partially communicated types** (IndexPair, ParallelLocalIndex).  The stand-in assigns whole
objects where MPI moves only the typemap's blocks; every loop of the stand-in (`Seq.copyLoop`, of which all its
collectives consist) agrees with the MPI transfer on every communicated cell. -/
theorem seq_agrees_on_communicated_state {α} (tm : TMap) (hwf : tm.wf) (hpos : 0 < tm.extent) (src : List α) (io : Nat)
    (dst : List α) (oo len i : Nat) (hc : tm.covers ((i - oo * tm.extent) % tm.extent) = true) :
    (Seq.copyLoop tm.extent src io dst oo len)[i]? = (transferN tm len src (io * tm.extent) dst (oo * tm.extent))[i]? :=
  Proofs.seq_copy_agrees tm hwf hpos src io dst oo len i hc

-- gather of one IndexPair: MPI keeps local index / public / state of the receive buffer, the stand-in copies them;
-- global index (cell 0) and attribute (cell 2) agree
example : Seq.gather 5 [1, 2, 3, 0, 0] [5, 6, 7, 1, 1] 1 0 = [1, 2, 3, 0, 0] ∧
    Spec.gather (Types.indexPair 0 (basic 1) 1 (Types.localIndex 1 (basic 1) 4) 5) 1 0 [[1, 2, 3, 0, 0]] [[5, 6, 7, 1, 1]]
      = [[1, 6, 3, 1, 1]] := by decide

/-- the displacement matters: the repaired loop differs from the loop the unchanged tree had
(`for (i=*displ; i<sendDataLen; i++) out[i]=in[i]`), which gives `[0,0,3,0,0,0]` here -/
example : Seq.gatherv 1 [1, 2, 3] 3 [0, 0, 0, 0, 0, 0] 3 2 0 = [0, 0, 1, 2, 3, 0] := by decide

/-! ## (ii) MPIPack -/

/-- **pack_growth_sufficient.**  After the growth step of `MPIPack::pack` the bytes `MPI_Pack` writes fit: the
position never passes the end of the buffer, and the buffer up to the new position is the old content up to the
old position followed by the item's wire format. -/
theorem pack_growth_sufficient {α β} (C : Codec α β) (ofNat : Nat → α) (bound : Nat → Nat) (hb : ∀ k, k ≤ bound k)
    (zero : β) (st : PState β) (hpos : st.pos ≤ st.buf.length) (it : Item α β) :
    let st' := packItem C ofNat bound zero st it
    st'.pos ≤ st'.buf.length ∧ st'.pos = st.pos + (it.wire C ofNat).length ∧
      st'.buf.take st'.pos = st.buf.take st.pos ++ it.wire C ofNat :=
  Proofs.packItem_spec C ofNat bound hb zero st hpos it

-- with a pessimistic `MPI_Pack_size` (bound k = k + 3) the buffer is larger than the position, never smaller
example : (packItem idCodec Int.ofNat (· + 3) 0 ⟨[], 0⟩ (.dyn (basic 1) 2 [8, 9])).pos = 3 ∧
    (packItem idCodec Int.ofNat (· + 3) 0 ⟨[], 0⟩ (.dyn (basic 1) 2 [8, 9])).buf = [2, 8, 9, 0, 0, 0, 0, 0, 0] := by
  decide

/-- **pack_unpack_roundtrip.**  Whatever sequence of items is written (static, dynamic incl. empty, nested packs),
reading with destinations of the same kinds (`pairs` = (item, destination)) from the start position returns, item by item, what a direct MPI
transfer of the written value into the destination would have produced, and ends at the position the writer
ended at. -/
theorem pack_unpack_roundtrip {α β} (C : Codec α β) (ofNat : Nat → α) (toNat : α → Nat)
    (hnat : ∀ n, toNat (ofNat n) = n) (bound : Nat → Nat) (hb : ∀ k, k ≤ bound k) (zero : β)
    (st : PState β) (hpos : st.pos ≤ st.buf.length) (pairs : List (Item α β × Dest α β))
    (hwf : ∀ p ∈ pairs, Proofs.Item.wf p.1 ∧ Proofs.compatible p.1 p.2) :
    let st' := packAll C ofNat bound zero st (pairs.map (·.1))
    unpackAll C toNat zero ⟨st'.buf, st.pos⟩ (pairs.map (·.2))
      = (pairs.map (fun p => Proofs.received p.1 p.2), ⟨st'.buf, st'.pos⟩) :=
  Proofs.roundtrip C ofNat toNat hnat bound hb zero st hpos pairs hwf

-- the hypotheses hold for a vector of two IndexPairs read into an empty vector
example : Proofs.Item.wf (.dyn (Types.indexPair 0 (basic 1) 1 (Types.localIndex 1 (basic 1) 4) 5) 2
      [1, 2, 3, 0, 0, 4, 5, 6, 1, 1] : Item Int Int) ∧
    Proofs.compatible (.dyn (Types.indexPair 0 (basic 1) 1 (Types.localIndex 1 (basic 1) 4) 5) 2
      [1, 2, 3, 0, 0, 4, 5, 6, 1, 1] : Item Int Int)
      (.dyn (Types.indexPair 0 (basic 1) 1 (Types.localIndex 1 (basic 1) 4) 5) [0, 0, 0, 0, 0] []) := by
  rw [indexpair_typemap]; simp [Proofs.Item.wf, Proofs.compatible, TMap.wf]

/-- … so for fully communicated element types the reader gets the written cells, with the written length -/
theorem received_full_stat {α β} (e n : Nat) (cells dcells : List α) (hc : cells.length = n * e)
    (hd : dcells.length = n * e) :
    Proofs.received (β := β) (.stat (full e) n cells) (.stat (full e) n dcells) = .stat (full e) n cells :=
  Proofs.received_full_stat e n cells dcells hc hd

theorem received_full_dyn {α β} (e n m : Nat) (he : 0 < e) (cells dflt dcells : List α) (hc : cells.length = n * e)
    (hdf : dflt.length = e) (hd : dcells.length = m * e) :
    Proofs.received (β := β) (.dyn (full e) n cells) (.dyn (full e) dflt dcells) = .dyn (full e) dflt cells :=
  Proofs.received_full_dyn e n m he cells dflt dcells hc hdf hd

example : (unpackAll idCodec Int.toNat 0
    ⟨(packAll idCodec Int.ofNat id 0 ⟨[], 0⟩
        [.stat (basic 1) 1 [7], .dyn (basic 1) 0 [], .dyn (basic 1) 2 [8, 9], .raw [5, 5, 5]]).buf, 0⟩
    [.stat (basic 1) 1 [0], .dyn (basic 1) [0] [1, 1, 1], .dyn (basic 1) [0] [], .raw []]).1.map
      (fun d => match d with | .stat _ _ c => c | .dyn _ _ c => c | .raw b => b)
    = [[7], [], [8, 9], [5, 5, 5]] := by decide

end DV.C07
