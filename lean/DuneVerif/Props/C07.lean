import DuneVerif.Proofs.C07Ext
import DuneVerif.Proofs.C07Reg
import DuneVerif.Proofs.C07View
import DuneVerif.Gen.C07
/-!
# C07 — property theorems (statements only; the lemmas live in `Proofs/C07.lean`)

All theorems are for arbitrary cell types, arbitrary typemaps / lengths / process counts.  MPI itself (that a
transfer with a datatype moves exactly the typemap's blocks, that reductions with a commutative op fold the
contributions in some order and bracketing, that `MPI_Unpack` inverts `MPI_Pack` for a basic type) is the trusted
part and appears here as the *definitions* `transfer`, `Spec.*`, `Codec`.
-/
namespace DV.C07
open TMap

/-! ## (iii) datatypes -/

/-- **typemap_transfers_exactly.**  After moving one element of datatype `tm`, a destination cell holds the
corresponding source cell iff it lies in one of the typemap's blocks; every other cell is untouched. -/
theorem typemap_transfers_exactly {α} (tm : TMap) (src : List α) (soff : Nat) (dst : List α) (doff i : Nat) :
    (transfer tm src soff dst doff)[i]? =
      if doff ≤ i ∧ tm.covers (i - doff) = true then ovw src[soff + (i - doff)]? dst[i]? else dst[i]? :=
  Proofs.transfer_getElem? tm src soff dst doff i

theorem transfer_length {α} (tm : TMap) (src : List α) (soff : Nat) (dst : List α) (doff : Nat) :
    (transfer tm src soff dst doff).length = dst.length :=
  Proofs.transfer_length tm src soff dst doff

example : transfer (Types.indexPair 0 (basic 1) 1 (Types.localIndex 1 (basic 1) 4) 5) [10, 11, 12, 13, 14] 0
    [0, 1, 2, 3, 4] 0 = [10, 1, 12, 3, 4] := by decide

/-- **typemap_transfers_exactly, arrays.**  With all blocks inside the extent, `count` elements stride correctly:
cell `i` is overwritten iff its element index is `< n` and its position inside the element is covered. -/
theorem typemap_transfers_exactly_strided {α} (tm : TMap) (hwf : tm.wf) (hpos : 0 < tm.extent) (n : Nat)
    (src : List α) (soff : Nat) (dst : List α) (doff i : Nat) :
    (transferN tm n src soff dst doff)[i]? =
      if doff ≤ i ∧ (i - doff) / tm.extent < n ∧ tm.covers ((i - doff) % tm.extent) = true
      then ovw src[soff + (i - doff)]? dst[i]? else dst[i]? :=
  Proofs.transferN_getElem? tm hwf hpos n src soff dst doff i

example : transferN (Types.localIndex 1 (basic 1) 4) 2 [10, 11, 12, 13, 20, 21, 22, 23] 0
    [0, 0, 0, 0, 0, 0, 0, 0, 0] 0 = [0, 11, 0, 0, 0, 21, 0, 0, 0] := by decide

/-- a transfer is `MPI_Unpack ∘ MPI_Pack` -/
theorem transfer_eq_unpack_pack {α} (tm : TMap) (src : List α) (soff : Nat) (dst : List α) (doff : Nat)
    (hsrc : ∀ b ∈ tm.blocks, soff + b.1 + b.2 ≤ src.length) :
    unpackElem tm (packElem tm src soff) dst doff = transfer tm src soff dst doff :=
  Proofs.unpack_pack_elem tm src soff dst doff hsrc

/-- **indexpair_typemap = {global, attribute}.**  The datatype built in remoteindices.hh / plocalindex.hh consists
of exactly the block of `global_` and the one byte `attribute_` inside `local_`; its extent is `sizeof`. -/
theorem indexpair_typemap (offG szG offL offA szL size : Nat) :
    Types.indexPair offG (basic szG) offL (Types.localIndex offA (basic 1) szL) size
      = ⟨[(offG, szG), (offL + offA, 1)], size⟩ := by
  simp [Types.indexPair, Types.localIndex, resized, struct, contiguous, basic, shift, List.range_succ, List.range_zero]

-- the hypotheses hold for the IndexPair datatype at cell level
example : (Types.indexPair 0 (basic 1) 1 (Types.localIndex 1 (basic 1) 4) 5).wf ∧
    0 < (Types.indexPair 0 (basic 1) 1 (Types.localIndex 1 (basic 1) 4) 5).extent := by
  rw [indexpair_typemap]; simp [TMap.wf]

theorem localindex_typemap (offA size : Nat) :
    Types.localIndex offA (basic 1) size = ⟨[(offA, 1)], size⟩ := by
  simp [Types.localIndex, resized, struct, contiguous, basic, shift, List.range_succ, List.range_zero]

theorem pair_typemap (off1 s1 off2 s2 size : Nat) :
    Types.pair off1 (basic s1) off2 (basic s2) size = ⟨[(off1, s1), (off2, s2)], size⟩ := by
  simp [Types.pair, resized, struct, contiguous, basic, shift, List.range_succ, List.range_zero]

-- hypothesis of `transfer_eq_unpack_pack` for a pair stored in two cells
example : ∀ b ∈ (Types.pair 0 (basic 1) 1 (basic 1) 2).blocks, 0 + b.1 + b.2 ≤ [10, 20].length := by
  rw [pair_typemap]; simp

/-- `FieldVector<K,n>` / `bigunsignedint<k>`: every cell of the `n` components (digits) is communicated, nothing else -/
theorem fieldvector_typemap (d n w : Nat) (j : Nat) :
    (Types.fieldVector d n (basic w)).covers j = true ↔ d ≤ j ∧ j < d + n * w :=
  Proofs.fieldVector_covers d n w j

theorem fieldvector_extent (d n w : Nat) : (Types.fieldVector d n (basic w)).extent = d + n * w := by
  simp [Types.fieldVector, struct, ub, contiguous, basic]

theorem bigunsigned_typemap (d n w : Nat) (j : Nat) :
    (Types.bigUnsigned d n (basic w)).covers j = true ↔ d ≤ j ∧ j < d + n * w :=
  Proofs.fieldVector_covers d n w j

/-- numbers: the whole object -/
theorem basic_typemap (w j : Nat) : (basic w).covers j = true ↔ j < w := by
  simp [basic, covers]

/-- IndexPair: exactly global index and attribute travel (instance of `typemap_transfers_exactly`) -/
theorem indexpair_transfers_global_and_attribute {α} (offG szG offL offA szL size : Nat) (src dst : List α) (i : Nat) :
    (transfer (Types.indexPair offG (basic szG) offL (Types.localIndex offA (basic 1) szL) size) src 0 dst 0)[i]? =
      if (offG ≤ i ∧ i < offG + szG) ∨ i = offL + offA then ovw src[i]? dst[i]? else dst[i]? := by
  rw [typemap_transfers_exactly, indexpair_typemap]
  have : (covers ⟨[(offG, szG), (offL + offA, 1)], size⟩ i = true) ↔
      ((offG ≤ i ∧ i < offG + szG) ∨ i = offL + offA) := by
    simp [covers]; omega
  simp only [Nat.zero_le, true_and, Nat.sub_zero, Nat.zero_add, this]

/-! ## (i) collectives -/

/-- **gatherv_concat.**  With prefix-sum displacements the root's receive buffer is what one transfer of the
concatenation of all contributions (in rank order) gives.  (`parts` = every rank's (send buffer, element count).) -/
theorem gatherv_concat {α} (tm : TMap) (hwf : tm.wf) (parts : List (List α × Nat))
    (hl : ∀ p ∈ parts, p.1.length = p.2 * tm.extent) (out : List α) :
    Spec.gathervAt tm (parts.map (·.1)) (parts.map (·.2)) (Proofs.prefixSums (parts.map (·.2))) out
      = transferN tm (parts.map (·.2)).sum (parts.map (·.1)).flatten 0 out 0 :=
  Proofs.gathervAt_prefix tm hwf parts hl out

-- three ranks with 2, 0 and 1 ParallelLocalIndex elements (4 cells each) satisfy the hypotheses
example : (Types.localIndex 1 (basic 1) 4).wf ∧
    ∀ p ∈ [([1, 2, 3, 4, 5, 6, 7, 8], 2), ([], 0), ([9, 10, 11, 12], 1)],
      p.1.length = p.2 * (Types.localIndex 1 (basic 1) 4).extent := by
  rw [localindex_typemap]; simp [TMap.wf]

/-- … and when every cell is communicated and the buffer has exactly the total size, it *is* the concatenation -/
theorem gatherv_concat_full {α} (e : Nat) (parts : List (List α × Nat))
    (hl : ∀ p ∈ parts, p.1.length = p.2 * e) (out : List α)
    (hout : out.length = (parts.map (·.2)).sum * e) :
    Spec.gathervAt (full e) (parts.map (·.1)) (parts.map (·.2)) (Proofs.prefixSums (parts.map (·.2))) out
      = (parts.map (·.1)).flatten :=
  Proofs.gathervAt_prefix_full e parts hl out hout

example : Spec.gathervAt (full 1) [[1, 2], [], [3]] [2, 0, 1] (Proofs.prefixSums [2, 0, 1]) [0, 0, 0]
    = [1, 2, 3] := by decide

/-- `gather` is the equal-length case: the root's buffer is one transfer of the concatenation -/
theorem gather_concat {α} (tm : TMap) (hwf : tm.wf) (n : Nat) (ins : List (List α))
    (hl : ∀ inp ∈ ins, inp.length = n * tm.extent) (out : List α) :
    Spec.gatherAt tm n ins out = transferN tm (ins.length * n) ins.flatten 0 out 0 :=
  Proofs.gatherAt_concat tm hwf n ins hl out

/-- **scatterv** out of a concatenation with prefix-sum displacements hands rank `r` exactly its part -/
theorem scatterv_concat {α} (tm : TMap) (hwf : tm.wf) (parts : List (List α × Nat))
    (hl : ∀ p ∈ parts, p.1.length = p.2 * tm.extent) (r : Nat) (hr : r < parts.length) (rcv : List α) :
    Spec.scattervAt tm (parts.map (·.1)).flatten (parts[r].2) ((Proofs.prefixSums (parts.map (·.2))).getD r 0) rcv
      = transferN tm (parts[r].2) (parts[r].1) 0 rcv 0 :=
  Proofs.scattervAt_flatten tm hwf parts hl r hr rcv

/-- **scatterv_inverse.**  Scattering what `gatherv` collected gives every rank its own contribution back. -/
theorem scatterv_inverse {α} (e : Nat) (parts : List (List α × Nat))
    (hl : ∀ p ∈ parts, p.1.length = p.2 * e) (out : List α) (hout : out.length = (parts.map (·.2)).sum * e)
    (r : Nat) (hr : r < parts.length) (rcv : List α) (hrcv : rcv.length = parts[r].2 * e) :
    Spec.scattervAt (full e)
      (Spec.gathervAt (full e) (parts.map (·.1)) (parts.map (·.2)) (Proofs.prefixSums (parts.map (·.2))) out)
      (parts[r].2) ((Proofs.prefixSums (parts.map (·.2))).getD r 0) rcv = parts[r].1 :=
  Proofs.scatterv_gatherv_full e parts hl out hout r hr rcv hrcv

example : Spec.scattervAt (full 1) (Spec.gathervAt (full 1) [[1, 2], [], [3]] [2, 0, 1] (Proofs.prefixSums [2, 0, 1])
    [0, 0, 0]) 1 2 [9] = [3] := by decide

/-- **allreduce_rank_order.**  For an associative and commutative `op`, *every* reduction tree over *any*
permutation of the contributions evaluates to the left fold in rank order (MPI may choose tree and order because
the wrapper registers user ops as commutative). -/
theorem allreduce_rank_order {β : Type} (op : β → β → β) (hassoc : ∀ a b c, op (op a b) c = op a (op b c))
    (hcomm : ∀ a b, op a b = op b a) (t : Proofs.Tree β) (xs : List β) (hp : t.leaves.Perm xs) :
    some (t.eval op) = Spec.foldRanks op xs :=
  Proofs.tree_eval_eq_foldRanks op hassoc hcomm t xs hp

example : (Proofs.Tree.node (.leaf 3) (.node (.leaf 1) (.leaf 2))).leaves.Perm [1, 2, 3] := by decide

example : (Proofs.Tree.node (.leaf 3) (.node (.leaf 1) (.leaf 2))).eval (· + ·) = 6 := by decide

/-! ### seq_eq_oneproc — one obligation per collective of `Communication<No_Comm>` -/

theorem seq_eq_oneproc_sum_scalar {α} (e : Nat) (op : List α → List α → List α) (x : List α) (hx : x.length = e) :
    Spec.allreduceVal e 1 op [x] = Seq.reduceScalar x :=
  Proofs.seq_reduceScalar e op x hx

theorem seq_eq_oneproc_allreduce_inplace {α} (e len : Nat) (op : List α → List α → List α) (inout : List α)
    (h : len * e ≤ inout.length) :
    Spec.allreduce e len op [inout] [inout] = [Seq.reduceInplace inout len] :=
  Proofs.seq_reduceInplace e len op inout h

theorem seq_eq_oneproc_allreduce {α} (e len : Nat) (op : List α → List α → List α) (inp out : List α)
    (h : len * e ≤ inp.length) :
    Spec.allreduce e len op [inp] [out] = [Seq.allreduceInOut e inp out len] :=
  Proofs.seq_allreduceInOut e len op inp out h

example : Spec.allreduce 2 1 (fun a _ => a) [[1, 2, 3]] [[0, 0, 0]] = [Seq.allreduceInOut 2 [1, 2, 3] [0, 0, 0] 1] := by
  decide

theorem seq_eq_oneproc_iallreduce {α} (e n : Nat) (op : List α → List α → List α) (dataIn dataOut : List α)
    (hi : dataIn.length = n * e) (ho : dataOut.length = n * e) :
    Spec.allreduce e n op [dataIn] [dataOut] = [Seq.iallreduceInOut dataIn dataOut] :=
  Proofs.seq_iallreduceInOut e n op dataIn dataOut hi ho

theorem seq_eq_oneproc_iallreduce_inplace {α} (e n : Nat) (op : List α → List α → List α) (data : List α)
    (h : data.length = n * e) :
    Spec.allreduce e n op [data] [data] = [Seq.iallreduceInplace data] :=
  Proofs.seq_iallreduceInplace e n op data h

theorem seq_eq_oneproc_broadcast {α} (tm : TMap) (inout : List α) (len root : Nat) :
    Spec.bcast tm len 0 [inout] = [Seq.broadcast inout len root] := by
  simp [Spec.bcast, Seq.broadcast]

theorem seq_eq_oneproc_ibroadcast {α} (tm : TMap) (data : List α) (n root : Nat) :
    Spec.bcast tm n 0 [data] = [Seq.ibroadcast data root] := by
  simp [Spec.bcast, Seq.ibroadcast]

theorem seq_eq_oneproc_gather {α} (e : Nat) (inp out : List α) (len root : Nat) :
    Spec.gather (full e) len 0 [inp] [out] = [Seq.gather e inp out len root] :=
  Proofs.seq_gather e inp out len root

theorem seq_eq_oneproc_igather {α} (e : Nat) (dataIn dataOut : List α) (root : Nat) :
    Spec.gather (full e) 1 0 [dataIn] [dataOut] = [Seq.igather e dataIn dataOut root] :=
  Proofs.seq_igather e dataIn dataOut root

theorem seq_eq_oneproc_gatherv {α} (e : Nat) (inp : List α) (sendLen : Nat) (out : List α) (displ root : Nat) :
    Spec.gatherv (full e) 0 [inp] [sendLen] [displ] [out] = [Seq.gatherv e inp sendLen out sendLen displ root] :=
  Proofs.seq_gatherv e inp sendLen out displ root

theorem seq_eq_oneproc_scatter {α} (e : Nat) (send recv : List α) (len root : Nat) :
    Spec.scatter (full e) len 0 [send] [recv] = [Seq.scatter e send recv len root] :=
  Proofs.seq_scatter e send recv len root

theorem seq_eq_oneproc_iscatter {α} (e : Nat) (dataIn dataOut : List α) (root : Nat) :
    Spec.scatter (full e) 1 0 [dataIn] [dataOut] = [Seq.iscatter e dataIn dataOut root] :=
  Proofs.seq_iscatter e dataIn dataOut root

theorem seq_eq_oneproc_scatterv {α} (e : Nat) (send : List α) (sendLen displ : Nat) (recv : List α) (root : Nat) :
    Spec.scatterv (full e) 0 [send] [sendLen] [displ] [recv] = [Seq.scatterv e send sendLen displ recv sendLen root] :=
  Proofs.seq_scatterv e send sendLen displ recv root

theorem seq_eq_oneproc_allgather {α} (e : Nat) (sbuf : List α) (count : Nat) (rbuf : List α) :
    Spec.allgather (full e) count [sbuf] [rbuf] = [Seq.allgather e sbuf count rbuf] :=
  Proofs.seq_allgather e sbuf count rbuf

theorem seq_eq_oneproc_iallgather {α} (e : Nat) (dataIn dataOut : List α) :
    Spec.allgather (full e) 1 [dataIn] [dataOut] = [Seq.iallgather e dataIn dataOut] :=
  Proofs.seq_iallgather e dataIn dataOut

theorem seq_eq_oneproc_allgatherv {α} (e : Nat) (inp : List α) (sendLen : Nat) (out : List α) (displ : Nat) :
    Spec.allgatherv (full e) [inp] [sendLen] [displ] [out] = [Seq.allgatherv e inp sendLen out sendLen displ] :=
  Proofs.seq_allgatherv e inp sendLen out displ

/-- **seq_eq_oneproc for partially communicated types** (IndexPair, ParallelLocalIndex).  The stand-in assigns whole
objects where MPI moves only the typemap's blocks; every loop of the stand-in (`Seq.copyLoop`, of which all its
collectives consist) agrees with the MPI transfer on every communicated cell. -/
theorem seq_agrees_on_communicated_state {α} (tm : TMap) (hwf : tm.wf) (hpos : 0 < tm.extent) (src : List α) (io : Nat)
    (dst : List α) (oo len i : Nat) (hc : tm.covers ((i - oo * tm.extent) % tm.extent) = true) :
    (Seq.copyLoop tm.extent src io dst oo len)[i]? = (transferN tm len src (io * tm.extent) dst (oo * tm.extent))[i]? :=
  Proofs.seq_copy_agrees tm hwf hpos src io dst oo len i hc

-- gather of one IndexPair: MPI keeps local index / public / state of the receive buffer, the stand-in copies them;
-- global index (cell 0) and attribute (cell 2) agree
example : Seq.gather 5 [1, 2, 3, 0, 0] [5, 6, 7, 1, 1] 1 0 = [1, 2, 3, 0, 0] ∧
    Spec.gather (Types.indexPair 0 (basic 1) 1 (Types.localIndex 1 (basic 1) 4) 5) 1 0 [[1, 2, 3, 0, 0]] [[5, 6, 7, 1, 1]]
      = [[1, 6, 3, 1, 1]] := by decide

/-- the displacement matters: the repaired loop differs from the loop the unchanged tree had
(`for (i=*displ; i<sendDataLen; i++) out[i]=in[i]`), which gives `[0,0,3,0,0,0]` here -/
example : Seq.gatherv 1 [1, 2, 3] 3 [0, 0, 0, 0, 0, 0] 3 2 0 = [0, 0, 1, 2, 3, 0] := by decide

/-! ## (ii) MPIPack -/

/-- **pack_growth_sufficient.**  After the growth step of `MPIPack::pack` the bytes `MPI_Pack` writes fit: the
position never passes the end of the buffer, and the buffer up to the new position is the old content up to the
old position followed by the item's wire format. -/
theorem pack_growth_sufficient {α β} (C : Codec α β) (ofNat : Nat → α) (bound : Nat → Nat) (hb : ∀ k, k ≤ bound k)
    (zero : β) (st : PState β) (hpos : st.pos ≤ st.buf.length) (it : Item α β) :
    let st' := packItem C ofNat bound zero st it
    st'.pos ≤ st'.buf.length ∧ st'.pos = st.pos + (it.wire C ofNat).length ∧
      st'.buf.take st'.pos = st.buf.take st.pos ++ it.wire C ofNat :=
  Proofs.packItem_spec C ofNat bound hb zero st hpos it

-- with a pessimistic `MPI_Pack_size` (bound k = k + 3) the buffer is larger than the position, never smaller
example : (packItem idCodec Int.ofNat (· + 3) 0 ⟨[], 0⟩ (.dyn (basic 1) 2 [8, 9])).pos = 3 ∧
    (packItem idCodec Int.ofNat (· + 3) 0 ⟨[], 0⟩ (.dyn (basic 1) 2 [8, 9])).buf = [2, 8, 9, 0, 0, 0, 0, 0, 0] := by
  decide

/-- **pack_unpack_roundtrip.**  Whatever sequence of items is written (static, dynamic incl. empty, nested packs),
reading with destinations of the same kinds (`pairs` = (item, destination)) from the start position returns, item by item, what a direct MPI
transfer of the written value into the destination would have produced, and ends at the position the writer
ended at. -/
theorem pack_unpack_roundtrip {α β} (C : Codec α β) (ofNat : Nat → α) (toNat : α → Nat)
    (hnat : ∀ n, toNat (ofNat n) = n) (bound : Nat → Nat) (hb : ∀ k, k ≤ bound k) (zero : β)
    (st : PState β) (hpos : st.pos ≤ st.buf.length) (pairs : List (Item α β × Dest α β))
    (hwf : ∀ p ∈ pairs, Proofs.Item.wf p.1 ∧ Proofs.compatible p.1 p.2) :
    let st' := packAll C ofNat bound zero st (pairs.map (·.1))
    unpackAll C toNat zero ⟨st'.buf, st.pos⟩ (pairs.map (·.2))
      = (pairs.map (fun p => Proofs.received p.1 p.2), ⟨st'.buf, st'.pos⟩) :=
  Proofs.roundtrip C ofNat toNat hnat bound hb zero st hpos pairs hwf

-- the hypotheses hold for a vector of two IndexPairs read into an empty vector
example : Proofs.Item.wf (.dyn (Types.indexPair 0 (basic 1) 1 (Types.localIndex 1 (basic 1) 4) 5) 2
      [1, 2, 3, 0, 0, 4, 5, 6, 1, 1] : Item Int Int) ∧
    Proofs.compatible (.dyn (Types.indexPair 0 (basic 1) 1 (Types.localIndex 1 (basic 1) 4) 5) 2
      [1, 2, 3, 0, 0, 4, 5, 6, 1, 1] : Item Int Int)
      (.dyn (Types.indexPair 0 (basic 1) 1 (Types.localIndex 1 (basic 1) 4) 5) [0, 0, 0, 0, 0] []) := by
  rw [indexpair_typemap]; simp [Proofs.Item.wf, Proofs.compatible, TMap.wf]

/-- … so for fully communicated element types the reader gets the written cells, with the written length -/
theorem received_full_stat {α β} (e n : Nat) (cells dcells : List α) (hc : cells.length = n * e)
    (hd : dcells.length = n * e) :
    Proofs.received (β := β) (.stat (full e) n cells) (.stat (full e) n dcells) = .stat (full e) n cells :=
  Proofs.received_full_stat e n cells dcells hc hd

theorem received_full_dyn {α β} (e n m : Nat) (he : 0 < e) (cells dflt dcells : List α) (hc : cells.length = n * e)
    (hdf : dflt.length = e) (hd : dcells.length = m * e) :
    Proofs.received (β := β) (.dyn (full e) n cells) (.dyn (full e) dflt dcells) = .dyn (full e) dflt cells :=
  Proofs.received_full_dyn e n m he cells dflt dcells hc hdf hd

example : (unpackAll idCodec Int.toNat 0
    ⟨(packAll idCodec Int.ofNat id 0 ⟨[], 0⟩
        [.stat (basic 1) 1 [7], .dyn (basic 1) 0 [], .dyn (basic 1) 2 [8, 9], .raw [5, 5, 5]]).buf, 0⟩
    [.stat (basic 1) 1 [0], .dyn (basic 1) [0] [1, 1, 1], .dyn (basic 1) [0] [], .raw []]).1.map
      (fun d => match d with | .stat _ _ c => c | .dyn _ _ c => c | .raw b => b)
    = [[7], [], [8, 9], [5, 5, 5]] := by decide


/-! # Round two -/

/-! ## (iii) datatypes: nested members, the predefined handles -/

/-- **struct_covers / contiguous_covers.**  For *any* nesting of `MPI_Type_create_struct`, `MPI_Type_contiguous`
and `MPI_Type_create_resized` (pairs of pairs, pairs of FieldVectors, …): a cell is communicated iff some member,
in one of its `count` copies, communicates it. -/
theorem struct_covers (members : List (Nat × Nat × TMap)) (j : Nat) :
    (struct members).covers j = true ↔
      ∃ m ∈ members, m.1 ≤ j ∧ (contiguous m.2.1 m.2.2).covers (j - m.1) = true :=
  Proofs.struct_covers members j

theorem contiguous_covers (n : Nat) (t : TMap) (j : Nat) :
    (contiguous n t).covers j = true ↔ ∃ k, k < n ∧ k * t.extent ≤ j ∧ t.covers (j - k * t.extent) = true :=
  Proofs.contiguous_covers n t j

theorem resized_covers (t : TMap) (ext j : Nat) : (resized t ext).covers j = t.covers j := rfl

-- pair<FieldVector<int,3>, char> at cell level: cells 0..2 and 3 are covered, the padding cell 4 is not
example : (List.range 6).map (Types.pair 0 (Types.fieldVector 0 3 (basic 1)) 3 (basic 1) 5).covers
    = [true, true, true, true, false, false] := by decide

/-- **the resize step.**  The extent of the pair / IndexPair / ParallelLocalIndex datatypes is the `sizeof` handed to
`MPI_Type_create_resized`, whatever the members are and wherever they end (tail padding, members that MPI only knows
as bytes) — the stride of arrays (`typemap_transfers_exactly_strided`) depends on exactly this. -/
theorem resized_extents (off1 off2 size offA : Nat) (t1 t2 c : TMap) :
    (Types.pair off1 t1 off2 t2 size).extent = size ∧ (Types.indexPair off1 t1 off2 t2 size).extent = size ∧
      (Types.localIndex offA c size).extent = size := ⟨rfl, rfl, rfl⟩

/-- a pair communicates exactly what its two members communicate, for *arbitrary* member datatypes (pairs of pairs,
of FieldVectors, of byte blobs) -/
theorem pair_covers (off1 off2 size : Nat) (t1 t2 : TMap) (j : Nat) :
    (Types.pair off1 t1 off2 t2 size).covers j = true ↔
      (off1 ≤ j ∧ t1.covers (j - off1) = true) ∨ (off2 ≤ j ∧ t2.covers (j - off2) = true) :=
  Proofs.pair_covers off1 off2 size t1 t2 j

/-- **arrays of pairs.**  `count` pairs stride by `sizeof(pair)`: cell `i` is overwritten iff its pair index is
`< n` and its offset inside the pair lies in a communicated cell of `first` or `second`. -/
theorem pair_array_transfers {α} (off1 off2 size : Nat) (t1 t2 : TMap)
    (h1 : ∀ b ∈ t1.blocks, off1 + b.1 + b.2 ≤ size) (h2 : ∀ b ∈ t2.blocks, off2 + b.1 + b.2 ≤ size) (hpos : 0 < size)
    (n : Nat) (src dst : List α) (i : Nat) :
    (transferN (Types.pair off1 t1 off2 t2 size) n src 0 dst 0)[i]? =
      if i / size < n ∧ ((off1 ≤ i % size ∧ t1.covers (i % size - off1) = true) ∨
                         (off2 ≤ i % size ∧ t2.covers (i % size - off2) = true))
      then ovw src[i]? dst[i]? else dst[i]? := by
  rw [typemap_transfers_exactly_strided _ (Proofs.pair_wf off1 off2 size t1 t2 h1 h2) hpos]
  have hext : (Types.pair off1 t1 off2 t2 size).extent = size := rfl
  simp only [hext, Nat.zero_le, true_and, Nat.sub_zero, Nat.zero_add, Proofs.pair_covers]

-- pair<long long, char> with one padding cell (sizeof = 3 cells): with the resize step two pairs are moved
-- correctly; with the bare struct (extent = 2, what MPI computes when it only sees bytes) the second pair is read
-- from and written to the wrong cells
example : transferN (Types.pair 0 (contiguous 1 (basic 1)) 1 (basic 1) 3) 2 [1, 2, 0, 3, 4, 0] 0 [9, 9, 9, 9, 9, 9] 0
      = [1, 2, 9, 3, 4, 9] ∧
    transferN (struct [(0, 1, contiguous 1 (basic 1)), (1, 1, basic 1)]) 2 [1, 2, 0, 3, 4, 0] 0 [9, 9, 9, 9, 9, 9] 0
      = [1, 2, 0, 3, 9, 9] := by decide

-- the hypotheses hold for the nested pair<pair<long long,char>,short> of the harness at byte level
example : (∀ b ∈ (Types.pair 0 (contiguous 8 (basic 1)) 8 (basic 1) 16).blocks, 0 + b.1 + b.2 ≤ 24) ∧
    (∀ b ∈ (basic 2).blocks, 16 + b.1 + b.2 ≤ 24) := by decide

/-- **traits_table_sound.**  Every line `ComposeMPITraits(p, m)` of the current mpitraits.hh maps the C++ type `p` to
the predefined datatype that the MPI standard defines for `p`; no type is listed twice.  (The table is regenerated
from the source on every run.) -/
theorem traits_table_sound :
    (∀ r ∈ Gen.traitsTable, mpiCType r.2 = some r.1) ∧ (Gen.traitsTable.map (·.1)).Nodup := by decide

/-- **op_table_sound.**  `ComposeMPIOp(func, op)` replaces a functor on an intrinsic type by the predefined MPI
operation that computes that functor. -/
theorem op_table_sound :
    (∀ r ∈ Gen.opTable, mpiOpFunctor r.2 = some r.1) ∧ (Gen.opTable.map (·.1)).Nodup := by decide

/-- **builtin_ops_defined.**  Every `ComposeMPITraits` line makes its type `is_intrinsic`, and `Generic_MPI_Op` then
hands the four named functors on that type to the predefined operation of `Gen.opTable`: that operation must be one
the MPI standard defines on the line's datatype (otherwise every `sum`/`prod`/`min`/`max` of that element type is
erroneous, `MPI_ERR_OP`).  `Min`/`Max` on a complex type are not instantiable (no `operator<`), so those pairs are
exempt.  A line for `bool` (`MPI_CXX_BOOL`, a logical type) breaks this. -/
theorem builtin_ops_defined :
    ∀ r ∈ Gen.traitsTable, ∀ o ∈ Gen.opTable,
      (mpiOpDefinedOn o.2 r.2 || ((o.1 == "Min" || o.1 == "Max") && mpiTypeClass r.2 == some "complex")) = true := by
  decide

/-- **user_op_registration.**  User functors are registered with `commute = false`, and the callback computes
`inout[i] = func(in[i], inout[i])` — the operand order MPI prescribes (`in` holds the lower ranks' partial result). -/
theorem user_op_registration :
    Gen.userOpCommute = false ∧ Gen.userOpArgs = ["in", "inout"] ∧ Gen.userOpTarget = "inout" := by decide

/-! ### R3: the lazily created singletons (`MPI_Op` per `Generic_MPI_Op<Type,BinaryFunction>`, `MPI_Datatype` per
`MPITraits<…>`) — what a call returns does not depend on the calls before it -/

/-- **singleton_history_independent.**  For any table of class templates in which every template parameter that the
creating code depends on also selects the storage of the handle: after *any* history of `get()`/`getType()` calls of
any instantiations (from the empty state of a fresh process), every call obtains a handle whose creator agrees with the
caller on all parameters the creation depends on — i.e. the handle its own `create()` would have built. -/
theorem singleton_history_independent (tbl : List Reg.Row) (hsub : ∀ r ∈ tbl, ∀ p ∈ r.used, p ∈ r.slot)
    (hist : List Reg.Use) (u : Reg.Use) :
    Reg.faithful tbl u (Reg.get tbl (Reg.run tbl [] hist) u).1 = true :=
  Proofs.get_faithful tbl hsub _ u (Proofs.run_inv tbl hist [] (Proofs.inv_nil tbl))

/-- … and the cells of the static storage are only ever filled by an instantiation that selects that cell. -/
theorem singleton_storage_invariant (tbl : List Reg.Row) (hist : List Reg.Use) :
    ∀ e ∈ Reg.run tbl [] hist, ∃ r, Reg.rowOf tbl e.1.1 = some r ∧ e.1.2 = Reg.proj r.slot e.2 :=
  Proofs.run_inv tbl hist [] (Proofs.inv_nil tbl)

/-- **singleton_table_sound.**  In the current sources (`Gen.singletonTable`, extracted by `tr_c07.py`) the seven class
templates that create a handle lazily are the ones the model knows, and in each of them every template parameter the
creation depends on selects the storage (`Type` and `BinaryFunction` for the user-op singleton; all arguments of
`FieldVector<K,n>`, `bigunsignedint<k>`, `std::pair<T1,T2>`, `ParallelLocalIndex<T>`, `IndexPair<TG,…<TA>>`, and `T`
for the byte-wise fallback). -/
theorem singleton_table_sound :
    (∀ r ∈ Gen.singletonTable, ∀ p ∈ r.used, p ∈ r.slot) ∧
    Gen.singletonTable.map (·.family) =
      ["Generic_MPI_Op<$1,$2,$3>", "MPITraits<$1>", "MPITraits<FieldVector<$1,$2>>", "MPITraits<bigunsignedint<$1>>",
       "MPITraits<std::pair<$1,$2>>", "MPITraits<ParallelLocalIndex<$1>>",
       "MPITraits<IndexPair<$1,ParallelLocalIndex<$2>>>"] ∧
    (∀ r ∈ Gen.singletonTable, r.used ≠ []) := by decide

/-- **user_op_per_type_and_functor.**  Hence, in the current sources, a reduction with element type `ty` and functor
`fn` — whatever reductions, transfers and packs with whatever element types and functors the process performed before,
step by step — runs the callback instantiated for this very `(Type, BinaryFunction)` and uses the datatype built for
this very type: no step of any history is served a foreign handle. -/
theorem user_op_per_type_and_functor (steps : List (List Reg.Use)) :
    ∀ b ∈ Reg.runSteps Gen.singletonTable [] steps, b = true :=
  Proofs.runSteps_all Gen.singletonTable singleton_table_sound.1 steps [] (Proofs.inv_nil _)

-- a generic functor (`std::plus<>`) first used with `long`, then with `double`, and `FieldVector<int,2>` after
-- `FieldVector<int,3>`: every step gets its own handles
example : Reg.runSteps Gen.singletonTable []
    [opUses "long" "gsum", tyUses "fv3" ++ opUses "fv3" "gsum", opUses "double" "gsum", tyUses "fv2"] = [true, true, true, true] := by
  decide
-- non-vacuity of the hypothesis: a table whose user-op storage is selected by the functor alone (what the seeded change
-- C07_w2m1 does) serves `double` the handle created for `long` …
example : Reg.runSteps [⟨"Generic_MPI_Op<$1,$2,$3>", ["2"], ["1", "2"]⟩] []
    [opUses "long" "gsum", opUses "double" "gsum", opUses "double" "sum", opUses "long" "gsum"] = [true, false, true, true] := by
  decide
-- … and a datatype stored per `K` of `FieldVector<K,n>` serves `FieldVector<int,2>` the type built for `FieldVector<int,3>`
example : Reg.runSteps [⟨"MPITraits<FieldVector<$1,$2>>", ["1"], ["1", "2"]⟩] [] [tyUses "fv3", tyUses "fv2"] = [true, false] := by
  decide

/-! ## (i) collectives -/

/-- **gatherv for arbitrary displacement layouts** (gaps, reversed, any order): a cell of the root's buffer that lies
in a communicated block of rank `k`'s segment and in no later rank's segment holds rank `k`'s cell
(`segs` = per rank (send buffer, count, displacement), `pre ++ s :: post` splits at rank `k`). -/
theorem gatherv_cells {α} (tm : TMap) (hwf : tm.wf) (hpos : 0 < tm.extent) (pre post : List (List α × Nat × Nat))
    (s : List α × Nat × Nat) (hs : s.1.length = s.2.1 * tm.extent) (out : List α) (i : Nat) (hi : i < out.length)
    (hin : Proofs.inSeg tm s.2.1 s.2.2 i) (hpost : ∀ t ∈ post, ¬ Proofs.inSeg tm t.2.1 t.2.2 i) :
    (Spec.gathervAt tm ((pre ++ s :: post).map (·.1)) ((pre ++ s :: post).map (·.2.1))
        ((pre ++ s :: post).map (·.2.2)) out)[i]? = s.1[i - s.2.2 * tm.extent]? := by
  rw [Proofs.gathervAt_eq_fold]
  exact Proofs.gathervFold_last tm hwf hpos pre post s hs out i hi hin hpost

/-- … and a cell in nobody's segment is untouched. -/
theorem gatherv_untouched {α} (tm : TMap) (hwf : tm.wf) (hpos : 0 < tm.extent) (segs : List (List α × Nat × Nat))
    (out : List α) (i : Nat) (h : ∀ t ∈ segs, ¬ Proofs.inSeg tm t.2.1 t.2.2 i) :
    (Spec.gathervAt tm (segs.map (·.1)) (segs.map (·.2.1)) (segs.map (·.2.2)) out)[i]? = out[i]? := by
  rw [Proofs.gathervAt_eq_fold]
  exact Proofs.gathervFold_untouched tm hwf hpos segs out i h

-- reversed layout with a gap: rank 0's two ints land at 3 and 4, rank 1's int at 0, cells 1 and 2 stay untouched
example : Spec.gathervAt (full 1) [[1, 2], [3]] [2, 1] [3, 0] [9, 9, 9, 9, 9] = [3, 9, 9, 1, 2] := by decide
example : Proofs.inSeg (full 1) 2 3 4 ∧ ¬ Proofs.inSeg (full 1) 1 0 4 := by decide

/-- **every rank**: what `gather`, `gatherv`, `scatter`, `scatterv`, `allgather(v)`, `broadcast`, `allreduce` leave
on rank `r` -/
theorem gather_ranks {α} (tm : TMap) (n root : Nat) (ins outs : List (List α)) (r : Nat) :
    (Spec.gather tm n root ins outs)[r]? =
      (outs[r]?).map (fun out => if r = root then Spec.gatherAt tm n ins out else out) := by
  simp [Spec.gather, List.getElem?_mapIdx]

theorem gatherv_ranks {α} (tm : TMap) (root : Nat) (ins : List (List α)) (lens displs : List Nat)
    (outs : List (List α)) (r : Nat) :
    (Spec.gatherv tm root ins lens displs outs)[r]? =
      (outs[r]?).map (fun out => if r = root then Spec.gathervAt tm ins lens displs out else out) := by
  simp [Spec.gatherv, List.getElem?_mapIdx]

theorem allgather_ranks {α} (tm : TMap) (n : Nat) (ins outs : List (List α)) (r : Nat) :
    (Spec.allgather tm n ins outs)[r]? = (outs[r]?).map (Spec.gatherAt tm n ins) := by
  simp [Spec.allgather]

theorem allgatherv_ranks {α} (tm : TMap) (ins : List (List α)) (lens displs : List Nat) (outs : List (List α))
    (r : Nat) :
    (Spec.allgatherv tm ins lens displs outs)[r]? = (outs[r]?).map (Spec.gathervAt tm ins lens displs) := by
  simp [Spec.allgatherv]

theorem scatter_ranks {α} (tm : TMap) (n root : Nat) (sends recvs : List (List α)) (s : List α)
    (hroot : sends[root]? = some s) (r : Nat) :
    (Spec.scatter tm n root sends recvs)[r]? = (recvs[r]?).map (Spec.scatterAt tm n s r) := by
  simp [Spec.scatter, hroot, List.getElem?_mapIdx]

theorem scatterv_ranks {α} (tm : TMap) (root : Nat) (sends : List (List α)) (lens displs : List Nat)
    (recvs : List (List α)) (s : List α) (hroot : sends[root]? = some s) (r l d : Nat)
    (hl : lens[r]? = some l) (hd : displs[r]? = some d) :
    (Spec.scatterv tm root sends lens displs recvs)[r]? = (recvs[r]?).map (Spec.scattervAt tm s l d) := by
  simp [Spec.scatterv, hroot, List.getElem?_mapIdx, hl, hd]

theorem bcast_ranks {α} (tm : TMap) (n root : Nat) (bufs : List (List α)) (s : List α)
    (hroot : bufs[root]? = some s) (r : Nat) :
    (Spec.bcast tm n root bufs)[r]? = (bufs[r]?).map (fun b => if r = root then b else transferN tm n s 0 b 0) := by
  simp [Spec.bcast, hroot, List.getElem?_mapIdx]

theorem allreduce_ranks {α} (e n : Nat) (op : List α → List α → List α) (ins outs : List (List α)) (r : Nat) :
    (Spec.allreduce e n op ins outs)[r]? =
      (outs[r]?).map (fun out => transferN (full e) n (Spec.allreduceVal e n op ins) 0 out 0) := by
  simp [Spec.allreduce]

/-- **allgather / gather, fully communicated types**: the receive buffer (of exactly the total size) *is* the
concatenation of the contributions in rank order — on every rank for `allgather`, on the root for `gather`. -/
theorem allgather_full {α} (e n : Nat) (ins outs : List (List α)) (hl : ∀ inp ∈ ins, inp.length = n * e)
    (hout : ∀ out ∈ outs, out.length = ins.length * n * e) :
    Spec.allgather (full e) n ins outs = List.replicate outs.length ins.flatten := by
  apply List.ext_getElem?
  intro r
  rw [allgather_ranks, List.getElem?_replicate]
  by_cases hr : r < outs.length
  · rw [List.getElem?_eq_getElem hr, if_pos hr]
    simp only [Option.map_some]
    rw [Proofs.gatherAt_full e n ins hl _ (hout _ (List.getElem_mem hr))]
  · rw [List.getElem?_eq_none (by omega), if_neg hr]; rfl

theorem gather_full {α} (e n root : Nat) (ins outs : List (List α)) (hl : ∀ inp ∈ ins, inp.length = n * e)
    (hroot : root < outs.length) (hout : outs[root].length = ins.length * n * e) :
    (Spec.gather (full e) n root ins outs)[root]? = some ins.flatten ∧
      ∀ r, r ≠ root → (Spec.gather (full e) n root ins outs)[r]? = outs[r]? := by
  constructor
  · rw [gather_ranks, List.getElem?_eq_getElem hroot]
    simp only [Option.map_some, if_true]
    rw [Proofs.gatherAt_full e n ins hl _ hout]
  · intro r hr
    rw [gather_ranks]
    cases outs[r]? <;> simp [hr]

example : Spec.allgather (full 2) 1 [[1, 2], [3, 4], [5, 6]] [[0, 0, 0, 0, 0, 0], [9, 9, 9, 9, 9, 9], [7, 7, 7, 7, 7, 7]]
    = List.replicate 3 [1, 2, 3, 4, 5, 6] := by decide

/-- **scatter** hands rank `r` the `r`-th chunk of the root's buffer, and **scatter ∘ gather = id** -/
theorem scatter_full {α} (e n : Nat) (parts : List (List α)) (hl : ∀ p ∈ parts, p.length = n * e) (r : Nat)
    (hr : r < parts.length) (rcv : List α) (hrcv : rcv.length = n * e) :
    Spec.scatterAt (full e) n parts.flatten r rcv = parts[r] :=
  Proofs.scatterAt_full e n parts hl r hr rcv hrcv

theorem scatter_chunks {α} (tm : TMap) (hwf : tm.wf) (n : Nat) (parts : List (List α))
    (hl : ∀ p ∈ parts, p.length = n * tm.extent) (r : Nat) (hr : r < parts.length) (rcv : List α) :
    Spec.scatterAt tm n parts.flatten r rcv = transferN tm n (parts[r]) 0 rcv 0 :=
  Proofs.scatterAt_flatten tm hwf n parts hl r hr rcv

theorem scatter_inverse {α} (e n : Nat) (ins : List (List α)) (hl : ∀ inp ∈ ins, inp.length = n * e) (out : List α)
    (hout : out.length = ins.length * n * e) (r : Nat) (hr : r < ins.length) (rcv : List α)
    (hrcv : rcv.length = n * e) :
    Spec.scatterAt (full e) n (Spec.gatherAt (full e) n ins out) r rcv = ins[r] := by
  rw [Proofs.gatherAt_full e n ins hl out hout]
  exact Proofs.scatterAt_full e n ins hl r hr rcv hrcv

example : Spec.scatterAt (full 1) 2 (Spec.gatherAt (full 1) 2 [[1, 2], [3, 4], [5, 6]] [0, 0, 0, 0, 0, 0]) 1 [9, 9]
    = [3, 4] := by decide

/-- **broadcast, fully communicated types**: afterwards every rank holds the root's buffer -/
theorem bcast_full {α} (e n root : Nat) (bufs : List (List α)) (hl : ∀ b ∈ bufs, b.length = n * e)
    (hroot : root < bufs.length) : Spec.bcast (full e) n root bufs = List.replicate bufs.length bufs[root] := by
  apply List.ext_getElem?
  intro r
  rw [bcast_ranks (full e) n root bufs bufs[root] (List.getElem?_eq_getElem hroot), List.getElem?_replicate]
  by_cases hr : r < bufs.length
  · rw [List.getElem?_eq_getElem hr, if_pos hr]
    simp only [Option.map_some]
    by_cases hrr : r = root
    · subst hrr; simp
    · rw [if_neg hrr, Proofs.transferN_full,
        Proofs.copyCells_all _ _ _ (hl _ (List.getElem_mem hroot)) (hl _ (List.getElem_mem hr))]
  · rw [List.getElem?_eq_none (by omega), if_neg hr]; rfl

example : Spec.bcast (full 1) 2 1 [[0, 0], [7, 8], [1, 1]] = List.replicate 3 [7, 8] := by decide

/-- **allreduce_any_tree.**  Element by element, the value `MPI_Allreduce` leaves on every rank is what *any*
family of reduction trees evaluates to — trees over any permutation of the ranks' `j`-th elements when `op` is
associative and commutative (the predefined operations) … -/
theorem allreduce_any_tree {α} (e n : Nat) (op : List α → List α → List α)
    (hassoc : ∀ a b c, op (op a b) c = op a (op b c)) (hcomm : ∀ a b, op a b = op b a) (ins : List (List α))
    (ts : Nat → Proofs.Tree (List α)) (hts : ∀ j, j < n → (ts j).leaves.Perm (ins.map (Spec.elem e j))) :
    Spec.allreduceVal e n op ins = (List.range n).flatMap (fun j => (ts j).eval op) :=
  Proofs.allreduceVal_trees e n op ins ts
    (fun j hj => Proofs.tree_eval_eq_foldRanks op hassoc hcomm (ts j) _ (hts j hj))

/-- … and trees whose leaves are the ranks' elements *in rank order* (any bracketing) when `op` is only associative:
what MPI guarantees for operations created with `commute = false` (`user_op_registration`), i.e. for every user
functor. -/
theorem allreduce_any_bracketing {α} (e n : Nat) (op : List α → List α → List α)
    (hassoc : ∀ a b c, op (op a b) c = op a (op b c)) (ins : List (List α))
    (ts : Nat → Proofs.Tree (List α)) (hts : ∀ j, j < n → (ts j).leaves = ins.map (Spec.elem e j)) :
    Spec.allreduceVal e n op ins = (List.range n).flatMap (fun j => (ts j).eval op) :=
  Proofs.allreduceVal_trees e n op ins ts
    (fun j hj => by rw [← hts j hj]; exact Proofs.tree_eval_leaves op hassoc (ts j))

theorem allreduce_rank_order_assoc {β : Type} (op : β → β → β) (hassoc : ∀ a b c, op (op a b) c = op a (op b c))
    (t : Proofs.Tree β) : some (t.eval op) = Spec.foldRanks op t.leaves :=
  Proofs.tree_eval_leaves op hassoc t

-- "keep the first" is associative, not commutative; ((x0 x1) (x2 x3)) over four ranks = rank 0's element
example : (Proofs.Tree.node (.node (.leaf [1]) (.leaf [2])) (.node (.leaf [3]) (.leaf [4]))).leaves
    = [[1, 2, 3, 4], [2, 0, 0, 0], [3, 0, 0, 0], [4, 0, 0, 0]].map (Spec.elem 1 0) := by decide
example : Spec.allreduceVal 1 1 (fun a _ => a) [[1], [2], [3], [4]] = [1] := by decide

/-- **allreduce, every rank**: with buffers of exactly `n` elements every rank ends up with the element-wise
rank-order fold, which has `n` elements again. -/
theorem allreduce_full {α} (e n : Nat) (op : List α → List α → List α)
    (hop : ∀ a b, a.length = e → b.length = e → (op a b).length = e) (ins outs : List (List α)) (hne : ins ≠ [])
    (hl : ∀ x ∈ ins, x.length = n * e) (hout : ∀ out ∈ outs, out.length = n * e) :
    Spec.allreduce e n op ins outs = List.replicate outs.length (Spec.allreduceVal e n op ins) ∧
      (Spec.allreduceVal e n op ins).length = n * e := by
  have hlen := Proofs.allreduceVal_length e n op hop ins hne hl
  refine ⟨?_, hlen⟩
  apply List.ext_getElem?
  intro r
  rw [allreduce_ranks, List.getElem?_replicate]
  by_cases hr : r < outs.length
  · rw [List.getElem?_eq_getElem hr, if_pos hr]
    simp only [Option.map_some]
    rw [Proofs.transferN_full, Proofs.copyCells_all _ _ _ hlen (hout _ (List.getElem_mem hr))]
  · rw [List.getElem?_eq_none (by omega), if_neg hr]; rfl

example : Spec.allreduce 1 2 (zipOp (· + ·)) [[1, 2], [10, 20], [100, 200]] [[0, 0], [0, 0], [0, 0]]
    = List.replicate 3 [111, 222] := by decide

/-! ### R3: container views of the MPIData-based reductions (`allreduce(Type&&)`, `iallreduce`)

`MPIData` hands MPI the *entries* of a `std::vector<T>`, a `DynamicVector<K>`, a `FieldVector<K,n>` (element type `T` /
`K`), so after `fixes/C07_reduce_container_op.patch` the functor is applied to the entries.  For a functor that acts
cell by cell this is the same reduction as the one over the whole objects. -/

/-- **allreduce_cellwise.**  With a functor that acts cell by cell (`zipWith f`: `std::plus`, `Min`, `Max`, … on
arithmetic entries) cell `j*e+i` of the result is the fold, in rank order, of the ranks' cells `j*e+i`. -/
theorem allreduce_cellwise {α} (f : α → α → α) (e n : Nat) (ins : List (List α)) (hne : ins ≠ [])
    (hl : ∀ x ∈ ins, x.length = n * e) (j i : Nat) (hj : j < n) (hi : i < e) :
    (Spec.allreduceVal e n (List.zipWith f) ins)[j * e + i]? = Spec.foldCells f (ins.map (·[j * e + i]?)) :=
  Proofs.allreduceVal_cell f e n ins hne hl j i hj hi

/-- **allreduce_container_view.**  Hence the grouping of the cells into elements does not matter: reducing `n` objects
of `e` entries with the entry-wise functor (`allreduce<std::plus<FieldVector<int,3>>>(FieldVector<int,3>*, …, n)`) and
reducing their `n*e` entries with the functor on the entries (`allreduce<std::plus<int>>(FieldVector<int,3>&&)`,
MPIData's view of the object as a container) give the same result, for every process count. -/
theorem allreduce_container_view {α} (f : α → α → α) (e n : Nat) (ins : List (List α)) (hne : ins ≠ [])
    (hl : ∀ x ∈ ins, x.length = n * e) :
    Spec.allreduceVal e n (List.zipWith f) ins = Spec.allreduceVal 1 (n * e) (List.zipWith f) ins :=
  Proofs.allreduceVal_view f e n ins hne hl

-- three ranks, one FieldVector<int,3> each: whole-object sum = entry-wise sum of the 3 entries; cell 1 folds 20, 21, 22
example : Spec.allreduceVal 3 1 (List.zipWith (· + ·)) [[10, 20, 30], [11, 21, 31], [12, 22, 32]] = [(33 : Int), 63, 93]
    ∧ Spec.allreduceVal 1 3 (List.zipWith (· + ·)) [[10, 20, 30], [11, 21, 31], [12, 22, 32]] = [(33 : Int), 63, 93]
    ∧ Spec.foldCells (· + ·) ([[10, 20, 30], [11, 21, 31], [(12 : Int), 22, 32]].map (·[1]?)) = some (63 : Int) := by decide

/-! ### the stand-in, once more: partially communicated types per collective, and the tie to communication.hh -/

/-- for IndexPair / ParallelLocalIndex every collective of the stand-in agrees with the one-process MPI result on
every communicated cell (the stand-in assigns whole objects) -/
theorem seq_agrees_gather {α} (tm : TMap) (hwf : tm.wf) (hpos : 0 < tm.extent) (inp out : List α) (len root i : Nat)
    (hc : tm.covers (i % tm.extent) = true) :
    (Seq.gather tm.extent inp out len root)[i]? = ((Spec.gather tm len 0 [inp] [out]).getD 0 [])[i]? := by
  have := seq_agrees_on_communicated_state tm hwf hpos inp 0 out 0 len i (by simpa using hc)
  simpa [Seq.gather, Spec.gather, Spec.gatherAt, List.zipIdx, List.mapIdx_cons, List.mapIdx_nil] using this

theorem seq_agrees_gatherv {α} (tm : TMap) (hwf : tm.wf) (hpos : 0 < tm.extent) (inp : List α) (sendLen : Nat)
    (out : List α) (displ root i : Nat) (hc : tm.covers ((i - displ * tm.extent) % tm.extent) = true) :
    (Seq.gatherv tm.extent inp sendLen out sendLen displ root)[i]? =
      ((Spec.gatherv tm 0 [inp] [sendLen] [displ] [out]).getD 0 [])[i]? := by
  have := seq_agrees_on_communicated_state tm hwf hpos inp 0 out displ sendLen i hc
  simpa [Seq.gatherv, Spec.gatherv, Spec.gathervAt, List.mapIdx_cons, List.mapIdx_nil] using this

theorem seq_agrees_scatter {α} (tm : TMap) (hwf : tm.wf) (hpos : 0 < tm.extent) (send recv : List α) (len root i : Nat)
    (hc : tm.covers (i % tm.extent) = true) :
    (Seq.scatter tm.extent send recv len root)[i]? = ((Spec.scatter tm len 0 [send] [recv]).getD 0 [])[i]? := by
  have := seq_agrees_on_communicated_state tm hwf hpos send 0 recv 0 len i (by simpa using hc)
  simpa [Seq.scatter, Spec.scatter, Spec.scatterAt, List.mapIdx_cons, List.mapIdx_nil] using this

theorem seq_agrees_scatterv {α} (tm : TMap) (hwf : tm.wf) (hpos : 0 < tm.extent) (send : List α) (sendLen displ : Nat)
    (recv : List α) (root i : Nat) (hc : tm.covers (i % tm.extent) = true) :
    (Seq.scatterv tm.extent send sendLen displ recv sendLen root)[i]? =
      ((Spec.scatterv tm 0 [send] [sendLen] [displ] [recv]).getD 0 [])[i]? := by
  have := seq_agrees_on_communicated_state tm hwf hpos send displ recv 0 sendLen i (by simpa using hc)
  simpa [Seq.scatterv, Spec.scatterv, Spec.scattervAt, List.mapIdx_cons, List.mapIdx_nil] using this

theorem seq_agrees_allgather {α} (tm : TMap) (hwf : tm.wf) (hpos : 0 < tm.extent) (sbuf : List α) (count : Nat)
    (rbuf : List α) (i : Nat) (hc : tm.covers (i % tm.extent) = true) :
    (Seq.allgather tm.extent sbuf count rbuf)[i]? = ((Spec.allgather tm count [sbuf] [rbuf]).getD 0 [])[i]? := by
  have := seq_agrees_on_communicated_state tm hwf hpos sbuf 0 rbuf 0 count i (by simpa using hc)
  simpa [Seq.allgather, Spec.allgather, Spec.gatherAt, List.zipIdx] using this

theorem seq_agrees_allgatherv {α} (tm : TMap) (hwf : tm.wf) (hpos : 0 < tm.extent) (inp : List α) (sendLen : Nat)
    (out : List α) (displ i : Nat) (hc : tm.covers ((i - displ * tm.extent) % tm.extent) = true) :
    (Seq.allgatherv tm.extent inp sendLen out sendLen displ)[i]? =
      ((Spec.allgatherv tm [inp] [sendLen] [displ] [out]).getD 0 [])[i]? := by
  have := seq_agrees_on_communicated_state tm hwf hpos inp 0 out displ sendLen i hc
  simpa [Seq.allgatherv, Spec.allgatherv, Spec.gathervAt] using this

/-- the single-element forms (`igather`, `iscatter`, `iallgather`) are loops of length one -/
theorem seq_agrees_single {α} (tm : TMap) (hwf : tm.wf) (hpos : 0 < tm.extent) (dataIn dataOut : List α) (i : Nat)
    (hc : tm.covers (i % tm.extent) = true) :
    (Seq.assignElem tm.extent dataIn 0 dataOut 0)[i]? = (transferN tm 1 dataIn 0 dataOut 0)[i]? := by
  rw [Proofs.assignElem_copyLoop]
  have := seq_agrees_on_communicated_state tm hwf hpos dataIn 0 dataOut 0 1 i (by simpa using hc)
  simpa using this

/-- **seq_source_\*.**  The bodies of `Communication<No_Comm>` as translated from the current communication.hh
(`Gen.Seq.*`, regenerated on every run) are the model functions `Seq.*` the `seq_eq_oneproc_*` theorems talk about. -/
theorem seq_source_reductions {α} (e : Nat) (x : List α) (len : Nat) :
    Gen.Seq.sum_1 e x = Seq.reduceScalar x ∧ Gen.Seq.prod_1 e x = Seq.reduceScalar x ∧
    Gen.Seq.min_1 e x = Seq.reduceScalar x ∧ Gen.Seq.max_1 e x = Seq.reduceScalar x ∧
    Gen.Seq.sum_2 e x len = Seq.reduceInplace x len ∧ Gen.Seq.prod_2 e x len = Seq.reduceInplace x len ∧
    Gen.Seq.min_2 e x len = Seq.reduceInplace x len ∧ Gen.Seq.max_2 e x len = Seq.reduceInplace x len ∧
    Gen.Seq.allreduce_2 e x len = Seq.reduceInplace x len ∧ Gen.Seq.iallreduce_1 e x = Seq.iallreduceInplace x :=
  ⟨rfl, rfl, rfl, rfl, rfl, rfl, rfl, rfl, rfl, rfl⟩

theorem seq_source_allreduce {α} (e : Nat) (inp out : List α) (len : Nat) :
    Gen.Seq.allreduce_3 e inp out len = Seq.allreduceInOut e inp out len ∧
    Gen.Seq.iallreduce_2 e inp out = Seq.iallreduceInOut inp out := by
  refine ⟨?_, rfl⟩
  simpa [Gen.Seq.allreduce_3, Seq.allreduceInOut] using Proofs.forCopy_eq_copyLoop e inp out 0 0 len

theorem seq_source_broadcast {α} (e : Nat) (x : List α) (len root : Nat) :
    Gen.Seq.broadcast_3 e x len root = Seq.broadcast x len root ∧ Gen.Seq.ibroadcast_2 e x root = Seq.ibroadcast x root :=
  ⟨rfl, rfl⟩

theorem seq_source_gather {α} (e : Nat) (inp out : List α) (len root : Nat) :
    Gen.Seq.gather_4 e inp out len root = Seq.gather e inp out len root ∧
    Gen.Seq.igather_3 e inp out root = Seq.igather e inp out root := by
  refine ⟨?_, rfl⟩
  simpa [Gen.Seq.gather_4, Seq.gather] using Proofs.forCopy_eq_copyLoop e inp out 0 0 len

-- (the documented precondition of the v-variants on one process: the receive count is the send count)
theorem seq_source_gatherv {α} (e : Nat) (inp : List α) (sendLen : Nat) (out : List α) (displ root : Nat) :
    Gen.Seq.gatherv_6 e inp sendLen out sendLen displ root = Seq.gatherv e inp sendLen out sendLen displ root ∧
    Gen.Seq.allgatherv_5 e inp sendLen out sendLen displ = Seq.allgatherv e inp sendLen out sendLen displ := by
  constructor
  · simpa [Gen.Seq.gatherv_6, Seq.gatherv] using Proofs.forCopy_eq_copyLoop e inp out 0 displ sendLen
  · simpa [Gen.Seq.allgatherv_5, Seq.allgatherv] using Proofs.forCopy_eq_copyLoop e inp out 0 displ sendLen

theorem seq_source_scatter {α} (e : Nat) (send recv : List α) (len root : Nat) :
    Gen.Seq.scatter_4 e send recv len root = Seq.scatter e send recv len root ∧
    Gen.Seq.iscatter_3 e send recv root = Seq.iscatter e send recv root := by
  refine ⟨?_, rfl⟩
  simpa [Gen.Seq.scatter_4, Seq.scatter] using Proofs.forCopy_eq_copyLoop e send recv 0 0 len

theorem seq_source_scatterv {α} (e : Nat) (send : List α) (sendLen displ : Nat) (recv : List α) (root : Nat) :
    Gen.Seq.scatterv_6 e send sendLen displ recv sendLen root = Seq.scatterv e send sendLen displ recv sendLen root := by
  simpa [Gen.Seq.scatterv_6, Seq.scatterv] using Proofs.forCopy_eq_copyLoop e send recv displ 0 sendLen

theorem seq_source_allgather {α} (e : Nat) (sbuf : List α) (count : Nat) (rbuf dataIn dataOut : List α) :
    Gen.Seq.allgather_3 e sbuf count rbuf = Seq.allgather e sbuf count rbuf ∧
    Gen.Seq.iallgather_2 e dataIn dataOut = Seq.iallgather e dataIn dataOut := by
  refine ⟨?_, rfl⟩
  simpa [Gen.Seq.allgather_3, Seq.allgather] using Proofs.forCopy_eq_copyLoop e sbuf rbuf 0 0 count

/-- rank 0 of 1, `barrier()` returns 0, and all five point-to-point methods refuse (`ParallelError`) -/
theorem seq_source_constants :
    Gen.Seq.rank = Seq.rank ∧ Gen.Seq.size = Seq.size ∧ Gen.Seq.barrier = Seq.barrier ∧
    Gen.Seq.p2pThrows = [("send", true), ("isend", true), ("recv", true), ("irecv", true), ("rrecv", true)] := by
  decide

/-! ## (ii) receive with size discovery -/

/-- **rrecv_roundtrip.**  Whatever the receive object held (any length `m`), `rrecv` returns the sent elements with
the sent length (fully communicated element types; for the others: the transfer into the resized object, by
definition of `Spec.rrecv`). -/
theorem rrecv_roundtrip {α} (e n m : Nat) (he : 0 < e) (src dflt dst : List α) (hs : src.length = n * e)
    (hdf : dflt.length = e) (hd : dst.length = m * e) : Spec.rrecv (full e) dflt src n dst = src :=
  Proofs.rrecv_full e n m he src dflt dst hs hdf hd

/-- in a ring with any shift, rank `r` ends up with exactly what rank `(r - shift) mod P` sent -/
theorem ring_rrecv_roundtrip {α} (e : Nat) (he : 0 < e) (dflt : List α) (hdf : dflt.length = e) (shift : Nat)
    (srcs : List (List α × Nat)) (dsts : List (List α)) (hP : srcs.length = dsts.length)
    (hs : ∀ s ∈ srcs, s.1.length = s.2 * e) (hd : ∀ d ∈ dsts, ∃ m, d.length = m * e) (r : Nat) (hr : r < dsts.length) :
    (Spec.ringRrecv (full e) dflt shift srcs dsts)[r]? =
      (srcs[(r + dsts.length - shift % dsts.length) % dsts.length]?).map (·.1) := by
  have hlt : (r + dsts.length - shift % dsts.length) % dsts.length < srcs.length := by
    rw [hP]; exact Nat.mod_lt _ (by omega)
  simp only [Spec.ringRrecv, List.getElem?_mapIdx, List.getElem?_eq_getElem hr, List.getElem?_eq_getElem hlt,
    Option.map_some]
  obtain ⟨m, hm⟩ := hd _ (List.getElem_mem hr)
  rw [Proofs.rrecv_full e _ m he _ dflt _ (hs _ (List.getElem_mem hlt)) hdf hm]

example : Spec.ringRrecv (full 1) [0] 1 [([1, 2], 2), ([], 0), ([3], 1)] [[9, 9, 9], [8], []] = [[3], [1, 2], []] := by
  decide

/-! ## R4: the datatype construction code of the current sources (`Gen.TyProg.*`, symbolic execution by `tr_c07.py`)

For **every** instantiation (`env`: the typemaps of the template arguments, the member offsets, `sizeof`, the counts) the
handle that `getType()` returns denotes the model's typemap constructor — so the theorems above (`*_typemap`, `*_covers`,
`resized_extents`, `pair_array_transfers`, `indexpair_transfers_global_and_attribute`) speak about what the code builds now. -/
section TypeProg
open TyProg

/-- `MPITraits<FieldVector<K,n>>`: struct of one block `contiguous(n, MPITraits<K>)` at the displacement of `fvector[0]` -/
theorem typeprog_fieldvector (env : Env) :
    eval env Gen.TyProg.fieldVector = Types.fieldVector (env.off "[0]") (env.cnt (.tparam 2)) (env.param 1) := by
  simp [Gen.TyProg.fieldVector, eval, Types.fieldVector, struct, ub]

/-- `MPITraits<bigunsignedint<k>>`: `bigunsignedint<k>::n` digits of `std::uint16_t` at the displacement of `digit` -/
theorem typeprog_bigunsigned (env : Env) :
    eval env Gen.TyProg.bigUnsigned =
      Types.bigUnsigned (env.off "digit") (env.cnt (.selfConst "n")) (env.named "std::uint16_t") := by
  simp [Gen.TyProg.bigUnsigned, eval, Types.bigUnsigned, struct, ub]

/-- `MPITraits<std::pair<T1,T2>>`: struct {first, second}, one element each, resized to `sizeof(pair)` -/
theorem typeprog_pair (env : Env) :
    eval env Gen.TyProg.pair =
      Types.pair (env.off "first") (env.param 1) (env.off "second") (env.param 2) (env.cnt .sizeofSelf) := by
  simp [Gen.TyProg.pair, eval, Types.pair, struct, ub]

/-- `MPITraits<ParallelLocalIndex<T>>`: struct {attribute_ : one char}, resized to `sizeof` -/
theorem typeprog_localindex (env : Env) :
    eval env Gen.TyProg.localIndex = Types.localIndex (env.off "attribute_") (env.named "char") (env.cnt .sizeofSelf) := by
  simp [Gen.TyProg.localIndex, eval, Types.localIndex, struct, ub]

/-- `MPITraits<IndexPair<TG,ParallelLocalIndex<TA>>>`: struct {global_, local_}, resized to `sizeof` -/
theorem typeprog_indexpair (env : Env) :
    eval env Gen.TyProg.indexPair =
      Types.indexPair (env.off "global_") (env.param 1) (env.off "local_") (env.named "ParallelLocalIndex<$2>")
        (env.cnt .sizeofSelf) := by
  simp [Gen.TyProg.indexPair, eval, Types.indexPair, struct, ub]

/-- the byte-wise fallback `MPITraits<T>`: `sizeof(T)` bytes -/
theorem typeprog_fallback (env : Env) :
    eval env Gen.TyProg.fallback = contiguous (env.cnt .sizeofSelf) (env.named "MPI_BYTE") := by
  simp [Gen.TyProg.fallback, eval]

/-- the cell-level instantiations the driver runs (`tyMap`) are the generated construction code evaluated at the cell
layout of the harness types (`TyProg.cellEnv`) -/
theorem tymap_from_source :
    tyMap "fv3" = some (eval (cellEnv (basic 1) (basic 1) (basic 1) 3 3 [("[0]", 0)]) Gen.TyProg.fieldVector) ∧
    tyMap "fv2" = some (eval (cellEnv (basic 1) (basic 1) (basic 1) 2 2 [("[0]", 0)]) Gen.TyProg.fieldVector) ∧
    tyMap "big96" = some (eval (cellEnv (basic 1) (basic 1) (basic 1) 1 1 [("digit", 0)]) Gen.TyProg.bigUnsigned) ∧
    tyMap "pair" = some (eval (cellEnv (basic 1) (basic 1) (basic 1) 0 2 [("first", 0), ("second", 1)]) Gen.TyProg.pair) ∧
    tyMap "pod" = some (eval (cellEnv (basic 1) (basic 1) (basic 1) 0 3 []) Gen.TyProg.fallback) ∧
    tyMap "pli" = some (eval (cellEnv (basic 1) (basic 1) (basic 1) 0 4 [("attribute_", 1)]) Gen.TyProg.localIndex) ∧
    tyMap "ip" = some (eval (cellEnv (basic 1) (basic 1)
        (eval (cellEnv (basic 1) (basic 1) (basic 1) 0 4 [("attribute_", 1)]) Gen.TyProg.localIndex) 0 5
        [("global_", 0), ("local_", 1)]) Gen.TyProg.indexPair) := by
  decide

/-- **source_extents.**  The three struct datatypes of the current sources have extent `sizeof`, whatever the members. -/
theorem source_extents (env : Env) :
    (eval env Gen.TyProg.pair).extent = env.cnt .sizeofSelf ∧ (eval env Gen.TyProg.localIndex).extent = env.cnt .sizeofSelf ∧
      (eval env Gen.TyProg.indexPair).extent = env.cnt .sizeofSelf := by
  rw [typeprog_pair, typeprog_localindex, typeprog_indexpair]; exact ⟨rfl, rfl, rfl⟩

/-- **source_localindex_transfers_attribute_only.**  Moving one `ParallelLocalIndex<T>` with the datatype the current
`getType()` builds overwrites the cell of `attribute_` and nothing else (not `localIndex_`, `public_`, `state_`). -/
theorem source_localindex_transfers_attribute_only {α} (env : Env) (hc : env.named "char" = basic 1)
    (src dst : List α) (i : Nat) :
    (transfer (eval env Gen.TyProg.localIndex) src 0 dst 0)[i]? =
      if i = env.off "attribute_" then ovw src[i]? dst[i]? else dst[i]? := by
  rw [typeprog_localindex, hc, typemap_transfers_exactly, localindex_typemap]
  have : (covers ⟨[(env.off "attribute_", 1)], env.cnt .sizeofSelf⟩ i = true) ↔ i = env.off "attribute_" := by
    simp [covers]; omega
  simp only [Nat.zero_le, true_and, Nat.sub_zero, Nat.zero_add, this]

/-- **source_indexpair_transfers_global_and_attribute.**  With the datatypes the current sources build — the one of
`IndexPair<TG,ParallelLocalIndex<TA>>` (`envP`) using the one of `ParallelLocalIndex<TA>` (`envL`) for `local_`, `TG` a
number of `szG` cells — moving an index pair overwrites exactly the cells of the global index and the attribute. -/
theorem source_indexpair_transfers_global_and_attribute {α} (envP envL : Env) (szG : Nat)
    (hG : envP.param 1 = basic szG) (hc : envL.named "char" = basic 1)
    (hL : envP.named "ParallelLocalIndex<$2>" = eval envL Gen.TyProg.localIndex) (src dst : List α) (i : Nat) :
    (transfer (eval envP Gen.TyProg.indexPair) src 0 dst 0)[i]? =
      if (envP.off "global_" ≤ i ∧ i < envP.off "global_" + szG) ∨ i = envP.off "local_" + envL.off "attribute_"
      then ovw src[i]? dst[i]? else dst[i]? := by
  rw [typeprog_indexpair, hL, typeprog_localindex, hG, hc]
  exact indexpair_transfers_global_and_attribute _ _ _ _ _ _ src dst i

/-- **source_pair_array_transfers.**  `count` pairs moved with the datatype the current sources build stride by
`sizeof(pair)` and overwrite exactly what `first` and `second` communicate. -/
theorem source_pair_array_transfers {α} (env : Env)
    (h1 : ∀ b ∈ (env.param 1).blocks, env.off "first" + b.1 + b.2 ≤ env.cnt .sizeofSelf)
    (h2 : ∀ b ∈ (env.param 2).blocks, env.off "second" + b.1 + b.2 ≤ env.cnt .sizeofSelf)
    (hpos : 0 < env.cnt .sizeofSelf) (n : Nat) (src dst : List α) (i : Nat) :
    (transferN (eval env Gen.TyProg.pair) n src 0 dst 0)[i]? =
      if i / env.cnt .sizeofSelf < n ∧
          ((env.off "first" ≤ i % env.cnt .sizeofSelf ∧ (env.param 1).covers (i % env.cnt .sizeofSelf - env.off "first") = true) ∨
           (env.off "second" ≤ i % env.cnt .sizeofSelf ∧ (env.param 2).covers (i % env.cnt .sizeofSelf - env.off "second") = true))
      then ovw src[i]? dst[i]? else dst[i]? := by
  rw [typeprog_pair]; exact pair_array_transfers _ _ _ _ _ h1 h2 hpos n src dst i

/-- **source_fieldvector_covers / source_bigunsigned_covers.**  All `n` components / digits, nothing else. -/
theorem source_fieldvector_covers (env : Env) (w : Nat) (hK : env.param 1 = basic w) (j : Nat) :
    (eval env Gen.TyProg.fieldVector).covers j = true ↔
      env.off "[0]" ≤ j ∧ j < env.off "[0]" + env.cnt (.tparam 2) * w := by
  rw [typeprog_fieldvector, hK]; exact fieldvector_typemap _ _ _ j

theorem source_bigunsigned_covers (env : Env) (w : Nat) (hD : env.named "std::uint16_t" = basic w) (j : Nat) :
    (eval env Gen.TyProg.bigUnsigned).covers j = true ↔
      env.off "digit" ≤ j ∧ j < env.off "digit" + env.cnt (.selfConst "n") * w := by
  rw [typeprog_bigunsigned, hD]; exact bigunsigned_typemap _ _ _ j

-- non-vacuity: the IndexPair of the harness (global index in cell 0, local_ from cell 1 with the attribute in its second
-- cell, 5 cells) — hypotheses hold, and the transfer moves cells 0 and 2 only
example : let envL := cellEnv (basic 1) (basic 1) (basic 1) 0 4 [("attribute_", 1)]
    let envP := cellEnv (basic 1) (basic 1) (eval envL Gen.TyProg.localIndex) 0 5 [("global_", 0), ("local_", 1)]
    envP.param 1 = basic 1 ∧ envL.named "char" = basic 1 ∧
      envP.named "ParallelLocalIndex<$2>" = eval envL Gen.TyProg.localIndex ∧
      transfer (eval envP Gen.TyProg.indexPair) [10, 11, 12, 13, 14] 0 [0, 1, 2, 3, 4] 0 = [10, 1, 12, 3, 4] := by
  decide
-- pair<long long, char> of 3 cells (one padding cell): hypotheses of `source_pair_array_transfers` hold; two pairs
example : let env := cellEnv (contiguous 1 (basic 1)) (basic 1) (basic 1) 0 3 [("first", 0), ("second", 1)]
    (∀ b ∈ (env.param 1).blocks, env.off "first" + b.1 + b.2 ≤ env.cnt .sizeofSelf) ∧
    (∀ b ∈ (env.param 2).blocks, env.off "second" + b.1 + b.2 ≤ env.cnt .sizeofSelf) ∧ 0 < env.cnt .sizeofSelf ∧
    transferN (eval env Gen.TyProg.pair) 2 [1, 2, 0, 3, 4, 0] 0 [9, 9, 9, 9, 9, 9] 0 = [1, 2, 9, 3, 4, 9] := by
  decide
-- what the seeded change C07_w4m3 builds (three chars from `attribute_` on) is *not* the model's datatype: it also
-- overwrites the two cells after the attribute
example : transfer (eval (cellEnv (basic 1) (basic 1) (basic 1) 0 4 [("attribute_", 1)])
    (.resized (.scons "attribute_" 3 (.named "char") .snil) .sizeofSelf)) [10, 11, 12, 13] 0 [0, 1, 2, 3] 0 = [0, 11, 12, 13] := by
  decide
example : eval (cellEnv (basic 1) (basic 1) (basic 1) 3 3 [("[0]", 0)]) Gen.TyProg.fieldVector = ⟨[(0, 1), (1, 1), (2, 1)], 3⟩ := by
  decide
end TypeProg

/-! ## R4: the wrapper layer `Communication<MPI_Comm>` of the current sources (`Gen.wrapperTable`, symbolic execution of
every member function body by `tr_c07.py`) -/
section Wrappers
open Wrap

/-- **wrapper_table_sound.**  Every member function of `Communication<MPI_Comm>` issues the MPI call the specification
side (`Wrap.expected`) lists — function, buffers, counts, datatypes, root, operation, the delegations of
`sum/prod/min/max` and of the in-place `allreduce`, the probe–count–resize–receive sequence of `rrecv`, the refusal of an
empty `irecv` — and every call is well formed: it is the MPI function the member stands for, the arguments fit the
signature the MPI standard gives that function, every buffer is described by the datatype of its own elements and every
reduction uses the `MPI_Op` instantiated for the element type its datatype describes (the statement the defect repaired
in /repo 708cce0 violated). -/
theorem wrapper_table_sound :
    Gen.wrapperTable = Wrap.expected ∧ (∀ r ∈ Gen.wrapperTable, wellFormed r = true) := by
  refine ⟨rfl, ?_⟩
  decide

/-- **igather_counts.**  `igather`: every rank sends its whole object; the root receives that many elements per rank
(the receive count is significant at the root only). -/
theorem igather_counts (env : CEnv) :
    ∃ s r, countArg Gen.wrapperTable "igather_3" 0 = some s ∧ countArg Gen.wrapperTable "igather_3" 1 = some r ∧
      s.eval env = env.sizeOf 1 ∧ (env.me = env.root → r.eval env = env.sizeOf 1) := by
  refine ⟨_, _, rfl, rfl, ?_, ?_⟩
  · simp [CExpr.eval, prodOf, Atom.eval]
  · intro h; simp [CExpr.eval, prodOf, Atom.eval, h]

/-- **iscatter_counts.**  `iscatter`: the root hands out `size/procs` elements per rank — all of its object when the
size is a multiple of the process count —, every rank receives its whole receive object. -/
theorem iscatter_counts (env : CEnv) :
    ∃ s r, countArg Gen.wrapperTable "iscatter_3" 0 = some s ∧ countArg Gen.wrapperTable "iscatter_3" 1 = some r ∧
      (env.me = env.root → s.eval env = env.sizeOf 1 / env.procs) ∧
      (env.me = env.root → env.procs ∣ env.sizeOf 1 → s.eval env * env.procs = env.sizeOf 1) ∧
      r.eval env = env.sizeOf 2 := by
  refine ⟨_, _, rfl, rfl, ?_, ?_, ?_⟩
  · intro h; simp [CExpr.eval, prodOf, Atom.eval, h]
  · intro h hd; simp [CExpr.eval, prodOf, Atom.eval, h]; exact Nat.div_mul_cancel hd
  · simp [CExpr.eval, prodOf, Atom.eval]

/-- **iallgather_counts.**  `iallgather`: send count = receive count per rank = the size of the contribution. -/
theorem iallgather_counts (env : CEnv) :
    ∃ s r, countArg Gen.wrapperTable "iallgather_2" 0 = some s ∧ countArg Gen.wrapperTable "iallgather_2" 1 = some r ∧
      s.eval env = env.sizeOf 1 ∧ r.eval env = env.sizeOf 1 := by
  refine ⟨_, _, rfl, rfl, ?_, ?_⟩ <;> simp [CExpr.eval, prodOf, Atom.eval]

/-- **pointer_collective_counts.**  `gather / scatter / allgather` (pointer forms): send count = receive count = the
`len` parameter, on every rank. -/
theorem pointer_collective_counts (env : CEnv) :
    (∃ s r, countArg Gen.wrapperTable "gather_4" 0 = some s ∧ countArg Gen.wrapperTable "gather_4" 1 = some r ∧
      s.eval env = env.par 3 ∧ r.eval env = env.par 3) ∧
    (∃ s r, countArg Gen.wrapperTable "scatter_4" 0 = some s ∧ countArg Gen.wrapperTable "scatter_4" 1 = some r ∧
      s.eval env = env.par 3 ∧ r.eval env = env.par 3) ∧
    (∃ s r, countArg Gen.wrapperTable "allgather_3" 0 = some s ∧ countArg Gen.wrapperTable "allgather_3" 1 = some r ∧
      s.eval env = env.par 2 ∧ r.eval env = env.par 2) := by
  refine ⟨⟨_, _, rfl, rfl, ?_, ?_⟩, ⟨_, _, rfl, rfl, ?_, ?_⟩, ⟨_, _, rfl, rfl, ?_, ?_⟩⟩ <;>
    simp [CExpr.eval, prodOf, Atom.eval]

-- non-vacuity: 3 ranks, root 1, an object of 6 elements at the root: iscatter hands out 2 per rank
example : (⟨[.isRoot, .sizeOf 1], [.procs]⟩ : CExpr).eval ⟨fun _ => 0, fun _ => 6, 1, 1, 3⟩ = 2 ∧
    (⟨[.isRoot, .sizeOf 1], [.procs]⟩ : CExpr).eval ⟨fun _ => 0, fun _ => 6, 0, 1, 3⟩ = 0 := by decide
-- the seeded change C07_m3 (`igather` root count `out.size()/procs`) is not the expected call
example : (⟨"igather_3", .call "MPI_Igather" [.buf 1, .cnt ⟨[.sizeOf 1], []⟩, .tyOf 1, .buf 2, .cnt ⟨[.sizeOf 2], [.procs]⟩,
    .tyOf 2, .root, .comm, .req], [], [], .none⟩ : Row) ∉ Wrap.expected := by decide
-- the defect repaired in 708cce0 (op instantiated for the container type `$2` while the datatype is the one of the entries)
-- is not well formed
example : wellFormed ⟨"allreduce_1", .call "MPI_Allreduce" [.inPlace, .buf 1, .cnt ⟨[.sizeOf 1], []⟩, .tyOf 1,
    .op (.named "$2") "$1", .comm], [], [], .none⟩ = false := by decide
-- a gather whose receive datatype is not the one of the receive buffer's elements is not well formed
example : wellFormed ⟨"allgather_3", .call "MPI_Allgather" [.buf 1, .cnt ⟨[.par 2], []⟩, .tyT "$1", .buf 3, .cnt ⟨[.par 2], []⟩,
    .tyT "$1", .comm], [(1, "$1"), (3, "$2")], [], .none⟩ = false := by decide
end Wrappers

end DV.C07
