import Mathlib.Algebra.Star.Basic
import Mathlib.Algebra.Star.BigOperators
import Mathlib.Algebra.Field.Basic
import DuneVerif.Proofs.C01
import DuneVerif.Proofs.C01Store
/-!
C01 — dense matrices act as the linear map they store, in every representation.

All theorems hold for every commutative ring `R`, every conjugation function `conj : R → R` (only
`rep_interchangeable` and the product theorems built on it need `conj 0 = 0`; `dot_conj_symm` needs a star ring),
every shape and all entries.  `kernelSem Gen.sig_<k>` is the model's loop-nest interpreter run on the table that
`tools/translators/tr_c01.py` regenerates from densematrix.hh on every check run — if the C++ update statement of a
kernel changes (index, operator, alpha, conjugate), `Gen.sig_<k>` changes and the theorem below stops checking.

A written vector is a `Vec R`; `y.get i` is `y[i]`.  Every kernel theorem also states the frame: entries outside
the result range are left alone.
-/
open Finset

namespace DV.C01

variable {R : Type*} [CommRing R] (conj : R → R)

/-! ## the eleven kernels of densematrix.hh -/
section kernels
variable (rows cols : Nat) (A : Nat → Nat → R) (alpha : R) (x : Nat → R) (y : Vec R)

/-- `A.mv(x,y)`: y = A x -/
theorem mv_spec (i : Nat) :
    (kernelSem Gen.sig_mv conj rows cols A alpha x y).get i
      = if i < rows then ∑ j ∈ range cols, A i j * x j else y.get i := by
  have h := outer_fixed rows cols (fun o n => A o n * x n) true y i
  simpa [kernelSem, Gen.sig_mv, bound, sel, applyUpd, rhs] using h

/-- `A.mtv(x,y)`: y = Aᵀ x -/
theorem mtv_spec (j : Nat) :
    (kernelSem Gen.sig_mtv conj rows cols A alpha x y).get j
      = if j < cols then ∑ i ∈ range rows, A i j * x i else y.get j := by
  have h := outer_fixed cols rows (fun o n => A n o * x n) true y j
  simpa [kernelSem, Gen.sig_mtv, bound, sel, applyUpd, rhs] using h

/-- `A.umv(x,y)`: y += A x -/
theorem umv_spec (i : Nat) :
    (kernelSem Gen.sig_umv conj rows cols A alpha x y).get i
      = if i < rows then y.get i + ∑ j ∈ range cols, A i j * x j else y.get i := by
  have h := outer_fixed rows cols (fun o n => A o n * x n) false y i
  simpa [kernelSem, Gen.sig_umv, bound, sel, applyUpd, rhs] using h

/-- `A.umtv(x,y)`: y += Aᵀ x -/
theorem umtv_spec (j : Nat) :
    (kernelSem Gen.sig_umtv conj rows cols A alpha x y).get j
      = if j < cols then y.get j + ∑ i ∈ range rows, A i j * x i else y.get j := by
  have h := outer_moving rows cols (fun o n => A o n * x o) y j
  simpa [kernelSem, Gen.sig_umtv, bound, sel, applyUpd, rhs] using h

/-- `A.umhv(x,y)`: y += Aᴴ x (entries conjugated) -/
theorem umhv_spec (j : Nat) :
    (kernelSem Gen.sig_umhv conj rows cols A alpha x y).get j
      = if j < cols then y.get j + ∑ i ∈ range rows, conj (A i j) * x i else y.get j := by
  have h := outer_moving rows cols (fun o n => conj (A o n) * x o) y j
  simpa [kernelSem, Gen.sig_umhv, bound, sel, applyUpd, rhs] using h

/-- `A.mmv(x,y)`: y -= A x -/
theorem mmv_spec (i : Nat) :
    (kernelSem Gen.sig_mmv conj rows cols A alpha x y).get i
      = if i < rows then y.get i - ∑ j ∈ range cols, A i j * x j else y.get i := by
  have h := outer_fixed rows cols (fun o n => -(A o n * x n)) false y i
  simpa [kernelSem, Gen.sig_mmv, bound, sel, applyUpd, rhs, sub_eq_add_neg] using h

/-- `A.mmtv(x,y)`: y -= Aᵀ x -/
theorem mmtv_spec (j : Nat) :
    (kernelSem Gen.sig_mmtv conj rows cols A alpha x y).get j
      = if j < cols then y.get j - ∑ i ∈ range rows, A i j * x i else y.get j := by
  have h := outer_moving rows cols (fun o n => -(A o n * x o)) y j
  simpa [kernelSem, Gen.sig_mmtv, bound, sel, applyUpd, rhs, sub_eq_add_neg] using h

/-- `A.mmhv(x,y)`: y -= Aᴴ x -/
theorem mmhv_spec (j : Nat) :
    (kernelSem Gen.sig_mmhv conj rows cols A alpha x y).get j
      = if j < cols then y.get j - ∑ i ∈ range rows, conj (A i j) * x i else y.get j := by
  have h := outer_moving rows cols (fun o n => -(conj (A o n) * x o)) y j
  simpa [kernelSem, Gen.sig_mmhv, bound, sel, applyUpd, rhs, sub_eq_add_neg] using h

/-- `A.usmv(alpha,x,y)`: y += alpha A x -/
theorem usmv_spec (i : Nat) :
    (kernelSem Gen.sig_usmv conj rows cols A alpha x y).get i
      = if i < rows then y.get i + alpha * ∑ j ∈ range cols, A i j * x j else y.get i := by
  have h := outer_fixed rows cols (fun o n => alpha * A o n * x n) false y i
  simpa [kernelSem, Gen.sig_usmv, bound, sel, applyUpd, rhs, mul_sum, mul_assoc] using h

/-- `A.usmtv(alpha,x,y)`: y += alpha Aᵀ x -/
theorem usmtv_spec (j : Nat) :
    (kernelSem Gen.sig_usmtv conj rows cols A alpha x y).get j
      = if j < cols then y.get j + alpha * ∑ i ∈ range rows, A i j * x i else y.get j := by
  have h := outer_moving rows cols (fun o n => alpha * A o n * x o) y j
  simpa [kernelSem, Gen.sig_usmtv, bound, sel, applyUpd, rhs, mul_sum, mul_assoc] using h

/-- `A.usmhv(alpha,x,y)`: y += alpha Aᴴ x -/
theorem usmhv_spec (j : Nat) :
    (kernelSem Gen.sig_usmhv conj rows cols A alpha x y).get j
      = if j < cols then y.get j + alpha * ∑ i ∈ range rows, conj (A i j) * x i else y.get j := by
  have h := outer_moving rows cols (fun o n => alpha * conj (A o n) * x o) y j
  simpa [kernelSem, Gen.sig_usmhv, bound, sel, applyUpd, rhs, mul_sum, mul_assoc] using h

end kernels

-- non-vacuity: the interpreter really runs the generated tables (Gaussian-integer-free instance: `Int`, conj = negation
-- so that a dropped conjugate is visible); A = [[1,2],[3,4]], x = (1,1), y = (10,20), alpha = 2
example : (List.range 2).map (kernelSem Gen.sig_umtv (fun z : Int => -z) 2 2 (fun i j => 2*i+j+1) 2 (fun _ => 1)
    ⟨2, fun i => 10 * (i+1)⟩).get = [14, 26] := by decide
example : (List.range 2).map (kernelSem Gen.sig_usmhv (fun z : Int => -z) 2 2 (fun i j => 2*i+j+1) 2 (fun _ => 1)
    ⟨2, fun i => 10 * (i+1)⟩).get = [2, 8] := by decide
example : (List.range 2).map (kernelSem Gen.sig_mv (fun z : Int => -z) 2 2 (fun i j => 2*i+j+1) 2 (fun _ => 1)
    ⟨2, fun i => 10 * (i+1)⟩).get = [3, 7] := by decide

/-! ## representations are interchangeable -/

/-- The algebraic definition of kernel `k` for the full matrix `M` (new value of `y[i]`); part of the statement of
`dense_kernel_spec` and `rep_interchangeable`. -/
def kernelSpec (k : KName) (M : Mat R) (alpha : R) (x y : Nat → R) (i : Nat) : R :=
  match k with
  | .mv => if i < M.rows then ∑ j ∈ range M.cols, M.e i j * x j else y i
  | .mtv => if i < M.cols then ∑ l ∈ range M.rows, M.e l i * x l else y i
  | .umv => if i < M.rows then y i + ∑ j ∈ range M.cols, M.e i j * x j else y i
  | .umtv => if i < M.cols then y i + ∑ l ∈ range M.rows, M.e l i * x l else y i
  | .umhv => if i < M.cols then y i + ∑ l ∈ range M.rows, conj (M.e l i) * x l else y i
  | .mmv => if i < M.rows then y i - ∑ j ∈ range M.cols, M.e i j * x j else y i
  | .mmtv => if i < M.cols then y i - ∑ l ∈ range M.rows, M.e l i * x l else y i
  | .mmhv => if i < M.cols then y i - ∑ l ∈ range M.rows, conj (M.e l i) * x l else y i
  | .usmv => if i < M.rows then y i + alpha * ∑ j ∈ range M.cols, M.e i j * x j else y i
  | .usmtv => if i < M.cols then y i + alpha * ∑ l ∈ range M.rows, M.e l i * x l else y i
  | .usmhv => if i < M.cols then y i + alpha * ∑ l ∈ range M.rows, conj (M.e l i) * x l else y i

/-- every dense kernel (FieldMatrix, DynamicMatrix, ScalarMatrixView) computes its algebraic definition -/
theorem dense_kernel_spec (k : KName) (M : Mat R) (alpha : R) (x : Nat → R) (y : Vec R) (i : Nat) :
    (kernelSem (Gen.denseSig k) conj M.rows M.cols M.e alpha x y).get i = kernelSpec conj k M alpha x y.get i := by
  cases k <;> simp only [Gen.denseSig, kernelSpec]
  · exact mv_spec conj _ _ _ _ _ _ i
  · exact mtv_spec conj _ _ _ _ _ _ i
  · exact umv_spec conj _ _ _ _ _ _ i
  · exact umtv_spec conj _ _ _ _ _ _ i
  · exact umhv_spec conj _ _ _ _ _ _ i
  · exact mmv_spec conj _ _ _ _ _ _ i
  · exact mmtv_spec conj _ _ _ _ _ _ i
  · exact mmhv_spec conj _ _ _ _ _ _ i
  · exact usmv_spec conj _ _ _ _ _ _ i
  · exact usmtv_spec conj _ _ _ _ _ _ i
  · exact usmhv_spec conj _ _ _ _ _ _ i

/-- the kernels of DiagonalMatrix (tables `Gen.dsig_*` read from diagonalmatrix.hh) give what the dense kernels give
for the full matrix with the same entries -/
theorem diag_kernel_spec (h0 : conj 0 = 0) (k : KName) (n : Nat) (d : Nat → R) (alpha : R) (x : Nat → R) (y : Vec R)
    (i : Nat) :
    (diagKernelSem (Gen.diagSig k) conj n d alpha x y).get i
      = kernelSpec conj k (Rep.toFull (.diag n d)) alpha x y.get i := by
  unfold diagKernelSem
  rw [diag_loop n (fun i v => applyUpd (Gen.diagSig k).upd v (rhs (Gen.diagSig k).alpha (Gen.diagSig k).conj conj alpha (d i) (x i)))]
  by_cases hi : i < n
  · have hh := sum_diag_col conj h0 n d x i hi
    cases k <;>
      simp [Gen.diagSig, Gen.dsig_mv, Gen.dsig_mtv, Gen.dsig_umv, Gen.dsig_umtv, Gen.dsig_umhv, Gen.dsig_mmv,
        Gen.dsig_mmtv, Gen.dsig_mmhv, Gen.dsig_usmv, Gen.dsig_usmtv, Gen.dsig_usmhv, kernelSpec, Rep.toFull, hi,
        applyUpd, rhs, hh, mul_assoc]
  · cases k <;> simp [kernelSpec, Rep.toFull, hi]

/-- **Representations are interchangeable.**  Every kernel a representation offers (all eleven for full, diagonal and
1x1-scalar-view matrices; `mv`/`mtv` — forwarded as read from transpose.hh — for transposed views, nested arbitrarily)
gives exactly the algebraic result for the full matrix with the same entries. -/
theorem rep_interchangeable (h0 : conj 0 = 0) (rep : Rep R) :
    ∀ (k : KName), offers k rep = true → ∀ (alpha : R) (x : Nat → R) (y : Vec R) (i : Nat),
      (repKernel conj k rep alpha x y).get i = kernelSpec conj k rep.toFull alpha x y.get i := by
  induction rep with
  | full m => intro k _ alpha x y i; exact dense_kernel_spec conj k m alpha x y i
  | diag n d => intro k _ alpha x y i; exact diag_kernel_spec conj h0 k n d alpha x y i
  | scalar a =>
    intro k _ alpha x y i
    exact dense_kernel_spec conj k ⟨1, 1, fun _ _ => a⟩ alpha x y i
  | transposed r ih =>
    intro k hk alpha x y i
    cases k
    case mv =>
      -- mv on the view = mtv on the wrapped matrix
      simp only [offers, Gen.wrapFwd] at hk
      simp only [repKernel, Gen.wrapFwd]
      rw [ih _ hk]
      rfl
    case mtv =>
      -- mtv on the view = mv on the wrapped matrix
      simp only [offers, Gen.wrapFwd] at hk
      simp only [repKernel, Gen.wrapFwd]
      rw [ih _ hk]
      rfl
    all_goals (simp [offers, Gen.wrapFwd] at hk)

-- non-vacuity: a transposed view of a transposed view of a diagonal matrix offers `mv`
example : offers .mv (.transposed (.transposed (.diag 3 (fun i => (i : Int))))) = true := by decide

/-- **Two representations holding the same entries are interchangeable**: if `r₁` and `r₂` have the same shape and the same
entries (as full matrices, on that shape), every kernel both of them offer gives the same result, for all `alpha`, `x`, `y`
and every index.  (Corollary of `rep_interchangeable`; e.g. a diagonal matrix vs. the full matrix with that diagonal, a
transposed view of `A` vs. the transposed copy, a view of a view of `A` vs. `A`.) -/
theorem rep_pair_interchangeable (h0 : conj 0 = 0) (r₁ r₂ : Rep R)
    (hrows : r₁.rows = r₂.rows) (hcols : r₁.cols = r₂.cols)
    (hent : ∀ i j, i < r₁.rows → j < r₁.cols → r₁.toFull.e i j = r₂.toFull.e i j)
    (k : KName) (h1 : offers k r₁ = true) (h2 : offers k r₂ = true) (alpha : R) (x : Nat → R) (y : Vec R) (i : Nat) :
    (repKernel conj k r₁ alpha x y).get i = (repKernel conj k r₂ alpha x y).get i := by
  rw [rep_interchangeable conj h0 r₁ k h1, rep_interchangeable conj h0 r₂ k h2]
  have e1 : ∀ i, i < r₁.toFull.rows → ∑ j ∈ range r₁.toFull.cols, r₁.toFull.e i j * x j
      = ∑ j ∈ range r₂.toFull.cols, r₂.toFull.e i j * x j := by
    intro i hi
    rw [toFull_cols, toFull_cols, ← hcols]
    apply Finset.sum_congr rfl
    intro j hj
    rw [hent i j (by rwa [toFull_rows] at hi) (by simpa using hj)]
  have e2 : ∀ (f : R → R) i, i < r₁.toFull.cols → ∑ l ∈ range r₁.toFull.rows, f (r₁.toFull.e l i) * x l
      = ∑ l ∈ range r₂.toFull.rows, f (r₂.toFull.e l i) * x l := by
    intro f i hi
    rw [toFull_rows, toFull_rows, ← hrows]
    apply Finset.sum_congr rfl
    intro l hl
    rw [hent l i (by simpa using hl) (by rwa [toFull_cols] at hi)]
  have hr : r₁.toFull.rows = r₂.toFull.rows := by rw [toFull_rows, toFull_rows, hrows]
  have hc : r₁.toFull.cols = r₂.toFull.cols := by rw [toFull_cols, toFull_cols, hcols]
  have e2' := e2 (fun z => z)
  cases k <;> simp only [kernelSpec]
  · by_cases hi : i < r₁.toFull.rows
    · rw [if_pos hi, if_pos (hr ▸ hi), e1 i hi]
    · rw [if_neg hi, if_neg (hr ▸ hi)]
  · by_cases hi : i < r₁.toFull.cols
    · rw [if_pos hi, if_pos (hc ▸ hi), e2' i hi]
    · rw [if_neg hi, if_neg (hc ▸ hi)]
  · by_cases hi : i < r₁.toFull.rows
    · rw [if_pos hi, if_pos (hr ▸ hi), e1 i hi]
    · rw [if_neg hi, if_neg (hr ▸ hi)]
  · by_cases hi : i < r₁.toFull.cols
    · rw [if_pos hi, if_pos (hc ▸ hi), e2' i hi]
    · rw [if_neg hi, if_neg (hc ▸ hi)]
  · by_cases hi : i < r₁.toFull.cols
    · rw [if_pos hi, if_pos (hc ▸ hi), e2 conj i hi]
    · rw [if_neg hi, if_neg (hc ▸ hi)]
  · by_cases hi : i < r₁.toFull.rows
    · rw [if_pos hi, if_pos (hr ▸ hi), e1 i hi]
    · rw [if_neg hi, if_neg (hr ▸ hi)]
  · by_cases hi : i < r₁.toFull.cols
    · rw [if_pos hi, if_pos (hc ▸ hi), e2' i hi]
    · rw [if_neg hi, if_neg (hc ▸ hi)]
  · by_cases hi : i < r₁.toFull.cols
    · rw [if_pos hi, if_pos (hc ▸ hi), e2 conj i hi]
    · rw [if_neg hi, if_neg (hc ▸ hi)]
  · by_cases hi : i < r₁.toFull.rows
    · rw [if_pos hi, if_pos (hr ▸ hi), e1 i hi]
    · rw [if_neg hi, if_neg (hr ▸ hi)]
  · by_cases hi : i < r₁.toFull.cols
    · rw [if_pos hi, if_pos (hc ▸ hi), e2' i hi]
    · rw [if_neg hi, if_neg (hc ▸ hi)]
  · by_cases hi : i < r₁.toFull.cols
    · rw [if_pos hi, if_pos (hc ▸ hi), e2 conj i hi]
    · rw [if_neg hi, if_neg (hc ▸ hi)]

-- non-vacuity: the diagonal matrix diag(2,3) and the full matrix [[2,0],[0,3]] satisfy all hypotheses (conj = id on Int),
-- and so do a view of a view of a matrix and the matrix itself
example : ∀ (k : KName) (alpha : Int) (x : Nat → Int) (y : Vec Int) (i : Nat),
    (repKernel id k (.diag 2 (fun i => (i : Int) + 2)) alpha x y).get i
      = (repKernel id k (.full ⟨2, 2, fun i j => if i = j then (i : Int) + 2 else 0⟩) alpha x y).get i :=
  fun k alpha x y i => rep_pair_interchangeable id rfl (.diag 2 (fun i => (i : Int) + 2))
    (.full ⟨2, 2, fun i j => if i = j then (i : Int) + 2 else 0⟩) rfl rfl (fun _ _ _ _ => rfl) k rfl rfl alpha x y i
example (A : Mat Int) : ∀ (alpha : Int) (x : Nat → Int) (y : Vec Int) (i : Nat),
    (repKernel id .mv (.transposed (.transposed (.full A))) alpha x y).get i = (repKernel id .mv (.full A) alpha x y).get i :=
  fun alpha x y i => rep_pair_interchangeable id rfl (.transposed (.transposed (.full A))) (.full A) rfl rfl
    (fun _ _ _ _ => rfl) .mv rfl rfl alpha x y i

/-! ## matrix-matrix products

The three-deep loop nests are run by `prodSem` on the tables `Gen.psig_*` that the translator reads from fmatrix.hh /
densematrix.hh; entries outside the written range keep the value of the matrix the nest writes into. -/

/-- `operator*(FieldMatrix, FieldMatrix)`: (A B)ᵢⱼ = Σₖ Aᵢₖ Bₖⱼ, shape rows(A) x cols(B) -/
theorem matmul_spec (A B : Mat R) (i j : Nat) :
    (matmul A B).e i j = (if i < A.rows ∧ j < B.cols then ∑ k ∈ range A.cols, A.e i k * B.e k j else 0)
    ∧ (matmul A B).rows = A.rows ∧ (matmul A B).cols = B.cols := by
  have h := nest_ij A.rows B.cols A.cols (fun i j k => A.e i k * B.e k j) true (zeroMat A.rows B.cols) i j
  have hs := nest_shape A.rows B.cols A.cols (fun i j k => A.e i k * B.e k j) true (zeroMat A.rows B.cols)
  refine ⟨?_, ?_, ?_⟩
  · simpa [matmul, prodSem, Gen.psig_fmMul, pext, pidx, pfac, zeroMat] using h
  · simpa [matmul, prodSem, Gen.psig_fmMul, pext, pidx, pfac, zeroMat] using hs.1
  · simpa [matmul, prodSem, Gen.psig_fmMul, pext, pidx, pfac, zeroMat] using hs.2

/-- the FieldMatrix<K,1,1> specialisation of `operator*` agrees with the general one -/
theorem matmul11_spec (A B : Mat R) (hr : A.rows = 1) (hc : A.cols = 1) (i j : Nat) (hi : i < 1) (hj : j < B.cols) :
    (matmul11 A B).e i j = (matmul A B).e i j
    ∧ (matmul11 A B).rows = (matmul A B).rows ∧ (matmul11 A B).cols = (matmul A B).cols := by
  have hi0 : i = 0 := by omega
  subst hi0
  refine ⟨?_, ?_, ?_⟩
  · rw [(matmul_spec A B 0 j).1]; simp [matmul11, hr, hc, hj]
  · rw [(matmul_spec A B 0 j).2.1, hr]; rfl
  · rw [(matmul_spec A B 0 j).2.2]; rfl

/-- `FieldMatrix * OtherMatrix` (diagonal, scalar view, transposed view, view of a view …) built from `mtv`, as read from
fmatrix.hh -/
theorem mulFmOther_spec (h0 : conj 0 = 0) (A : Mat R) (B : Rep R) (hk : offers Gen.fmMulOther B = true)
    (hd : A.cols = B.rows) (i j : Nat) (hj : j < B.cols) :
    (mulFmOther conj Gen.fmMulOther A B).e i j = ∑ k ∈ range A.cols, A.e i k * B.toFull.e k j
    ∧ (mulFmOther conj Gen.fmMulOther A B).rows = A.rows ∧ (mulFmOther conj Gen.fmMulOther A B).cols = B.cols := by
  have h := rep_interchangeable conj h0 B Gen.fmMulOther hk 0 (A.e i) (zeroVec B.cols) j
  refine ⟨?_, rfl, rfl⟩
  simp only [mulFmOther]
  rw [h]
  simp [Gen.fmMulOther, kernelSpec, toFull_cols, toFull_rows, hj, hd, mul_comm]

/-- same for the FieldMatrix<K,1,1> class -/
theorem mulFm11Other_spec (h0 : conj 0 = 0) (A : Mat R) (B : Rep R) (hk : offers Gen.fm11MulOther B = true)
    (hd : A.cols = B.rows) (i j : Nat) (hj : j < B.cols) :
    (mulFmOther conj Gen.fm11MulOther A B).e i j = ∑ k ∈ range A.cols, A.e i k * B.toFull.e k j := by
  have h := rep_interchangeable conj h0 B Gen.fm11MulOther hk 0 (A.e i) (zeroVec B.cols) j
  simp only [mulFmOther]
  rw [h]
  simp [Gen.fm11MulOther, kernelSpec, toFull_cols, toFull_rows, hj, hd, mul_comm]

/-- `OtherMatrix * FieldMatrix` (also with a transposed view as left factor) built column by column from `mv`, as read from
fmatrix.hh -/
theorem mulOtherFm_spec (h0 : conj 0 = 0) (A : Rep R) (B : Mat R) (hk : offers Gen.otherMulFm A = true)
    (i j : Nat) (hi : i < A.rows) :
    (mulOtherFm conj Gen.otherMulFm A B).e i j = ∑ k ∈ range A.cols, A.toFull.e i k * B.e k j
    ∧ (mulOtherFm conj Gen.otherMulFm A B).rows = A.rows ∧ (mulOtherFm conj Gen.otherMulFm A B).cols = B.cols := by
  have h := rep_interchangeable conj h0 A Gen.otherMulFm hk 0 (fun l => B.e l j) (zeroVec A.rows) i
  refine ⟨?_, rfl, rfl⟩
  simp only [mulOtherFm]
  rw [h]
  simp [Gen.otherMulFm, kernelSpec, toFull_cols, toFull_rows, hi]

theorem mulOtherFm11_spec (h0 : conj 0 = 0) (A : Rep R) (B : Mat R) (hk : offers Gen.otherMulFm11 A = true)
    (i j : Nat) (hi : i < A.rows) :
    (mulOtherFm conj Gen.otherMulFm11 A B).e i j = ∑ k ∈ range A.cols, A.toFull.e i k * B.e k j := by
  have h := rep_interchangeable conj h0 A Gen.otherMulFm11 hk 0 (fun l => B.e l j) (zeroVec A.rows) i
  simp only [mulOtherFm]
  rw [h]
  simp [Gen.otherMulFm11, kernelSpec, toFull_cols, toFull_rows, hi]

/-- `A * transposedView(B)` (transpose.hh): (A Bᵀ)ᵢⱼ = Σₖ Aᵢₖ Bⱼₖ, for both branches of the source; shape rows(A) x rows(B) -/
theorem mulTransposedView_spec (h0 : conj 0 = 0) (A : Mat R) (B : Rep R) (k : KName)
    (hkk : k = Gen.twMulDynamic ∨ k = Gen.twMulStatic) (hk : offers k B = true)
    (hd : A.cols = B.cols) (i j : Nat) (hj : j < B.rows) :
    (mulTransposedView conj k A B).e i j = ∑ l ∈ range A.cols, A.e i l * B.toFull.e j l
    ∧ (mulTransposedView conj k A B).rows = A.rows ∧ (mulTransposedView conj k A B).cols = B.rows := by
  have h := rep_interchangeable conj h0 B k hk 0 (A.e i) (zeroVec B.rows) j
  refine ⟨?_, rfl, rfl⟩
  simp only [mulTransposedView]
  rw [h]
  rcases hkk with rfl | rfl <;>
    simp [Gen.twMulDynamic, Gen.twMulStatic, kernelSpec, toFull_cols, toFull_rows, hj, hd, mul_comm]

/-- `DiagonalMatrix * DiagonalMatrix` is the product of the full matrices -/
theorem mulDiag_spec (n : Nat) (d e : Nat → R) (i j : Nat) (hi : i < n) (hj : j < n) :
    (Rep.toFull (.diag n (mulDiag d e))).e i j
      = (matmul (Rep.toFull (.diag n d)) (Rep.toFull (.diag n e))).e i j := by
  rw [(matmul_spec _ _ i j).1,
    if_pos (show i < (Rep.toFull (.diag n d)).rows ∧ j < (Rep.toFull (.diag n e)).cols from ⟨hi, hj⟩)]
  simp only [Rep.toFull, mulDiag]
  rw [sum_diag_row n d (fun k => if k = j then e k else 0) i hi]
  by_cases h : i = j <;> simp [h]

/-- `leftmultiply(M)` (densematrix.hh): *this becomes M · *this; the copy `C` of *this is what the nest reads -/
theorem leftmul_spec (A M : Mat R) (i j : Nat) :
    (leftmultiply A M).e i j = (if i < A.rows ∧ j < A.cols then ∑ k ∈ range A.rows, M.e i k * A.e k j else A.e i j)
    ∧ (leftmultiply A M).rows = A.rows ∧ (leftmultiply A M).cols = A.cols
    ∧ (M.rows = A.rows → M.cols = A.rows → i < A.rows → j < A.cols → (leftmultiply A M).e i j = (matmul M A).e i j) := by
  have h := nest_ij A.rows A.cols A.rows (fun i j k => M.e i k * A.e k j) true A i j
  have hs := nest_shape A.rows A.cols A.rows (fun i j k => M.e i k * A.e k j) true A
  have e : (leftmultiply A M).e i j
      = (if i < A.rows ∧ j < A.cols then ∑ k ∈ range A.rows, M.e i k * A.e k j else A.e i j) := by
    simpa [leftmultiply, prodSem, Gen.psig_dmLeftmultiply, pext, pidx, pfac] using h
  refine ⟨e, ?_, ?_, ?_⟩
  · simpa [leftmultiply, prodSem, Gen.psig_dmLeftmultiply, pext, pidx, pfac] using hs.1
  · simpa [leftmultiply, prodSem, Gen.psig_dmLeftmultiply, pext, pidx, pfac] using hs.2
  · intro hr hc hi hj
    rw [e, (matmul_spec M A i j).1, hr, hc]
    simp [hi, hj]

/-- `rightmultiply(M)`: *this becomes *this · M — the DenseMatrix version and FieldMatrix's own overload -/
theorem rightmul_spec (A M : Mat R) (i j : Nat) :
    (rightmultiply A M).e i j = (if i < A.rows ∧ j < A.cols then ∑ k ∈ range A.cols, A.e i k * M.e k j else A.e i j)
    ∧ (rightmultiply A M).rows = A.rows ∧ (rightmultiply A M).cols = A.cols
    ∧ (rightmultiplyFM A M).e i j = (rightmultiply A M).e i j
    ∧ (rightmultiplyFM A M).rows = A.rows ∧ (rightmultiplyFM A M).cols = A.cols
    ∧ (M.cols = A.cols → i < A.rows → j < A.cols → (rightmultiply A M).e i j = (matmul A M).e i j) := by
  have h := nest_ij A.rows A.cols A.cols (fun i j k => A.e i k * M.e k j) true A i j
  have hs := nest_shape A.rows A.cols A.cols (fun i j k => A.e i k * M.e k j) true A
  have e : (rightmultiply A M).e i j
      = (if i < A.rows ∧ j < A.cols then ∑ k ∈ range A.cols, A.e i k * M.e k j else A.e i j) := by
    simpa [rightmultiply, prodSem, Gen.psig_dmRightmultiply, pext, pidx, pfac] using h
  have e' : (rightmultiplyFM A M).e i j
      = (if i < A.rows ∧ j < A.cols then ∑ k ∈ range A.cols, A.e i k * M.e k j else A.e i j) := by
    simpa [rightmultiplyFM, prodSem, Gen.psig_fmRightmultiply, pext, pidx, pfac] using h
  refine ⟨e, ?_, ?_, e'.trans e.symm, ?_, ?_, ?_⟩
  · simpa [rightmultiply, prodSem, Gen.psig_dmRightmultiply, pext, pidx, pfac] using hs.1
  · simpa [rightmultiply, prodSem, Gen.psig_dmRightmultiply, pext, pidx, pfac] using hs.2
  · simpa [rightmultiplyFM, prodSem, Gen.psig_fmRightmultiply, pext, pidx, pfac] using hs.1
  · simpa [rightmultiplyFM, prodSem, Gen.psig_fmRightmultiply, pext, pidx, pfac] using hs.2
  · intro hc hi hj
    rw [e, (matmul_spec A M i j).1, hc]
    simp [hi, hj]

/-- `leftmultiplyany(M)` returns M · *this (shape rows(M) x cols(*this)) -/
theorem leftmultiplyany_spec (A M : Mat R) (i j : Nat) :
    (leftmultiplyany A M).e i j = (if i < M.rows ∧ j < A.cols then ∑ k ∈ range A.rows, M.e i k * A.e k j else 0)
    ∧ (leftmultiplyany A M).rows = M.rows ∧ (leftmultiplyany A M).cols = A.cols := by
  have h := nest_ij M.rows A.cols A.rows (fun i j k => M.e i k * A.e k j) true (zeroMat M.rows A.cols) i j
  have hs := nest_shape M.rows A.cols A.rows (fun i j k => M.e i k * A.e k j) true (zeroMat M.rows A.cols)
  refine ⟨?_, ?_, ?_⟩
  · simpa [leftmultiplyany, prodSem, Gen.psig_fmLeftmultiplyany, pext, pidx, pfac, zeroMat] using h
  · simpa [leftmultiplyany, prodSem, Gen.psig_fmLeftmultiplyany, pext, pidx, pfac, zeroMat] using hs.1
  · simpa [leftmultiplyany, prodSem, Gen.psig_fmLeftmultiplyany, pext, pidx, pfac, zeroMat] using hs.2

/-- `rightmultiplyany(M)` returns *this · M (shape rows(*this) x cols(M)) -/
theorem rightmultiplyany_spec (A M : Mat R) (i j : Nat) :
    (rightmultiplyany A M).e i j = (if i < A.rows ∧ j < M.cols then ∑ k ∈ range A.cols, A.e i k * M.e k j else 0)
    ∧ (rightmultiplyany A M).rows = A.rows ∧ (rightmultiplyany A M).cols = M.cols := by
  have h := nest_ij A.rows M.cols A.cols (fun i j k => A.e i k * M.e k j) true (zeroMat A.rows M.cols) i j
  have hs := nest_shape A.rows M.cols A.cols (fun i j k => A.e i k * M.e k j) true (zeroMat A.rows M.cols)
  refine ⟨?_, ?_, ?_⟩
  · simpa [rightmultiplyany, prodSem, Gen.psig_fmRightmultiplyany, pext, pidx, pfac, zeroMat] using h
  · simpa [rightmultiplyany, prodSem, Gen.psig_fmRightmultiplyany, pext, pidx, pfac, zeroMat] using hs.1
  · simpa [rightmultiplyany, prodSem, Gen.psig_fmRightmultiplyany, pext, pidx, pfac, zeroMat] using hs.2

/-- the FieldMatrix<K,1,1> specialisations agree with the general loops -/
theorem mul11_specialisations (A M : Mat R) (i j : Nat) :
    (A.rows = 1 → A.cols = 1 → (rightmultiply11 A M).e 0 0 = (rightmultiplyFM A M).e 0 0)
    ∧ (A.rows = 1 → A.cols = 1 → i < M.rows → (leftmultiplyany11 A M).e i 0 = (leftmultiplyany A M).e i 0)
    ∧ (A.rows = 1 → A.cols = 1 → j < M.cols → (rightmultiplyany11 A M).e 0 j = (rightmultiplyany A M).e 0 j) := by
  refine ⟨fun hr hc => ?_, fun hr hc hi => ?_, fun hr hc hj => ?_⟩
  · rw [(rightmul_spec A M 0 0).2.2.2.1, (rightmul_spec A M 0 0).1]; simp [rightmultiply11, hr, hc]
  · rw [(leftmultiplyany_spec A M i 0).1]; simp [leftmultiplyany11, hr, hc, hi]
  · rw [(rightmultiplyany_spec A M 0 j).1]; simp [rightmultiplyany11, hr, hc, hj, mul_comm]

/-- `FMatrixHelp::multMatrix(A, B, ret)` writes A · B into `ret`, whatever `ret` held -/
theorem multMatrix_spec (A B ret : Mat R) (i j : Nat) :
    (multMatrix A B ret).e i j
      = (if i < A.rows ∧ j < B.cols then ∑ k ∈ range A.cols, A.e i k * B.e k j else ret.e i j) := by
  have h := nest_ij A.rows B.cols A.cols (fun i j k => A.e i k * B.e k j) true ret i j
  simpa [multMatrix, prodSem, Gen.psig_multMatrix, pext, pidx, pfac] using h

/-- `FMatrixHelp::multTransposedMatrix` computes Aᵀ A, whatever `ret` held -/
theorem multTransposedMatrix_spec (A ret : Mat R) (i j : Nat) :
    (multTransposedMatrix A ret).e i j
      = (if i < A.cols ∧ j < A.cols then ∑ k ∈ range A.rows, A.e k i * A.e k j else ret.e i j) := by
  have h := nest_ij A.cols A.cols A.rows (fun i j k => A.e k i * A.e k j) true ret i j
  simpa [multTransposedMatrix, prodSem, Gen.psig_multTransposedMatrix, pext, pidx, pfac] using h

/-- `DenseMatrixHelp::multAssign` / `FMatrixHelp::multAssign`, `mult`: ret = A x;
`FMatrixHelp::multAssignTransposed`, `multTransposed`: ret = Aᵀ x — whatever `ret` held -/
theorem multAssign_spec (A : Mat R) (x : Nat → R) (ret : Vec R) (i : Nat) :
    (multAssign A x ret).get i = (if i < A.rows then ∑ j ∈ range A.cols, A.e i j * x j else ret.get i)
    ∧ (multAssignT A x ret).get i = (if i < A.cols then ∑ j ∈ range A.rows, A.e j i * x j else ret.get i) := by
  constructor
  · have h := outer_fixed A.rows A.cols (fun o n => A.e o n * x n) true ret i
    simpa [multAssign, kernelSem, Gen.sig_multAssign, bound, sel, applyUpd, rhs] using h
  · have h := outer_fixed A.cols A.rows (fun o n => A.e n o * x n) true ret i
    simpa [multAssignT, kernelSem, Gen.sig_multAssignTransposed, bound, sel, applyUpd, rhs] using h

-- non-vacuity of the hypotheses of the mixed products: a FieldMatrix times the view of a view of a diagonal matrix, a transposed
-- view of a 3x2 matrix as LEFT factor, A * transposedView(diagonal), all over Int with conj = id
example := mulFmOther_spec (R := Int) id rfl ⟨2, 2, fun i j => (i : Int) + j⟩
  (.transposed (.transposed (.diag 2 fun i => (i : Int) + 1))) (by decide) rfl 0 1 (by decide)
example := mulOtherFm_spec (R := Int) id rfl (.transposed (.full ⟨3, 2, fun i j => (i : Int) + 2 * j⟩))
  ⟨3, 2, fun i j => (i : Int) - j⟩ (by decide) 1 0 (by decide)
example := mulTransposedView_spec (R := Int) id rfl ⟨2, 3, fun i j => (i : Int) + j⟩ (.diag 3 fun i => (i : Int) + 1)
  Gen.twMulDynamic (Or.inl rfl) (by decide) rfl 1 2 (by decide)
example : (List.range 2).map (fun i => (List.range 2).map ((mulOtherFm (fun z : Int => z) Gen.otherMulFm
    (.transposed (.full ⟨3, 2, fun i j => 2*i+j+1⟩)) ⟨3, 2, fun i j => if i = j then 1 else 0⟩).e i)) = [[1, 3], [2, 4]] := by decide

-- non-vacuity: [[1,2],[3,4]] * [[0,1],[1,0]] = [[2,1],[4,3]] over Int; leftmultiply / rightmultiply on a non-square matrix
example : (List.range 2).map (fun i => (List.range 2).map ((matmul (⟨2, 2, fun i j => 2*i+j+1⟩ : Mat Int)
    ⟨2, 2, fun i j => if i = j then 0 else 1⟩).e i)) = [[2, 1], [4, 3]] := by decide
example : (List.range 2).map (fun i => (List.range 3).map ((leftmultiply (⟨2, 3, fun i j => 3*i+j+1⟩ : Mat Int)
    ⟨2, 2, fun i j => if i = j then 0 else 1⟩).e i)) = [[4, 5, 6], [1, 2, 3]] := by decide
example : (List.range 2).map (fun i => (List.range 3).map ((rightmultiply (⟨2, 3, fun i j => 3*i+j+1⟩ : Mat Int)
    ⟨3, 3, fun i j => if i + j = 2 then 1 else 0⟩).e i)) = [[3, 2, 1], [6, 5, 4]] := by decide

/-! ## transposition -/

/-- `FieldMatrix::transposed` / `DynamicMatrix::transposed` (the nests `AT[j][i] = (*this)[i][j]` read from the source):
entry (i,j) of the result is entry (j,i), the shape is swapped -/
theorem transposed_spec (A : Mat R) (i j : Nat) :
    (transposed A).e i j = (if i < A.cols ∧ j < A.rows then A.e j i else 0)
    ∧ (transposed A).rows = A.cols ∧ (transposed A).cols = A.rows
    ∧ (transposedDyn A).e i j = (transposed A).e i j
    ∧ (transposedDyn A).rows = A.cols ∧ (transposedDyn A).cols = A.rows := by
  -- the generated tables are one of the two correct ways to write the nest (rows in the outer or in the inner loop)
  have hfm : Gen.tsig_fm = TransSig.rowsOuter ∨ Gen.tsig_fm = TransSig.colsOuter := by decide
  have hdyn : Gen.tsig_dyn = TransSig.rowsOuter ∨ Gen.tsig_dyn = TransSig.colsOuter := by decide
  have h1 := transSem_spec Gen.tsig_fm hfm A (zeroMat A.cols A.rows) i j
  have h2 := transSem_spec Gen.tsig_dyn hdyn A (zeroMat A.cols A.rows) i j
  exact ⟨h1.1, h1.2.1, h1.2.2, h2.1.trans h1.1.symm, h2.2.1, h2.2.2⟩

/-- transposing twice gives the matrix back -/
theorem transposed_involutive (A : Mat R) (i j : Nat) (hi : i < A.rows) (hj : j < A.cols) :
    (transposed (transposed A)).e i j = A.e i j
    ∧ (transposed (transposed A)).rows = A.rows ∧ (transposed (transposed A)).cols = A.cols := by
  have h1 := transposed_spec (transposed A) i j
  have h2 := transposed_spec A j i
  refine ⟨?_, ?_, ?_⟩
  · rw [h1.1, h2.2.1, h2.2.2.1, if_pos ⟨hi, hj⟩, h2.1, if_pos ⟨hj, hi⟩]
  · rw [h1.2.1, h2.2.2.1]
  · rw [h1.2.2.1, h2.2.1]

/-- `transposed()`, `transpose()` and `asDense()` of any representation are the transpose of its full matrix; diagonal
and 1x1 matrices (which return themselves) are their own transpose; the dense copy of a transposed view transposed
back is the wrapped matrix; the view of a view has the entries of the matrix itself -/
theorem rep_transposed_spec (r : Rep R) (n : Nat) (d : Nat → R) (a : R) (i j : Nat) :
    r.transposedFull.e i j = r.toFull.e j i
    ∧ (Rep.transposedFull (.diag n d)).e i j = (Rep.toFull (.diag n d)).e i j
    ∧ (Rep.transposedFull (.scalar a)).e i j = (Rep.toFull (.scalar a)).e i j
    ∧ transposeMat (Rep.toFull (.transposed r)) = r.toFull
    ∧ Rep.toFull (.transposed (.transposed r)) = r.toFull := by
  refine ⟨rfl, ?_, rfl, rfl, rfl⟩
  simp only [Rep.transposedFull, transposeMat, Rep.toFull]
  by_cases h : i = j
  · subst h; simp
  · have h' : ¬ j = i := fun e => h e.symm
    simp [h, h']

/-- conversion: `FieldMatrix / DynamicMatrix = representation` (construction or assignment) gives the full matrix with the
same entries; for a diagonal matrix this is the loop `dense = 0; dense[i][i] = diagonal[i]` -/
theorem assign_spec (r : Rep R) (i j : Nat) (hi : i < r.rows) :
    (assignFrom r).e i j = r.toFull.e i j
    ∧ (assignFrom r).rows = r.rows ∧ (assignFrom r).cols = r.cols := by
  cases r with
  | diag n d =>
    have hi' : i < n := hi
    have hs := loop_mupd_shape n (fun i _ => i) (fun i _ => i) (fun i _ => d i) (zeroMat n n)
    refine ⟨?_, hs.1, hs.2⟩
    simp only [assignFrom]
    rw [diag_assign_loop]
    by_cases h : i = j
    · subst h; simp [Rep.toFull, hi']
    · simp [Rep.toFull, h, zeroMat]
  | full m => exact ⟨rfl, rfl, rfl⟩
  | scalar a => exact ⟨rfl, rfl, rfl⟩
  | transposed r => exact ⟨rfl, toFull_rows _, toFull_cols _⟩

-- non-vacuity: conversion of diag(5,6,7) (the loop really writes the diagonal into a zeroed 3x3 matrix)
example : (List.range 3).map (fun i => (List.range 3).map ((assignFrom (.diag 3 fun i => (i : Int) + 5)).e i))
    = [[5, 0, 0], [0, 6, 0], [0, 0, 7]] := by decide
example := assign_spec (R := Int) (.diag 3 fun i => (i : Int) + 5) 2 2 (by decide)

-- non-vacuity: the transposed of the 2x3 matrix [[1,2,3],[4,5,6]]
example : (List.range 3).map (fun i => (List.range 2).map ((transposed (⟨2, 3, fun i j => 3*i+j+1⟩ : Mat Int)).e i))
    = [[1, 4], [2, 5], [3, 6]] := by decide

/-! ## vector-space operations

The elementwise loops are run by `elemSem` on the tables `Gen.vsig_*` read from densevector.hh; every statement gives the
value of entry `i` after the loop, and `i ≥ size` is the frame. -/

/-- vectors: `+=`, `-=`, `+= k`, `-= k`, `*= k`, `axpy`, unary `-`, binary `+` / `-` (copy, then compound assignment) -/
theorem vec_ops_spec [Div R] (t : Vec R) (x : Nat → R) (k a : R) (i : Nat) :
    (vPlusAssign t x).get i = (if i < t.n then t.get i + x i else t.get i)
    ∧ (vMinusAssign t x).get i = (if i < t.n then t.get i - x i else t.get i)
    ∧ (vPlusAssignScalar t k).get i = (if i < t.n then t.get i + k else t.get i)
    ∧ (vMinusAssignScalar t k).get i = (if i < t.n then t.get i - k else t.get i)
    ∧ (vTimesAssign t k).get i = (if i < t.n then k * t.get i else t.get i)
    ∧ (vAxpy t a x).get i = (if i < t.n then t.get i + a * x i else t.get i)
    ∧ (vNeg t).get i = (if i < t.n then - t.get i else t.get i)
    ∧ (vPlus t x).get i = (if i < t.n then t.get i + x i else t.get i)
    ∧ (vMinus t x).get i = (if i < t.n then t.get i - x i else t.get i) := by
  refine ⟨?_, ?_, ?_, ?_, ?_, ?_, ?_, ?_, ?_⟩ <;>
    simp [vPlusAssign, vMinusAssign, vPlusAssignScalar, vMinusAssignScalar, vTimesAssign, vAxpy, vNeg, vPlus, vMinus, applyVia,
      Gen.vplusVia, Gen.vminusVia, elemSem_get, Gen.vsig_plusAssign, Gen.vsig_minusAssign, Gen.vsig_plusAssignScalar,
      Gen.vsig_minusAssignScalar, Gen.vsig_timesAssign, Gen.vsig_axpy, Gen.vsig_neg, applyE, erhs, mul_comm]

/-- the size of the vector is preserved -/
theorem vec_ops_size [Div R] (t : Vec R) (x : Nat → R) (k a : R) :
    (vPlusAssign t x).n = t.n ∧ (vMinusAssign t x).n = t.n ∧ (vPlusAssignScalar t k).n = t.n
    ∧ (vMinusAssignScalar t k).n = t.n ∧ (vTimesAssign t k).n = t.n ∧ (vAxpy t a x).n = t.n ∧ (vNeg t).n = t.n
    ∧ (vPlus t x).n = t.n ∧ (vMinus t x).n = t.n := by
  refine ⟨?_, ?_, ?_, ?_, ?_, ?_, ?_, ?_, ?_⟩ <;>
    simp [vPlusAssign, vMinusAssign, vPlusAssignScalar, vMinusAssignScalar, vTimesAssign, vAxpy, vNeg, vPlus, vMinus, applyVia,
      Gen.vplusVia, Gen.vminusVia, elemSem_n]

/-- FieldVector `v*k`, `k*v`: the loops read from fvector.hh fill a fresh result of size `n` -/
theorem vec_scale_spec [Div R] (n : Nat) (x : Nat → R) (k : R) (i : Nat) :
    vscale n x k i = (if i < n then k * x i else 0) ∧ vscaleL n k x i = (if i < n then k * x i else 0) := by
  constructor <;>
    simp [vscale, vscaleL, ewSemVec_get, Gen.fvsig_times, Gen.fvsig_ltimes, ewVal, ewOpd, zeroVec, mul_comm]

/-- division by a scalar, over a field: `(x /= k)ᵢ = xᵢ / k`, and it undoes the multiplication by `k ≠ 0` -/
theorem vec_div_spec {F : Type*} [Field F] (t : Vec F) (x : Nat → F) (k : F) (i : Nat) :
    (vDivAssign t k).get i = (if i < t.n then t.get i / k else t.get i)
    ∧ vdiv t.n x k i = (if i < t.n then x i / k else 0)
    ∧ (k ≠ 0 → (vDivAssign (vTimesAssign t k) k).get i = t.get i) := by
  have h1 : ∀ (t : Vec F), (vDivAssign t k).get i = (if i < t.n then t.get i / k else t.get i) := by
    intro t; simp [vDivAssign, elemSem_get, Gen.vsig_divAssign, applyE, erhs]
  refine ⟨h1 t, by simp [vdiv, ewSemVec_get, Gen.fvsig_over, ewVal, ewOpd, zeroVec], fun hk => ?_⟩
  rw [h1, (vec_ops_size t x k k).2.2.2.2.1, (vec_ops_spec t x k k i).2.2.2.2.1]
  by_cases hi : i < t.n <;> simp [hi, hk]

omit [CommRing R] in
/-- `operator==` of vectors / matrices decides entrywise equality (`!=` is its negation in the code) -/
theorem eq_ops_spec [DecidableEq R] (n : Nat) (x y : Nat → R) (A B : Mat R) :
    (veq n x y = true ↔ ∀ i, i < n → x i = y i)
    ∧ (meq A B = true ↔ ∀ i, i < A.rows → ∀ j, j < A.cols → A.e i j = B.e i j) := by
  have hv : ∀ (n : Nat) (x y : Nat → R), veq n x y = true ↔ ∀ i, i < n → x i = y i := by
    intro n x y; simp [veq, allN_iff]
  refine ⟨hv n x y, ?_⟩
  simp only [meq, allN_iff, hv]

/-- matrices (densematrix.hh, row by row through the vector loops): `+=`, `-=`, `*= k`, `axpy`; unary `-` (the nest read from
densematrix.hh, run on a copy of the operand); FieldMatrix `A+B`, `A-B`, `A*k`, `k*A` (the nests read from fmatrix.hh, run on a
fresh result: 0 outside the shape) -/
theorem mat_ops_spec [Div R] (A B : Mat R) (k a : R) (i j : Nat) :
    (madd A B).e i j = (if j < A.cols then A.e i j + B.e i j else A.e i j)
    ∧ (msub A B).e i j = (if j < A.cols then A.e i j - B.e i j else A.e i j)
    ∧ (mscale A k).e i j = (if j < A.cols then k * A.e i j else A.e i j)
    ∧ (maxpy A a B).e i j = (if j < A.cols then A.e i j + a * B.e i j else A.e i j)
    ∧ (mneg A).e i j = (if i < A.rows ∧ j < A.cols then - A.e i j else A.e i j)
    ∧ (mplus A B).e i j = (if i < A.rows ∧ j < A.cols then A.e i j + B.e i j else 0)
    ∧ (mminus A B).e i j = (if i < A.rows ∧ j < A.cols then A.e i j - B.e i j else 0)
    ∧ (mtimes A k).e i j = (if i < A.rows ∧ j < A.cols then k * A.e i j else 0)
    ∧ (mltimes k A).e i j = (if i < A.rows ∧ j < A.cols then k * A.e i j else 0) := by
  refine ⟨?_, ?_, ?_, ?_, ?_, ?_, ?_, ?_, ?_⟩
  · exact (vec_ops_spec (A.row i) (B.e i) k a j).1
  · exact (vec_ops_spec (A.row i) (B.e i) k a j).2.1
  · exact (vec_ops_spec (A.row i) (B.e i) k a j).2.2.2.2.1
  · exact (vec_ops_spec (A.row i) (B.e i) k a j).2.2.2.2.2.1
  · simp [mneg, ewSemMat_e, Gen.msig_neg, ewVal, ewOpd]
  · simp [mplus, ewSemMat_e, Gen.fmsig_plus, ewVal, ewOpd, zeroMat]
  · simp [mminus, ewSemMat_e, Gen.fmsig_minus, ewVal, ewOpd, zeroMat]
  · simp [mtimes, ewSemMat_e, Gen.fmsig_times, ewVal, ewOpd, zeroMat, mul_comm]
  · simp [mltimes, ewSemMat_e, Gen.fmsig_ltimes, ewVal, ewOpd, zeroMat, mul_comm]

/-- the results of unary minus and of the FieldMatrix operators have the shape of the operand -/
theorem mat_ops_shape [Div R] (A B : Mat R) (k : R) :
    (mneg A).rows = A.rows ∧ (mneg A).cols = A.cols
    ∧ (mplus A B).rows = A.rows ∧ (mplus A B).cols = A.cols ∧ (mminus A B).rows = A.rows ∧ (mminus A B).cols = A.cols
    ∧ (mtimes A k).rows = A.rows ∧ (mtimes A k).cols = A.cols ∧ (mltimes k A).rows = A.rows ∧ (mltimes k A).cols = A.cols
    ∧ (mover A k).rows = A.rows ∧ (mover A k).cols = A.cols := by
  refine ⟨?_, ?_, ?_, ?_, ?_, ?_, ?_, ?_, ?_, ?_, ?_, ?_⟩ <;>
    simp [mneg, mplus, mminus, mtimes, mltimes, mover, ewSemMat_shape, zeroMat]

theorem mat_div_spec {F : Type*} [Field F] (A : Mat F) (k : F) (i j : Nat) :
    (mdiv A k).e i j = (if j < A.cols then A.e i j / k else A.e i j)
    ∧ (mover A k).e i j = (if i < A.rows ∧ j < A.cols then A.e i j / k else 0) :=
  ⟨(vec_div_spec (A.row i) (A.e i) k j).1, by simp [mover, ewSemMat_e, Gen.fmsig_over, ewVal, ewOpd, zeroMat]⟩

-- non-vacuity: the nests really write the entries (and only inside the shape)
example : (List.range 3).map (fun i => (List.range 3).map ((mneg (⟨2, 2, fun i j => 2*i+j+1⟩ : Mat Int)).e i))
    = [[-1, -2, 3], [-3, -4, 5], [5, 6, 7]] := by decide
example : (List.range 2).map (fun i => (List.range 3).map ((mminus (⟨2, 2, fun i j => 2*i+j+1⟩ : Mat Int) ⟨2, 2, fun _ _ => 1⟩).e i))
    = [[0, 1, 0], [2, 3, 0]] := by decide
example : (List.range 3).map (vscale 2 (fun i => (i : Int) + 1) 3) = [3, 6, 0]
    ∧ (List.range 3).map (vdiv 2 (fun i => 6 * ((i : Int) + 1)) 3) = [2, 4, 0] := by decide

/-- unary minus takes its operand as input only: whatever kind of object the operand is (an owning matrix / vector or a scalar
view), its storage afterwards is what it was, and the result has the negated entries.  (Needs `Gen.mnegResult = Gen.vnegResult =
.autonomous`: with the result declared as `MAT result = asImp()` the "copy" of a scalar view is a second handle and the loop
negates the viewed scalar.) -/
theorem neg_operand_unchanged [Div R] (isView : Bool) (b : Mat R) (i j : Nat) :
    (negObj Gen.mnegResult isView b).2 = b ∧ (negObj Gen.vnegResult isView b).2 = b
    ∧ (negObj Gen.mnegResult isView b).1.e i j = (if i < b.rows ∧ j < b.cols then - b.e i j else b.e i j)
    ∧ (negObj Gen.vnegResult isView b).1.e i j = (if i < b.rows ∧ j < b.cols then - b.e i j else b.e i j) := by
  have h := (mat_ops_spec b b 0 0 i j).2.2.2.2.1
  refine ⟨?_, ?_, ?_, ?_⟩ <;> simp [negObj, Gen.mnegResult, Gen.vnegResult, h]

example := neg_operand_unchanged (R := Int) true ⟨1, 1, fun _ _ => 3⟩ 0 0

/-- binary `+` and `-` of vectors take both operands as input only: whatever kind of object the first operand is (an owning
vector or the scalar view `asVector(s)`), its storage afterwards is what it was, and the result is the entrywise sum /
difference.  (Needs `Gen.vplusResult = Gen.vminusResult = .autonomous`: with `derived_type z = asImp()` the "copy" of a scalar
view is a second handle and `z += b` changes the viewed scalar.) -/
theorem vplus_vminus_operand_unchanged [Div R] (isView : Bool) (a : Vec R) (b : Nat → R) :
    (binObj Gen.vplusResult isView a (vPlus a b)).2 = a ∧ (binObj Gen.vminusResult isView a (vMinus a b)).2 = a
    ∧ (binObj Gen.vplusResult isView a (vPlus a b)).1 = vPlus a b ∧ (binObj Gen.vminusResult isView a (vMinus a b)).1 = vMinus a b := by
  refine ⟨?_, ?_, ?_, ?_⟩ <;> simp [binObj, Gen.vplusResult, Gen.vminusResult]

-- what `derived_type z = asImp()` did to a scalar view: the viewed scalar itself received the sum
example : ((binObj .sameType true (⟨1, fun _ => 3⟩ : Vec Int) ⟨1, fun _ => 7⟩).2.get 0, (binObj .autonomous true (⟨1, fun _ => 3⟩ : Vec Int) ⟨1, fun _ => 7⟩).2.get 0)
    = (7, 3) := by decide
-- what the previous declaration `MAT result = asImp()` did to a scalar view: the viewed scalar itself was negated
example : ((negObj .sameType true (⟨1, 1, fun _ _ => 3⟩ : Mat Int)).2.e 0 0, (negObj .autonomous true (⟨1, 1, fun _ _ => 3⟩ : Mat Int)).2.e 0 0)
    = (-3, 3) := by decide

/-- the in-place products with the matrix as its own argument: `A.leftmultiply(A)` and `A.rightmultiply(A)` (DenseMatrix's and
FieldMatrix's own overload) leave A·A.  The loop nests accumulate in the copy `C` and read the untouched `*this` and `M`
(`Gen.inplace_* = .copyBack`, read from the source), so the model's nest with immutable inputs is what the code does also when
`M` is `*this` -/
theorem self_mul_spec (A : Mat R) (hsq : A.rows = A.cols) (i j : Nat) (hi : i < A.rows) (hj : j < A.cols) :
    Gen.inplace_dmLeftmultiply = .copyBack ∧ Gen.inplace_dmRightmultiply = .copyBack ∧ Gen.inplace_fmRightmultiply = .copyBack
    ∧ (leftmultiply A A).e i j = ∑ k ∈ range A.rows, A.e i k * A.e k j
    ∧ (rightmultiply A A).e i j = ∑ k ∈ range A.rows, A.e i k * A.e k j
    ∧ (rightmultiplyFM A A).e i j = ∑ k ∈ range A.rows, A.e i k * A.e k j
    ∧ (leftmultiply A A).e i j = (matmul A A).e i j := by
  have hl := leftmul_spec A A i j
  have hr := rightmul_spec A A i j
  refine ⟨rfl, rfl, rfl, ?_, ?_, ?_, ?_⟩
  · rw [hl.1, if_pos ⟨hi, hj⟩]
  · rw [hr.1, if_pos ⟨hi, hj⟩, hsq]
  · rw [hr.2.2.2.1, hr.1, if_pos ⟨hi, hj⟩, hsq]
  · exact hl.2.2.2 rfl hsq.symm hi hj

example := self_mul_spec (R := Int) ⟨2, 2, fun i j => 2*i+j+1⟩ rfl 1 0 (by decide) (by decide)
example : (List.range 2).map (fun i => (List.range 2).map ((rightmultiply (⟨2, 2, fun i j => 2*i+j+1⟩ : Mat Int) ⟨2, 2, fun i j => 2*i+j+1⟩).e i))
    = [[7, 10], [15, 22]] := by decide

/-- DiagonalMatrix does its vector-space operations on the diagonal vector; the result is the diagonal matrix whose full
matrix is what the full matrices give: the diagonal and the full representation are interchangeable for `+=`, `-=`, `*=`
(and `==`) too -/
theorem diag_vs_ops_interchangeable [Div R] [DecidableEq R] (n : Nat) (d e : Nat → R) (k : R) (i j : Nat) (hj : j < n) :
    (Rep.toFull (.diag n (vPlusAssign ⟨n, d⟩ e).get)).e i j = (madd (Rep.toFull (.diag n d)) (Rep.toFull (.diag n e))).e i j
    ∧ (Rep.toFull (.diag n (vMinusAssign ⟨n, d⟩ e).get)).e i j = (msub (Rep.toFull (.diag n d)) (Rep.toFull (.diag n e))).e i j
    ∧ (Rep.toFull (.diag n (vTimesAssign ⟨n, d⟩ k).get)).e i j = (mscale (Rep.toFull (.diag n d)) k).e i j
    ∧ (veq n d e = meq (Rep.toFull (.diag n d)) (Rep.toFull (.diag n e))) := by
  have hm := mat_ops_spec (Rep.toFull (.diag n d)) (Rep.toFull (.diag n e)) k k i j
  have hv := vec_ops_spec ⟨n, d⟩ e k k i
  refine ⟨?_, ?_, ?_, ?_⟩
  · rw [hm.1]
    simp only [Rep.toFull, hv.1]
    by_cases h : i = j <;> simp [h, hj]
  · rw [hm.2.1]
    simp only [Rep.toFull, hv.2.1]
    by_cases h : i = j <;> simp [h, hj]
  · rw [hm.2.2.1]
    simp only [Rep.toFull, hv.2.2.2.2.1]
    by_cases h : i = j <;> simp [h, hj]
  · have he := eq_ops_spec n d e (Rep.toFull (.diag n d)) (Rep.toFull (.diag n e))
    rw [Bool.eq_iff_iff, he.1, he.2]
    simp only [Rep.toFull]
    constructor
    · intro h a ha b _
      by_cases hab : a = b
      · subst hab; simp [h a ha]
      · simp [hab]
    · intro h a ha
      simpa using h a ha a ha

theorem diag_div_interchangeable {F : Type*} [Field F] (n : Nat) (d : Nat → F) (k : F) (i j : Nat) (hj : j < n) :
    (Rep.toFull (.diag n (vDivAssign ⟨n, d⟩ k).get)).e i j = (mdiv (Rep.toFull (.diag n d)) k).e i j := by
  rw [(mat_div_spec (Rep.toFull (.diag n d)) k i j).1]
  simp only [Rep.toFull, (vec_div_spec ⟨n, d⟩ d k i).1]
  by_cases h : i = j <;> simp [h, hj]

/-- `dot` over a complex-like field conjugates its FIRST argument: a·b = Σ conj(aᵢ) bᵢ (the argument order `(*this)[i], x[i]` is
read from densevector.hh, the conjugated argument from dotproduct.hh); over a real field type the overload without
conjugation is compiled -/
theorem dot_conj_first (n : Nat) (a b : Nat → R) :
    vdot true conj n a b = ∑ i ∈ range n, conj (a i) * b i
    ∧ vdot false conj n a b = ∑ i ∈ range n, a i * b i := by
  constructor <;> (unfold vdot; rw [sumLoop_eq]) <;>
    simp [Gen.vdotOrder, Gen.scalarDotComplex, Gen.scalarDotReal, ordered, scalarDot]

/-- `operator*` (dotT) does not conjugate -/
theorem dotT_spec (n : Nat) (a b : Nat → R) : vdotT n a b = ∑ i ∈ range n, a i * b i := by
  unfold vdotT; rw [sumLoop_eq]; simp [Gen.vdotTOrder, ordered]

/-- with a ring involution the dot product is conjugate-symmetric -/
theorem dot_conj_symm [StarRing R] (n : Nat) (a b : Nat → R) :
    vdot true star n b a = star (vdot true star n a b) := by
  rw [(dot_conj_first star n b a).1, (dot_conj_first star n a b).1, star_sum]
  apply Finset.sum_congr rfl
  intro i _
  rw [star_mul', star_star, mul_comm]

/-- the dot product is `operator*` when conj is the identity, and always for real field types -/
theorem dot_real (hid : ∀ z : R, conj z = z) (n : Nat) (a b : Nat → R) :
    vdot true conj n a b = vdotT n a b ∧ vdot false conj n a b = vdotT n a b := by
  rw [(dot_conj_first conj n a b).1, (dot_conj_first conj n a b).2, dotT_spec]; simp [hid]

/-- the order relations of FieldVector<K,1> against scalars (`a[0] < b`, `a[0] <= b`, ...) decide the relation of a linear
order -/
theorem ord_ops_spec {L : Type*} [LinearOrder L] (a b : L) :
    (ordRel (fun x y => decide (x < y)) .lt a b = true ↔ a < b)
    ∧ (ordRel (fun x y => decide (x < y)) .le a b = true ↔ a ≤ b)
    ∧ (ordRel (fun x y => decide (x < y)) .gt a b = true ↔ b < a)
    ∧ (ordRel (fun x y => decide (x < y)) .ge a b = true ↔ b ≤ a) := by
  simp [ordRel]

-- non-vacuity: conj = negation on Int makes the two products differ; the loops really run
example : vdot true (fun z : Int => -z) 2 (fun i => i + 1) (fun _ => 1) = -3 ∧ vdotT 2 (fun i => (i : Int) + 1) (fun _ => 1) = 3 := by
  decide
example : (List.range 3).map (vAxpy (⟨3, fun i => (i : Int)⟩) 2 (fun _ => 5)).get = [10, 11, 12] := by decide
example : (List.range 3).map (vNeg (⟨2, fun i => (i : Int) + 1⟩)).get = [-1, -2, 3] := by decide

/-! ## object histories: handles, storage, and "no operation alters an operand it takes as input only"

`Model/C01/Store.lean`: every object of a history is a register with a pointer to the storage cell it reads and writes;
what the assignment operators of `ScalarVectorView` / `ScalarMatrixView` do with that pointer and what `transposedView`
holds is read from the C++ source.  The theorems say that — with the tables as read from the current source — every
executed operation is exactly one write, through its target object, of the value-level result into the target's own cell:
every other cell keeps its content (in particular the scalar variable behind a view that was only read), every object keeps
referring to the storage it was created for, and the written cell holds the algebraic result for the stored entries.  A
table saying `reseat` (`dataP_ = other.dataP_`) or `copy` (a view that copies its matrix) breaks `seq_step_frame` /
`seq_init_wf`. -/

section histories
variable (st st' : SeqState R)

/-- **Frame.**  An executed operation keeps the store well formed, leaves every object's kind and referent unchanged,
writes the cell of its target object — an owning object or scalar view of the store — and no other cell. -/
theorem seq_step_frame [Div R] (op : SOp R) (hwf : st.wf) (h : seqStep conj st op = some st') :
    st'.wf ∧ st'.regs = st.regs ∧ op.target < st.size ∧ st.kind op.target ≠ .tv
    ∧ (∀ i, i ≠ op.target → st'.buf i = st.buf i)
    ∧ (st'.buf op.target).rows = (opVal conj st op).rows ∧ (st'.buf op.target).cols = (opVal conj st op).cols
    ∧ (∀ r c, r < (opVal conj st op).rows → c < (opVal conj st op).cols →
        (st'.buf op.target).e r c = (opVal conj st op).e r c) := by
  obtain ⟨a, b, c, d, e, _⟩ := step_frame conj st st' op hwf h
  obtain ⟨f, g, k⟩ := step_target conj st st' op hwf h
  exact ⟨a, b, c, d, e, f, g, k⟩

/-- `t += s`, `t -= s`, `t.axpy(k,s)`, `t *= k`, `t = k` on objects of a history: the storage of `t` afterwards, entry by
entry, from the storage of `t` and `s` before (vectors are 1 x n cells; a DiagonalMatrix stores its diagonal) -/
theorem seq_vs_ops_spec [Div R] (hwf : st.wf) (t s : Nat) (k : R) (r c : Nat)
    (hr : r < (st.buf t).rows) (hc : c < (st.buf t).cols) :
    (seqStep conj st (.add t s) = some st' → (st'.buf t).e r c = (st.buf t).e r c + (st.buf s).e r c)
    ∧ (seqStep conj st (.sub t s) = some st' → (st'.buf t).e r c = (st.buf t).e r c - (st.buf s).e r c)
    ∧ (seqStep conj st (.axpy t k s) = some st' → (st'.buf t).e r c = (st.buf t).e r c + k * (st.buf s).e r c)
    ∧ (seqStep conj st (.scale t k) = some st' → (st'.buf t).e r c = k * (st.buf t).e r c)
    ∧ (seqStep conj st (.fill t k) = some st' → (st'.buf t).e r c = k) := by
  have two : ∀ (o : OpK) (op : SOp R), (opOk st op = true → opOk.pair st o t s = true) → op.target = t →
      seqStep conj st op = some st' →
      st.rd t = st.buf t ∧ st.rd s = st.buf s
      ∧ (∀ r c, r < (opVal conj st op).rows → c < (opVal conj st op).cols → (st'.buf t).e r c = (opVal conj st op).e r c) := by
    intro o op hp htg h
    have hok := (seqStep_eq conj st st' op h).1
    obtain ⟨ht, hs, _, hkt, hks, _, _⟩ := pair_facts st o t s (hp hok)
    have f := step_target conj st st' op hwf h
    rw [htg] at f
    exact ⟨rd_own st hwf t ht hkt, rd_own st hwf s hs hks, f.2.2⟩
  have one : ∀ (op : SOp R), op.target = t → seqStep conj st op = some st' →
      st.rd t = st.buf t
      ∧ (∀ r c, r < (opVal conj st op).rows → c < (opVal conj st op).cols → (st'.buf t).e r c = (opVal conj st op).e r c) := by
    intro op htg h
    obtain ⟨_, _, ht, hk, _, _⟩ := step_frame conj st st' op hwf h
    rw [htg] at ht hk
    have f := step_target conj st st' op hwf h
    rw [htg] at f
    exact ⟨rd_own st hwf t ht hk, f.2.2⟩
  refine ⟨?_, ?_, ?_, ?_, ?_⟩
  · intro h
    obtain ⟨e1, e2, f⟩ := two .add (.add t s) (fun x => x) rfl h
    have := f r c (by simp only [opVal, e1]; exact hr) (by simp only [opVal, e1]; exact hc)
    rw [this]; simp only [opVal, e1, e2]
    rw [(mat_ops_spec (st.buf t) (st.buf s) k k r c).1, if_pos hc]
  · intro h
    obtain ⟨e1, e2, f⟩ := two .sub (.sub t s) (fun x => x) rfl h
    have := f r c (by simp only [opVal, e1]; exact hr) (by simp only [opVal, e1]; exact hc)
    rw [this]; simp only [opVal, e1, e2]
    rw [(mat_ops_spec (st.buf t) (st.buf s) k k r c).2.1, if_pos hc]
  · intro h
    obtain ⟨e1, e2, f⟩ := two .axpy (.axpy t k s) (fun x => x) rfl h
    have := f r c (by simp only [opVal, e1]; exact hr) (by simp only [opVal, e1]; exact hc)
    rw [this]; simp only [opVal, e1, e2]
    rw [(mat_ops_spec (st.buf t) (st.buf s) k k r c).2.2.2.1, if_pos hc]
  · intro h
    obtain ⟨e1, f⟩ := one (.scale t k) rfl h
    have := f r c (by simp only [opVal, e1]; exact hr) (by simp only [opVal, e1]; exact hc)
    rw [this]; simp only [opVal, e1]
    rw [(mat_ops_spec (st.buf t) (st.buf t) k k r c).2.2.1, if_pos hc]
  · intro h
    obtain ⟨e1, f⟩ := one (.fill t k) rfl h
    have := f r c (by simp only [opVal, e1]; exact hr) (by simp only [opVal, e1]; exact hc)
    rw [this]; rfl

/-- `t = s`: afterwards the storage of `t` holds the entries of `s` (a DiagonalMatrix assigned to a dense matrix is
expanded, zeros off the diagonal); that `s`'s own storage is untouched is `seq_step_frame` -/
theorem seq_asg_spec [Div R] (hwf : st.wf) (t s : Nat) (h : seqStep conj st (.asg t s) = some st') :
    (st.kind s = .dg ∧ st.kind t ≠ .dg →
      (st'.buf t).rows = (st.buf s).cols ∧ (st'.buf t).cols = (st.buf s).cols
      ∧ ∀ r c, r < (st.buf s).cols → c < (st.buf s).cols →
          (st'.buf t).e r c = if r = c then (st.buf s).e 0 r else 0)
    ∧ (¬ (st.kind s = .dg ∧ st.kind t ≠ .dg) →
      (st'.buf t).rows = (st.buf s).rows ∧ (st'.buf t).cols = (st.buf s).cols
      ∧ ∀ r c, r < (st.buf s).rows → c < (st.buf s).cols → (st'.buf t).e r c = (st.buf s).e r c) := by
  have hok := (seqStep_eq conj st st' _ h).1
  obtain ⟨_, hs, _, _, hks, _, _⟩ := pair_facts st .asg t s hok
  have es : st.rd s = st.buf s := rd_own st hwf s hs hks
  obtain ⟨f1, f2, f3⟩ := step_target conj st st' _ hwf h
  simp only [SOp.target, opVal, es, asgVal] at f1 f2 f3
  refine ⟨fun hd => ?_, fun hd => ?_⟩
  · have hc : (st.kind s == RKind.dg && st.kind t != RKind.dg) = true := by simp [hd.1, hd.2]
    rw [hc, if_pos rfl] at f1 f2 f3
    have hsh := loop_mupd_shape (st.buf s).cols (fun i _ => i) (fun i _ => i) (fun i _ => (st.buf s).e 0 i)
      (zeroMat (st.buf s).cols (st.buf s).cols)
    have hrows : (assignFrom (Rep.diag (st.buf s).cols ((st.buf s).e 0))).rows = (st.buf s).cols := hsh.1
    have hcols : (assignFrom (Rep.diag (st.buf s).cols ((st.buf s).e 0))).cols = (st.buf s).cols := hsh.2
    refine ⟨f1.trans hrows, f2.trans hcols, ?_⟩
    intro r c hr hc'
    rw [f3 r c (by rw [hrows]; exact hr) (by rw [hcols]; exact hc'),
      (assign_spec (R := R) (.diag (st.buf s).cols ((st.buf s).e 0)) r c hr).1]
    simp [Rep.toFull]
  · have hc : (st.kind s == RKind.dg && st.kind t != RKind.dg) = false := by
      by_cases h1 : st.kind s = .dg
      · have h2 : ¬ st.kind t ≠ .dg := fun x => hd ⟨h1, x⟩
        simp [h1, not_not.mp h2]
      · simp [h1]
    rw [hc] at f1 f2 f3
    exact ⟨f1, f2, f3⟩

/-- `t.leftmultiply(s)`, `t.rightmultiply(s)` (also FieldMatrix<K,1,1>'s and FieldMatrix's own overloads): the storage of
`t` afterwards is the matrix product of the stored entries -/
theorem seq_mul_spec [Div R] (hwf : st.wf) (t s : Nat) (r c : Nat)
    (hr : r < (st.buf t).rows) (hc : c < (st.buf t).cols) :
    (seqStep conj st (.lmul t s) = some st' →
      (st'.buf t).e r c = ∑ k ∈ range (st.buf t).rows, (st.buf s).e r k * (st.buf t).e k c)
    ∧ (seqStep conj st (.rmul t s) = some st' →
      (st'.buf t).e r c = ∑ k ∈ range (st.buf t).cols, (st.buf t).e r k * (st.buf s).e k c) := by
  refine ⟨fun h => ?_, fun h => ?_⟩
  · have hok := (seqStep_eq conj st st' _ h).1
    rw [opOk_lmul, Bool.and_eq_true] at hok
    obtain ⟨ht, hs, _, hkt, hks, _, _⟩ := pair_facts st .lmul t s hok.1
    have et : st.rd t = st.buf t := rd_own st hwf t ht hkt
    have es : st.rd s = st.buf s := rd_own st hwf s hs hks
    obtain ⟨_, _, f3⟩ := step_target conj st st' _ hwf h
    simp only [SOp.target, opVal, et, es] at f3
    have sp := leftmul_spec (st.buf t) (st.buf s) r c
    rw [f3 r c (by rw [sp.2.1]; exact hr) (by rw [sp.2.2.1]; exact hc), sp.1, if_pos ⟨hr, hc⟩]
  · have hok := (seqStep_eq conj st st' _ h).1
    rw [opOk_rmul, Bool.and_eq_true] at hok
    obtain ⟨ht, hs, _, hkt, hks, _, _⟩ := pair_facts st .rmul t s hok.1
    have et : st.rd t = st.buf t := rd_own st hwf t ht hkt
    have es : st.rd s = st.buf s := rd_own st hwf s hs hks
    have hsq : (st.buf t).rows = (st.buf t).cols := by
      have := hok.2; rw [et] at this; simpa using this
    obtain ⟨_, _, f3⟩ := step_target conj st st' _ hwf h
    simp only [SOp.target, opVal, et, es, rmulVal] at f3
    have sp := rightmul_spec (st.buf t) (st.buf s) r c
    by_cases h11 : (st.kind t == RKind.fm && (st.buf t).rows == 1) = true
    · rw [h11, if_pos rfl] at f3
      have h1 : (st.buf t).rows = 1 := by
        simp only [Bool.and_eq_true, beq_iff_eq] at h11; exact h11.2
      have hc1 : (st.buf t).cols = 1 := by rw [← hsq, h1]
      have hr0 : r = 0 := by omega
      have hc0 : c = 0 := by omega
      subst hr0; subst hc0
      rw [f3 0 0 (by simp [rightmultiply11]) (by simp [rightmultiply11]), hc1]
      simp [rightmultiply11]
    · rw [Bool.not_eq_true] at h11
      rw [h11] at f3
      simp only [Bool.false_eq_true, if_false] at f3
      by_cases hff : (st.kind t == RKind.fm && st.kind s == RKind.fm) = true
      · rw [hff, if_pos rfl] at f3
        rw [f3 r c (by rw [sp.2.2.2.2.1]; exact hr) (by rw [sp.2.2.2.2.2.1]; exact hc), sp.2.2.2.1, sp.1, if_pos ⟨hr, hc⟩]
      · rw [Bool.not_eq_true] at hff
        rw [hff] at f3
        simp only [Bool.false_eq_true, if_false] at f3
        rw [f3 r c (by rw [sp.2.1]; exact hr) (by rw [sp.2.2.1]; exact hc), sp.1, if_pos ⟨hr, hc⟩]

/-- rows as vectors: `T[i] = S[j]` and `T[i].axpy(k, S[j])` on matrix objects of a history (the row of a scalar matrix view is
the scalar vector view it holds): row `i` of the storage of `t` gets the result, its other rows stay -/
theorem seq_row_ops_spec [Div R] (hwf : st.wf) (t i s j : Nat) (k : R) (r c : Nat)
    (hr : r < (st.buf t).rows) (hc : c < (st.buf t).cols) :
    (seqStep conj st (.rasg t i s j) = some st' →
      (st'.buf t).e r c = if r = i then (st.buf s).e j c else (st.buf t).e r c)
    ∧ (seqStep conj st (.raxpy t i k s j) = some st' →
      (st'.buf t).e r c = if r = i then (st.buf t).e i c + k * (st.buf s).e j c else (st.buf t).e r c) := by
  refine ⟨fun h => ?_, fun h => ?_⟩
  · have hok := (seqStep_eq conj st st' _ h).1
    obtain ⟨ht, hs, _, hkt, hks, _, _, _⟩ := rowPair_facts st .asg t i s j hok
    have et : st.rd t = st.buf t := rd_own st hwf t ht hkt
    have es : st.rd s = st.buf s := rd_own st hwf s hs hks
    obtain ⟨_, _, f3⟩ := step_target conj st st' _ hwf h
    simp only [SOp.target, opVal, et, es] at f3
    rw [f3 r c hr hc]
    rfl
  · have hok := (seqStep_eq conj st st' _ h).1
    obtain ⟨ht, hs, _, hkt, hks, _, _, _⟩ := rowPair_facts st .axpy t i s j hok
    have et : st.rd t = st.buf t := rd_own st hwf t ht hkt
    have es : st.rd s = st.buf s := rd_own st hwf s hs hks
    obtain ⟨_, _, f3⟩ := step_target conj st st' _ hwf h
    simp only [SOp.target, opVal, et, es] at f3
    rw [f3 r c hr hc]
    simp only [Mat.setRow]
    by_cases hri : r = i
    · rw [if_pos hri, if_pos hri, (vec_ops_spec ((st.buf t).row i) ((st.buf s).e j) k k c).2.2.2.2.2.1]
      simp [Mat.row, hc]
    · rw [if_neg hri, if_neg hri]

/-- what a matrix object of a history is as a kernel operand: an owning matrix / scalar view is the representation of its
own cell; a transposed view is the transpose of the *current* content of the cell of the object it was made from -/
theorem seq_view_spec [Div R] (hwf : st.wf) (a : Nat) (ha : a < st.size) :
    (st.kind a ≠ .tv → st.matRep a = regRep (st.kind a) (st.buf a))
    ∧ (st.kind a = .tv → st.matRep a = .transposed (regRep (st.kind (st.wraps a)) (st.buf (st.wraps a)))
        ∧ (st.matRep a).toFull = transposeMat (regRep (st.kind (st.wraps a)) (st.buf (st.wraps a))).toFull) := by
  refine ⟨fun hk => ?_, fun hk => ?_⟩
  · have : (st.kind a == RKind.tv) = false := by simp [hk]
    simp only [SeqState.matRep, this, Bool.false_eq_true, if_false, rd_own st hwf a ha hk]
  · have e : st.matRep a = .transposed (regRep (st.kind (st.wraps a)) (st.buf (st.wraps a))) := by
      simp only [SeqState.matRep, hk, beq_self_eq_true, if_true, rd_view st hwf a ha hk]
    exact ⟨e, by rw [e]; rfl⟩

/-- `a.kernel([alpha,] x, y)` on objects of a history (`a` possibly a transposed view): the storage of `y` afterwards is the
algebraic definition of the kernel for the full matrix with the entries `a` shows, applied to the storage of `x` and `y` -/
theorem seq_kern_spec [Div R] (h0 : conj 0 = 0) (hwf : st.wf) (k : KName) (a x y : Nat) (alpha : R)
    (h : seqStep conj st (.kern k a alpha x y) = some st') (i : Nat) (hi : i < (st.buf y).cols) :
    (st'.buf y).e 0 i = kernelSpec conj k (st.matRep a).toFull alpha ((st.buf x).e 0) ((st.buf y).e 0) i
    ∧ (st'.buf y).rows = 1 ∧ (st'.buf y).cols = (st.buf y).cols := by
  have hok := (seqStep_eq conj st st' _ h).1
  obtain ⟨_, hx, hy, _, hkx, hky, _, hoff, _, _, _⟩ := kern_facts st k a x y alpha hok
  have ex : st.rd x = st.buf x := rd_own st hwf x hx hkx
  have ey : st.rd y = st.buf y := rd_own st hwf y hy hky
  obtain ⟨f1, f2, f3⟩ := step_target conj st st' _ hwf h
  simp only [SOp.target, opVal, ex, ey, kernVal] at f1 f2 f3
  refine ⟨?_, f1, f2⟩
  rw [f3 0 i (by decide) hi]
  exact rep_interchangeable conj h0 (st.matRep a) k hoff alpha ((st.buf x).e 0) ⟨(st.buf y).cols, (st.buf y).e 0⟩ i

/-- **Histories.**  Along an executed history every store is well formed, the objects keep their kinds and referents, and
consecutive stores are related by `seqStep` — hence by `seq_step_frame` and the per-operation theorems. -/
theorem seq_trace_spec [Div R] (hwf : st.wf) (ops : List (SOp R)) (sts : List (SeqState R))
    (h : seqTrace conj st ops = some sts) :
    sts.length = ops.length ∧
    ∀ (k : Nat) (prev cur : SeqState R) (op : SOp R),
      (st :: sts)[k]? = some prev → sts[k]? = some cur → ops[k]? = some op →
      seqStep conj prev op = some cur ∧ prev.wf ∧ cur.wf ∧ cur.regs = st.regs :=
  trace_steps conj ops st sts hwf h

/-- the store right after the declarations is well formed (a transposed view refers to the cell of its matrix: `Gen.tvHolds`
read from transpose.hh), and every other object starts with its declared entries in its own cell -/
theorem seq_init_wf [Div R] (ds : List (Decl R)) (hds : declsOk ds) :
    (initState ds).wf ∧ (initState ds).size = ds.length
    ∧ ∀ i d, ds[i]? = some d → (initState ds).kind i = d.kind ∧ (d.kind ≠ .tv → (initState ds).buf i = d.init) :=
  ⟨init_wf ds hds, init_size ds, fun i d h => ⟨init_kind ds i d h, init_buf ds i d h⟩⟩

end histories

def exDecls : List (Decl Int) :=
  [⟨.sc, ⟨1, 1, fun _ _ => 1⟩, 0, false⟩, ⟨.sc, ⟨1, 1, fun _ _ => 2⟩, 1, false⟩, ⟨.sv, ⟨1, 1, fun _ _ => 5⟩, 2, false⟩,
   ⟨.tv, zeroMat 0 0, 2, true⟩]

-- non-vacuity: two scalar views, `v0 = v1; v0 *= 3; v0 += v1; v0 = transposedView(M).mv(v1)`: the scalars behind them afterwards
example : (seqTrace (fun z : Int => z) (initState exDecls) [.asg 0 1, .scale 0 3, .add 0 1, .fill 2 7, .kern .mv 3 0 1 0]).map
    (fun sts => sts.map fun s => ((s.buf 0).e 0 0, (s.buf 1).e 0 0, (s.buf 2).e 0 0))
    = some [(2, 2, 5), (6, 2, 5), (8, 2, 5), (8, 2, 7), (14, 2, 7)] := by decide

-- non-vacuity (round four): an object as its own argument: `v0 += v0; M.rightmultiply(M); M.leftmultiply(M); v0.axpy(2, v0); v0 = v0`
example : (seqTrace (fun z : Int => z) (initState exDecls) [.add 0 0, .rmul 2 2, .lmul 2 2, .axpy 0 2 0, .asg 0 0]).map
    (fun sts => sts.map fun s => ((s.buf 0).e 0 0, (s.buf 1).e 0 0, (s.buf 2).e 0 0))
    = some [(2, 2, 5), (2, 2, 25), (2, 2, 625), (6, 2, 625), (6, 2, 625)] := by decide

example : declsOk exDecls := by
  intro i d h hk
  match i, h with
  | 0, h => simp [exDecls] at h; subst h; simp at hk
  | 1, h => simp [exDecls] at h; subst h; simp at hk
  | 2, h => simp [exDecls] at h; subst h; simp at hk
  | 3, h => simp [exDecls] at h; subst h; exact ⟨_, rfl, by simp⟩
  | n+4, h => simp [exDecls] at h

end DV.C01
