import DuneVerif.Model.C01
namespace DV.C01
theorem placeholder : True := trivial
end DV.C01
