import Mathlib.Algebra.Star.Basic
import Mathlib.Algebra.Star.BigOperators
import Mathlib.Algebra.Field.Basic
import DuneVerif.Proofs.C01
/-!
C01 — dense matrices act as the linear map they store, in every representation.

All theorems hold for every commutative ring `R`, every conjugation function `conj : R → R` (only
`rep_interchangeable` and the product theorems built on it need `conj 0 = 0`; `dot_conj_symm` needs a star ring),
every shape and all entries.  `kernelSem Gen.sig_<k>` is the model's loop-nest interpreter run on the table that
`tools/translators/tr_c01.py` regenerates from densematrix.hh on every check run — if the C++ update statement of a
kernel changes (index, operator, alpha, conjugate), `Gen.sig_<k>` changes and the theorem below stops checking.

A written vector is a `Vec R`; `y.get i` is `y[i]`.  Every kernel theorem also states the frame: entries outside
the result range are left alone.
-/
open Finset

namespace DV.C01

variable {R : Type*} [CommRing R] (conj : R → R)

/-! ## the eleven kernels of densematrix.hh -/
section kernels
variable (rows cols : Nat) (A : Nat → Nat → R) (alpha : R) (x : Nat → R) (y : Vec R)

/-- `A.mv(x,y)`: y = A x -/
theorem mv_spec (i : Nat) :
    (kernelSem Gen.sig_mv conj rows cols A alpha x y).get i
      = if i < rows then ∑ j ∈ range cols, A i j * x j else y.get i := by
  have h := outer_fixed rows cols (fun o n => A o n * x n) true y i
  simpa [kernelSem, Gen.sig_mv, bound, sel, applyUpd, rhs] using h

/-- `A.mtv(x,y)`: y = Aᵀ x -/
theorem mtv_spec (j : Nat) :
    (kernelSem Gen.sig_mtv conj rows cols A alpha x y).get j
      = if j < cols then ∑ i ∈ range rows, A i j * x i else y.get j := by
  have h := outer_fixed cols rows (fun o n => A n o * x n) true y j
  simpa [kernelSem, Gen.sig_mtv, bound, sel, applyUpd, rhs] using h

/-- `A.umv(x,y)`: y += A x -/
theorem umv_spec (i : Nat) :
    (kernelSem Gen.sig_umv conj rows cols A alpha x y).get i
      = if i < rows then y.get i + ∑ j ∈ range cols, A i j * x j else y.get i := by
  have h := outer_fixed rows cols (fun o n => A o n * x n) false y i
  simpa [kernelSem, Gen.sig_umv, bound, sel, applyUpd, rhs] using h

/-- `A.umtv(x,y)`: y += Aᵀ x -/
theorem umtv_spec (j : Nat) :
    (kernelSem Gen.sig_umtv conj rows cols A alpha x y).get j
      = if j < cols then y.get j + ∑ i ∈ range rows, A i j * x i else y.get j := by
  have h := outer_moving rows cols (fun o n => A o n * x o) y j
  simpa [kernelSem, Gen.sig_umtv, bound, sel, applyUpd, rhs] using h

/-- `A.umhv(x,y)`: y += Aᴴ x (entries conjugated) -/
theorem umhv_spec (j : Nat) :
    (kernelSem Gen.sig_umhv conj rows cols A alpha x y).get j
      = if j < cols then y.get j + ∑ i ∈ range rows, conj (A i j) * x i else y.get j := by
  have h := outer_moving rows cols (fun o n => conj (A o n) * x o) y j
  simpa [kernelSem, Gen.sig_umhv, bound, sel, applyUpd, rhs] using h

/-- `A.mmv(x,y)`: y -= A x -/
theorem mmv_spec (i : Nat) :
    (kernelSem Gen.sig_mmv conj rows cols A alpha x y).get i
      = if i < rows then y.get i - ∑ j ∈ range cols, A i j * x j else y.get i := by
  have h := outer_fixed rows cols (fun o n => -(A o n * x n)) false y i
  simpa [kernelSem, Gen.sig_mmv, bound, sel, applyUpd, rhs, sub_eq_add_neg] using h

/-- `A.mmtv(x,y)`: y -= Aᵀ x -/
theorem mmtv_spec (j : Nat) :
    (kernelSem Gen.sig_mmtv conj rows cols A alpha x y).get j
      = if j < cols then y.get j - ∑ i ∈ range rows, A i j * x i else y.get j := by
  have h := outer_moving rows cols (fun o n => -(A o n * x o)) y j
  simpa [kernelSem, Gen.sig_mmtv, bound, sel, applyUpd, rhs, sub_eq_add_neg] using h

/-- `A.mmhv(x,y)`: y -= Aᴴ x -/
theorem mmhv_spec (j : Nat) :
    (kernelSem Gen.sig_mmhv conj rows cols A alpha x y).get j
      = if j < cols then y.get j - ∑ i ∈ range rows, conj (A i j) * x i else y.get j := by
  have h := outer_moving rows cols (fun o n => -(conj (A o n) * x o)) y j
  simpa [kernelSem, Gen.sig_mmhv, bound, sel, applyUpd, rhs, sub_eq_add_neg] using h

/-- `A.usmv(alpha,x,y)`: y += alpha A x -/
theorem usmv_spec (i : Nat) :
    (kernelSem Gen.sig_usmv conj rows cols A alpha x y).get i
      = if i < rows then y.get i + alpha * ∑ j ∈ range cols, A i j * x j else y.get i := by
  have h := outer_fixed rows cols (fun o n => alpha * A o n * x n) false y i
  simpa [kernelSem, Gen.sig_usmv, bound, sel, applyUpd, rhs, mul_sum, mul_assoc] using h

/-- `A.usmtv(alpha,x,y)`: y += alpha Aᵀ x -/
theorem usmtv_spec (j : Nat) :
    (kernelSem Gen.sig_usmtv conj rows cols A alpha x y).get j
      = if j < cols then y.get j + alpha * ∑ i ∈ range rows, A i j * x i else y.get j := by
  have h := outer_moving rows cols (fun o n => alpha * A o n * x o) y j
  simpa [kernelSem, Gen.sig_usmtv, bound, sel, applyUpd, rhs, mul_sum, mul_assoc] using h

/-- `A.usmhv(alpha,x,y)`: y += alpha Aᴴ x -/
theorem usmhv_spec (j : Nat) :
    (kernelSem Gen.sig_usmhv conj rows cols A alpha x y).get j
      = if j < cols then y.get j + alpha * ∑ i ∈ range rows, conj (A i j) * x i else y.get j := by
  have h := outer_moving rows cols (fun o n => alpha * conj (A o n) * x o) y j
  simpa [kernelSem, Gen.sig_usmhv, bound, sel, applyUpd, rhs, mul_sum, mul_assoc] using h

end kernels

-- non-vacuity: the interpreter really runs the generated tables (Gaussian-integer-free instance: `Int`, conj = negation
-- so that a dropped conjugate is visible); A = [[1,2],[3,4]], x = (1,1), y = (10,20), alpha = 2
example : (List.range 2).map (kernelSem Gen.sig_umtv (fun z : Int => -z) 2 2 (fun i j => 2*i+j+1) 2 (fun _ => 1)
    ⟨2, fun i => 10 * (i+1)⟩).get = [14, 26] := by decide
example : (List.range 2).map (kernelSem Gen.sig_usmhv (fun z : Int => -z) 2 2 (fun i j => 2*i+j+1) 2 (fun _ => 1)
    ⟨2, fun i => 10 * (i+1)⟩).get = [2, 8] := by decide
example : (List.range 2).map (kernelSem Gen.sig_mv (fun z : Int => -z) 2 2 (fun i j => 2*i+j+1) 2 (fun _ => 1)
    ⟨2, fun i => 10 * (i+1)⟩).get = [3, 7] := by decide

/-! ## representations are interchangeable -/

/-- The algebraic definition of kernel `k` for the full matrix `M` (new value of `y[i]`); part of the statement of
`dense_kernel_spec` and `rep_interchangeable`. -/
def kernelSpec (k : KName) (M : Mat R) (alpha : R) (x y : Nat → R) (i : Nat) : R :=
  match k with
  | .mv => if i < M.rows then ∑ j ∈ range M.cols, M.e i j * x j else y i
  | .mtv => if i < M.cols then ∑ l ∈ range M.rows, M.e l i * x l else y i
  | .umv => if i < M.rows then y i + ∑ j ∈ range M.cols, M.e i j * x j else y i
  | .umtv => if i < M.cols then y i + ∑ l ∈ range M.rows, M.e l i * x l else y i
  | .umhv => if i < M.cols then y i + ∑ l ∈ range M.rows, conj (M.e l i) * x l else y i
  | .mmv => if i < M.rows then y i - ∑ j ∈ range M.cols, M.e i j * x j else y i
  | .mmtv => if i < M.cols then y i - ∑ l ∈ range M.rows, M.e l i * x l else y i
  | .mmhv => if i < M.cols then y i - ∑ l ∈ range M.rows, conj (M.e l i) * x l else y i
  | .usmv => if i < M.rows then y i + alpha * ∑ j ∈ range M.cols, M.e i j * x j else y i
  | .usmtv => if i < M.cols then y i + alpha * ∑ l ∈ range M.rows, M.e l i * x l else y i
  | .usmhv => if i < M.cols then y i + alpha * ∑ l ∈ range M.rows, conj (M.e l i) * x l else y i

/-- every dense kernel (FieldMatrix, DynamicMatrix, ScalarMatrixView) computes its algebraic definition -/
theorem dense_kernel_spec (k : KName) (M : Mat R) (alpha : R) (x : Nat → R) (y : Vec R) (i : Nat) :
    (kernelSem (Gen.denseSig k) conj M.rows M.cols M.e alpha x y).get i = kernelSpec conj k M alpha x y.get i := by
  cases k <;> simp only [Gen.denseSig, kernelSpec]
  · exact mv_spec conj _ _ _ _ _ _ i
  · exact mtv_spec conj _ _ _ _ _ _ i
  · exact umv_spec conj _ _ _ _ _ _ i
  · exact umtv_spec conj _ _ _ _ _ _ i
  · exact umhv_spec conj _ _ _ _ _ _ i
  · exact mmv_spec conj _ _ _ _ _ _ i
  · exact mmtv_spec conj _ _ _ _ _ _ i
  · exact mmhv_spec conj _ _ _ _ _ _ i
  · exact usmv_spec conj _ _ _ _ _ _ i
  · exact usmtv_spec conj _ _ _ _ _ _ i
  · exact usmhv_spec conj _ _ _ _ _ _ i

/-- the kernels of DiagonalMatrix (tables `Gen.dsig_*` read from diagonalmatrix.hh) give what the dense kernels give
for the full matrix with the same entries -/
theorem diag_kernel_spec (h0 : conj 0 = 0) (k : KName) (n : Nat) (d : Nat → R) (alpha : R) (x : Nat → R) (y : Vec R)
    (i : Nat) :
    (diagKernelSem (Gen.diagSig k) conj n d alpha x y).get i
      = kernelSpec conj k (Rep.toFull (.diag n d)) alpha x y.get i := by
  unfold diagKernelSem
  rw [diag_loop n (fun i v => applyUpd (Gen.diagSig k).upd v (rhs (Gen.diagSig k).alpha (Gen.diagSig k).conj conj alpha (d i) (x i)))]
  by_cases hi : i < n
  · have hh := sum_diag_col conj h0 n d x i hi
    cases k <;>
      simp [Gen.diagSig, Gen.dsig_mv, Gen.dsig_mtv, Gen.dsig_umv, Gen.dsig_umtv, Gen.dsig_umhv, Gen.dsig_mmv,
        Gen.dsig_mmtv, Gen.dsig_mmhv, Gen.dsig_usmv, Gen.dsig_usmtv, Gen.dsig_usmhv, kernelSpec, Rep.toFull, hi,
        applyUpd, rhs, hh, mul_assoc]
  · cases k <;> simp [kernelSpec, Rep.toFull, hi]

/-- **Representations are interchangeable.**  Every kernel a representation offers (all eleven for full, diagonal and
1x1-scalar-view matrices; `mv`/`mtv` — forwarded as read from transpose.hh — for transposed views, nested arbitrarily)
gives exactly the algebraic result for the full matrix with the same entries. -/
theorem rep_interchangeable (h0 : conj 0 = 0) (rep : Rep R) :
    ∀ (k : KName), offers k rep = true → ∀ (alpha : R) (x : Nat → R) (y : Vec R) (i : Nat),
      (repKernel conj k rep alpha x y).get i = kernelSpec conj k rep.toFull alpha x y.get i := by
  induction rep with
  | full m => intro k _ alpha x y i; exact dense_kernel_spec conj k m alpha x y i
  | diag n d => intro k _ alpha x y i; exact diag_kernel_spec conj h0 k n d alpha x y i
  | scalar a =>
    intro k _ alpha x y i
    exact dense_kernel_spec conj k ⟨1, 1, fun _ _ => a⟩ alpha x y i
  | transposed r ih =>
    intro k hk alpha x y i
    cases k
    case mv =>
      -- mv on the view = mtv on the wrapped matrix
      simp only [offers, Gen.wrapFwd] at hk
      simp only [repKernel, Gen.wrapFwd]
      rw [ih _ hk]
      rfl
    case mtv =>
      -- mtv on the view = mv on the wrapped matrix
      simp only [offers, Gen.wrapFwd] at hk
      simp only [repKernel, Gen.wrapFwd]
      rw [ih _ hk]
      rfl
    all_goals (simp [offers, Gen.wrapFwd] at hk)

-- non-vacuity: a transposed view of a transposed view of a diagonal matrix offers `mv`
example : offers .mv (.transposed (.transposed (.diag 3 (fun i => (i : Int))))) = true := by decide

/-! ## matrix-matrix products -/

/-- `operator*(FieldMatrix, FieldMatrix)`: (A B)ᵢⱼ = Σₖ Aᵢₖ Bₖⱼ -/
theorem matmul_spec (A B : Mat R) (i j : Nat) :
    (matmul A B).e i j = ∑ k ∈ range A.cols, A.e i k * B.e k j
    ∧ (matmul A B).rows = A.rows ∧ (matmul A B).cols = B.cols :=
  ⟨sumLoop_eq _ _, rfl, rfl⟩

/-- the FieldMatrix<K,1,1> specialisation of `operator*` agrees with the general one -/
theorem matmul11_spec (A B : Mat R) (hc : A.cols = 1) (j : Nat) :
    (matmul11 A B).e 0 j = (matmul A B).e 0 j := by
  simp [matmul11, (matmul_spec A B 0 j).1, hc]

/-- `FieldMatrix * OtherMatrix` (diagonal, scalar view, transposed view …) built from `mtv`, as read from fmatrix.hh -/
theorem mulFmOther_spec (h0 : conj 0 = 0) (A : Mat R) (B : Rep R) (hk : offers Gen.fmMulOther B = true)
    (hd : A.cols = B.rows) (i j : Nat) (hj : j < B.cols) :
    (mulFmOther conj Gen.fmMulOther A B).e i j = ∑ k ∈ range A.cols, A.e i k * B.toFull.e k j := by
  have h := rep_interchangeable conj h0 B Gen.fmMulOther hk 0 (A.e i) (zeroVec B.cols) j
  simp only [mulFmOther]
  rw [h]
  simp [Gen.fmMulOther, kernelSpec, toFull_cols, toFull_rows, hj, hd, mul_comm]

/-- same for the FieldMatrix<K,1,1> class -/
theorem mulFm11Other_spec (h0 : conj 0 = 0) (A : Mat R) (B : Rep R) (hk : offers Gen.fm11MulOther B = true)
    (hd : A.cols = B.rows) (i j : Nat) (hj : j < B.cols) :
    (mulFmOther conj Gen.fm11MulOther A B).e i j = ∑ k ∈ range A.cols, A.e i k * B.toFull.e k j := by
  have h := rep_interchangeable conj h0 B Gen.fm11MulOther hk 0 (A.e i) (zeroVec B.cols) j
  simp only [mulFmOther]
  rw [h]
  simp [Gen.fm11MulOther, kernelSpec, toFull_cols, toFull_rows, hj, hd, mul_comm]

/-- `OtherMatrix * FieldMatrix` built column by column from `mv`, as read from fmatrix.hh -/
theorem mulOtherFm_spec (h0 : conj 0 = 0) (A : Rep R) (B : Mat R) (hk : offers Gen.otherMulFm A = true)
    (i j : Nat) (hi : i < A.rows) :
    (mulOtherFm conj Gen.otherMulFm A B).e i j = ∑ k ∈ range A.cols, A.toFull.e i k * B.e k j := by
  have h := rep_interchangeable conj h0 A Gen.otherMulFm hk 0 (fun l => B.e l j) (zeroVec A.rows) i
  simp only [mulOtherFm]
  rw [h]
  simp [Gen.otherMulFm, kernelSpec, toFull_cols, toFull_rows, hi]

theorem mulOtherFm11_spec (h0 : conj 0 = 0) (A : Rep R) (B : Mat R) (hk : offers Gen.otherMulFm11 A = true)
    (i j : Nat) (hi : i < A.rows) :
    (mulOtherFm conj Gen.otherMulFm11 A B).e i j = ∑ k ∈ range A.cols, A.toFull.e i k * B.e k j := by
  have h := rep_interchangeable conj h0 A Gen.otherMulFm11 hk 0 (fun l => B.e l j) (zeroVec A.rows) i
  simp only [mulOtherFm]
  rw [h]
  simp [Gen.otherMulFm11, kernelSpec, toFull_cols, toFull_rows, hi]

/-- `A * transposedView(B)` (transpose.hh): (A Bᵀ)ᵢⱼ = Σₖ Aᵢₖ Bⱼₖ, for both branches of the source -/
theorem mulTransposedView_spec (h0 : conj 0 = 0) (A : Mat R) (B : Rep R) (k : KName)
    (hkk : k = Gen.twMulDynamic ∨ k = Gen.twMulStatic) (hk : offers k B = true)
    (hd : A.cols = B.cols) (i j : Nat) (hj : j < B.rows) :
    (mulTransposedView conj k A B).e i j = ∑ l ∈ range A.cols, A.e i l * B.toFull.e j l := by
  have h := rep_interchangeable conj h0 B k hk 0 (A.e i) (zeroVec B.rows) j
  simp only [mulTransposedView]
  rw [h]
  rcases hkk with rfl | rfl <;>
    simp [Gen.twMulDynamic, Gen.twMulStatic, kernelSpec, toFull_cols, toFull_rows, hj, hd, mul_comm]

/-- `DiagonalMatrix * DiagonalMatrix` is the product of the full matrices -/
theorem mulDiag_spec (n : Nat) (d e : Nat → R) (i j : Nat) (hi : i < n) :
    (Rep.toFull (.diag n (mulDiag d e))).e i j
      = (matmul (Rep.toFull (.diag n d)) (Rep.toFull (.diag n e))).e i j := by
  rw [(matmul_spec _ _ i j).1]
  simp only [Rep.toFull, mulDiag]
  rw [sum_diag_row n d (fun k => if k = j then e k else 0) i hi]
  by_cases h : i = j <;> simp [h]

/-- `leftmultiply(M)`: *this becomes M · *this -/
theorem leftmul_spec (A M : Mat R) (i j : Nat) :
    (leftmultiply A M).e i j = ∑ k ∈ range A.rows, M.e i k * A.e k j
    ∧ (M.cols = A.rows → (leftmultiply A M).e i j = (matmul M A).e i j) := by
  refine ⟨sumLoop_eq _ _, fun h => ?_⟩
  rw [(matmul_spec M A i j).1, h]; exact sumLoop_eq _ _

/-- `rightmultiply(M)`: *this becomes *this · M -/
theorem rightmul_spec (A M : Mat R) (i j : Nat) :
    (rightmultiply A M).e i j = ∑ k ∈ range A.cols, A.e i k * M.e k j
    ∧ (rightmultiply A M).e i j = (matmul A M).e i j := by
  refine ⟨sumLoop_eq _ _, ?_⟩
  rw [(matmul_spec A M i j).1]; exact sumLoop_eq _ _

/-- `leftmultiplyany(M)` returns M · *this -/
theorem leftmultiplyany_spec (A M : Mat R) (i j : Nat) :
    (leftmultiplyany A M).e i j = ∑ k ∈ range A.rows, M.e i k * A.e k j
    ∧ (leftmultiplyany A M).rows = M.rows ∧ (leftmultiplyany A M).cols = A.cols :=
  ⟨sumLoop_eq _ _, rfl, rfl⟩

/-- `rightmultiplyany(M)` returns *this · M -/
theorem rightmultiplyany_spec (A M : Mat R) (i j : Nat) :
    (rightmultiplyany A M).e i j = ∑ k ∈ range A.cols, A.e i k * M.e k j
    ∧ (rightmultiplyany A M).rows = A.rows ∧ (rightmultiplyany A M).cols = M.cols :=
  ⟨sumLoop_eq _ _, rfl, rfl⟩

/-- the FieldMatrix<K,1,1> specialisations agree with the general loops -/
theorem mul11_specialisations (A M : Mat R) (i j : Nat) :
    (A.cols = 1 → (rightmultiply11 A M).e 0 0 = (rightmultiply A M).e 0 0)
    ∧ (A.rows = 1 → (leftmultiplyany11 A M).e i 0 = (leftmultiplyany A M).e i 0)
    ∧ (A.cols = 1 → (rightmultiplyany11 A M).e 0 j = (rightmultiplyany A M).e 0 j) := by
  refine ⟨fun h => ?_, fun h => ?_, fun h => ?_⟩
  · simp [rightmultiply11, (rightmul_spec A M 0 0).1, h]
  · simp [leftmultiplyany11, (leftmultiplyany_spec A M i 0).1, h]
  · simp [rightmultiplyany11, (rightmultiplyany_spec A M 0 j).1, h, mul_comm]

/-- `FMatrixHelp::multTransposedMatrix` computes Aᵀ A -/
theorem multTransposedMatrix_spec (A : Mat R) (i j : Nat) :
    (multTransposedMatrix A).e i j = (matmul (transposed A) A).e i j := by
  rw [(matmul_spec _ _ i j).1]; exact sumLoop_eq _ _

-- non-vacuity: [[1,2],[3,4]] * [[0,1],[1,0]] = [[2,1],[4,3]] over Int
example : (List.range 2).map (fun i => (List.range 2).map ((matmul (⟨2, 2, fun i j => 2*i+j+1⟩ : Mat Int)
    ⟨2, 2, fun i j => if i = j then 0 else 1⟩).e i)) = [[2, 1], [4, 3]] := by decide

/-! ## transposition -/

omit [CommRing R] in
theorem transposed_spec (A : Mat R) (i j : Nat) :
    (transposed A).e i j = A.e j i ∧ (transposed A).rows = A.cols ∧ (transposed A).cols = A.rows :=
  ⟨rfl, rfl, rfl⟩

omit [CommRing R] in
theorem transposed_involutive (A : Mat R) : transposed (transposed A) = A := rfl

/-- `transposed()`, `transpose()` and `asDense()` of any representation are the transpose of its full matrix; diagonal
and 1x1 matrices (which return themselves) are their own transpose; the dense copy of a transposed view transposed
back is the wrapped matrix -/
theorem rep_transposed_spec (r : Rep R) (n : Nat) (d : Nat → R) (a : R) (i j : Nat) :
    r.transposedFull.e i j = r.toFull.e j i
    ∧ (Rep.transposedFull (.diag n d)).e i j = (Rep.toFull (.diag n d)).e i j
    ∧ (Rep.transposedFull (.scalar a)).e i j = (Rep.toFull (.scalar a)).e i j
    ∧ transposeMat (Rep.toFull (.transposed r)) = r.toFull := by
  refine ⟨rfl, ?_, rfl, rfl⟩
  simp only [Rep.transposedFull, transposeMat, Rep.toFull]
  by_cases h : i = j
  · subst h; simp
  · have h' : ¬ j = i := fun e => h e.symm
    simp [h, h']

/-! ## vector-space operations -/

/-- vectors: `+=`/`+`, `-=`/`-`, unary `-`, `+= k`, `-= k`, `*= k` / `v*k` / `k*v`, `axpy` -/
theorem vec_ops_spec (x y : Nat → R) (k a : R) (i : Nat) :
    vadd x y i = x i + y i ∧ vsub x y i = x i - y i ∧ vneg x i = - x i
    ∧ vaddScalar x k i = x i + k ∧ vsubScalar x k i = x i - k
    ∧ vscale x k i = k * x i ∧ vscaleL k x i = k * x i
    ∧ vaxpy y a x i = y i + a * x i :=
  ⟨rfl, rfl, rfl, rfl, rfl, mul_comm _ _, rfl, rfl⟩

/-- division by a scalar, over a field: `(x / k)ᵢ = xᵢ / k`, and it undoes the multiplication by `k ≠ 0` -/
theorem vec_div_spec {F : Type*} [Field F] (x : Nat → F) (k : F) (i : Nat) :
    vdiv x k i = x i / k ∧ (k ≠ 0 → vdiv (vscale x k) k i = x i) := by
  refine ⟨rfl, fun hk => ?_⟩
  simp [vdiv, vscale, hk]

omit [CommRing R] in
/-- `operator==` of vectors / matrices decides entrywise equality (`!=` is its negation in the code) -/
theorem eq_ops_spec [DecidableEq R] (n : Nat) (x y : Nat → R) (A B : Mat R) :
    (veq n x y = true ↔ ∀ i, i < n → x i = y i)
    ∧ (meq A B = true ↔ ∀ i, i < A.rows → ∀ j, j < A.cols → A.e i j = B.e i j) := by
  have hv : ∀ (n : Nat) (x y : Nat → R), veq n x y = true ↔ ∀ i, i < n → x i = y i := by
    intro n x y; simp [veq, allN_iff]
  refine ⟨hv n x y, ?_⟩
  simp only [meq, allN_iff, hv]

/-- matrices: `+=`/`+`, `-=`/`-`, `*= k` / `A*k` / `k*A`, `axpy`, unary `-` -/
theorem mat_ops_spec (A B : Mat R) (k a : R) (i j : Nat) :
    (madd A B).e i j = A.e i j + B.e i j ∧ (msub A B).e i j = A.e i j - B.e i j
    ∧ (mscale A k).e i j = k * A.e i j ∧ (mscaleL k A).e i j = k * A.e i j
    ∧ (maxpy A a B).e i j = A.e i j + a * B.e i j ∧ (mneg A).e i j = - A.e i j :=
  ⟨rfl, rfl, mul_comm _ _, rfl, rfl, rfl⟩

theorem mat_div_spec {F : Type*} [Field F] (A : Mat F) (k : F) (i j : Nat) :
    (mdiv A k).e i j = A.e i j / k := rfl

/-- `dot` conjugates its FIRST argument: a·b = Σ conj(aᵢ) bᵢ -/
theorem dot_conj_first (n : Nat) (a b : Nat → R) :
    vdot conj n a b = ∑ i ∈ range n, conj (a i) * b i := sumLoop_eq _ _

/-- `operator*` (dotT) does not conjugate -/
theorem dotT_spec (n : Nat) (a b : Nat → R) : vdotT n a b = ∑ i ∈ range n, a i * b i := sumLoop_eq _ _

/-- with a ring involution the dot product is conjugate-symmetric, and it is `operator*` when conj is the identity -/
theorem dot_conj_symm [StarRing R] (n : Nat) (a b : Nat → R) :
    vdot star n b a = star (vdot star n a b) := by
  rw [dot_conj_first, dot_conj_first, star_sum]
  apply Finset.sum_congr rfl
  intro i _
  rw [star_mul', star_star, mul_comm]

theorem dot_real (hid : ∀ z : R, conj z = z) (n : Nat) (a b : Nat → R) : vdot conj n a b = vdotT n a b := by
  rw [dot_conj_first, dotT_spec]; simp [hid]

-- non-vacuity: conj = negation on Int makes the two products differ
example : vdot (fun z : Int => -z) 2 (fun i => i + 1) (fun _ => 1) = -3 ∧ vdotT 2 (fun i => (i : Int) + 1) (fun _ => 1) = 3 := by
  decide

end DV.C01
