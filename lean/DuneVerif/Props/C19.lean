/-
C19 — property theorems (guard agreement, futures deliver exactly once) about the model in Model/C19.lean.
Helper lemmas: Proofs/C19Guard.lean, Proofs/C19Future.lean.  Core Lean only.

Assumed, not proved (MANIFEST note): MPI itself — a collective on a communicator completes once every member has
entered it and delivers the same sum to all; a request completes iff the operation completed; MPI_Wait returns then.

Reading of the property (round-two audit; clause → theorem):
  guard  "fails on any subset … every process that reaches the checkpoint observes the guard error"   agreement
         "when it fails nowhere no process does"                                                       no_failure_no_error
         "never deadlocks"                      sections_agree, guard_deadlock_iff (exact), one_collective_per_section,
                                                collectives_match_no_deadlock, destructor_never_throws
         "can be re-armed for the next section"  rearm, and the induction over sections in sections_agree
         the failing rank itself                 failing_rank_passes
         quantifier: all member lists (= all process counts, every communicator is a member list), every script
         (= every failure subset × failure mode × way of arming in each of any number of sections).
  future "valid until its result is taken"               future_valid_until_get
         "becomes ready once the operation completed"    ready_after_complete, ready_stays_true, ready_false_while_pending
         "yields exactly the data … once"                get_once (payload), get_succeeds_once (all classes, incl. void)
         "reports misuse … with the documented error"    get_after_get_error, invalid_future_misuse, wait_invalid_error,
                                                         null_future_reports_misuse
         all classes                                     void_future_same_protocol, erased_future_transparent
         quantifier: every call history (List FOp) with the completion of the operation at any point.
  round three (the future reaches the variable the calls are made on by move construction / move assignment, also
  into a variable that served an earlier operation; the two-buffer future owns a send object):
         "yields exactly the data of the completed operation … instead of … stale data", for a re-used variable
                                                         move_assign_transfers, move_construct_transfers,
                                                         reused_future_no_stale
         two-buffer future MPIFuture<R,S>                two_buffer_same_protocol (all theorems above transfer; the send
                                                         object is kept), send_data_once, send_data_twice_undefined
  round four (tie: `Gen/C19.lean` is regenerated from the source on every run; the theorems are about the generated text):
         guard bodies and constructors                   gen_guard_is_model, gen_guard_ctor_arms, unarmed_finalize_never_throws
         members of the four future classes, buffers     gen_future_is_model, gen_pseudo_is_model, gen_erased_is_model
         every call history of the generated members     gen_histories_are_model
         move assignment / move construction             gen_moves_are_model
         "a future returned by a non-blocking operation is valid …": which future each non-blocking member returns
                                                         gen_operations_start, gen_seq_operations_start
-/
import DuneVerif.Proofs.C19Guard
import DuneVerif.Proofs.C19Future
import DuneVerif.Proofs.C19Move
import DuneVerif.Proofs.C19Gen

namespace DV.C19

/-! ## Guard -/

/-- Every path of every rank through a guarded section — whatever guard object the rank starts with (none, an
inactive one, one still armed by `reactivate()`), whichever way it arms (`n`,`m`,`a`) and whichever of
finalize(true) / finalize() / finalize(false) / reactivate() / exception / scope exit it takes — issues exactly one
`sum` and then returns. -/
theorem one_collective_per_section (st : Option Guard) (s : Arm × Act) : OneSum (sectionProg st s) := by
  rw [sectionProg_eq]
  intro r
  exact ⟨_, rfl⟩

example : OneSum (sectionProg (some { active := false }) (.freshInactive, .throwUser)) :=
  one_collective_per_section _ _

/-- Collectives match ⇒ no deadlock at this level: ranks (any number ≥ 1) whose programs all issue exactly one
collective run to completion, every rank returns. -/
theorem collectives_match_no_deadlock {α : Type} (ps : List (Prog α)) (hne : ps ≠ []) (h : ∀ p ∈ ps, OneSum p) :
    ∃ vs, runJoint 2 ps = .done vs ∧ vs.length = ps.length := by
  obtain ⟨cks, hcks, hlen, hk⟩ := allSum_of_oneSum ps h
  have hret : ∀ p ∈ cks.map (fun ck => ck.2 ((cks.map (·.1)).sum)), ∃ a, p = Prog.ret a := by
    intro p hp
    obtain ⟨ck, hck, rfl⟩ := List.mem_map.mp hp
    exact hk ck hck _
  obtain ⟨vs, hvs, hvlen⟩ := allRet_of_forall_ret _ hret
  refine ⟨vs, ?_, by simp [hvlen, hlen]⟩
  simp [runJoint, allRet_none_of_oneSum ps hne h, hcks, hvs]

example : runJoint 2 [sectionProg none (.fresh, .finTrue), sectionProg none (.rearm, .throwUser),
    sectionProg (some { active := true }) (.fresh, .react)] =
    .done [(some { active := false }, .guardError), (none, .userExc), (some { active := false }, .guardError)] := by
  decide

/-- the hypotheses of `collectives_match_no_deadlock` are met by the sections of three ranks -/
example : ∃ vs, runJoint 2 [sectionProg none (.fresh, .finTrue), sectionProg none (.rearm, .throwUser),
    sectionProg (some { active := true }) (.fresh, .react)] = .done vs ∧ vs.length = 3 :=
  collectives_match_no_deadlock _ (by simp) (by
    intro p hp
    simp only [List.mem_cons, List.not_mem_nil, or_false] at hp
    rcases hp with rfl | rfl | rfl <;> exact one_collective_per_section _ _)

/-- The model's negative case is real: a rank that leaves without its collective deadlocks the others. -/
example : runJoint 5 [sectionProg none (.fresh, .finTrue), Prog.ret (none, Obs.none)] = .deadlock := by decide

/-- Re-arming: whatever happened before (error observed or not, guard destroyed or kept), each of the three ways of
arming yields an armed guard without any collective and without an exception. -/
theorem rearm (st : Option Guard) (m : Arm) : ∃ g, armProg st m = .ret (some g) ∧ g.active = true := by
  rcases st with _ | ⟨⟨_ | _⟩⟩ <;> cases m <;>
    simp [armProg, destroy, reactivate, Prog.bind]

example : armProg (some { active := false }) .rearm = .ret (some { active := true }) := rfl

/-- The destructor never lets an exception escape (it clears `active_` before calling finalize(false)). -/
theorem destructor_never_throws (g : Guard) :
    destroy g = .ret false ∨ ∃ c, destroy g = .sum c (fun _ => .ret false) := by
  rcases g with ⟨_ | _⟩
  · left; simp [destroy]
  · right; exact ⟨1, by simp [destroy, finalize, Prog.bind]⟩

/-- Sequences of sections (induction on the number of sections): for every set of ranks sharing the communicator,
every number `n` of consecutive sections and every script (who arms how and does what in which section) whose end is
matched (`EndsMatched`: no member, or every member, still owes a section because it ended with a successful
`reactivate()` checkpoint), the joint execution terminates without deadlock and every rank observes in every
section exactly what the property demands (`specObs`).  Round one assumed the stronger "no rank ends with
`reactivate()`"; `guard_deadlock_iff` shows that `EndsMatched` cannot be weakened further. -/
theorem sections_agree (members : List Nat) (n fuel : Nat) (script : Nat → Nat → Arm × Act) (hf : n + 1 < fuel)
    (hend : EndsMatched members script n) :
    runJoint fuel (members.map fun i => rankProg (script i) n) =
      .done (members.map fun i => (List.range n).map (specObs members script i)) := by
  have := joint_scripts_end members n fuel script (fun _ => none) (fun _ => []) hf
  rw [endOutcome_matched members script n hend] at this
  simpa [rankProg] using this

/-- "Never deadlocks", exactly: the joint execution of `n` guarded sections deadlocks iff the end is unmatched, i.e.
some member's last call was a successful `reactivate()` (its guard is armed again and its destructor will enter one
more collective) while another member is done.  It never runs out of fuel. -/
theorem guard_deadlock_iff (members : List Nat) (n fuel : Nat) (script : Nat → Nat → Arm × Act) (hf : n + 1 < fuel) :
    (runJoint fuel (members.map fun i => rankProg (script i) n) = .deadlock ↔ ¬ EndsMatched members script n) ∧
    runJoint fuel (members.map fun i => rankProg (script i) n) ≠ .outOfFuel := by
  have key := joint_scripts_end members n fuel script (fun _ => none) (fun _ => []) hf
  have key' : runJoint fuel (members.map fun i => rankProg (script i) n) =
      endOutcome members (finalSt members n script fun _ => none)
        (fun i => ([] : List Obs).reverse ++ (List.range n).map (specObs members script i)) := by
    simpa [rankProg] using key
  by_cases h : EndsMatched members script n
  · rw [key', endOutcome_matched members script n h]
    exact ⟨⟨fun hc => (by cases hc), fun hc => absurd h hc⟩, fun hc => (by cases hc)⟩
  · rw [key', endOutcome_unmatched members script n h]
    exact ⟨⟨fun _ => h, fun _ => rfl⟩, fun hc => (by cases hc)⟩

/-- Sufficient for a matched end (what round one assumed, and what the failure of the last section gives): no member
ends with `reactivate()`, or the last section failed somewhere, or every member ends with `reactivate()`. -/
theorem ends_matched_sufficient (members : List Nat) (n' : Nat) (script : Nat → Nat → Arm × Act) :
    ((∀ i ∈ members, (script i n').2 ≠ .react) → EndsMatched members script (n' + 1)) ∧
    ((∃ j ∈ members, fails (script j n').2 = true) → EndsMatched members script (n' + 1)) ∧
    ((∀ i ∈ members, (script i n').2 = .react) → EndsMatched members script (n' + 1)) ∧
    EndsMatched members script 0 := by
  refine ⟨fun h => Or.inl fun i hi => by simp [endsArmed, h i hi], ?_, ?_, Or.inl fun i _ => rfl⟩
  · intro ⟨j, hj, hf⟩
    refine Or.inl fun i _ => ?_
    have : (members.any fun j => fails (script j n').2) = true := List.any_eq_true.mpr ⟨j, hj, hf⟩
    simp [endsArmed, this]
  · intro h
    by_cases hany : (members.any fun j => fails (script j n').2) = true
    · exact Or.inl fun i _ => by simp [endsArmed, hany]
    · exact Or.inr fun i hi => by simp [endsArmed, h i hi, hany]

/-- The executable test `endsMatchedB` by which the driver (and, independently re-implemented, the harness) selects the
well-formed cases is exactly the hypothesis `EndsMatched` of the theorems. -/
theorem ends_matched_executable (members : List Nat) (script : Nat → Nat → Arm × Act) (n : Nat) :
    endsMatchedB members script n = true ↔ EndsMatched members script n :=
  endsMatchedB_iff members script n

/-- three ranks, three sections; rank 1 throws in section 0, rank 2 reports failure in section 2 -/
def exScript : Nat → Nat → Arm × Act
  | 1, 0 => (.fresh, .throwUser)
  | 2, 2 => (.rearm, .finFalse)
  | 0, 1 => (.rearm, .react)
  | _, _ => (.fresh, .finTrue)

theorem exScript_matched : EndsMatched [0, 1, 2] exScript 3 :=
  (ends_matched_sufficient [0, 1, 2] 2 exScript).1 (by decide)

/-- `sections_agree` instantiated (all hypotheses): the theorem's right-hand side is the concrete table -/
example : runJoint 5 ([0, 1, 2].map fun i => rankProg (exScript i) 3) =
    .done [[.guardError, .none, .guardError], [.userExc, .none, .guardError], [.guardError, .none, .guardError]] := by
  rw [sections_agree [0, 1, 2] 3 5 exScript (by decide) exScript_matched]
  decide

/-- every rank ends with a successful reactivate(): the destructors of the three armed guards match -/
def exAllReact : Nat → Nat → Arm × Act
  | _, _ => (.fresh, .react)

example : runJoint 4 ([0, 1, 2].map fun i => rankProg (exAllReact i) 2) = .done [[.none, .none], [.none, .none], [.none, .none]] := by
  rw [sections_agree [0, 1, 2] 2 4 exAllReact (by decide)
    ((ends_matched_sufficient [0, 1, 2] 1 exAllReact).2.2.1 (by decide))]
  decide

/-- the unmatched end is a real deadlock of the model (rank 0 re-armed, rank 1 is done) -/
def exMixed : Nat → Nat → Arm × Act
  | 0, _ => (.fresh, .react)
  | _, _ => (.fresh, .finTrue)

example : runJoint 4 ([0, 1].map fun i => rankProg (exMixed i) 1) = .deadlock := by decide
example : ¬ EndsMatched [0, 1] exMixed 1 := by
  intro h
  rcases h with h | h
  · exact absurd (h 0 (by simp)) (by decide)
  · exact absurd (h 1 (by simp)) (by decide)

/-- Agreement: if the section `k` fails on any member (exception, scope exit or finalize(false)), every member that
reaches the checkpoint in section `k` observes MPIGuardError — for all member sets, all failure subsets, both failure
modes, in each of any number of consecutive sections. -/
theorem agreement (members : List Nat) (n fuel : Nat) (script : Nat → Nat → Arm × Act) (hf : n + 1 < fuel)
    (hend : EndsMatched members script n) :
    ∃ out, runJoint fuel (members.map fun i => rankProg (script i) n) = .done out ∧
      out.length = members.length ∧
      ∀ (p i : Nat), members[p]? = some i → ∃ row : List Obs, out[p]? = some row ∧ row.length = n ∧
        ∀ k, k < n → (∃ j ∈ members, fails (script j k).2 = true) → reaches (script i k).2 = true →
          row[k]? = some Obs.guardError := by
  refine ⟨_, sections_agree members n fuel script hf hend, by simp, ?_⟩
  intro p i hp
  refine ⟨(List.range n).map (specObs members script i), by simp [hp], by simp, ?_⟩
  intro k hk hfail hreach
  have hany : (members.any fun j => fails (script j k).2) = true := by
    obtain ⟨j, hj, hjf⟩ := hfail
    exact List.any_eq_true.mpr ⟨j, hj, hjf⟩
  have : specObs members script i k = Obs.guardError := by
    unfold specObs
    rw [hany]
    cases h : (script i k).2 <;> simp_all [expectedObs, reaches]
  simp [hk, this]

/-- `agreement` instantiated: in section 0 rank 1 throws, ranks 0 and 2 reach the checkpoint and see the error -/
example : ∃ out, runJoint 5 ([0, 1, 2].map fun i => rankProg (exScript i) 3) = .done out ∧ out.length = 3 ∧
    ∃ row : List Obs, out[2]? = some row ∧ row[0]? = some Obs.guardError := by
  obtain ⟨out, h1, h2, h3⟩ := agreement [0, 1, 2] 3 5 exScript (by decide) exScript_matched
  obtain ⟨row, hr, _, hk⟩ := h3 2 2 (by decide)
  exact ⟨out, h1, h2, row, hr, hk 0 (by decide) ⟨1, by simp, by decide⟩ (by decide)⟩

/-- No failure, no error: if no member fails in section `k`, no member observes MPIGuardError there (every member
observes nothing at all). -/
theorem no_failure_no_error (members : List Nat) (n fuel : Nat) (script : Nat → Nat → Arm × Act) (hf : n + 1 < fuel)
    (hend : EndsMatched members script n) :
    ∃ out, runJoint fuel (members.map fun i => rankProg (script i) n) = .done out ∧
      ∀ (p i : Nat), members[p]? = some i → ∃ row : List Obs, out[p]? = some row ∧
        ∀ k, k < n → (∀ j ∈ members, fails (script j k).2 = false) → row[k]? = some Obs.none := by
  refine ⟨_, sections_agree members n fuel script hf hend, ?_⟩
  intro p i hp
  refine ⟨(List.range n).map (specObs members script i), by simp [hp], ?_⟩
  intro k hk hnofail
  have hany : (members.any fun j => fails (script j k).2) = false := by
    apply Bool.eq_false_iff.mpr
    intro h
    obtain ⟨j, hj, hjf⟩ := List.any_eq_true.mp h
    rw [hnofail j hj] at hjf
    exact Bool.noConfusion hjf
  have hi : i ∈ members := List.mem_of_getElem? hp
  have hfi := hnofail i hi
  have : specObs members script i k = Obs.none := by
    unfold specObs
    rw [hany]
    cases h : (script i k).2 <;> simp_all [expectedObs, fails]
  simp [hk, this]

/-- The user's own exception is never replaced and a failing rank never hangs: in the joint run, a rank that throws
sees its own exception and a rank leaving the scope sees nothing, in every section of every case (round one stated
this for the specification table only). -/
theorem failing_rank_passes (members : List Nat) (n fuel : Nat) (script : Nat → Nat → Arm × Act) (hf : n + 1 < fuel)
    (hend : EndsMatched members script n) :
    ∃ out, runJoint fuel (members.map fun i => rankProg (script i) n) = .done out ∧
      ∀ (p i : Nat), members[p]? = some i → ∃ row : List Obs, out[p]? = some row ∧
        ∀ k, k < n → ((script i k).2 = .throwUser → row[k]? = some Obs.userExc) ∧
          ((script i k).2 = .leave → row[k]? = some Obs.none) := by
  refine ⟨_, sections_agree members n fuel script hf hend, ?_⟩
  intro p i hp
  refine ⟨(List.range n).map (specObs members script i), by simp [hp], ?_⟩
  intro k hk
  constructor <;> intro h <;> simp [hk, specObs, h, expectedObs]

/-! ## Futures -/

/-- A future returned by a non-blocking operation is valid exactly until the result is taken: after any call history
`h` (valid/ready/wait/get/spin and the operation completing at any point) it is valid iff `h` contains no `get`.
All four classes. -/
theorem future_valid_until_get (initial incoming : List Int) (h : List FOp) :
    ((final MpiFut.step (MpiFut.start initial incoming) h).valid = !h.contains .get) ∧
    ((final MpiVoid.step MpiVoid.start h).valid = !h.contains .get) ∧
    ((final PseudoFut.step (PseudoFut.start incoming) h).valid = !h.contains .get) ∧
    ((final PseudoVoid.step PseudoVoid.start h).valid = !h.contains .get) := by
  have h1 := MpiFut.final_valid (MpiFut.start initial incoming) h
  have h3 := PseudoFut.final_valid (PseudoFut.start incoming) h
  have h2 := (mpiVoid_trace (MpiFut.start initial incoming) h).2
  have h4 := (pseudoVoid_trace (PseudoFut.start incoming) h).2
  refine ⟨by simpa [MpiFut.start] using h1, ?_, by simpa [PseudoFut.start] using h3, ?_⟩
  · have e : eraseMpi (MpiFut.start initial incoming) = MpiVoid.start := rfl
    rw [e] at h2
    rw [h2]
    simpa [eraseMpi, MpiFut.start] using h1
  · have e : erasePseudo (PseudoFut.start incoming) = PseudoVoid.start := rfl
    rw [e] at h4
    rw [h4]
    simpa [erasePseudo, PseudoFut.start] using h3

example : (final MpiFut.step (MpiFut.start [-777] [42]) [.valid, .ready, .complete, .wait]).valid = true := by decide
example : (final MpiFut.step (MpiFut.start [-777] [42]) [.valid, .get, .valid]).valid = false := by decide

/-- Exactly once, exactly the operation's data: over any call history the payloads handed out by `get` are the list
`[incoming]` if the history contains a `get` and `[]` otherwise — never the stale buffer contents `initial`, never
twice. -/
theorem get_once (initial incoming : List Int) (h : List FOp) :
    dataOf (trace MpiFut.step (MpiFut.start initial incoming) h) = (if h.contains .get then [incoming] else []) ∧
    dataOf (trace PseudoFut.step (PseudoFut.start incoming) h) = (if h.contains .get then [incoming] else []) := by
  constructor
  · have := MpiFut.valid_data (MpiFut.start initial incoming) h rfl
    simpa [MpiFut.payload, MpiFut.start] using this
  · have := PseudoFut.valid_data (PseudoFut.start incoming) h rfl
    simpa [PseudoFut.start] using this

example : trace MpiFut.step (MpiFut.start [-777] [42]) [.ready, .get, .get, .valid] =
    [.bool false, .data [42], .errInvalid, .bool false] := by decide

/-- Exactly once, also where there is no payload to look at: over any call history the number of `get` calls that
return (are not answered by InvalidFutureException) is 1 if the history contains a `get` and 0 otherwise.  All four
classes (round one had no statement of "once" for the void futures). -/
theorem get_succeeds_once (initial incoming : List Int) (h : List FOp) :
    succGets h (trace MpiFut.step (MpiFut.start initial incoming) h) = (if h.contains .get then 1 else 0) ∧
    succGets h (trace MpiVoid.step MpiVoid.start h) = (if h.contains .get then 1 else 0) ∧
    succGets h (trace PseudoFut.step (PseudoFut.start incoming) h) = (if h.contains .get then 1 else 0) ∧
    succGets h (trace PseudoVoid.step PseudoVoid.start h) = (if h.contains .get then 1 else 0) := by
  have h1 := MpiFut.valid_succGets (MpiFut.start initial incoming) h rfl
  have h3 := PseudoFut.valid_succGets (PseudoFut.start incoming) h rfl
  refine ⟨h1, ?_, h3, ?_⟩
  · have e : MpiVoid.start = eraseMpi (MpiFut.start initial incoming) := rfl
    rw [e, (mpiVoid_trace _ h).1, succGets_map_erase]
    exact h1
  · have e : PseudoVoid.start = erasePseudo (PseudoFut.start incoming) := rfl
    rw [e, (pseudoVoid_trace _ h).1, succGets_map_erase]
    exact h3

example : succGets [.get, .wait, .get, .get] (trace MpiVoid.step MpiVoid.start [.get, .wait, .get, .get]) = 1 := by
  decide

/-- After the result has been taken every further `get` and `wait` is answered with InvalidFutureException (no stale
data, no blocking), whatever happened before and whatever follows. -/
theorem get_after_get_error (initial incoming : List Int) (h1 h2 : List FOp) :
    MisuseReported h2 (trace MpiFut.step (final MpiFut.step (MpiFut.start initial incoming) (h1 ++ [.get])) h2) ∧
    MisuseReported h2 (trace PseudoFut.step (final PseudoFut.step (PseudoFut.start incoming) (h1 ++ [.get])) h2) := by
  constructor
  · apply MpiFut.invalid_misuse
    rw [MpiFut.final_valid]
    simp
  · apply PseudoFut.invalid_misuse
    rw [PseudoFut.final_valid]
    simp

/-- Misuse of any invalid future — result taken, or default constructed, whatever its request — in all four
classes: over every call history every `wait` and `get` is answered with InvalidFutureException, no payload is handed
out and no `get` returns.  (Round one covered histories only after a `get` of the two classes with payload, and
`wait` as a single step.) -/
theorem invalid_future_misuse (h : List FOp) :
    (∀ f : MpiFut, f.valid = false → MisuseReported h (trace MpiFut.step f h) ∧
      dataOf (trace MpiFut.step f h) = [] ∧ succGets h (trace MpiFut.step f h) = 0) ∧
    (∀ f : MpiVoid, f.valid = false → MisuseReported h (trace MpiVoid.step f h) ∧
      succGets h (trace MpiVoid.step f h) = 0) ∧
    (∀ f : PseudoFut, f.valid = false → MisuseReported h (trace PseudoFut.step f h) ∧
      dataOf (trace PseudoFut.step f h) = [] ∧ succGets h (trace PseudoFut.step f h) = 0) ∧
    (∀ f : PseudoVoid, f.valid = false → MisuseReported h (trace PseudoVoid.step f h) ∧
      succGets h (trace PseudoVoid.step f h) = 0) := by
  refine ⟨fun f hv => ⟨MpiFut.invalid_misuse f h hv, MpiFut.invalid_no_data f h hv, MpiFut.invalid_succGets f h hv⟩,
    ?_, fun f hv => ⟨PseudoFut.invalid_misuse f h hv, PseudoFut.invalid_no_data f h hv,
      PseudoFut.invalid_succGets f h hv⟩, ?_⟩
  · intro f hv
    have hv' : (liftMpi f).valid = false := hv
    rw [← erase_liftMpi f, (mpiVoid_trace _ h).1, succGets_map_erase]
    exact ⟨misuse_map_erase _ _ (MpiFut.invalid_misuse _ h hv'), MpiFut.invalid_succGets _ h hv'⟩
  · intro f hv
    have hv' : (liftPseudo f).valid = false := hv
    rw [← erase_liftPseudo f, (pseudoVoid_trace _ h).1, succGets_map_erase]
    exact ⟨misuse_map_erase _ _ (PseudoFut.invalid_misuse _ h hv'), PseudoFut.invalid_succGets _ h hv'⟩

example : trace MpiFut.step MpiFut.invalid [.get, .wait, .valid, .get] =
    [.errInvalid, .errInvalid, .bool false, .errInvalid] := by decide

/-- `wait()` on an invalid future (result taken, or default constructed) throws InvalidFutureException immediately:
no MPI_Wait is issued, the state is unchanged.  All four classes. -/
theorem wait_invalid_error :
    (∀ f : MpiFut, f.valid = false → MpiFut.step f .wait = (.errInvalid, f)) ∧
    (∀ f : MpiVoid, f.valid = false → MpiVoid.step f .wait = (.errInvalid, f)) ∧
    (∀ f : PseudoFut, f.valid = false → PseudoFut.step f .wait = (.errInvalid, f)) ∧
    (∀ f : PseudoVoid, f.valid = false → PseudoVoid.step f .wait = (.errInvalid, f)) := by
  refine ⟨?_, ?_, ?_, ?_⟩ <;> intro f hv <;>
    simp [MpiFut.step, MpiFut.wait, MpiVoid.step, MpiVoid.wait, PseudoFut.step, PseudoFut.wait, PseudoVoid.step,
      PseudoVoid.wait, hv]

example : MpiVoid.step MpiVoid.invalid .wait = (.errInvalid, MpiVoid.invalid) := by decide

/-- Ready once the operation has completed: after the operation completed (environment step), or after a `wait`,
every later `ready()` (and polling loop) answers true — for ever, whatever else is called in between; a
PseudoFuture is ready as long as it is valid.  MPIFuture<void> alike. -/
theorem ready_after_complete (initial incoming : List Int) (h0 h : List FOp) :
    AlwaysReady h (trace MpiFut.step (final MpiFut.step (MpiFut.start initial incoming) (h0 ++ [.complete])) h) ∧
    AlwaysReady h (trace MpiFut.step (final MpiFut.step (MpiFut.start initial incoming) (h0 ++ [.wait])) h) ∧
    AlwaysReady h (trace MpiVoid.step (final MpiVoid.step MpiVoid.start (h0 ++ [.complete])) h) ∧
    AlwaysReady h (trace MpiVoid.step (final MpiVoid.step MpiVoid.start (h0 ++ [.wait])) h) ∧
    (h.contains .get = false → AlwaysReady h (trace PseudoFut.step (PseudoFut.start incoming) h)) ∧
    (h.contains .get = false → AlwaysReady h (trace PseudoVoid.step PseudoVoid.start h)) := by
  have hc : AlwaysReady h
      (trace MpiFut.step (final MpiFut.step (MpiFut.start initial incoming) (h0 ++ [.complete])) h) := by
    apply MpiFut.notPending_ready
    rw [final_append]
    generalize final MpiFut.step (MpiFut.start initial incoming) h0 = f
    cases hr : f.req <;> simp [final, runFut, MpiFut.step, MpiFut.envComplete, hr]
  have hw : AlwaysReady h
      (trace MpiFut.step (final MpiFut.step (MpiFut.start initial incoming) (h0 ++ [.wait])) h) := by
    apply MpiFut.notPending_ready
    rw [final_append]
    have hi : MpiFut.Inv (final MpiFut.step (MpiFut.start initial incoming) h0) :=
      MpiFut.inv_final _ h0 (by intro hv; simp [MpiFut.start] at hv)
    generalize final MpiFut.step (MpiFut.start initial incoming) h0 = f at hi
    unfold MpiFut.Inv at hi
    cases hr : f.req <;> cases hv : f.valid <;>
      simp_all [final, runFut, MpiFut.step, MpiFut.wait, MpiFut.mpiWait, MpiFut.envComplete, mpiWaitReq]
  have e : MpiVoid.start = eraseMpi (MpiFut.start initial incoming) := rfl
  have e' : PseudoVoid.start = erasePseudo (PseudoFut.start incoming) := rfl
  refine ⟨hc, hw, ?_, ?_, fun hg => PseudoFut.valid_ready _ h hg rfl, fun hg => ?_⟩
  · rw [e, (mpiVoid_trace _ _).2, (mpiVoid_trace _ h).1]
    exact alwaysReady_map_erase _ _ hc
  · rw [e, (mpiVoid_trace _ _).2, (mpiVoid_trace _ h).1]
    exact alwaysReady_map_erase _ _ hw
  · rw [e', (pseudoVoid_trace _ h).1]
    exact alwaysReady_map_erase _ _ (PseudoFut.valid_ready _ h hg rfl)

/-- Readiness is stable: once a `ready()` of an MPI future has answered true (after any history), every later
`ready()` and polling loop answers true, whatever is called in between. -/
theorem ready_stays_true (initial incoming : List Int) (h0 h : List FOp)
    (ht : (MpiFut.step (final MpiFut.step (MpiFut.start initial incoming) h0) .ready).1 = .bool true) :
    AlwaysReady h (trace MpiFut.step (final MpiFut.step (MpiFut.start initial incoming) (h0 ++ [.ready])) h) := by
  apply MpiFut.notPending_ready
  rw [final_append]
  exact MpiFut.ready_true_notPending _ ht

example : AlwaysReady [.ready, .valid, .spin]
    (trace MpiFut.step (final MpiFut.step (MpiFut.start [0] [5]) ([.complete] ++ [.ready])) [.ready, .valid, .spin]) :=
  ready_stays_true [0] [5] [.complete] _ (by decide)

/-- and before that, `ready()` does not lie: while the request is pending it answers false -/
theorem ready_false_while_pending (f : MpiFut) (hr : f.req = .pending) : (MpiFut.step f .ready).1 = .bool false := by
  simp [MpiFut.step, MpiFut.ready, mpiTest, hr]

example : trace MpiFut.step (MpiFut.start [0] [5]) [.ready, .complete, .ready, .valid, .ready] =
    [.bool false, .env, .bool true, .bool true, .bool true] := by decide

/-- The void futures follow the same protocol: for every call history, MPIFuture<void> (resp. PseudoFuture<void>)
answers exactly like MPIFuture<T> (resp. PseudoFuture<T>) with the payload erased.  (False for the code before
fixes/C19_mpifuture_void_get.patch: there `get` left MPIFuture<void> valid.) -/
theorem void_future_same_protocol (h : List FOp) :
    (∀ f : MpiFut, trace MpiVoid.step (eraseMpi f) h = (trace MpiFut.step f h).map eraseObs) ∧
    (∀ f : PseudoFut, trace PseudoVoid.step (erasePseudo f) h = (trace PseudoFut.step f h).map eraseObs) :=
  ⟨fun f => (mpiVoid_trace f h).1, fun f => (pseudoVoid_trace f h).1⟩

example : trace MpiVoid.step MpiVoid.start [.get, .valid, .get, .wait] =
    [.ok, .bool false, .errInvalid, .errInvalid] := by decide

/-- The type-erased `Dune::Future<T>` adds nothing and hides nothing: holding a future it answers every call history
exactly like that future (so all theorems above hold for it), and `Future<void>` around a future with a payload
answers with the payload erased. -/
theorem erased_future_transparent {σ : Type} (inner : σ → FOp → FObs × σ) (f : σ) (h : List FOp) :
    trace (erasedStep inner) (some f) h = trace inner f h ∧
    final (erasedStep inner) (some f) h = some (final inner f h) ∧
    trace (voidCastStep inner) f h = (trace inner f h).map eraseObs :=
  ⟨(erased_some inner f h).1, (erased_some inner f h).2, (voidCast_trace inner f h).1⟩

example : trace (erasedStep MpiFut.step) (some (MpiFut.start [-777] [42])) [.ready, .get, .get] =
    [.bool false, .data [42], .errInvalid] := by decide

/-- A default-constructed or moved-from `Dune::Future<T>` (null pointer) reports misuse: over every call history it
says `valid() = false`-compatible answers only — every `wait` and `get` (and `ready`) throws
InvalidFutureException, nothing is handed out, it stays null.  (False for the code before
fixes/C19_future_null_invalid.patch: there wait/get/ready dereferenced the null pointer.) -/
theorem null_future_reports_misuse {σ : Type} (inner : σ → FOp → FObs × σ) (h : List FOp) :
    MisuseReported h (trace (erasedStep inner) none h) ∧ dataOf (trace (erasedStep inner) none h) = [] ∧
      succGets h (trace (erasedStep inner) none h) = 0 ∧ final (erasedStep inner) none h = none ∧
      (erasedStep inner none .valid).1 = .bool false :=
  ⟨(erased_null inner h).1, (erased_null inner h).2.1, (erased_null inner h).2.2.1, (erased_null inner h).2.2.2, rfl⟩

example : trace (erasedStep PseudoFut.step) none [.valid, .wait, .get, .ready] =
    [.bool false, .errInvalid, .errInvalid, .errInvalid] := by decide

/-! ## Round three: move construction, move assignment, the send object of the two-buffer future -/

/-- Move assignment hands over the *whole* future: for every state `t` of the target (default constructed, result
taken, still holding the result and the send object of an earlier operation, even with a request in flight) and every
state `s` of the source, after `t = std::move(s)` the target is exactly `s` — request, receive buffer *and* send
object — and the source (the temporary that is destroyed at the end of the statement) is exactly the old `t`, so that
nothing belonging to the new operation is destroyed with it.  `MPIFuture<R>`, `MPIFuture<void>`, `MPIFuture<R,S>`
(statement-by-statement transcriptions of the swaps), `PseudoFuture` (implicit member-wise assignment) and
`Dune::Future` (`unique_ptr` assignment: source becomes null).  (False for seeded change C19_w2m3, whose
`operator=` does not swap `send_data_`.) -/
theorem move_assign_transfers :
    (∀ t s : MpiFut, MpiFut.moveAssign t s = (s, t)) ∧
    (∀ t s : MpiVoid, MpiVoid.moveAssign t s = (s, t)) ∧
    (∀ t s : MpiFut2, MpiFut2.moveAssign t s = (s, t)) ∧
    (∀ t s : PseudoFut, PseudoFut.moveAssign t s = s) ∧
    (∀ t s : PseudoVoid, PseudoVoid.moveAssign t s = s) ∧
    (∀ (σ : Type) (t s : Option σ), erasedAssign t s = (s, none)) := by
  refine ⟨?_, ?_, ?_, ?_, ?_, fun _ _ _ => rfl⟩
  · intro t s; cases t; cases s; rfl
  · intro t s; cases t; cases s; rfl
  · intro t s
    cases t with
    | mk tb ts =>
      cases s with
      | mk sb ss => cases tb; cases sb; rfl
  · intro t s; cases s; rfl
  · intro t s; cases s; rfl

/-- a variable that holds the result `[1,2]` and the send object `[9]` of an earlier, completed operation is assigned
the future of a new operation that is still in flight -/
example : MpiFut2.moveAssign
      { base := { valid := true, req := .null, buf := [1, 2], incoming := [1, 2] }, send := some [9] }
      (MpiFut2.start [-777] [42] [7]) =
    (MpiFut2.start [-777] [42] [7],
      { base := { valid := true, req := .null, buf := [1, 2], incoming := [1, 2] }, send := some [9] }) := by decide

/-- Move construction: the new object is exactly the future it was constructed from (request, receive buffer, send
object). -/
theorem move_construct_transfers :
    (∀ s : MpiFut, MpiFut.moveConstruct s = s) ∧ (∀ s : MpiVoid, MpiVoid.moveConstruct s = s) ∧
    (∀ s : MpiFut2, MpiFut2.moveConstruct s = s) := by
  refine ⟨?_, ?_, ?_⟩
  · intro s; cases s; rfl
  · intro s; cases s; rfl
  · intro s
    cases s with
    | mk sb ss => cases sb; rfl

example : MpiFut2.moveConstruct (MpiFut2.start [-777] [42] [7]) = MpiFut2.start [-777] [42] [7] := by decide

/-- No stale data from a re-used variable: whatever state `t` the variable is in — whatever operation it served
before and however far that was consumed — after `t = <future of the new operation>` every call history `h` is
answered exactly as by the fresh future of the new operation.  In particular the payloads handed out by `get` are
`[incoming]` of the *new* operation or nothing (never the buffer or the result of the old one), a two-buffer future
hands back the send object of the new operation, and the destroyed temporary holds the old request (no request of the
new operation is cancelled). -/
theorem reused_future_no_stale (initial incoming send : List Int) (h : List FOp) (h2 : List FOp2) :
    (∀ t : MpiFut, trace MpiFut.step (MpiFut.moveAssign t (MpiFut.start initial incoming)).1 h =
        trace MpiFut.step (MpiFut.start initial incoming) h ∧
      dataOf (trace MpiFut.step (MpiFut.moveAssign t (MpiFut.start initial incoming)).1 h) =
        (if h.contains .get then [incoming] else []) ∧
      (MpiFut.moveAssign t (MpiFut.start initial incoming)).2.req = t.req) ∧
    (∀ t : MpiVoid, trace MpiVoid.step (MpiVoid.moveAssign t MpiVoid.start).1 h = trace MpiVoid.step MpiVoid.start h) ∧
    (∀ t : MpiFut2, runFut2 (MpiFut2.moveAssign t (MpiFut2.start initial incoming send)).1 h2 =
        runFut2 (MpiFut2.start initial incoming send) h2 ∧
      (MpiFut2.moveAssign t (MpiFut2.start initial incoming send)).1.send = some send ∧
      (MpiFut2.moveAssign t (MpiFut2.start initial incoming send)).2 = t) ∧
    (∀ t : PseudoFut, trace PseudoFut.step (PseudoFut.moveAssign t (PseudoFut.start incoming)) h =
        trace PseudoFut.step (PseudoFut.start incoming) h) := by
  obtain ⟨a1, a2, a3, a4, _, _⟩ := move_assign_transfers
  refine ⟨fun t => ?_, fun t => by rw [a2], fun t => ?_, fun t => by rw [a4]⟩
  · rw [a1]
    exact ⟨rfl, (get_once initial incoming h).1, rfl⟩
  · rw [a3]
    exact ⟨rfl, rfl, rfl⟩

/-- the variable served an operation delivering `[1,2]`, the result was taken; it is assigned the future of an
operation delivering `[42]`: `get` delivers `[42]`, once -/
example : trace MpiFut.step
      (MpiFut.moveAssign (final MpiFut.step (MpiFut.start [0, 0] [1, 2]) [.get]) (MpiFut.start [-777] [42])).1
      [.valid, .get, .get] = [.bool true, .data [42], .errInvalid] := by decide

/-- The two-buffer future `MPIFuture<R,S>` follows the same protocol: for every history of the calls every future has
(valid/ready/wait/get/spin, completion at any point) and every state, request and receive buffer answer and evolve
exactly as those of `MPIFuture<R>` — so every theorem above holds for it — and the send object stays in the future
(it is kept alive while the operation may be in flight, whatever is called). -/
theorem two_buffer_same_protocol (f : MpiFut2) (h : List FOp) :
    runFut2 f (h.map .call) =
      some (trace MpiFut.step f.base h, { base := final MpiFut.step f.base h, send := f.send }) :=
  runFut2_calls f h

example : runFut2 (MpiFut2.start [-777] [42] [7]) ([FOp.ready, .get, .get].map .call) =
    some ([.bool false, .data [42], .errInvalid],
      { base := { valid := false, req := .null, buf := [42], incoming := [42] }, send := some [7] }) := by decide

/-- `get_send_data()` hands back exactly the send object of the operation, and only after the operation has
completed.  For the future of a two-buffer operation, every history `h1` of calls before and `h2` after:
the call is answered with the send object `send` — or with InvalidFutureException if the result had been taken
(`h1` contains a `get`) —, all other calls are answered as if it had been a `wait()` (so the request is complete and
null afterwards: the object is not released while MPI may still read it, and a later `get` still delivers the
operation's data), and the future owns the send object exactly until then. -/
theorem send_data_once (initial incoming send : List Int) (h1 h2 : List FOp) :
    runFut2 (MpiFut2.start initial incoming send) (h1.map .call ++ .sendData :: h2.map .call) =
      some (trace MpiFut.step (MpiFut.start initial incoming) h1 ++
          (if h1.contains .get then FObs.errInvalid else .data send) ::
          trace MpiFut.step (final MpiFut.step (MpiFut.start initial incoming) (h1 ++ [.wait])) h2,
        { base := final MpiFut.step (MpiFut.start initial incoming) (h1 ++ [.wait] ++ h2),
          send := if h1.contains .get then some send else none }) := by
  rw [runFut2_append, runFut2_calls]
  simp only [Option.bind_some, MpiFut2.start]
  rw [runFut2_cons, sendData_some _ send rfl]
  simp only [Option.bind_some]
  rw [runFut2_calls]
  have hv : (final MpiFut.step (MpiFut.start initial incoming) h1).valid = !h1.contains .get := by
    rw [MpiFut.final_valid]; simp [MpiFut.start]
  have hw : final MpiFut.step (MpiFut.start initial incoming) (h1 ++ [.wait]) =
      (MpiFut.step (final MpiFut.step (MpiFut.start initial incoming) h1) .wait).2 := by
    rw [final_append]; rfl
  simp only [Option.map_some, hv, final_append, hw]
  cases h1.contains FOp.get <;> simp

example : runFut2 (MpiFut2.start [-777] [42] [7]) ([FOp2.call .ready, .sendData, .call .ready, .call .get]) =
    some ([.bool false, .data [7], .bool true, .data [42]],
      { base := { valid := false, req := .null, buf := [42], incoming := [42] }, send := none }) := by decide

example : runFut2 (MpiFut2.start [-777] [42] [7]) ([FOp2.call .get, .sendData]) =
    some ([.data [42], .errInvalid],
      { base := { valid := false, req := .null, buf := [42], incoming := [42] }, send := some [7] }) := by decide

/-- What the check does not judge: a second `get_send_data()` while the future is still valid (no `get` so far)
dereferences the emptied buffer — the model has no answer (`none`), the harness and the driver reject such lines.
Together with `send_data_once` this is exact for histories with up to two such calls. -/
theorem send_data_twice_undefined (initial incoming send : List Int) (h1 h2 h3 : List FOp2)
    (hg1 : h1.all (· ≠ .call .get)) (hs1 : h1.all (· ≠ .sendData))
    (hg2 : h2.all (· ≠ .call .get)) (hs2 : h2.all (· ≠ .sendData)) :
    runFut2 (MpiFut2.start initial incoming send) (h1 ++ .sendData :: (h2 ++ .sendData :: h3)) = none := by
  -- histories without get_send_data() are images of call histories
  have calls : ∀ h : List FOp2, h.all (· ≠ .sendData) = true → h = (h.map asWait).map .call := by
    intro h hh
    induction h with
    | nil => rfl
    | cons o os ih =>
      simp only [List.all_cons, Bool.and_eq_true, decide_eq_true_eq] at hh
      cases o with
      | call o => simp only [List.map_cons, asWait]; rw [← ih hh.2]
      | sendData => exact absurd rfl hh.1
  have noget : ∀ h : List FOp2, h.all (· ≠ .call .get) = true → h.all (· ≠ .sendData) = true →
      (h.map asWait).contains .get = false := by
    intro h hg hs
    induction h with
    | nil => rfl
    | cons o os ih =>
      simp only [List.all_cons, Bool.and_eq_true, decide_eq_true_eq] at hg hs
      cases o with
      | call o =>
        have : o ≠ .get := fun e => hg.1 (by rw [e])
        simp only [List.map_cons, asWait, List.contains_cons, ih hg.2 hs.2, Bool.or_false]
        cases o <;> first | rfl | exact absurd rfl this
      | sendData => exact absurd rfl hs.1
  rw [calls h1 hs1, calls h2 hs2]
  have e : (h1.map asWait).map FOp2.call ++ FOp2.sendData :: ((h2.map asWait).map .call ++ .sendData :: h3) =
      ((h1.map asWait).map FOp2.call ++ FOp2.sendData :: (h2.map asWait).map .call) ++ .sendData :: h3 := by simp
  rw [e, runFut2_append, send_data_once, noget h1 hg1 hs1]
  simp only [Option.bind_some, Bool.false_eq_true, if_false]
  rw [runFut2_cons, sendData_none _ rfl]
  · rfl
  · show (final MpiFut.step (MpiFut.start initial incoming) (h1.map asWait ++ [.wait] ++ h2.map asWait)).valid = true
    rw [MpiFut.final_valid]
    have n1 := noget h1 hg1 hs1
    have n2 := noget h2 hg2 hs2
    simp at n1 n2
    simp [MpiFut.start]
    exact ⟨n1, n2⟩

example : runFut2 (MpiFut2.start [-777] [42] [7]) [.sendData, .call .valid, .sendData] = none := by decide

/-! ## Round four — the model is what the source says today

`Gen/C19.lean` is regenerated from `mpiguard.hh`, `mpifuture.hh`, `future.hh` by `tools/translators/tr_c19.py` on every
run.  The theorems below are proved about the *generated* definitions: they say that the generated guard programs and
the generated member bodies of the future classes (interpreted by `Interp`) are, for every state, the hand-written
model all theorems above are about.  A change of the source that changes one of these bodies makes the theorem false
(or leaves the translator's grammar), which `check.py` reports as a broken obligation and answers with a search for a
failing input. -/

/-- `finalize(bool)`, `reactivate()`, `~MPIGuard()` as read from mpiguard.hh are the model's programs — same
contribution to the collective, same `active_` afterwards, MPIGuardError thrown in the same cases, for every guard
state, every argument and every global sum — and the default argument of `finalize` is `true`. -/
theorem gen_guard_is_model :
    Gen.Guard.finalize = finalize ∧ Gen.Guard.reactivate = reactivate ∧
    (∀ g, (Gen.Guard.destroy g).bind (fun r => Prog.ret r.2) = destroy g) ∧
    Gen.Guard.finalizeDefaultArg = some true :=
  ⟨funext fun g => funext fun s => gen_finalize g s, funext gen_reactivate, gen_destroy, rfl⟩

example : runJoint 3 [Gen.Guard.finalize ⟨true⟩ false, Gen.Guard.reactivate ⟨true⟩, Gen.Guard.destroy ⟨true⟩] =
    .done [(⟨false⟩, true), (⟨false⟩, true), (⟨false⟩, false)] := by decide

/-- `finalize` on a guard that is NOT armed (a second `finalize` in a row, `MPIGuard(comm,false)` without `reactivate()`):
it still takes part in the collective with its contribution — so it cannot make the others deadlock — and never throws,
whatever the global sum is; the guard stays unarmed.  (Not a guarded section; the harness does not generate it — this
is what the model, and through `gen_guard_is_model` the source, says about it.) -/
theorem unarmed_finalize_never_throws (success : Bool) :
    ∃ k, Gen.Guard.finalize { active := false } success = Prog.sum (if success then 0 else 1) k ∧
      ∀ total, k total = Prog.ret ({ active := false }, false) := by
  rw [gen_finalize]
  exact ⟨_, rfl, fun total => by simp⟩

example : runJoint 3 [Gen.Guard.finalize ⟨false⟩ false, Gen.Guard.finalize ⟨true⟩ true] =
    .done [(⟨false⟩, false), (⟨false⟩, true)] := by decide

/-- every constructor of `MPIGuard` initialises `active_` with its parameter `active`, whose default is `true`: the arms
`n` (`MPIGuard guard(comm)` = armed) and `m` (`MPIGuard guard(comm,false)` = not armed) of the model. -/
theorem gen_guard_ctor_arms :
    (∀ c ∈ Gen.Guard.ctorActive, ∀ b, c b = b) ∧ (∀ d ∈ Gen.Guard.ctorDefault, d = some true) ∧
    Gen.Guard.ctorActive.length = Gen.Guard.ctorDefault.length ∧ 4 ≤ Gen.Guard.ctorActive.length := by
  refine ⟨?_, ?_, rfl, by decide⟩
  · intro c hc b
    simp only [Gen.Guard.ctorActive, List.mem_cons, List.not_mem_nil, or_false] at hc
    rcases hc with h | h | h | h <;> (subst h; rfl)
  · intro d hd
    simp only [Gen.Guard.ctorDefault, List.mem_cons, List.not_mem_nil, or_false] at hd
    rcases hd with h | h | h | h <;> exact h

example : Gen.Guard.ctorActive.map (· false) = [false, false, false, false] := by decide

/-- `valid`, `wait`, `ready`, `get`, `get_send_data` of `MPIFuture<R,S>` as read from mpifuture.hh, executed on the
generated bodies of `impl::Buffer<T>::get`/`operator bool` (value payloads), of `impl::Buffer<T&>` (lvalue payloads) and
of `impl::Buffer<void>` (`MPIFuture<void>`), answer and change every state exactly like the model's step functions;
the buffers' `get` hands out the object and empties the buffer. -/
theorem gen_future_is_model (f : MpiFut2) (fv : MpiVoid) (v : List Int) :
    (∀ o, genStep2 f o = MpiFut2.step f o) ∧
    genFutRef Gen.MpiFuture.valid f = MpiFut2.step f (.call .valid) ∧
    genFutRef Gen.MpiFuture.wait f = MpiFut2.step f (.call .wait) ∧
    genFutRef Gen.MpiFuture.ready f = MpiFut2.step f (.call .ready) ∧
    genFutRef Gen.MpiFuture.get f = MpiFut2.step f (.call .get) ∧
    genFutRef Gen.MpiFuture.getSendData f = MpiFut2.sendData f ∧
    genVoid Gen.MpiFuture.valid fv = some (MpiVoid.step fv .valid) ∧
    genVoid Gen.MpiFuture.wait fv = some (MpiVoid.step fv .wait) ∧
    genVoid Gen.MpiFuture.ready fv = some (MpiVoid.step fv .ready) ∧
    genVoid Gen.MpiFuture.get fv = some (MpiVoid.step fv .get) ∧
    Interp.bufGet Gen.MpiFuture.bufferValueGet (some v) none = some (v, none) ∧
    Interp.bufGet Gen.MpiFuture.bufferRefGet (some v) none = some (v, none) :=
  ⟨genStep2_eq f, gen_futref_valid f, gen_futref_wait f, gen_futref_ready f, gen_futref_get f, gen_futref_send f,
   (gen_void fv).1, (gen_void fv).2.1, (gen_void fv).2.2.1, (gen_void fv).2.2.2,
   (gen_buffers v none false).1, (gen_buffers v none false).2.1⟩

/-- every call history (any length, `get_send_data` included, completion at any point) executed by the generated
member bodies gives the observations and the final state of the model — so every future theorem above holds for the
code as read today. -/
theorem gen_histories_are_model (f : MpiFut2) (h : List FOp2) : genRun2 f h = runFut2 f h := genRun2_eq f h

example : genRun2 (MpiFut2.start [-777] [42] [7]) [.call .ready, .sendData, .call .get, .call .get, .call .valid] =
    some ([.bool false, .data [7], .data [42], .errInvalid, .bool false],
          { base := { valid := false, req := .null, buf := [42], incoming := [42] }, send := none }) := by decide

/-- `operator=(MPIFuture&&)` as the list of swaps read from the source, and the move constructor as its member
initialisers and swaps, are the model's `moveAssign` / `moveConstruct` (which `move_assign_transfers` and
`move_construct_transfers` show to hand over request, result buffer and send object). -/
theorem gen_moves_are_model (t s : MpiFut2) :
    Interp.moveAssignBy Gen.MpiFuture.assignSwaps t s = MpiFut2.moveAssign t s ∧
    Interp.moveConstructBy Gen.MpiFuture.ctorMoved Gen.MpiFuture.ctorNulled Gen.MpiFuture.ctorSwaps s =
      MpiFut2.moveConstruct s :=
  ⟨gen_move_assign t s, gen_move_construct s⟩

example : Interp.moveAssignBy Gen.MpiFuture.assignSwaps (MpiFut2.start [1] [2] [3]) (MpiFut2.start [-777] [42] [7]) =
    (MpiFut2.start [-777] [42] [7], MpiFut2.start [1] [2] [3]) := by decide

/-- the members of `PseudoFuture<T>` and `PseudoFuture<void>` as read from future.hh are the model's step functions -/
theorem gen_pseudo_is_model (f : PseudoFut) (fv : PseudoVoid) (o : FOp) (ho : o = .valid ∨ o = .wait ∨ o = .ready ∨ o = .get) :
    (∃ body, body ∈ [Gen.PseudoT.valid, Gen.PseudoT.wait, Gen.PseudoT.ready, Gen.PseudoT.get] ∧
       Interp.pseudoRun body f = some (PseudoFut.step f o)) ∧
    (∃ body, body ∈ [Gen.PseudoV.valid, Gen.PseudoV.wait, Gen.PseudoV.ready, Gen.PseudoV.get] ∧
       Interp.pseudoVoidRun body fv = some (PseudoVoid.step fv o)) := by
  have a := gen_pseudo f
  have b := gen_pseudo_void fv
  rcases ho with h | h | h | h <;> subst h
  · exact ⟨⟨_, by simp, a.1⟩, ⟨_, by simp, b.1⟩⟩
  · exact ⟨⟨_, by simp, a.2.1⟩, ⟨_, by simp, b.2.1⟩⟩
  · exact ⟨⟨_, by simp, a.2.2.1⟩, ⟨_, by simp, b.2.2.1⟩⟩
  · exact ⟨⟨_, by simp, a.2.2.2⟩, ⟨_, by simp, b.2.2.2⟩⟩

example : Interp.pseudoRun Gen.PseudoT.get (PseudoFut.start [5]) = some (.data [5], { valid := false, data := [5] }) := by
  decide

/-- `Dune::Future<T>` as read from future.hh — null test, then the virtual call into `FutureModel<F>`, which forwards to
the future it holds — is `erasedStep` around ANY inner future: transparent when it holds one, InvalidFutureException
(`valid()`: false) when null. -/
theorem gen_erased_is_model {σ : Type} (inner : σ → FOp → FObs × σ) (s : Option σ) :
    genErased inner Gen.Erased.valid s = some (erasedStep inner s .valid) ∧
    genErased inner Gen.Erased.wait s = some (erasedStep inner s .wait) ∧
    genErased inner Gen.Erased.ready s = some (erasedStep inner s .ready) ∧
    genErased inner Gen.Erased.get s = some (erasedStep inner s .get) := gen_erased inner s

example : genErased PseudoFut.step Gen.Erased.get (none : Option PseudoFut) = some (.errInvalid, none) := by decide
example : genErased PseudoFut.step Gen.Erased.get (some (PseudoFut.start [5])) =
    some (.data [5], some { valid := false, data := [5] }) := by decide

/-- The non-blocking members of `Communication<MPI_Comm>` as read from mpicommunication.hh today: each posts exactly one
operation — the `MPI_I*` function of its name, on the buffers the future owns (`send_data_` first, `data_` second for
the two-buffer operations, `MPI_IN_PLACE` + `data_` for the in-place reduction) —, stores the request in the future and
returns that future; and for ALL parameter values the future it returns is the start state the theorems above speak
about: valid, request pending, `data_` = the forwarded payload / `data_out`, `send_data_` = `data_in`
(`MPIFuture<TOUT,TIN> future(forward(data_out), forward(data_in))`: receive object first). -/
theorem gen_operations_start (d s r x inc : List Int) :
    (Gen.Ops.mpi.map fun op => (op.name, op.call, op.bufs, op.reqInFuture && op.returnsFuture)) =
      [("ibarrier", "MPI_Ibarrier", [], true), ("ibroadcast", "MPI_Ibcast", [.data], true),
       ("igather", "MPI_Igather", [.sendData, .data], true), ("iscatter", "MPI_Iscatter", [.sendData, .data], true),
       ("iallgather", "MPI_Iallgather", [.sendData, .data], true), ("iallreduce", "MPI_Iallreduce", [.sendData, .data], true),
       ("iallreduce", "MPI_Iallreduce", [.inPlace, .data], true), ("isend", "MPI_Isend", [.data], true),
       ("irecv", "MPI_Irecv", [.data], true)] ∧
    List.zipWith (fun op args => Interp.mpiOpStart op args inc) Gen.Ops.mpi
        [[], [d, r], [s, d, r], [s, d, r], [s, d], [s, d], [d], [d, r, x], [d, r, x]] =
      [some (.mpiVoid MpiVoid.start), some (.mpiOne (MpiFut.start d inc)),
       some (.mpiTwo (MpiFut2.start d inc s)), some (.mpiTwo (MpiFut2.start d inc s)),
       some (.mpiTwo (MpiFut2.start d inc s)), some (.mpiTwo (MpiFut2.start d inc s)),
       some (.mpiOne (MpiFut.start d inc)), some (.mpiOne (MpiFut.start d inc)), some (.mpiOne (MpiFut.start d inc))] :=
  ⟨by decide, rfl⟩

example : (Gen.Ops.mpi[2]?.bind fun op => Interp.mpiOpStart op [[5], [-777, -777], [0]] [5, 7]) =
    some (.mpiTwo (MpiFut2.start [-777, -777] [5, 7] [5])) := by decide

/-- The non-blocking members of the sequential `Communication` as read from communication.hh today, for ALL parameter
values: `ibarrier` returns a valid `PseudoFuture<void>`, `ibroadcast` and the in-place `iallreduce` a future holding
the payload, `igather`/`iallgather` the output object with its first entry replaced by the input, `iscatter` the first
entry of the input, the two-argument `iallreduce` the input — the data "of the completed operation" on one process. -/
theorem gen_seq_operations_start (x o : Int) (rest data inp out root : List Int) :
    Gen.Ops.seq.map (fun op => (op.name, op.arity)) =
      [("ibarrier", 0), ("ibroadcast", 2), ("igather", 3), ("iscatter", 3), ("iallgather", 2), ("iallreduce", 2),
       ("iallreduce", 1)] ∧
    List.zipWith Interp.seqOpStart Gen.Ops.seq
        [[], [data, root], [[x], o :: rest, root], [x :: rest, out, root], [[x], o :: rest], [inp, out], [data]] =
      [some (.pseudoVoid PseudoVoid.start), some (.pseudoOne (PseudoFut.start data)),
       some (.pseudoOne (PseudoFut.start (x :: rest))), some (.pseudoOne (PseudoFut.start [x])),
       some (.pseudoOne (PseudoFut.start (x :: rest))), some (.pseudoOne (PseudoFut.start inp)),
       some (.pseudoOne (PseudoFut.start data))] :=
  ⟨by decide, rfl⟩

example : (Gen.Ops.seq[3]?.bind fun op => Interp.seqOpStart op [[4, 5, 6], [-777], [0]]) = some (.pseudoOne (PseudoFut.start [4])) := by
  decide

end DV.C19
