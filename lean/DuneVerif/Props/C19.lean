/-
C19 — property theorems (guard agreement, futures deliver exactly once) about the model in Model/C19.lean.
Helper lemmas: Proofs/C19Guard.lean, Proofs/C19Future.lean.  Core Lean only.

Assumed, not proved (MANIFEST note): MPI itself — a collective on a communicator completes once every member has
entered it and delivers the same sum to all; a request completes iff the operation completed; MPI_Wait returns then.

Reading of the property (round-two audit; clause → theorem):
  guard  "fails on any subset … every process that reaches the checkpoint observes the guard error"   agreement
         "when it fails nowhere no process does"                                                       no_failure_no_error
         "never deadlocks"                      sections_agree, guard_deadlock_iff (exact), one_collective_per_section,
                                                collectives_match_no_deadlock, destructor_never_throws
         "can be re-armed for the next section"  rearm, and the induction over sections in sections_agree
         the failing rank itself                 failing_rank_passes
         quantifier: all member lists (= all process counts, every communicator is a member list), every script
         (= every failure subset × failure mode × way of arming in each of any number of sections).
  future "valid until its result is taken"               future_valid_until_get
         "becomes ready once the operation completed"    ready_after_complete, ready_stays_true, ready_false_while_pending
         "yields exactly the data … once"                get_once (payload), get_succeeds_once (all classes, incl. void)
         "reports misuse … with the documented error"    get_after_get_error, invalid_future_misuse, wait_invalid_error,
                                                         null_future_reports_misuse
         all classes                                     void_future_same_protocol, erased_future_transparent
         quantifier: every call history (List FOp) with the completion of the operation at any point.
-/
import DuneVerif.Proofs.C19Guard
import DuneVerif.Proofs.C19Future

namespace DV.C19

/-! ## Guard -/

/-- Every path of every rank through a guarded section — whatever guard object the rank starts with (none, an
inactive one, one still armed by `reactivate()`), whichever way it arms (`n`,`m`,`a`) and whichever of
finalize(true) / finalize() / finalize(false) / reactivate() / exception / scope exit it takes — issues exactly one
`sum` and then returns. -/
theorem one_collective_per_section (st : Option Guard) (s : Arm × Act) : OneSum (sectionProg st s) := by
  rw [sectionProg_eq]
  intro r
  exact ⟨_, rfl⟩

example : OneSum (sectionProg (some { active := false }) (.freshInactive, .throwUser)) :=
  one_collective_per_section _ _

/-- Collectives match ⇒ no deadlock at this level: ranks (any number ≥ 1) whose programs all issue exactly one
collective run to completion, every rank returns. -/
theorem collectives_match_no_deadlock {α : Type} (ps : List (Prog α)) (hne : ps ≠ []) (h : ∀ p ∈ ps, OneSum p) :
    ∃ vs, runJoint 2 ps = .done vs ∧ vs.length = ps.length := by
  obtain ⟨cks, hcks, hlen, hk⟩ := allSum_of_oneSum ps h
  have hret : ∀ p ∈ cks.map (fun ck => ck.2 ((cks.map (·.1)).sum)), ∃ a, p = Prog.ret a := by
    intro p hp
    obtain ⟨ck, hck, rfl⟩ := List.mem_map.mp hp
    exact hk ck hck _
  obtain ⟨vs, hvs, hvlen⟩ := allRet_of_forall_ret _ hret
  refine ⟨vs, ?_, by simp [hvlen, hlen]⟩
  simp [runJoint, allRet_none_of_oneSum ps hne h, hcks, hvs]

example : runJoint 2 [sectionProg none (.fresh, .finTrue), sectionProg none (.rearm, .throwUser),
    sectionProg (some { active := true }) (.fresh, .react)] =
    .done [(some { active := false }, .guardError), (none, .userExc), (some { active := false }, .guardError)] := by
  decide

/-- the hypotheses of `collectives_match_no_deadlock` are met by the sections of three ranks -/
example : ∃ vs, runJoint 2 [sectionProg none (.fresh, .finTrue), sectionProg none (.rearm, .throwUser),
    sectionProg (some { active := true }) (.fresh, .react)] = .done vs ∧ vs.length = 3 :=
  collectives_match_no_deadlock _ (by simp) (by
    intro p hp
    simp only [List.mem_cons, List.not_mem_nil, or_false] at hp
    rcases hp with rfl | rfl | rfl <;> exact one_collective_per_section _ _)

/-- The model's negative case is real: a rank that leaves without its collective deadlocks the others. -/
example : runJoint 5 [sectionProg none (.fresh, .finTrue), Prog.ret (none, Obs.none)] = .deadlock := by decide

/-- Re-arming: whatever happened before (error observed or not, guard destroyed or kept), each of the three ways of
arming yields an armed guard without any collective and without an exception. -/
theorem rearm (st : Option Guard) (m : Arm) : ∃ g, armProg st m = .ret (some g) ∧ g.active = true := by
  rcases st with _ | ⟨⟨_ | _⟩⟩ <;> cases m <;>
    simp [armProg, destroy, reactivate, Prog.bind]

example : armProg (some { active := false }) .rearm = .ret (some { active := true }) := rfl

/-- The destructor never lets an exception escape (it clears `active_` before calling finalize(false)). -/
theorem destructor_never_throws (g : Guard) :
    destroy g = .ret false ∨ ∃ c, destroy g = .sum c (fun _ => .ret false) := by
  rcases g with ⟨_ | _⟩
  · left; simp [destroy]
  · right; exact ⟨1, by simp [destroy, finalize, Prog.bind]⟩

/-- Sequences of sections (induction on the number of sections): for every set of ranks sharing the communicator,
every number `n` of consecutive sections and every script (who arms how and does what in which section) whose end is
matched (`EndsMatched`: no member, or every member, still owes a section because it ended with a successful
`reactivate()` checkpoint), the joint execution terminates without deadlock and every rank observes in every
section exactly what the property demands (`specObs`).  Round one assumed the stronger "no rank ends with
`reactivate()`"; `guard_deadlock_iff` shows that `EndsMatched` cannot be weakened further. -/
theorem sections_agree (members : List Nat) (n fuel : Nat) (script : Nat → Nat → Arm × Act) (hf : n + 1 < fuel)
    (hend : EndsMatched members script n) :
    runJoint fuel (members.map fun i => rankProg (script i) n) =
      .done (members.map fun i => (List.range n).map (specObs members script i)) := by
  have := joint_scripts_end members n fuel script (fun _ => none) (fun _ => []) hf
  rw [endOutcome_matched members script n hend] at this
  simpa [rankProg] using this

/-- "Never deadlocks", exactly: the joint execution of `n` guarded sections deadlocks iff the end is unmatched, i.e.
some member's last call was a successful `reactivate()` (its guard is armed again and its destructor will enter one
more collective) while another member is done.  It never runs out of fuel. -/
theorem guard_deadlock_iff (members : List Nat) (n fuel : Nat) (script : Nat → Nat → Arm × Act) (hf : n + 1 < fuel) :
    (runJoint fuel (members.map fun i => rankProg (script i) n) = .deadlock ↔ ¬ EndsMatched members script n) ∧
    runJoint fuel (members.map fun i => rankProg (script i) n) ≠ .outOfFuel := by
  have key := joint_scripts_end members n fuel script (fun _ => none) (fun _ => []) hf
  have key' : runJoint fuel (members.map fun i => rankProg (script i) n) =
      endOutcome members (finalSt members n script fun _ => none)
        (fun i => ([] : List Obs).reverse ++ (List.range n).map (specObs members script i)) := by
    simpa [rankProg] using key
  by_cases h : EndsMatched members script n
  · rw [key', endOutcome_matched members script n h]
    exact ⟨⟨fun hc => (by cases hc), fun hc => absurd h hc⟩, fun hc => (by cases hc)⟩
  · rw [key', endOutcome_unmatched members script n h]
    exact ⟨⟨fun _ => h, fun _ => rfl⟩, fun hc => (by cases hc)⟩

/-- Sufficient for a matched end (what round one assumed, and what the failure of the last section gives): no member
ends with `reactivate()`, or the last section failed somewhere, or every member ends with `reactivate()`. -/
theorem ends_matched_sufficient (members : List Nat) (n' : Nat) (script : Nat → Nat → Arm × Act) :
    ((∀ i ∈ members, (script i n').2 ≠ .react) → EndsMatched members script (n' + 1)) ∧
    ((∃ j ∈ members, fails (script j n').2 = true) → EndsMatched members script (n' + 1)) ∧
    ((∀ i ∈ members, (script i n').2 = .react) → EndsMatched members script (n' + 1)) ∧
    EndsMatched members script 0 := by
  refine ⟨fun h => Or.inl fun i hi => by simp [endsArmed, h i hi], ?_, ?_, Or.inl fun i _ => rfl⟩
  · intro ⟨j, hj, hf⟩
    refine Or.inl fun i _ => ?_
    have : (members.any fun j => fails (script j n').2) = true := List.any_eq_true.mpr ⟨j, hj, hf⟩
    simp [endsArmed, this]
  · intro h
    by_cases hany : (members.any fun j => fails (script j n').2) = true
    · exact Or.inl fun i _ => by simp [endsArmed, hany]
    · exact Or.inr fun i hi => by simp [endsArmed, h i hi, hany]

/-- The executable test `endsMatchedB` by which the driver (and, independently re-implemented, the harness) selects the
well-formed cases is exactly the hypothesis `EndsMatched` of the theorems. -/
theorem ends_matched_executable (members : List Nat) (script : Nat → Nat → Arm × Act) (n : Nat) :
    endsMatchedB members script n = true ↔ EndsMatched members script n :=
  endsMatchedB_iff members script n

/-- three ranks, three sections; rank 1 throws in section 0, rank 2 reports failure in section 2 -/
def exScript : Nat → Nat → Arm × Act
  | 1, 0 => (.fresh, .throwUser)
  | 2, 2 => (.rearm, .finFalse)
  | 0, 1 => (.rearm, .react)
  | _, _ => (.fresh, .finTrue)

theorem exScript_matched : EndsMatched [0, 1, 2] exScript 3 :=
  (ends_matched_sufficient [0, 1, 2] 2 exScript).1 (by decide)

/-- `sections_agree` instantiated (all hypotheses): the theorem's right-hand side is the concrete table -/
example : runJoint 5 ([0, 1, 2].map fun i => rankProg (exScript i) 3) =
    .done [[.guardError, .none, .guardError], [.userExc, .none, .guardError], [.guardError, .none, .guardError]] := by
  rw [sections_agree [0, 1, 2] 3 5 exScript (by decide) exScript_matched]
  decide

/-- every rank ends with a successful reactivate(): the destructors of the three armed guards match -/
def exAllReact : Nat → Nat → Arm × Act
  | _, _ => (.fresh, .react)

example : runJoint 4 ([0, 1, 2].map fun i => rankProg (exAllReact i) 2) = .done [[.none, .none], [.none, .none], [.none, .none]] := by
  rw [sections_agree [0, 1, 2] 2 4 exAllReact (by decide)
    ((ends_matched_sufficient [0, 1, 2] 1 exAllReact).2.2.1 (by decide))]
  decide

/-- the unmatched end is a real deadlock of the model (rank 0 re-armed, rank 1 is done) -/
def exMixed : Nat → Nat → Arm × Act
  | 0, _ => (.fresh, .react)
  | _, _ => (.fresh, .finTrue)

example : runJoint 4 ([0, 1].map fun i => rankProg (exMixed i) 1) = .deadlock := by decide
example : ¬ EndsMatched [0, 1] exMixed 1 := by
  intro h
  rcases h with h | h
  · exact absurd (h 0 (by simp)) (by decide)
  · exact absurd (h 1 (by simp)) (by decide)

/-- Agreement: if the section `k` fails on any member (exception, scope exit or finalize(false)), every member that
reaches the checkpoint in section `k` observes MPIGuardError — for all member sets, all failure subsets, both failure
modes, in each of any number of consecutive sections. -/
theorem agreement (members : List Nat) (n fuel : Nat) (script : Nat → Nat → Arm × Act) (hf : n + 1 < fuel)
    (hend : EndsMatched members script n) :
    ∃ out, runJoint fuel (members.map fun i => rankProg (script i) n) = .done out ∧
      out.length = members.length ∧
      ∀ (p i : Nat), members[p]? = some i → ∃ row : List Obs, out[p]? = some row ∧ row.length = n ∧
        ∀ k, k < n → (∃ j ∈ members, fails (script j k).2 = true) → reaches (script i k).2 = true →
          row[k]? = some Obs.guardError := by
  refine ⟨_, sections_agree members n fuel script hf hend, by simp, ?_⟩
  intro p i hp
  refine ⟨(List.range n).map (specObs members script i), by simp [hp], by simp, ?_⟩
  intro k hk hfail hreach
  have hany : (members.any fun j => fails (script j k).2) = true := by
    obtain ⟨j, hj, hjf⟩ := hfail
    exact List.any_eq_true.mpr ⟨j, hj, hjf⟩
  have : specObs members script i k = Obs.guardError := by
    unfold specObs
    rw [hany]
    cases h : (script i k).2 <;> simp_all [expectedObs, reaches]
  simp [hk, this]

/-- `agreement` instantiated: in section 0 rank 1 throws, ranks 0 and 2 reach the checkpoint and see the error -/
example : ∃ out, runJoint 5 ([0, 1, 2].map fun i => rankProg (exScript i) 3) = .done out ∧ out.length = 3 ∧
    ∃ row : List Obs, out[2]? = some row ∧ row[0]? = some Obs.guardError := by
  obtain ⟨out, h1, h2, h3⟩ := agreement [0, 1, 2] 3 5 exScript (by decide) exScript_matched
  obtain ⟨row, hr, _, hk⟩ := h3 2 2 (by decide)
  exact ⟨out, h1, h2, row, hr, hk 0 (by decide) ⟨1, by simp, by decide⟩ (by decide)⟩

/-- No failure, no error: if no member fails in section `k`, no member observes MPIGuardError there (every member
observes nothing at all). -/
theorem no_failure_no_error (members : List Nat) (n fuel : Nat) (script : Nat → Nat → Arm × Act) (hf : n + 1 < fuel)
    (hend : EndsMatched members script n) :
    ∃ out, runJoint fuel (members.map fun i => rankProg (script i) n) = .done out ∧
      ∀ (p i : Nat), members[p]? = some i → ∃ row : List Obs, out[p]? = some row ∧
        ∀ k, k < n → (∀ j ∈ members, fails (script j k).2 = false) → row[k]? = some Obs.none := by
  refine ⟨_, sections_agree members n fuel script hf hend, ?_⟩
  intro p i hp
  refine ⟨(List.range n).map (specObs members script i), by simp [hp], ?_⟩
  intro k hk hnofail
  have hany : (members.any fun j => fails (script j k).2) = false := by
    apply Bool.eq_false_iff.mpr
    intro h
    obtain ⟨j, hj, hjf⟩ := List.any_eq_true.mp h
    rw [hnofail j hj] at hjf
    exact Bool.noConfusion hjf
  have hi : i ∈ members := List.mem_of_getElem? hp
  have hfi := hnofail i hi
  have : specObs members script i k = Obs.none := by
    unfold specObs
    rw [hany]
    cases h : (script i k).2 <;> simp_all [expectedObs, fails]
  simp [hk, this]

/-- The user's own exception is never replaced and a failing rank never hangs: in the joint run, a rank that throws
sees its own exception and a rank leaving the scope sees nothing, in every section of every case (round one stated
this for the specification table only). -/
theorem failing_rank_passes (members : List Nat) (n fuel : Nat) (script : Nat → Nat → Arm × Act) (hf : n + 1 < fuel)
    (hend : EndsMatched members script n) :
    ∃ out, runJoint fuel (members.map fun i => rankProg (script i) n) = .done out ∧
      ∀ (p i : Nat), members[p]? = some i → ∃ row : List Obs, out[p]? = some row ∧
        ∀ k, k < n → ((script i k).2 = .throwUser → row[k]? = some Obs.userExc) ∧
          ((script i k).2 = .leave → row[k]? = some Obs.none) := by
  refine ⟨_, sections_agree members n fuel script hf hend, ?_⟩
  intro p i hp
  refine ⟨(List.range n).map (specObs members script i), by simp [hp], ?_⟩
  intro k hk
  constructor <;> intro h <;> simp [hk, specObs, h, expectedObs]

/-! ## Futures -/

/-- A future returned by a non-blocking operation is valid exactly until the result is taken: after any call history
`h` (valid/ready/wait/get/spin and the operation completing at any point) it is valid iff `h` contains no `get`.
All four classes. -/
theorem future_valid_until_get (initial incoming : List Int) (h : List FOp) :
    ((final MpiFut.step (MpiFut.start initial incoming) h).valid = !h.contains .get) ∧
    ((final MpiVoid.step MpiVoid.start h).valid = !h.contains .get) ∧
    ((final PseudoFut.step (PseudoFut.start incoming) h).valid = !h.contains .get) ∧
    ((final PseudoVoid.step PseudoVoid.start h).valid = !h.contains .get) := by
  have h1 := MpiFut.final_valid (MpiFut.start initial incoming) h
  have h3 := PseudoFut.final_valid (PseudoFut.start incoming) h
  have h2 := (mpiVoid_trace (MpiFut.start initial incoming) h).2
  have h4 := (pseudoVoid_trace (PseudoFut.start incoming) h).2
  refine ⟨by simpa [MpiFut.start] using h1, ?_, by simpa [PseudoFut.start] using h3, ?_⟩
  · have e : eraseMpi (MpiFut.start initial incoming) = MpiVoid.start := rfl
    rw [e] at h2
    rw [h2]
    simpa [eraseMpi, MpiFut.start] using h1
  · have e : erasePseudo (PseudoFut.start incoming) = PseudoVoid.start := rfl
    rw [e] at h4
    rw [h4]
    simpa [erasePseudo, PseudoFut.start] using h3

example : (final MpiFut.step (MpiFut.start [-777] [42]) [.valid, .ready, .complete, .wait]).valid = true := by decide
example : (final MpiFut.step (MpiFut.start [-777] [42]) [.valid, .get, .valid]).valid = false := by decide

/-- Exactly once, exactly the operation's data: over any call history the payloads handed out by `get` are the list
`[incoming]` if the history contains a `get` and `[]` otherwise — never the stale buffer contents `initial`, never
twice. -/
theorem get_once (initial incoming : List Int) (h : List FOp) :
    dataOf (trace MpiFut.step (MpiFut.start initial incoming) h) = (if h.contains .get then [incoming] else []) ∧
    dataOf (trace PseudoFut.step (PseudoFut.start incoming) h) = (if h.contains .get then [incoming] else []) := by
  constructor
  · have := MpiFut.valid_data (MpiFut.start initial incoming) h rfl
    simpa [MpiFut.payload, MpiFut.start] using this
  · have := PseudoFut.valid_data (PseudoFut.start incoming) h rfl
    simpa [PseudoFut.start] using this

example : trace MpiFut.step (MpiFut.start [-777] [42]) [.ready, .get, .get, .valid] =
    [.bool false, .data [42], .errInvalid, .bool false] := by decide

/-- Exactly once, also where there is no payload to look at: over any call history the number of `get` calls that
return (are not answered by InvalidFutureException) is 1 if the history contains a `get` and 0 otherwise.  All four
classes (round one had no statement of "once" for the void futures). -/
theorem get_succeeds_once (initial incoming : List Int) (h : List FOp) :
    succGets h (trace MpiFut.step (MpiFut.start initial incoming) h) = (if h.contains .get then 1 else 0) ∧
    succGets h (trace MpiVoid.step MpiVoid.start h) = (if h.contains .get then 1 else 0) ∧
    succGets h (trace PseudoFut.step (PseudoFut.start incoming) h) = (if h.contains .get then 1 else 0) ∧
    succGets h (trace PseudoVoid.step PseudoVoid.start h) = (if h.contains .get then 1 else 0) := by
  have h1 := MpiFut.valid_succGets (MpiFut.start initial incoming) h rfl
  have h3 := PseudoFut.valid_succGets (PseudoFut.start incoming) h rfl
  refine ⟨h1, ?_, h3, ?_⟩
  · have e : MpiVoid.start = eraseMpi (MpiFut.start initial incoming) := rfl
    rw [e, (mpiVoid_trace _ h).1, succGets_map_erase]
    exact h1
  · have e : PseudoVoid.start = erasePseudo (PseudoFut.start incoming) := rfl
    rw [e, (pseudoVoid_trace _ h).1, succGets_map_erase]
    exact h3

example : succGets [.get, .wait, .get, .get] (trace MpiVoid.step MpiVoid.start [.get, .wait, .get, .get]) = 1 := by
  decide

/-- After the result has been taken every further `get` and `wait` is answered with InvalidFutureException (no stale
data, no blocking), whatever happened before and whatever follows. -/
theorem get_after_get_error (initial incoming : List Int) (h1 h2 : List FOp) :
    MisuseReported h2 (trace MpiFut.step (final MpiFut.step (MpiFut.start initial incoming) (h1 ++ [.get])) h2) ∧
    MisuseReported h2 (trace PseudoFut.step (final PseudoFut.step (PseudoFut.start incoming) (h1 ++ [.get])) h2) := by
  constructor
  · apply MpiFut.invalid_misuse
    rw [MpiFut.final_valid]
    simp
  · apply PseudoFut.invalid_misuse
    rw [PseudoFut.final_valid]
    simp

/-- Misuse of any invalid future — result taken, or default constructed, whatever its request — in all four
classes: over every call history every `wait` and `get` is answered with InvalidFutureException, no payload is handed
out and no `get` returns.  (Round one covered histories only after a `get` of the two classes with payload, and
`wait` as a single step.) -/
theorem invalid_future_misuse (h : List FOp) :
    (∀ f : MpiFut, f.valid = false → MisuseReported h (trace MpiFut.step f h) ∧
      dataOf (trace MpiFut.step f h) = [] ∧ succGets h (trace MpiFut.step f h) = 0) ∧
    (∀ f : MpiVoid, f.valid = false → MisuseReported h (trace MpiVoid.step f h) ∧
      succGets h (trace MpiVoid.step f h) = 0) ∧
    (∀ f : PseudoFut, f.valid = false → MisuseReported h (trace PseudoFut.step f h) ∧
      dataOf (trace PseudoFut.step f h) = [] ∧ succGets h (trace PseudoFut.step f h) = 0) ∧
    (∀ f : PseudoVoid, f.valid = false → MisuseReported h (trace PseudoVoid.step f h) ∧
      succGets h (trace PseudoVoid.step f h) = 0) := by
  refine ⟨fun f hv => ⟨MpiFut.invalid_misuse f h hv, MpiFut.invalid_no_data f h hv, MpiFut.invalid_succGets f h hv⟩,
    ?_, fun f hv => ⟨PseudoFut.invalid_misuse f h hv, PseudoFut.invalid_no_data f h hv,
      PseudoFut.invalid_succGets f h hv⟩, ?_⟩
  · intro f hv
    have hv' : (liftMpi f).valid = false := hv
    rw [← erase_liftMpi f, (mpiVoid_trace _ h).1, succGets_map_erase]
    exact ⟨misuse_map_erase _ _ (MpiFut.invalid_misuse _ h hv'), MpiFut.invalid_succGets _ h hv'⟩
  · intro f hv
    have hv' : (liftPseudo f).valid = false := hv
    rw [← erase_liftPseudo f, (pseudoVoid_trace _ h).1, succGets_map_erase]
    exact ⟨misuse_map_erase _ _ (PseudoFut.invalid_misuse _ h hv'), PseudoFut.invalid_succGets _ h hv'⟩

example : trace MpiFut.step MpiFut.invalid [.get, .wait, .valid, .get] =
    [.errInvalid, .errInvalid, .bool false, .errInvalid] := by decide

/-- `wait()` on an invalid future (result taken, or default constructed) throws InvalidFutureException immediately:
no MPI_Wait is issued, the state is unchanged.  All four classes. -/
theorem wait_invalid_error :
    (∀ f : MpiFut, f.valid = false → MpiFut.step f .wait = (.errInvalid, f)) ∧
    (∀ f : MpiVoid, f.valid = false → MpiVoid.step f .wait = (.errInvalid, f)) ∧
    (∀ f : PseudoFut, f.valid = false → PseudoFut.step f .wait = (.errInvalid, f)) ∧
    (∀ f : PseudoVoid, f.valid = false → PseudoVoid.step f .wait = (.errInvalid, f)) := by
  refine ⟨?_, ?_, ?_, ?_⟩ <;> intro f hv <;>
    simp [MpiFut.step, MpiFut.wait, MpiVoid.step, MpiVoid.wait, PseudoFut.step, PseudoFut.wait, PseudoVoid.step,
      PseudoVoid.wait, hv]

example : MpiVoid.step MpiVoid.invalid .wait = (.errInvalid, MpiVoid.invalid) := by decide

/-- Ready once the operation has completed: after the operation completed (environment step), or after a `wait`,
every later `ready()` (and polling loop) answers true — for ever, whatever else is called in between; a
PseudoFuture is ready as long as it is valid.  MPIFuture<void> alike. -/
theorem ready_after_complete (initial incoming : List Int) (h0 h : List FOp) :
    AlwaysReady h (trace MpiFut.step (final MpiFut.step (MpiFut.start initial incoming) (h0 ++ [.complete])) h) ∧
    AlwaysReady h (trace MpiFut.step (final MpiFut.step (MpiFut.start initial incoming) (h0 ++ [.wait])) h) ∧
    AlwaysReady h (trace MpiVoid.step (final MpiVoid.step MpiVoid.start (h0 ++ [.complete])) h) ∧
    AlwaysReady h (trace MpiVoid.step (final MpiVoid.step MpiVoid.start (h0 ++ [.wait])) h) ∧
    (h.contains .get = false → AlwaysReady h (trace PseudoFut.step (PseudoFut.start incoming) h)) ∧
    (h.contains .get = false → AlwaysReady h (trace PseudoVoid.step PseudoVoid.start h)) := by
  have hc : AlwaysReady h
      (trace MpiFut.step (final MpiFut.step (MpiFut.start initial incoming) (h0 ++ [.complete])) h) := by
    apply MpiFut.notPending_ready
    rw [final_append]
    generalize final MpiFut.step (MpiFut.start initial incoming) h0 = f
    cases hr : f.req <;> simp [final, runFut, MpiFut.step, MpiFut.envComplete, hr]
  have hw : AlwaysReady h
      (trace MpiFut.step (final MpiFut.step (MpiFut.start initial incoming) (h0 ++ [.wait])) h) := by
    apply MpiFut.notPending_ready
    rw [final_append]
    have hi : MpiFut.Inv (final MpiFut.step (MpiFut.start initial incoming) h0) :=
      MpiFut.inv_final _ h0 (by intro hv; simp [MpiFut.start] at hv)
    generalize final MpiFut.step (MpiFut.start initial incoming) h0 = f at hi
    unfold MpiFut.Inv at hi
    cases hr : f.req <;> cases hv : f.valid <;>
      simp_all [final, runFut, MpiFut.step, MpiFut.wait, MpiFut.mpiWait, MpiFut.envComplete, mpiWaitReq]
  have e : MpiVoid.start = eraseMpi (MpiFut.start initial incoming) := rfl
  have e' : PseudoVoid.start = erasePseudo (PseudoFut.start incoming) := rfl
  refine ⟨hc, hw, ?_, ?_, fun hg => PseudoFut.valid_ready _ h hg rfl, fun hg => ?_⟩
  · rw [e, (mpiVoid_trace _ _).2, (mpiVoid_trace _ h).1]
    exact alwaysReady_map_erase _ _ hc
  · rw [e, (mpiVoid_trace _ _).2, (mpiVoid_trace _ h).1]
    exact alwaysReady_map_erase _ _ hw
  · rw [e', (pseudoVoid_trace _ h).1]
    exact alwaysReady_map_erase _ _ (PseudoFut.valid_ready _ h hg rfl)

/-- Readiness is stable: once a `ready()` of an MPI future has answered true (after any history), every later
`ready()` and polling loop answers true, whatever is called in between. -/
theorem ready_stays_true (initial incoming : List Int) (h0 h : List FOp)
    (ht : (MpiFut.step (final MpiFut.step (MpiFut.start initial incoming) h0) .ready).1 = .bool true) :
    AlwaysReady h (trace MpiFut.step (final MpiFut.step (MpiFut.start initial incoming) (h0 ++ [.ready])) h) := by
  apply MpiFut.notPending_ready
  rw [final_append]
  exact MpiFut.ready_true_notPending _ ht

example : AlwaysReady [.ready, .valid, .spin]
    (trace MpiFut.step (final MpiFut.step (MpiFut.start [0] [5]) ([.complete] ++ [.ready])) [.ready, .valid, .spin]) :=
  ready_stays_true [0] [5] [.complete] _ (by decide)

/-- and before that, `ready()` does not lie: while the request is pending it answers false -/
theorem ready_false_while_pending (f : MpiFut) (hr : f.req = .pending) : (MpiFut.step f .ready).1 = .bool false := by
  simp [MpiFut.step, MpiFut.ready, mpiTest, hr]

example : trace MpiFut.step (MpiFut.start [0] [5]) [.ready, .complete, .ready, .valid, .ready] =
    [.bool false, .env, .bool true, .bool true, .bool true] := by decide

/-- The void futures follow the same protocol: for every call history, MPIFuture<void> (resp. PseudoFuture<void>)
answers exactly like MPIFuture<T> (resp. PseudoFuture<T>) with the payload erased.  (False for the code before
fixes/C19_mpifuture_void_get.patch: there `get` left MPIFuture<void> valid.) -/
theorem void_future_same_protocol (h : List FOp) :
    (∀ f : MpiFut, trace MpiVoid.step (eraseMpi f) h = (trace MpiFut.step f h).map eraseObs) ∧
    (∀ f : PseudoFut, trace PseudoVoid.step (erasePseudo f) h = (trace PseudoFut.step f h).map eraseObs) :=
  ⟨fun f => (mpiVoid_trace f h).1, fun f => (pseudoVoid_trace f h).1⟩

example : trace MpiVoid.step MpiVoid.start [.get, .valid, .get, .wait] =
    [.ok, .bool false, .errInvalid, .errInvalid] := by decide

/-- The type-erased `Dune::Future<T>` adds nothing and hides nothing: holding a future it answers every call history
exactly like that future (so all theorems above hold for it), and `Future<void>` around a future with a payload
answers with the payload erased. -/
theorem erased_future_transparent {σ : Type} (inner : σ → FOp → FObs × σ) (f : σ) (h : List FOp) :
    trace (erasedStep inner) (some f) h = trace inner f h ∧
    final (erasedStep inner) (some f) h = some (final inner f h) ∧
    trace (voidCastStep inner) f h = (trace inner f h).map eraseObs :=
  ⟨(erased_some inner f h).1, (erased_some inner f h).2, (voidCast_trace inner f h).1⟩

example : trace (erasedStep MpiFut.step) (some (MpiFut.start [-777] [42])) [.ready, .get, .get] =
    [.bool false, .data [42], .errInvalid] := by decide

/-- A default-constructed or moved-from `Dune::Future<T>` (null pointer) reports misuse: over every call history it
says `valid() = false`-compatible answers only — every `wait` and `get` (and `ready`) throws
InvalidFutureException, nothing is handed out, it stays null.  (False for the code before
fixes/C19_future_null_invalid.patch: there wait/get/ready dereferenced the null pointer.) -/
theorem null_future_reports_misuse {σ : Type} (inner : σ → FOp → FObs × σ) (h : List FOp) :
    MisuseReported h (trace (erasedStep inner) none h) ∧ dataOf (trace (erasedStep inner) none h) = [] ∧
      succGets h (trace (erasedStep inner) none h) = 0 ∧ final (erasedStep inner) none h = none ∧
      (erasedStep inner none .valid).1 = .bool false :=
  ⟨(erased_null inner h).1, (erased_null inner h).2.1, (erased_null inner h).2.2.1, (erased_null inner h).2.2.2, rfl⟩

example : trace (erasedStep PseudoFut.step) none [.valid, .wait, .get, .ready] =
    [.bool false, .errInvalid, .errInvalid, .errInvalid] := by decide

end DV.C19
