/-
C19 — property theorems (guard agreement, futures deliver exactly once) about the model in Model/C19.lean.
Helper lemmas: Proofs/C19Guard.lean, Proofs/C19Future.lean.  Core Lean only.

Assumed, not proved (MANIFEST note): MPI itself — a collective on a communicator completes once every member has
entered it and delivers the same sum to all; a request completes iff the operation completed; MPI_Wait returns then.
-/
import DuneVerif.Proofs.C19Guard
import DuneVerif.Proofs.C19Future

namespace DV.C19

/-! ## Guard -/

/-- Every path of every rank through a guarded section — whatever guard object the rank starts with (none, an
inactive one, one still armed by `reactivate()`), whichever way it arms (`n`,`m`,`a`) and whichever of
finalize(true) / finalize() / finalize(false) / reactivate() / exception / scope exit it takes — issues exactly one
`sum` and then returns. -/
theorem one_collective_per_section (st : Option Guard) (s : Arm × Act) : OneSum (sectionProg st s) := by
  rw [sectionProg_eq]
  intro r
  exact ⟨_, rfl⟩

example : OneSum (sectionProg (some { active := false }) (.freshInactive, .throwUser)) :=
  one_collective_per_section _ _

/-- Collectives match ⇒ no deadlock at this level: ranks (any number ≥ 1) whose programs all issue exactly one
collective run to completion, every rank returns. -/
theorem collectives_match_no_deadlock {α : Type} (ps : List (Prog α)) (hne : ps ≠ []) (h : ∀ p ∈ ps, OneSum p) :
    ∃ vs, runJoint 2 ps = .done vs ∧ vs.length = ps.length := by
  obtain ⟨cks, hcks, hlen, hk⟩ := allSum_of_oneSum ps h
  have hret : ∀ p ∈ cks.map (fun ck => ck.2 ((cks.map (·.1)).sum)), ∃ a, p = Prog.ret a := by
    intro p hp
    obtain ⟨ck, hck, rfl⟩ := List.mem_map.mp hp
    exact hk ck hck _
  obtain ⟨vs, hvs, hvlen⟩ := allRet_of_forall_ret _ hret
  refine ⟨vs, ?_, by simp [hvlen, hlen]⟩
  simp [runJoint, allRet_none_of_oneSum ps hne h, hcks, hvs]

example : runJoint 2 [sectionProg none (.fresh, .finTrue), sectionProg none (.rearm, .throwUser),
    sectionProg (some { active := true }) (.fresh, .react)] =
    .done [(some { active := false }, .guardError), (none, .userExc), (some { active := false }, .guardError)] := by
  decide

/-- The model's negative case is real: a rank that leaves without its collective deadlocks the others. -/
example : runJoint 5 [sectionProg none (.fresh, .finTrue), Prog.ret (none, Obs.none)] = .deadlock := by decide

/-- Re-arming: whatever happened before (error observed or not, guard destroyed or kept), each of the three ways of
arming yields an armed guard without any collective and without an exception. -/
theorem rearm (st : Option Guard) (m : Arm) : ∃ g, armProg st m = .ret (some g) ∧ g.active = true := by
  rcases st with _ | ⟨⟨_ | _⟩⟩ <;> cases m <;>
    simp [armProg, destroy, reactivate, Prog.bind]

example : armProg (some { active := false }) .rearm = .ret (some { active := true }) := rfl

/-- The destructor never lets an exception escape (it clears `active_` before calling finalize(false)). -/
theorem destructor_never_throws (g : Guard) :
    destroy g = .ret false ∨ ∃ c, destroy g = .sum c (fun _ => .ret false) := by
  rcases g with ⟨_ | _⟩
  · left; simp [destroy]
  · right; exact ⟨1, by simp [destroy, finalize, Prog.bind]⟩

/-- Sequences of sections (induction on the number of sections): for every set of ranks sharing the communicator,
every number `n` of consecutive sections and every script (who arms how and does what in which section), provided
no rank ends the *last* section with the re-arming `reactivate()` checkpoint, the joint execution terminates without
deadlock and every rank observes in every section exactly what the property demands (`specObs`). -/
theorem sections_agree (members : List Nat) (n fuel : Nat) (script : Nat → Nat → Arm × Act) (hf : n < fuel)
    (hlast : ∀ n', n = n' + 1 → ∀ i ∈ members, (script i n').2 ≠ .react) :
    runJoint fuel (members.map fun i => rankProg (script i) n) =
      .done (members.map fun i => (List.range n).map (specObs members script i)) := by
  have hl : LastOk members script (fun _ => none) n := by
    cases n with
    | zero => intro i _; trivial
    | succ n' => exact hlast n' rfl
  have := joint_scripts members n fuel script (fun _ => none) (fun _ => []) hf hl
  simpa [rankProg] using this

/-- three ranks, three sections; rank 1 throws in section 0, rank 2 reports failure in section 2 -/
def exScript : Nat → Nat → Arm × Act
  | 1, 0 => (.fresh, .throwUser)
  | 2, 2 => (.rearm, .finFalse)
  | 0, 1 => (.rearm, .react)
  | _, _ => (.fresh, .finTrue)

example : runJoint 4 ([0, 1, 2].map fun i => rankProg (exScript i) 3) =
    .done [[.guardError, .none, .guardError], [.userExc, .none, .guardError], [.guardError, .none, .guardError]] := by
  decide

/-- Agreement: if the section `k` fails on any member (exception, scope exit or finalize(false)), every member that
reaches the checkpoint in section `k` observes MPIGuardError — for all member sets, all failure subsets, both failure
modes, in each of any number of consecutive sections. -/
theorem agreement (members : List Nat) (n fuel : Nat) (script : Nat → Nat → Arm × Act) (hf : n < fuel)
    (hlast : ∀ n', n = n' + 1 → ∀ i ∈ members, (script i n').2 ≠ .react) :
    ∃ out, runJoint fuel (members.map fun i => rankProg (script i) n) = .done out ∧
      out.length = members.length ∧
      ∀ (p i : Nat), members[p]? = some i → ∃ row : List Obs, out[p]? = some row ∧ row.length = n ∧
        ∀ k, k < n → (∃ j ∈ members, fails (script j k).2 = true) → reaches (script i k).2 = true →
          row[k]? = some Obs.guardError := by
  refine ⟨_, sections_agree members n fuel script hf hlast, by simp, ?_⟩
  intro p i hp
  refine ⟨(List.range n).map (specObs members script i), by simp [hp], by simp, ?_⟩
  intro k hk hfail hreach
  have hany : (members.any fun j => fails (script j k).2) = true := by
    obtain ⟨j, hj, hjf⟩ := hfail
    exact List.any_eq_true.mpr ⟨j, hj, hjf⟩
  have : specObs members script i k = Obs.guardError := by
    unfold specObs
    rw [hany]
    cases h : (script i k).2 <;> simp_all [expectedObs, reaches]
  simp [hk, this]

/-- No failure, no error: if no member fails in section `k`, no member observes MPIGuardError there (every member
observes nothing at all). -/
theorem no_failure_no_error (members : List Nat) (n fuel : Nat) (script : Nat → Nat → Arm × Act) (hf : n < fuel)
    (hlast : ∀ n', n = n' + 1 → ∀ i ∈ members, (script i n').2 ≠ .react) :
    ∃ out, runJoint fuel (members.map fun i => rankProg (script i) n) = .done out ∧
      ∀ (p i : Nat), members[p]? = some i → ∃ row : List Obs, out[p]? = some row ∧
        ∀ k, k < n → (∀ j ∈ members, fails (script j k).2 = false) → row[k]? = some Obs.none := by
  refine ⟨_, sections_agree members n fuel script hf hlast, ?_⟩
  intro p i hp
  refine ⟨(List.range n).map (specObs members script i), by simp [hp], ?_⟩
  intro k hk hnofail
  have hany : (members.any fun j => fails (script j k).2) = false := by
    apply Bool.eq_false_iff.mpr
    intro h
    obtain ⟨j, hj, hjf⟩ := List.any_eq_true.mp h
    rw [hnofail j hj] at hjf
    exact Bool.noConfusion hjf
  have hi : i ∈ members := List.mem_of_getElem? hp
  have hfi := hnofail i hi
  have : specObs members script i k = Obs.none := by
    unfold specObs
    rw [hany]
    cases h : (script i k).2 <;> simp_all [expectedObs, fails]
  simp [hk, this]

/-- The user's own exception is never replaced and a failing rank never hangs: a rank that throws sees its own
exception, a rank leaving the scope sees nothing, in every section of every case. -/
theorem failing_rank_passes (members : List Nat) (script : Nat → Nat → Arm × Act) (i k : Nat) :
    ((script i k).2 = .throwUser → specObs members script i k = .userExc) ∧
    ((script i k).2 = .leave → specObs members script i k = .none) := by
  constructor <;> intro h <;> simp [specObs, h, expectedObs]

/-! ## Futures -/

/-- A future returned by a non-blocking operation is valid exactly until the result is taken: after any call history
`h` (valid/ready/wait/get/spin and the operation completing at any point) it is valid iff `h` contains no `get`.
All four classes. -/
theorem future_valid_until_get (initial incoming : List Int) (h : List FOp) :
    ((final MpiFut.step (MpiFut.start initial incoming) h).valid = !h.contains .get) ∧
    ((final MpiVoid.step MpiVoid.start h).valid = !h.contains .get) ∧
    ((final PseudoFut.step (PseudoFut.start incoming) h).valid = !h.contains .get) ∧
    ((final PseudoVoid.step PseudoVoid.start h).valid = !h.contains .get) := by
  have h1 := MpiFut.final_valid (MpiFut.start initial incoming) h
  have h3 := PseudoFut.final_valid (PseudoFut.start incoming) h
  have h2 := (mpiVoid_trace (MpiFut.start initial incoming) h).2
  have h4 := (pseudoVoid_trace (PseudoFut.start incoming) h).2
  refine ⟨by simpa [MpiFut.start] using h1, ?_, by simpa [PseudoFut.start] using h3, ?_⟩
  · have e : eraseMpi (MpiFut.start initial incoming) = MpiVoid.start := rfl
    rw [e] at h2
    rw [h2]
    simpa [eraseMpi, MpiFut.start] using h1
  · have e : erasePseudo (PseudoFut.start incoming) = PseudoVoid.start := rfl
    rw [e] at h4
    rw [h4]
    simpa [erasePseudo, PseudoFut.start] using h3

example : (final MpiFut.step (MpiFut.start [-777] [42]) [.valid, .ready, .complete, .wait]).valid = true := by decide
example : (final MpiFut.step (MpiFut.start [-777] [42]) [.valid, .get, .valid]).valid = false := by decide

/-- Exactly once, exactly the operation's data: over any call history the payloads handed out by `get` are the list
`[incoming]` if the history contains a `get` and `[]` otherwise — never the stale buffer contents `initial`, never
twice. -/
theorem get_once (initial incoming : List Int) (h : List FOp) :
    dataOf (trace MpiFut.step (MpiFut.start initial incoming) h) = (if h.contains .get then [incoming] else []) ∧
    dataOf (trace PseudoFut.step (PseudoFut.start incoming) h) = (if h.contains .get then [incoming] else []) := by
  constructor
  · have := MpiFut.valid_data (MpiFut.start initial incoming) h rfl
    simpa [MpiFut.payload, MpiFut.start] using this
  · have := PseudoFut.valid_data (PseudoFut.start incoming) h rfl
    simpa [PseudoFut.start] using this

example : trace MpiFut.step (MpiFut.start [-777] [42]) [.ready, .get, .get, .valid] =
    [.bool false, .data [42], .errInvalid, .bool false] := by decide

/-- After the result has been taken every further `get` and `wait` is answered with InvalidFutureException (no stale
data, no blocking), whatever happened before and whatever follows. -/
theorem get_after_get_error (initial incoming : List Int) (h1 h2 : List FOp) :
    MisuseReported h2 (trace MpiFut.step (final MpiFut.step (MpiFut.start initial incoming) (h1 ++ [.get])) h2) ∧
    MisuseReported h2 (trace PseudoFut.step (final PseudoFut.step (PseudoFut.start incoming) (h1 ++ [.get])) h2) := by
  constructor
  · apply MpiFut.invalid_misuse
    rw [MpiFut.final_valid]
    simp
  · apply PseudoFut.invalid_misuse
    rw [PseudoFut.final_valid]
    simp

/-- `wait()` on an invalid future (result taken, or default constructed) throws InvalidFutureException immediately:
no MPI_Wait is issued, the state is unchanged.  All four classes. -/
theorem wait_invalid_error :
    (∀ f : MpiFut, f.valid = false → MpiFut.step f .wait = (.errInvalid, f)) ∧
    (∀ f : MpiVoid, f.valid = false → MpiVoid.step f .wait = (.errInvalid, f)) ∧
    (∀ f : PseudoFut, f.valid = false → PseudoFut.step f .wait = (.errInvalid, f)) ∧
    (∀ f : PseudoVoid, f.valid = false → PseudoVoid.step f .wait = (.errInvalid, f)) := by
  refine ⟨?_, ?_, ?_, ?_⟩ <;> intro f hv <;>
    simp [MpiFut.step, MpiFut.wait, MpiVoid.step, MpiVoid.wait, PseudoFut.step, PseudoFut.wait, PseudoVoid.step,
      PseudoVoid.wait, hv]

example : MpiVoid.step MpiVoid.invalid .wait = (.errInvalid, MpiVoid.invalid) := by decide

/-- Ready once the operation has completed: after the operation completed (environment step), or after a `wait`,
every later `ready()` (and polling loop) answers true — for ever, whatever else is called in between; a
PseudoFuture is ready as long as it is valid. -/
theorem ready_after_complete (initial incoming : List Int) (h0 h : List FOp) :
    AlwaysReady h (trace MpiFut.step (final MpiFut.step (MpiFut.start initial incoming) (h0 ++ [.complete])) h) ∧
    AlwaysReady h (trace MpiFut.step (final MpiFut.step (MpiFut.start initial incoming) (h0 ++ [.wait])) h) ∧
    (h.contains .get = false → AlwaysReady h (trace PseudoFut.step (PseudoFut.start incoming) h)) := by
  refine ⟨?_, ?_, fun hg => PseudoFut.valid_ready _ h hg rfl⟩
  · apply MpiFut.notPending_ready
    rw [final_append]
    generalize final MpiFut.step (MpiFut.start initial incoming) h0 = f
    cases hr : f.req <;> simp [final, runFut, MpiFut.step, MpiFut.envComplete, hr]
  · apply MpiFut.notPending_ready
    rw [final_append]
    have hi : MpiFut.Inv (final MpiFut.step (MpiFut.start initial incoming) h0) :=
      MpiFut.inv_final _ h0 (by intro hv; simp [MpiFut.start] at hv)
    generalize final MpiFut.step (MpiFut.start initial incoming) h0 = f at hi
    unfold MpiFut.Inv at hi
    cases hr : f.req <;> cases hv : f.valid <;>
      simp_all [final, runFut, MpiFut.step, MpiFut.wait, MpiFut.mpiWait, MpiFut.envComplete, mpiWaitReq]

/-- and before that, `ready()` does not lie: while the request is pending it answers false -/
theorem ready_false_while_pending (f : MpiFut) (hr : f.req = .pending) : (MpiFut.step f .ready).1 = .bool false := by
  simp [MpiFut.step, MpiFut.ready, mpiTest, hr]

example : trace MpiFut.step (MpiFut.start [0] [5]) [.ready, .complete, .ready, .valid, .ready] =
    [.bool false, .env, .bool true, .bool true, .bool true] := by decide

/-- The void futures follow the same protocol: for every call history, MPIFuture<void> (resp. PseudoFuture<void>)
answers exactly like MPIFuture<T> (resp. PseudoFuture<T>) with the payload erased.  (False for the code before
fixes/C19_mpifuture_void_get.patch: there `get` left MPIFuture<void> valid.) -/
theorem void_future_same_protocol (h : List FOp) :
    (∀ f : MpiFut, trace MpiVoid.step (eraseMpi f) h = (trace MpiFut.step f h).map eraseObs) ∧
    (∀ f : PseudoFut, trace PseudoVoid.step (erasePseudo f) h = (trace PseudoFut.step f h).map eraseObs) :=
  ⟨fun f => (mpiVoid_trace f h).1, fun f => (pseudoVoid_trace f h).1⟩

example : trace MpiVoid.step MpiVoid.start [.get, .valid, .get, .wait] =
    [.ok, .bool false, .errInvalid, .errInvalid] := by decide

end DV.C19
